#!/usr/bin/env python3
"""C01 — every front-end delivers the request the peer sent, however it is segmented.
See DESIGN.md section 5 (C01) and design.d/C01.md.  Usage: checks/c01.py [--tier quick|thorough] [--replay file]"""
import os, sys, json, random
HERE = os.path.dirname(os.path.abspath(__file__))
sys.path.insert(0, os.path.join(HERE, "..", "lib"))
sys.path.insert(0, os.path.join(HERE, "..", "gen"))
from vcheck import *
from c01run import *
from c01peer import gen_peer, gen_gateway, judge_lines

P = "Cppcms.C01.Props."
OBLIGATIONS = [
    (P + "scgi_buffer_eq_stream", "SCGI: buffer-level connection model (16 eager bytes, netstring arithmetic, pair walk, content loop) = function of the concatenated stream"),
    (P + "segmentation_independent_scgi", "SCGI: for all byte streams (malformed included) the connection's fate is independent of the segmentation"),
    (P + "fcgi_buffer_eq_stream", "FastCGI: record reader over the read-ahead cache (cache_start_/cache_end_, compaction, padding) + dispatch + PARAMS/STDIN reassembly + keep-alive = function of the concatenated stream"),
    (P + "segmentation_independent_fcgi", "FastCGI: segmentation independence for all byte streams, whole keep-alive connections"),
    (P + "http_buffer_eq_stream", "HTTP: read-ahead buffer + generated parser::step() with getc/ungetc + total_read_ + body drained once + keep-alive leftovers = stream-level result whenever header sections fit the 16 KiB cap"),
    (P + "segmentation_independent_http", "HTTP: segmentation independence for all byte streams whose header sections fit the cap (the unrestricted statement is false of the code and recorded as such)"),
    (P + "limits_admit_wf", "the three 16 KiB limits regenerated from the source are the bound used in the well-formedness predicates (16384)"),
    (P + "fcgi_roundtrip", "FastCGI round trip: WF request, name-value block cut into PARAMS records anywhere, body cut into STDIN records anywhere, any padding 0..255, either length encoding, any segmentation -> exactly the peer's environment and body stream reach the request layer"),
    (P + "keepalive_sequence_fcgi", "FastCGI keep-alive: well-formed requests with FCGI_KEEP_CONN back to back (each framed freely, any segmentation) are each delivered exactly, in order"),
    (P + "frontends_agree_scgi_fcgi", "the same environment and body over SCGI and over FastCGI (any framing/segmentation) have the same fate"),
    (P + "http_folded_header_roundtrip", "HTTP obs-fold (CRLF 1*(SP/HTAB)) over the generated parser: a header continued on lines starting with SP or HTAB is reported with the unfolded value (CRLFs dropped, the blank/tab kept), look-ahead byte pushed back"),
    (P + "http_folded_lines_roundtrip", "header section with any number of SP/HTAB folds in any number of headers: each header reaches the per-header code with its unfolded value, in order; then process_request; body unread"),
    (P + "http_header_lines_roundtrip", "HTTP (generated parser): plain header lines reach the per-header code unchanged, one by one, in order; then process_request; body left unread (partial: no folded/quoted headers, no inverse of header canonicalisation / percent-decoding)"),
    (P + "get_after_adds", "string_map (open addressing, growth at total*2>=size, probe start/step regenerated from private/string_map.h): for every hash function and every sequence of adds, get(name) = the abstract environment's answer; breaks when get does not probe the way add inserted"),
    (P + "get_after_adds_plain", "string_map: a name never added is not found; with pairwise different names every variable is found by name with the value it was added with (any hash, any number of growths)"),
    (P + "urldecode_inverts_percent_encoding", "util::urldecode inverts every percent-encoding (any set of escaped bytes, upper/lower case hex digits, + or %20 for a blank)"),
    (P + "parse_form_urlencoded_roundtrip", "request::parse_form_urlencoded: for every list of fields and every admissible encoding the form holds the fields the peer meant, in order"),
    (P + "parse_cookies_roundtrip", "request::parse_cookies: every list of cookies (token names, token or empty values, ; or , and any blanks between) is delivered as the map the peer meant"),
    (P + "http_head_roundtrip", "HTTP request head through the per-line code: request line split, parse_single_header (canonical CGI names), process_request (method check, ? split, script-name match, percent-decoding of the path) = the head the peer meant"),
    (P + "http_roundtrip", "HTTP round trip: well-formed request, header lines folded any way, body, any segmentation -> exactly the peer's head and body stream reach the request layer"),
    (P + "http_header_budget_per_request", "the 16 KiB header budget of the embedded server (total_read_) starts at 0 for every request of a kept-alive connection (assignments to total_read_ regenerated; the connection model carries the counter)"),
    (P + "keepalive_sequence_http", "HTTP keep-alive: well-formed requests back to back on one connection, any segmentation, are each delivered exactly, in order"),
    (P + "frontends_agree_http", "the embedded HTTP server and a gateway sending the derived CGI variables over SCGI / FastCGI (any framing, any segmentation) agree on the fate of the request"),
    (P + "view_roundtrip_get", "from the head to the application's view (shared by the three front-ends): query string and cookie header written by the peer-side encoders -> exactly those GET fields and cookies"),
    (P + "view_roundtrip_post", "urlencoded POST body written by the peer-side encoder -> exactly those POST fields and the raw body, exactly the body consumed"),
    (P + "http_get_end_to_end", "HTTP end to end: well-formed GET, any folding, any segmentation -> the application runs once on exactly the view the peer meant"),
    (P + "scgi_roundtrip", "SCGI round trip: WF request encoded by the peer, any segmentation -> exactly the peer's environment (pairs, order) and body stream reach the request layer"),
]
OBLIGATIONS_FILE = os.path.join(HERE, "c01_obligations.json")
if os.path.exists(OBLIGATIONS_FILE):
    OBLIGATIONS = [tuple(x) for x in json.load(open(OBLIGATIONS_FILE))]


def gen_cases(c, scale):
    rng = c.rng
    cases = load_corpus(ROOT, "C01")
    n_req = 120 * scale
    for i in range(n_req):
        r = gen_absreq(rng, big=(rng.random() < 0.03))
        if rng.random() < 0.15:
            r.keep = True; r.http11 = rng.random() < 0.8
        enc, q, ck = encode_all(r, rng)
        for api in APIS:
            budget = 3 if len(enc[api]) < 20000 else 1
            for segs in segmentations(rng, enc[api], budget):
                cases.append(Case(api, "hc", segs, absreq=(r, q, ck), tag="wf"))
    # fixed at every seed: obs-fold with HTAB / SP / mixed, in several headers, cut inside the fold; URIs whose first
    # component has a configured script name (http.script_names = /s /a /f) as a proper string prefix
    def fixed(method, script, path, uri, hdr_wire, hdr_meant):
        r = AbsReq()
        r.method, r.script, r.path, r.headers = method, script, path, hdr_meant
        data = enc_http(method, uri, [(n, w, b": ") for n, w in hdr_wire], b"")
        segsets = [[data]] + [[data[:k], data[k:]] for k in range(1, len(data))] + [[data[i:i + 1] for i in range(len(data))]]
        for segs in segsets:
            cases.append(Case("http", "hc", segs, absreq=(r, b"", b""), tag="wf-fixed"))
    fixed(b"GET", b"/s", b"/fold", b"/s/fold", [(b"Accept", b"text/html,\r\n\tapplication/xml")], [(b"Accept", b"text/html,\tapplication/xml")])
    fixed(b"GET", b"/a", b"/fold", b"/a/fold", [(b"Accept", b"a,\r\n b,\r\n\tc,\r\n \t d"), (b"X-Two", b"1\r\n\t2\r\n\t\t3"), (b"X-Plain", b"p")],
          [(b"Accept", b"a, b,\tc, \t d"), (b"X-Two", b"1\t2\t\t3"), (b"X-Plain", b"p")])
    for uri in (b"/sing/x", b"/s.html", b"/ax", b"/a-v2/index", b"/f%2Fx", b"/ss/s", b"/s_"):
        dec = uri.replace(b"%2F", b"/")
        fixed(b"GET", b"", dec, uri, [], [])
    # requests in peer form (the structures the round-trip theorems quantify over): judged by the Lean driver against the
    # theorems' right-hand sides (J peer / J form / J cookies)
    for i in range(60 * scale):
        q = gen_peer(rng)
        for segs in segmentations(rng, q.wire, 2):
            x = Case("http", "hc", segs, tag="wf-peer")
            x.peer = q
            cases.append(x)
    # FastCGI: a padded, (nearly) full-size STDIN record (content 65500..65535, padding 1..255): the sizes of the record
    # reader must not wrap; the head of the record arrives in the same read as the records before it
    for i in range(6 * scale):
        r, q, ck, d, _ = fcgi_fullsize(rng)
        for segs in segmentations(rng, d, 1) + [[d]]:
            cases.append(Case("fastcgi", "hc", segs, absreq=(r, q, ck), tag="wf-fullsize-record"))
    for i in range(30 * scale):
        q = gen_gateway(rng)
        for api in ("scgi", "fastcgi"):
            for segs in segmentations(rng, q.wires[api], 1):
                x = Case(api, "hc", segs, tag="wf-peer-gateway")
                x.peer = q
                cases.append(x)
    # 30..150 variables (string_map growth) on all three front-ends; the echo reports the map and by-name lookups
    for i in range(10 * scale):
        r = gen_absreq(rng, manyvars=True)
        enc, q, ck = encode_all(r, rng)
        for api in APIS:
            for segs in segmentations(rng, enc[api], 1):
                cases.append(Case(api, "hc", segs, absreq=(r, q, ck), tag="wf-manyvars"))
    # kept-alive connections whose first request carries one variable of 1025..2040 bytes (string_pool pages)
    for i in range(6 * scale):
        for api in ("http", "fastcgi"):
            parts = []
            k = rng.choice([2, 3])
            for j in range(k):
                r = gen_absreq(rng, bigvalue=(j == 0), bighdr=False)
                if j > 0 and rng.random() < 0.7:
                    r.headers += [(b"X-Fill-%d" % t, rand_bytes(rng, rng.choice([200, 300, 600]), TOKEN_CHARS)) for t in range(rng.choice([3, 6, 9]))]
                r.keep = True; r.http11 = True
                enc, q, ck = encode_all(r, rng)
                parts.append(enc[api])
            d = b"".join(parts)
            for segs in segmentations(rng, d, 1):
                cases.append(Case(api, "hc", segs, tag=f"keepalive{k}-largefirst", nreq=k))
    # header sections up to the 16 KiB limits, arriving in several reads
    for i in range(10 * scale):
        r = gen_absreq(rng, bighdr=True)
        enc, q, ck = encode_all(r, rng)
        for api in APIS:
            d = enc[api]
            cases.append(Case(api, "hc", cut(d, random_cuts(rng, len(d), rng.choice([1, 2, 3, 6]))), absreq=(r, q, ck), tag="wf-bigheaders"))
    # every split point of a few short requests, per front-end
    for i in range(3 * scale):
        r = gen_absreq(rng)
        r.headers = r.headers[:2]; r.path = r.path[:6]; r.get = r.get[:1]; r.cookies = r.cookies[:1]
        if len(r.body) > 20:
            r.body = r.body[:20] if r.post is None else r.body
        enc, q, ck = encode_all(r, rng)
        for api in APIS:
            d = enc[api]
            if len(d) <= 400:
                for p in range(1, len(d)):
                    cases.append(Case(api, "hc", [d[:p], d[p:]], absreq=(r, q, ck), tag="wf-allsplits"))
    # keep-alive runs (HTTP/1.1 keep-alive, FastCGI keep-conn): 2..4 *different* requests on one connection, cut anywhere;
    # every request of the run is judged against what the peer meant (whole getenv() map included)
    def keepalive_run(api, k, tag, nsegs, mk=None, cutter=None):
        parts, reqs = [], []
        for j in range(k):
            r = mk(j) if mk else gen_absreq(rng)
            r.keep = True; r.http11 = True
            enc, q, ck = encode_all(r, rng)
            parts.append(enc[api]); reqs.append((r, q, ck))
        d = b"".join(parts)
        for segs in (cutter(parts) if cutter else segmentations(rng, d, nsegs)):
            x = Case(api, "hc", segs, tag=tag, nreq=k)
            x.absreqs = reqs
            cases.append(x)
    for i in range(12 * scale):
        k = rng.choice([2, 2, 3, 4])
        for api in ("http", "fastcgi"):
            keepalive_run(api, k, f"keepalive{k}", 2)
    # long keep-alive runs: the header sections add up to far more than 16 KiB (the per-request budget of the embedded HTTP
    # server) and every request is split across segments inside its header section
    def split_inside(parts):
        segs, carry = [], b""
        for part in parts:
            hdr_end = part.find(b"\r\n\r\n")
            hi = hdr_end if hdr_end > 2 else max(2, len(part) // 2)
            c = rng.randrange(1, hi)
            segs.append(carry + part[:c]); carry = part[c:]
        segs.append(carry)
        return [segs]
    def filled(j):
        r = gen_absreq(rng)
        r.headers = r.headers[:2] + [(b"X-Fill-%d" % t, rand_bytes(rng, rng.choice([300, 700, 1500]), TOKEN_CHARS)) for t in range(rng.choice([2, 3, 5]))]
        if len(r.body) > 2000:
            r.body = r.body[:2000] if r.post is None else b""
            if r.post is not None:
                r.post = []
        return r
    for i in range(2 * scale):
        keepalive_run("http", rng.choice([9, 12, 16]), "keepalive-long-bigheaders", 1, mk=filled, cutter=split_inside)
        keepalive_run("fastcgi", rng.choice([9, 12]), "keepalive-long-bigheaders", 1, mk=filled)
    def small(j):
        r = gen_absreq(rng)
        r.headers = r.headers[:3]
        r.body = r.body[:200] if r.post is None else b""
        if r.post is not None:
            r.post = []
        return r
    for i in range(1 * scale):
        keepalive_run("http", rng.choice([40, 60]), "keepalive-long-many", 1, mk=small, cutter=split_inside)
        keepalive_run("fastcgi", 40, "keepalive-long-many", 1, mk=small)
    return cases


def main():
    c = Check("C01")
    c.rule = ("cases = (front-end, segmentation of a byte stream): grammar-generated well-formed requests (percent escapes, folded "
              "headers, cookies, urlencoded/raw bodies 0..128 KiB, FastCGI record cuts + padding 0..255 chosen freely) encoded for "
              "http, scgi and fastcgi x whole / every split point (short) / random multi-splits / byte-by-byte, plus keep-alive runs "
              "of 2..4 requests; each case is played against the real service (sync, async and content-filter applications), the "
              "model is run on the read sizes the server really performed; non-trivial = the server saw the request in >= 2 reads "
              "and the application ran; distinct = distinct (front-end, bytes, observed read sizes)")
    c.trusted += [
        "translator translate/c01.py + cexpr.py (constants, guard expressions, struct layout, the whole parser::step() transition, exit discipline) -> C01/Gen.lean",
        "hand-written control flow of Scgi.lean / Fcgi.lean / Http.lean / Request.lean, tied by the correspondence run against the ASan+UBSan build",
        "externals modelled, not verified: booster::aio (async_read = exactly n bytes or eof; read_some = non-empty prefix), libc atoi/atoll/strlen, std::vector/std::map/std::multimap ordering, kernel sockets",
        "harness/c01.cpp + c01_service.h (in-process services, readv interposition), gen/c01*.py (peer encoders, reply de-framing)",
    ]
    c.assumptions += ["0 < service.input_buffer_size (theorems' hypothesis hb)", "a read returns a non-empty prefix of the next segment not longer than the buffer offered",
                      "HTTP keep-alive for HTTP/1.0 depends on the response path (known content length): supplied to the model as a hint taken from the reply"]
    scale = 40 if c.tier == "thorough" else 1

    c.translate("c01.py")
    proved = c.prove(["Cppcms.C01.Props"], OBLIGATIONS, exe="c01_model")
    if c.tier == "thorough" and proved:
        c.leanchecker(["Cppcms.C01.Props"])
    model = c.model_exe()
    ok_impl = c.impl_build()
    hbin = c.harness("c01") if ok_impl else None

    if c.replay_path:
        rp = json.load(open(c.replay_path))
        w = rp.get("case", "").split()
        cases = [Case(w[1], w[2], [bytes.fromhex(x) for x in w[3:]], tag="replay")] if len(w) >= 3 else []
    else:
        cases = gen_cases(c, scale)

    if hbin and os.path.exists(model) and cases:
        hp, crashes = run_impl(c, hbin, cases)
        done = run_model(c, model, cases, hp)
        c.evaluations += len(done)
        c.traces_validated += len(done)
        njudged = [0]

        def judge(cases_done):
            """-> list of (case, why) for which the property fails on the real server's output"""
            res, jl, jx = [], [], []
            for x in cases_done:
                if "multipart" in x.mflags:
                    continue
                if x.d.get("exc", "-") != "-":
                    res.append((x, "exception left service::run(): " + bytes.fromhex(x.d["exc"]).decode("latin1")))
                    continue
                if x.d.get("probe") not in ("ok", "none") or "T" in x.d.get("flags", ""):
                    res.append((x, "service died / probe failed / connection left hanging"))
                    continue
                if x.nreq is not None and f" ready={x.nreq} " not in x.impl + " ":
                    res.append((x, f"keep-alive connection: {x.nreq} well-formed requests were sent, the applications ran {x.impl.split('ready=')[1].split()[0]} times"))
                if x.peer is not None:
                    o = x.impl.split(" | ")[0]
                    if not o.startswith("app ") or " ; " in o:
                        res.append((x, "well-formed request (peer form) was not delivered to the application"))
                    else:
                        kv = dict(w.split("=", 1) for w in o.split()[1:])
                        if x.api == "http" and (x.hp or hp) is None:
                            res.append((x, "the embedded HTTP server did not answer the probe: no server parameters to judge with"))
                            continue
                        for l in judge_lines(x.peer, x.hp or hp, kv):
                            jl.append(l); jx.append(x)
                if x.absreqs is not None:
                    ls = view_judge_lines_seq(x)
                    if ls is None:
                        res.append((x, f"keep-alive connection: {len(x.absreqs)} well-formed requests were sent, not every one was delivered to the application"))
                    else:
                        for l in ls:
                            jl.append(l); jx.append(x)
                if x.absreq is not None:
                    l = view_judge_line(x)
                    if l is None:
                        res.append((x, "well-formed request was not delivered to the application"))
                    else:
                        jl.append(l); jx.append(x)
            rc, jout, jerr = c.run_lines(model, jl, timeout=3000) if jl else (0, [], "")
            for x, o in zip(jx, jout):
                if o != "1":
                    if x.peer is not None:
                        res.append((x, "peer-form request: hypotheses / encoder / right-hand side of the round-trip theorems do not match the real server: " + o))
                    else:
                        res.append((x, "application did not observe the request the peer encoded (Spec.viewOk false)"))
            if len(jout) != len(jl):
                c.broke("judge", f"model driver answered {len(jout)} of {len(jl)} judge lines: {jerr[-800:]}")
            njudged[0] += len(jl)
            return res
        bad = judge(done)
        badset = set(id(x) for x, _ in bad)
        diffs = []
        for x in done:
            if "multipart" in x.mflags or id(x) in badset:
                continue
            if x.impl != x.model:
                diffs.append(x)
            if len(x.reads) >= 2 and " ready=0" not in x.impl:
                c.nontrivial.add((x.api, x.data(), tuple(x.reads)))
        jl = [None] * njudged[0]
        c.extra_cov["judged_requests"] = len(jl)
        dist = {}
        for x in done:
            k = x.api + ":" + x.tag.split(":")[0]
            dist[k] = dist.get(k, 0) + 1
        c.extra_cov["case_distribution"] = dist
        c.extra_cov["segments_seen_by_server"] = {"1": sum(1 for x in done if len(x.reads) <= 1), "2": sum(1 for x in done if len(x.reads) == 2),
                                                   "3+": sum(1 for x in done if len(x.reads) > 2)}
        c.extra_cov["barrier_misses"] = sum(int(x.d.get("miss", "0")) for x in done)
        pick = [done[i] for i in (0, len(done) // 3, len(done) // 2, len(done) - 1)] if done else []
        c.samples = [{"case": x.line()[:300], "reads": x.d.get("reads"), "impl": x.impl[:300], "model": x.model[:300]} for x in pick]
        # requests relayed by the forwarder (service with forwarding.rules -> in-process SCGI backend): the backend application
        # must observe the request the peer sent, body included (bodies up to 40000 bytes go through the 8 KiB relay buffer)
        if not c.replay_path:
            fw = [x for x, k in gen_fwd_cases(c.rng, 12 * scale) if k == "wf"]
            fcr = run_fwd(c, hbin, fw)
            c.evaluations += len(fw)
            c.extra_cov["forwarded_wellformed_cases"] = len(fw)
            fjl, fjx = [], []
            for x in fw:
                if not x.d or "calls" not in x.d:
                    continue
                l = view_judge_line(x) if x.impl else None
                if l is None:
                    bad.append((x, "well-formed forwarded request was not relayed to the backend / its answer not relayed back", ""))
                else:
                    fjl.append(l); fjx.append(x)
            rc, fjout, fjerr = c.run_lines(model, fjl, timeout=3000) if fjl else (0, [], "")
            for x, o in zip(fjx, fjout):
                if o != "1":
                    bad.append((x, "forwarded request: the backend application did not observe the request the peer sent (Spec.viewOk false)", ""))
            for x, err in fcr:
                bad.append((x, "sanitizer abort / crash of the real service (forwarded request)", err))
        for x, err in crashes:
            bad.append((x, crash_reason(err), err))
        if not c.replay_path:
            bad = confirm_soft(c, hbin, model, bad, judge)
        for item in pick_diverse(bad, 20):
            x, why = item[0], item[1]
            c.violation(why, dict(x.replay(), stderr=item[2]) if len(item) > 2 else x.replay())
        if diffs and not bad and not crashes:
            x = diffs[0]
            c.broke("correspondence (model vs real service)", f"{len(diffs)} differing cases; first: {x.line()[:400]}\nimpl : {x.impl[:600]}\nmodel: {x.model[:600]}")
        if c.replay_path:
            for x in cases:
                print("case :", x.line()[:400]); print("impl :", x.impl); print("model:", x.model)
    c.finish()


if __name__ == "__main__":
    main()
