#!/usr/bin/env python3
"""C11 — JSON parsing accepts exactly well-formed documents; serialization round-trips.
See DESIGN.md section 5 (C11) and design.d/C11.md.
Usage: checks/c11.py [--tier quick|thorough] [--replay file]"""
import os, sys, json, struct, math, re
sys.path.insert(0, os.path.join(os.path.dirname(os.path.abspath(__file__)), "..", "lib"))
from vcheck import *
from fractions import Fraction

sys.setrecursionlimit(20000)

P = "Cppcms.C11.Props."
OBLIGATIONS = [
    (P + "key_order_is_bytewise_lexicographic", "string_key::operator< as translated from the header is the bytewise lexicographic order on all byte strings incl. NUL: strict, total, equivalent iff identical; operator== is length+memcmp"),
    (P + "parse_total", "every byte string: parse returns none or a tree whose strings/keys are valid UTF-8 (RFC 3629), whose keys are unique and sorted, and whose depth is <= 512"),
    (P + "accepts_rfc8259", "every RFC 8259 document (independent inductive grammar, any whitespace, all escapes, paired surrogates, unique keys, numbers the conversion accepts) of depth <= 512 parses to the tree it denotes"),
    (P + "failed_parse_leaves_target", "value::load returns false => the target is unchanged; returns true => target = parsed tree"),
    (P + "write_parse_roundtrip_partial", "NoUndefined, StringsUtf8, NumsFinite, sorted unique keys, depth <= 512, NumLaw => parse (save mode v) = mapNum rt v, both modes"),
    (P + "write_parse_roundtrip_second", "under NumIdem the second round is exact: parse (save mode (mapNum rt v)) = mapNum rt v"),
    (P + "save_locale_independent", "for every stream locale (decimal point, thousands separator, grouping) value::write produces the classic-locale text: the source imbues C unconditionally (regenerated)"),
    (P + "roundtrip_counterexample_nonfinite", "known finding: a number member holding inf is written as `inf`, which does not parse"),
    (P + "roundtrip_counterexample_invalid_utf8", "known finding: a string member holding the byte FF is written raw and rejected by the parser"),
    (P + "roundtrip_counterexample_dbl_max", "known finding (found by this check): DBL_MAX is written as 1.797693134862316e+308, which overflows on parse"),
    (P + "full_roundtrip_false", "the full-strength round-trip statement is false of the model instantiated with exact binary64"),
    (P + "write_undefined_throws", "a tree with an undefined member cannot be written (model of bad_value_cast)"),
    (P + "depth_bound_exact", "n nested arrays parse iff 1 <= n <= 512"),
    (P + "int_extraction_exact_or_throws", "integer extraction returns the exact integer value of the double, in range, or throws"),
]

INT_TYPES = {
    "char": (-128, 127), "schar": (-128, 127), "uchar": (0, 255), "wchar": (-2**31, 2**31 - 1),
    "short": (-2**15, 2**15 - 1), "ushort": (0, 2**16 - 1), "int": (-2**31, 2**31 - 1), "uint": (0, 2**32 - 1),
    "long": (-2**63, 2**63 - 1), "ulong": (0, 2**64 - 1), "llong": (-2**63, 2**63 - 1), "ullong": (0, 2**64 - 1),
}


def bits(x):
    return struct.unpack(">Q", struct.pack(">d", x))[0]


def from_bits(b):
    return struct.unpack(">d", struct.pack(">Q", b))[0]


def hx(b):
    return b.hex() if b else "-"


# ---------------------------------------------------------------- document generator
WS = [b" ", b"\t", b"\n", b"\r", b"  ", b"\r\n", b" \t "]
SIMPLE_ESC = {0x22: b'\\"', 0x5C: b"\\\\", 0x2F: b"\\/", 8: b"\\b", 12: b"\\f", 10: b"\\n", 13: b"\\r", 9: b"\\t"}


def rand_cp(rng):
    r = rng.random()
    if r < 0.55:
        return rng.randrange(0x20, 0x7F)
    if r < 0.65:
        return rng.randrange(0, 0x20)
    if r < 0.75:
        return rng.choice([0x22, 0x5C, 0x2F, 0x7F, 0x80, 0x7FF, 0x800, 0xFFFF, 0x10000, 0x10FFFF, 0xD7FF, 0xE000, 0xFFFD, 0xFEFF])
    if r < 0.85:
        return rng.randrange(0x80, 0x800)
    if r < 0.95:
        c = rng.randrange(0x800, 0x10000)
        return c if not (0xD800 <= c <= 0xDFFF) else 0x4E2D
    return rng.randrange(0x10000, 0x110000)


def rand_string_cps(rng, maxlen=12):
    n = rng.choice((0, 1, 2, 3, 5, 8, rng.randrange(0, maxlen + 1)))
    return [rand_cp(rng) for _ in range(n)]


def render_string(rng, cps, broken=0.0):
    """JSON text of a string with these code points, with a random choice of escape forms.
    `broken` = probability per character of emitting something malformed."""
    out = bytearray(b'"')
    for cp in cps:
        if broken and rng.random() < broken:
            out += rng.choice([b"\\ud800", b"\\udc00", b"\\ud800\\u0041", b"\\ud83d\\ud83d", b"\\x41", b"\\u12", b"\\u12G4", b"\x01", b"\n",
                               b"\xff", b"\xc0\x80", b"\xed\xa0\x80", b"\xf4\x90\x80\x80", b"\xe2\x82", b"\\", b"\\ud800\\", b"\\U0041", b"\x80"])
            continue
        r = rng.random()
        if cp < 0x20 or cp in (0x22, 0x5C):
            if cp in SIMPLE_ESC and r < 0.6:
                out += SIMPLE_ESC[cp]
            else:
                out += b"\\u" + (("%04x" if r < 0.8 else "%04X") % cp).encode()
        elif cp >= 0x10000:
            if r < 0.5:
                out += chr(cp).encode("utf-8")
            else:
                v = cp - 0x10000
                hi, lo = 0xD800 + (v >> 10), 0xDC00 + (v & 0x3FF)
                out += (("\\u%04x\\u%04X" if r < 0.75 else "\\u%04X\\u%04x") % (hi, lo)).encode()
        else:
            if r < 0.7:
                out += chr(cp).encode("utf-8")
            elif cp == 0x2F and r < 0.85:
                out += b"\\/"
            else:
                out += b"\\u" + (("%04x" if r < 0.85 else "%04X") % cp).encode()
    out += b'"'
    return bytes(out)


def rand_number_text(rng, quirks=False):
    r = rng.random()
    if r < 0.25:
        s = str(rng.choice((0, 1, 7, 10, 42, 255, 256, 65535, 2**31 - 1, 2**31, 2**53, 2**53 + 1, 2**63, 2**64, rng.randrange(10**rng.randrange(1, 30)))))
    elif r < 0.45:
        s = "%d.%s" % (rng.randrange(0, 10**rng.randrange(1, 8)), "".join(rng.choice("0123456789") for _ in range(rng.randrange(1, 25))))
    elif r < 0.7:
        m = "%d" % rng.randrange(1, 10**rng.randrange(1, 18))
        if rng.random() < 0.7:
            m = m[0] + "." + (m[1:] or "0")
        e = rng.choice((0, 1, -1, 5, -5, 15, 16, 17, 22, 23, 300, 307, 308, 309, -307, -308, -320, -323, -324, -325, -400, 400, rng.randrange(-340, 320)))
        s = m + rng.choice("eE") + rng.choice(("", "+", "-") if e == 0 else (("", "+") if e > 0 else ("-",))) + str(abs(e))
    elif r < 0.85:
        # shortest repr / 17 digits / midpoint between two adjacent doubles (hard rounding cases)
        b = rng.choice((rng.getrandbits(63), rng.randrange(0, 1 << 53), (rng.randrange(1, 2046) << 52) | rng.getrandbits(52), 0x7FEFFFFFFFFFFFFF, 1, 2, 0x000FFFFFFFFFFFFF, 0x0010000000000000))
        if (b >> 52) & 0x7FF == 0x7FF:
            b &= ~(1 << 62)
        x = from_bits(b)
        k = rng.random()
        if k < 0.35:
            s = repr(x)
        elif k < 0.6:
            s = "%.17g" % x
        elif k < 0.8:
            s = "%.16g" % x
        else:
            y = from_bits(b + 1)
            if math.isinf(y):
                s = repr(x)
            else:
                mid = (Fraction(x) + Fraction(y)) / 2
                # exact decimal of the midpoint (denominator is a power of two)
                d = mid.denominator
                k2 = d.bit_length() - 1
                num = mid.numerator * 5**k2
                ds = str(num)
                if k2 >= len(ds):
                    ds = "0" * (k2 - len(ds) + 1) + ds
                s = ds[:len(ds) - k2] + ("." + ds[len(ds) - k2:] if k2 else "")
                if rng.random() < 0.5:
                    s = s + rng.choice(("1", "0000000000000000000001", "0"))   # just above / exactly the midpoint
                if len(s) > 400:
                    # re-express with an exponent to keep lines short: digits · 10^-k2
                    s = ds.lstrip("0")[:1] + "." + (ds.lstrip("0")[1:] or "0") + "e" + str(len(ds.lstrip("0")) - 1 - k2)
    else:
        s = rng.choice(("0", "0.0", "0e0", "0E+0", "0.000", "1e0", "1E-0", "0e999", "0.0e-999", "1e308", "1.7976931348623157e308",
                        "1.7976931348623158e308", "1.7976931348623159e308", "1e309", "4.9e-324", "2.5e-324", "2.4e-324", "5e-324", "1e-500", "123456789012345678901234567890e-10",
                        "2.2250738585072014e-308", "2.2250738585072011e-308", "9007199254740993", "0.1", "0.2", "0.30000000000000004", "1e23", "8.5e-324"))
    if rng.random() < 0.3:
        s = "-" + s
    if quirks and rng.random() < 0.5:
        s = rng.choice(("0" + s.lstrip("-"), s.split("e")[0].split("E")[0].split(".")[0] + ".", "-." + "5", "." + "5", "+" + s.lstrip("-"), s + "e", s + "e+",
                        "00", "-", "-e5", "1.e5", "1.2.3", "1e5e5", "0x10", "1E5", "-0", "-0.0e-0", "1e+-5", "Infinity", "NaN", "1_000"))
    return s.encode()


def nul_key_family(rng):
    """member names that share a prefix up to an embedded NUL and differ after it (or only in length)"""
    pre = [rng.randrange(0x61, 0x7B) for _ in range(rng.randrange(0, 3))]
    fam = [pre + [0] + [rng.randrange(0x61, 0x7B)] for _ in range(rng.randrange(2, 5))]
    fam += [pre + [0], pre + [0, 0], pre, pre + [0, 0x10FFFF], pre + [0, 0xE9], [0], [0, 0], []]
    out, seen = [], set()
    for k in fam:
        if tuple(k) not in seen:
            seen.add(tuple(k)); out.append(k)
    rng.shuffle(out)
    return out[:rng.randrange(2, len(out) + 1)]


def gen_tree(rng, depth, budget):
    """python tree: None / True / False / ('num', text) / ('str', cps) / list / ('obj', [(cps, tree)...])"""
    r = rng.random()
    if depth <= 0 or budget[0] <= 0 or r < 0.35:
        k = rng.random()
        if k < 0.1:
            return None
        if k < 0.2:
            return rng.random() < 0.5
        if k < 0.6:
            return ("num", rand_number_text(rng))
        return ("str", rand_string_cps(rng))
    budget[0] -= 1
    n = rng.choice((0, 1, 1, 2, 3, 4, rng.randrange(0, 9)))
    if r < 0.68:
        return [gen_tree(rng, depth - 1, budget) for _ in range(n)]
    keys, ms = set(), []
    for _ in range(n):
        k = tuple(rand_string_cps(rng, 6))
        if k in keys:
            continue
        keys.add(k)
        ms.append((list(k), gen_tree(rng, depth - 1, budget)))
    return ("obj", ms)


def ws(rng, p):
    return rng.choice(WS) if rng.random() < p else b""


def render(rng, t, wsp=0.3, broken=0.0, quirks=0.0):
    if t is None:
        return b"null"
    if t is True:
        return b"true"
    if t is False:
        return b"false"
    if isinstance(t, list):
        parts = [ws(rng, wsp) + render(rng, x, wsp, broken, quirks) + ws(rng, wsp) for x in t]
        body = b",".join(parts)
        if quirks and parts and rng.random() < quirks:
            body += b"," + ws(rng, wsp)
        if quirks and rng.random() < quirks / 2:
            body = b"//" + bytes(rng.randrange(0x20, 0x7F) for _ in range(rng.randrange(0, 6))) + rng.choice((b"\n", b"\n", b"\r\n")) + body
        return b"[" + (body if parts else ws(rng, wsp)) + b"]"
    if t[0] == "num":
        return t[1]
    if t[0] == "str":
        return render_string(rng, t[1], broken)
    parts = [ws(rng, wsp) + render_string(rng, k, broken) + ws(rng, wsp) + b":" + ws(rng, wsp) + render(rng, v, wsp, broken, quirks) + ws(rng, wsp) for k, v in t[1]]
    body = b",".join(parts)
    if quirks and parts and rng.random() < quirks:
        body += b"," + ws(rng, wsp)
    return b"{" + (body if parts else ws(rng, wsp)) + b"}"


def nested(n, kind, inner=b""):
    if kind == "a":
        return b"[" * n + inner + b"]" * n
    if kind == "o":
        return b'{"k":' * n + (inner or b"null") + b"}" * n
    out_o, out_c = bytearray(), bytearray()
    for i in range(n):
        if i % 2 == 0:
            out_o += b"["; out_c[:0] = b"]"
        else:
            out_o += b'{"":'; out_c[:0] = b"}"
    return bytes(out_o) + (inner or b"0") + bytes(out_c)


def mutate(rng, doc):
    if not doc:
        return bytes([rng.randrange(256)])
    i = rng.randrange(len(doc))
    k = rng.random()
    pool = b'[]{}:,"\\/ \n\t\r0123456789-+.eEtfnu\x00\x1f\x7f\x80\xc3\xa9\xed\xa0\xff'
    b = rng.choice(pool) if rng.random() < 0.7 else rng.randrange(256)
    if k < 0.45:
        return doc[:i] + bytes([b]) + doc[i + 1:]
    if k < 0.7:
        return doc[:i] + doc[i + 1:]
    if k < 0.95:
        return doc[:i] + bytes([b]) + doc[i:]
    return doc[:i]


# ---------------------------------------------------------------- value trees for the writer
def rand_bytes_string(rng, flavour):
    n = rng.choice((0, 1, 2, 3, 6, rng.randrange(0, 20)))
    if flavour == "utf8":
        return "".join(chr(rand_cp(rng)) for _ in range(n)).encode("utf-8")
    if flavour == "ctl":
        return bytes(rng.choice((rng.randrange(0, 0x20), 0x22, 0x5C, 0x2F, 0x7F, rng.randrange(0x20, 0x7F))) for _ in range(n))
    return bytes(rng.randrange(256) for _ in range(max(1, n)))      # mostly invalid UTF-8


def rand_double_bits(rng, nonfinite=False):
    r = rng.random()
    if nonfinite and r < 0.5:
        return rng.choice((0x7FF0000000000000, 0xFFF0000000000000, 0x7FF8000000000000, 0xFFF8000000000000, 0x7FF0000000000001))
    if r < 0.2:
        return bits(float(rng.choice((0, 1, -1, 2, 10, 100, 255, 1e15, 1e16, 1e17, 123456789, 2**53, 2**53 - 1, 0.5, 0.1, 0.2, 0.3, 1e-4, 1e-5, 12345.678, 1e21, 1e22, 1e23, -0.0))))
    if r < 0.35:
        return bits(float(rng.randrange(-10**rng.randrange(1, 17), 10**rng.randrange(1, 17))))
    if r < 0.5:
        return bits(rng.randrange(10**15) / 10**rng.randrange(0, 15))
    if r < 0.6:
        return rng.choice((1, 2, 0x000FFFFFFFFFFFFF, 0x0010000000000000, 0x7FEFFFFFFFFFFFFF, 0xFFEFFFFFFFFFFFFF, 0x8000000000000001, rng.randrange(1, 1 << 52)))
    b = rng.getrandbits(64)
    if (b >> 52) & 0x7FF == 0x7FF:
        b &= ~(1 << 62)
    return b


def gen_value(rng, depth, budget, flav):
    """spec words of a value tree; flav: dict(undef=p, nonfinite=p, badstr=p)"""
    r = rng.random()
    if depth <= 0 or budget[0] <= 0 or r < 0.4:
        k = rng.random()
        if k < flav.get("undef", 0):
            return ["u"]
        if k < 0.1:
            return ["n"]
        if k < 0.2:
            return [rng.choice("tf")]
        if k < 0.55:
            return ["d", "%016x" % rand_double_bits(rng, rng.random() < flav.get("nonfinite", 0))]
        fl = "bad" if rng.random() < flav.get("badstr", 0) else rng.choice(("utf8", "utf8", "ctl"))
        return ["s", hx(rand_bytes_string(rng, fl))]
    budget[0] -= 1
    n = rng.choice((0, 1, 2, 3, rng.randrange(0, 7)))
    if r < 0.7:
        out = ["a", str(n)]
        for _ in range(n):
            out += gen_value(rng, depth - 1, budget, flav)
        return out
    ms = {}
    for _ in range(n):
        fl = "bad" if rng.random() < flav.get("badstr", 0) / 2 else rng.choice(("utf8", "ctl"))
        k = rand_bytes_string(rng, fl)[:8]
        if k in ms:
            continue
        ms[k] = gen_value(rng, depth - 1, budget, flav)
    body = []
    for k in sorted(ms):          # std::map order (bytewise, unsigned): the canonical form both sides print
        body += [hx(k)] + ms[k]
    return ["o", str(len(ms))] + body


def printable(b):
    """finite, and its 16-significant-digit decimal is itself in the double range: false for inf/NaN and for the
    doubles next to DBL_MAX whose 16-digit rounding is 1.797693134862316e+308 > DBL_MAX (known finding json-writer-dbl-max)"""
    if (b >> 52) & 0x7FF == 0x7FF:
        return False
    return not math.isinf(float("%.16g" % from_bits(b)))


def tree_words_info(words):
    """(has_undef, has_unprintable_number, has_bad_utf8, depth) of a spec word list"""
    i, undef, nonfin, bad = 0, False, False, False

    def okutf(h):
        try:
            unhex(h).decode("utf-8")
            return True
        except UnicodeDecodeError:
            return False

    def walk():
        nonlocal i, undef, nonfin, bad
        k = words[i]; i += 1
        if k == "u":
            undef = True; return 0
        if k in "ntf":
            return 0
        if k == "d":
            b = int(words[i], 16); i += 1
            if not printable(b):
                nonfin = True
            return 0
        if k == "s":
            if not okutf(words[i]):
                bad = True
            i += 1; return 0
        n = int(words[i]); i += 1
        d = 0
        for _ in range(n):
            if k == "o":
                if not okutf(words[i]):
                    bad = True
                i += 1
            d = max(d, walk())
        return d + 1
    d = walk()
    return undef, nonfin, bad, d


# ---------------------------------------------------------------- independent oracle: Python's json (strict RFC 8259)
class NotRfc(Exception):
    pass


def py_oracle(doc):
    """('ok', spec words) if doc is an RFC 8259 text with unique keys, finite numbers, paired surrogates,
    nesting <= 512; ('no', reason) otherwise."""
    try:
        text = doc.decode("utf-8")
    except UnicodeDecodeError:
        return ("no", "utf8")
    if text.startswith("\ufeff"):
        return ("no", "bom")

    def pairs(ps):
        ks = [k for k, _ in ps]
        if len(set(ks)) != len(ks):
            raise NotRfc("dup")
        return ("obj", ps)

    def pfloat(s):
        x = float(s)
        if math.isinf(x):
            raise NotRfc("overflow")
        return x

    def pconst(s):
        raise NotRfc("const")
    try:
        t = json.loads(text, object_pairs_hook=pairs, parse_float=pfloat, parse_int=pfloat, parse_constant=pconst)
    except NotRfc as e:
        return ("no", str(e))
    except (ValueError, RecursionError) as e:
        return ("no", "syntax")
    out = []

    def enc(s):
        try:
            return s.encode("utf-8")
        except UnicodeEncodeError:
            raise NotRfc("surrogate")

    def walk(t):
        if t is None:
            out.append("n"); return 0
        if t is True:
            out.append("t"); return 0
        if t is False:
            out.append("f"); return 0
        if isinstance(t, float):
            out.extend(["d", "%016x" % bits(t)]); return 0
        if isinstance(t, str):
            out.extend(["s", hx(enc(t))]); return 0
        if isinstance(t, list):
            out.extend(["a", str(len(t))])
            d = 0
            for x in t:
                d = max(d, walk(x))
            return d + 1
        ps = sorted(((enc(k), v) for k, v in t[1]), key=lambda kv: kv[0])
        out.extend(["o", str(len(ps))])
        d = 0
        for k, v in ps:
            out.append(hx(k))
            d = max(d, walk(v))
        return d + 1
    try:
        d = walk(t)
    except NotRfc as e:
        return ("no", str(e))
    if d > 512:
        return ("no", "depth")
    return ("ok", " ".join(out))


def api_expected(words):
    n = int(words[0]); i = 1
    last = {}

    def skip(i):
        k = words[i]
        if k in "untf":
            return i + 1
        if k in "ds":
            return i + 2
        cnt = int(words[i + 1]); i += 2
        for _ in range(cnt):
            if k == "o":
                i += 1
            i = skip(i)
        return i
    for _ in range(n):
        key = unhex(words[i]); j = skip(i + 1)
        last[key] = " ".join(words[i + 1:j]); i = j
    return " ".join(["o", str(len(last))] + [hx(k) + " " + last[k] for k in sorted(last)])


def expected_get(ty, b):
    """independent statement of 'returns the exact number or throws' for integer types"""
    lo, hi = INT_TYPES[ty]
    x = from_bits(b)
    if math.isnan(x) or math.isinf(x) or x != math.floor(x):
        return "throw"
    n = int(x)
    return "ok %d" % n if lo <= n <= hi else "throw"


def expected_getf(ty, b):
    x = from_bits(b)
    if ty == "float":
        fmax = 3.4028234663852886e38
        if x < -fmax or fmax < x:
            return "throw"
        if math.isnan(x):
            return None     # NaN passes the range test; payload of the result is not specified
        try:
            f = struct.unpack(">f", struct.pack(">f", x))[0]
        except OverflowError:
            return None
        return "ok %016x" % bits(f)
    return "ok %016x" % b


# ---------------------------------------------------------------- case streams
def corpus_cases():
    d = os.path.join(ROOT, "gen", "corpus", "C11")
    out = []
    if os.path.isdir(d):
        for f in sorted(os.listdir(d)):
            for line in open(os.path.join(d, f)):
                line = line.strip()
                if line and not line.startswith("#"):
                    out.append(line)
    return out


FINDINGS = {
    # id -> (case line, exact output recorded, text)
    "json-writer-nonfinite": [("write 0 d 7ff0000000000000", "696e66 fail"), ("write 0 a 1 d fff8000000000000", "5b2d6e616e5d fail"),
                              ("write 1 d fff0000000000000", "2d696e66 fail")],
    "json-writer-dbl-max": [("write 0 d 7fefffffffffffff", "312e373937363933313334383632333136652b333038 fail"),
                            ("write 0 a 1 d ffeffffffffffffe", "5b2d312e373937363933313334383632333136652b3330385d fail")],
    "json-writer-invalid-utf8": [("write 0 s ff", "22ff22 fail"), ("write 1 o 1 c0 n", "7b0a0922c022203a096e756c6c0a7d0a fail")],
}


def gen_cases(c, scale):
    rng = c.rng
    parse, write, nums, gets, loads, apis = [], [], [], [], [], []
    # --- documents
    docs = []
    for n in (0, 1, 2, 3, 100, 510, 511, 512, 513, 514, 600):
        for kind in "aox":
            docs.append(nested(n, kind))
            docs.append(nested(n, kind, b" ") if kind == "a" else nested(n, kind, b'"x"'))
    docs += [nested(512, "a", b"[]"), nested(511, "a", b"[]"), nested(511, "a", b"{}"), nested(512, "a", b"{}"), nested(511, "o", b"[1]"), nested(512, "o", b"[1]"),
             nested(512, "a", b"1,2"), nested(600, "a")[:700], b"[" * 513, b"[" * 512, b"[" * 512 + b"1", b"", b" ", b"\n", b"//", b"// x", b"// x\n1", b"/", b"/ /", b"1//",
             b"1 // c\n", b"[1,]", b"[,]", b"[,1]", b"{,}", b'{"a":1,}', b'{"a":1,,}', b"[1 2]", b'{"a" 1}', b'{"a":}', b"{1:2}", b"[1,,2]", b"nul", b"nulll", b"tru", b"truefalse", b"true false",
             b"[true false]", b'"\\u0000"', b'"\\ud83d\\ude00"', b'"\\udE00\\uD83D"', b'"\\ud83d"', b'"\\ud83d\\n"', b'"\\ud83dx"', b'"\\ud83d\\ud83d"', b'"\\ud83d\\u0041"', b'"\\udc00"',
             b'"\\uDBFF\\uDFFF"', b'"\\ud800\\udc00"', b'"\\uD7FF\\uE000"', b'"\\u12\n34"', b'"\\u123', b'"\\u', b'"\\', b'"', b'"a', b'"\x7f"', b'"\x1f"', b'"\x00"', b'"\n"', b'"\t"',
             b'"\xc3\xa9"', b'"\xc3"', b'"\xc3\\u00a9"', b'"\xed\xa0\x80"', b'"\xed\x9f\xbf"', b'"\xf4\x8f\xbf\xbf"', b'"\xf4\x90\x80\x80"', b'"\xc0\xaf"', b'"\xe0\x9f\xbf"', b'"\xf0\x8f\xbf\xbf"',
             b'"\xef\xbf\xbe"', b'"\xfe"', b'"\\a"', b'"\\v"', b'"\\0"', b"'a'", b'{"a":1,"a":1}', b'{"a":1,"b":2,"a":3}', b'{"\\u0061":1,"a":2}', b'{"":1,"":2}', b'{"a":{"a":1}}',
             b'{"b":1,"a":2,"\xc3\xa9":3,"\x7f":4,"B":5,"":6}', b"-", b"-0", b"-0.0", b"0.", b"1.", b"-.5", b".5", b"+1", b"01", b"00", b"-01", b"1e", b"1e+", b"1e-", b"1E5", b"1e05",
             b"1e5e5", b"1.2.3", b"1..2", b"1e5.5", b"1e999", b"-1e999", b"1e-999", b"0e999", b"1e308", b"1.7976931348623159e308", b"2e308", b"4.9e-324", b"1-1", b"1,", b"1 1", b"[1]x", b"[1] x",
             b"[1]]", b"{}}", b"1]", b"[1] // c", b"[1] /", b"[1] // c\n x", b"\xef\xbb\xbf1", b"[\"a\",\n\"b\"\n,\n\n1]", b"true//\n", b"t rue", b"0x10", b"1_0", b"Infinity", b"NaN", b"-Infinity",
             b"[1e2,1E2,1e+2,1E-2,0e0,0.0e-0]", b"123456789012345678901234567890", b"0." + b"0" * 400 + b"1", b"1" + b"0" * 308, b"1" + b"0" * 309, b"0" * 500 + b"1", b"1" + b"0" * 400 + b"e-400"]
    for _ in range(1200 * scale):
        depth = rng.choice((0, 1, 2, 3, 4, 6))
        t = gen_tree(rng, depth, [rng.choice((3, 8, 20, 60))])
        docs.append(ws(rng, 0.2) + render(rng, t, rng.choice((0.0, 0.1, 0.4))) + ws(rng, 0.2))
    for _ in range(120 * scale):     # member names with embedded NULs (\u0000): distinct keys sharing a prefix up to the NUL
        ms = [(k, gen_tree(rng, rng.choice((0, 0, 1)), [3])) for k in nul_key_family(rng)]
        t = ("obj", ms)
        if rng.random() < 0.3:
            t = [t, ("obj", [(k, None) for k in nul_key_family(rng)])]
        docs.append(render(rng, t, rng.choice((0.0, 0.2))))
    for _ in range(400 * scale):     # superset quirks and malformed strings
        t = gen_tree(rng, rng.choice((1, 2, 3)), [rng.choice((3, 8, 20))])
        docs.append(render(rng, t, 0.2, broken=rng.choice((0.0, 0.05, 0.2)), quirks=rng.choice((0.0, 0.3, 0.6))))
    for _ in range(300 * scale):     # number tokens on their own and in arrays, with quirks
        docs.append(rand_number_text(rng, quirks=True))
        docs.append(b"[" + b",".join(rand_number_text(rng, quirks=rng.random() < 0.2) for _ in range(rng.randrange(1, 5))) + b"]")
    for _ in range(40 * scale):      # deep random shapes around the bound
        n = rng.choice((400, 505, 509, 510, 511, 512, 513, 515, 600))
        inner = render(rng, gen_tree(rng, rng.choice((0, 1, 2, 3)), [6]), 0.1)
        docs.append(nested(n, rng.choice("aox"), inner))
    for _ in range(3 * scale):       # large documents (tens of KiB)
        t = [gen_tree(rng, 4, [40]) for _ in range(rng.randrange(40, 120))]
        docs.append(render(rng, t, 0.3))
    # UTF-8 boundary grid inside a string (ties Model.utf8Valid, the RFC 3629 table, to utf8::validate)
    leads = (0x7F, 0x80, 0xBF, 0xC0, 0xC1, 0xC2, 0xDF, 0xE0, 0xE1, 0xEC, 0xED, 0xEE, 0xEF, 0xF0, 0xF1, 0xF3, 0xF4, 0xF5, 0xF8, 0xFF)
    seconds = (0x41, 0x7F, 0x80, 0x8F, 0x90, 0x9F, 0xA0, 0xBF, 0xC0)
    tails = (0x7F, 0x80, 0xBF, 0xC0)
    for a in leads:
        docs.append(b'"' + bytes([a]) + b'"')
        for b in seconds:
            docs.append(b'"' + bytes([a, b]) + b'"')
            for c3 in tails:
                docs.append(b'"x' + bytes([a, b, c3]) + b'y"')
                for c4 in (tails if a >= 0xF0 else (0x80,)):
                    docs.append(b'"' + bytes([a, b, c3, c4]) + b'"')
    if scale > 1:
        for a in range(0x80, 0x100):
            for b in range(0x70, 0x100, 1):
                docs.append(b'"' + bytes([a, b, 0x80, 0x80]) + b'"')
    base = list(docs)
    for _ in range(2500 * scale):    # single-byte mutations
        d = rng.choice(base)
        if len(d) > 4000:
            continue
        docs.append(mutate(rng, d))
    for d in docs:
        full = "1" if rng.random() < 0.8 else "0"
        parse.append(f"parse {full} {hx(d)}")
        if rng.random() < 0.06:
            parse.append(f"parse {'0' if full == '1' else '1'} {hx(d)}")
        if rng.random() < 0.04 and len(d) < 300:
            tgt = gen_value(rng, 2, [4], {})
            loads.append(f"load {full} {hx(d)} {' '.join(tgt)}")
    # --- trees through the API
    for _ in range(900 * scale):
        fl = rng.choice(({}, {}, {}, {"undef": 0.05}, {"nonfinite": 0.3}, {"badstr": 0.3}, {"undef": 0.03, "nonfinite": 0.2, "badstr": 0.2}))
        v = gen_value(rng, rng.choice((0, 1, 2, 3, 5)), [rng.choice((2, 6, 20))], fl)
        write.append(f"write {rng.choice('01')} {' '.join(v)}")
    for n in (1, 2, 100, 511, 512, 513, 600):      # deep trees through the API: written, then depth decides the way back
        for m in "01":
            if m == "1" and n > 100 and not (scale > 1 and n in (512, 513)):
                continue            # the list-based model writer is cubic in the depth for the readable form
            write.append(f"write {m} " + "a 1 " * n + "n")
            write.append(f"write {m} " + "o 1 6b " * n + "d 3ff0000000000000")
    # numbers whose integer part has 4..17 digits (digit grouping of a stream locale would show): alone,
    # in arrays and objects, both forms; the harness writes every tree under seven numpunct locales
    locnums = []
    for k in range(3, 17):
        for x in (10.0**k, 10.0**k + 1, 10.0**k - 1, -(10.0**k), 10.0**k + 0.5, 1.2345678901234567 * 10.0**k, -9.87654321 * 10.0**k):
            locnums.append(x)
    locnums += [1234567.0, 1000.0, -98765432.5, 12.25, 999.0, 999.5, 1234.5, 123456.789, 9007199254740993.0, 4294967296.0, 2147483647.0]
    for _ in range(60 * scale):
        locnums.append(float(rng.randrange(1000, 10**rng.randrange(4, 17))) * rng.choice((1, -1)))
        locnums.append(rng.uniform(1e3, 10.0**rng.randrange(4, 16)))
    for x in locnums:
        write.append(f"write {rng.choice('01')} d {bits(x):016x}")
    for m in "01":
        for i in range(0, len(locnums), 5):
            grp = locnums[i:i + 5]
            write.append(f"write {m} a {len(grp)} " + " ".join(f"d {bits(x):016x}" for x in grp))
            write.append(f"write {m} o 2 626967 d {bits(grp[0]):016x} 6c697374 a {len(grp)} " + " ".join(f"d {bits(x):016x}" for x in grp))
    # keys with embedded NULs through the API: write + round trip (insert) and member-wise assembly (v[key]=child)
    for _ in range(80 * scale):
        fam = sorted("".join(chr(x) for x in k).encode("utf-8") for k in nul_key_family(rng))
        body = []
        for k in fam:
            body += [hx(k)] + gen_value(rng, rng.choice((0, 0, 1)), [2], {})
        write.append(f"write {rng.choice('01')} o {len(fam)} " + " ".join(body))
        asg = list(fam) + [rng.choice(fam) for _ in range(rng.randrange(0, 3))]
        rng.shuffle(asg)
        body = []
        for k in asg:
            body += [hx(k)] + gen_value(rng, 0, [1], {})
        apis.append(f"api {len(asg)} " + " ".join(body))
    for _ in range(40 * scale):       # ordinary keys through v[key]=child as well (order of assignment is arbitrary)
        ks = [rand_bytes_string(rng, rng.choice(("utf8", "ctl", "bad")))[:6] for _ in range(rng.randrange(1, 6))]
        body = []
        for k in ks:
            body += [hx(k)] + gen_value(rng, rng.choice((0, 1)), [2], {})
        apis.append(f"api {len(ks)} " + " ".join(body))
    for _ in range(1500 * scale):     # NumLaw / NumIdem on the real library: single numbers across the double range
        write.append(f"write 0 d {rand_double_bits(rng):016x}")
    for b in range(256):
        write.append(f"write 0 s {bytes([b]).hex()}")
        write.append(f"write 1 o 1 {bytes([b]).hex()} n")
        nums.append(f"tojson {bytes([b, 0x41, b]).hex()}")
    # --- numbers: extraction automaton + conversions of the driver's NumOps instance against libstdc++/glibc
    for _ in range(1500 * scale):
        t = rand_number_text(rng, quirks=rng.random() < 0.4)
        t += rng.choice((b"", b"", b",", b" ", b"]", b"x", b"e", b".", b"-", b"+", b"E5", b"\n"))
        nums.append(f"num {hx(t)}")
    for _ in range(1500 * scale):
        nums.append(f"fmt {rand_double_bits(rng, rng.random() < 0.05):016x}")
    for e in range(-330, 312, 7 if scale == 1 else 1):
        nums.append(f"num {hx(('1e%d' % e).encode())}")
        nums.append(f"num {hx(('9.999999999999999e%d' % e).encode())}")
        try:
            nums.append(f"fmt {bits(float('1e%d' % e)):016x}")
        except OverflowError:
            pass
    # --- typed extraction grid
    for ty, (lo, hi) in INT_TYPES.items():
        pts = {0.0, -0.0, 1.0, -1.0, 0.5, -0.5, 1e300, -1e300, float("inf"), float("-inf"), float("nan"), 1e-320, 255.0, 256.0, 65535.0, 65536.0, 2.0**31, 2.0**32, 2.0**63, 2.0**64, -2.0**63, 2.0**53, 2.0**53 + 2}
        for edge in (lo, hi):
            for d in (-2, -1, 0, 1, 2):
                pts.add(float(edge + d))
            x = float(edge)
            pts.add(math.nextafter(x, math.inf)); pts.add(math.nextafter(x, -math.inf))
            pts.add(x + 0.5); pts.add(x - 0.5)
        for _ in range(6 * scale):
            pts.add(float(rng.randrange(lo - 3, hi + 4)))
            pts.add(rng.uniform(lo - 3, hi + 3))
        for x in sorted(pts, key=lambda v: (bits(v))):
            gets.append(f"get {ty} {lo} {hi} {bits(x):016x}")
    getf = []
    fmax = 3.4028234663852886e38
    for x in (0.0, -0.0, 1.0, 0.1, fmax, -fmax, math.nextafter(fmax, math.inf), math.nextafter(-fmax, -math.inf), 3.4028235677973366e38, 1e39, -1e39, 1e-46, 1.401298464324817e-45, 7e-46,
              float("inf"), float("-inf"), float("nan"), 16777217.0, 1e300):
        for ty in ("float", "double", "ldouble"):
            getf.append(f"getf {ty} {bits(x):016x}")
    for _ in range(200 * scale):
        getf.append(f"getf {rng.choice(('float', 'double', 'ldouble'))} {rand_double_bits(rng, rng.random() < 0.1):016x}")
    return parse, loads, write, nums, gets, getf, apis


def main():
    c = Check("C11")
    c.rule = ("cases = protocol lines: `parse` (documents rendered from random trees with random whitespace/escape/number forms, nesting chains "
              "0..600 around the bound, superset quirks, malformed strings, single-byte mutations, large documents; both full and prefix mode; "
              "every case also goes through load(istream), a decimal-comma/grouping locale stream and operator>>), `load` (target preservation), "
              "`write` (trees built through the API incl. undefined/non-finite/invalid-UTF-8 members and numbers with 4..17 integer digits, "
              "both modes, save()/save(ostream)/operator<< under seven numpunct locales: decimal comma with/without grouping, decimal point "
              "with grouping by comma, blank, apostrophe in groups 3, 2-3, 3-2; round trip on the real code), `num`/`fmt` (libstdc++ number extraction and printing against the model's "
              "automaton and exact binary64 arithmetic), `get` (integer extraction grid).  non-trivial = model output is not fail/throw "
              "(the case went through the whole pipeline); distinct = distinct case lines")
    c.trusted += [
        "translator translate/c11.py + translate/cexpr.py (constants, tables, byte conditions, surrogate/UTF-8 encode expressions of json.cpp and utf_iterator.h -> Gen.lean; shape checks of indent/write_value/parse_stream)",
        "hand-written control flow of Model.lean (tokenizer dispatch, parse_string loop, _M_extract_float automaton, parse_stream state machine as a zipper, writer recursion), tied by the correspondence run",
        "externals as parameters: strtod/num_get conversion (NumOps.ofDec) and num_put %.16g (NumOps.print); theorems assume NumLaw/NumIdem explicitly; the driver's exact binary64 instance F64 is compared bit-for-bit with libstdc++/glibc",
        "utf8::validate is modelled as the RFC 3629 table (Model.utf8Valid), tied by correspondence (C14 proves the decoder itself)",
        "correspondence harness harness/c11.cpp (ASan+UBSan build of the working tree), Python's json module as independent RFC 8259 oracle",
    ]
    c.assumptions += [
        "NumLaw: for finite x, print x is an RFC 8259 number whose exact decimal converts to rt x (tested differentially on the real library and on F64, not proved)",
        "NumIdem: rt (rt x) = rt x and rt x finite (IEEE: a 16-digit decimal survives double->text->double; tested, not proved)",
        "float->integer static_cast of out-of-range values is UB in C++; observed to throw on x86-64/g++ 12 (differential grid only)",
        "std::map/std::vector/std::string/std::stack semantics; std::istream::get, sscanf(%x) on four hex digits",
    ]
    scale = 20 if c.tier == "thorough" else 1

    c.translate("c11.py")
    proved = c.prove(["Cppcms.C11.Props"], OBLIGATIONS, exe="c11_model")
    if c.tier == "thorough" and proved:
        c.leanchecker(["Cppcms.C11.Props"])
    model = c.model_exe()
    ok_impl = c.impl_build()
    hbin = c.harness("c11") if ok_impl else None

    if c.replay_path:
        rp = json.load(open(c.replay_path))
        streams = {"replay": [rp["case"]] if "case" in rp else []}
        getf = []
    else:
        parse, loads, write, nums, gets, getf, apis = gen_cases(c, scale)
        corpus = corpus_cases()
        for fid, ws_ in FINDINGS.items():
            corpus += [w for w, _ in ws_]
        streams = {"corpus": corpus, "parse": parse, "load": loads, "write": write, "numbers": nums, "get": gets, "api": apis}

    if not (hbin and os.path.exists(model)):
        c.finish()

    all_cases, all_impl, all_model = [], [], []
    bad = []          # (stream, index-in-all, reason)
    dist = {}
    for name, cases in streams.items():
        cases = list(dict.fromkeys(cases))
        if not cases:
            continue
        out_i, out_m, diffs, crashed = c.correspond(
            name, cases, hbin, model,
            nontrivial=lambda cs, o: cs if not (o.startswith("fail") or o.startswith("throw") or o.startswith("bad-op")) else None)
        base = len(all_cases)
        all_cases += cases
        all_impl += out_i + [None] * (len(cases) - len(out_i))
        all_model += out_m + [None] * (len(cases) - len(out_m))
        dist[name] = len(cases)
        if crashed:
            c.violation("sanitizer abort / crash of the real code", {"case": crashed["case"], "stderr": crashed["stderr"], "stream": name})
        # ---- judges on the implementation's outputs
        jl = []
        for k, cs in enumerate(cases):
            if k >= len(out_i):
                break
            o = out_i[k]
            w = cs.split()
            if o.startswith(("variant-mismatch", "api-alias", "failed-parse-modified-target", "locale-not-restored", "exception", "overload")):
                bad.append((name, base + k, "public entry points disagree / exception escaped: " + o[:120]))
                continue
            if w[0] == "parse":
                doc = unhex(w[2])
                orc = py_oracle(doc) if len(doc) < 200000 else ("no", "size")
                if o.startswith("ok "):
                    parts = o.split(" ", 2)
                    jl.append((base + k, "J shape " + parts[2]))
                    if w[1] == "1" and orc[0] == "ok" and parts[2] != orc[1]:
                        bad.append((name, base + k, "RFC 8259 document parsed to a different tree than the independent parser: " + orc[1][:200]))
                    if w[1] == "1" and int(parts[1]) != len(doc):
                        bad.append((name, base + k, "full parse did not consume the whole input"))
                elif o == "fail":
                    if orc[0] == "ok":
                        bad.append((name, base + k, "well-formed RFC 8259 document (unique keys, finite numbers, depth <= 512) rejected"))
                else:
                    bad.append((name, base + k, "unexpected harness output " + o[:80]))
            elif w[0] == "load":
                tgt = " ".join(w[3:])
                if o.startswith("0 ") and o[2:] != tgt:
                    bad.append((name, base + k, "failed load modified the target"))
            elif w[0] == "write":
                undef, nonfin, badutf, depth = tree_words_info(w[2:])
                if o == "throw":
                    if not undef:
                        bad.append((name, base + k, "write threw although no member is undefined"))
                else:
                    rt = o.split()[-1]
                    if undef:
                        bad.append((name, base + k, "tree with an undefined member was written"))
                    elif not nonfin and not badutf and depth <= 512 and rt not in ("exact", "approx"):
                        bad.append((name, base + k, f"round trip failed ({rt}) for a tree with defined members, finite numbers, valid UTF-8 strings"))
                    elif (nonfin or badutf) and rt not in ("fail",):
                        # outside the hypotheses of write_parse_roundtrip_partial; the known findings say: rejected
                        if rt not in ("exact", "approx"):
                            bad.append((name, base + k, f"round trip outcome {rt} for a tree outside the theorem's hypotheses"))
            elif w[0] == "api":
                # independent statement: one member per distinct (byte-wise) key, holding the last value assigned to it
                exp = api_expected(w[1:])
                if o != exp:
                    bad.append((name, base + k, "object assembled with v[key]=child: expected " + exp[:200]))
            elif w[0] == "get":
                exp = expected_get(w[1], int(w[4], 16))
                if o != exp:
                    bad.append((name, base + k, f"integer extraction: expected {exp}"))
        if jl:
            rc, jout, jerr = c.run_lines(model, [l for _, l in jl])
            for (k, l), r in zip(jl, jout):
                if r != "1":
                    bad.append((name, k, "parsed tree violates: strings valid UTF-8 / keys unique / depth <= 512"))
            c.extra_cov["judged_parsed_trees"] = c.extra_cov.get("judged_parsed_trees", 0) + len(jl)
        if diffs and not crashed:
            k, cs, a, b = diffs[0]
            c.broke(f"correspondence stream {name}", f"{len(diffs)} differing cases; first: {cs[:300]} impl={a[:300]} model={b[:300]}")
            c.extra_cov.setdefault("first_diffs", []).append({"stream": name, "case": cs[:2000], "impl": a[:2000], "model": b[:2000]})

    # floating extraction: differential against an independent statement only (no Lean model)
    if getf:
        rc, out_f, err_f = c.run_lines(hbin, getf)
        c.evaluations += len(getf)
        for cs, o in zip(getf, out_f):
            w = cs.split()
            exp = expected_getf(w[1], int(w[2], 16))
            if exp is not None and o != exp:
                c.violation("floating extraction differs from range-check-then-round", {"case": cs, "impl_output": o, "expected": exp})
        dist["getf(impl only)"] = len(getf)

    # ---- known findings: replayed on the real code, reported only while they reproduce exactly
    impl_of = {cs: o for cs, o in zip(all_cases, all_impl)}
    known_cases = set()
    for fid, ws_ in FINDINGS.items():
        known_cases |= {w for w, _ in ws_}
        if not c.replay_path:
            if c.is_known(fid) and all(impl_of.get(w) == exp for w, exp in ws_):
                c.known_finding(fid, f"id={fid} reproduced on {len(ws_)} witnesses, e.g. `{ws_[0][0]}` -> {ws_[0][1]}")
            elif c.is_known(fid):
                # the recorded behaviour changed: not the finding as recorded any more
                for w, exp in ws_:
                    if impl_of.get(w) != exp:
                        c.broke(f"known finding {fid}", f"witness `{w}` no longer behaves as recorded: expected `{exp}`, got `{impl_of.get(w)}`")
            else:
                for w, exp in ws_:
                    c.violation("writer output does not parse back", {"case": w, "impl_output": impl_of.get(w)})

    for name, k, why in bad[:40]:
        c.violation(why, {"case": all_cases[k], "impl_output": all_impl[k], "model_output": all_model[k], "stream": name,
                          "replay_cmd": "bin/check C11 --replay <this file>"})
    c.extra_cov["stream_sizes"] = dist
    pick = [0, len(all_cases) // 7, len(all_cases) // 3, len(all_cases) // 2, (2 * len(all_cases)) // 3, len(all_cases) - 1] if all_cases else []
    c.samples = [{"case": all_cases[i][:400], "impl": (all_impl[i] or "")[:400], "model": (all_model[i] or "")[:400]} for i in pick]
    if c.replay_path:
        for i, cs in enumerate(all_cases):
            print("case :", cs); print("impl :", all_impl[i]); print("model:", all_model[i])
            w = cs.split()
            if w[0] == "parse":
                print("python json oracle:", py_oracle(unhex(w[2])))
    c.finish()


if __name__ == "__main__":
    main()
