#!/usr/bin/env python3
"""C17 — every scheduled handler runs exactly once: posts, timers, I/O waits, pool jobs.
See DESIGN.md section 5 (C17) and design.d/C17.md.  Usage: checks/c17.py [--tier quick|thorough] [--replay file]"""
import os, sys, json, re
sys.path.insert(0, os.path.join(os.path.dirname(os.path.abspath(__file__)), "..", "lib"))
import vcheck
from vcheck import *

P = "Cppcms.C17.Props."
OBLIGATIONS = [
    (P + "lock_discipline", "generated tables: every event_loop_impl/thread_pool method that touches protected state takes the lock first (reset and lock-held helpers listed)"),
    (P + "generated_shapes", "generated flags: callbacks are moved out of the descriptor table / timer table, posts copy, worker pops under the lock and swallows exceptions"),
    (P + "token_conservation", "for all histories: each issued handler id is referenced exactly once (queued | executing | armed fd | armed timer | executed | dropped by reset | lost by overwrite)"),
    (P + "at_most_once", "for all histories and handlers: invoked at most once"),
    (P + "executed_is_gone", "an executed handler is neither queued nor armed any more"),
    (P + "ops_never_invoke", "no API operation (from any thread, direct or queued functor path) invokes a handler"),
    (P + "runs_on_loop_thread", "the log grows only in run_one's executing step, by exactly the popped completion_handler with its code"),
    (P + "double_arm_drops_first_counterexample", "D12 witness on the model: first of two readable handlers on one fd is destroyed uninvoked"),
    (P + "fullNoLoss_false", "the unrestricted no-loss statement is false of the code (D12)"),
    (P + "cancel_overtakes_queued_arm_counterexample", "second witness on the model: a cancel issued after a cross-thread (queued) arm runs before it; the handler stays armed, never completed"),
    (P + "stale_timer_id_cancels_other_counterexample", "third witness on the model: cancel_timer_event with the id of a timer that already fired completes an unrelated timer (slot reused) with `canceled`"),
    (P + "no_loss_partial", "PARTIAL (hypothesis NoDoubleArm): no handler is destroyed by a slot overwrite"),
    (P + "invoked_or_pending_partial", "PARTIAL (NoDoubleArm, no reset): every issued handler is invoked once xor still held once"),
    (P + "timer_not_early", "for all histories: a timer handler invoked with success ran after a run_one clock reading >= its deadline"),
    (P + "cancel_timer_completes_canceled", "cancel_timer_event on an armed timer queues exactly that handler with `canceled` and disarms it"),
    (P + "cancel_io_completes_canceled", "the canceler body queues both armed handlers of the fd with `canceled` and empties the slots"),
    (P + "queued_code_is_final", "a queued completion is executed with the code it was queued with (exec step logs the popped item unchanged)"),
    (P + "exactly_once_if_running", "fairness: while not stopped/reset, an item at queue index i is invoked (once, with its code) after at most 2i+7 loop-thread steps, whatever other threads do in between"),
    (P + "ready_dispatches", "a reported readable/writeable/err event queues the armed handler of that fd with success / select_failed"),
    (P + "kernel_report_not_lost", "generated reactor tables (epoll, poll, select): every kernel report over IN/PRI/OUT/ERR/HUP that ends a wait for readability (writability) translates to an event with in|err (out|err); a bare hang-up is never the empty event"),
    (P + "registration_requests_armed_bits", "generated tables: registering reactor::in / out requests exactly the kernel's readable / writable bit"),
    (P + "kernel_report_dispatches", "composition: such a kernel report on an armed descriptor queues the armed handler and empties its slot, on each back-end"),
    (P + "epoll_select_records", "generated shape of epoll_reactor::select: the requested interest set is stored in events_[fd] also when epoll_ctl failed"),
    (P + "epoll_select_on_open_fd", "under the cache invariant the DEL/ADD/MOD decision on an open descriptor succeeds and the kernel holds exactly the requested set"),
    (P + "epoll_cache_invariant", "for all histories of select / application close / number re-use after the cancel: cache = kernel's interest set on every open descriptor"),
    (P + "epoll_reused_fd_is_registered", "close before the loop's DEL, cancel processed (DEL fails), number re-used, wait armed: it is registered with the kernel, without error"),
    (P + "device_error_path_completes_once", "generated: dont_block posts once and returns false on error; all six async_* entry points are guarded by it; every branch after the guard posts xor arms exactly once"),
    (P + "bad_descriptor_completes_exactly_once", "hence an async_* call on an unusable descriptor schedules its handler exactly once"),
    (P + "completion_functor_paths_complete_once", "generated per-path counts of reader_some/writer_some/async_connector/reader_all/writer_all/async_acceptor: every path calls the handler once xor re-arms once"),
    (P + "due_timer_queued", "run_one's expiry step queues every timer whose deadline <= now with success"),
    (P + "job_conservation", "pool: each posted job id is in exactly one of queue | held by a worker | ran | cancelled"),
    (P + "job_at_most_once", "pool: for all histories, a job runs at most once"),
    (P + "cancel_true_never_runs", "pool: a job for which cancel returned true never runs"),
    (P + "exactly_once_if_running_and_not_cancelled", "pool fairness: job at queue index i runs after i+1 take/run rounds of a live worker unless stop or cancel"),
    (P + "exception_does_not_stop_pool", "pool: a throwing job leaves its worker alive and idle"),
]

BACKENDS = ["epoll", "poll", "select"]
CODES = {"ok": 0, "canceled": 1, "selfail": 2, "badf": 3, "syserr": 4}
JUDGE_CODES = dict(CODES, again=5)     # EAGAIN/EWOULDBLOCK handed to a handler: outside what Spec.handlerOK accepts (code <= 4)
D12_ID = "aio-double-arm-drops-handler"
STALE_ID = "aio-queued-arm-overtaken-by-cancel-close"
D12_CASE = "L 1 0 P0=- S start ar:0:0 ar:0:0 pw:0 step:0 step:0 step"
STALE_CASE = "L 1 0 P0=- P1=cl:0 S start post:1 ar:0:0 step step step step"
SLOT_ID = "aio-stale-timer-id-cancels-other-timer"
SLOT_CASE = "X 30000"
RECORDED = {
    D12_ID: {b: "log 1:ok:0:L | alive | kinds 0:i 1:i | phase polling" for b in ("epoll", "poll", "select")},
    # the arm (queued while the loop polls) runs after the handler's cancel+close: epoll reports EBADF (handled: passes
    # the judge), poll leaves the handler armed on a dead descriptor for ever, select makes run() throw EBADF
    SLOT_ID: {b: "A 1:ok B-canceled 1" for b in ("epoll", "poll", "select")},
    STALE_ID: {"poll": "log 0:ok:0:L | alive 1 | kinds 0:p 1:i | phase polling",
               "select": "log 0:ok:0:L | alive 1 | kinds 0:p 1:i | phase failed"},
}


# ------------------------------------------------------------------ generators
def rand_prog(rng, idx, ns, nt, allow_arm):
    """a handler program: ops issued from inside the invocation (loop thread, polling_ = false)"""
    n = rng.choice((1, 1, 2, 3))
    ops = []
    for _ in range(n):
        r = rng.random()
        lower = rng.randrange(idx) if idx else 0
        if r < 0.25:
            ops.append(f"post:{lower}")
        elif r < 0.35:
            ops.append(f"pev:{lower}:{rng.choice(list(CODES))}")
        elif r < 0.5 and nt:
            ops.append(f"tm:{rng.randrange(nt)}:{rng.choice((0, 3, 7, 10, 20, 50))}:{lower}")
        elif r < 0.6 and nt:
            ops.append(f"tc:{rng.randrange(nt)}")
        elif r < 0.7 and ns:
            ops.append(f"dr:{rng.randrange(ns)}")
        elif r < 0.8 and ns:
            ops.append(f"ca:{rng.randrange(ns)}")
        elif r < 0.85 and ns:
            ops.append(f"cl:{rng.randrange(ns)}")
        elif r < 0.9 and ns:
            ops.append(f"pw:{rng.randrange(ns)}")
        elif r < 0.97 and ns and allow_arm:
            ops.append(f"{rng.choice(('ar', 'aw'))}:{rng.randrange(ns)}:{lower}")
        elif r < 0.985:
            ops.append(f"{rng.choice(('xc', 'xr', 'xw'))}:x:{lower}")
        else:
            ops.append("post:0")
    return ops


def gen_loop_case(rng, flavour):
    ns = rng.choice((1, 2, 2, 3))
    np_ = rng.choice((0, 0, 1, 1, 2)) if flavour not in ("periodic", "reuse") else 0
    nt = rng.choice((1, 2, 2))
    ndev = ns + 2 * np_
    # device f: sockets take both directions, a pipe's read end only `ar`, its write end only `aw`
    def dirs(f):
        return ("ar", "aw") if f < ns else (("ar",) if (f - ns) % 2 == 0 else ("aw",))
    readable = [f for f in range(ndev) if "ar" in dirs(f)]
    nprog = rng.choice((1, 2, 3, 4))
    progs = [[]]
    for i in range(1, nprog):
        progs.append(rand_prog(rng, i, ns, nt, allow_arm=(flavour != "final")))
    if flavour == "periodic":
        # periodic-timer idiom: the completion handler of timer 0 re-arms timer 0 (chain of up to three re-arms)
        nt = max(nt, 1)
        chain = rng.choice((1, 2, 3))
        progs = [[]]
        for i in range(1, chain + 1):
            extra = [rng.choice(("post:0", "dr:0", "pw:0"))] if rng.random() < 0.3 else []
            progs.append([f"tm:0:{rng.choice((5, 10, 20, 40, 100, 100000))}:{i - 1}"] + extra)
        nprog = len(progs)
    stops = flavour == "stop"
    if stops and nprog > 1 and rng.random() < 0.4:
        progs[rng.randrange(1, nprog)].append("st")
    script = []
    T = 0
    armed = {}          # (f, dir) -> possibly armed (generator's own conservative view: NoDoubleArm)
    nonowner = set()    # devices that gave up ownership (close() then only cancels)
    closed = set()      # sockets the script itself has closed (and not re-opened): targets for device-wrapper ops
    started = [False]
    reusable = set()    # closed after start(): their number can be handed out again deterministically
    def ops_batch(k):
        nonlocal T
        for _ in range(k):
            r = rng.random()
            p = rng.randrange(nprog)
            if r < 0.18:
                script.append(f"post:{p}")
            elif r < 0.24:
                script.append(f"pev:{p}:{rng.choice(list(CODES))}")
            elif r < 0.42:
                dl = rng.choice((0, max(0, T - 1), T, T, T + 1, T + rng.randrange(1, 30)))
                k_ = rng.randrange(nt)
                if flavour == "periodic":
                    k_ = nt - 1 if nt > 1 else 0
                    if k_ == 0:
                        continue        # timer 0 is the periodic one: armed once, below
                script.append(f"tm:{k_}:{dl}:{p if flavour != 'periodic' else 0}")
            elif r < 0.5:
                script.append(f"tc:{rng.randrange(nt)}")
            elif r < 0.68:
                f = rng.randrange(ndev)
                d = rng.choice(dirs(f))
                if armed.get((f, d)):
                    script.append(f"ca:{f}")
                    armed[(f, "ar")] = armed[(f, "aw")] = False
                    script.append("step")
                script.append(f"{d}:{f}:{p}")
                armed[(f, d)] = True
            elif r < 0.71:
                script.append(f"{rng.choice(('ar', 'aw'))}:x:{p}")
            elif r < 0.76:
                script.append(f"ca:{rng.randrange(ndev)}")
            elif r < 0.79:
                # device wrappers on an unusable descriptor: never opened, or a socket the script closed
                tgt = rng.choice(["x"] + sorted(str(f) for f in closed))
                op = rng.choice(("xc", "xa", "xr", "xw"))
                if op == "xa":
                    tgt = rng.choice(("x", "y"))
                script.append(f"{op}:{tgt}:{p}")
            elif r < 0.83:
                # close: for a pipe this is "the writer goes away" / "the reader goes away"; sometimes the application
                # closes the raw descriptor itself and then cancels
                f = rng.randrange(ndev)
                if rng.random() < 0.15:
                    # the device gives up ownership of its descriptor and is closed: waits cancelled, descriptor stays
                    script.append(f"nc:{f}")
                    nonowner.add(f)
                    armed[(f, "ar")] = armed[(f, "aw")] = False
                    continue
                script.append(f"{'rx' if rng.random() < 0.3 else 'cl'}:{f}")
                armed[(f, "ar")] = armed[(f, "aw")] = False
                if f < ns and f not in nonowner:
                    closed.add(f)
                    if started[0]:
                        reusable.add(f)
            elif r < 0.85 and reusable and flavour != "stop":
                f = rng.choice(sorted(reusable))
                script.append(f"ro:{f}")
                reusable.discard(f); closed.discard(f)
            elif r < 0.93:
                script.append(f"pw:{rng.choice(readable)}")
            elif r < 0.96:
                script.append(f"dr:{rng.choice(readable)}")
            else:
                script.append("post:0")
    if rng.random() < 0.4:
        ops_batch(rng.randrange(1, 4))      # before run(): reactor_ not created yet -> functors are queued
    script.append("start")
    started[0] = True
    if flavour == "reuse":
        # descriptor-number re-use: a wait is registered, the descriptor is closed before the loop's removal (from outside
        # while the loop polls, or raw close + cancel), a new descriptor gets the same number, a wait is armed on it
        f = rng.randrange(ns)
        script.append(f"{rng.choice(('ar', 'aw'))}:{f}:0")
        script.append("step")
        d2 = rng.choice(("ar", "aw"))
        variant = rng.choice(("outside", "outside-raw", "handler-raw", "handler"))
        if variant in ("outside", "outside-raw"):
            script.append(f"{'cl' if variant == 'outside' else 'rx'}:{f}")
            if rng.random() < 0.5:
                script.append("step")
            script.append(f"ro:{f}")
            script.append(f"{d2}:{f}:{rng.randrange(nprog)}")
            if d2 == "ar" or rng.random() < 0.3:
                script.append(f"pw:{f}")
        else:
            body = [f"{'rx' if variant == 'handler-raw' else 'cl'}:{f}", f"ro:{f}", f"{d2}:{f}:0"] + ([f"pw:{f}"] if d2 == "ar" else [])
            progs.append(body)      # not counted in nprog: only this one post uses it
            script.append(f"post:{len(progs) - 1}")
            script.append("step")
        script += [f"step:{f}", f"step:{f}"]
    if flavour == "periodic":
        script.append(f"tm:0:{rng.choice((0, 1, 5))}:{nprog - 1}")
    for _ in range(rng.randrange(2, 9)):
        ops_batch(rng.randrange(0, 4))
        if rng.random() < (0.5 if flavour != "periodic" else 0.85):
            T += rng.choice((0, 1, 1, 2, 5, 10)) if flavour != "periodic" else rng.choice((1, 5, 10, 20, 50))
            script.append(f"T:{T}")
        for _ in range(rng.choice((1, 1, 2))):
            if rng.random() < 0.6:
                f = rng.randrange(ndev)
                script.append(f"step:{f}")
                # a reported fd may have fired either direction: the generator forgets both
                armed[(f, "ar")] = armed[(f, "aw")] = False
            else:
                script.append("step")
    if stops:
        script.append("st")
        script.append("step")
        if rng.random() < 0.5:
            ops_batch(2)
            script.append("step")
        if rng.random() < 0.6:
            script += ["rs", "start"]
            ops_batch(2)
            script += ["step", f"step:{rng.randrange(ndev)}"]
    # final phase: cancel every timer, close every device, let every pending deadline pass, settle
    for k in range(nt):
        script.append(f"tc:{k}")
    for f in range(ndev):
        script.append(f"cl:{f}")
    script.append("T:1000000")
    script += ["step"] * 8
    ptxt = " ".join(f"P{i}={','.join(p) if p else '-'}" for i, p in enumerate(progs))
    hdr = f"{ns}+{np_}" if np_ else f"{ns}"
    return f"L {hdr} {nt} {ptxt} S {' '.join(script)}"


def gen_pending_case(rng):
    """operations that are really pending when they are cancelled / closed / completed: TCP connects (to a listener that
    drops SYNs, or to one that answers), accepts, async_read of several bytes, async_write into a full socket"""
    ns, nc, na, nt = rng.choice((1, 2)), rng.choice((1, 2)), 1, 1
    socks = list(range(ns))
    conns = list(range(ns, ns + nc))
    accs = list(range(ns + nc, ns + nc + na))
    progs = [[], ["post:0"]]
    script = ["start"]
    T = 0
    copen = {c: False for c in conns}
    cwait = {c: False for c in conns}      # connector functor possibly armed
    rd = {f: False for f in socks + accs}  # readable slot possibly armed
    wr = {f: False for f in socks}
    wfull = {f: False for f in socks}
    closed = set()
    for _ in range(rng.randrange(5, 16)):
        r = rng.random()
        p = rng.randrange(2)
        if r < 0.22:
            c = rng.choice(conns)
            if not copen[c]:
                script.append(f"{rng.choice(('xp', 'xp', 'xg'))}:{c}:{p}")
                copen[c] = cwait[c] = True
            else:
                op = rng.choice(("ca", "cl", "step"))
                if op == "step":
                    script.append(f"step:{c}")
                else:
                    script.append(f"{op}:{c}")
                    if op == "cl":
                        copen[c] = False
                    script.append("step")
                cwait[c] = False
        elif r < 0.4:
            a = rng.choice(accs)
            op = rng.choice(("xq", "xq", "pw", "ca", "step", "cl" if rng.random() < 0.2 else "pw"))
            if op == "xq":
                if rd[a]:
                    script += [f"ca:{a}", "step"]
                script.append(f"xq:{a}:{p}")
                rd[a] = True
            elif op == "step":
                script.append(f"step:{a}")
                rd[a] = False if a in closed else rd[a]
            else:
                script.append(f"{op}:{a}")
                if op in ("ca", "cl"):
                    script.append("step")
                    rd[a] = False
                    if op == "cl":
                        closed.add(a)
        elif r < 0.7:
            f = rng.choice(socks)
            op = rng.choice(("xR", "xR", "xW", "pw", "pw", "ca", "step", "step"))
            if op == "xR":
                if rd[f]:
                    script += [f"ca:{f}", "step"]
                    wr[f] = False
                script.append(f"xR:{f}:{rng.choice((1, 2, 3))}:{p}")
                rd[f] = True
            elif op == "xW":
                if not wr[f] and not wfull[f]:
                    script.append(f"xW:{f}:{p}")
                    wr[f] = wfull[f] = True
            elif op == "ca":
                script += [f"ca:{f}", "step"]
                rd[f] = wr[f] = False
            elif op == "step":
                script.append(f"step:{f}")
            else:
                script.append(f"pw:{f}")
        elif r < 0.8:
            script.append(f"post:{p}")
        elif r < 0.9:
            T += rng.choice((1, 5))
            script += [f"tm:0:{T + rng.choice((0, 3))}:0", f"T:{T}"]
        else:
            script.append("step")
    # an async_read that is still waiting keeps its slot: steps may or may not have completed it; the final phase
    # cancels / closes everything
    script.append("tc:0")
    for f in socks + conns + accs:
        script.append(f"cl:{f}")
    script.append("T:1000000")
    script += ["step"] * 6
    ptxt = " ".join(f"P{i}={','.join(pp) if pp else '-'}" for i, pp in enumerate(progs))
    return f"L {ns}+0+{nc}+{na} {nt} {ptxt} S {' '.join(script)}"


def is_final_case(case):
    """the loop keeps running to the end (no stop/reset anywhere): exactly-once is demanded"""
    w = case.split()
    return not any(x == "st" or x == "rs" or x.endswith(",st") or ",st," in x or x.endswith("=st") for x in w)


def gen_pool_case(rng, with_stop):
    n = rng.choice((1, 1, 2, 3))
    ops = []
    posted = n
    for _ in range(rng.randrange(1, 10)):
        r = rng.random()
        if r < 0.45:
            ops.append("p"); posted += 1
        elif r < 0.6:
            ops.append("px"); posted += 1
        else:
            ops.append(f"c:{rng.randrange(-1, posted + 2)}")
    if with_stop:
        ops.append("stop")
        if rng.random() < 0.5:
            ops.append("p")
    else:
        ops.append("rel")
        for _ in range(rng.randrange(0, 4)):
            ops.append(rng.choice(("p", "px")))
    return f"K {n} {' '.join(ops)}"


def corpus_cases():
    d = os.path.join(vcheck.ROOT, "gen", "corpus", "C17")
    out = []
    if os.path.isdir(d):
        for f in sorted(os.listdir(d)):
            for line in open(os.path.join(d, f)):
                line = line.strip()
                if line and not line.startswith("#"):
                    out.append(line)
    return out


# ------------------------------------------------------------------ canonicalisation / judge
def canon(line):
    line = re.sub(r"\s*\|\s*lost \d+\s*\|\s*stale \d+\s*\|\s*due[ \d]*\|\s*mc[ \d]*$", "", line)
    return re.sub(r"\s+", " ", line).strip()


def judge_line(case, impl_out, model_raw=""):
    """-> (J line for the Lean Spec predicates, or None when the output is not an observation).
    `model_raw` supplies the scenario's expectations computed from the script and the kernel's semantics
    (which armed handlers had their event reported, which waits were cancelled by their owner in time)."""
    w = case.split()
    mm = re.search(r"\| due([ \d]*)\| mc([ \d]*)$", model_raw)
    due = set(mm.group(1).split()) if mm else set()
    mc = set(mm.group(2).split()) if mm else set()
    if not is_final_case(case):
        # "invoked for its event" / "completed with canceled" presuppose a loop that keeps running: after stop()
        # a queued completion legitimately never runs, reset() legitimately drops it
        due, mc = set(), set()
    if w[0] == "L":
        m = re.fullmatch(r"log(.*?)\| alive(.*?)\| kinds(.*?)\| phase (\w+)", impl_out)
        if not m:
            return None
        log, alive, kinds, phase = m.groups()
        alive = set(alive.split())
        calls = {}
        for e in log.split():
            i, code, at, th = e.split(":")
            c = calls.setdefault(i, [0, JUDGE_CODES.get(code, 9), at, 1])
            c[0] += 1
            if th != "L":
                c[3] = 0
        obs = []
        for k in kinds.split():
            parts = k.split(":")
            i, kind = parts[0], parts[1]
            dl = parts[2] if len(parts) > 2 else "0"
            c = calls.get(i, [0, 0, 0, 0])
            obs.append(f"{i}:{kind}:{dl}:{c[0]}:{c[1]}:{c[2]}:{c[3]}:{1 if i in alive else 0}:{1 if i in due else 0}:{1 if i in mc else 0}")
        reset = 1 if "rs" in w else 0
        if phase == "failed":
            return "J-run-threw"      # an exception left io_service::run(): failing input by itself
        final = 1 if (is_final_case(case) and phase == "polling") else 0
        return f"J {reset} {final} " + " ".join(obs)
    if w[0] == "K":
        m = re.fullmatch(r"ran(.*?)\| cancel(.*)", impl_out)
        if not m:
            return None
        ctrue = {x.split(":")[0] for x in m.group(2).split() if x.endswith(":1")}
        kept = 0 if "stop" in w else 1
        return f"JK {kept} " + " ".join(f"{x.split(':')[0]}:{x.split(':')[1]}:{1 if x.split(':')[0] in ctrue else 0}" for x in m.group(1).split())
    return None


def main():
    c = Check("C17")
    thorough = c.tier == "thorough"
    c.rule = ("case = one scripted scenario: (L) socket pairs + deadline timers + handler programs + a history of operations and "
              "`step[:f]` (one run_one iteration of the real loop, the kernel's answer filtered to descriptor f), run on each of "
              "epoll/poll/select under a virtual clock; (K) thread-pool post/cancel/stop scripts behind gate jobs; (C) free-running "
              "producer threads (judged only).  non-trivial = model log contains a non-success code or >= 3 invocations or a "
              "stopped/failed loop, or a pool case with a true cancel / a throwing job; distinct = distinct case lines")
    c.trusted += [
        "translator translate/c17.py (clang-14 AST: overload selected at each completion_handler construction, first-statement lock guards, helper call edges; regex shape checks of run_one, set_event, cancel_timer_event, canceler/setter bodies, reset, thread_pool worker/post/cancel/stop)",
        "hand-written step functions of Model.lean (atomic step = one critical section), tied by lock-step correspondence on three reactor back-ends",
        "atomicity of each critical section (booster::recursive_mutex / booster::mutex, pthread), memory model: assumed, only exercised (free-running C cases, TSan in thorough)",
        "kernel readiness reporting, the self-pipe wake-up and reactor::select/poll are parameters of the model (any event list, any select answer); the harness' poll/epoll_wait/select/gettimeofday interposers",
        "handlers do not throw (an exception leaving a handler propagates out of io_service::run by design)",
    ]
    c.assumptions += [
        "NoDoubleArm for the no-loss / exactly-once theorems (known finding aio-double-arm-drops-handler otherwise)",
        "fairness: the loop thread keeps taking steps and nobody calls stop()/reset() (exactly_once_if_running)",
        "timer slot search returns a currently free slot (rand-based search abstracted to a parameter)",
        "monotone clock between run_one's reading and the handler's invocation (timer_not_early is stated on run_one's own clock readings)",
    ]

    ok_tr = c.translate("c17.py", vcheck.BUILD)
    if not ok_tr:
        # the extractor refused the source and wrote nothing: do not let a Gen.lean left over from some other
        # tree decide which proofs appear broken -- fall back to the committed reference copy
        rc, ref = sh(["git", "-C", vcheck.ROOT, "show", "HEAD:lean/Cppcms/C17/Gen.lean"])
        if rc == 0 and ref.startswith("/- GENERATED"):
            write_gen = os.path.join(vcheck.LEAN, "Cppcms", "C17", "Gen.lean")
            if open(write_gen).read() != ref:
                open(write_gen, "w").write(ref)
    proved = c.prove(["Cppcms.C17.Props"], OBLIGATIONS, exe="c17_model")
    if thorough and proved:
        c.leanchecker(["Cppcms.C17.Props"])
    model = c.model_exe()
    ok_impl = c.impl_build()
    hbin = c.harness("c17") if ok_impl else None

    corpus = corpus_cases()
    replay_backend = None
    if c.replay_path:
        rp = json.load(open(c.replay_path))
        cases = [rp["case"]] if "case" in rp else []
        replay_backend = rp.get("backend")
        corpus = []
    else:
        rng = c.rng
        nloop = 4000 if thorough else 416
        cases = list(corpus)
        for k in range(nloop):
            fl = ("final", "final", "free", "free", "stop", "periodic", "reuse", "pending")[k % 8]
            cases.append(gen_pending_case(rng) if fl == "pending" else gen_loop_case(rng, fl))
        for k in range(400 if thorough else 60):
            cases.append(gen_pool_case(rng, with_stop=False))
        for k in range(12 if thorough else 3):
            cases.append(gen_pool_case(rng, with_stop=True))
        for k in range(10 if thorough else 2):
            cases.append(f"C {rng.choice((2, 3, 4, 6))} {rng.choice((150, 300, 600)) if thorough else 120} {rng.randrange(1 << 30)}")
        cases = list(dict.fromkeys(cases))

    if hbin and os.path.exists(model) and cases:
        # classify with the model first, per back-end (what the kernel reports, hence which scenario a script
        # becomes, depends on the back-end): scenarios that arm an occupied slot / run an arm after its descriptor
        # was closed / cancel a stale timer id are instances of the known findings (hypotheses of the theorems
        # false); only the recorded witnesses of the corpus are replayed for those
        discarded = {"double_arm": 0, "arm_ran_after_close_or_stale_timer_id": 0}

        def classify(cs_list, b):
            rc, mo, err = c.run_lines(model, cs_list, ([b] if b != "pool" else []))
            keep, raw = [], []
            for cs, o in zip(cs_list, mo):
                m = re.search(r"\| lost (\d+) \| stale (\d+) \|", o)
                if m and cs not in corpus and not c.replay_path:
                    if int(m.group(1)) > 0:
                        discarded["double_arm"] += 1
                        continue
                    if int(m.group(2)) > 0:
                        discarded["arm_ran_after_close_or_stale_timer_id"] += 1
                        continue
                keep.append(cs)
                raw.append(o)
            return keep, raw
        loopish = [cs for cs in cases if cs[0] in "LCX"]
        poolish = [cs for cs in cases if cs[0] == "K"]
        all_bad = []
        witness_seen = {}

        def nontriv(cs, o):
            if cs.startswith("L"):
                lg = o.split("|")[0].split()[1:]
                if len(lg) >= 3 or any(x.split(":")[1] != "ok" for x in lg) or "phase polling" not in o:
                    return cs
                return None
            if cs.startswith("K"):
                return cs if (":1" in o.split("|")[-1] or "px" in cs) else None
            return None

        streams = [(b, loopish) for b in (BACKENDS if not replay_backend else [replay_backend])]
        if poolish:
            streams.append(("pool", poolish))
        for b, cs_list in streams:
            if not cs_list:
                continue
            cs_list, raw_m = classify(cs_list, b)
            out_i, out_m, diffs, crashed = c.correspond(
                b, cs_list, hbin, model, impl_args=([b] if b != "pool" else []), model_args=([b] if b != "pool" else []), canon=canon, nontrivial=nontriv,
                timeout=3000)
            if not c.samples:
                idx = [0, 1, len(cs_list) // 3, len(cs_list) // 2, len(cs_list) - 1]
                c.samples = [{"backend": b, "case": cs_list[i], "impl": out_i[i] if i < len(out_i) else None,
                              "model": out_m[i] if i < len(out_m) else None} for i in sorted(set(i for i in idx if i < len(cs_list)))]
            if crashed:
                c.violation("sanitizer abort / crash of the real code", {"backend": b, "case": crashed["case"], "stderr": crashed["stderr"]})
            # judge every implementation output with the property predicates (Spec.lean)
            jl = [(k, judge_line(cs_list[k], out_i[k], raw_m[k] if k < len(raw_m) else "")) for k in range(min(len(cs_list), len(out_i)))]
            lean_j = [(k, l) for k, l in jl if l and l.startswith("J ") or l and l.startswith("JK ")]
            rcj, jout, jerr = c.run_lines(model, [l for _, l in lean_j])
            bad = []
            for (k, l), o in zip(lean_j, jout):
                if o != "1":
                    bad.append(k)
            for k, l in jl:
                if l == "J-run-threw":
                    bad.append(k)
                elif l is None:
                    if cs_list[k].startswith("C"):
                        if out_i[k] != "ok":
                            bad.append(k)
                    elif cs_list[k].startswith("X"):
                        # a timer that nobody cancelled must not complete with `canceled`
                        if out_i[k] != "A 1:ok B-canceled 0":
                            bad.append(k)
                    else:
                        bad.append(k)       # hung / bad-op / no observation
            c.extra_cov["judged_impl_outputs"] = c.extra_cov.get("judged_impl_outputs", 0) + len(jl)
            for k in sorted(set(bad)):
                cs = cs_list[k]
                if cs in corpus and cs_tag(cs):
                    witness_seen[(cs_tag(cs), b)] = out_i[k]
                    continue
                c.violation("property predicate false on implementation output",
                            {"backend": b, "case": cs, "impl_output": out_i[k], "model_output": out_m[k] if k < len(out_m) else None,
                             "replay_cmd": "bin/check C17 --replay <this file>"})
                all_bad.append(k)
            # free-running cases and pool scripts with stop() (which jobs still start after stop is timing) are judged only
            real_diffs = [d for d in diffs if not d[1].startswith("C") and not (d[1].startswith("K") and " stop" in d[1])]
            if real_diffs and not bad and not crashed:
                k, cs, a, bm = real_diffs[0]
                c.broke(f"correspondence stream {b}", f"{len(real_diffs)} differing cases; first: {cs} impl={a} model={bm}")
            elif real_diffs and not crashed:
                nonbad = [d for d in real_diffs if d[0] not in bad]
                if nonbad:
                    k, cs, a, bm = nonbad[0]
                    c.broke(f"correspondence stream {b}", f"{len(nonbad)} differing cases; first: {cs} impl={a} model={bm}")
            if c.replay_path:
                for i, cs in enumerate(cs_list):
                    print("backend:", b); print("case :", cs); print("impl :", out_i[i] if i < len(out_i) else None)
                    print("model:", out_m[i] if i < len(out_m) else None)
        c.extra_cov["generated_cases_discarded_per_backend_stream"] = discarded
        # known findings: each witness must still fail exactly as recorded (per back-end); anything else is a violation
        if not c.replay_path:
            for fid, what in ((D12_ID, "two on_readable on one descriptor: first handler destroyed without being invoked "
                                        "(witness gen/corpus/C17/d12-double-arm.case)"),
                              (SLOT_ID, "deadline_timer::cancel() after expiry but before the handler ran passes a stale event id: "
                                        "an unrelated timer that reused the slot completes with `canceled` "
                                        "(witness gen/corpus/C17/stale-timer-id.case)"),
                              (STALE_ID, "on_readable queued from another thread, then cancel+close from a handler runs directly and "
                                         "overtakes it: handler armed on a closed descriptor, never invoked (poll) / run() throws EBADF "
                                         "(select) (witness gen/corpus/C17/stale-arm.case)")):
                seen = {b: o for (t, b), o in witness_seen.items() if t == fid}
                if not seen:
                    continue
                exact = seen == RECORDED[fid]
                if exact and c.is_known(fid):
                    c.known_finding(fid, f"id={fid} {what}")
                else:
                    b0 = sorted(seen)[0]
                    c.violation("known-finding witness fails differently from what is recorded (or the finding is not listed)",
                                {"backend": b0, "case": {D12_ID: D12_CASE, STALE_ID: STALE_CASE, SLOT_ID: SLOT_CASE}[fid], "impl_output": seen[b0],
                                 "recorded": RECORDED[fid], "observed": seen})
            # if a witness passes the judge everywhere the defect is gone: the model (faithful to the old behaviour)
            # then differs and the correspondence diff above reports it
        # thorough: ThreadSanitizer build, free-running cases only
        if thorough and not c.replay_path:
            if c.impl_build(tsan=True):
                tbin = c.harness("c17", tsan=True)
                if tbin:
                    tc_cases = [f"C {n} 400 {c.rng.randrange(1 << 30)}" for n in (2, 4, 8)] + ["K 3 p px p c:4 p rel p px"]
                    import subprocess
                    for b in BACKENDS:
                        # one process per case, so that a report names the case it belongs to; the COMPLETE report is kept
                        for tcase in tc_cases:
                            env = dict(os.environ, TSAN_OPTIONS="halt_on_error=0 exitcode=66 second_deadlock_stack=1 history_size=4")
                            try:
                                pr = subprocess.run([tbin, b], input=(tcase + "\n").encode(), stdout=subprocess.PIPE,
                                                    stderr=subprocess.PIPE, timeout=600, env=env, cwd=c.scratch)
                                rc, out, err = pr.returncode, pr.stdout.decode("utf-8", "replace").splitlines(), pr.stderr.decode("utf-8", "replace")
                            except subprocess.TimeoutExpired:
                                rc, out, err = 124, [], "TIMEOUT"
                            c.evaluations += 1
                            races = "ThreadSanitizer" in err or rc == 66
                            st = c.extra_cov.setdefault(f"tsan_{b}", {"cases": 0, "reports": 0})
                            st["cases"] += 1
                            if races:
                                st["reports"] += 1
                                rp = os.path.join(vcheck.ROOT, "replay", f"C17-tsan-{b}-{c.seed}.txt")
                                open(rp, "w").write(f"case: {tcase}\nbackend: {b}\n\n{err}")
                                kind = re.search(r"WARNING: ThreadSanitizer: ([^\n(]*)", err)
                                c.violation("ThreadSanitizer report while exercising the loop/pool from several threads: "
                                            + (kind.group(1).strip() if kind else "?"),
                                            {"backend": b, "case": tcase, "tsan_report_file": rp, "tsan_report_full": err})
                            elif not out or (out[0] != "ok" and not out[0].startswith("ran")):
                                c.violation("exactly-once violated under TSan build (or the case did not finish)",
                                            {"backend": b, "case": tcase, "impl_output": out[0] if out else None, "stderr": err[-3000:]})
    c.finish()


def cs_tag(cs):
    """the known-finding witnesses of the corpus are recognised by their exact text"""
    return D12_ID if cs == D12_CASE else STALE_ID if cs == STALE_CASE else SLOT_ID if cs == SLOT_CASE else ""


if __name__ == "__main__":
    main()
