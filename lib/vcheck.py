#!/usr/bin/env python3
"""Shared machinery for the per-property checks (checks/cXX.py).

One run of a check =
  translate  : regenerate lean/Cppcms/Cxx/Gen.lean from /repo's current source
  prove      : lake build the property's Props module + its model driver;
               audit for sorry/axioms; `#print axioms` on every obligation
  build      : ninja the ASan+UBSan static build of /repo's working tree and
               link the property's C++ harness against it
  correspond : same case file -> harness (real code) and -> Lean driver (model);
               diff the canonical output streams
  judge      : property predicate evaluated on the implementation's outputs
  decide     : exit 0 / KNOWN-FINDING lines / VIOLATION line + replay file
  evidence   : evidence/Cxx.json rewritten on every run

Nothing here is specific to one property.  See DESIGN.md section 2.
"""
import os, sys, json, time, subprocess, hashlib, re, random, fcntl, shutil, tempfile

ROOT = os.path.dirname(os.path.dirname(os.path.abspath(__file__)))
REPO = os.environ.get("VERIF_REPO", "/repo")
BUILD = os.environ.get("VERIF_BUILD") or os.path.join(ROOT, ".build")
ASAN = os.path.join(BUILD, "asan")
TSAN = os.path.join(BUILD, "tsan")
LEAN = os.path.join(ROOT, "lean")
HARNESS_SRC = os.path.join(ROOT, "harness")
HARNESS_BIN = os.path.join(BUILD, "harness")
GUARD = "CPPCMS_VERIF_HOOKS"
NCPU = os.cpu_count() or 4

ALLOWED_AXIOMS = {"propext", "Classical.choice", "Quot.sound"}
FORBIDDEN_RE = re.compile(
    r"\b(sorry|admit|native_decide|bv_decide|implemented_by|maxHeartbeats\s+0)\b|^\s*axiom\s|\bunsafe\s")

LINK_LIBS = ["-lpthread", "-lpcre", "-licuuc", "-licui18n", "-licudata",
             "-lcrypto", "-lz", "-ldl"]


def sh(cmd, cwd=None, timeout=None, env=None, input=None):
    """run, capture; returns (rc, stdout+stderr)"""
    e = dict(os.environ)
    if env:
        e.update(env)
    try:
        p = subprocess.run(cmd, cwd=cwd, timeout=timeout, env=e, input=input,
                           stdout=subprocess.PIPE, stderr=subprocess.STDOUT,
                           shell=isinstance(cmd, str))
        return p.returncode, p.stdout.decode("utf-8", "replace")
    except subprocess.TimeoutExpired as ex:
        return 124, (ex.stdout or b"").decode("utf-8", "replace") + "\nTIMEOUT"


class Lock:
    def __init__(self, name):
        os.makedirs(BUILD, exist_ok=True)
        self.path = os.path.join(BUILD, name + ".lock")

    def __enter__(self):
        self.f = open(self.path, "w")
        fcntl.flock(self.f, fcntl.LOCK_EX)
        return self

    def __exit__(self, *a):
        fcntl.flock(self.f, fcntl.LOCK_UN)
        self.f.close()


def strip_lean_comments(src):
    """remove /- ... -/ (nested) and -- comments, and string literals"""
    out = []
    i, n, depth = 0, len(src), 0
    while i < n:
        if src.startswith("/-", i):
            depth += 1
            i += 2
        elif depth and src.startswith("-/", i):
            depth -= 1
            i += 2
        elif depth:
            if src[i] == "\n":
                out.append("\n")
            i += 1
        elif src.startswith("--", i):
            while i < n and src[i] != "\n":
                i += 1
        elif src[i] == '"':
            i += 1
            while i < n and src[i] != '"':
                i += 2 if src[i] == "\\" else 1
            i += 1
            out.append('""')
        else:
            out.append(src[i])
            i += 1
    return "".join(out)


class Check:
    """State of one run of one property's check."""

    def __init__(self, prop, argv=None, design_ref=""):
        argv = sys.argv[1:] if argv is None else argv
        self.prop = prop
        self.tier = os.environ.get("VERIF_TIER", "quick")
        self.replay_path = None
        i = 0
        while i < len(argv):
            if argv[i] == "--tier":
                self.tier = argv[i + 1]; i += 2
            elif argv[i] == "--replay":
                self.replay_path = argv[i + 1]; i += 2
            else:
                i += 1
        if self.tier not in ("quick", "thorough"):
            self.tier = "quick"
        try:
            self.seed = int(os.environ.get("VERIF_SEED", "1"))
        except ValueError:
            self.seed = 1
        self.rng = random.Random(self.seed * 1000003 + int(prop[1:]))
        self.t0 = time.time()
        self.obligations = []       # list of {"name","desc"}
        self.discharged = []        # names
        self.broken = []            # list of {"what","detail"}: proof / tie obligations that no longer check
        self.axioms = {}            # theorem -> [axioms]
        self.violations = []        # list of replay dicts (concrete failing inputs)
        self.known_hits = []        # known findings that reproduced
        self.evaluations = 0
        self.nontrivial = set()
        self.samples = []
        self.traces_validated = 0
        self.assumptions = []
        self.trusted = []
        self.extra_cov = {}
        self.rule = ""
        self.log_lines = []
        self.known = load_known_findings(prop)
        os.makedirs(os.path.join(ROOT, "evidence"), exist_ok=True)
        os.makedirs(os.path.join(ROOT, "replay"), exist_ok=True)
        self.scratch = os.path.join(BUILD, "scratch", prop)
        shutil.rmtree(self.scratch, ignore_errors=True)
        os.makedirs(self.scratch, exist_ok=True)

    # ------------------------------------------------------------------ log
    def log(self, *a):
        s = " ".join(str(x) for x in a)
        self.log_lines.append(s)
        print(f"[{self.prop} {time.time()-self.t0:6.1f}s] {s}", flush=True)

    def broke(self, what, detail):
        self.log(f"BROKEN obligation/tie: {what}: {detail[:2000]}")
        self.broken.append({"what": what, "detail": detail[-6000:]})

    # ------------------------------------------------------------ translate
    def translate(self, script, *args):
        """Run translate/<script> which (re)writes Gen.lean from /repo's source.
        The script prints the path(s) it wrote; non-zero exit = source no longer
        has the shape the extractor understands -> broken tie."""
        rc, out = sh([sys.executable, os.path.join(ROOT, "translate", script), REPO, LEAN, *args])
        if rc != 0:
            self.broke(f"translator {script}", out)
            # the extractor refused this tree: fall back to the committed Gen.lean (what the clean tree
            # generates) so that the model is the clean model and the correspondence run can exhibit the
            # behavioural difference, instead of a stale file left by an earlier run
            sh(["git", "-C", ROOT, "checkout", "--", f"lean/Cppcms/{self.prop}/Gen.lean"])
            return False
        self.log(f"translate {script}: ok ({out.strip().splitlines()[-1] if out.strip() else ''})")
        return True

    # ---------------------------------------------------------------- prove
    def lake_build(self, targets, what=None):
        with Lock("lake-" + self.prop):
            rc, out = sh(["lake", "build", *targets], cwd=LEAN, timeout=3000)
        if rc != 0:
            self.broke(what or f"lake build {' '.join(targets)}", out)
            return False, out
        return True, out

    def prove(self, modules, obligations, exe=None):
        """Build the Props modules and check every obligation.
        obligations: list of (fully qualified theorem name, description)."""
        self.obligations = [{"name": n, "desc": d} for n, d in obligations]
        ok_exe = True
        if exe:
            ok_exe, _ = self.lake_build([exe], what=f"model driver {exe} (model no longer compiles against regenerated Gen)")
        ok, out = self.lake_build(modules, what="proof modules " + " ".join(modules))
        # forbidden constructs in the property's Lean sources
        pdir = os.path.join(LEAN, "Cppcms", self.prop)
        files = [os.path.join(pdir, f) for f in sorted(os.listdir(pdir)) if f.endswith(".lean")]
        files.append(os.path.join(LEAN, "Cppcms", "Common.lean"))
        for f in files:
            src = strip_lean_comments(open(f).read())
            for ln, line in enumerate(src.splitlines(), 1):
                m = FORBIDDEN_RE.search(line)
                if m:
                    self.broke("audit", f"forbidden construct {m.group(0).strip()!r} at {f}:{ln}")
                    ok = False
        if ok:
            self._print_axioms(modules, [n for n, _ in obligations])
        else:
            # find out which obligations still check: build a probe per theorem
            self._print_axioms(modules, [n for n, _ in obligations], tolerate_missing=True)
        self.log(f"obligations {len(self.obligations)} discharged {len(self.discharged)}")
        return ok and ok_exe and len(self.discharged) == len(self.obligations)

    def _print_axioms(self, modules, names, tolerate_missing=False):
        os.makedirs(self.scratch, exist_ok=True)
        probe = os.path.join(self.scratch, "axioms_probe.lean")
        with open(probe, "w") as f:
            for m in modules:
                f.write(f"import {m}\n")
            for n in names:
                f.write(f"#print axioms {n}\n")
        with Lock("lake-" + self.prop):
            rc, out = sh(["lake", "env", "lean", probe], cwd=LEAN, timeout=600)
        cur = None
        found = {}
        # output format: "'name' depends on axioms: [a, b]" or "'name' does not depend on any axioms"
        text = out.replace("\n ", " ")
        for m in re.finditer(r"'([^']+)' (does not depend on any axioms|depends on axioms: \[([^\]]*)\])", text):
            name = m.group(1)
            ax = [] if m.group(3) is None else [a.strip() for a in m.group(3).split(",") if a.strip()]
            found[name] = ax
        for n in names:
            if n in found:
                self.axioms[n] = found[n]
                bad = [a for a in found[n] if a not in ALLOWED_AXIOMS]
                if bad:
                    self.broke(f"theorem {n}", f"depends on non-standard axioms {bad}")
                else:
                    self.discharged.append(n)
            else:
                if not tolerate_missing or True:
                    self.broke(f"theorem {n}", "not found / did not type-check after regeneration\n" + out[-1500:])

    def leanchecker(self, modules):
        for m in modules:
            with Lock("lake-" + self.prop):
                rc, out = sh(["lake", "env", "leanchecker", m], cwd=LEAN, timeout=3000)
            if rc != 0:
                self.broke(f"leanchecker {m}", out)
                return False
            self.log(f"leanchecker {m}: ok")
        return True

    # ---------------------------------------------------------------- build
    def impl_build(self, tsan=False, targets=("cppcms-static", "booster-static")):
        d = TSAN if tsan else ASAN
        with Lock("tsan" if tsan else "asan"):
            if not os.path.exists(os.path.join(d, "build.ninja")):
                rc, out = configure_impl(d, tsan)
                if rc != 0:
                    self.broke("cmake configure of /repo", out)
                    return False
            rc, out = sh(["ninja", "-C", d, *targets], timeout=3000)
        if rc != 0:
            # /repo's working tree does not compile: not a property verdict; report as broken tie
            self.broke("build of /repo working tree (ASan)", out[-4000:])
            return False
        return True

    def harness(self, name, sources=None, extra=(), tsan=False, link_libs=True, std="gnu++17"):
        """compile harness/<name>.cpp (plus sources) against the sanitizer build; returns path or None"""
        os.makedirs(HARNESS_BIN, exist_ok=True)
        d = TSAN if tsan else ASAN
        srcs = [os.path.join(HARNESS_SRC, s) for s in (sources or [name + ".cpp"])]
        outp = os.path.join(HARNESS_BIN, name + ("_tsan" if tsan else ""))
        final, outp = outp, outp + f".tmp{os.getpid()}"
        san = ["-fsanitize=thread"] if tsan else ["-fsanitize=address,undefined", "-fno-sanitize-recover=undefined"]
        cmd = ["g++", f"-std={std}", "-O1", "-g", "-w", "-fno-omit-frame-pointer", *san, f"-D{GUARD}",
               f"-I{HARNESS_SRC}", f"-I{REPO}", f"-I{REPO}/booster", f"-I{d}", f"-I{d}/booster",
               f"-I{REPO}/private", f"-I{REPO}/src", *extra, *srcs, "-o", outp]
        if link_libs:
            cmd += [os.path.join(d, "libcppcms.a"), os.path.join(d, "booster", "libbooster.a"), *LINK_LIBS]
        rc, out = sh(cmd, timeout=1200)
        if rc != 0:
            self.broke(f"harness {name} does not compile against the working tree", out[-4000:])
            return None
        os.replace(outp, final)      # atomic: a concurrent run never execs a half-written binary
        return final

    # ----------------------------------------------------------------- run
    def model_exe(self, name=None):
        return os.path.join(LEAN, ".lake", "build", "bin", name or f"{self.prop.lower()}_model")

    def run_lines(self, exe, lines, args=(), timeout=1800, env=None):
        """feed `lines` (list of str) to exe on stdin, return (rc, out_lines, raw_tail)"""
        data = ("\n".join(lines) + "\n").encode()
        e = dict(os.environ)
        e.setdefault("ASAN_OPTIONS", "detect_leaks=0:abort_on_error=0:allocator_may_return_null=1")
        e.setdefault("UBSAN_OPTIONS", "print_stacktrace=1")
        if env:
            e.update(env)
        try:
            p = subprocess.run([exe, *args], input=data, stdout=subprocess.PIPE, stderr=subprocess.PIPE,
                               timeout=timeout, env=e, cwd=self.scratch)
            return p.returncode, p.stdout.decode("utf-8", "replace").splitlines(), p.stderr.decode("utf-8", "replace")[-4000:]
        except subprocess.TimeoutExpired as ex:
            return 124, (ex.stdout or b"").decode("utf-8", "replace").splitlines(), "TIMEOUT"

    def correspond(self, stream, cases, impl_bin, model_bin, impl_args=(), model_args=(), canon=None, nontrivial=None, timeout=1800):
        """Run both sides on the same case lines. Returns (impl_lines, model_lines, diffs)
        diffs = list of (index, case, impl, model).  A crash of the harness (sanitizer) is
        reported as a diff at the first case without output and flagged in self.crash."""
        rc_i, out_i, err_i = self.run_lines(impl_bin, cases, impl_args, timeout)
        rc_m, out_m, err_m = self.run_lines(model_bin, cases, model_args, timeout)
        if canon:
            out_i = [canon(x) for x in out_i]
            out_m = [canon(x) for x in out_m]
        diffs = []
        n = len(cases)
        for k in range(n):
            a = out_i[k] if k < len(out_i) else "<no output: harness died>"
            b = out_m[k] if k < len(out_m) else "<no output: model driver died>"
            if a != b:
                diffs.append((k, cases[k], a, b))
        self.evaluations += n
        self.traces_validated += min(len(out_i), len(out_m), n)
        if nontrivial:
            for k in range(min(n, len(out_m))):
                key = nontrivial(cases[k], out_m[k])
                if key is not None:
                    self.nontrivial.add(key)
        crashed = None
        if rc_i != 0:
            crashed = {"rc": rc_i, "stderr": err_i, "case": cases[len(out_i)] if len(out_i) < n else None}
        if rc_m != 0:
            self.broke(f"model driver crashed on stream {stream}", err_m)
        self.log(f"correspond[{stream}]: {n} cases, {len(diffs)} diffs, impl rc={rc_i}, model rc={rc_m}")
        return out_i, out_m, diffs, crashed

    # -------------------------------------------------------------- verdict
    def is_known(self, witness_id):
        return any(k["kind"] == "finding" and k["id"] == witness_id for k in self.known)

    def known_finding(self, witness_id, what):
        """a listed finding reproduced exactly as recorded"""
        self.known_hits.append(witness_id)
        print(f"KNOWN-FINDING: property={self.prop} {what}", flush=True)

    def violation(self, what, replay, concrete=True):
        replay = dict(replay)
        replay.update({"property": self.prop, "what": what, "seed": self.seed, "tier": self.tier,
                       "concrete_failing_input": concrete})
        self.violations.append(replay)

    def finish(self):
        """decide, write evidence, print VIOLATION lines, exit"""
        # broken obligations/ties with no concrete failing input -> still a violation
        rc = 0
        out_lines = []
        concrete = [v for v in self.violations if v.get("concrete_failing_input")]
        if concrete:
            v = concrete[0]
            path = self._write_replay(v, concrete)
            out_lines.append(f"VIOLATION property={self.prop} replay={path}")
            rc = 1
        elif self.broken or self.violations:
            v = {"property": self.prop, "seed": self.seed, "tier": self.tier,
                 "what": "proof obligation or model/code tie no longer checks; search found no failing input",
                 "broken": self.broken, "concrete_failing_input": False,
                 "non_concrete": self.violations}
            path = self._write_replay(v, [])
            out_lines.append(f"VIOLATION property={self.prop} replay={path} no-failing-input-found")
            rc = 1
        self._write_evidence(len(concrete) if concrete else (1 if rc else 0))
        for l in out_lines:
            print(l, flush=True)
        if rc == 0:
            self.log(f"OK: {len(self.discharged)}/{len(self.obligations)} obligations, "
                     f"{self.evaluations} correspondence cases, {len(self.known_hits)} known findings reproduced")
        sys.exit(rc)

    def _write_replay(self, v, allv):
        path = os.path.join(ROOT, "replay", f"{self.prop}-{self.tier}-{self.seed}.json")
        v = dict(v)
        if len(allv) > 1:
            v["further_failing_cases"] = allv[1:20]
        v["broken_obligations"] = self.broken
        with open(path, "w") as f:
            json.dump(v, f, indent=1, default=str)
        return path

    def _write_evidence(self, nviol):
        n_ob = max(1, len(self.obligations))
        trusted = ["Lean 4 kernel (lean 4.33.0)"]
        axs = sorted({a for v in self.axioms.values() for a in v})
        trusted.append("axioms reported by #print axioms over all obligations: " + (", ".join(axs) if axs else "none"))
        trusted += self.trusted
        cov = {
            "obligations": len(self.obligations) or 1,
            "discharged": len(self.discharged),
            "checker_cmd": f"cd {LEAN} && lake build Cppcms.{self.prop}.Props && lake env lean <#print axioms probe>  (driven by checks/{self.prop.lower()}.py)",
            "trusted_base": trusted,
            "obligation_list": [dict(o, axioms=self.axioms.get(o["name"]), discharged=(o["name"] in self.discharged)) for o in self.obligations],
            "broken": self.broken,
            "evaluations": self.evaluations,
            "distinct_nontrivial": len(self.nontrivial),
            "rule": self.rule,
            "samples": self.samples[:12] if self.samples else ["(no correspondence cases were run: the check stopped earlier)"],
            "traces_validated_against_impl": self.traces_validated,
            "known_findings_reproduced": self.known_hits,
        }
        cov.update(self.extra_cov)
        ev = {
            "property_id": self.prop,
            "tier": self.tier,
            "seed": self.seed,
            "level": "proof",
            "coverage": cov,
            "assumptions": self.assumptions,
            "wall_s": round(time.time() - self.t0, 2),
            "violations": nviol,
        }
        with open(os.path.join(ROOT, "evidence", f"{self.prop}.json"), "w") as f:
            json.dump(ev, f, indent=1, default=str)


def configure_impl(d, tsan=False):
    san = "-fsanitize=thread" if tsan else "-fsanitize=address,undefined -fno-sanitize-recover=undefined"
    cmd = ["cmake", "-G", "Ninja", "-S", REPO, "-B", d, "-DDISABLE_SHARED=ON",
           "-DCMAKE_BUILD_TYPE=RelWithDebInfo",
           f"-DCMAKE_CXX_FLAGS={san} -fno-omit-frame-pointer -D{GUARD}",
           f"-DCMAKE_C_FLAGS={san} -fno-omit-frame-pointer"]
    return sh(cmd, timeout=600)


def load_known_findings(prop=None):
    """known_findings.txt lines:
         finding: property=Cxx id=<slug> <free text>
         fixed: property=Cxx <commit> <free text>"""
    res = []
    p = os.path.join(ROOT, "known_findings.txt")
    if not os.path.exists(p):
        return res
    for line in open(p):
        line = line.strip()
        if not line or line.startswith("#"):
            continue
        m = re.match(r"(finding|fixed):\s+property=(C\d+)\s+(.*)", line)
        if not m:
            continue
        kind, pr, rest = m.groups()
        if prop and pr != prop:
            continue
        ent = {"kind": kind, "property": pr, "text": rest}
        mi = re.match(r"id=(\S+)\s*(.*)", rest)
        if mi:
            ent["id"] = mi.group(1)
            ent["text"] = mi.group(2)
        else:
            ent["id"] = None
        res.append(ent)
    return res


def hexs(b):
    return b.hex() if b else "-"


def unhex(s):
    return b"" if s == "-" else bytes.fromhex(s)
