import Cppcms.C06.Model
import Cppcms.C06.Spec
/-!
# C06 helper lemmas

Part 1: the `packed` header (bit fields ↔ arithmetic), `save_data` / `load_data`.
Part 2: the key order and sorted association lists (`std::map`).
Part 3: `valid_sid`.
Part 4: storages (`findRec` after `save` / `remove` / `short_gc`).
-/
namespace Cppcms.C06
open Cppcms

/-! ## Part 1: header word and bytes -/

theorem leWord32_leBytes32 (w : Nat) (h : w < 4294967296) : leWord32 (leBytes32 w) = w := by
  simp [leWord32, leBytes32]
  omega

theorem leBytes32_leWord32 (b0 b1 b2 b3 : UInt8) : leBytes32 (leWord32 [b0, b1, b2, b3]) = [b0, b1, b2, b3] := by
  have h0 := b0.toNat_lt; have h1 := b1.toNat_lt; have h2 := b2.toNat_lt; have h3 := b3.toNat_lt
  simp only [leWord32, leBytes32, List.getD_cons_zero, List.getD_cons_succ]
  have e0 : (b0.toNat + b1.toNat * 256 + b2.toNat * 65536 + b3.toNat * 16777216) % 256 = b0.toNat := by omega
  have e1 : (b0.toNat + b1.toNat * 256 + b2.toNat * 65536 + b3.toNat * 16777216) / 256 % 256 = b1.toNat := by omega
  have e2 : (b0.toNat + b1.toNat * 256 + b2.toNat * 65536 + b3.toNat * 16777216) / 65536 % 256 = b2.toNat := by omega
  have e3 : (b0.toNat + b1.toNat * 256 + b2.toNat * 65536 + b3.toNat * 16777216) / 16777216 % 256 = b3.toNat := by omega
  rw [e0, e1, e2, e3]
  simp

theorem leWord32_lt (b : Bytes) : leWord32 b < 4294967296 := by
  have h0 := (b.getD 0 0).toNat_lt; have h1 := (b.getD 1 0).toNat_lt
  have h2 := (b.getD 2 0).toNat_lt; have h3 := (b.getD 3 0).toNat_lt
  simp only [leWord32]
  omega

theorem leBytes32_length (w : Nat) : (leBytes32 w).length = 4 := rfl

theorem headerWord_lt (ks : Nat) (e : Bool) (ds : Nat) : headerWord ks e ds < 4294967296 := by
  simp only [headerWord, Gen.keyBits, Gen.dataBits, Gen.expBits]
  cases e <;> simp <;> omega

/-- the three bit fields read back what the packing constructor stored, **because** the limits it
enforces are the field capacities (a changed width or limit breaks this proof) -/
theorem word_fields (ks : Nat) (e : Bool) (ds : Nat) (hk : ks < Gen.keyLimit) (hd : ds < Gen.dataLimit) :
    wordKey (headerWord ks e ds) = ks ∧ wordExp (headerWord ks e ds) = e ∧ wordData (headerWord ks e ds) = ds := by
  simp only [Gen.keyLimit, Gen.dataLimit] at hk hd
  simp only [headerWord, wordKey, wordExp, wordData, Gen.keyBits, Gen.dataBits, Gen.expBits]
  cases e <;> simp <;> omega

theorem wordKey_lt (w : Nat) : wordKey w < Gen.keyLimit := by
  simp only [wordKey, Gen.keyBits, Gen.keyLimit]; omega

theorem wordData_lt (w : Nat) : wordData w < Gen.dataLimit := by
  simp only [wordData, Gen.keyBits, Gen.expBits, Gen.dataBits, Gen.dataLimit]; omega

/-- every 32-bit word is the header of its own fields: the unpacking constructor accepts anything -/
theorem headerWord_fields (w : Nat) (h : w < 4294967296) : headerWord (wordKey w) (wordExp w) (wordData w) = w := by
  have hk : wordKey w = w % 1024 := by simp [wordKey, Gen.keyBits]
  have hd : wordData w = w / 2048 % 2097152 := by simp [wordData, Gen.keyBits, Gen.expBits, Gen.dataBits]
  have h2 : w / 1024 % 2 = 0 ∨ w / 1024 % 2 = 1 := by omega
  rcases h2 with h2 | h2
  · have he : wordExp w = false := by simp [wordExp, Gen.keyBits, Gen.expBits, h2]
    rw [hk, hd, he]
    simp [headerWord, Gen.keyBits, Gen.expBits, Gen.dataBits]
    omega
  · have he : wordExp w = true := by simp [wordExp, Gen.keyBits, Gen.expBits, h2]
    rw [hk, hd, he]
    simp [headerWord, Gen.keyBits, Gen.expBits, Gen.dataBits]
    omega

def withinLimits (p : Key × Entry) : Prop := p.1.length < Gen.keyLimit ∧ p.2.value.length < Gen.dataLimit

theorem encodeEntry_ok (p : Key × Entry) (h : withinLimits p) :
    encodeEntry p = .ok (leBytes32 (headerWord p.1.length p.2.exposed p.2.value.length) ++ p.1 ++ p.2.value) := by
  obtain ⟨hk, hd⟩ := h
  simp only [encodeEntry, packHeader]
  rw [if_neg (by omega), if_neg (by omega)]

theorem parseFuel_cons (f : Nat) (p : Key × Entry) (h : withinLimits p) (rest : Bytes) :
    parseFuel (f + 1) (leBytes32 (headerWord p.1.length p.2.exposed p.2.value.length) ++ p.1 ++ p.2.value ++ rest) =
      match parseFuel f rest with
      | .error e => .error e
      | .ok es => .ok (p :: es) := by
  obtain ⟨hk, hd⟩ := h
  obtain ⟨k, v, e⟩ := p
  simp only at hk hd ⊢
  have hw := word_fields k.length e v.length hk hd
  have hlt := headerWord_lt k.length e v.length
  generalize hW : headerWord k.length e v.length = W at hw hlt
  have hs : Gen.headerSize = 4 := rfl
  rw [parseFuel]
  have hlen : (leBytes32 W ++ k ++ v ++ rest).length = 4 + k.length + v.length + rest.length := by
    simp [leBytes32_length]; omega
  have htake : (leBytes32 W ++ k ++ v ++ rest).take Gen.headerSize = leBytes32 W := by
    rw [hs, List.append_assoc, List.append_assoc, List.take_left' (leBytes32_length W)]
  have hdrop : (leBytes32 W ++ k ++ v ++ rest).drop Gen.headerSize = k ++ v ++ rest := by
    rw [hs, List.append_assoc, List.append_assoc, List.drop_left' (leBytes32_length W), List.append_assoc]
  have hne : (leBytes32 W ++ k ++ v ++ rest).isEmpty = false := by
    simp [leBytes32]
  simp only [hne, htake, hdrop, leWord32_leBytes32 W hlt, hw.1, hw.2.1, hw.2.2]
  have h1 : ¬ (leBytes32 W ++ k ++ v ++ rest).length < Gen.headerSize := by rw [hlen, hs]; omega
  have h2 : (k ++ v ++ rest).length ≥ k.length + v.length := by simp
  have h3 : (k ++ v ++ rest).take k.length = k := by rw [List.append_assoc, List.take_left' rfl]
  have h4 : ((k ++ v ++ rest).drop k.length).take v.length = v := by
    rw [List.append_assoc, List.drop_left' rfl, List.take_left' rfl]
  have h5 : (k ++ v ++ rest).drop (k.length + v.length) = rest := by
    rw [List.drop_left' (by simp)]
  simp only [h1, h2, h3, h4, h5]
  cases parseFuel f rest <;> rfl

theorem saveData_cons_ok (p : Key × Entry) (rest : Data) (a b : Bytes) (ha : encodeEntry p = .ok a) (hb : saveData rest = .ok b) :
    saveData (p :: rest) = .ok (a ++ b) := by
  simp [saveData, ha, hb]

/-- `save_data` succeeds on entries within the limits, and the `load_data` loop reads back exactly the
sequence of entries (for any sufficient fuel) -/
theorem parseFuel_saveData (es : Data) (h : ∀ p ∈ es, withinLimits p) :
    ∃ bs, saveData es = .ok bs ∧ ∀ f, es.length ≤ f → parseFuel f bs = .ok es := by
  induction es with
  | nil => exact ⟨[], rfl, fun f _ => by cases f <;> simp [parseFuel]⟩
  | cons p rest ih =>
    obtain ⟨b, hb, hp⟩ := ih (fun q hq => h q (List.mem_cons_of_mem _ hq))
    have hl := h p (List.mem_cons_self ..)
    refine ⟨_, saveData_cons_ok p rest _ b (encodeEntry_ok p hl) hb, ?_⟩
    intro f hf
    cases f with
    | zero => simp at hf
    | succ f =>
      rw [parseFuel_cons f p hl b, hp f (by simpa using hf)]

theorem saveData_length (es : Data) (bs : Bytes) (h : saveData es = .ok bs) : 4 * es.length ≤ bs.length := by
  induction es generalizing bs with
  | nil => simp
  | cons p rest ih =>
    simp only [saveData] at h
    cases ha : encodeEntry p with
    | error e => simp [ha] at h
    | ok a =>
      cases hb : saveData rest with
      | error e => simp [ha, hb] at h
      | ok b =>
        simp [ha, hb] at h
        subst h
        have := ih b hb
        simp only [encodeEntry] at ha
        cases hh : packHeader p.1.length p.2.exposed p.2.value.length with
        | error e => simp [hh] at ha
        | ok hd =>
          simp [hh] at ha
          subst ha
          have : hd.length = 4 := by
            simp only [packHeader] at hh
            split at hh
            · simp at hh
            · split at hh
              · simp at hh
              · simp at hh; subst hh; rfl
          simp; omega

theorem parseEntries_saveData (es : Data) (h : ∀ p ∈ es, withinLimits p) :
    ∃ bs, saveData es = .ok bs ∧ parseEntries bs = .ok es := by
  obtain ⟨bs, hs, hp⟩ := parseFuel_saveData es h
  refine ⟨bs, hs, hp _ ?_⟩
  have := saveData_length es bs hs
  omega

theorem split3 (r : Bytes) (k d : Nat) :
    [b0, b1, b2, b3] ++ r.take k ++ (r.drop k).take d ++ r.drop (k + d) = [b0, b1, b2, b3] ++ r := by
  rw [List.append_assoc, List.append_assoc, ← List.drop_drop, List.take_append_drop, List.take_append_drop]

theorem exists_four (s : Bytes) (h : ¬ s.length < 4) : ∃ b0 b1 b2 b3 rest, s = b0 :: b1 :: b2 :: b3 :: rest := by
  match s with
  | b0 :: b1 :: b2 :: b3 :: rest => exact ⟨b0, b1, b2, b3, rest, rfl⟩
  | [] => simp at h
  | [_] => simp at h
  | [_, _] => simp at h
  | [_, _, _] => simp at h

/-- bounds safety and exactness of the `load_data` loop on **arbitrary** bytes: whenever it accepts, the
entries it produced are within the limits and re-encode to exactly the input — it consumed every byte and
nothing beyond. -/
theorem parseFuel_exact (f : Nat) (s : Bytes) (es : Data) (hf : s.length ≤ f) (h : parseFuel f s = .ok es) :
    saveData es = .ok s ∧ ∀ p ∈ es, withinLimits p := by
  induction f generalizing s es with
  | zero =>
    have : s = [] := List.eq_nil_of_length_eq_zero (by omega)
    subst this
    simp [parseFuel] at h; subst h; simp [saveData]
  | succ f ih =>
    rw [parseFuel] at h
    by_cases he : s.isEmpty
    · simp [he] at h; subst h
      have : s = [] := by simpa using he
      subst this; simp [saveData]
    · have hs : Gen.headerSize = 4 := rfl
      simp only [he] at h
      by_cases hl : s.length < Gen.headerSize
      · simp [hl] at h
      · simp only [hl] at h
        -- name the four header bytes
        obtain ⟨b0, b1, b2, b3, rest, rfl⟩ := exists_four s (by rw [hs] at hl; exact hl)
        have ht : (b0 :: b1 :: b2 :: b3 :: rest).take Gen.headerSize = [b0, b1, b2, b3] := by simp [hs]
        have hd : (b0 :: b1 :: b2 :: b3 :: rest).drop Gen.headerSize = rest := by simp [hs]
        rw [ht, hd] at h
        generalize hW : leWord32 [b0, b1, b2, b3] = W at h
        have hWlt : W < 4294967296 := by rw [← hW]; exact leWord32_lt _
        by_cases hr : rest.length ≥ wordKey W + wordData W
        · simp only [hr] at h
          cases hrec : parseFuel f (rest.drop (wordKey W + wordData W)) with
          | error e => simp [hrec] at h
          | ok es' =>
            simp [hrec] at h
            subst h
            have hlen : (rest.drop (wordKey W + wordData W)).length ≤ f := by
              simp at hf ⊢; omega
            obtain ⟨ihs, ihl⟩ := ih _ _ hlen hrec
            have hkl : (rest.take (wordKey W)).length = wordKey W := by simp; omega
            have hvl : ((rest.drop (wordKey W)).take (wordData W)).length = wordData W := by simp; omega
            have hwl : withinLimits (rest.take (wordKey W), ⟨(rest.drop (wordKey W)).take (wordData W), wordExp W⟩) := by
              constructor
              · show (rest.take (wordKey W)).length < _; rw [hkl]; exact wordKey_lt W
              · show ((rest.drop (wordKey W)).take (wordData W)).length < _; rw [hvl]; exact wordData_lt W
            refine ⟨?_, ?_⟩
            · rw [saveData_cons_ok _ _ _ _ (encodeEntry_ok _ hwl) ihs]
              have e1 : headerWord (rest.take (wordKey W)).length (wordExp W) ((rest.drop (wordKey W)).take (wordData W)).length = W := by
                rw [hkl, hvl]; exact headerWord_fields W hWlt
              have e2 : leBytes32 W = [b0, b1, b2, b3] := by rw [← hW]; exact leBytes32_leWord32 b0 b1 b2 b3
              simp only [e1, e2]
              rw [split3 rest (wordKey W) (wordData W)]
              rfl
            · intro p hp
              rcases List.mem_cons.mp hp with rfl | hp
              · exact hwl
              · exact ihl p hp
        · simp [hr] at h

theorem parseEntries_exact (s : Bytes) (es : Data) (h : parseEntries s = .ok es) :
    saveData es = .ok s ∧ ∀ p ∈ es, withinLimits p :=
  parseFuel_exact s.length s es (Nat.le_refl _) h

/-! ## Part 2: the key order and sorted association lists -/

theorem bytesLt_irrefl (a : Bytes) : bytesLt a a = false := by
  induction a with
  | nil => rfl
  | cons x xs ih => simp [bytesLt, ih]

theorem u8_eq_of_toNat {a b : UInt8} (h : a.toNat = b.toNat) : a = b := UInt8.toNat_inj.mp h

theorem bytesLt_trans {a b c : Bytes} (h1 : bytesLt a b = true) (h2 : bytesLt b c = true) : bytesLt a c = true := by
  induction a generalizing b c with
  | nil =>
    cases b with
    | nil => simp [bytesLt] at h1
    | cons y ys => cases c with
      | nil => simp [bytesLt] at h2
      | cons z zs => simp [bytesLt]
  | cons x xs ih =>
    cases b with
    | nil => simp [bytesLt] at h1
    | cons y ys => cases c with
      | nil => simp [bytesLt] at h2
      | cons z zs =>
        simp only [bytesLt, Bool.or_eq_true, decide_eq_true_eq, Bool.and_eq_true, beq_iff_eq] at h1 h2 ⊢
        rcases h1 with h1 | ⟨rfl, h1⟩
        · rcases h2 with h2 | ⟨rfl, h2⟩
          · left; omega
          · left; exact h1
        · rcases h2 with h2 | ⟨rfl, h2⟩
          · left; exact h2
          · right; exact ⟨rfl, ih h1 h2⟩

theorem bytesLt_asymm {a b : Bytes} (h : bytesLt a b = true) : bytesLt b a = false := by
  cases hb : bytesLt b a with
  | false => rfl
  | true => have := bytesLt_trans h hb; rw [bytesLt_irrefl] at this; cases this

theorem bytesLt_total {a b : Bytes} (h1 : bytesLt a b = false) (h2 : a ≠ b) : bytesLt b a = true := by
  induction a generalizing b with
  | nil => cases b with
    | nil => exact absurd rfl h2
    | cons y ys => simp [bytesLt] at h1
  | cons x xs ih => cases b with
    | nil => simp [bytesLt]
    | cons y ys =>
      simp only [bytesLt, Bool.or_eq_false_iff, decide_eq_false_iff_not, Bool.and_eq_false_iff, beq_eq_false_iff_ne,
        Bool.or_eq_true, decide_eq_true_eq, Bool.and_eq_true, beq_iff_eq] at h1 ⊢
      obtain ⟨hlt, hor⟩ := h1
      by_cases hxy : x = y
      · subst hxy
        right
        refine ⟨rfl, ih ?_ ?_⟩
        · rcases hor with h | h
          · exact absurd rfl h
          · exact h
        · intro e; exact h2 (by rw [e])
      · left
        have : x.toNat ≠ y.toNat := fun e => hxy (u8_eq_of_toNat e)
        omega

/-- strictly ascending keys: the invariant of `std::map` -/
def Sorted : Data → Prop
  | [] => True
  | p :: rest => (∀ q ∈ rest, bytesLt p.1 q.1 = true) ∧ Sorted rest

theorem bytesLt_ne {a b : Bytes} (h : bytesLt a b = true) : a ≠ b := by
  intro e; subst e; rw [bytesLt_irrefl] at h; cases h

theorem dfind_none_of_lt (k : Key) (d : Data) (h : ∀ q ∈ d, bytesLt k q.1 = true) : dfind k d = none := by
  induction d with
  | nil => rfl
  | cons p rest ih =>
    obtain ⟨k', e'⟩ := p
    have h1 := h (k', e') (List.mem_cons_self ..)
    simp only [dfind]
    rw [if_neg (fun e => bytesLt_ne h1 e.symm)]
    exact ih (fun q hq => h q (List.mem_cons_of_mem _ hq))

theorem dfind_dinsert (k k' : Key) (e : Entry) (d : Data) :
    dfind k (dinsert k' e d) = if k' = k then some e else dfind k d := by
  induction d with
  | nil => simp [dinsert, dfind]
  | cons p rest ih =>
    obtain ⟨k0, e0⟩ := p
    simp only [dinsert]
    split
    · simp [dfind]
    · split
      · rename_i h; subst h
        simp only [dfind]
        split <;> rfl
      · rename_i hne
        simp only [dfind, ih]
        by_cases h0 : k0 = k
        · subst h0; simp [hne]
          intro e; exact absurd e.symm hne
        · simp [h0]

theorem dfind_derase (k k' : Key) (d : Data) : dfind k (derase k' d) = if k' = k then none else dfind k d := by
  induction d with
  | nil => simp [derase, dfind]
  | cons p rest ih =>
    obtain ⟨k0, e0⟩ := p
    simp only [derase]
    split
    · rename_i h; subst h
      rw [ih]; simp only [dfind]
      split <;> rfl
    · rename_i hne
      simp only [dfind, ih]
      by_cases h0 : k0 = k
      · subst h0; simp [hne]; intro e; exact absurd e.symm hne
      · simp [h0]

theorem mem_dinsert {q : Key × Entry} {k : Key} {e : Entry} {d : Data} (h : q ∈ dinsert k e d) : q = (k, e) ∨ q ∈ d := by
  induction d with
  | nil => simp [dinsert] at h; exact Or.inl h
  | cons p rest ih =>
    obtain ⟨k0, e0⟩ := p
    simp only [dinsert] at h
    split at h
    · rcases List.mem_cons.mp h with h | h
      · exact Or.inl h
      · exact Or.inr h
    · split at h
      · rcases List.mem_cons.mp h with h | h
        · exact Or.inl h
        · exact Or.inr (List.mem_cons_of_mem _ h)
      · rcases List.mem_cons.mp h with h | h
        · exact Or.inr (h ▸ List.mem_cons_self ..)
        · rcases ih h with h | h
          · exact Or.inl h
          · exact Or.inr (List.mem_cons_of_mem _ h)

theorem mem_derase {q : Key × Entry} {k : Key} {d : Data} (h : q ∈ derase k d) : q ∈ d := by
  induction d with
  | nil => simp [derase] at h
  | cons p rest ih =>
    obtain ⟨k0, e0⟩ := p
    simp only [derase] at h
    split at h
    · exact List.mem_cons_of_mem _ (ih h)
    · rcases List.mem_cons.mp h with h | h
      · exact h ▸ List.mem_cons_self ..
      · exact List.mem_cons_of_mem _ (ih h)

theorem sorted_dinsert (k : Key) (e : Entry) (d : Data) (h : Sorted d) : Sorted (dinsert k e d) := by
  induction d with
  | nil => simp [dinsert, Sorted]
  | cons p rest ih =>
    obtain ⟨k0, e0⟩ := p
    obtain ⟨h1, h2⟩ := h
    simp only [dinsert]
    split
    · rename_i hlt
      refine ⟨?_, h1, h2⟩
      intro q hq
      rcases List.mem_cons.mp hq with rfl | hq
      · exact hlt
      · exact bytesLt_trans hlt (h1 q hq)
    · split
      · rename_i _ he; subst he
        exact ⟨h1, h2⟩
      · rename_i hnlt hne
        refine ⟨?_, ih h2⟩
        intro q hq
        rcases mem_dinsert hq with rfl | hq
        · exact bytesLt_total (by simpa using hnlt) (fun e => hne e.symm)
        · exact h1 q hq

theorem sorted_derase (k : Key) (d : Data) (h : Sorted d) : Sorted (derase k d) := by
  induction d with
  | nil => simp [derase, Sorted]
  | cons p rest ih =>
    obtain ⟨k0, e0⟩ := p
    obtain ⟨h1, h2⟩ := h
    simp only [derase]
    split
    · exact ih h2
    · exact ⟨fun q hq => h1 q (mem_derase hq), ih h2⟩

/-- two `std::map`s with the same bindings are equal: `data_ == data_copy_` on sorted lists is equality of maps -/
theorem sorted_ext (a b : Data) (ha : Sorted a) (hb : Sorted b) (h : ∀ k, dfind k a = dfind k b) : a = b := by
  induction a generalizing b with
  | nil =>
    cases b with
    | nil => rfl
    | cons q rest => have := h q.1; simp [dfind] at this
  | cons p resta ih =>
    cases b with
    | nil => have := h p.1; simp [dfind] at this
    | cons q restb =>
      obtain ⟨ka, ea⟩ := p
      obtain ⟨kb, eb⟩ := q
      obtain ⟨ha1, ha2⟩ := ha
      obtain ⟨hb1, hb2⟩ := hb
      have hk : ka = kb := by
        by_cases hlt : bytesLt ka kb = true
        · -- ka is below every key of b
          have := h ka
          simp only [dfind, if_true] at this
          rw [if_neg (fun e => bytesLt_ne hlt e.symm)] at this
          rw [dfind_none_of_lt ka restb (fun q hq => bytesLt_trans hlt (hb1 q hq))] at this
          cases this
        · by_cases hgt : bytesLt kb ka = true
          · have := h kb
            simp only [dfind, if_true] at this
            rw [if_neg (fun e => bytesLt_ne hgt e.symm)] at this
            rw [dfind_none_of_lt kb resta (fun q hq => bytesLt_trans hgt (ha1 q hq))] at this
            cases this
          · by_cases he : ka = kb
            · exact he
            · exact absurd (bytesLt_total (by simpa using hlt) he) hgt
      subst hk
      have he : ea = eb := by
        have := h ka
        simpa [dfind] using this
      subst he
      congr 1
      apply ih restb ha2 hb2
      intro k
      have := h k
      simp only [dfind] at this
      by_cases hkk : ka = k
      · subst hkk
        rw [dfind_none_of_lt ka resta ha1, dfind_none_of_lt ka restb hb1]
      · simpa [hkk] using this

/-! ### `load_data ∘ save_data` on sorted maps -/

theorem dinsert_last (k : Key) (e : Entry) (acc : Data) (h : ∀ q ∈ acc, bytesLt q.1 k = true) :
    dinsert k e acc = acc ++ [(k, e)] := by
  induction acc with
  | nil => rfl
  | cons p rest ih =>
    obtain ⟨k0, e0⟩ := p
    have h0 := h (k0, e0) (List.mem_cons_self ..)
    simp only [dinsert]
    rw [if_neg (by rw [bytesLt_asymm h0]; simp), if_neg (bytesLt_ne h0)]
    rw [ih (fun q hq => h q (List.mem_cons_of_mem _ hq))]
    rfl

theorem sorted_append_lt (acc : Data) (p : Key × Entry) (es : Data) (h : Sorted (acc ++ p :: es)) :
    ∀ q ∈ acc, bytesLt q.1 p.1 = true := by
  induction acc with
  | nil => intro q hq; cases hq
  | cons a rest ih =>
    obtain ⟨h1, h2⟩ := h
    intro q hq
    rcases List.mem_cons.mp hq with rfl | hq
    · exact h1 p (by simp)
    · exact ih h2 q hq

theorem foldl_dinsert_sorted (acc es : Data) (h : Sorted (acc ++ es)) :
    es.foldl (fun d p => dinsert p.1 p.2 d) acc = acc ++ es := by
  induction es generalizing acc with
  | nil => simp
  | cons p rest ih =>
    simp only [List.foldl_cons]
    rw [dinsert_last p.1 p.2 acc (sorted_append_lt acc p rest h)]
    have : acc ++ [(p.1, p.2)] ++ rest = acc ++ p :: rest := by simp
    rw [ih (acc ++ [(p.1, p.2)]) (by rw [this]; exact h), this]

theorem fromEntries_sorted (d : Data) (h : Sorted d) : fromEntries d = d := by
  have := foldl_dinsert_sorted [] d (by simpa using h)
  simpa [fromEntries] using this

theorem sorted_foldl_dinsert (acc es : Data) (h : Sorted acc) : Sorted (es.foldl (fun d p => dinsert p.1 p.2 d) acc) := by
  induction es generalizing acc with
  | nil => exact h
  | cons p rest ih => exact ih _ (sorted_dinsert p.1 p.2 acc h)

theorem sorted_fromEntries (es : Data) : Sorted (fromEntries es) := sorted_foldl_dinsert [] es trivial

theorem loadData_saveData (d : Data) (hs : Sorted d) (hl : ∀ p ∈ d, withinLimits p) :
    ∃ bs, saveData d = .ok bs ∧ loadData bs = .ok d := by
  obtain ⟨bs, h1, h2⟩ := parseEntries_saveData d hl
  exact ⟨bs, h1, by simp [loadData, h2, fromEntries_sorted d hs]⟩

theorem sorted_loadData (s : Bytes) (d : Data) (h : loadData s = .ok d) : Sorted d := by
  simp only [loadData] at h
  cases hp : parseEntries s with
  | error e => simp [hp] at h
  | ok es => simp [hp] at h; subst h; exact sorted_fromEntries es

/-! ### when `save_data` throws -/

theorem saveData_throws_iff (m : Data) :
    (∃ e, saveData m = .error e) ↔ ∃ p ∈ m, ¬ withinLimits p := by
  constructor
  · rintro ⟨e, he⟩
    induction m with
    | nil => simp [saveData] at he
    | cons p rest ih =>
      by_cases hp : withinLimits p
      · simp only [saveData, encodeEntry_ok p hp] at he
        cases hr : saveData rest with
        | error e' =>
          simp [hr] at he; subst he
          obtain ⟨q, hq, hn⟩ := ih hr
          exact ⟨q, List.mem_cons_of_mem _ hq, hn⟩
        | ok b => simp [hr] at he
      · exact ⟨p, List.mem_cons_self .., hp⟩
  · rintro ⟨p, hp, hn⟩
    cases h : saveData m with
    | error e => exact ⟨e, rfl⟩
    | ok bs =>
      exfalso
      have hlen : m.length ≤ bs.length := by have := saveData_length m bs h; omega
      -- the encoder succeeded, so parsing the output gives entries within the limits; but it gives `m`
      have key : ∀ (m : Data) (bs : Bytes), saveData m = .ok bs → ∀ q ∈ m, withinLimits q := by
        intro m
        induction m with
        | nil => intro _ _ q hq; cases hq
        | cons a rest ih =>
          intro bs hs q hq
          simp only [saveData] at hs
          cases ha : encodeEntry a with
          | error e => simp [ha] at hs
          | ok x =>
            cases hr : saveData rest with
            | error e => simp [ha, hr] at hs
            | ok y =>
              rcases List.mem_cons.mp hq with rfl | hq
              · simp only [encodeEntry, packHeader] at ha
                constructor
                · by_cases hk : q.1.length ≥ Gen.keyLimit
                  · simp [hk] at ha
                  · omega
                · by_cases hk : q.1.length ≥ Gen.keyLimit
                  · simp [hk] at ha
                  · by_cases hd : q.2.value.length ≥ Gen.dataLimit
                    · simp [hk, hd] at ha
                    · omega
              · exact ih y hr q hq
      exact hn (key m bs h p hp)

theorem saveData_error_kind (m : Data) (e : Err) (h : saveData m = .error e) :
    e = .keyTooLong ∨ e = .valueTooLong := by
  induction m with
  | nil => simp [saveData] at h
  | cons p rest ih =>
    simp only [saveData] at h
    cases ha : encodeEntry p with
    | error e' =>
      simp [ha] at h; subst h
      simp only [encodeEntry, packHeader] at ha
      by_cases hk : p.1.length ≥ Gen.keyLimit
      · simp [hk] at ha; exact Or.inl ha.symm
      · by_cases hd : p.2.value.length ≥ Gen.dataLimit
        · simp [hk, hd] at ha; exact Or.inr ha.symm
        · simp [hk, hd] at ha
    | ok x =>
      cases hr : saveData rest with
      | error e' => simp [ha, hr] at h; subst h; exact ih hr
      | ok y => simp [ha, hr] at h


/-! ## Part 3: `valid_sid` -/

theorem isLowXDigit_eq (x : UInt8) : Gen.isLowXDigit x.toNat = ((48 ≤ x && x ≤ 57) || (97 ≤ x && x ≤ 102)) := by
  simp only [Gen.isLowXDigit, UInt8.le_iff_toNat_le]
  rfl

theorem validSid_cons (x : UInt8) (t : Bytes) :
    validSid (x :: t) = if t.length = 32 ∧ x = 73 ∧ (t.all fun y => Gen.isLowXDigit y.toNat) = true then some t else none := by
  have hL : Gen.sidCookieLen = 33 := rfl
  have hP : Gen.sidPrefix = 73 := rfl
  simp only [validSid, Gen.sidLoopFrom, Gen.sidLoopTo, Gen.sidSubstrPos, Gen.sidSubstrLen, hL, hP,
    List.length_cons, List.getD_cons_zero, List.drop_succ_cons, List.drop_zero]
  by_cases hl : t.length = 32
  · have htake : t.take 32 = t := List.take_of_length_le (by omega)
    have htake' : t.take (33 - 1) = t := htake
    rw [htake]
    try rw [htake']
    by_cases hx : x = 73
    · subst hx
      by_cases ha : (t.all fun y => Gen.isLowXDigit y.toNat) = true
      · simp [hl, ha]
      · simp [hl, ha]
    · have : x.toNat ≠ 73 := fun e => hx (UInt8.toNat_inj.mp (by simpa using e))
      simp [hl, hx, this]
  · have : (t.length + 1 != 33) = true := by simp; omega
    simp [hl, this]

theorem validSid_iff (c id : Bytes) :
    validSid c = some id ↔ c = 73 :: id ∧ Spec.wellFormedId id = true := by
  have hall : ∀ t : Bytes, (t.all fun y => Gen.isLowXDigit y.toNat) = t.all fun c => (48 ≤ c && c ≤ 57) || (97 ≤ c && c ≤ 102) := by
    intro t; simp only [isLowXDigit_eq]
  cases c with
  | nil => simp [validSid, Gen.sidCookieLen]
  | cons x t =>
    rw [validSid_cons]
    constructor
    · intro h
      split at h
      · rename_i hc
        obtain ⟨hl, hx, ha⟩ := hc
        cases h
        subst hx
        refine ⟨rfl, ?_⟩
        simp only [Spec.wellFormedId, hl, beq_self_eq_true, Bool.true_and]
        rw [← hall]; exact ha
      · cases h
    · rintro ⟨he, hw⟩
      cases he
      simp only [Spec.wellFormedId, Bool.and_eq_true, beq_iff_eq] at hw
      obtain ⟨hl, ha⟩ := hw
      rw [if_pos ⟨hl, rfl, by rw [hall]; exact ha⟩]

end Cppcms.C06
