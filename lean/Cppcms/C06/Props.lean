import Cppcms.C06.Lemmas
/-!
# C06 — property theorems

"Session state carries over between requests exactly, never after it ended."
The model (`Model.lean`) is built on constants and expressions regenerated from the C++ source
(`Gen.lean`); the specification side is `Spec.lean`.  `design.d/C06.md` lists what each theorem means,
its hypotheses, and what is only partially covered.
-/
namespace Cppcms.C06.Props
open Cppcms Cppcms.C06

/-! ## the `packed` record codec (`save_data` / `load_data`) -/

/-- The three bit fields read back exactly what the packing constructor stored, for every key size and
value size it accepts: the limits it enforces (`1024`, `1024*1024*2`) are the capacities of the 10- and
21-bit fields.  (All five numbers come from the source; changing any of them breaks this proof.) -/
theorem packed_roundtrip (ks ds : Nat) (e : Bool) (hk : ks < Gen.keyLimit) (hd : ds < Gen.dataLimit) :
    ∃ h, packHeader ks e ds = .ok h ∧ h.length = Gen.headerSize ∧
      wordKey (leWord32 h) = ks ∧ wordExp (leWord32 h) = e ∧ wordData (leWord32 h) = ds := by
  refine ⟨leBytes32 (headerWord ks e ds), ?_, rfl, ?_⟩
  · simp only [packHeader]; rw [if_neg (by omega), if_neg (by omega)]
  · rw [leWord32_leBytes32 _ (headerWord_lt ks e ds)]
    exact word_fields ks e ds hk hd

/-- `load_data (save_data m) = m` for every map (sorted, as `std::map` is) whose keys are shorter than
1024 bytes and whose values are shorter than 2 MiB; in particular `save_data` does not throw on it. -/
theorem load_save_data_roundtrip (m : Data) (hs : Sorted m) (hl : ∀ p ∈ m, withinLimits p) :
    ∃ bs, saveData m = .ok bs ∧ loadData bs = .ok m :=
  loadData_saveData m hs hl

/-- Beyond the limits `save_data` throws (the model's explicit error constructors), and only then. -/
theorem save_data_throws_iff (m : Data) :
    (∃ e, saveData m = .error e) ↔ ∃ p ∈ m, ¬ withinLimits p := saveData_throws_iff m

/-- The kind of exception: the first offending entry in map order decides, key before value. -/
theorem save_data_error_kind (m : Data) (e : Err) (h : saveData m = .error e) :
    e = .keyTooLong ∨ e = .valueTooLong := saveData_error_kind m e h

/-- Bounds safety and exactness of `load_data` on **arbitrary** bytes (storage contents, decrypted
cookies): it either throws one of the two format errors or accepts, and when it accepts, the entries it
produced are within the limits and re-encode to exactly the input — every byte was consumed and nothing
beyond the input was read. -/
theorem load_data_exact (s : Bytes) :
    (∃ es, parseEntries s = .ok es ∧ saveData es = .ok s ∧ (∀ p ∈ es, withinLimits p) ∧ loadData s = .ok (fromEntries es)) ∨
    (parseEntries s = .error .formatPack ∧ loadData s = .error .formatPack) ∨
    (parseEntries s = .error .formatData ∧ loadData s = .error .formatData) := by
  cases h : parseEntries s with
  | ok es =>
    left
    obtain ⟨h1, h2⟩ := parseEntries_exact s es h
    exact ⟨es, rfl, h1, h2, by simp [loadData, h]⟩
  | error e =>
    right
    have : e = .formatPack ∨ e = .formatData := by
      have key : ∀ f s e, parseFuel f s = .error e → e = .formatPack ∨ e = .formatData := by
        intro f
        induction f with
        | zero => intro s e h; simp [parseFuel] at h
        | succ f ih =>
          intro s e h
          rw [parseFuel] at h
          split at h
          · cases h
          · split at h
            · cases h; exact Or.inl rfl
            · simp only at h
              split at h
              · split at h
                · rename_i e' he; cases h; exact ih _ _ he
                · cases h
              · cases h; exact Or.inr rfl
      exact key _ _ _ h
    rcases this with rfl | rfl
    · exact Or.inl ⟨rfl, by simp [loadData, h]⟩
    · exact Or.inr ⟨rfl, by simp [loadData, h]⟩

/-- What `load_data` returns is always a well-formed `std::map` (sorted, one binding per key). -/
theorem load_data_sorted (s : Bytes) (d : Data) (h : loadData s = .ok d) : Sorted d := sorted_loadData s d h

/-! ## `valid_sid` -/

/-- `valid_sid` accepts exactly the cookies of the issued form — `I` followed by 32 lower-case
hexadecimal digits (the form is defined independently in `Spec.lean`) — and hands on the 32 digits. -/
theorem valid_sid_spec (c id : Bytes) :
    validSid c = some id ↔ c = 73 :: id ∧ Spec.wellFormedId id = true :=
  validSid_iff c id

/-- No accepted identifier contains `/`, `.`, NUL or any byte outside `[0-9a-f]`: path-like cookies such
as `I../../etc/passwd…` never yield a storage key (file name). -/
theorem valid_sid_path_safe (c id : Bytes) (h : validSid c = some id) :
    id.length = 32 ∧ ∀ x ∈ id, x ≠ 47 ∧ x ≠ 46 ∧ x ≠ 0 ∧ x ≠ 92 := by
  obtain ⟨_, hw⟩ := (validSid_iff c id).mp h
  simp only [Spec.wellFormedId, Bool.and_eq_true, beq_iff_eq, List.all_eq_true] at hw
  refine ⟨hw.1, fun x hx => ?_⟩
  have := hw.2 x hx
  simp only [UInt8.le_iff_toNat_le, Bool.or_eq_true, Bool.and_eq_true, decide_eq_true_eq] at this
  have e47 : (47 : UInt8).toNat = 47 := rfl
  have e46 : (46 : UInt8).toNat = 46 := rfl
  have e0 : (0 : UInt8).toNat = 0 := rfl
  have e92 : (92 : UInt8).toNat = 92 := rfl
  have e48 : (48 : UInt8).toNat = 48 := rfl
  have e57 : (57 : UInt8).toNat = 57 := rfl
  have e97 : (97 : UInt8).toNat = 97 := rfl
  have e102 : (102 : UInt8).toNat = 102 := rfl
  rw [e48, e57, e97, e102] at this
  refine ⟨?_, ?_, ?_, ?_⟩ <;> (intro e; subst e; omega)

/-! ### Non-vacuity / sanity instances -/

example : saveData [([107], ⟨[118], true⟩)] = .ok [1, 12, 0, 0, 107, 118] := by rfl
example : loadData [1, 12, 0, 0, 107, 118] = .ok [([107], ⟨[118], true⟩)] := by
  simp [loadData, parseEntries, parseFuel, Gen.headerSize, leWord32, wordKey, wordData, wordExp, Gen.keyBits, Gen.expBits,
    Gen.dataBits, fromEntries, dinsert]
example : Sorted [([97], ⟨[], false⟩), ([97, 0], ⟨[1], true⟩), ([98], ⟨[], false⟩)] := by
  simp [Sorted, bytesLt]
example : validSid (73 :: List.replicate 32 97) = some (List.replicate 32 97) := by decide
example : validSid ([73, 46, 46, 47, 46, 46, 47, 101, 116, 99, 47, 112, 97, 115, 115, 119, 100] ++ List.replicate 16 48) = none := by decide
example : validSid (73 :: List.replicate 32 65) = none := by decide

end Cppcms.C06.Props
