import Cppcms.C06.RefineF
/-!
# C06 — property theorems

"Session state carries over between requests exactly, never after it ended."
The model (`Model.lean`) is built on constants and expressions regenerated from the C++ source
(`Gen.lean`); the specification side is `Spec.lean`.  `design.d/C06.md` lists what each theorem means,
its hypotheses, and what is only partially covered.
-/
namespace Cppcms.C06.Props
open Cppcms Cppcms.C06

/-! ## the `packed` record codec (`save_data` / `load_data`) -/

/-- The three bit fields read back exactly what the packing constructor stored, for every key size and
value size it accepts: the limits it enforces (`1024`, `1024*1024*2`) are the capacities of the 10- and
21-bit fields.  (All five numbers come from the source; changing any of them breaks this proof.) -/
theorem packed_roundtrip (ks ds : Nat) (e : Bool) (hk : ks < Gen.keyLimit) (hd : ds < Gen.dataLimit) :
    ∃ h, packHeader ks e ds = .ok h ∧ h.length = Gen.headerSize ∧
      wordKey (leWord32 h) = ks ∧ wordExp (leWord32 h) = e ∧ wordData (leWord32 h) = ds := by
  refine ⟨leBytes32 (headerWord ks e ds), ?_, rfl, ?_⟩
  · simp only [packHeader]; rw [if_neg (by omega), if_neg (by omega)]
  · rw [leWord32_leBytes32 _ (headerWord_lt ks e ds)]
    exact word_fields ks e ds hk hd

/-- `load_data (save_data m) = m` for every map (sorted, as `std::map` is) whose keys are shorter than
1024 bytes and whose values are shorter than 2 MiB; in particular `save_data` does not throw on it. -/
theorem load_save_data_roundtrip (m : Data) (hs : Sorted m) (hl : ∀ p ∈ m, withinLimits p) :
    ∃ bs, saveData m = .ok bs ∧ loadData bs = .ok m :=
  loadData_saveData m hs hl

/-- Beyond the limits `save_data` throws (the model's explicit error constructors), and only then. -/
theorem save_data_throws_iff (m : Data) :
    (∃ e, saveData m = .error e) ↔ ∃ p ∈ m, ¬ withinLimits p := saveData_throws_iff m

/-- The kind of exception: the first offending entry in map order decides, key before value. -/
theorem save_data_error_kind (m : Data) (e : Err) (h : saveData m = .error e) :
    e = .keyTooLong ∨ e = .valueTooLong := saveData_error_kind m e h

/-- Bounds safety and exactness of `load_data` on **arbitrary** bytes (storage contents, decrypted
cookies): it either throws one of the two format errors or accepts, and when it accepts, the entries it
produced are within the limits and re-encode to exactly the input — every byte was consumed and nothing
beyond the input was read. -/
theorem load_data_exact (s : Bytes) :
    (∃ es, parseEntries s = .ok es ∧ saveData es = .ok s ∧ (∀ p ∈ es, withinLimits p) ∧ loadData s = .ok (fromEntries es)) ∨
    (parseEntries s = .error .formatPack ∧ loadData s = .error .formatPack) ∨
    (parseEntries s = .error .formatData ∧ loadData s = .error .formatData) := by
  cases h : parseEntries s with
  | ok es =>
    left
    obtain ⟨h1, h2⟩ := parseEntries_exact s es h
    exact ⟨es, rfl, h1, h2, by simp [loadData, h]⟩
  | error e =>
    right
    have : e = .formatPack ∨ e = .formatData := by
      have key : ∀ f s e, parseFuel f s = .error e → e = .formatPack ∨ e = .formatData := by
        intro f
        induction f with
        | zero => intro s e h; simp [parseFuel] at h
        | succ f ih =>
          intro s e h
          rw [parseFuel] at h
          split at h
          · cases h
          · split at h
            · cases h; exact Or.inl rfl
            · simp only at h
              split at h
              · split at h
                · rename_i e' he; cases h; exact ih _ _ he
                · cases h
              · cases h; exact Or.inr rfl
      exact key _ _ _ h
    rcases this with rfl | rfl
    · exact Or.inl ⟨rfl, by simp [loadData, h]⟩
    · exact Or.inr ⟨rfl, by simp [loadData, h]⟩

/-- What `load_data` returns is always a well-formed `std::map` (sorted, one binding per key). -/
theorem load_data_sorted (s : Bytes) (d : Data) (h : loadData s = .ok d) : Sorted d := sorted_loadData s d h

/-! ## `valid_sid` -/

/-- `valid_sid` accepts exactly the cookies of the issued form — `I` followed by 32 lower-case
hexadecimal digits (the form is defined independently in `Spec.lean`) — and hands on the 32 digits. -/
theorem valid_sid_spec (c id : Bytes) :
    validSid c = some id ↔ c = 73 :: id ∧ Spec.wellFormedId id = true :=
  validSid_iff c id

/-- No accepted identifier contains `/`, `.`, NUL or any byte outside `[0-9a-f]`: path-like cookies such
as `I../../etc/passwd…` never yield a storage key (file name). -/
theorem valid_sid_path_safe (c id : Bytes) (h : validSid c = some id) :
    id.length = 32 ∧ ∀ x ∈ id, x ≠ 47 ∧ x ≠ 46 ∧ x ≠ 0 ∧ x ≠ 92 := by
  obtain ⟨_, hw⟩ := (validSid_iff c id).mp h
  simp only [Spec.wellFormedId, Bool.and_eq_true, beq_iff_eq, List.all_eq_true] at hw
  refine ⟨hw.1, fun x hx => ?_⟩
  have := hw.2 x hx
  simp only [UInt8.le_iff_toNat_le, Bool.or_eq_true, Bool.and_eq_true, decide_eq_true_eq] at this
  have e47 : (47 : UInt8).toNat = 47 := rfl
  have e46 : (46 : UInt8).toNat = 46 := rfl
  have e0 : (0 : UInt8).toNat = 0 := rfl
  have e92 : (92 : UInt8).toNat = 92 := rfl
  have e48 : (48 : UInt8).toNat = 48 := rfl
  have e57 : (57 : UInt8).toNat = 57 := rfl
  have e97 : (97 : UInt8).toNat = 97 := rfl
  have e102 : (102 : UInt8).toNat = 102 := rfl
  rw [e48, e57, e97, e102] at this
  refine ⟨?_, ?_, ?_, ?_⟩ <;> (intro e; subst e; omega)

/-! ## refinement to the token-level specification (`Spec.lean`)

`absTok cfg env recs c` is the abstraction function: the session the cookie value `c` denotes in the store
`recs` under the configured location (`Refine3.lean`); `Spec.alive t` cuts it off past its deadline;
`SEq` is equality of abstract sessions up to the representation of the data map; `StoreInv` is the store
invariant (one record per key, records are serialised well-formed maps, keys come from the identifier
source), established by `stored_keys_are_issued` for every history from the empty store;
`Admissible env c`: if `c` decrypts at all it decrypts to something this server produced;
`EnvOK`: `dec (enc t d) = some (t,d)`, identifiers have the issued form, `readInt (showInt n) = some n`. -/

/-- **What a request reads is the specification's value of the token it presents** — for *any* store
satisfying the invariant, *any* presented cookie (a browser's own, an old one, a forged one, a path-like
one), any instant: the session the token denotes if its deadline has not passed, else the empty session
with the configured defaults (`Spec.specLoad`); never anything else. -/
theorem request_reads_spec (ctx : Ctx) (st : Store) (next : Nat) (ops : List Op)
    (he : EnvOK ctx.env) (hi : StoreInv ctx.env st next) (ha : Admissible ctx.env ctx.cookie) :
    match Spec.specLoad (numOf ctx.env) (dfOf ctx.cfg) (Spec.alive ctx.now (absTok ctx.cfg ctx.env st.recs ctx.cookie)) with
    | .error _ => (request ctx st next ops).reads = .error .badCast
    | .ok w0 => ∃ r, (request ctx st next ops).reads = .ok r ∧ ReadsRel r w0 := by
  have h := request_refines ctx st next ops he hi.nodup (presented_wf ctx.cfg ctx.env st next ctx.now ctx.cookie hi ha)
  cases hs : Spec.specLoad (numOf ctx.env) (dfOf ctx.cfg) (Spec.alive ctx.now (absTok ctx.cfg ctx.env st.recs ctx.cookie)) with
  | error e => rw [hs] at h; exact h
  | ok w0 => rw [hs] at h; obtain ⟨r, h1, h2, _⟩ := h; exact ⟨r, h1, h2⟩

/-- **`save` commutes with the abstraction**, for every operation mix, every location (client, server,
both with any `client_size_limit`), both storages, every expiration mode and any clock value: the decision
of `save()` is `Spec.decideSave`'s (cleared / untouched / refused / saved with this deadline), and for every
token `c2` and every instant `t` from now on, what `c2` denotes in the new store is what `Spec.apply`
prescribes — the issued token denotes the saved session, a replaced or cleared server-side identifier
denotes nothing, everything else is unchanged. -/
theorem save_commutes_with_abs (ctx : Ctx) (st : Store) (next : Nat) (ops : List Op)
    (he : EnvOK ctx.env) (hi : StoreInv ctx.env st next) (ha : Admissible ctx.env ctx.cookie) :
    match Spec.specLoad (numOf ctx.env) (dfOf ctx.cfg) (Spec.alive ctx.now (absTok ctx.cfg ctx.env st.recs ctx.cookie)) with
    | .error _ => (request ctx st next ops).reads = .error .badCast
    | .ok w0 => ∃ r, (request ctx st next ops).reads = .ok r ∧ ReadsRel r w0 ∧
      match Spec.decideSave (dfOf ctx.cfg) (Spec.alive ctx.now (absTok ctx.cfg ctx.env st.recs ctx.cookie))
          ((ops.map specOp).foldl (Spec.applyOp (numOf ctx.env) (dfOf ctx.cfg)) w0) ctx.now with
      | .refused e => ∃ e', (request ctx st next ops).saved = .error e' ∧ errMatches e e' ∧
          ∀ t, ctx.now ≤ t → ∀ c2, SEq (Spec.alive t (absTok ctx.cfg ctx.env (request ctx st next ops).store.recs c2))
            (Spec.alive t (absTok ctx.cfg ctx.env st.recs c2))
      | out => ∃ k, (request ctx st next ops).saved = .ok k ∧ kindMatches k out ∧
          ∀ t, ctx.now ≤ t → ∀ c2, SEq (Spec.alive t (absTok ctx.cfg ctx.env (request ctx st next ops).store.recs c2))
            (Spec.alive t (Spec.apply (absTok ctx.cfg ctx.env st.recs) (revocable ctx.cfg) ctx.cookie (tokenOf k) out c2)) :=
  request_refines ctx st next ops he hi.nodup (presented_wf ctx.cfg ctx.env st next ctx.now ctx.cookie hi ha)

/-- **Never another browser's data, and nobody else can disturb a session.**  A request — whatever it
presents and does — leaves what any *other* token denotes unchanged (other browsers' sessions, old cookies
an attacker kept), from its instant on.  `TokKnown`: the other token is a client-side cookie, an identifier
issued earlier, or a string the identifier source never produces. -/
theorem other_sessions_untouched (ctx : Ctx) (st : Store) (next : Nat) (ops : List Op) (c2 : Bytes)
    (he : EnvOK ctx.env) (bound : Nat) (hf : Fresh ctx.env bound) (hb : (request ctx st next ops).next ≤ bound)
    (hi : StoreInv ctx.env st next) (ha : Admissible ctx.env ctx.cookie)
    (hne : c2 ≠ ctx.cookie) (hk : TokKnown ctx.env next c2) (t : Int) (ht : ctx.now ≤ t) :
    SEq (Spec.alive t (absTok ctx.cfg ctx.env (request ctx st next ops).store.recs c2))
        (Spec.alive t (absTok ctx.cfg ctx.env st.recs c2)) :=
  request_frame ctx st next ops c2 he bound hf hb hi ha hne hk t ht

/-- **Session state carries over exactly, never after it ended.**
A request saved session `ss` (`Spec.decideSave` says so) and left its browser with the token `tok`.
Then *any* number of other requests follow — by other browsers or by an attacker, presenting *any*
admissible cookies except `tok`, doing anything, with the clock moving forward arbitrarily.  The next
request that presents `tok` reads exactly `ss` (data, exposed flags, and the age / expiration mode /
on-server flag stored in it) if its instant is not past `ss.deadline`, and the empty session otherwise. -/
theorem session_carries_over (cfg : Cfg) (env : Env) (st : Store) (next : Nat) (s : Step) (others : List Step) (final : Step)
    (tok : Bytes) (ss : Spec.SSess) (fresh : Bool) (ca : Int) (w0 : Spec.Work)
    (he : EnvOK env) (bound : Nat) (hf : Fresh env bound)
    (hb : (run cfg env (request (stepCtx cfg env s) st next s.ops).store (request (stepCtx cfg env s) st next s.ops).next others).2 ≤ bound)
    (hi : StoreInv env st next) (hs : Admissible env s.cookie)
    (hsaved : (request (stepCtx cfg env s) st next s.ops).saved = .ok (.written tok))
    (hload : Spec.specLoad (numOf env) (dfOf cfg) (Spec.alive s.now (absTok cfg env st.recs s.cookie)) = .ok w0)
    (hdec : Spec.decideSave (dfOf cfg) (Spec.alive s.now (absTok cfg env st.recs s.cookie))
      ((s.ops.map specOp).foldl (Spec.applyOp (numOf env) (dfOf cfg)) w0) s.now = .saved ss fresh ca)
    (ho : HistOK env s.now others) (hne : ∀ x ∈ others, x.cookie ≠ tok)
    (hfc : final.cookie = tok) (hfa : Admissible env tok) (hfn : lastNow s.now others ≤ final.now) :
    match Spec.specLoad (numOf env) (dfOf cfg) (Spec.alive final.now (some ss)) with
    | .error _ =>
      (request (stepCtx cfg env final)
        (run cfg env (request (stepCtx cfg env s) st next s.ops).store (request (stepCtx cfg env s) st next s.ops).next others).1
        (run cfg env (request (stepCtx cfg env s) st next s.ops).store (request (stepCtx cfg env s) st next s.ops).next others).2
        final.ops).reads = .error .badCast
    | .ok w => ∃ r,
      (request (stepCtx cfg env final)
        (run cfg env (request (stepCtx cfg env s) st next s.ops).store (request (stepCtx cfg env s) st next s.ops).next others).1
        (run cfg env (request (stepCtx cfg env s) st next s.ops).store (request (stepCtx cfg env s) st next s.ops).next others).2
        final.ops).reads = .ok r ∧ ReadsRel r w := by
  -- (1) right after the saving request, `tok` denotes `ss`
  simp only [stepCtx] at hsaved hb ⊢
  have hwf := presented_wf cfg env st next s.now s.cookie hi hs
  have href := request_refines ⟨cfg, env, s.now, s.cookie, s.names⟩ st next s.ops he hi.nodup hwf
  simp only at href
  rw [hload] at href
  simp only at href
  obtain ⟨_, _, _, href⟩ := href
  rw [hdec] at href
  obtain ⟨k, hk1, _, h3⟩ := href
  have hk := saved_token_unique hk1 hsaved
  subst hk
  have h1 : ∀ t, s.now ≤ t → SEq (Spec.alive t (absTok cfg env (request ⟨cfg, env, s.now, s.cookie, s.names⟩ st next s.ops).store.recs tok)) (Spec.alive t (some ss)) := by
    intro t ht
    have := h3 t ht tok
    rw [apply_saved_at] at this
    simpa [tokenOf] using this
  -- (2) the others do not touch it
  obtain ⟨i1, _⟩ := request_inv ⟨cfg, env, s.now, s.cookie, s.names⟩ st next s.ops hi hs
  have hknown := issued_token_known ⟨cfg, env, s.now, s.cookie, s.names⟩ st next s.ops tok hi hs hsaved
  have h2 := run_frame cfg env _ _ s.now others tok he bound hf hb i1 ho hne hknown
  obtain ⟨j1, _⟩ := run_inv cfg env _ _ s.now others i1 ho
  -- (3) the final request reads what `tok` denotes now
  have hlast := lastNow_ge env s.now others ho
  have hchain := SEq.trans' (h2 final.now hfn) (h1 final.now (by omega))
  have hwfF := presented_wf cfg env (run cfg env (request ⟨cfg, env, s.now, s.cookie, s.names⟩ st next s.ops).store (request ⟨cfg, env, s.now, s.cookie, s.names⟩ st next s.ops).next others).1 (run cfg env (request ⟨cfg, env, s.now, s.cookie, s.names⟩ st next s.ops).store (request ⟨cfg, env, s.now, s.cookie, s.names⟩ st next s.ops).next others).2 final.now tok j1 hfa
  have hrefF := request_refines ⟨cfg, env, final.now, tok, final.names⟩ (run cfg env (request ⟨cfg, env, s.now, s.cookie, s.names⟩ st next s.ops).store (request ⟨cfg, env, s.now, s.cookie, s.names⟩ st next s.ops).next others).1 (run cfg env (request ⟨cfg, env, s.now, s.cookie, s.names⟩ st next s.ops).store (request ⟨cfg, env, s.now, s.cookie, s.names⟩ st next s.ops).next others).2 final.ops he j1.nodup hwfF
  simp only at hrefF
  have hcong := specLoad_congr (numOf env) (dfOf cfg) _ _ hchain
  rw [hfc]
  revert hrefF hcong
  generalize Spec.specLoad (numOf env) (dfOf cfg) (Spec.alive final.now (absTok cfg env
      (run cfg env (request ⟨cfg, env, s.now, s.cookie, s.names⟩ st next s.ops).store (request ⟨cfg, env, s.now, s.cookie, s.names⟩ st next s.ops).next others).1.recs tok)) = A
  generalize Spec.specLoad (numOf env) (dfOf cfg) (Spec.alive final.now (some ss)) = B
  intro hrefF hcong
  cases A with
  | error e =>
    cases B with
    | error e' => exact hrefF
    | ok w => exact hcong.elim
  | ok wA =>
    cases B with
    | error e' => exact hcong.elim
    | ok w =>
      obtain ⟨r, hr1, hr2, _⟩ := hrefF
      exact ⟨r, hr1, hr2.1.trans hcong.1, hr2.2.1.trans hcong.2.1, hr2.2.2.1.trans hcong.2.2.1, hr2.2.2.2.trans hcong.2.2.2⟩


/-- **Clearing or replacing makes a server-side identifier unusable.**  A request presented the
server-side identifier `s.cookie` and either cleared the session or left its browser with a different
token (reset, expiry + new session, move to the client side).  Whatever happens afterwards — any
requests by anybody, also ones presenting the old identifier again, with the clock moving forward — a
request presenting the old identifier reads the empty session with the configured defaults. -/
theorem cleared_sid_unusable (cfg : Cfg) (env : Env) (st : Store) (next : Nat) (s : Step) (others : List Step) (final : Step)
    (he : EnvOK env) (bound : Nat) (hf : Fresh env bound)
    (hb : (run cfg env (request (stepCtx cfg env s) st next s.ops).store (request (stepCtx cfg env s) st next s.ops).next others).2 ≤ bound)
    (hi : StoreInv env st next) (hs : Admissible env s.cookie)
    (hrev : revocable cfg s.cookie = true) (hk : TokKnown env next s.cookie)
    (hgone : (request (stepCtx cfg env s) st next s.ops).saved = .ok .cleared ∨
      ∃ tok, (request (stepCtx cfg env s) st next s.ops).saved = .ok (.written tok) ∧ tok ≠ s.cookie)
    (ho : HistOK env s.now others) (hfc : final.cookie = s.cookie) (hfn : lastNow s.now others ≤ final.now) :
    (request (stepCtx cfg env final)
      (run cfg env (request (stepCtx cfg env s) st next s.ops).store (request (stepCtx cfg env s) st next s.ops).next others).1
      (run cfg env (request (stepCtx cfg env s) st next s.ops).store (request (stepCtx cfg env s) st next s.ops).next others).2
      final.ops).reads = .ok ⟨[], cfg.timeoutDef, cfg.howDef, false⟩ := by
  simp only [stepCtx] at hgone hb ⊢
  have hnC : firstIs s.cookie 67 = false := by
    simp only [revocable, Bool.and_eq_true] at hrev
    cases hv : validSid s.cookie with
    | none => rw [hv] at hrev; simp at hrev
    | some id => exact (firstIs_sid hv).1
  -- (1) dead right after the request
  have hwf := presented_wf cfg env st next s.now s.cookie hi hs
  have href := request_refines ⟨cfg, env, s.now, s.cookie, s.names⟩ st next s.ops he hi.nodup hwf
  simp only at href
  have hdead1 : ∀ t, s.now ≤ t → Spec.alive t (absTok cfg env (request ⟨cfg, env, s.now, s.cookie, s.names⟩ st next s.ops).store.recs s.cookie) = none := by
    intro t ht
    cases hsl : Spec.specLoad (numOf env) (dfOf cfg) (Spec.alive s.now (absTok cfg env st.recs s.cookie)) with
    | error e =>
      rw [hsl] at href
      simp only at href
      have := request_saved_of_load_error _ _ _ _ _ href
      rcases hgone with h | ⟨tok, h, _⟩ <;> (rw [this] at h; cases h)
    | ok w0 =>
      rw [hsl] at href
      simp only at href
      obtain ⟨_, _, _, href⟩ := href
      cases hout : Spec.decideSave (dfOf cfg) (Spec.alive s.now (absTok cfg env st.recs s.cookie))
          ((s.ops.map specOp).foldl (Spec.applyOp (numOf env) (dfOf cfg)) w0) s.now with
      | refused e =>
        rw [hout] at href
        obtain ⟨e', h1, _⟩ := href
        rcases hgone with h | ⟨tok, h, _⟩ <;> (rw [h1] at h; cases h)
      | cleared =>
        rw [hout] at href
        obtain ⟨k, _, _, h3⟩ := href
        have := h3 t ht s.cookie
        rw [apply_cleared_at] at this
        simp only [hrev, and_self, if_true, Spec.alive] at this
        exact SEq_none this
      | untouched =>
        rw [hout] at href
        obtain ⟨k, h1, h2, _⟩ := href
        rcases hgone with h | ⟨tok, h, _⟩ <;> (rw [h1] at h; cases h; cases h2)
      | saved ss f ca =>
        rw [hout] at href
        obtain ⟨k, h1, h2, h3⟩ := href
        rcases hgone with h | ⟨tok, h, hne⟩
        · rw [h1] at h; cases h; cases h2
        · rw [h1] at h; cases h
          have := h3 t ht s.cookie
          rw [apply_saved_at] at this
          simp only [tokenOf, hne.symm, if_false, hrev, Bool.true_and, bne_iff_ne, ne_eq, not_false_eq_true, and_self, if_true, Spec.alive] at this
          exact SEq_none this
  -- (2) and through everything that follows
  obtain ⟨i1, i2⟩ := request_inv ⟨cfg, env, s.now, s.cookie, s.names⟩ st next s.ops hi hs
  have hdead2 := run_dead cfg env _ _ s.now others s.cookie he bound hf hb i1 ho hnC (tokKnown_mono hk i2) hdead1
  obtain ⟨j1, _⟩ := run_inv cfg env _ _ s.now others i1 ho
  -- (3) so the final request loads nothing
  have hwfF := presented_wf cfg env (run cfg env (request ⟨cfg, env, s.now, s.cookie, s.names⟩ st next s.ops).store (request ⟨cfg, env, s.now, s.cookie, s.names⟩ st next s.ops).next others).1 (run cfg env (request ⟨cfg, env, s.now, s.cookie, s.names⟩ st next s.ops).store (request ⟨cfg, env, s.now, s.cookie, s.names⟩ st next s.ops).next others).2 final.now s.cookie j1 hs
  have hrefF := request_refines ⟨cfg, env, final.now, s.cookie, final.names⟩ (run cfg env (request ⟨cfg, env, s.now, s.cookie, s.names⟩ st next s.ops).store (request ⟨cfg, env, s.now, s.cookie, s.names⟩ st next s.ops).next others).1 (run cfg env (request ⟨cfg, env, s.now, s.cookie, s.names⟩ st next s.ops).store (request ⟨cfg, env, s.now, s.cookie, s.names⟩ st next s.ops).next others).2 final.ops he j1.nodup hwfF
  simp only at hrefF
  rw [hdead2 final.now hfn] at hrefF
  simp only [Spec.specLoad] at hrefF
  obtain ⟨r, hr1, hr2, _⟩ := hrefF
  rw [hfc, hr1, reads_empty_of_rel cfg r hr2]


/-- **A reset issues a fresh identifier** (partial: *unpredictability* of the identifier is a property of the
entropy source and is not expressible here; what is proved is freshness).  If a request called
`reset_session()` and saved, the token it leaves is either a client-side cookie or `I` followed by the
*next* identifier of the source — never the presented one — which, under `Fresh`, is the key of no record in
the store and differs from every identifier issued before. -/
theorem reset_issues_fresh_sid_partial (ctx : Ctx) (st : Store) (next : Nat) (ops : List Op) (tok : Bytes)
    (bound : Nat) (hf : Fresh ctx.env bound) (hb : (request ctx st next ops).next ≤ bound) (hi : StoreInv ctx.env st next)
    (hreset : Op.resetSession ∈ ops)
    (hsaved : (request ctx st next ops).saved = .ok (.written tok)) :
    (∃ to d, tok = 67 :: ctx.env.enc to d) ∨
    (tok = 73 :: ctx.env.sidOf next ∧ (request ctx st next ops).next = next + 1 ∧
      (∀ r ∈ st.recs, r.sid ≠ ctx.env.sidOf next) ∧ (∀ m, m < next → tok ≠ 73 :: ctx.env.sidOf m)) := by
  rcases request_token_form ctx st next ops tok hsaved with h | ⟨rfl, hn⟩ | ⟨_, _, _, s0, st1, cs, _, hns, _⟩
  · exact Or.inl h
  · refine Or.inr ⟨rfl, hn, ?_, ?_⟩
    · intro r hr e
      obtain ⟨m, hm1, hm2⟩ := hi.issued r hr
      have := hf m next (by omega) (by omega) (by rw [← hm2, e])
      omega
    · intro m hm e
      have := hf next m (by omega) (by omega) (by simpa using e)
      omega
  · exfalso
    have := applyOps_reset ctx.cfg ctx.env ops s0 hreset
    simp [newSession, this] at hns

/-- **No session fixation / stored keys are issued keys.**  Starting from the empty store, after any history
of admissible requests every key of the store is an identifier the source produced (so, under the freshness
hypothesis on attacker-chosen strings, never a string an attacker chose), every record is the
serialisation of a well-formed map, and there is one record per key. -/
theorem stored_keys_are_issued (cfg : Cfg) (env : Env) (now0 : Int) (steps : List Step) (h : HistOK env now0 steps) :
    StoreInv env (run cfg env ⟨[], []⟩ 0 steps).1 (run cfg env ⟨[], []⟩ 0 steps).2 :=
  (run_inv cfg env _ _ now0 steps (storeInv_empty env) h).1


/-- **Identifiers not of the issued form never address storage.**  Whatever cookie a request presents
(malformed, path-like such as `I../../etc/passwd…`, wrong length, upper-case hex, a forged client cookie …)
and whatever it does, every call of the `session_storage` interface it makes (`load`, `save`, `remove` —
the model logs each with its key) is addressed with 32 lower-case hexadecimal digits. -/
theorem malformed_sid_never_reaches_storage (ctx : Ctx) (st : Store) (next : Nat) (ops : List Op)
    (he : EnvOK ctx.env) (h : LogOK st.log) : LogOK (request ctx st next ops).store.log :=
  request_log ctx st next ops he h

/-- … and so through every history from the empty store, with no condition on the presented cookies at all. -/
theorem malformed_sid_never_reaches_storage_history (cfg : Cfg) (env : Env) (steps : List Step) (he : EnvOK env) :
    ∀ e ∈ (run cfg env ⟨[], []⟩ 0 steps).1.log, Spec.wellFormedId e.2 = true :=
  run_log cfg env ⟨[], []⟩ 0 steps he (fun _ h => by cases h)

/-- **Exposed values appear in and disappear from cookies in step with the session.**  Whenever `save()`
does anything (clears or writes), then for every key the browser's `<prefix>_<key>` cookie afterwards
(`jfind k` of the jar after applying every `Set-Cookie` of `save()` in order) is exactly the entry's value if the
entry is exposed and non-empty in the saved session, and absent otherwise (`exposedLookup`).  Hypotheses: the jar
reported the names of its cookies (`remove_unknown_cookies`), it was in step with the session that was loaded
(vacuous if none was), the session data are well-formed maps, and the cookie age is not negative. -/
theorem exposed_cookies_in_step (ctx : Ctx) (s : Sess) (st : Store) (next : Nat) (st1 : Store) (n1 : Nat) (cs : List SetCookie) (kind : SaveKind)
    (h : siSave ctx s st next = .ok (st1, n1, cs, kind)) (hkind : kind ≠ .untouched)
    (J : Jar) (k : Key) (hk : k ≠ [])
    (hsd : Sorted s.data) (hsc : Sorted s.copy) (hage : 0 ≤ cookieAgeOf ctx s)
    (hnames : ∀ v, jfind k J.exposed = some v → k ∈ ctx.names)
    (hstep : ∀ e, dfind k s.copy = some e → e.exposed = true →
      jfind k J.exposed = if e.value.isEmpty then none else some e.value) :
    jfind k (J.applyAll cs).exposed = exposedLookup s.data k :=
  siSave_exposed_in_step ctx s st next st1 n1 cs kind h hkind J k hk hsd hsc hage hnames hstep

/-- **A load starts from an empty working copy** (`set_cookie_adapter_and_reload` on one object).  After a
first load with any cookie and any mutations, a reload with a second cookie — valid (another browser's), invalid,
expired or absent — shows exactly what `Spec.specLoad` yields for the session the *second* cookie denotes in the
store the first load left (`request_reads_spec` for a fresh object): what a request reads after a reload depends only
on the presented cookie and the store; nothing of the first cookie's data survives. -/
theorem reload_starts_from_empty_working_copy (ctx1 ctx2 : Ctx) (st : Store) (next : Nat) (ops1 ops2 : List Op)
    (s1 : Sess) (st1 : Store) (cs1 : List SetCookie) (hL : siLoad ctx1 st = (.ok s1, st1, cs1))
    (henv : ctx2.env = ctx1.env) (he : EnvOK ctx2.env) (hi : StoreInv ctx1.env st next) (ha : Admissible ctx2.env ctx2.cookie) :
    (request2 ctx1 ctx2 st next ops1 ops2).out.reads = (request ctx2 st1 next []).reads ∧
    match Spec.specLoad (numOf ctx2.env) (dfOf ctx2.cfg) (Spec.alive ctx2.now (absTok ctx2.cfg ctx2.env st1.recs ctx2.cookie)) with
    | .error _ => (request2 ctx1 ctx2 st next ops1 ops2).out.reads = .error .badCast
    | .ok w0 => ∃ r, (request2 ctx1 ctx2 st next ops1 ops2).out.reads = .ok r ∧ ReadsRel r w0 := by
  have h1 := (request2_reads ctx1 ctx2 st next ops1 ops2 s1 st1 cs1 hL).1
  have hinv : StoreInv ctx2.env st1 next := by
    have := siLoad_inv ctx1 st next hi
    rw [hL] at this
    rw [henv]; exact this
  refine ⟨h1, ?_⟩
  rw [h1]
  exact request_reads_spec ctx2 st1 next [] he hinv ha

/-- **Network storage over any number of nodes is one store addressed by the sid**, because `save`, `load`
and `remove` all select the node by the sid (`Gen.tcpRouteKeys`, regenerated from `session_tcp_storage.cpp`): asking the
cluster for `id` the way `load` does returns the last payload saved under `id` (if not removed and not expired),
whatever the hash and the number of nodes. -/
theorem network_nodes_act_as_one_store (now t : Int) (c : Cluster) (hash : Bytes → Nat) (n : Nat) (sid id : Bytes) (to : Int) (d : Bytes)
    (hroute : Gen.tcpRouteKeys = ["sid", "sid", "sid"]) (hd : ∀ i, NoDupSid (c i)) (ht : now ≤ t) :
    clusterLookup t (clusterSave now c hash n sid to d) hash n id =
      (if sid = id then aliveP t (some (to, d)) else clusterLookup t c hash n id) ∧
    clusterLookup t (clusterRemove now c hash n sid) hash n id =
      (if sid = id then none else clusterLookup t c hash n id) :=
  ⟨cluster_save_lookup now t c hash n sid id to d hd ht, cluster_remove_lookup now t c hash n sid id hd ht⟩

example : Gen.tcpRouteKeys = ["sid", "sid", "sid"] := by decide

/-- **Exposed cookies stay in step with the session along whole histories.**  An honest browser starts with an empty
jar; then any sequence of events follows: its own requests (it presents its jar's session cookie and the names of its
`<prefix>_<key>` cookies, does any operations with non-empty keys, and applies every `Set-Cookie` of the answer in
order) interleaved with requests by anybody else (any admissible cookie other than the browser's current one, any
operations), the clock never going back.  Afterwards, at every later instant: if the jar's session cookie still denotes
a live session, then for every key the jar's exposed cookie is exactly that session's value if the entry is exposed and
non-empty, and absent otherwise (`specExposed`) — and the store invariant holds.  `update_exposed`'s conditions are the
regenerated `Gen.exposed*Cond`. -/
theorem exposed_cookies_in_step_history (cfg : Cfg) (env : Env) (bound : Nat) (now0 : Int) (evs : List Ev)
    (he : EnvOK env) (hf : Fresh env bound) (h : HistB cfg env bound now0 ⟨⟨[], []⟩, 0, Jar.empty⟩ evs) :
    StoreInv env (runB cfg env ⟨⟨[], []⟩, 0, Jar.empty⟩ evs).st (runB cfg env ⟨⟨[], []⟩, 0, Jar.empty⟩ evs).next ∧
    ∀ t, lastNowB now0 evs ≤ t → ∀ ss,
      Spec.alive t (absTok cfg env (runB cfg env ⟨⟨[], []⟩, 0, Jar.empty⟩ evs).st.recs (runB cfg env ⟨⟨[], []⟩, 0, Jar.empty⟩ evs).jar.cookie) = some ss →
      ∀ k, k ≠ [] → jfind k (runB cfg env ⟨⟨[], []⟩, 0, Jar.empty⟩ evs).jar.exposed = specExposed ss.data k := by
  have h0 : JarOK cfg env ⟨[], []⟩ 0 now0 Jar.empty := jarOK_nil cfg env _ 0 now0 Jar.empty rfl (fun _ hp => by cases hp)
  obtain ⟨a, b⟩ := jar_in_step_run cfg env bound now0 ⟨⟨[], []⟩, 0, Jar.empty⟩ evs he hf (storeInv_empty env) h0 h
  exact ⟨a, fun t ht ss hss k hk => (b.step t ht ss hss).1 k hk⟩

/-- **The memory storage's index mirrors its map, and the list model is its abstraction.**  `MemStore` models both
containers of `session_memory_storage` (`map_`, and the `timeout_` multimap with the entries' `timeout_ptr` nodes).
`MemRel ms l`: the index is exactly the (deadline, key) list of the records `l`, the map binds each key to its record,
one record per key.  `save`, `remove` and `load` preserve the relation and agree with the list model used everywhere
else (so the refinement theorems above apply to the two-container storage). -/
theorem mem_storage_refines (now : Int) (key : Bytes) (to : Int) (value : Bytes) (ms : MemStore) (st : Store) (h : MemRel ms st.recs) :
    MemRel (ms.save now key to value) (st.save .memory now key to value).recs ∧
    MemRel (ms.remove now key) (st.remove .memory now key).recs ∧
    ms.load now key = (st.load .memory now key).1 :=
  ⟨memRel_save now key to value ms st h, memRel_remove now key ms st h, memRel_load now key ms st h⟩

/-- **`short_gc` removes only expired entries** (at most `gcMax` of them, from the head of the index) and leaves every
other binding of the map exactly as it was. -/
theorem gc_removes_only_expired (now : Int) (ms : MemStore) (l : List Rec) (h : MemRel ms l) (k : Bytes) :
    mfind k (memShortGc now ms).map = mfind k ms.map ∨
    (∃ e, mfind k ms.map = some e ∧ e.timeout < now ∧ mfind k (memShortGc now ms).map = none) :=
  memGc_only_expired Gen.gcMax now ms l h k

example : MemRel ⟨[], []⟩ [] := ⟨rfl, fun _ => rfl, trivial⟩
-- three sessions, two of them expired when the third is renewed: the index keeps mirroring the map
example : ((((⟨[], []⟩ : MemStore).save 1000 [1] 1010 [7]).save 1001 [2] 1005 [8]).save 1002 [3] 1100 [9]).save 1050 [3] 1200 [9] =
    ⟨[([3], ⟨1200, [9]⟩)], [(1200, [3])]⟩ := by decide +kernel

/-- **`transmit` re-sends after a reconnect.**  If the first exchange fails (the connection to the session server was
dropped), the reconnect succeeds and the re-sent exchange is answered, the caller gets that answer — a dropped connection is
transparent; and `transmit` never returns normally without an answer of the server (it answers or throws).  (With
`done=true` behind the try/catch the regenerated `Gen.txDoneAfterCatch` makes both statements false.) -/
theorem transmit_resends_after_reconnect {R : Type} (attempt : Nat → Option R) (reconnectOk : Bool) :
    (∀ r, attempt 0 = some r → transmit attempt reconnectOk = .answered r) ∧
    (∀ r, attempt 0 = none → reconnectOk = true → attempt 1 = some r → transmit attempt reconnectOk = .answered r) ∧
    transmit attempt reconnectOk ≠ .noAnswer := by
  have h1 : Gen.txDoneInTry = true := rfl
  have h2 : Gen.txDoneAfterCatch = false := rfl
  refine ⟨?_, ?_, ?_⟩
  · intro r h; simp [transmit, transmitLoop, h, h1]
  · intro r h0 hr h1'; simp [transmit, transmitLoop, h0, hr, h1', h1, h2]
  · simp only [transmit, transmitLoop, h1, h2]
    cases attempt 0 <;> cases reconnectOk <;> cases attempt 1 <;> simp

example : transmit (fun i => if i = 0 then none else some 7) true = .answered 7 := by decide

/-- Numbers are written (`set<T>`, used by `age()/expiration()/on_server()`) and read (`get<T>`) in the classic locale on
both sides (regenerated from the header): the `showInt`/`readInt` pair of the model does not depend on the process's
global locale.  The correspondence runs a share of the histories under a digit-grouping global locale. -/
theorem number_text_is_locale_independent : Gen.setImbuesClassic = true ∧ Gen.getImbuesClassic = true := by decide

/-- **The 10 % renewal window** as the source has it (`delta < timeout_val_ * 0.1` with
`delta = now + timeout_val_ - timeout_in_`): an unchanged renew/browser session is not rewritten while fewer
than a tenth of its period has passed since `timeout_in_ - timeout_val_`, the instant of the last write. -/
theorem renewal_window (now T tin tdef : Int) :
    (Gen.delta now T tin * Gen.renewDen < Gen.renewBase T tdef * Gen.renewNum) ↔ 10 * (now - (tin - T)) < T := by
  simp only [Gen.delta, Gen.renewDen, Gen.renewNum, Gen.renewBase]; omega

/-- **The renewal test as the machine computes it.**  `save()` evaluates `delta < timeout_val_ * 0.1` in binary64.
`doubleLess` (Model.lean) is the exact model of that computation: `delta` and the `int` multiplicand converted exactly,
the literal as the binary64 number `Gen.renewMant * 2^-Gen.renewShift`, one IEEE multiplication rounded to nearest even.
For every `int` multiplicand and every integer `delta` it agrees with the exact rational comparison the model uses
(`delta * 10 < T * 1`) — no rounding artefact anywhere on the range, in particular not at `delta = T/10`. -/
theorem renew_double_exact (delta T : Int) (hlo : -2 ^ 31 ≤ T) (hhi : T < 2 ^ 31) :
    doubleLess delta T = decide (delta * Gen.renewDen < T * Gen.renewNum) :=
  doubleLess_exact delta T hlo hhi

/-- The binary64 value the translator computed for the literal is the double nearest to the rational `1/10`: a 53-bit
number of the binade `[2^-4, 2^-3)` (spacing `2^-56`) at distance at most half a spacing. -/
theorem renew_literal_is_nearest_double :
    Gen.renewShift = 55 ∧ 2 ^ 51 ≤ Gen.renewMant ∧ Gen.renewMant < 2 ^ 52 ∧
    4 * (Gen.renewDen * (Gen.renewMant : Int) - Gen.renewNum * 2 ^ 55).natAbs ≤ Gen.renewDen.natAbs := by
  decide

/-! ### Non-vacuity / sanity instances -/

example : saveData [([107], ⟨[118], true⟩)] = .ok [1, 12, 0, 0, 107, 118] := by rfl
example : loadData [1, 12, 0, 0, 107, 118] = .ok [([107], ⟨[118], true⟩)] := by
  simp [loadData, parseEntries, parseFuel, Gen.headerSize, leWord32, wordKey, wordData, wordExp, Gen.keyBits, Gen.expBits,
    Gen.dataBits, fromEntries, dinsert]
example : Sorted [([97], ⟨[], false⟩), ([97, 0], ⟨[1], true⟩), ([98], ⟨[], false⟩)] := by
  simp [Sorted, bytesLt]
example : validSid (73 :: List.replicate 32 97) = some (List.replicate 32 97) := by decide
example : validSid ([73, 46, 46, 47, 46, 46, 47, 101, 116, 99, 47, 112, 97, 115, 115, 119, 100] ++ List.replicate 16 48) = none := by decide
example : validSid (73 :: List.replicate 32 65) = none := by decide

/-! ### a concrete environment meeting the hypotheses (non-vacuity) -/

def exSid (n : Nat) : Bytes := List.replicate 31 48 ++ [UInt8.ofNat (if n % 16 < 10 then 48 + n % 16 else 87 + n % 16)]

/-- unary stand-in for the authenticated encryptor: sign, |t| sevens, a zero, the data -/
def exEnc (t : Int) (d : Bytes) : Bytes := (if t < 0 then 1 else 0) :: (List.replicate t.natAbs 7 ++ 0 :: d)

def exDec : Bytes → Option (Int × Bytes)
  | [] => none
  | s :: rest =>
    match rest.dropWhile (· == 7) with
    | 0 :: d => some (if s == 1 then -((rest.takeWhile (· == 7)).length : Int) else ((rest.takeWhile (· == 7)).length : Int), d)
    | _ => none

def exEnv : Env := ⟨exSid, exEnc, exDec, Spec.showDec, Spec.readDec⟩

theorem takeWhile_rep (n : Nat) (d : Bytes) : (List.replicate n (7 : UInt8) ++ 0 :: d).takeWhile (· == 7) = List.replicate n 7 := by
  induction n with
  | zero => simp [List.takeWhile]
  | succ n ih => simp [List.replicate_succ, List.takeWhile, ih]

theorem dropWhile_rep (n : Nat) (d : Bytes) : (List.replicate n (7 : UInt8) ++ 0 :: d).dropWhile (· == 7) = 0 :: d := by
  induction n with
  | zero => simp [List.dropWhile]
  | succ n ih => simp [List.replicate_succ, List.dropWhile, ih]

theorem exEnv_ok : EnvOK exEnv := by
  constructor
  · intro n
    have : n % 16 < 16 := Nat.mod_lt _ (by omega)
    have key : ∀ k : Fin 16, Spec.wellFormedId (List.replicate 31 48 ++ [UInt8.ofNat (if k.val < 10 then 48 + k.val else 87 + k.val)]) = true := by decide
    exact key ⟨n % 16, this⟩
  · intro t d
    show exDec (exEnc t d) = some (t, d)
    simp only [exEnc, exDec, dropWhile_rep, takeWhile_rep, List.length_replicate]
    by_cases h : t < 0
    · simp [h]; omega
    · simp [h]; omega

theorem exEnv_fresh : Fresh exEnv 16 := by
  intro m n hm hn h
  have key : ∀ a b : Fin 16, exSid a.val = exSid b.val → a = b := by decide
  have := key ⟨m, hm⟩ ⟨n, hn⟩ h
  exact Fin.mk.inj_iff.mp this


/-! ### a concrete history meeting the hypotheses of the history theorems -/

instance instDecEqExcept {ε α : Type} [DecidableEq ε] [DecidableEq α] : DecidableEq (Except ε α)
  | .ok a, .ok b => if h : a = b then isTrue (by rw [h]) else isFalse (by intro e; cases e; exact h rfl)
  | .error a, .error b => if h : a = b then isTrue (by rw [h]) else isFalse (by intro e; cases e; exact h rfl)
  | .ok _, .error _ => isFalse (by intro e; cases e)
  | .error _, .ok _ => isFalse (by intro e; cases e)


def exCfg : Cfg := ⟨.server, .memory, 1, 100, 2048⟩
def exStep : Step := ⟨[], [], 1000, [.set [107] [118]]⟩
def exTok : Bytes := 73 :: exSid 0

example : (request (stepCtx exCfg exEnv exStep) ⟨[], []⟩ 0 exStep.ops).saved = .ok (.written exTok) := by rfl
example : Spec.specLoad (numOf exEnv) (dfOf exCfg) (Spec.alive exStep.now (absTok exCfg exEnv [] exStep.cookie)) =
    .ok ⟨[], 100, 1, false, false⟩ := by rfl
example : Spec.decideSave (dfOf exCfg) (Spec.alive exStep.now (absTok exCfg exEnv [] exStep.cookie))
    ((exStep.ops.map specOp).foldl (Spec.applyOp (numOf exEnv) (dfOf exCfg)) ⟨[], 100, 1, false, false⟩) exStep.now =
    .saved ⟨[([107], [118], false)], 1100⟩ true 100 := by rfl
example : Admissible exEnv exStep.cookie := by intro p h; simp [cookiePayload, exStep] at h
example : Admissible exEnv exTok := by intro p h; simp [cookiePayload, exTok, Gen.cookiesPrefix] at h
example : HistOK exEnv 1000 [⟨exTok, [], 1005, []⟩, ⟨[73, 47], [], 1006, [.clear]⟩] := by
  refine ⟨by decide, ?_, by decide, ?_, trivial⟩ <;> (intro p h; simp [cookiePayload, exTok, Gen.cookiesPrefix] at h)
example : revocable exCfg exTok = true := by rfl
example : TokKnown exEnv 1 exTok := Or.inr (Or.inl ⟨0, by omega, rfl⟩)
-- the request after ten seconds reads what was saved
example : (request (stepCtx exCfg exEnv ⟨exTok, [], 1010, []⟩)
    (request (stepCtx exCfg exEnv exStep) ⟨[], []⟩ 0 exStep.ops).store 1 []).reads =
    .ok ⟨[([107], ⟨[118], false⟩)], 100, 1, false⟩ := by decide +kernel
-- and one second after the deadline it reads nothing
example : (request (stepCtx exCfg exEnv ⟨exTok, [], 1101, []⟩)
    (request (stepCtx exCfg exEnv exStep) ⟨[], []⟩ 0 exStep.ops).store 1 []).reads =
    .ok ⟨[], 100, 1, false⟩ := by decide +kernel


-- exposed cookies: a request exposing `k` leaves the browser with `<prefix>_k = v`; hiding it removes the cookie
example : ((Jar.empty.applyAll (request (stepCtx exCfg exEnv ⟨[], [], 1000, []⟩) ⟨[], []⟩ 0 [.set [107] [118], .expose [107]]).cookies).exposed,
    ((Jar.empty.applyAll (request (stepCtx exCfg exEnv ⟨[], [], 1000, []⟩) ⟨[], []⟩ 0 [.set [107] [118], .expose [107]]).cookies).applyAll
      (request (stepCtx exCfg exEnv ⟨exTok, [[107]], 1001, []⟩)
        (request (stepCtx exCfg exEnv ⟨[], [], 1000, []⟩) ⟨[], []⟩ 0 [.set [107] [118], .expose [107]]).store 1 [.hide [107]]).cookies).exposed) =
    ([([107], [118])], []) := by decide +kernel

-- the renewal test in binary64 at and around the 10 % boundary (also at the top of the `int` range)
example : [doubleLess 9 100, doubleLess 10 100, doubleLess 2 30, doubleLess 3 30, doubleLess 214748364 2147483647,
    doubleLess 214748364 2147483640, doubleLess (-1) (-5), doubleLess (-1) (-10)] =
    [true, false, true, false, true, false, true, false] := by decide +kernel

-- a history meeting `HistB`: the browser exposes `k`, somebody else (no cookie) creates a session, the browser hides `k`
example : HistB exCfg exEnv 16 1000 ⟨⟨[], []⟩, 0, Jar.empty⟩
    [.own 1000 [.set [107] [118], .expose [107]], .other ⟨[], [], 1001, [.set [97] [98]]⟩, .own 1002 [.hide [107]]] := by
  refine ⟨by decide, by decide +kernel, ?_, by decide, by decide +kernel, ⟨?_, ?_⟩, by decide, by decide +kernel, ?_, trivial⟩
  · intro op hop; simp at hop; rcases hop with rfl | rfl <;> simp [opKeyNE]
  · intro p hp; simp [cookiePayload] at hp
  · decide +kernel
  · intro op hop; simp at hop; subst hop; simp [opKeyNE]
example : ((runB exCfg exEnv ⟨⟨[], []⟩, 0, Jar.empty⟩ [.own 1000 [.set [107] [118], .expose [107]]]).jar.exposed,
    (runB exCfg exEnv ⟨⟨[], []⟩, 0, Jar.empty⟩
      [.own 1000 [.set [107] [118], .expose [107]], .other ⟨[], [], 1001, [.set [97] [98]]⟩, .own 1002 [.hide [107]]]).jar.exposed) =
    ([([107], [118])], []) := by decide +kernel

/-! ### known finding: working values set before `clear()` are used but not persisted

The full-strength reading of the property's parenthesis — "the age / expiration mode / on-server flag a
request leaves is what the next request reads" — is **false** of the code (and of the faithful model):
`age(5); clear(); set(k,v)` saves the session with the deadline and cookie age of the stale `timeout_val_ = 5`
(the member survives `clear()`, the `_t` entry does not), and the next request reads the configured default.
The same holds for `expiration(h)` and `on_server(b)`.  The specification in `Spec.lean` therefore carries
age / mode / on-server as the entries `_t` / `_h` / `_s` of the data (that is what is persisted) and mirrors
the stale working values in `decideSave`; this theorem records the witness, `known_findings.txt` lists it as
`stale-settings-after-clear`, and the check replays it on the real code on every run. -/
theorem getters_not_persisted_counterexample :
    (applyOps exCfg exEnv (emptySess exCfg) [.age 5, .clear, .set [107] [118]]).timeoutVal = 5 ∧
    (request (stepCtx exCfg exEnv ⟨[], [], 1000, []⟩) ⟨[], []⟩ 0 [.age 5, .clear, .set [107] [118]]).saved = .ok (.written exTok) ∧
    ((request (stepCtx exCfg exEnv ⟨[], [], 1000, []⟩) ⟨[], []⟩ 0 [.age 5, .clear, .set [107] [118]]).store.recs.map (·.timeout)) = [1005] ∧
    (request (stepCtx exCfg exEnv ⟨exTok, [], 1004, []⟩)
      (request (stepCtx exCfg exEnv ⟨[], [], 1000, []⟩) ⟨[], []⟩ 0 [.age 5, .clear, .set [107] [118]]).store 1 []).reads =
      .ok ⟨[([107], ⟨[118], false⟩)], 100, 1, false⟩ := by
  decide +kernel

end Cppcms.C06.Props
