import Cppcms.C06.RefineE
/-!
# C06 refinement, layer 15: the memory storage's two containers against the list model
-/
namespace Cppcms.C06
open Cppcms

def recIdx (r : Rec) : Int × Bytes := (r.timeout, r.sid)
def recEntry (r : Rec) : MemEntry := ⟨r.timeout, r.data⟩

/-- **the index mirrors the map**: the index is the list of (deadline, key) of the records, in order; the map binds each
key to its record; one record per key -/
structure MemRel (ms : MemStore) (l : List Rec) : Prop where
  index : ms.index = l.map recIdx
  map : ∀ k, mfind k ms.map = (findRec k l).map recEntry
  nodup : NoDupSid l

theorem mfind_merase (k k' : Bytes) (m : List (Bytes × MemEntry)) : mfind k (merase k' m) = if k' = k then none else mfind k m := by
  induction m with
  | nil => simp [merase, mfind]
  | cons p rest ih =>
    obtain ⟨k0, e0⟩ := p
    simp only [merase]
    split
    · rename_i h; subst h
      rw [ih]; simp only [mfind]
      split <;> rfl
    · rename_i hne
      simp only [mfind, ih]
      by_cases h0 : k0 = k
      · subst h0; simp; intro e; exact absurd e.symm hne
      · simp [h0]

theorem mfind_append_single (k key : Bytes) (e : MemEntry) (m : List (Bytes × MemEntry)) (h : mfind key m = none) :
    mfind k (m ++ [(key, e)]) = if key = k then some e else mfind k m := by
  induction m with
  | nil => simp [mfind]
  | cons p rest ih =>
    obtain ⟨k0, e0⟩ := p
    simp only [mfind] at h
    split at h
    · cases h
    · rename_i hne
      simp only [List.cons_append, mfind, ih h]
      by_cases h0 : k0 = k
      · subst h0; simp [Ne.symm hne]
      · simp [h0]

theorem idxInsert_map (r : Rec) (l : List Rec) : idxInsert r.timeout r.sid (l.map recIdx) = (insByTimeout r l).map recIdx := by
  induction l with
  | nil => rfl
  | cons x xs ih =>
    simp only [List.map_cons, idxInsert, insByTimeout, recIdx] at ih ⊢
    split
    · simp only [List.map_cons, recIdx, ih]
    · rfl

theorem eraseSid_of_absent (k : Bytes) (l : List Rec) (h : findRec k l = none) : eraseSid k l = l := by
  induction l with
  | nil => rfl
  | cons x xs ih =>
    simp only [findRec] at h
    split at h
    · cases h
    · rename_i hne; simp only [eraseSid, hne, if_false, ih h]

theorem idxErase_map (k : Bytes) (l : List Rec) (r0 : Rec) (hd : NoDupSid l) (h : findRec k l = some r0) :
    idxErase r0.timeout k (l.map recIdx) = (eraseSid k l).map recIdx := by
  induction l with
  | nil => simp [findRec] at h
  | cons x xs ih =>
    obtain ⟨h1, h2⟩ := hd
    simp only [findRec] at h
    split at h
    · rename_i hx
      cases h
      have hnone : findRec k xs = none := (findRec_none_iff k xs).mpr (fun y hy => by rw [← hx]; exact h1 y hy)
      simp only [List.map_cons, idxErase, recIdx, hx, and_self, if_true, eraseSid, eraseSid_of_absent k xs hnone]
    · rename_i hx
      have : ¬ (x.timeout = r0.timeout ∧ x.sid = k) := fun e => hx e.2
      simp only [List.map_cons, idxErase, recIdx, eraseSid, hx, ih h2 h]
      simp [recIdx]

theorem memRel_gc (n : Nat) (now : Int) (ms : MemStore) (l : List Rec) (h : MemRel ms l) :
    MemRel (memShortGcN n now ms) (shortGcN n now l) := by
  induction n generalizing ms l with
  | zero => exact h
  | succ n ih =>
    cases l with
    | nil =>
      have : ms.index = [] := by rw [h.index]; rfl
      simp only [memShortGcN, this, shortGcN]; exact h
    | cons r rest =>
      have hidx : ms.index = (r.timeout, r.sid) :: rest.map recIdx := by rw [h.index]; rfl
      simp only [memShortGcN, hidx, shortGcN]
      split
      · apply ih
        refine ⟨rfl, ?_, h.nodup.2⟩
        intro k
        simp only [mfind_merase, h.map k, findRec]
        by_cases hk : r.sid = k
        · subst hk
          rw [if_pos rfl, (findRec_none_iff r.sid rest).mpr (fun y hy => h.nodup.1 y hy)]
          rfl
        · rw [if_neg hk, if_neg hk]
      · exact h

theorem memRel_save (now : Int) (key : Bytes) (to : Int) (value : Bytes) (ms : MemStore) (st : Store) (h : MemRel ms st.recs) :
    MemRel (ms.save now key to value) (st.save .memory now key to value).recs := by
  simp only [MemStore.save, Store.save, memShortGc, shortGc]
  apply memRel_gc
  have hne : ∀ x ∈ eraseSid key st.recs, x.sid ≠ (⟨key, to, value⟩ : Rec).sid := fun x hx => (mem_eraseSid.mp hx).2
  have hfind : ∀ k, findRec k (insByTimeout ⟨key, to, value⟩ (eraseSid key st.recs)) =
      if key = k then some ⟨key, to, value⟩ else findRec k st.recs := by
    intro k
    rw [findRec_insByTimeout k _ _ hne, findRec_eraseSid]
    by_cases hk : key = k
    · simp [hk]
    · simp [hk]
  have hnd := noDup_insByTimeout _ _ (noDup_eraseSid key _ h.nodup) hne
  have hm := h.map key
  cases hf : findRec key st.recs with
  | none =>
    rw [hf] at hm
    simp only [Option.map_none] at hm
    simp only [hm]
    refine ⟨?_, ?_, hnd⟩
    · show idxInsert to key ms.index = _
      rw [h.index, eraseSid_of_absent key _ hf]
      exact idxInsert_map ⟨key, to, value⟩ st.recs
    · intro k
      rw [mfind_append_single k key _ _ hm, hfind k, h.map k]
      split <;> rfl
  | some r0 =>
    rw [hf] at hm
    simp only [Option.map_some] at hm
    simp only [hm]
    refine ⟨?_, ?_, hnd⟩
    · show idxInsert to key (idxErase (recEntry r0).timeout key ms.index) = _
      rw [h.index, show (recEntry r0).timeout = r0.timeout from rfl, idxErase_map key st.recs r0 h.nodup hf]
      exact idxInsert_map ⟨key, to, value⟩ _
    · intro k
      simp only [mfind, mfind_merase, hfind k, h.map k]
      split <;> rfl

theorem memRel_remove (now : Int) (key : Bytes) (ms : MemStore) (st : Store) (h : MemRel ms st.recs) :
    MemRel (ms.remove now key) (st.remove .memory now key).recs := by
  simp only [MemStore.remove, Store.remove]
  have hm := h.map key
  cases hf : findRec key st.recs with
  | none =>
    rw [hf] at hm; simp only [Option.map_none] at hm
    simp only [hm]; exact h
  | some r0 =>
    rw [hf] at hm; simp only [Option.map_some] at hm
    simp only [hm, memShortGc, shortGc]
    apply memRel_gc
    refine ⟨?_, ?_, noDup_eraseSid key _ h.nodup⟩
    · show idxErase (recEntry r0).timeout key ms.index = _
      rw [h.index]; exact idxErase_map key st.recs r0 h.nodup hf
    · intro k
      rw [mfind_merase, findRec_eraseSid, h.map k]
      split <;> rfl

theorem memRel_load (now : Int) (key : Bytes) (ms : MemStore) (st : Store) (h : MemRel ms st.recs) :
    ms.load now key = (st.load .memory now key).1 := by
  simp only [MemStore.load, Store.load, h.map key]
  cases findRec key st.recs with
  | none => rfl
  | some r => simp only [Option.map_some, recEntry]; split <;> rfl

/-- `short_gc` removes only expired entries, and every entry it leaves is untouched -/
theorem memGc_only_expired (n : Nat) (now : Int) (ms : MemStore) (l : List Rec) (h : MemRel ms l) (k : Bytes) :
    mfind k (memShortGcN n now ms).map = mfind k ms.map ∨
    (∃ e, mfind k ms.map = some e ∧ e.timeout < now ∧ mfind k (memShortGcN n now ms).map = none) := by
  induction n generalizing ms l with
  | zero => exact Or.inl rfl
  | succ n ih =>
    cases l with
    | nil =>
      have : ms.index = [] := by rw [h.index]; rfl
      simp only [memShortGcN, this]; exact Or.inl trivial
    | cons r rest =>
      have hidx : ms.index = (r.timeout, r.sid) :: rest.map recIdx := by rw [h.index]; rfl
      simp only [memShortGcN, hidx]
      split
      · rename_i hexp
        have hrel' : MemRel ⟨merase r.sid ms.map, rest.map recIdx⟩ rest := by
          refine ⟨rfl, ?_, h.nodup.2⟩
          intro k'
          simp only [mfind_merase, h.map k', findRec]
          by_cases hk : r.sid = k'
          · subst hk
            rw [if_pos rfl, (findRec_none_iff r.sid rest).mpr (fun y hy => h.nodup.1 y hy)]; rfl
          · rw [if_neg hk, if_neg hk]
        have hexp' : r.timeout < now := by
          rw [(expired_iff r.timeout now).2.2.1] at hexp; simp only [decide_eq_true_eq] at hexp; omega
        by_cases hk : r.sid = k
        · subst hk
          right
          refine ⟨recEntry r, by rw [h.map r.sid]; simp [findRec], hexp', ?_⟩
          rcases ih _ rest hrel' with h1 | ⟨e, h1, _⟩
          · rw [h1]; simp [mfind_merase]
          · simp [mfind_merase] at h1
        · rcases ih _ rest hrel' with h1 | ⟨e, h1, h2, h3⟩
          · left; rw [h1]; simp [mfind_merase, hk]
          · right; exact ⟨e, by simpa [mfind_merase, hk] using h1, h2, h3⟩
      · exact Or.inl rfl

end Cppcms.C06
