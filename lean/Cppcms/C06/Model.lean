import Cppcms.Common
import Cppcms.C06.Gen
/-!
# C06 model: sessions (`session_interface`, `session_sid`, `session_dual`, `session_cookies`,
server storages)

Executable transcription of

* `src/session_interface.cpp`: `load`, `save` (the `new_session_` / `reset_` / `data_copy_` logic, the
  fixed / renew / browser policy with the 10 % renewal window), `cookie_age`, `session_age`,
  `save_data` / `load_data` with the 10/1/21-bit `packed` header, the `_t` / `_h` / `_s` keys,
  `update_exposed`, `clear_session_cookie`, `set_session_cookie`, and the mutators
  `set / erase / clear / expose / hide / age / default_age / expiration / default_expiration /
  on_server / reset_session`;
* `src/session_sid.cpp`: `valid_sid`, `save`, `load`, `clear`;
* `src/session_dual.cpp`: `save`, `load`, `clear`;
* `src/session_cookies.cpp`: `save`, `load`, `clear` over an *abstract* authenticated encryptor
  (`Env.enc` / `Env.dec`; the real cookie crypto is property C05);
* `src/session_memory_storage.cpp` (`save`, `load`, `remove`, `short_gc`) and the file storage as seen
  through the `session_storage` interface (`save`, `load` unlinking expired files, `remove`, `gc`).

All constants, comparison operators, bit widths, the `valid_sid` character class, `cookie_age`,
`session_age`, `delta` and the renewal factor come from `Gen.lean` (regenerated from the C++ on every
run).  Control flow is written here by hand and tied to the code by the correspondence run.

Time is the explicit `now : Int` of each request.  Every storage access is logged in `Store.log`
(the key it was addressed with) so that "malformed ids never reach storage" is a statement about the model.
-/
namespace Cppcms.C06
open Cppcms

def ofNats (l : List Nat) : Bytes := l.map UInt8.ofNat

/-! ## errors (C++ exceptions leaving `load()` / `save()`) -/

inductive Err where
  | keyTooLong        -- cppcms_error("session::save key too long")
  | valueTooLong      -- cppcms_error("session::save value too long")
  | formatPack        -- cppcms_error("session::format violation -> pack")
  | formatData        -- cppcms_error("sessions::format violation data")
  | badCast           -- booster::bad_cast from get<int>("_t"/"_h"/"_s")
  | cookiesOnServer   -- cppcms_error("Can't use cookies backend when data should be stored on server")
deriving DecidableEq, Repr

/-! ## session data: `std::map<std::string,entry>` as a key-sorted association list -/

abbrev Key := Bytes

structure Entry where
  value : Bytes
  exposed : Bool
deriving DecidableEq, Repr, Inhabited

/-- `std::string::compare < 0`: bytewise (unsigned) lexicographic order -/
def bytesLt : Bytes → Bytes → Bool
  | [], [] => false
  | [], _ :: _ => true
  | _ :: _, [] => false
  | a :: as, b :: bs => decide (a.toNat < b.toNat) || (a == b && bytesLt as bs)

abbrev Data := List (Key × Entry)

def dfind (k : Key) : Data → Option Entry
  | [] => none
  | (k', e) :: rest => if k' = k then some e else dfind k rest

/-- `data[k] = e` keeping the list sorted -/
def dinsert (k : Key) (e : Entry) : Data → Data
  | [] => [(k, e)]
  | (k', e') :: rest =>
    if bytesLt k k' then (k, e) :: (k', e') :: rest
    else if k' = k then (k, e) :: rest
    else (k', e') :: dinsert k e rest

def derase (k : Key) : Data → Data
  | [] => []
  | (k', e') :: rest => if k' = k then derase k rest else (k', e') :: derase k rest

/-- sorted insertion into a `std::set<std::string>` -/
def kinsert (k : Key) : List Key → List Key
  | [] => [k]
  | k' :: rest => if bytesLt k k' then k :: k' :: rest else if k' = k then k' :: rest else k' :: kinsert k rest

/-! ## the `packed` header and `save_data` / `load_data` -/

/-- the 32-bit word of `struct packed` (bit-field assignment truncates to the field width) -/
def headerWord (ks : Nat) (exp : Bool) (ds : Nat) : Nat :=
  ks % 2 ^ Gen.keyBits + (if exp then 1 else 0) * 2 ^ Gen.keyBits + (ds % 2 ^ Gen.dataBits) * 2 ^ (Gen.keyBits + Gen.expBits)

/-- the four bytes of a `uint32_t` in memory (little endian) -/
def leBytes32 (w : Nat) : Bytes :=
  [UInt8.ofNat (w % 256), UInt8.ofNat (w / 256 % 256), UInt8.ofNat (w / 65536 % 256), UInt8.ofNat (w / 16777216 % 256)]

def leWord32 (b : Bytes) : Nat :=
  (b.getD 0 0).toNat + (b.getD 1 0).toNat * 256 + (b.getD 2 0).toNat * 65536 + (b.getD 3 0).toNat * 16777216

/-- `packed(unsigned ks,bool exp,unsigned ds)` followed by the `append` of its bytes -/
def packHeader (ks : Nat) (exp : Bool) (ds : Nat) : Except Err Bytes :=
  if ks ≥ Gen.keyLimit then .error .keyTooLong
  else if ds ≥ Gen.dataLimit then .error .valueTooLong
  else .ok (leBytes32 (headerWord ks exp ds))

def wordKey (w : Nat) : Nat := w % 2 ^ Gen.keyBits
def wordExp (w : Nat) : Bool := w / 2 ^ Gen.keyBits % 2 ^ Gen.expBits != 0
def wordData (w : Nat) : Nat := w / 2 ^ (Gen.keyBits + Gen.expBits) % 2 ^ Gen.dataBits

def encodeEntry (p : Key × Entry) : Except Err Bytes :=
  match packHeader p.1.length p.2.exposed p.2.value.length with
  | .error e => .error e
  | .ok h => .ok (h ++ p.1 ++ p.2.value)

/-- `session_interface::save_data` -/
def saveData : Data → Except Err Bytes
  | [] => .ok []
  | p :: rest =>
    match encodeEntry p with
    | .error e => .error e
    | .ok a =>
      match saveData rest with
      | .error e => .error e
      | .ok b => .ok (a ++ b)

/-- the loop of `session_interface::load_data`: the sequence of entries in the order they are stored.
`fuel` bounds the number of iterations; every iteration consumes at least the header, so
`s.length` iterations always suffice (`parseFuel_mono` in Lemmas). -/
def parseFuel : Nat → Bytes → Except Err (List (Key × Entry))
  | 0, _ => .ok []
  | f + 1, s =>
    if s.isEmpty then .ok []
    else if s.length < Gen.headerSize then .error .formatPack
    else
      let w := leWord32 (s.take Gen.headerSize)
      let rest := s.drop Gen.headerSize
      if rest.length ≥ wordKey w + wordData w then
        let key := rest.take (wordKey w)
        let val := (rest.drop (wordKey w)).take (wordData w)
        match parseFuel f (rest.drop (wordKey w + wordData w)) with
        | .error e => .error e
        | .ok es => .ok ((key, ⟨val, wordExp w⟩) :: es)
      else .error .formatData

def parseEntries (s : Bytes) : Except Err (List (Key × Entry)) := parseFuel s.length s

/-- `data[key] = entry` for every parsed entry, in order -/
def fromEntries (es : List (Key × Entry)) : Data := es.foldl (fun d p => dinsert p.1 p.2 d) []

/-- `session_interface::load_data` -/
def loadData (s : Bytes) : Except Err Data :=
  match parseEntries s with
  | .error e => .error e
  | .ok es => .ok (fromEntries es)

/-! ## `session_sid::valid_sid` -/

def validSid (c : Bytes) : Option Bytes :=
  if c.length != Gen.sidCookieLen || (c.getD 0 0).toNat != Gen.sidPrefix then none
  else if ((c.drop Gen.sidLoopFrom).take (Gen.sidLoopTo - Gen.sidLoopFrom)).all (fun x => Gen.isLowXDigit x.toNat) then
    some ((c.drop Gen.sidSubstrPos).take Gen.sidSubstrLen)
  else none

/-! ## server storages behind the `session_storage` interface -/

structure Rec where
  sid : Bytes
  timeout : Int
  data : Bytes
deriving DecidableEq, Repr

inductive Kind where
  | memory | files
deriving DecidableEq, Repr

inductive StOp where
  | load | save | remove
deriving DecidableEq, Repr

/-- `recs`: memory storage — in the order of the `timeout_` multimap (by timeout, equal timeouts in
insertion order); file storage — the set of files (order irrelevant).
`log`: every call of the `session_storage` interface with the key it was addressed with, most recent first. -/
structure Store where
  recs : List Rec
  log : List (StOp × Bytes)
deriving Repr

def findRec (sid : Bytes) : List Rec → Option Rec
  | [] => none
  | r :: rest => if r.sid = sid then some r else findRec sid rest

def eraseSid (sid : Bytes) : List Rec → List Rec
  | [] => []
  | r :: rest => if r.sid = sid then eraseSid sid rest else r :: eraseSid sid rest

/-- `timeout_.insert(pair(to,p))`: behind every element with a key `≤ to` -/
def insByTimeout (r : Rec) : List Rec → List Rec
  | [] => [r]
  | x :: xs => if x.timeout ≤ r.timeout then x :: insByTimeout r xs else r :: x :: xs

/-- `short_gc`: drop leading expired elements, at most `n` -/
def shortGcN : Nat → Int → List Rec → List Rec
  | 0, _, l => l
  | _ + 1, _, [] => []
  | n + 1, now, x :: xs => if Gen.memGcExpired x.timeout now then shortGcN n now xs else x :: xs

def shortGc (now : Int) (l : List Rec) : List Rec := shortGcN Gen.gcMax now l

/-! ### the memory storage with its two containers

`session_memory_storage` keeps `map_` (hash map: key → {timeout, info, timeout_ptr}) and `timeout_`
(`std::multimap<time_t, pointer>`, the eviction index); `timeout_ptr` is the index node of the entry.  `MemStore` models
both; the list model above (`recs` in index order) is its abstraction (`MemRel`, `Props.mem_storage_refines`). -/

structure MemEntry where
  timeout : Int
  info : Bytes
deriving DecidableEq, Repr

structure MemStore where
  map : List (Bytes × MemEntry)      -- `map_` (order irrelevant: only looked up)
  index : List (Int × Bytes)         -- `timeout_`: (first, key of `second`), in multimap order
deriving DecidableEq, Repr

def mfind (k : Bytes) : List (Bytes × MemEntry) → Option MemEntry
  | [] => none
  | (k', e) :: rest => if k' = k then some e else mfind k rest

def merase (k : Bytes) : List (Bytes × MemEntry) → List (Bytes × MemEntry)
  | [] => []
  | (k', e) :: rest => if k' = k then merase k rest else (k', e) :: merase k rest

/-- `timeout_.erase(p->second.timeout_ptr)`: the node `(t, k)` -/
def idxErase (t : Int) (k : Bytes) : List (Int × Bytes) → List (Int × Bytes)
  | [] => []
  | (t', k') :: rest => if t' = t ∧ k' = k then rest else (t', k') :: idxErase t k rest

/-- `timeout_.insert(pair(to,p))`: behind every node with a key `≤ to` -/
def idxInsert (t : Int) (k : Bytes) : List (Int × Bytes) → List (Int × Bytes)
  | [] => [(t, k)]
  | (t', k') :: rest => if t' ≤ t then (t', k') :: idxInsert t k rest else (t, k) :: (t', k') :: rest

/-- `short_gc`: walk the index from its begin; erase the map entry the node points to, and the node -/
def memShortGcN : Nat → Int → MemStore → MemStore
  | 0, _, ms => ms
  | n + 1, now, ms =>
    match ms.index with
    | [] => ms
    | (t, k) :: rest => if Gen.memGcExpired t now then memShortGcN n now ⟨merase k ms.map, rest⟩ else ms

def memShortGc (now : Int) (ms : MemStore) : MemStore := memShortGcN Gen.gcMax now ms

def MemStore.save (now : Int) (key : Bytes) (to : Int) (value : Bytes) (ms : MemStore) : MemStore :=
  memShortGc now
    (match mfind key ms.map with
     | none => ⟨ms.map ++ [(key, ⟨to, value⟩)], idxInsert to key ms.index⟩
     | some e => ⟨(key, ⟨to, value⟩) :: merase key ms.map, idxInsert to key (idxErase e.timeout key ms.index)⟩)

def MemStore.load (now : Int) (key : Bytes) (ms : MemStore) : Option (Int × Bytes) :=
  match mfind key ms.map with
  | none => none
  | some e => if Gen.memExpired e.timeout now then none else some (e.timeout, e.info)

def MemStore.remove (now : Int) (key : Bytes) (ms : MemStore) : MemStore :=
  match mfind key ms.map with
  | none => ms
  | some e => memShortGc now ⟨merase key ms.map, idxErase e.timeout key ms.index⟩

def Store.save (k : Kind) (now : Int) (sid : Bytes) (to : Int) (d : Bytes) (st : Store) : Store :=
  match k with
  | .memory => { recs := shortGc now (insByTimeout ⟨sid, to, d⟩ (eraseSid sid st.recs)), log := (.save, sid) :: st.log }
  | .files => { recs := eraseSid sid st.recs ++ [⟨sid, to, d⟩], log := (.save, sid) :: st.log }

def Store.load (k : Kind) (now : Int) (sid : Bytes) (st : Store) : Option (Int × Bytes) × Store :=
  let st1 : Store := { st with log := (.load, sid) :: st.log }
  match findRec sid st.recs with
  | none => (none, st1)
  | some r =>
    match k with
    | .memory => if Gen.memExpired r.timeout now then (none, st1) else (some (r.timeout, r.data), st1)
    | .files =>
      if Gen.fileExpired r.timeout now then (none, { st1 with recs := eraseSid sid st.recs })   -- unlink
      else (some (r.timeout, r.data), st1)

def Store.remove (k : Kind) (now : Int) (sid : Bytes) (st : Store) : Store :=
  match k with
  | .memory =>
    match findRec sid st.recs with
    | none => { st with log := (.remove, sid) :: st.log }
    | some _ => { recs := shortGc now (eraseSid sid st.recs), log := (.remove, sid) :: st.log }
  | .files => { recs := eraseSid sid st.recs, log := (.remove, sid) :: st.log }

/-- the factory's `gc_job()`: nothing for memory, a sweep of expired files for the file storage -/
def Store.gc (k : Kind) (now : Int) (st : Store) : Store :=
  match k with
  | .memory => st
  | .files => { st with recs := st.recs.filter (fun r => !Gen.fileGcExpired r.timeout now) }

/-! ### the client side of the network storage: `messenger::transmit`

One exchange = write the operation, read the answer.  `attempt i` is what the `i`-th exchange over the socket yields
(`none`: a `system_error`, e.g. the connection was dropped); `reconnectOk`: whether re-opening the socket succeeds.
The loop: try an exchange; on the first failure reconnect, count, and go round again — which **re-sends** the
operation; a second failure (or a failed reconnect) throws.  Where `done=true` sits is regenerated
(`Gen.txDoneInTry`, `Gen.txDoneAfterCatch`). -/

inductive TxResult (R : Type) where
  | answered (r : R)         -- the caller sees the server's answer
  | noAnswer                 -- returns normally with the request header untouched: "no such session" for a load, a lost save / remove
  | thrown                   -- cppcms_error
deriving DecidableEq, Repr

def transmitLoop {R : Type} (attempt : Nat → Option R) (reconnectOk : Bool) : Nat → Nat → TxResult R
  | 0, _ => .thrown        -- unreachable: at most two iterations
  | fuel + 1, times =>
    match attempt times with
    | some r => if Gen.txDoneInTry || Gen.txDoneAfterCatch then .answered r else transmitLoop attempt reconnectOk fuel times
    | none =>
      if times != 0 then .thrown
      else if !reconnectOk then .thrown
      else if Gen.txDoneAfterCatch then .noAnswer
      else transmitLoop attempt reconnectOk fuel (times + 1)

def transmit {R : Type} (attempt : Nat → Option R) (reconnectOk : Bool) : TxResult R := transmitLoop attempt reconnectOk 3 0

/-! ## configuration, environment (externals), cookies -/

inductive Loc where
  | client | server | both
deriving DecidableEq, Repr

structure Cfg where
  loc : Loc
  kind : Kind
  howDef : Int        -- session.expire
  timeoutDef : Int    -- session.timeout
  limit : Nat         -- session.client_size_limit
deriving Repr

/-- Externals.  `sidOf n` is the n-th identifier produced by `get_new_sid` (128 bit from the OS entropy
source, as 32 hex characters).  `enc to data` is the text following `C` in a client-side cookie
(time stamp prefix + encryptor + base64url); `dec` its inverse with authentication.  `showInt`/`readInt`
are `operator<<` / `operator>>` of `int` in the classic locale. -/
structure Env where
  sidOf : Nat → Bytes
  enc : Int → Bytes → Bytes
  dec : Bytes → Option (Int × Bytes)
  showInt : Int → Bytes
  readInt : Bytes → Option Int

/-- one call of `set_session_cookie(age,data,key)` as it reaches the cookie adapter:
`key = []` is the session cookie itself; `age < 0` deletes, `age = 0` is a browser-session cookie -/
structure SetCookie where
  key : Key
  value : Bytes
  age : Int
deriving DecidableEq, Repr

/-- `session_interface::set_session_cookie(int64_t age,data,key)`: `if(data.empty()) age=-1` -/
def mkCookie (age : Int) (value : Bytes) (key : Key) : SetCookie :=
  ⟨key, value, if value.isEmpty then -1 else age⟩

/-- per-request constants -/
structure Ctx where
  cfg : Cfg
  env : Env
  now : Int
  cookie : Bytes          -- the session cookie of the request ("" if none)
  names : List Key        -- keys of the `<prefix>_<key>` cookies of the request, in `std::set` order

/-- `session_interface::clear_session_cookie` -/
def clearSessionCookie (ctx : Ctx) : List SetCookie :=
  if ctx.cookie.isEmpty then [] else [mkCookie (-1) [] []]

/-! ## `session_sid` -/

def sidLoad (ctx : Ctx) (st : Store) : Option (Int × Bytes) × Store :=
  match validSid ctx.cookie with
  | none => (none, st)
  | some id =>
    match st.load ctx.cfg.kind ctx.now id with
    | (none, st1) => (none, st1)
    | (some (to, d), st1) =>
      if Gen.sidExpired ctx.now to then (none, st1.remove ctx.cfg.kind ctx.now id) else (some (to, d), st1)

/-- returns the new store, the number of identifiers drawn so far, and the value handed to
`session.set_session_cookie(…)` -/
def sidSave (ctx : Ctx) (st : Store) (next : Nat) (data : Bytes) (timeout : Int) (newData : Bool) : Store × Nat × Bytes :=
  match validSid ctx.cookie with
  | some id =>
    if newData then
      let st1 := st.remove ctx.cfg.kind ctx.now id
      let id' := ctx.env.sidOf next
      (st1.save ctx.cfg.kind ctx.now id' timeout data, next + 1, UInt8.ofNat Gen.sidPrefix :: id')
    else (st.save ctx.cfg.kind ctx.now id timeout data, next, UInt8.ofNat Gen.sidPrefix :: id)
  | none =>
    let id' := ctx.env.sidOf next
    (st.save ctx.cfg.kind ctx.now id' timeout data, next + 1, UInt8.ofNat Gen.sidPrefix :: id')

def sidClear (ctx : Ctx) (st : Store) : Store × List SetCookie :=
  match validSid ctx.cookie with
  | some id => (st.remove ctx.cfg.kind ctx.now id, clearSessionCookie ctx)
  | none => (st, clearSessionCookie ctx)

/-! ## `session_cookies` -/

def cookiesLoad (ctx : Ctx) : Option (Int × Bytes) × List SetCookie :=
  match ctx.cookie with
  | [] => (none, [])
  | c0 :: body =>
    if c0.toNat != Gen.cookiesPrefix then (none, clearSessionCookie ctx)
    else
      match ctx.env.dec body with
      | none => (none, clearSessionCookie ctx)          -- base64 / MAC / length failure
      | some (to, d) =>
        if Gen.cookieExpired to ctx.now then (none, clearSessionCookie ctx) else (some (to, d), [])

def cookiesSave (ctx : Ctx) (data : Bytes) (timeout : Int) (onServer : Bool) : Except Err Bytes :=
  if onServer then .error .cookiesOnServer
  else .ok (ofNats Gen.cookiesSavePrefix ++ ctx.env.enc timeout data)

/-! ## the `session_api` selected by `session.location` (`session_dual` for `both`) -/

def firstIs (c : Bytes) (ch : Nat) : Bool :=
  match c with
  | [] => false
  | x :: _ => x.toNat == ch

def apiLoad (ctx : Ctx) (st : Store) : Option (Int × Bytes) × Store × List SetCookie :=
  match ctx.cfg.loc with
  | .server => let (r, st1) := sidLoad ctx st; (r, st1, [])
  | .client => let (r, cs) := cookiesLoad ctx; (r, st, cs)
  | .both =>
    if firstIs ctx.cookie Gen.dualLoadClientChar then let (r, cs) := cookiesLoad ctx; (r, st, cs)
    else let (r, st1) := sidLoad ctx st; (r, st1, [])

def apiClear (ctx : Ctx) (st : Store) : Store × List SetCookie :=
  match ctx.cfg.loc with
  | .server => sidClear ctx st
  | .client => (st, clearSessionCookie ctx)
  | .both =>
    if firstIs ctx.cookie Gen.dualClearClientChar then (st, clearSessionCookie ctx) else sidClear ctx st

/-- `storage_->save(*this,ar,timeout,new_session_,on_server_)`:
(store, ids drawn, cookies set on the way, the value left in `temp_cookie_`) -/
def apiSave (ctx : Ctx) (st : Store) (next : Nat) (data : Bytes) (timeout : Int) (isNew onServer : Bool) :
    Except Err (Store × Nat × List SetCookie × Bytes) :=
  match ctx.cfg.loc with
  | .server => let (st1, n1, c) := sidSave ctx st next data timeout isNew; .ok (st1, n1, [], c)
  | .client =>
    match cookiesSave ctx data timeout onServer with
    | .error e => .error e
    | .ok c => .ok (st, next, [], c)
  | .both =>
    if Gen.dualServerSide onServer data.length ctx.cfg.limit then
      let (st1, n1, c) := sidSave ctx st next data timeout isNew; .ok (st1, n1, [], c)
    else
      let (st1, cs) := if firstIs ctx.cookie Gen.dualSaveSidChar then sidClear ctx st else (st, [])
      match cookiesSave ctx data timeout false with
      | .error e => .error e
      | .ok c => .ok (st1, next, cs, c)

/-! ## `session_interface` -/

structure Sess where
  data : Data
  copy : Data            -- data_copy_
  timeoutVal : Int       -- timeout_val_
  how : Int              -- how_
  timeoutIn : Int        -- timeout_in_
  onServer : Bool        -- on_server_
  reset : Bool           -- reset_
deriving Repr

def keyT : Key := ofNats Gen.keyT
def keyH : Key := ofNats Gen.keyH
def keyS : Key := ofNats Gen.keyS

/-- `if(is_set(k)) x = get<int>(k)` -/
def getIntOr (env : Env) (d : Data) (k : Key) (dflt : Int) : Except Err Int :=
  match dfind k d with
  | none => .ok dflt
  | some e =>
    match env.readInt e.value with
    | none => .error .badCast
    | some n => .ok n

/-- the part of `load()` after `storage_->load` succeeded -/
def sessOfLoaded (cfg : Cfg) (env : Env) (to : Int) (ar : Bytes) : Except Err Sess :=
  match loadData ar with
  | .error e => .error e
  | .ok d =>
    match getIntOr env d keyT cfg.timeoutDef with
    | .error e => .error e
    | .ok tv =>
      match getIntOr env d keyH cfg.howDef with
      | .error e => .error e
      | .ok h =>
        match getIntOr env d keyS 0 with
        | .error e => .error e
        | .ok s => .ok ⟨d, d, tv, h, to, s % 2 == 1, false⟩     -- on_server_ is a 1-bit field

def emptySess (cfg : Cfg) : Sess := ⟨[], [], cfg.timeoutDef, cfg.howDef, 0, false, false⟩

/-- `session_interface::load` -/
def siLoad (ctx : Ctx) (st : Store) : Except Err Sess × Store × List SetCookie :=
  match apiLoad ctx st with
  | (none, st1, cs) => (.ok (emptySess ctx.cfg), st1, cs)
  | (some (to, ar), st1, cs) => (sessOfLoaded ctx.cfg ctx.env to ar, st1, cs)

/-- the mutators of the public interface -/
inductive Op where
  | set (k : Key) (v : Bytes)
  | erase (k : Key)
  | clear
  | expose (k : Key)
  | hide (k : Key)
  | age (t : Int)
  | defaultAge
  | expiration (h : Int)
  | defaultExpiration
  | onServer (b : Bool)
  | resetSession
deriving Repr

/-- `data_[k].value = v` -/
def setValue (k : Key) (v : Bytes) (d : Data) : Data :=
  match dfind k d with
  | some e => dinsert k { e with value := v } d
  | none => dinsert k ⟨v, false⟩ d

/-- `data_[k].exposed = b` (creates an empty entry when the key is missing) -/
def setExposed (k : Key) (b : Bool) (d : Data) : Data :=
  match dfind k d with
  | some e => dinsert k { e with exposed := b } d
  | none => dinsert k ⟨[], b⟩ d

def applyOp (cfg : Cfg) (env : Env) (s : Sess) : Op → Sess
  | .set k v => { s with data := setValue k v s.data }
  | .erase k => { s with data := derase k s.data }
  | .clear => { s with data := [] }
  | .expose k => { s with data := setExposed k true s.data }
  | .hide k => { s with data := setExposed k false s.data }
  | .age t => { s with timeoutVal := t, data := setValue keyT (env.showInt t) s.data }
  | .defaultAge => { s with timeoutVal := cfg.timeoutDef, data := derase keyT s.data }
  | .expiration h => { s with how := h, data := setValue keyH (env.showInt h) s.data }
  | .defaultExpiration => { s with how := cfg.howDef, data := derase keyH s.data }
  | .onServer b => { s with onServer := b, data := setValue keyS (env.showInt (if b then 1 else 0)) s.data }
  | .resetSession => { s with reset := true }

def applyOps (cfg : Cfg) (env : Env) (s : Sess) (ops : List Op) : Sess := ops.foldl (applyOp cfg env) s

def newSession (s : Sess) : Bool := (s.copy.isEmpty && !s.data.isEmpty) || s.reset

def cookieAgeOf (ctx : Ctx) (s : Sess) : Int := Gen.cookieAge s.how s.timeoutVal s.timeoutIn ctx.now (newSession s)
def sessionAgeOf (ctx : Ctx) (s : Sess) : Int := Gen.sessionAge s.how s.timeoutVal s.timeoutIn ctx.now (newSession s)

/-- first loop of `update_exposed`: cookies (re)set, and keys to remove, in map order.  The two conditions are
regenerated from the source (`Gen.exposedSetCond`, `Gen.exposedRmCond`). -/
def exposedPass1 (age : Int) (force : Bool) (copy : Data) : Data → List SetCookie × List Key
  | [] => ([], [])
  | (k, e) :: rest =>
    let (cs, rm) := exposedPass1 age force copy rest
    let p2 := dfind k copy
    if Gen.exposedSetCond e.exposed force p2.isNone ((p2.map (·.exposed)).getD false) ((p2.map (·.value)) != some e.value) then
      (mkCookie age e.value k :: cs, rm)
    else if Gen.exposedRmCond e.exposed force p2.isNone ((p2.map (·.exposed)).getD false) then (cs, k :: rm)
    else (cs, rm)

/-- second loop: exposed in the loaded copy, gone from the data (`Gen.exposedGoneCond`) -/
def exposedPass2 (data : Data) : Data → List Key
  | [] => []
  | (k, e) :: rest =>
    if Gen.exposedGoneCond e.exposed (dfind k data).isNone then k :: exposedPass2 data rest else exposedPass2 data rest

/-- `remove_unknown_cookies`: request cookies `<prefix>_<key>` whose key is not an exposed entry (`Gen.exposedUnknownCond`) -/
def exposedPass3 (data : Data) : List Key → List Key
  | [] => []
  | k :: rest =>
    if Gen.exposedUnknownCond (((dfind k data).map (·.exposed)).getD false) (dfind k data).isNone then k :: exposedPass3 data rest
    else exposedPass3 data rest

/-- `session_interface::update_exposed(force)` -/
def updateExposed (ctx : Ctx) (s : Sess) (force : Bool) : List SetCookie :=
  let (cs, rm1) := exposedPass1 (cookieAgeOf ctx s) force s.copy s.data
  let removed := (rm1 ++ exposedPass2 s.data s.copy ++ exposedPass3 s.data ctx.names).foldl (fun acc k => kinsert k acc) []
  cs ++ removed.map (fun k => mkCookie (-1) [] k)

/-! ### the renewal test as the machine computes it: `delta < timeout_val_ * 0.1` in binary64

`save()` compares an `int64_t` with the product of an `int` and the `double` literal.  `siSave` below uses the exact
rational comparison; `doubleLess` is the exact model of the floating-point computation (integers converted exactly,
the literal is the binary64 `Gen.renewMant * 2^-Gen.renewShift`, one correctly rounded multiplication, round to
nearest even), and `Props.renew_double_exact` proves that both agree for every `int` multiplicand. -/

/-- the multiple of `P` nearest to `N`, ties to the even multiple -/
def roundToMultiple (N P : Nat) : Nat :=
  if 2 * (N % P) < P then N / P * P
  else if P < 2 * (N % P) then (N / P + 1) * P
  else if N / P % 2 = 0 then N / P * P else (N / P + 1) * P

/-- spacing of binary64 numbers at the magnitude of the integer `N` (53 significant bits) -/
def ulp53 (N : Nat) : Nat := 2 ^ (Nat.log2 N + 1 - 53)

/-- round the non-negative integer `N` to 53 significant bits, to nearest even -/
def fl53 (N : Nat) : Nat := roundToMultiple N (ulp53 N)

/-- `T * 0.1` in binary64, scaled by `2^Gen.renewShift` (an integer for every `int` `T`) -/
def mulLit (T : Int) : Int :=
  if 0 ≤ T then (fl53 (T.toNat * Gen.renewMant) : Int) else -(fl53 ((-T).toNat * Gen.renewMant) : Int)

/-- `delta < T * 0.1` as evaluated in binary64 (`delta` converted exactly: |delta| < 2^53) -/
def doubleLess (delta T : Int) : Bool := decide (delta * 2 ^ Gen.renewShift < mulLit T)

inductive SaveKind where
  | cleared      -- data empty: storage cleared
  | untouched    -- unchanged and no renewal due: nothing written
  | written (token : Bytes)     -- storage_->save called; `token` = the value left in `temp_cookie_`
deriving DecidableEq, Repr

/-- `session_interface::save` (csrf disabled) -/
def siSave (ctx : Ctx) (s : Sess) (st : Store) (next : Nat) : Except Err (Store × Nat × List SetCookie × SaveKind) :=
  if s.data.isEmpty then
    let (st1, cs1) := if ctx.cookie.isEmpty then (st, []) else apiClear ctx st
    .ok (st1, next, cs1 ++ updateExposed ctx s true, .cleared)
  else
    let unchanged := decide (s.data = s.copy) && !newSession s
    if unchanged && s.how == Gen.howFixed then .ok (st, next, [], .untouched)
    else if unchanged && (s.how == Gen.howRenew || s.how == Gen.howBrowser)
        && decide (Gen.delta ctx.now s.timeoutVal s.timeoutIn * Gen.renewDen < Gen.renewBase s.timeoutVal ctx.cfg.timeoutDef * Gen.renewNum) then
      .ok (st, next, [], .untouched)
    else
      match saveData s.data with
      | .error e => .error e
      | .ok ar =>
        match apiSave ctx st next ar (sessionAgeOf ctx s) (newSession s) s.onServer with
        | .error e => .error e
        | .ok (st1, n1, cs1, temp) =>
          .ok (st1, n1, cs1 ++ [mkCookie (cookieAgeOf ctx s) temp []] ++ updateExposed ctx s unchanged, .written temp)

/-! ## one request: load, mutate, save -/

structure Reads where
  data : Data
  age : Int
  how : Int
  onServer : Bool
deriving DecidableEq, Repr

def readsOf (s : Sess) : Reads := ⟨s.data, s.timeoutVal, s.how, s.onServer⟩

structure ReqOut where
  store : Store
  next : Nat
  reads : Except Err Reads                -- what the request saw after `load()`
  saved : Except Err SaveKind             -- outcome of `save()` (`.error` also when `load()` threw)
  cookies : List SetCookie                -- every cookie handed to the adapter, in order

def request (ctx : Ctx) (st : Store) (next : Nat) (ops : List Op) : ReqOut :=
  match siLoad ctx st with
  | (.error e, st1, cs) => ⟨st1, next, .error e, .error e, cs⟩
  | (.ok s0, st1, cs) =>
    let s := applyOps ctx.cfg ctx.env s0 ops
    match siSave ctx s st1 next with
    | .error e => ⟨st1, next, .ok (readsOf s0), .error e, cs⟩
    | .ok (st2, n2, cs2, k) => ⟨st2, n2, .ok (readsOf s0), .ok k, cs ++ cs2⟩

/-! ## two loads on one object: `set_cookie_adapter_and_reload` -/

/-- `set_cookie_adapter_and_reload(adapter)`: `loaded_ = 0; return load();` on the same object.  `load()` clears
`data_` and `data_copy_` and resets `timeout_val_`, `how_`, `saved_`, `on_server_` before it asks the storage, so what
the object holds afterwards comes from the new adapter's cookie alone; the one member a reload keeps is `reset_`. -/
def reloadSess (prev loaded : Sess) : Sess := { loaded with reset := prev.reset }

structure Req2Out where
  out : ReqOut                     -- `reads` = what the object shows after the reload
  reads1 : Except Err Reads        -- what it showed after the first load

/-- one object: load with `ctx1`'s cookie, mutate (`ops1`), reload with `ctx2`'s cookie, mutate (`ops2`), save -/
def request2 (ctx1 ctx2 : Ctx) (st : Store) (next : Nat) (ops1 ops2 : List Op) : Req2Out :=
  match siLoad ctx1 st with
  | (.error e, st1, cs) => ⟨⟨st1, next, .error e, .error e, cs⟩, .error e⟩
  | (.ok s1, st1, cs1) =>
    let s1' := applyOps ctx1.cfg ctx1.env s1 ops1
    match siLoad ctx2 st1 with
    | (.error e, st2, cs2) => ⟨⟨st2, next, .error e, .error e, cs1 ++ cs2⟩, .ok (readsOf s1)⟩
    | (.ok s2, st2, cs2) =>
      let s := applyOps ctx2.cfg ctx2.env (reloadSess s1' s2) ops2
      match siSave ctx2 s st2 next with
      | .error e => ⟨⟨st2, next, .ok (readsOf s2), .error e, cs1 ++ cs2⟩, .ok (readsOf s1)⟩
      | .ok (st3, n3, cs3, k) => ⟨⟨st3, n3, .ok (readsOf s2), .ok k, cs1 ++ cs2 ++ cs3⟩, .ok (readsOf s1)⟩

/-! ## the browser: a cookie jar -/

structure Jar where
  cookie : Bytes                     -- value of the session cookie ("" = none)
  exposed : List (Key × Bytes)       -- `<prefix>_<key>` cookies, sorted by key
deriving DecidableEq, Repr

def jinsert (k : Key) (v : Bytes) : List (Key × Bytes) → List (Key × Bytes)
  | [] => [(k, v)]
  | (k', v') :: rest =>
    if bytesLt k k' then (k, v) :: (k', v') :: rest
    else if k' = k then (k, v) :: rest
    else (k', v') :: jinsert k v rest

def jerase (k : Key) : List (Key × Bytes) → List (Key × Bytes)
  | [] => []
  | (k', v') :: rest => if k' = k then jerase k rest else (k', v') :: jerase k rest

/-- what a browser does with one `Set-Cookie` -/
def Jar.apply (j : Jar) (c : SetCookie) : Jar :=
  match c.key with
  | [] => if c.age < 0 then { j with cookie := [] } else { j with cookie := c.value }
  | _ :: _ => if c.age < 0 then { j with exposed := jerase c.key j.exposed } else { j with exposed := jinsert c.key c.value j.exposed }

def Jar.applyAll (j : Jar) (cs : List SetCookie) : Jar := cs.foldl Jar.apply j

def Jar.empty : Jar := ⟨[], []⟩

end Cppcms.C06
