import Cppcms.C06.RefineD
/-!
# C06 refinement, layer 14: `JarOK`, own / foreign requests, histories of one honest browser among others
-/
namespace Cppcms.C06
open Cppcms

/-- what must hold of an honest browser's jar between requests -/
structure JarOK (cfg : Cfg) (env : Env) (st : Store) (next : Nat) (now : Int) (J : Jar) : Prop where
  adm : Admissible env J.cookie
  known : TokKnown env next J.cookie
  names : KeysNE J.exposed
  step : ∀ t, now ≤ t → ∀ ss, Spec.alive t (absTok cfg env st.recs J.cookie) = some ss →
    (∀ k, k ≠ [] → jfind k J.exposed = specExposed ss.data k) ∧ (∀ p ∈ ss.data, p.1 ≠ [])

theorem absTok_nil (cfg : Cfg) (env : Env) (recs : List Rec) : absTok cfg env recs [] = none := by
  have hv : validSid [] = none := by simp [validSid, Gen.sidCookieLen]
  simp only [absTok, tokPayload]
  rcases loc_cases cfg.loc with hl | hl | hl <;> rw [hl] <;> simp [sidPayload, hv, cookiePayload, firstIs]

theorem jarOK_nil (cfg : Cfg) (env : Env) (st : Store) (next : Nat) (now : Int) (J : Jar) (hc : J.cookie = []) (hn : KeysNE J.exposed) :
    JarOK cfg env st next now J := by
  refine ⟨?_, ?_, hn, ?_⟩
  · intro p hp; rw [hc] at hp; simp [cookiePayload] at hp
  · rw [hc]; exact Or.inr (Or.inr (fun n e => by cases e))
  · intro t _ ss h; rw [hc, absTok_nil] at h; simp [Spec.alive] at h

theorem seq_some {a : Option Spec.SSess} {y : Spec.SSess} (h : SEq a (some y)) : ∃ x, a = some x ∧ MapEq x.data y.data := by
  cases a with
  | none => simp [SEq] at h
  | some x => exact ⟨x, rfl, h.1⟩

theorem mapEq_keys {a b : Spec.SData} (h : MapEq a b) (hb : ∀ p ∈ b, p.1 ≠ []) : ∀ p ∈ a, p.1 ≠ [] := by
  intro p hp
  have h1 := mem_lookup_isSome hp
  rw [h p.1] at h1
  cases hl : Spec.lookup p.1 b with
  | none => rw [hl] at h1; cases h1
  | some v => exact hb (p.1, v) (lookup_some_mem hl)

/-- transfer along a change of the store that leaves what the jar's cookie denotes alone -/
theorem jarOK_frame (cfg : Cfg) (env : Env) (st st' : Store) (next next' : Nat) (now now' : Int) (J : Jar)
    (h : JarOK cfg env st next now J) (hn : next ≤ next') (ht : now ≤ now')
    (hf : ∀ t, now' ≤ t → SEq (Spec.alive t (absTok cfg env st'.recs J.cookie)) (Spec.alive t (absTok cfg env st.recs J.cookie))) :
    JarOK cfg env st' next' now' J := by
  refine ⟨h.adm, tokKnown_mono h.known hn, h.names, ?_⟩
  intro t htt ss' hss
  have := hf t htt
  rw [hss] at this
  obtain ⟨ss, h1, h2⟩ := seq_some (SEq.symm' this)
  obtain ⟨a, b⟩ := h.step t (by omega) ss h1
  exact ⟨fun k hk => by rw [a k hk]; exact specExposed_congr h2 k, mapEq_keys h2.symm b⟩

theorem apiClear_cookies (ctx : Ctx) (st : Store) : (apiClear ctx st).2 = clearSessionCookie ctx := by
  simp only [apiClear]
  have hs : (sidClear ctx st).2 = clearSessionCookie ctx := by simp only [sidClear]; cases validSid ctx.cookie <;> rfl
  cases ctx.cfg.loc with
  | server => exact hs
  | client => rfl
  | both => simp only; split; rfl; exact hs

theorem apiSave_admissible (ctx : Ctx) (st : Store) (next : Nat) (data : Bytes) (timeout : Int) (isNew onServer : Bool)
    (st1 : Store) (n1 : Nat) (cs : List SetCookie) (tok : Bytes)
    (h : apiSave ctx st next data timeout isNew onServer = .ok (st1, n1, cs, tok))
    (he : EnvOK ctx.env) (hw : WFpayload data) (ha : Admissible ctx.env ctx.cookie) : Admissible ctx.env tok := by
  rcases apiSave_token ctx st next data timeout isNew onServer st1 n1 cs tok h with ⟨h1, _⟩ | ⟨h1, _⟩ | ⟨h1, _⟩
  · intro p hp
    have e : ofNats Gen.cookiesSavePrefix ++ ctx.env.enc timeout data = 67 :: ctx.env.enc timeout data := rfl
    rw [h1, e] at hp
    simp only [cookiePayload, Gen.cookiesPrefix] at hp
    simp [he.dec_enc] at hp
    rw [← hp]; exact hw
  · intro p hp
    rw [h1] at hp
    simp [cookiePayload, Gen.cookiesPrefix, Gen.sidPrefix] at hp
  · rw [h1]; exact ha


/-- the browser's own request: it presents its jar's cookie and reports the names of its exposed cookies -/
def ownCtx (cfg : Cfg) (env : Env) (now : Int) (J : Jar) : Ctx := ⟨cfg, env, now, J.cookie, J.exposed.map (·.1)⟩

theorem jar_load_only (cfg : Cfg) (env : Env) (st : Store) (next : Nat) (now0 now : Int) (J : Jar) (cs0 : List SetCookie) (st1 : Store)
    (hj : JarOK cfg env st next now0 J) (hnow : now0 ≤ now)
    (hcs : cs0 = [] ∨ (cs0 = [mkCookie (-1) [] []] ∧ J.cookie ≠ []))
    (hf : ∀ t, now ≤ t → ∀ c2, aliveTok cfg env t st1.recs c2 = aliveTok cfg env t st.recs c2) :
    JarOK cfg env st1 next now (J.applyAll cs0) := by
  rcases hcs with rfl | ⟨rfl, _⟩
  · apply jarOK_frame cfg env st st1 next next now0 now J hj (Nat.le_refl _) hnow
    intro t ht
    rw [alive_absTok, alive_absTok, hf t ht]; exact SEq.rfl' _
  · exact jarOK_nil cfg env st1 next now _ rfl hj.names

/-- **One own request keeps the jar in step.** -/
theorem own_request_jar (cfg : Cfg) (env : Env) (st : Store) (next : Nat) (now0 now : Int) (J : Jar) (ops : List Op)
    (he : EnvOK env) (hi : StoreInv env st next) (hj : JarOK cfg env st next now0 J) (hnow : now0 ≤ now)
    (hops : ∀ op ∈ ops, opKeyNE op) :
    JarOK cfg env (request (ownCtx cfg env now J) st next ops).store (request (ownCtx cfg env now J) st next ops).next now
      (J.applyAll (request (ownCtx cfg env now J) st next ops).cookies) := by
  have hwf := presented_wf cfg env st next now J.cookie hi hj.adm
  have hls := siLoad_spec (ownCtx cfg env now J) st hwf
  have hck := siLoad_cookies (ownCtx cfg env now J) st
  have hst := siLoad_store (ownCtx cfg env now J) st
  have hfr := store_frame_of_load (ownCtx cfg env now J) st hi.nodup
  have hinv1 := siLoad_inv (ownCtx cfg env now J) st next hi
  rcases hL : siLoad (ownCtx cfg env now J) st with ⟨r, st1, cs0⟩
  rw [hL] at hck hst hinv1 hls
  simp only at hck hst hinv1 hls
  have hf1 : ∀ t, now ≤ t → ∀ c2, aliveTok cfg env t st1.recs c2 = aliveTok cfg env t st.recs c2 := by
    intro t ht c2; rw [hst]; exact hfr t ht c2
  have hload := jar_load_only cfg env st next now0 now J cs0 st1 hj hnow hck hf1
  have hexp0 : (J.applyAll cs0).exposed = J.exposed := by
    rcases hck with rfl | ⟨rfl, _⟩ <;> rfl
  cases r with
  | error e =>
    have : request (ownCtx cfg env now J) st next ops = ⟨st1, next, .error e, .error e, cs0⟩ := by simp [request, hL]
    rw [this]; exact hload
  | ok s0 =>
    obtain ⟨_, hq2, hq3⟩ := request_of_load_ok (ownCtx cfg env now J) st next ops s0 st1 cs0 hL
    -- the loaded session, related to what the jar's cookie denotes
    have hloaded : Sorted s0.data ∧ s0.copy = s0.data ∧ DataKeysNE s0.data ∧
        (∀ k, k ≠ [] → ∀ e, dfind k s0.copy = some e → e.exposed = true →
          jfind k J.exposed = if e.value.isEmpty then none else some e.value) := by
      cases hsl : Spec.specLoad (numOf env) (dfOf cfg) (Spec.alive now (absTok cfg env st.recs J.cookie)) with
      | error e => simp only [ownCtx] at hls; rw [hsl] at hls; cases hls
      | ok w0 =>
        simp only [ownCtx] at hls
        rw [hsl] at hls
        obtain ⟨s0', e1, _, e3, e4, e5⟩ := hls
        cases e1
        refine ⟨e3, e4, ?_, ?_⟩
        · cases hcur : Spec.alive now (absTok cfg env st.recs J.cookie) with
          | none => rw [hcur] at e5; simp only at e5; rw [← e4, e5]; intro p hp; cases hp
          | some cs' =>
            rw [hcur] at e5
            obtain ⟨_, hk⟩ := hj.step now hnow cs' hcur
            intro p hp
            rw [← e4] at hp
            have : (p.1, p.2.value, p.2.exposed) ∈ cs'.data := by
              rw [e5.1]; exact List.mem_map.mpr ⟨p, hp, rfl⟩
            exact hk _ this
        · intro k hk e hd hex
          cases hcur : Spec.alive now (absTok cfg env st.recs J.cookie) with
          | none => rw [hcur] at e5; simp only at e5; rw [e5] at hd; cases hd
          | some cs' =>
            rw [hcur] at e5
            obtain ⟨hjs, _⟩ := hj.step now hnow cs' hcur
            rw [hjs k hk, e5.1, specExposed_toS]
            simp only [exposedLookup, hd, hex, Bool.true_and]
            cases e.value.isEmpty <;> rfl
    obtain ⟨hs0sorted, hs0copy, hs0keys, hs0step⟩ := hloaded
    have hcopy := (applyOps_copy cfg env ops s0).1
    have hsd := applyOps_sorted cfg env ops s0 hs0sorted
    have hkeys := applyOps_keysNE cfg env ops s0 hops hs0keys
    cases hS : siSave (ownCtx cfg env now J) (applyOps cfg env s0 ops) st1 next with
    | error e =>
      obtain ⟨_, e2, e3, e4⟩ := hq2 e hS
      rw [e2, e3, e4]; exact hload
    | ok res =>
      obtain ⟨st2, n2, cs2, kind⟩ := res
      obtain ⟨esaved, e2, e3, e4⟩ := hq3 st2 n2 cs2 kind hS
      rw [e2, e3, e4, applyAll_append]
      -- names of every cookie `update_exposed` may send are non-empty
      have hupd : ∀ force, ∀ c ∈ updateExposed (ownCtx cfg env now J) (applyOps cfg env s0 ops) force, c.key ≠ [] := by
        intro force c hc
        rcases updateExposed_keys _ _ force c hc with ⟨p, hp, e⟩ | ⟨p, hp, e⟩ | h
        · rw [e]; exact hkeys p hp
        · rw [e]; rw [hcopy, hs0copy] at hp; exact hs0keys p hp
        · simp only [ownCtx, List.mem_map] at h
          obtain ⟨q, hq, e⟩ := h
          rw [← e]; exact hj.names q hq
      cases kind with
      | untouched =>
        obtain ⟨rfl, rfl, rfl⟩ := siSave_untouched_inv _ _ _ _ _ _ _ hS
        exact hload
      | cleared =>
        obtain ⟨_, rfl, hcase⟩ := siSave_cleared_inv _ _ _ _ _ _ _ hS
        apply jarOK_nil
        · rcases hcase with ⟨hc, _, rfl⟩ | ⟨hc, _, rfl⟩
          · rw [cookie_applyAll_ne _ _ (hupd true)]
            have hJ : J.cookie = [] := hc
            rcases hck with rfl | ⟨_, h⟩
            · exact hJ
            · exact absurd hJ h
          · rw [applyAll_append, cookie_applyAll_ne _ _ (hupd true), apiClear_cookies]
            have hne : (ownCtx cfg env now J).cookie.isEmpty = false := by
              cases h : (ownCtx cfg env now J).cookie with
              | nil => exact absurd h hc
              | cons x xs => rfl
            simp only [clearSessionCookie, hne]
            rfl
        · exact keysNE_applyAll _ _ (by rw [hexp0]; exact hj.names)
      | written tok =>
        obtain ⟨ar, cs1, har, hdne, hap, rfl⟩ := siSave_written_inv _ _ _ _ _ _ _ _ hS
        have hk1 : ∀ c ∈ cs1, c.key = [] := apiSave_keys _ _ _ _ _ _ _ _ _ _ _ hap
        have hlim : ∀ q ∈ (applyOps cfg env s0 ops).data, withinLimits q := fun q hq =>
          Classical.byContradiction fun hn => by
            obtain ⟨e, he'⟩ := (saveData_throws_iff _).mpr ⟨q, hq, hn⟩
            rw [har] at he'; cases he'
        have hwfar : WFpayload ar := ⟨_, hsd, hlim, har⟩
        by_cases hage : 0 ≤ cookieAgeOf (ownCtx cfg env now J) (applyOps cfg env s0 ops)
        · -- the browser now holds `tok`
          have hnames : KeysNE (((J.applyAll cs0).applyAll (cs1 ++ [mkCookie (cookieAgeOf (ownCtx cfg env now J) (applyOps cfg env s0 ops)) tok []] ++
              updateExposed (ownCtx cfg env now J) (applyOps cfg env s0 ops) (decide ((applyOps cfg env s0 ops).data = (applyOps cfg env s0 ops).copy) && !newSession (applyOps cfg env s0 ops)))).exposed) :=
            keysNE_applyAll _ _ (by rw [hexp0]; exact hj.names)
          have htokne : tok ≠ [] := by
            rcases apiSave_token _ _ _ _ _ _ _ _ _ _ _ hap with ⟨h1, _⟩ | ⟨h1, _⟩ | ⟨h1, h2, _⟩
            · rw [h1]; exact fun e => by cases e
            · rw [h1]; exact fun e => by cases e
            · rw [h1]; intro e; simp only [ownCtx] at e h2; rw [e] at h2; simp [validSid, Gen.sidCookieLen] at h2
          have hcookie : ((J.applyAll cs0).applyAll (cs1 ++ [mkCookie (cookieAgeOf (ownCtx cfg env now J) (applyOps cfg env s0 ops)) tok []] ++
              updateExposed (ownCtx cfg env now J) (applyOps cfg env s0 ops) (decide ((applyOps cfg env s0 ops).data = (applyOps cfg env s0 ops).copy) && !newSession (applyOps cfg env s0 ops)))).cookie = tok := by
            rw [applyAll_append, cookie_applyAll_ne _ _ (hupd _), applyAll_append]
            have hv : tok.isEmpty = false := by cases tok with | nil => exact absurd rfl htokne | cons x xs => rfl
            simp only [Jar.applyAll, List.foldl_cons, List.foldl_nil, Jar.apply, mkCookie, hv, Bool.false_eq_true, if_false]
            rw [if_neg (by omega)]
          refine ⟨?_, ?_, hnames, ?_⟩
          · rw [hcookie]; exact apiSave_admissible _ _ _ _ _ _ _ _ _ _ _ hap he hwfar hj.adm
          · rw [hcookie]
            have := issued_token_known (ownCtx cfg env now J) st next ops tok hi hj.adm esaved
            rw [e3] at this; exact this
          · intro t ht ss hss
            rw [hcookie] at hss
            have hal := apiSave_alive (ownCtx cfg env now J) st1 next ar _ _ _ st2 n2 cs1 tok hap he hinv1.nodup t ht tok
            rw [if_pos rfl] at hal
            rw [alive_absTok] at hss
            simp only [ownCtx] at hal
            rw [hal] at hss
            obtain ⟨bs, hb1, hb2⟩ := loadData_saveData _ hsd hlim
            rw [har] at hb1; cases hb1
            have hss' : ss.data = toS (applyOps cfg env s0 ops).data := by
              simp only [aliveP] at hss
              split at hss
              · simp only [Option.bind_some, sessOfPayload, hb2, Option.some.injEq] at hss
                rw [← hss]
              · simp at hss
            refine ⟨?_, ?_⟩
            · intro k hk
              rw [hss', specExposed_toS]
              exact siSave_exposed_in_step (ownCtx cfg env now J) (applyOps cfg env s0 ops) st1 next st2 n2 _ (.written tok) hS (by intro e; cases e)
                (J.applyAll cs0) k hk hsd (by rw [hcopy, hs0copy]; exact hs0sorted) hage
                (by rw [hexp0]; intro v hv; exact jfind_some_mem hv)
                (by rw [hexp0, hcopy]; exact hs0step k hk)
            · intro p hp
              rw [hss'] at hp
              obtain ⟨q, hq, rfl⟩ := List.mem_map.mp hp
              exact hkeys q hq
        · -- negative cookie age: the session cookie is deleted
          apply jarOK_nil
          · rw [applyAll_append, cookie_applyAll_ne _ _ (hupd _), applyAll_append]
            simp only [Jar.applyAll, List.foldl_cons, List.foldl_nil, Jar.apply, mkCookie]
            have : (if tok.isEmpty = true then (-1 : Int) else cookieAgeOf (ownCtx cfg env now J) (applyOps cfg env s0 ops)) < 0 := by
              split <;> omega
            rw [if_pos this]
          · exact keysNE_applyAll _ _ (by rw [hexp0]; exact hj.names)


/-- a request by somebody else (any cookie but the jar's) leaves the jar in step -/
theorem other_request_jar (cfg : Cfg) (env : Env) (st : Store) (next : Nat) (now0 : Int) (J : Jar) (s : Step)
    (he : EnvOK env) (bound : Nat) (hf : Fresh env bound) (hb : (request (stepCtx cfg env s) st next s.ops).next ≤ bound)
    (hi : StoreInv env st next) (hj : JarOK cfg env st next now0 J) (hnow : now0 ≤ s.now)
    (ha : Admissible env s.cookie) (hne : s.cookie ≠ J.cookie) :
    JarOK cfg env (request (stepCtx cfg env s) st next s.ops).store (request (stepCtx cfg env s) st next s.ops).next s.now J := by
  apply jarOK_frame cfg env st _ next _ now0 s.now J hj (request_inv (stepCtx cfg env s) st next s.ops hi ha).2 hnow
  intro t ht
  exact request_frame (stepCtx cfg env s) st next s.ops J.cookie he bound hf hb hi ha (fun e => hne e.symm) hj.known t ht

/-! ## histories of one honest browser among others -/

inductive Ev where
  | own (now : Int) (ops : List Op)     -- the browser itself: presents its jar
  | other (s : Step)                    -- anybody else, presenting anything but the browser's current cookie

def Ev.now : Ev → Int
  | .own n _ => n
  | .other s => s.now

structure BState where
  st : Store
  next : Nat
  jar : Jar

def stepB (cfg : Cfg) (env : Env) (b : BState) : Ev → BState
  | .own now ops =>
    ⟨(request (ownCtx cfg env now b.jar) b.st b.next ops).store, (request (ownCtx cfg env now b.jar) b.st b.next ops).next,
     b.jar.applyAll (request (ownCtx cfg env now b.jar) b.st b.next ops).cookies⟩
  | .other s => ⟨(request (stepCtx cfg env s) b.st b.next s.ops).store, (request (stepCtx cfg env s) b.st b.next s.ops).next, b.jar⟩

def runB (cfg : Cfg) (env : Env) : BState → List Ev → BState
  | b, [] => b
  | b, e :: rest => runB cfg env (stepB cfg env b e) rest

/-- the clock never goes back, at most `bound` identifiers are drawn, the browser's own operations use non-empty keys,
everybody else presents admissible cookies different from the browser's current one -/
def HistB (cfg : Cfg) (env : Env) (bound : Nat) : Int → BState → List Ev → Prop
  | _, _, [] => True
  | now0, b, e :: rest =>
    now0 ≤ e.now ∧ (stepB cfg env b e).next ≤ bound ∧
    (match e with
     | .own _ ops => ∀ op ∈ ops, opKeyNE op
     | .other s => Admissible env s.cookie ∧ s.cookie ≠ b.jar.cookie) ∧
    HistB cfg env bound e.now (stepB cfg env b e) rest

def lastNowB : Int → List Ev → Int
  | now0, [] => now0
  | _, e :: rest => lastNowB e.now rest

theorem jar_in_step_run (cfg : Cfg) (env : Env) (bound : Nat) (now0 : Int) (b : BState) (evs : List Ev)
    (he : EnvOK env) (hf : Fresh env bound) (hi : StoreInv env b.st b.next) (hj : JarOK cfg env b.st b.next now0 b.jar)
    (h : HistB cfg env bound now0 b evs) :
    StoreInv env (runB cfg env b evs).st (runB cfg env b evs).next ∧
    JarOK cfg env (runB cfg env b evs).st (runB cfg env b evs).next (lastNowB now0 evs) (runB cfg env b evs).jar := by
  induction evs generalizing b now0 with
  | nil => exact ⟨hi, hj⟩
  | cons e rest ih =>
    obtain ⟨h1, h2, h3, h4⟩ := h
    cases e with
    | own now ops =>
      have hi' := (request_inv (ownCtx cfg env now b.jar) b.st b.next ops hi hj.adm).1
      have hj' := own_request_jar cfg env b.st b.next now0 now b.jar ops he hi hj h1 h3
      exact ih now _ hi' hj' h4
    | other s =>
      obtain ⟨ha, hne⟩ := h3
      have hi' := (request_inv (stepCtx cfg env s) b.st b.next s.ops hi ha).1
      have hj' := other_request_jar cfg env b.st b.next now0 b.jar s he bound hf h2 hi hj h1 ha hne
      exact ih s.now _ hi' hj' h4

end Cppcms.C06
