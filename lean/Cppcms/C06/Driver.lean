import Cppcms.Common
import Cppcms.C06.Model
import Cppcms.C06.Spec
/-!
Line-protocol driver for C06 (stateful: one history = a `new` line followed by `req` / `gc` lines).

    new <client|server|both> <memory|files> <how 0..2> <timeout> <client_size_limit>
    req <browser> <now> <jar|none|raw:HEX|old:J|steal:B> <op>*
    gc <now>
  ops: set:K:V erase:K clear expose:K hide:K age:N defage how:N defhow srv:0|1 reset
       (K hex, V hex or rHHxCOUNT = COUNT copies of byte HH)

Answer to `req` (the harness prints the same for the real code):
    P <presented> R <reads> S <saved> C <set-cookie calls> J <jar> T <storage> A <storage calls>
Session-cookie values and storage keys are canonicalised by first occurrence (`I#3`, `C#5`); a value the
server never issued is printed raw (`x…`).

`J <case line> ;; <implementation's answer>` lines evaluate the property predicate of `Spec.lean`
(token-level session semantics) on what the implementation printed; answer `1` or `0 <reason>`.
With the argument `trace` the `req` answers are replaced by the branch taken (coverage statistics).
-/
open Cppcms Cppcms.C06

/-! ### externals, instantiated for execution -/

def hexNibble (n : Nat) : UInt8 := UInt8.ofNat (if n < 10 then 48 + n else 87 + n)

/-- the n-th fresh identifier: `n` as 32 lower-case hex digits -/
def sidOfNat (n : Nat) : Bytes :=
  (List.range 32).map fun i => hexNibble (n / 16 ^ (31 - i) % 16)

/-- stand-in for time-stamp prefix + encryptor + base64url: `~<deadline>.<data>`; `~` is outside the
base64url alphabet, so nothing the case generator sends as a forged cookie is in the range of `enc` -/
def encStd (to : Int) (d : Bytes) : Bytes := 126 :: (Spec.showDec to ++ 46 :: d)

/-- the deadline is a 64-bit `time_t`: plain decimal, no `int` range check -/
def readTime (num : Bytes) : Option Int :=
  match num with
  | 45 :: ds => if ds.isEmpty then none else (Spec.digitsVal ds 0).map fun n => -(n : Int)
  | ds => if ds.isEmpty then none else (Spec.digitsVal ds 0).map fun n => (n : Int)

def decStd (s : Bytes) : Option (Int × Bytes) :=
  match s with
  | 126 :: r =>
    let num := r.takeWhile (· != 46)
    match r.dropWhile (· != 46), readTime num with
    | _ :: d, some t => some (t, d)
    | _, _ => none
  | _ => none

def envStd : Env := ⟨sidOfNat, encStd, decStd, Spec.showDec, Spec.readDec⟩

/-! ### printing -/

def adler (bs : Bytes) : Nat :=
  let (a, b) := bs.foldl (fun (p : Nat × Nat) c => let a := (p.1 + c.toNat) % 65521; (a, (p.2 + a) % 65521)) (1, 0)
  b * 65536 + a

/-- long byte strings are abbreviated: `z<length>.<first 16 bytes>.<adler32>` -/
def abbr (bs : Bytes) : String :=
  if bs.length ≤ 48 then toHex bs else s!"z{bs.length}.{toHex (bs.take 16)}.{adler bs}"

def idxOf (v : Bytes) : List Bytes → Nat → Option Nat
  | [], _ => none
  | x :: rest, i => if x = v then some i else idxOf v rest (i + 1)

def canonTok (issued : List Bytes) (v : Bytes) : String :=
  match v with
  | [] => "-"
  | c :: _ =>
    match idxOf v issued 0 with
    | some i => s!"{Char.ofNat c.toNat}#{i}"
    | none => "x" ++ toHex v

def canonKey (issued : List Bytes) (k : Bytes) : String :=
  match idxOf (73 :: k) issued 0 with
  | some i => s!"I#{i}"
  | none => "x" ++ toHex k

def errStr : Err → String
  | .keyTooLong => "keyTooLong" | .valueTooLong => "valueTooLong" | .formatPack => "formatPack"
  | .formatData => "formatData" | .badCast => "badCast" | .cookiesOnServer => "cookiesOnServer"

def joinWith (sep : String) (l : List String) : String := sep.intercalate l

def readsStr (r : Except Err Reads) : String :=
  match r with
  | .error e => "err:" ++ errStr e
  | .ok r =>
    let es := r.data.map fun (k, e) => s!"{toHex k}={abbr e.value}:{boolStr e.exposed}"
    s!"{r.age},{r.how},{boolStr r.onServer},[{joinWith ";" es}]"

def ageStr (a : Int) : String := if a < 0 then "del" else if a == 0 then "ses" else toString a

def cookieStr (issued : List Bytes) (c : SetCookie) : String :=
  match c.key with
  | [] => s!"@={canonTok issued c.value}:{ageStr c.age}"
  | _ => s!"{toHex c.key}={abbr c.value}:{ageStr c.age}"

def jarStr (issued : List Bytes) (j : Jar) : String :=
  s!"{canonTok issued j.cookie},[{joinWith ";" (j.exposed.map fun (k, v) => s!"{toHex k}={abbr v}")}]"

def insertSorted (s : String) : List String → List String
  | [] => [s]
  | x :: xs => if s < x then s :: x :: xs else x :: insertSorted s xs

def sortStrings (l : List String) : List String := l.foldl (fun acc s => insertSorted s acc) []

/-- `live = some now`: only records whose deadline has not passed (several network nodes: each node's memory
storage collects expired records on its own schedule, so only the visible records are compared) -/
def storeStr (issued : List Bytes) (st : Store) (live : Option Int := none) : String :=
  let recs : List Rec := match live with | some now => st.recs.filter (fun (r : Rec) => decide (now ≤ r.timeout)) | none => st.recs
  "[" ++ joinWith ";" (sortStrings (recs.map fun (r : Rec) => s!"{canonKey issued r.sid}@{r.timeout}={abbr r.data}")) ++ "]"

def opChar : StOp → String
  | .load => "l" | .save => "s" | .remove => "r"

def logStr (issued : List Bytes) (l : List (StOp × Bytes)) : String :=
  "[" ++ joinWith ";" (l.reverse.map fun (o, k) => opChar o ++ canonKey issued k) ++ "]"

/-! ### parsing -/

def sdrop (s : String) (n : Nat) : String := String.ofList (s.toList.drop n)
def sdropEnd (s : String) (n : Nat) : String := String.ofList (s.toList.take (s.length - n))

def parseInt (s : String) : Option Int :=
  if s.startsWith "-" then (sdrop s 1).toNat?.map fun n => -(n : Int) else s.toNat?.map fun n => (n : Int)

def parseVal (s : String) : Option Bytes :=
  if s.startsWith "r" then
    match (sdrop s 1).splitOn "x" with
    | [hh, cnt] =>
      match parseHex hh, cnt.toNat? with
      | some [b], some n => some (List.replicate n b)
      | _, _ => none
    | _ => none
  else parseHex s

def parseOp (s : String) : Option Op :=
  match s.splitOn ":" with
  | ["set", k, v] => do let k ← parseHex k; let v ← parseVal v; pure (.set k v)
  | ["erase", k] => (parseHex k).map .erase
  | ["clear"] => some .clear
  | ["expose", k] => (parseHex k).map .expose
  | ["hide", k] => (parseHex k).map .hide
  | ["age", n] => (parseInt n).map .age
  | ["defage"] => some .defaultAge
  | ["how", n] => (parseInt n).map .expiration
  | ["defhow"] => some .defaultExpiration
  | ["srv", "0"] => some (.onServer false)
  | ["srv", "1"] => some (.onServer true)
  | ["reset"] => some .resetSession
  | _ => none

def parseOps (l : List String) : Option (List Op) := l.mapM parseOp

/-! ### the simulated world -/

structure World where
  cfg : Cfg
  store : Store
  next : Nat
  jars : List (Nat × Jar)
  issued : List Bytes
  liveOnly : Bool := false     -- network storage with several nodes

def jarOf (w : World) (b : Nat) : Jar := (w.jars.lookup b).getD Jar.empty

def setJar (w : World) (b : Nat) (j : Jar) : World :=
  { w with jars := (b, j) :: w.jars.filter (·.1 != b) }

def addIssued (issued : List Bytes) (cs : List SetCookie) : List Bytes :=
  cs.foldl (fun acc c => if c.key.isEmpty && !c.value.isEmpty && !acc.contains c.value then acc ++ [c.value] else acc) issued

/-- the cookie a request presents -/
def presented (w : World) (b : Nat) (spec : String) : Option Bytes :=
  match spec.splitOn ":" with
  | ["jar"] => some (jarOf w b).cookie
  | ["none"] => some []
  | ["raw", h] => parseHex h
  | ["old", j] =>
    match j.toNat? with
    | none => none
    | some j =>
      let cand := w.issued.reverse.filter fun v => !(w.jars.any fun p => p.2.cookie == v)
      if cand.isEmpty then some [] else some (cand.getD (j % cand.length) [])
  | ["steal", b2] => b2.toNat?.map fun b2 => (jarOf w b2).cookie
  | _ => none

def saveStr : Except Err SaveKind → String
  | .error e => "err:" ++ errStr e
  | .ok _ => "ok"

def traceStr (o : ReqOut) : String :=
  let k := match o.saved with
    | .error e => "err:" ++ errStr e
    | .ok .cleared => "cleared" | .ok .untouched => "untouched" | .ok (.written _) => "written"
  let l := match o.reads with
    | .error _ => "loaderr"
    | .ok r => if r.data.isEmpty then "empty" else "loaded"
  s!"{l} {k}"

def parseLoc : String → Option Loc
  | "client" => some .client | "server" => some .server | "both" => some .both | _ => none

/-- `network` = `session_tcp_storage` → `tcp_cache_service` → memory storage: the session opcodes carry
(sid, 64-bit deadline, data) verbatim, so behind the interface it is the memory storage -/
def parseKind : String → Option Kind
  | "memory" => some .memory | "files" => some .files | "network" => some .memory
  | "network2" => some .memory | "network3" => some .memory      -- several nodes: still one store addressed by sid
  | _ => none

def emptyWorld (cfg : Cfg) (liveOnly : Bool := false) : World := ⟨cfg, ⟨[], []⟩, 0, [], [], liveOnly⟩

def runReq (trace : Bool) (w : World) (b : Nat) (now : Int) (spec : String) (ops : List Op) : World × String :=
  match presented w b spec with
  | none => (w, "bad-op")
  | some c =>
    let j0 := jarOf w b
    let j1 : Jar := if spec == "jar" then j0 else { j0 with cookie := c }
    let ctx : Ctx := ⟨w.cfg, envStd, now, c, j1.exposed.map (·.1)⟩
    let st0 : Store := { w.store with log := [] }
    let o := request ctx st0 w.next ops
    let issued0 := w.issued
    let issued := addIssued issued0 o.cookies
    let j2 := j1.applyAll o.cookies
    let w' := setJar { w with store := o.store, next := o.next, issued := issued } b j2
    let out :=
      if trace then traceStr o
      else
        s!"P {canonTok issued0 c} R {readsStr o.reads} S {saveStr o.saved} C [{joinWith ";" (o.cookies.map (cookieStr issued))}] " ++
        s!"J {jarStr issued j2} T {storeStr issued o.store (if w.liveOnly then some now else none)} A {logStr issued o.store.log}"
    (w', out)

/-- `req2`: one object, two loads (`set_cookie_adapter_and_reload`) -/
def runReq2 (trace : Bool) (w : World) (b : Nat) (now : Int) (spec1 : String) (ops1 : List Op) (spec2 : String) (ops2 : List Op) : World × String :=
  let j0 := jarOf w b
  let j1a : Jar := match presented w b spec1 with
    | some c1 => if spec1 == "jar" then j0 else { j0 with cookie := c1 }
    | none => j0
  -- the second cookie is resolved against the jars as they are once the first one is installed
  match presented w b spec1, presented (setJar w b j1a) b spec2 with
  | some c1, some c2 =>
    let j1 : Jar := if spec2 == "jar" then j1a else { j1a with cookie := c2 }
    let names := j0.exposed.map (·.1)
    let st0 : Store := { w.store with log := [] }
    let r := request2 ⟨w.cfg, envStd, now, c1, names⟩ ⟨w.cfg, envStd, now, c2, names⟩ st0 w.next ops1 ops2
    let o := r.out
    let issued0 := w.issued
    let issued := addIssued issued0 o.cookies
    let j2 := j1.applyAll o.cookies
    let w' := setJar { w with store := o.store, next := o.next, issued := issued } b j2
    let out :=
      if trace then "reload " ++ traceStr o
      else
        s!"P1 {canonTok issued0 c1} R1 {readsStr r.reads1} P {canonTok issued0 c2} R {readsStr o.reads} S {saveStr o.saved} " ++
        s!"C [{joinWith ";" (o.cookies.map (cookieStr issued))}] " ++
        s!"J {jarStr issued j2} T {storeStr issued o.store (if w.liveOnly then some now else none)} A {logStr issued o.store.log}"
    (w', out)
  | _, _ => (w, "bad-op")

/-! ### the judge: `Spec.lean` evaluated on the implementation's answers -/

structure JState where
  df : Spec.Defaults
  toks : List (String × Spec.SSess)     -- canonical token → session
  seen : List String                    -- every issued token seen so far
  stolen : Bool                         -- a `steal:` request occurred: exposed-cookie clause no longer judged
  dishonest : List Nat                  -- browsers that overrode their cookie at least once

def fieldsOf (ws : List String) : Option (String × String × String × String × String × String × String) :=
  match ws with
  | ["P", p, "R", r, "S", s, "C", c, "J", j, "T", t, "A", a] => some (p, r, s, c, j, t, a)
  | _ => none

def unbracket (s : String) : List String :=
  let inner := sdropEnd (sdrop s 1) 1
  if inner.isEmpty then [] else inner.splitOn ";"

/-- `k=v:e` entries of a reads list; abbreviated values cannot be judged by content, only kept as text -/
def parseReadsData (s : String) : Option (List (Bytes × String × Bool)) :=
  (unbracket s).mapM fun ent =>
    match ent.splitOn "=" with
    | [k, ve] =>
      match ve.splitOn ":" with
      | [v, e] => (parseHex k).map fun k => (k, v, e == "1")
      | _ => none
    | _ => none

def specOp : Op → Spec.SOp
  | .set k v => .set k v | .erase k => .erase k | .clear => .clear | .expose k => .expose k | .hide k => .hide k
  | .age t => .age t | .defaultAge => .defaultAge | .expiration h => .expiration h
  | .defaultExpiration => .defaultExpiration | .onServer b => .onServer b | .resetSession => .resetSession

def sortedReads (d : Spec.SData) : List String :=
  sortStrings (d.map fun (k, v, e) => s!"{toHex k}={abbr v}:{boolStr e}")

/-- the storage listing still holds a record under token `p` whose deadline has not passed -/
def liveInStore (t : String) (p : String) (now : Int) : Bool :=
  (unbracket t).any fun x =>
    match x.splitOn "@" with
    | [k, rest] => k == p && (match parseInt ((rest.splitOn "=").headD "") with | some d => decide (now ≤ d) | none => true)
    | _ => false

def judgeReq (js : JState) (b : Nat) (now : Int) (spec : String) (ops : List Op) (impl : List String) (reset0 : Bool := false) (reloaded : Bool := false) : JState × String :=
  match fieldsOf impl with
  | none => (js, "0 unparsable implementation answer")
  | some (p, r, s, c, j, t, a) =>
    let fail (why : String) : JState × String := (js, "0 " ++ why)
    let cur := Spec.alive now (js.toks.lookup p)
    let js := { js with stolen := js.stolen || spec.startsWith "steal", dishonest := if spec == "jar" then js.dishonest else b :: js.dishonest }
    -- storage addressing: only identifiers of the issued form; stored keys are issued identifiers
    let logKeys := (unbracket a).map fun x => sdrop x 1
    let formOk (k : String) : Bool :=
      k.startsWith "I#" || (k.startsWith "x" && ((parseHex (sdrop k 1)).map Spec.wellFormedId).getD false)
    if !logKeys.all formOk then fail "storage addressed with an identifier not of the issued form"
    else if !((unbracket t).all fun x => x.startsWith "I#") then fail "storage holds a key that was never issued"
    else
    match Spec.specLoad Spec.decimal js.df cur with
    | .error _ =>
      if r == "err:badCast" then (js, "1") else fail "reads: expected the number error"
    | .ok w0 =>
      let expectR := s!"{w0.age},{w0.how},{boolStr w0.srv},[{joinWith ";" (sortedReads w0.data)}]"
      let gotR := match r.splitOn ",[" with
        | [hd, tl] => match parseReadsData ("[" ++ tl) with
          | some es => s!"{hd},[{joinWith ";" (sortStrings (es.map fun (k, v, e) => s!"{toHex k}={v}:{boolStr e}"))}]"
          | none => r
        | _ => r
      if expectR != gotR then fail s!"reads differ from the token's session: expected {expectR}"
      else
        let w := ops.foldl (fun w o => Spec.applyOp Spec.decimal js.df w (specOp o)) { w0 with reset := reset0 }
        let cookies := unbracket c
        let sess := (cookies.filter fun x => x.startsWith "@=").getLast?
        let jarTok := (j.splitOn ",[").headD ""
        let jarExp := match j.splitOn ",[" with | [_, tl] => unbracket ("[" ++ tl) | _ => []
        let honest := !js.stolen && !js.dishonest.contains b
        let expExposed (d : Spec.SData) := sortStrings ((Spec.exposedOf d).map fun (k, v) => s!"{toHex k}={abbr v}")
        let revoke (toks : List (String × Spec.SSess)) := if p.startsWith "I" then toks.filter (·.1 != p) else toks
        match Spec.decideSave js.df cur w now with
        | .refused e =>
          let want := match e with | .tooLong => ["err:keyTooLong", "err:valueTooLong"] | .cannotKeepOnServer => ["err:cookiesOnServer"] | .badNumber => []
          if want.contains s then (js, "1") else fail "save: expected a refusal"
        | .cleared =>
          -- the specification's state moves on also when the verdict is 0, so that a later replay is judged against it
          let js1 := { js with toks := revoke js.toks }
          if s != "ok" then fail "save: unexpected exception"
          else if jarTok != "-" then (js1, "0 cleared session but the browser still holds a session cookie")
          else if honest && sortStrings jarExp != [] then (js1, "0 cleared session but exposed cookies remain")
          else if p.startsWith "I" && liveInStore t p now then (js1, "0 cleared session but its server-side record is still alive in the storage")
          else (js1, "1")
        | .untouched =>
          if s != "ok" then fail "save: unexpected exception"
          -- (after a reload the first load may already have told the browser to drop its cookie: not this load's doing)
          else if !reloaded && jarTok != p then fail "untouched session but the session cookie changed"
          else if !reloaded && !cookies.isEmpty then fail "untouched session (no renewal due) but cookies were sent"
          else (js, "1")
        | .saved ss fresh cookieAge =>
          if s != "ok" then fail "save: unexpected exception"
          else match sess with
            | none => fail "saved session but no session cookie was set"
            | some sc =>
              let body := sdrop sc 2
              let tok := (body.splitOn ":").headD ""
              let age := (body.splitOn ":").getD 1 ""
              let toks1 := if tok != p then revoke js.toks else js.toks
              let toks2 := (tok, ss) :: toks1.filter (·.1 != tok)
              let js1 := { js with toks := toks2, seen := if js.seen.contains tok then js.seen else tok :: js.seen }
              if age != ageStr cookieAge then (js1, s!"0 session cookie age {age}, expected {ageStr cookieAge}")
              else if tok == "-" || tok.startsWith "x" then fail "saved session but the cookie is empty or not canonical"
              else if tok.startsWith "I" && tok != p && js.seen.contains tok then (js1, "0 a new server-side identifier is not fresh")
              else if tok.startsWith "I" && tok == p && fresh then (js1, "0 new or reset session kept its identifier")
              else if cookieAge ≥ 0 && jarTok != tok then (js1, "0 browser does not hold the issued cookie")
              else if cookieAge ≥ 0 && honest && sortStrings jarExp != expExposed ss.data then (js1, "0 exposed cookies out of step with the session")
              else if p.startsWith "I" && tok != p && liveInStore t p now then (js1, "0 replaced server-side identifier still has a live record in the storage")
              else (js1, "1")

/-- `req2`: the first load is judged like any load; after the reload the object must show what the *second* cookie
denotes and nothing else — the working copy of a load starts empty (only a pending `reset_session()` survives) -/
def judgeReq2 (js : JState) (b : Nat) (now : Int) (spec1 : String) (ops1 : List Op) (spec2 : String) (ops2 : List Op) (impl : List String) : JState × String :=
  match impl with
  | "P1" :: p1 :: "R1" :: r1 :: rest =>
    let cur1 := Spec.alive now (js.toks.lookup p1)
    let js := { js with stolen := js.stolen || spec1.startsWith "steal", dishonest := if spec1 == "jar" then js.dishonest else b :: js.dishonest }
    match Spec.specLoad Spec.decimal js.df cur1 with
    | .error _ => if r1 == "err:badCast" then (js, "1") else (js, "0 first load: expected the number error")
    | .ok w1 =>
      let expect1 := s!"{w1.age},{w1.how},{boolStr w1.srv},[{joinWith ";" (sortedReads w1.data)}]"
      let got1 := match r1.splitOn ",[" with
        | [hd, tl] => match parseReadsData ("[" ++ tl) with
          | some es => s!"{hd},[{joinWith ";" (sortStrings (es.map fun (k, v, e) => s!"{toHex k}={v}:{boolStr e}"))}]"
          | none => r1
        | _ => r1
      if expect1 != got1 then (js, s!"0 first load: reads differ from the token's session: expected {expect1}")
      else
        let w1' := ops1.foldl (fun w o => Spec.applyOp Spec.decimal js.df w (specOp o)) w1
        judgeReq js b now spec2 ops2 rest w1'.reset true
  | _ => (js, "0 unparsable implementation answer")

/-! ### main loop -/

structure DState where
  trace : Bool
  w : World
  js : JState

def initJ (cfg : Cfg) : JState := ⟨⟨cfg.timeoutDef, cfg.howDef, cfg.loc == .client⟩, [], [], false, []⟩

def parseNew (ws : List String) : Option Cfg :=
  match ws with
  | [loc, kind, how, timeout, limit] => do
    let loc ← parseLoc loc; let kind ← parseKind kind; let how ← parseInt how; let t ← parseInt timeout; let l ← limit.toNat?
    pure ⟨loc, kind, how, t, l⟩
  -- `grp`: the harness runs the history under a digit-grouping global locale; the model and the spec do not depend on it
  | [loc, kind, how, timeout, limit, "grp"] => do
    let loc ← parseLoc loc; let kind ← parseKind kind; let how ← parseInt how; let t ← parseInt timeout; let l ← limit.toNat?
    pure ⟨loc, kind, how, t, l⟩
  | _ => none

/-- in a judge line the tokens seen in set-cookie calls of *every* answer must be remembered, also when the
verdict is 0, so that freshness is judged against everything issued -/
def step (s : DState) (line : String) : DState × String :=
  match words line with
  | "new" :: rest =>
    match parseNew rest with
    | some cfg => ({ s with w := emptyWorld cfg (rest.getD 1 "" == "network2" || rest.getD 1 "" == "network3") }, "ok")
    | none => (s, "bad-op")
  | "req2" :: b :: now :: spec1 :: more =>
    let ops1 := more.takeWhile (· != "/")
    match (more.dropWhile (· != "/")).drop 1 with
    | spec2 :: ops2 =>
      match b.toNat?, parseInt now, parseOps ops1, parseOps ops2 with
      | some b, some now, some ops1, some ops2 => let (w, o) := runReq2 s.trace s.w b now spec1 ops1 spec2 ops2; ({ s with w := w }, o)
      | _, _, _, _ => (s, "bad-op")
    | [] => (s, "bad-op")
  | "req" :: b :: now :: spec :: ops =>
    match b.toNat?, parseInt now, parseOps ops with
    | some b, some now, some ops => let (w, o) := runReq s.trace s.w b now spec ops; ({ s with w := w }, o)
    | _, _, _ => (s, "bad-op")
  | ["forksids"] => (s, if s.trace then "fork" else "distinct")    -- `Fresh`: two workers never issue the same identifier
  | ["drop"] => (s, if s.trace then "drop" else "ok")     -- a dropped connection is transparent: reconnect and re-send
  | ["gc", now] =>
    match parseInt now with
    | some now =>
      let st := s.w.store.gc s.w.cfg.kind now
      ({ s with w := { s.w with store := st } }, if s.trace then "gc" else s!"T {storeStr s.w.issued st (if s.w.liveOnly then some now else none)}")
    | none => (s, "bad-op")
  | "J" :: rest =>
    let (cs, impl) := (rest.takeWhile (· != ";;"), (rest.dropWhile (· != ";;")).drop 1)
    match cs with
    | "new" :: r =>
      match parseNew r with
      | some cfg => ({ s with js := initJ cfg }, "1")
      | none => (s, "bad-op")
    | "req" :: b :: now :: spec :: ops =>
      match b.toNat?, parseInt now, parseOps ops with
      | some b, some now, some ops => let (js, o) := judgeReq s.js b now spec ops impl; ({ s with js := js }, o)
      | _, _, _ => (s, "bad-op")
    | "req2" :: b :: now :: spec1 :: more =>
      let ops1 := more.takeWhile (· != "/")
      match (more.dropWhile (· != "/")).drop 1 with
      | spec2 :: ops2 =>
        match b.toNat?, parseInt now, parseOps ops1, parseOps ops2 with
        | some b, some now, some ops1, some ops2 => let (js, o) := judgeReq2 s.js b now spec1 ops1 spec2 ops2 impl; ({ s with js := js }, o)
        | _, _, _, _ => (s, "bad-op")
      | [] => (s, "bad-op")
    | ["gc", _] => (s, "1")
    | ["drop"] => (s, "1")
    | ["forksids"] => (s, if impl == ["distinct"] then "1" else "0 two forked workers issued the same session identifier")
    | _ => (s, "bad-op")
  | _ => (s, "bad-op")

def main (args : List String) : IO Unit :=
  let cfg0 : Cfg := ⟨.server, .memory, 2, 3600, 2048⟩
  lineLoop (⟨args.contains "trace", emptyWorld cfg0, initJ cfg0⟩ : DState) step
