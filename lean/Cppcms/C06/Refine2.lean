import Cppcms.C06.Refine
/-!
# C06 refinement lemmas, layer 3: session logic against `Spec.lean`

`toS` forgets the representation of `std::map` (sorted list) and yields the specification's association
list; all statements are up to `MapEq` (same bindings).
-/
namespace Cppcms.C06
open Cppcms

def toS (d : Data) : Spec.SData := d.map fun p => (p.1, p.2.value, p.2.exposed)

def MapEq (a b : Spec.SData) : Prop := ∀ k, Spec.lookup k a = Spec.lookup k b

theorem MapEq.refl (a : Spec.SData) : MapEq a a := fun _ => rfl
theorem MapEq.symm {a b : Spec.SData} (h : MapEq a b) : MapEq b a := fun k => (h k).symm
theorem MapEq.trans {a b c : Spec.SData} (h1 : MapEq a b) (h2 : MapEq b c) : MapEq a c := fun k => (h1 k).trans (h2 k)

def entryPair (e : Entry) : Bytes × Bool := (e.value, e.exposed)

theorem entryPair_inj {a b : Entry} (h : entryPair a = entryPair b) : a = b := by
  cases a; cases b; simp only [entryPair, Prod.mk.injEq] at h; obtain ⟨rfl, rfl⟩ := h; rfl

theorem lookup_toS (k : Key) (d : Data) : Spec.lookup k (toS d) = (dfind k d).map entryPair := by
  induction d with
  | nil => rfl
  | cons p rest ih =>
    obtain ⟨k0, e0⟩ := p
    simp only [toS, List.map_cons, Spec.lookup, dfind]
    split
    · rfl
    · exact ih

theorem lookup_del (k k' : Bytes) (d : Spec.SData) : Spec.lookup k (Spec.del k' d) = if k' = k then none else Spec.lookup k d := by
  induction d with
  | nil => simp [Spec.del, Spec.lookup]
  | cons p rest ih =>
    obtain ⟨k0, v0⟩ := p
    simp only [Spec.del, List.filter_cons] at ih ⊢
    by_cases h0 : k0 = k'
    · subst h0
      simp only [bne_self_eq_false, Bool.false_eq_true, if_false, ih, Spec.lookup]
      split
      · rfl
      · rfl
    · have : (k0 != k') = true := by simp [h0]
      simp only [this, if_true, Spec.lookup, ih]
      by_cases h1 : k0 = k
      · subst h1; simp [Ne.symm h0]
      · simp [h1]

theorem lookup_put (k k' : Bytes) (v : Bytes × Bool) (d : Spec.SData) :
    Spec.lookup k (Spec.put k' v d) = if k' = k then some v else Spec.lookup k d := by
  simp only [Spec.put, Spec.lookup, lookup_del]
  split <;> rfl

theorem lookup_some_mem {k : Bytes} {v : Bytes × Bool} {d : Spec.SData} (h : Spec.lookup k d = some v) : (k, v) ∈ d := by
  induction d with
  | nil => simp [Spec.lookup] at h
  | cons p rest ih =>
    obtain ⟨k0, v0⟩ := p
    simp only [Spec.lookup] at h
    split at h
    · rename_i hk; cases h; subst hk; exact List.mem_cons_self ..
    · exact List.mem_cons_of_mem _ (ih h)

theorem mem_lookup_isSome {p : Bytes × Bytes × Bool} {d : Spec.SData} (h : p ∈ d) : (Spec.lookup p.1 d).isSome = true := by
  induction d with
  | nil => cases h
  | cons q rest ih =>
    simp only [Spec.lookup]
    split
    · rfl
    · rcases List.mem_cons.mp h with rfl | h
      · rename_i hne; exact absurd rfl hne
      · exact ih h

theorem sameMap_iff (a b : Spec.SData) : Spec.sameMap a b = true ↔ MapEq a b := by
  constructor
  · intro h k
    simp only [Spec.sameMap, Bool.and_eq_true, List.all_eq_true, beq_iff_eq] at h
    cases ha : Spec.lookup k a with
    | some v => have := h.1 _ (lookup_some_mem ha); simp only at this; rw [← this, ha]
    | none =>
      cases hb : Spec.lookup k b with
      | none => rfl
      | some v => have := h.2 _ (lookup_some_mem hb); simp only at this; rw [← hb, ← this, ha]
  · intro h
    simp only [Spec.sameMap, Bool.and_eq_true, List.all_eq_true, beq_iff_eq]
    exact ⟨fun p _ => h p.1, fun p _ => h p.1⟩

theorem mapEq_isEmpty {a b : Spec.SData} (h : MapEq a b) : a.isEmpty = b.isEmpty := by
  cases a with
  | nil =>
    cases b with
    | nil => rfl
    | cons q rest => have := h q.1; simp [Spec.lookup] at this
  | cons p rest =>
    cases b with
    | nil => have := h p.1; simp [Spec.lookup] at this
    | cons q rest' => rfl

theorem toS_isEmpty (d : Data) : (toS d).isEmpty = d.isEmpty := by cases d <;> rfl

/-- `data_ == data_copy_` on well-formed maps is equality of bindings -/
theorem data_eq_iff (a b : Data) (ha : Sorted a) (hb : Sorted b) : a = b ↔ MapEq (toS a) (toS b) := by
  constructor
  · rintro rfl; exact MapEq.refl _
  · intro h
    apply sorted_ext a b ha hb
    intro k
    have := h k
    rw [lookup_toS, lookup_toS] at this
    cases h1 : dfind k a with
    | none => cases h2 : dfind k b with
      | none => rfl
      | some e => rw [h1, h2] at this; cases this
    | some e => cases h2 : dfind k b with
      | none => rw [h1, h2] at this; cases this
      | some e' =>
        rw [h1, h2] at this
        simp only [Option.map_some, Option.some.injEq] at this
        rw [entryPair_inj this]

/-! ### mutators -/

theorem mapEq_dinsert {md : Data} {sd : Spec.SData} (h : MapEq (toS md) sd) (k : Key) (e : Entry) :
    MapEq (toS (dinsert k e md)) (Spec.put k (entryPair e) sd) := by
  intro k2
  rw [lookup_toS, dfind_dinsert, lookup_put, ← h k2, lookup_toS]
  split <;> rfl

theorem mapEq_derase {md : Data} {sd : Spec.SData} (h : MapEq (toS md) sd) (k : Key) :
    MapEq (toS (derase k md)) (Spec.del k sd) := by
  intro k2
  rw [lookup_toS, dfind_derase, lookup_del, ← h k2, lookup_toS]
  split <;> rfl

theorem mapEq_setValue {md : Data} {sd : Spec.SData} (h : MapEq (toS md) sd) (k : Key) (v : Bytes) :
    MapEq (toS (setValue k v md)) (Spec.setVal k v sd) := by
  have hk := h k
  rw [lookup_toS] at hk
  simp only [setValue, Spec.setVal]
  cases hf : dfind k md with
  | none =>
    rw [hf] at hk; simp only [Option.map_none] at hk
    rw [← hk]
    exact mapEq_dinsert h k ⟨v, false⟩
  | some e =>
    rw [hf] at hk; simp only [Option.map_some] at hk
    rw [← hk]
    exact mapEq_dinsert h k { e with value := v }

theorem mapEq_setExposed {md : Data} {sd : Spec.SData} (h : MapEq (toS md) sd) (k : Key) (b : Bool) :
    MapEq (toS (setExposed k b md)) (Spec.setExp k b sd) := by
  have hk := h k
  rw [lookup_toS] at hk
  simp only [setExposed, Spec.setExp]
  cases hf : dfind k md with
  | none =>
    rw [hf] at hk; simp only [Option.map_none] at hk
    rw [← hk]
    exact mapEq_dinsert h k ⟨[], b⟩
  | some e =>
    rw [hf] at hk; simp only [Option.map_some] at hk
    rw [← hk]
    exact mapEq_dinsert h k { e with exposed := b }

theorem sorted_setValue (k : Key) (v : Bytes) (d : Data) (h : Sorted d) : Sorted (setValue k v d) := by
  simp only [setValue]; split <;> exact sorted_dinsert _ _ _ h

theorem sorted_setExposed (k : Key) (b : Bool) (d : Data) (h : Sorted d) : Sorted (setExposed k b d) := by
  simp only [setExposed]; split <;> exact sorted_dinsert _ _ _ h

def specOp : Op → Spec.SOp
  | .set k v => .set k v | .erase k => .erase k | .clear => .clear | .expose k => .expose k | .hide k => .hide k
  | .age t => .age t | .defaultAge => .defaultAge | .expiration h => .expiration h
  | .defaultExpiration => .defaultExpiration | .onServer b => .onServer b | .resetSession => .resetSession

def numOf (env : Env) : Spec.Num := ⟨env.showInt, env.readInt⟩
def dfOf (cfg : Cfg) : Spec.Defaults := ⟨cfg.timeoutDef, cfg.howDef, cfg.loc == .client⟩

/-- the working copy of the model and of the specification agree -/
structure WorkRel (s : Sess) (w : Spec.Work) : Prop where
  data : MapEq (toS s.data) w.data
  age : s.timeoutVal = w.age
  how : s.how = w.how
  srv : s.onServer = w.srv
  reset : s.reset = w.reset

theorem keyT_eq : keyT = Spec.keyT := by decide
theorem keyH_eq : keyH = Spec.keyH := by decide
theorem keyS_eq : keyS = Spec.keyS := by decide

theorem applyOp_rel (cfg : Cfg) (env : Env) (s : Sess) (w : Spec.Work) (h : WorkRel s w) (op : Op) :
    WorkRel (applyOp cfg env s op) (Spec.applyOp (numOf env) (dfOf cfg) w (specOp op)) := by
  obtain ⟨hd, ha, hh, hs, hr⟩ := h
  cases op with
  | set k v => exact ⟨mapEq_setValue hd k v, ha, hh, hs, hr⟩
  | erase k => exact ⟨mapEq_derase hd k, ha, hh, hs, hr⟩
  | clear => exact ⟨MapEq.refl _, ha, hh, hs, hr⟩
  | expose k => exact ⟨mapEq_setExposed hd k true, ha, hh, hs, hr⟩
  | hide k => exact ⟨mapEq_setExposed hd k false, ha, hh, hs, hr⟩
  | age t => exact ⟨by show MapEq _ (Spec.setVal Spec.keyT _ _); rw [← keyT_eq]; exact mapEq_setValue hd keyT _, rfl, hh, hs, hr⟩
  | defaultAge => exact ⟨by show MapEq _ (Spec.del Spec.keyT _); rw [← keyT_eq]; exact mapEq_derase hd keyT, rfl, hh, hs, hr⟩
  | expiration h => exact ⟨by show MapEq _ (Spec.setVal Spec.keyH _ _); rw [← keyH_eq]; exact mapEq_setValue hd keyH _, ha, rfl, hs, hr⟩
  | defaultExpiration => exact ⟨by show MapEq _ (Spec.del Spec.keyH _); rw [← keyH_eq]; exact mapEq_derase hd keyH, ha, rfl, hs, hr⟩
  | onServer b => exact ⟨by show MapEq _ (Spec.setVal Spec.keyS _ _); rw [← keyS_eq]; exact mapEq_setValue hd keyS _, ha, hh, rfl, hr⟩
  | resetSession => exact ⟨hd, ha, hh, hs, rfl⟩

theorem applyOps_rel (cfg : Cfg) (env : Env) (ops : List Op) (s : Sess) (w : Spec.Work) (h : WorkRel s w) :
    WorkRel (applyOps cfg env s ops) ((ops.map specOp).foldl (Spec.applyOp (numOf env) (dfOf cfg)) w) := by
  induction ops generalizing s w with
  | nil => exact h
  | cons op rest ih => exact ih _ _ (applyOp_rel cfg env s w h op)

theorem applyOp_sorted (cfg : Cfg) (env : Env) (s : Sess) (op : Op) (h : Sorted s.data) : Sorted (applyOp cfg env s op).data := by
  cases op with
  | set k v => exact sorted_setValue _ _ _ h
  | erase k => exact sorted_derase _ _ h
  | clear => trivial
  | expose k => exact sorted_setExposed _ _ _ h
  | hide k => exact sorted_setExposed _ _ _ h
  | age t => exact sorted_setValue _ _ _ h
  | defaultAge => exact sorted_derase _ _ h
  | expiration h' => exact sorted_setValue _ _ _ h
  | defaultExpiration => exact sorted_derase _ _ h
  | onServer b => exact sorted_setValue _ _ _ h
  | resetSession => exact h

theorem applyOps_sorted (cfg : Cfg) (env : Env) (ops : List Op) (s : Sess) (h : Sorted s.data) : Sorted (applyOps cfg env s ops).data := by
  induction ops generalizing s with
  | nil => exact h
  | cons op rest ih => exact ih _ (applyOp_sorted cfg env s op h)

theorem applyOp_copy (cfg : Cfg) (env : Env) (s : Sess) (op : Op) :
    (applyOp cfg env s op).copy = s.copy ∧ (applyOp cfg env s op).timeoutIn = s.timeoutIn := by
  cases op <;> exact ⟨rfl, rfl⟩

theorem applyOps_copy (cfg : Cfg) (env : Env) (ops : List Op) (s : Sess) :
    (applyOps cfg env s ops).copy = s.copy ∧ (applyOps cfg env s ops).timeoutIn = s.timeoutIn := by
  induction ops generalizing s with
  | nil => exact ⟨rfl, rfl⟩
  | cons op rest ih =>
    obtain ⟨h1, h2⟩ := ih (applyOp cfg env s op)
    obtain ⟨h3, h4⟩ := applyOp_copy cfg env s op
    exact ⟨h1.trans h3, h2.trans h4⟩

end Cppcms.C06
