import Cppcms.C05.Props
import Cppcms.C06.Props
/-!
# C05 + C06: the abstract encryptor of the session model instantiated with the real cookie layer

`Env.enc` / `Env.dec` of the C06 model stand for "time stamp prefix + encryptor + base64url".  Here they are
instantiated with C05's model of `session_cookies` over the hmac encryptor (`hmacSave` / `hmacLoad`), and the two
hypotheses the C06 theorems make about them are discharged by C05's theorems:

* `EnvOK.dec_enc`  ⇐  `C05.Props.save_load_roundtrip_hmac`, on C05's domain (expiry in the `time_t` range, sizes in `size_t`);
* `Admissible`     ⇐  `C05.Props.authenticity_hmac` under C05's ideal-MAC hypothesis `Spec.Unforgeable`, for a server whose
  issued payloads are serialised well-formed maps (which `StoreInv` / `apiSave_admissible` guarantee for everything C06 issues).

`dec` is "load at the beginning of time" (`now = -2^63`), so that the expiry test, which C06 models separately
(`Gen.cookieExpired`), never fires inside it.
-/
namespace Cppcms.C06.Compose
open Cppcms Cppcms.C06

def t0 : Int := -(2 ^ 63)

/-- the text after `C` of the cookie `session_cookies::save` produces with the hmac encryptor -/
def encHmac (M : C05.MacAlg) (k : Bytes) (t : Int) (d : Bytes) : Bytes :=
  match C05.hmacSave M k t d with
  | .ok (_ :: rest) => rest
  | _ => []

/-- what `session_cookies::load` accepts for `C ‖ body`, leaving the expiry test to the caller -/
def decHmac (M : C05.MacAlg) (k : Bytes) (body : Bytes) : Option (Int × Bytes) :=
  C05.Props.acceptedOf (C05.hmacLoad M k t0 (67 :: body))

def envHmac (M : C05.MacAlg) (k : Bytes) (sidOf : Nat → Bytes) (showInt : Int → Bytes) (readInt : Bytes → Option Int) : Env :=
  ⟨sidOf, encHmac M k, decHmac M k, showInt, readInt⟩

/-- `EnvOK.dec_enc` for the real cookie layer, on C05's domain -/
theorem dec_enc_hmac (M : C05.MacAlg) (hM : M.Lawful) (k d : Bytes) (t : Int)
    (ht : C05.Spec.TimeOk t) (hsz : C05.Spec.SizeOk (8 + d.length + M.size)) :
    decHmac M k (encHmac M k t d) = some (t, d) := by
  have hnow : t0 ≤ t := ht.1
  have hl : (C05.timeBytes t ++ d).length = 8 + d.length := by rw [List.length_append, C05.timeBytes_length]
  have hr := C05.Props.hmac_roundtrip M hM k (C05.timeBytes t ++ d) (by rw [hl]; exact hsz)
  obtain ⟨h1, h2⟩ := C05.Props.cookie_roundtrip (fun p => .ok (C05.hmacEncrypt M k p)) (C05.hmacDecrypt M k) t0 t d
    (C05.hmacEncrypt M k (C05.timeBytes t ++ d)) ht hnow rfl hr
  have e : C05.hmacSave M k t d = .ok (67 :: C15.b64encodeStr (C05.hmacEncrypt M k (C05.timeBytes t ++ d))) := h1
  simp only [encHmac, e, decHmac]
  have e2 : C05.hmacLoad M k t0 (67 :: C15.b64encodeStr (C05.hmacEncrypt M k (C05.timeBytes t ++ d))) = ⟨.ok (d, t), false⟩ := h2
  rw [e2]; rfl

/-- `Admissible` for the real cookie layer under C05's ideal-MAC hypothesis: whatever cookie is presented, if it
decrypts at all it decrypts to one of the payloads this server issued, and those are serialised well-formed maps -/
theorem admissible_hmac (M : C05.MacAlg) (hM : M.Lawful) (k : Bytes) (sidOf : Nat → Bytes) (showInt : Int → Bytes) (readInt : Bytes → Option Int)
    (cookie : Bytes) (issued : List (Bytes × Int))
    (hissued : ∀ x ∈ issued, C05.Spec.TimeOk x.2 ∧ WFpayload x.1)
    (hsz : C05.Spec.SizeOk cookie.length)
    (hU : ∀ cipher, C05.cookieCipher cookie = some cipher →
      C05.Spec.Unforgeable (M.tag k) (issued.map fun x => C05.timeBytes x.2 ++ x.1) cipher) :
    Admissible (envHmac M k sidOf showInt readInt) cookie := by
  intro p hp
  cases cookie with
  | nil => simp [cookiePayload] at hp
  | cons c0 body =>
    simp only [cookiePayload, envHmac] at hp
    split at hp
    · cases hp
    · rename_i hc0
      have h67 : c0 = 67 := by
        have : c0.toNat = 67 := by simpa [Gen.cookiesPrefix] using hc0
        exact UInt8.toNat_inj.mp (by simpa using this)
      subst h67
      simp only [decHmac, C05.Props.acceptedOf] at hp
      rcases hL : C05.hmacLoad M k t0 (67 :: body) with ⟨res, cl⟩
      rw [hL] at hp
      cases res with
      | ok v =>
        obtain ⟨d, t⟩ := v
        simp only [Option.some.injEq] at hp
        obtain ⟨_, _, cipher, _, hcc, _, _⟩ := C05.Props.load_sound_hmac M hM k (67 :: body) d t0 t cl hsz hL
        obtain ⟨hmem, _⟩ := C05.Props.authenticity_hmac M hM k (67 :: body) cipher d t0 t cl issued
          (fun x hx => (hissued x hx).1) hsz hcc (hU cipher hcc) hL
        rw [← hp]
        exact (hissued (d, t) hmem).2
      | fail => simp at hp
      | ub => simp at hp

/-- non-vacuity of the Lawful hypothesis: C05's toy MAC -/
example : C05.Props.toyMac.Lawful := fun _ _ => rfl

end Cppcms.C06.Compose
