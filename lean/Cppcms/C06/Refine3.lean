import Cppcms.C06.Refine2
/-!
# C06 refinement lemmas, layer 3 continued: `load()` and `save()` against `Spec.specLoad` / `Spec.decideSave`
-/
namespace Cppcms.C06
open Cppcms

/-- a stored / encrypted payload is the serialisation of a well-formed map within the limits -/
def WFpayload (ar : Bytes) : Prop := ∃ d, Sorted d ∧ (∀ p ∈ d, withinLimits p) ∧ saveData d = .ok ar

theorem loadData_of_wf {ar : Bytes} (h : WFpayload ar) : ∃ d, loadData ar = .ok d ∧ Sorted d ∧ (∀ p ∈ d, withinLimits p) ∧ saveData d = .ok ar := by
  obtain ⟨d, hs, hl, hsave⟩ := h
  obtain ⟨bs, h1, h2⟩ := loadData_saveData d hs hl
  rw [hsave] at h1
  cases h1
  exact ⟨d, h2, hs, hl, hsave⟩

/-- the session a payload denotes -/
def sessOfPayload (p : Int × Bytes) : Option Spec.SSess :=
  match loadData p.2 with
  | .ok d => some ⟨toS d, p.1⟩
  | .error _ => none

/-- **the abstraction function**: what a token denotes in a given store under the configured location -/
def absTok (cfg : Cfg) (env : Env) (recs : List Rec) (c : Bytes) : Option Spec.SSess :=
  (tokPayload cfg env recs c).bind sessOfPayload

theorem alive_absTok (cfg : Cfg) (env : Env) (t : Int) (recs : List Rec) (c : Bytes) :
    Spec.alive t (absTok cfg env recs c) = (aliveTok cfg env t recs c).bind sessOfPayload := by
  simp only [absTok, aliveTok]
  cases tokPayload cfg env recs c with
  | none => rfl
  | some p =>
    simp only [Option.bind_some, aliveP]
    cases hs : sessOfPayload p with
    | none => simp only [Spec.alive]; split <;> simp [hs]
    | some s =>
      have hdl : s.deadline = p.1 := by
        simp only [sessOfPayload] at hs
        split at hs
        · cases hs; rfl
        · cases hs
      simp only [Spec.alive, hdl]
      split <;> simp [hs]

theorem numOr_toS (env : Env) (d : Data) (k : Key) (dflt : Int) :
    Spec.numOr (numOf env) (toS d) k dflt =
      match getIntOr env d k dflt with
      | .ok n => .ok n
      | .error _ => .error .badNumber := by
  simp only [Spec.numOr, getIntOr, lookup_toS]
  cases dfind k d with
  | none => rfl
  | some e =>
    simp only [Option.map_some, entryPair, numOf]
    cases env.readInt e.value <;> rfl

theorem getIntOr_error (env : Env) (d : Data) (k : Key) (dflt : Int) (e : Err) (h : getIntOr env d k dflt = .error e) : e = .badCast := by
  simp only [getIntOr] at h
  split at h
  · cases h
  · split at h
    · cases h; rfl
    · cases h

/-- `load()` after the storage delivered `(to, ar)` agrees with `specLoad` on the session `ar` denotes -/
theorem sessOfLoaded_spec (cfg : Cfg) (env : Env) (to : Int) (ar : Bytes) (d : Data) (hl : loadData ar = .ok d) :
    match Spec.specLoad (numOf env) (dfOf cfg) (some ⟨toS d, to⟩) with
    | .error _ => sessOfLoaded cfg env to ar = .error .badCast
    | .ok w0 => ∃ s0, sessOfLoaded cfg env to ar = .ok s0 ∧ WorkRel s0 w0 ∧ s0.data = d ∧ s0.copy = d ∧ s0.timeoutIn = to := by
  simp only [Spec.specLoad, sessOfLoaded, hl, numOr_toS, ← keyT_eq, ← keyH_eq, ← keyS_eq, dfOf]
  cases h1 : getIntOr env d keyT cfg.timeoutDef with
  | error e =>
    have := getIntOr_error _ _ _ _ _ h1; subst this
    cases getIntOr env d keyH cfg.howDef <;> cases getIntOr env d keyS 0 <;> rfl
  | ok tv =>
    cases h2 : getIntOr env d keyH cfg.howDef with
    | error e =>
      have := getIntOr_error _ _ _ _ _ h2; subst this
      cases getIntOr env d keyS 0 <;> rfl
    | ok h =>
      cases h3 : getIntOr env d keyS 0 with
      | error e => have := getIntOr_error _ _ _ _ _ h3; subst this; rfl
      | ok sv => exact ⟨_, rfl, ⟨MapEq.refl _, rfl, rfl, rfl, rfl⟩, rfl, rfl, rfl⟩


/-- what `load()` yields, against the specification's view of the presented token -/
theorem siLoad_spec (ctx : Ctx) (st : Store)
    (hwf : ∀ p, aliveTok ctx.cfg ctx.env ctx.now st.recs ctx.cookie = some p → WFpayload p.2) :
    match Spec.specLoad (numOf ctx.env) (dfOf ctx.cfg) (Spec.alive ctx.now (absTok ctx.cfg ctx.env st.recs ctx.cookie)) with
    | .error _ => (siLoad ctx st).1 = .error .badCast
    | .ok w0 => ∃ s0, (siLoad ctx st).1 = .ok s0 ∧ WorkRel s0 w0 ∧ Sorted s0.data ∧ s0.copy = s0.data ∧
        (match Spec.alive ctx.now (absTok ctx.cfg ctx.env st.recs ctx.cookie) with
         | some cs => cs.data = toS s0.copy ∧ s0.timeoutIn = cs.deadline
         | none => s0.copy = []) := by
  have h1 := apiLoad_fst ctx st
  rw [alive_absTok]
  rcases hl : apiLoad ctx st with ⟨r, st1, cs⟩
  rw [hl] at h1
  simp only at h1
  rw [← h1]
  simp only [siLoad, hl]
  cases r with
  | none =>
    simp only [Option.bind_none, Spec.specLoad]
    exact ⟨_, rfl, ⟨MapEq.refl _, rfl, rfl, rfl, rfl⟩, trivial, rfl, rfl⟩
  | some p =>
    obtain ⟨to, ar⟩ := p
    obtain ⟨d, hld, hsd, _, _⟩ := loadData_of_wf (hwf (to, ar) h1.symm)
    have hsp : sessOfPayload (to, ar) = some ⟨toS d, to⟩ := by simp [sessOfPayload, hld]
    simp only [Option.bind_some, hsp]
    have key := sessOfLoaded_spec ctx.cfg ctx.env to ar d hld
    cases hs : Spec.specLoad (numOf ctx.env) (dfOf ctx.cfg) (some ⟨toS d, to⟩) with
    | error e => rw [hs] at key; exact key
    | ok w0 =>
      rw [hs] at key
      obtain ⟨s0, e1, e2, e3, e4, e5⟩ := key
      refine ⟨s0, e1, e2, by rw [e3]; exact hsd, by rw [e3, e4], ?_⟩
      simp only [e4, e5, and_self]

theorem dfind_some_mem {k : Key} {e : Entry} {d : Data} (h : dfind k d = some e) : (k, e) ∈ d := by
  induction d with
  | nil => simp [dfind] at h
  | cons p rest ih =>
    obtain ⟨k0, e0⟩ := p
    simp only [dfind] at h
    split at h
    · rename_i hk; cases h; subst hk; exact List.mem_cons_self ..
    · exact List.mem_cons_of_mem _ (ih h)

theorem dfind_of_mem_sorted {k : Key} {e : Entry} {d : Data} (hs : Sorted d) (h : (k, e) ∈ d) : dfind k d = some e := by
  induction d with
  | nil => cases h
  | cons p rest ih =>
    obtain ⟨k0, e0⟩ := p
    obtain ⟨h1, h2⟩ := hs
    rcases List.mem_cons.mp h with h | h
    · cases h; simp [dfind]
    · have := h1 (k, e) h
      simp only [dfind]
      rw [if_neg (bytesLt_ne this)]
      exact ih h2 h

theorem tooLong_iff (d : Data) (sd : Spec.SData) (hs : Sorted d) (hm : MapEq (toS d) sd) :
    Spec.tooLong sd = true ↔ ∃ p ∈ d, ¬ withinLimits p := by
  have hkl : Gen.keyLimit = 1024 := rfl
  have hdl : Gen.dataLimit = 2097152 := by decide
  simp only [Spec.tooLong, List.any_eq_true]
  constructor
  · rintro ⟨p, hp, hcond⟩
    cases hl : Spec.lookup p.1 sd with
    | none => rw [hl] at hcond; cases hcond
    | some ve =>
      obtain ⟨v, e⟩ := ve
      rw [hl] at hcond
      simp only [Bool.or_eq_true, decide_eq_true_eq] at hcond
      have := hm p.1
      rw [hl, lookup_toS] at this
      cases hf : dfind p.1 d with
      | none => rw [hf] at this; cases this
      | some en =>
        rw [hf] at this
        simp only [Option.map_some, entryPair, Option.some.injEq, Prod.mk.injEq] at this
        refine ⟨(p.1, en), dfind_some_mem hf, ?_⟩
        simp only [withinLimits, hkl, hdl, this.1]
        omega
  · rintro ⟨q, hq, hn⟩
    obtain ⟨k, en⟩ := q
    have hf := dfind_of_mem_sorted hs hq
    have hl : Spec.lookup k sd = some (entryPair en) := by rw [← hm k, lookup_toS, hf]; rfl
    refine ⟨(k, entryPair en), lookup_some_mem hl, ?_⟩
    simp only [hl, entryPair, Bool.or_eq_true, decide_eq_true_eq]
    simp only [withinLimits, hkl, hdl] at hn
    omega

/-! ### `save()` -/

def oldData (cur : Option Spec.SSess) : Spec.SData := match cur with | some s => s.data | none => []
def oldDeadline (cur : Option Spec.SSess) : Int := match cur with | some s => s.deadline | none => 0

theorem decideSave_unfold (df : Spec.Defaults) (cur : Option Spec.SSess) (w : Spec.Work) (now : Int) :
    Spec.decideSave df cur w now =
      if w.data.isEmpty then .cleared
      else if (Spec.sameMap w.data (oldData cur) && !(((oldData cur).isEmpty && !w.data.isEmpty) || w.reset)) && w.how == Spec.fixed then .untouched
      else if (Spec.sameMap w.data (oldData cur) && !(((oldData cur).isEmpty && !w.data.isEmpty) || w.reset)) && (w.how == Spec.renew || w.how == Spec.browser)
          && decide (10 * (now + w.age - oldDeadline cur) < w.age) then .untouched
      else if Spec.tooLong w.data then .refused .tooLong
      else if w.srv && df.clientOnly then .refused .cannotKeepOnServer
      else .saved ⟨w.data, if w.how == Spec.browser || w.how == Spec.renew || (w.how == Spec.fixed && (((oldData cur).isEmpty && !w.data.isEmpty) || w.reset)) then now + w.age else oldDeadline cur⟩
        (((oldData cur).isEmpty && !w.data.isEmpty) || w.reset)
        (if w.how == Spec.browser then 0 else if w.how == Spec.renew || (w.how == Spec.fixed && (((oldData cur).isEmpty && !w.data.isEmpty) || w.reset)) then w.age else oldDeadline cur - now) := by
  cases cur <;> rfl

theorem apiSave_error (ctx : Ctx) (st : Store) (next : Nat) (data : Bytes) (timeout : Int) (isNew onServer : Bool) :
    (∀ e, apiSave ctx st next data timeout isNew onServer = .error e → e = .cookiesOnServer) ∧
    ((∃ e, apiSave ctx st next data timeout isNew onServer = .error e) ↔ (onServer && (ctx.cfg.loc == .client)) = true) := by
  rcases loc_cases ctx.cfg.loc with hl | hl | hl
  · simp [apiSave, hl]
  · cases onServer <;> simp [apiSave, hl, cookiesSave]
  · by_cases hs : Gen.dualServerSide onServer data.length ctx.cfg.limit = true
    · simp [apiSave, hl, hs]
    · simp [apiSave, hl, hs, cookiesSave]

structure SaveHyp (s : Sess) (w : Spec.Work) (cur : Option Spec.SSess) : Prop where
  rel : WorkRel s w
  sdata : Sorted s.data
  scopy : Sorted s.copy
  copy : MapEq (toS s.copy) (oldData cur)
  tin : s.timeoutIn = oldDeadline cur

theorem save_conditions (s : Sess) (w : Spec.Work) (cur : Option Spec.SSess) (now : Int) (h : SaveHyp s w cur) :
    w.data.isEmpty = s.data.isEmpty ∧
    (((oldData cur).isEmpty && !w.data.isEmpty) || w.reset) = newSession s ∧
    Spec.sameMap w.data (oldData cur) = decide (s.data = s.copy) ∧
    (w.how == Spec.fixed) = (s.how == Gen.howFixed) ∧ (w.how == Spec.renew) = (s.how == Gen.howRenew) ∧
    (w.how == Spec.browser) = (s.how == Gen.howBrowser) ∧
    (∀ tdef, decide (10 * (now + w.age - oldDeadline cur) < w.age) = decide (Gen.delta now s.timeoutVal s.timeoutIn * Gen.renewDen < Gen.renewBase s.timeoutVal tdef * Gen.renewNum)) := by
  obtain ⟨hrel, hsd, hsc, hcopy, htin⟩ := h
  have e1 : w.data.isEmpty = s.data.isEmpty := by rw [← mapEq_isEmpty hrel.data, toS_isEmpty]
  have e2 : (oldData cur).isEmpty = s.copy.isEmpty := by rw [← mapEq_isEmpty hcopy, toS_isEmpty]
  refine ⟨e1, ?_, ?_, ?_, ?_, ?_, ?_⟩
  · simp only [newSession, e1, e2, hrel.reset]
  · rw [Bool.eq_iff_iff, sameMap_iff, decide_eq_true_eq, data_eq_iff _ _ hsd hsc]
    constructor
    · intro hm; exact hrel.data.trans (hm.trans hcopy.symm)
    · intro hm; exact hrel.data.symm.trans (hm.trans hcopy)
  · rw [← hrel.how]; rfl
  · rw [← hrel.how]; rfl
  · rw [← hrel.how]; rfl
  · intro tdef
    rw [← hrel.age, ← htin]
    simp only [Gen.delta, Gen.renewDen, Gen.renewNum, Gen.renewBase]
    apply decide_eq_decide.mpr
    omega


def errMatches : Spec.SErr → Err → Prop
  | .tooLong, e => e = .keyTooLong ∨ e = .valueTooLong
  | .cannotKeepOnServer, e => e = .cookiesOnServer
  | .badNumber, _ => False

/-- `save()` against `Spec.decideSave`: the same decision, and — for every token and every later instant —
the payload the token denotes afterwards. -/
theorem siSave_spec (ctx : Ctx) (s : Sess) (w : Spec.Work) (st : Store) (next : Nat) (cur : Option Spec.SSess)
    (h : SaveHyp s w cur) (he : EnvOK ctx.env) (hd : NoDupSid st.recs) :
    match Spec.decideSave (dfOf ctx.cfg) cur w ctx.now with
    | .cleared => ∃ st1 cs, siSave ctx s st next = .ok (st1, next, cs, .cleared) ∧
        ∀ t, ctx.now ≤ t → ∀ c2, aliveTok ctx.cfg ctx.env t st1.recs c2 =
          if (revocable ctx.cfg ctx.cookie && decide (c2 = ctx.cookie)) = true then none else aliveTok ctx.cfg ctx.env t st.recs c2
    | .untouched => siSave ctx s st next = .ok (st, next, [], .untouched)
    | .refused e => ∃ e', siSave ctx s st next = .error e' ∧ errMatches e e'
    | .saved ss fresh ca => ∃ st1 n1 cs temp ar, siSave ctx s st next = .ok (st1, n1, cs, .written temp) ∧
        saveData s.data = .ok ar ∧ MapEq (toS s.data) ss.data ∧ fresh = newSession s ∧ mkCookie ca temp [] ∈ cs ∧
        ∀ t, ctx.now ≤ t → ∀ c2, aliveTok ctx.cfg ctx.env t st1.recs c2 =
          if c2 = temp then aliveP t (some (ss.deadline, ar))
          else if (revocable ctx.cfg ctx.cookie && decide (c2 = ctx.cookie)) = true then none
          else aliveTok ctx.cfg ctx.env t st.recs c2 := by
  obtain ⟨c1, c2', c3, c4, c5, c6, c7⟩ := save_conditions s w cur ctx.now h
  have hlong := tooLong_iff s.data w.data h.sdata h.rel.data
  rw [decideSave_unfold, c2', c1, c3, c4, c5, c6, c7 ctx.cfg.timeoutDef]
  simp only [siSave]
  by_cases hem : s.data.isEmpty = true
  · -- cleared
    simp only [hem, if_true]
    by_cases hce : ctx.cookie.isEmpty = true
    · refine ⟨st, updateExposed ctx s true, by simp [hce], ?_⟩
      intro t _ c2
      have : revocable ctx.cfg ctx.cookie = false := by
        have : ctx.cookie = [] := by simpa using hce
        simp [revocable, this, validSid, Gen.sidCookieLen]
      simp [this]
    · refine ⟨(apiClear ctx st).1, (apiClear ctx st).2 ++ updateExposed ctx s true, by simp [hce], ?_⟩
      intro t ht c2
      exact apiClear_alive ctx st t c2 hd ht
  · simp only [hem, Bool.false_eq_true, if_false]
    by_cases hu1 : ((decide (s.data = s.copy) && !newSession s) && s.how == Gen.howFixed) = true
    · simp only [hu1, if_true]
    · simp only [hu1, Bool.false_eq_true, if_false]
      by_cases hu2 : ((decide (s.data = s.copy) && !newSession s) && (s.how == Gen.howRenew || s.how == Gen.howBrowser)
          && decide (Gen.delta ctx.now s.timeoutVal s.timeoutIn * Gen.renewDen < Gen.renewBase s.timeoutVal ctx.cfg.timeoutDef * Gen.renewNum)) = true
      · simp only [hu2, if_true]
      · simp only [hu2, Bool.false_eq_true, if_false]
        by_cases hl : Spec.tooLong w.data = true
        · simp only [hl, if_true]
          obtain ⟨e, hse⟩ := (saveData_throws_iff s.data).mpr (hlong.mp hl)
          exact ⟨e, by simp [hse], saveData_error_kind s.data e hse⟩
        · simp only [hl, Bool.false_eq_true, if_false]
          have hok : ∃ ar, saveData s.data = .ok ar := by
            cases hsd : saveData s.data with
            | ok ar => exact ⟨ar, rfl⟩
            | error e => exact absurd (hlong.mpr ((saveData_throws_iff s.data).mp ⟨e, hsd⟩)) hl
          obtain ⟨ar, har⟩ := hok
          obtain ⟨herr1, herr2⟩ := apiSave_error ctx st next ar (sessionAgeOf ctx s) (newSession s) s.onServer
          have hco : (dfOf ctx.cfg).clientOnly = (ctx.cfg.loc == .client) := rfl
          rw [hco, ← h.rel.srv]
          by_cases hsrv : (s.onServer && (ctx.cfg.loc == .client)) = true
          · simp only [hsrv, if_true]
            obtain ⟨e, hae⟩ := herr2.mpr hsrv
            exact ⟨e, by simp [har, hae], herr1 e hae⟩
          · simp only [hsrv, Bool.false_eq_true, if_false]
            cases hap : apiSave ctx st next ar (sessionAgeOf ctx s) (newSession s) s.onServer with
            | error e => exact absurd (herr2.mp ⟨e, hap⟩) hsrv
            | ok r =>
              obtain ⟨st1, n1, cs1, temp⟩ := r
              refine ⟨st1, n1, cs1 ++ [mkCookie (cookieAgeOf ctx s) temp []] ++ updateExposed ctx s (decide (s.data = s.copy) && !newSession s), temp, ar, by simp [har, hap], har, h.rel.data, trivial, ?_, ?_⟩
              · -- the session cookie carries the specification's cookie age
                have : (if (s.how == Gen.howBrowser) = true then 0
                    else if (s.how == Gen.howRenew || s.how == Gen.howFixed && newSession s) = true then w.age
                    else oldDeadline cur - ctx.now) = cookieAgeOf ctx s := by
                  rw [← h.rel.age, ← h.tin]
                  simp only [cookieAgeOf, Gen.cookieAge, Gen.howBrowser, Gen.howRenew, Gen.howFixed]
                  simp
                rw [this]
                simp
              · intro t ht c2
                have := apiSave_alive ctx st next ar (sessionAgeOf ctx s) (newSession s) s.onServer st1 n1 cs1 temp hap he hd t ht c2
                rw [this]
                have hdl : (if (s.how == Gen.howBrowser || s.how == Gen.howRenew || s.how == Gen.howFixed && newSession s) = true then ctx.now + w.age
                    else oldDeadline cur) = sessionAgeOf ctx s := by
                  rw [← h.rel.age, ← h.tin]
                  simp only [sessionAgeOf, Gen.sessionAge, Gen.howBrowser, Gen.howRenew, Gen.howFixed]
                  simp only [Bool.decide_eq_true, Int.add_comm]
                  by_cases hx : (s.how == 2 || s.how == 1 || s.how == 0 && newSession s) = true <;> simp [hx]
                simp only [hdl]

end Cppcms.C06
