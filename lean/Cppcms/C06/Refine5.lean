import Cppcms.C06.Refine4
/-!
# C06 refinement, layer 5: store invariants across requests
-/
namespace Cppcms.C06
open Cppcms

/-! ## invariants of the server store across requests -/

theorem apiSave_store (ctx : Ctx) (st : Store) (next : Nat) (data : Bytes) (timeout : Int) (isNew onServer : Bool)
    (st1 : Store) (n1 : Nat) (cs : List SetCookie) (temp : Bytes)
    (h : apiSave ctx st next data timeout isNew onServer = .ok (st1, n1, cs, temp)) (hd : NoDupSid st.recs) :
    NoDupSid st1.recs ∧ next ≤ n1 ∧
    ∀ x ∈ st1.recs, x ∈ st.recs ∨ (x.data = data ∧ ctx.cfg.loc ≠ .client ∧
      ((x.sid = ctx.env.sidOf next ∧ n1 = next + 1) ∨ (validSid ctx.cookie = some x.sid ∧ isNew = false))) := by
  have sidCase : ∀ st1 n1 temp, sidSave ctx st next data timeout isNew = (st1, n1, temp) → ctx.cfg.loc ≠ .client →
      NoDupSid st1.recs ∧ next ≤ n1 ∧
      ∀ x ∈ st1.recs, x ∈ st.recs ∨ (x.data = data ∧ ctx.cfg.loc ≠ .client ∧
        ((x.sid = ctx.env.sidOf next ∧ n1 = next + 1) ∨ (validSid ctx.cookie = some x.sid ∧ isNew = false))) := by
    intro st1 n1 temp hs hloc
    have h1 := sidSave_noDup ctx st next data timeout isNew hd
    have h2 := sidSave_mem ctx st next data timeout isNew
    have h3 := sidSave_next ctx st next data timeout isNew
    rw [hs] at h1 h2 h3
    simp only at h1 h2 h3
    refine ⟨h1, by rcases h3 with h3 | h3 <;> omega, ?_⟩
    intro x hx
    rcases h2 x hx with rfl | hx
    · right
      refine ⟨rfl, hloc, ?_⟩
      simp only
      rcases h3 with h3 | ⟨h3, h4⟩
      · -- identifier kept: only possible with a valid cookie and `isNew = false`
        right
        simp only [sidSaveId]
        cases hv : validSid ctx.cookie with
        | none => simp only [sidSave, hv] at hs; cases hs; omega
        | some id =>
          cases isNew with
          | false => simp
          | true => simp only [sidSave, hv, if_true] at hs; cases hs; omega
      · exact Or.inl ⟨h4, h3⟩
    · exact Or.inl hx
  rcases loc_cases ctx.cfg.loc with hl | hl | hl
  · simp only [apiSave, hl] at h
    rcases hs : sidSave ctx st next data timeout isNew with ⟨a, b, c⟩
    rw [hs] at h; simp only [Except.ok.injEq, Prod.mk.injEq] at h
    obtain ⟨rfl, rfl, _, _⟩ := h
    exact sidCase _ _ _ hs (by rw [hl]; simp)
  · simp only [apiSave, hl] at h
    cases hc : cookiesSave ctx data timeout onServer with
    | error e => rw [hc] at h; cases h
    | ok c =>
      rw [hc] at h; simp only [Except.ok.injEq, Prod.mk.injEq] at h
      obtain ⟨rfl, rfl, _, _⟩ := h
      exact ⟨hd, Nat.le_refl _, fun x hx => Or.inl hx⟩
  · simp only [apiSave, hl] at h
    by_cases hsrv : Gen.dualServerSide onServer data.length ctx.cfg.limit = true
    · simp only [hsrv, if_true] at h
      rcases hs : sidSave ctx st next data timeout isNew with ⟨a, b, c⟩
      rw [hs] at h; simp only [Except.ok.injEq, Prod.mk.injEq] at h
      obtain ⟨rfl, rfl, _, _⟩ := h
      exact sidCase _ _ _ hs (by rw [hl]; simp)
    · simp only [hsrv] at h
      cases hc : cookiesSave ctx data timeout false with
      | error e => rw [hc] at h; simp at h
      | ok c =>
        rw [hc] at h
        simp only [Bool.false_eq_true, if_false, Except.ok.injEq, Prod.mk.injEq] at h
        obtain ⟨rfl, rfl, _, _⟩ := h
        by_cases hf : firstIs ctx.cookie Gen.dualSaveSidChar = true
        · simp only [hf, if_true]
          exact ⟨sidClear_noDup ctx st hd, Nat.le_refl _, fun x hx => Or.inl (sidClear_mem ctx st x hx)⟩
        · simp only [hf]
          exact ⟨hd, Nat.le_refl _, fun x hx => Or.inl hx⟩

theorem siSave_store (ctx : Ctx) (s : Sess) (st : Store) (next : Nat) (st1 : Store) (n1 : Nat) (cs : List SetCookie) (k : SaveKind)
    (h : siSave ctx s st next = .ok (st1, n1, cs, k)) (hd : NoDupSid st.recs) :
    NoDupSid st1.recs ∧ next ≤ n1 ∧
    ∀ x ∈ st1.recs, x ∈ st.recs ∨ (saveData s.data = .ok x.data ∧ ctx.cfg.loc ≠ .client ∧
      ((x.sid = ctx.env.sidOf next ∧ n1 = next + 1) ∨ (validSid ctx.cookie = some x.sid ∧ newSession s = false ∧ s.data.isEmpty = false))) := by
  simp only [siSave] at h
  by_cases hem : s.data.isEmpty = true
  · simp only [hem, if_true] at h
    by_cases hce : ctx.cookie.isEmpty = true
    · simp only [hce, if_true, Except.ok.injEq, Prod.mk.injEq] at h
      obtain ⟨rfl, rfl, _, _⟩ := h
      exact ⟨hd, Nat.le_refl _, fun x hx => Or.inl hx⟩
    · simp only [hce, Bool.false_eq_true, if_false, Except.ok.injEq, Prod.mk.injEq] at h
      obtain ⟨rfl, rfl, _, _⟩ := h
      exact ⟨apiClear_noDup ctx st hd, Nat.le_refl _, fun x hx => Or.inl (apiClear_mem ctx st x hx)⟩
  · simp only [hem, Bool.false_eq_true, if_false] at h
    split at h
    · simp only [Except.ok.injEq, Prod.mk.injEq] at h
      obtain ⟨rfl, rfl, _, _⟩ := h
      exact ⟨hd, Nat.le_refl _, fun x hx => Or.inl hx⟩
    · split at h
      · simp only [Except.ok.injEq, Prod.mk.injEq] at h
        obtain ⟨rfl, rfl, _, _⟩ := h
        exact ⟨hd, Nat.le_refl _, fun x hx => Or.inl hx⟩
      · cases har : saveData s.data with
        | error e => rw [har] at h; cases h
        | ok ar =>
          rw [har] at h
          simp only at h
          cases hap : apiSave ctx st next ar (sessionAgeOf ctx s) (newSession s) s.onServer with
          | error e => rw [hap] at h; cases h
          | ok r =>
            obtain ⟨st2, n2, cs2, temp⟩ := r
            rw [hap] at h
            simp only [Except.ok.injEq, Prod.mk.injEq] at h
            obtain ⟨rfl, rfl, _, _⟩ := h
            obtain ⟨h1, h2, h3⟩ := apiSave_store ctx st next ar _ _ _ _ _ _ _ hap hd
            refine ⟨h1, h2, fun x hx => ?_⟩
            rcases h3 x hx with hx | ⟨hx1, hx2, hx3⟩
            · exact Or.inl hx
            · refine Or.inr ⟨by rw [hx1], hx2, ?_⟩
              rcases hx3 with hx3 | hx3
              · exact Or.inl hx3
              · exact Or.inr ⟨hx3.1, hx3.2, by simpa using hem⟩

/-- what a session that was not created in this request was loaded from -/
theorem loaded_of_copy (ctx : Ctx) (st : Store) (s0 : Sess) (st1 : Store) (cs : List SetCookie)
    (hL : siLoad ctx st = (.ok s0, st1, cs)) (hne : s0.copy.isEmpty = false) :
    ∃ p, aliveTok ctx.cfg ctx.env ctx.now st.recs ctx.cookie = some p := by
  have h1 := apiLoad_fst ctx st
  simp only [siLoad] at hL
  rcases hA : apiLoad ctx st with ⟨ra, sta, csa⟩
  rw [hA] at hL h1
  simp only at h1
  cases ra with
  | none =>
    simp only [Prod.mk.injEq, Except.ok.injEq] at hL
    obtain ⟨rfl, _, _⟩ := hL
    simp [emptySess] at hne
  | some p => exact ⟨p, h1.symm⟩

theorem sid_in_store (cfg : Cfg) (env : Env) (t : Int) (recs : List Rec) (c id : Bytes) (p : Int × Bytes)
    (hv : validSid c = some id) (hloc : cfg.loc ≠ .client) (h : aliveTok cfg env t recs c = some p) :
    ∃ r ∈ recs, r.sid = id := by
  have hp : aliveP t (sidPayload recs c) = some p := by
    simp only [aliveTok, tokPayload] at h
    rcases loc_cases cfg.loc with hl | hl | hl
    · rw [hl] at h; exact h
    · exact absurd hl hloc
    · rw [hl] at h; simp only [(firstIs_sid hv).1, Bool.false_eq_true, if_false] at h; exact h
  rw [aliveP_sidPayload, hv] at hp
  simp only [aliveLookup, lookupRec] at hp
  cases hf : findRec id recs with
  | none => rw [hf] at hp; simp [aliveP] at hp
  | some r => exact ⟨r, (findRec_mem hf).1, (findRec_mem hf).2⟩

/-- the store invariant: one record per key, every record is a serialised well-formed map, every key was
drawn from the identifier stream -/
structure StoreInv (env : Env) (st : Store) (next : Nat) : Prop where
  nodup : NoDupSid st.recs
  wf : ∀ r ∈ st.recs, WFpayload r.data
  issued : ∀ r ∈ st.recs, ∃ m, m < next ∧ r.sid = env.sidOf m

/-- a presented cookie is admissible when, if it decrypts at all, it decrypts to a serialised well-formed
map — i.e. it was produced by this server ("dec of anything not produced by enc is none") -/
def Admissible (env : Env) (c : Bytes) : Prop := ∀ p, cookiePayload env c = some p → WFpayload p.2

theorem presented_wf (cfg : Cfg) (env : Env) (st : Store) (next : Nat) (t : Int) (c : Bytes)
    (hi : StoreInv env st next) (ha : Admissible env c) :
    ∀ p, aliveTok cfg env t st.recs c = some p → WFpayload p.2 := by
  intro p hp
  have key : ∀ q, tokPayload cfg env st.recs c = some q → WFpayload q.2 := by
    intro q hq
    have sidc : sidPayload st.recs c = some q → WFpayload q.2 := by
      intro h
      simp only [sidPayload] at h
      cases hv : validSid c with
      | none => rw [hv] at h; cases h
      | some id =>
        rw [hv] at h
        simp only [lookupRec] at h
        cases hf : findRec id st.recs with
        | none => rw [hf] at h; cases h
        | some r => rw [hf] at h; cases h; exact hi.wf r (findRec_mem hf).1
    simp only [tokPayload] at hq
    rcases loc_cases cfg.loc with hl | hl | hl
    · rw [hl] at hq; exact sidc hq
    · rw [hl] at hq; exact ha q hq
    · rw [hl] at hq
      simp only at hq
      split at hq
      · exact ha q hq
      · exact sidc hq
  simp only [aliveTok] at hp
  cases hq : tokPayload cfg env st.recs c with
  | none => rw [hq] at hp; cases hp
  | some q =>
    rw [hq] at hp
    simp only [aliveP] at hp
    split at hp
    · simp only [Option.some.injEq] at hp; rw [← hp]; exact key q hq
    · cases hp

theorem request_inv (ctx : Ctx) (st : Store) (next : Nat) (ops : List Op)
    (hi : StoreInv ctx.env st next) (ha : Admissible ctx.env ctx.cookie) :
    StoreInv ctx.env (request ctx st next ops).store (request ctx st next ops).next ∧ next ≤ (request ctx st next ops).next := by
  have hst1 : (siLoad ctx st).2.1 = (apiLoad ctx st).2.1 := by
    simp only [siLoad]; rcases apiLoad ctx st with ⟨r, st1, cs⟩; cases r <;> rfl
  have hnd := apiLoad_noDup ctx st hi.nodup
  have hmem := apiLoad_mem ctx st
  have hwf := presented_wf ctx.cfg ctx.env st next ctx.now ctx.cookie hi ha
  have hls := siLoad_spec ctx st hwf
  rcases hL : siLoad ctx st with ⟨r, st1, cs⟩
  rw [hL] at hst1
  simp only at hst1
  have inv1 : StoreInv ctx.env st1 next := by
    rw [hst1]
    exact ⟨hnd, fun r hr => hi.wf r (hmem r hr), fun r hr => hi.issued r (hmem r hr)⟩
  cases r with
  | error e =>
    simp only [request, hL]
    exact ⟨inv1, Nat.le_refl _⟩
  | ok s0 =>
    obtain ⟨hq1, hq2, hq3⟩ := request_of_load_ok ctx st next ops s0 st1 cs hL
    cases hS : siSave ctx (applyOps ctx.cfg ctx.env s0 ops) st1 next with
    | error e =>
      obtain ⟨_, e2, e3, _⟩ := hq2 e hS
      rw [e2, e3]; exact ⟨inv1, Nat.le_refl _⟩
    | ok res =>
      obtain ⟨st2, n2, cs2, k⟩ := res
      obtain ⟨_, e2, e3, _⟩ := hq3 st2 n2 cs2 k hS
      rw [e2, e3]
      obtain ⟨h1, h2, h3⟩ := siSave_store ctx _ st1 next st2 n2 cs2 k hS inv1.nodup
      -- facts about the loaded session
      have hsorted : Sorted (applyOps ctx.cfg ctx.env s0 ops).data ∧ (s0.copy.isEmpty = false → ∃ p, aliveTok ctx.cfg ctx.env ctx.now st.recs ctx.cookie = some p) := by
        refine ⟨?_, fun hne => loaded_of_copy ctx st s0 st1 cs hL hne⟩
        cases hsl : Spec.specLoad (numOf ctx.env) (dfOf ctx.cfg) (Spec.alive ctx.now (absTok ctx.cfg ctx.env st.recs ctx.cookie)) with
        | error e => rw [hsl, hL] at hls; simp only at hls; cases hls
        | ok w0 =>
          rw [hsl, hL] at hls
          simp only at hls
          obtain ⟨s0', e1, _, e3, _⟩ := hls
          cases e1
          exact applyOps_sorted _ _ _ _ e3
      refine ⟨⟨h1, ?_, ?_⟩, h2⟩
      · intro x hx
        rcases h3 x hx with hx | ⟨hx1, _, _⟩
        · exact inv1.wf x hx
        · refine ⟨_, hsorted.1, ?_, hx1⟩
          intro q hq
          exact Classical.byContradiction fun hn => by
            obtain ⟨e, he'⟩ := (saveData_throws_iff _).mpr ⟨q, hq, hn⟩
            rw [hx1] at he'; cases he'
      · intro x hx
        rcases h3 x hx with hx | ⟨_, hloc, hx3⟩
        · obtain ⟨m, hm1, hm2⟩ := inv1.issued x hx
          exact ⟨m, by omega, hm2⟩
        · rcases hx3 with ⟨hx3, hx4⟩ | ⟨hx3, hx4⟩
          · exact ⟨next, by omega, hx3⟩
          · -- identifier kept: the session was loaded from the store under this identifier
            have hne : s0.copy.isEmpty = false := by
              have hc := (applyOps_copy ctx.cfg ctx.env ops s0).1
              obtain ⟨hx4, hx5⟩ := hx4
              simp only [newSession, Bool.or_eq_false_iff, Bool.and_eq_false_iff] at hx4
              rw [hc] at hx4
              rcases hx4.1 with h | h
              · exact h
              · simp [hx5] at h
            obtain ⟨p, hp⟩ := hsorted.2 hne
            obtain ⟨r, hr1, hr2⟩ := sid_in_store ctx.cfg ctx.env ctx.now st.recs ctx.cookie x.sid p hx3 hloc hp
            obtain ⟨m, hm1, hm2⟩ := hi.issued r hr1
            exact ⟨m, by omega, by rw [← hr2]; exact hm2⟩
end Cppcms.C06
