import Cppcms.C06.Refine8
/-!
# C06 refinement, layer 9: the storage access log
-/
namespace Cppcms.C06
open Cppcms

/-! ## every call of the `session_storage` interface is addressed with an identifier of the issued form -/

def LogOK (l : List (StOp × Bytes)) : Prop := ∀ e ∈ l, Spec.wellFormedId e.2 = true

theorem wf_of_valid {c id : Bytes} (h : validSid c = some id) : Spec.wellFormedId id = true := ((validSid_iff c id).mp h).2

theorem logOK_cons {o : StOp} {k : Bytes} {l : List (StOp × Bytes)} (hk : Spec.wellFormedId k = true) (h : LogOK l) : LogOK ((o, k) :: l) := by
  intro e he
  rcases List.mem_cons.mp he with rfl | he
  · exact hk
  · exact h e he

theorem Store.save_log (k : Kind) (now : Int) (sid : Bytes) (to : Int) (d : Bytes) (st : Store)
    (hs : Spec.wellFormedId sid = true) (h : LogOK st.log) : LogOK (st.save k now sid to d).log := by
  cases k <;> exact logOK_cons hs h

theorem Store.load_log (k : Kind) (now : Int) (sid : Bytes) (st : Store)
    (hs : Spec.wellFormedId sid = true) (h : LogOK st.log) : LogOK (st.load k now sid).2.log := by
  simp only [Store.load]
  cases findRec sid st.recs with
  | none => exact logOK_cons hs h
  | some r =>
    cases k with
    | memory => simp only; split <;> exact logOK_cons hs h
    | files => simp only; split <;> exact logOK_cons hs h

theorem Store.remove_log (k : Kind) (now : Int) (sid : Bytes) (st : Store)
    (hs : Spec.wellFormedId sid = true) (h : LogOK st.log) : LogOK (st.remove k now sid).log := by
  cases k with
  | memory =>
    simp only [Store.remove]
    cases findRec sid st.recs <;> exact logOK_cons hs h
  | files => exact logOK_cons hs h

theorem sidLoad_log (ctx : Ctx) (st : Store) (h : LogOK st.log) : LogOK (sidLoad ctx st).2.log := by
  simp only [sidLoad]
  cases hv : validSid ctx.cookie with
  | none => exact h
  | some id =>
    simp only
    have hl := Store.load_log ctx.cfg.kind ctx.now id st (wf_of_valid hv) h
    rcases hL : st.load ctx.cfg.kind ctx.now id with ⟨r, st1⟩
    rw [hL] at hl
    cases r with
    | none => exact hl
    | some p =>
      obtain ⟨to, d⟩ := p
      simp only
      split
      · exact Store.remove_log _ _ _ _ (wf_of_valid hv) hl
      · exact hl

theorem sidSave_log (ctx : Ctx) (st : Store) (next : Nat) (data : Bytes) (timeout : Int) (isNew : Bool)
    (he : EnvOK ctx.env) (h : LogOK st.log) : LogOK (sidSave ctx st next data timeout isNew).1.log := by
  simp only [sidSave]
  cases hv : validSid ctx.cookie with
  | none => exact Store.save_log _ _ _ _ _ _ (he.sid_form next) h
  | some id =>
    cases isNew with
    | false => exact Store.save_log _ _ _ _ _ _ (wf_of_valid hv) h
    | true => exact Store.save_log _ _ _ _ _ _ (he.sid_form next) (Store.remove_log _ _ _ _ (wf_of_valid hv) h)

theorem sidClear_log (ctx : Ctx) (st : Store) (h : LogOK st.log) : LogOK (sidClear ctx st).1.log := by
  simp only [sidClear]
  cases hv : validSid ctx.cookie with
  | none => exact h
  | some id => exact Store.remove_log _ _ _ _ (wf_of_valid hv) h

theorem apiLoad_log (ctx : Ctx) (st : Store) (h : LogOK st.log) : LogOK (apiLoad ctx st).2.1.log := by
  simp only [apiLoad]
  cases ctx.cfg.loc with
  | server => exact sidLoad_log ctx st h
  | client => exact h
  | both =>
    simp only
    split
    · exact h
    · exact sidLoad_log ctx st h

theorem apiClear_log (ctx : Ctx) (st : Store) (h : LogOK st.log) : LogOK (apiClear ctx st).1.log := by
  simp only [apiClear]
  cases ctx.cfg.loc with
  | server => exact sidClear_log ctx st h
  | client => exact h
  | both =>
    simp only
    split
    · exact h
    · exact sidClear_log ctx st h

theorem apiSave_log (ctx : Ctx) (st : Store) (next : Nat) (data : Bytes) (timeout : Int) (isNew onServer : Bool)
    (st1 : Store) (n1 : Nat) (cs : List SetCookie) (temp : Bytes)
    (hs : apiSave ctx st next data timeout isNew onServer = .ok (st1, n1, cs, temp))
    (he : EnvOK ctx.env) (h : LogOK st.log) : LogOK st1.log := by
  rcases loc_cases ctx.cfg.loc with hl | hl | hl
  · simp only [apiSave, hl] at hs
    cases hs
    exact sidSave_log ctx st next data timeout isNew he h
  · simp only [apiSave, hl] at hs
    cases hc : cookiesSave ctx data timeout onServer with
    | error e => rw [hc] at hs; cases hs
    | ok c => rw [hc] at hs; cases hs; exact h
  · simp only [apiSave, hl] at hs
    by_cases hsrv : Gen.dualServerSide onServer data.length ctx.cfg.limit = true
    · simp only [hsrv, if_true] at hs
      cases hs
      exact sidSave_log ctx st next data timeout isNew he h
    · simp only [hsrv] at hs
      cases hc : cookiesSave ctx data timeout false with
      | error e => rw [hc] at hs; simp at hs
      | ok c =>
        rw [hc] at hs
        simp only [Bool.false_eq_true, if_false, Except.ok.injEq, Prod.mk.injEq] at hs
        obtain ⟨rfl, _, _, _⟩ := hs
        split
        · exact sidClear_log ctx st h
        · exact h

theorem siSave_log (ctx : Ctx) (s : Sess) (st : Store) (next : Nat) (st1 : Store) (n1 : Nat) (cs : List SetCookie) (k : SaveKind)
    (hs : siSave ctx s st next = .ok (st1, n1, cs, k)) (he : EnvOK ctx.env) (h : LogOK st.log) : LogOK st1.log := by
  simp only [siSave] at hs
  by_cases hem : s.data.isEmpty = true
  · simp only [hem, if_true] at hs
    by_cases hce : ctx.cookie.isEmpty = true
    · simp only [hce, if_true, Except.ok.injEq, Prod.mk.injEq] at hs
      obtain ⟨rfl, _, _, _⟩ := hs; exact h
    · simp only [hce, Bool.false_eq_true, if_false, Except.ok.injEq, Prod.mk.injEq] at hs
      obtain ⟨rfl, _, _, _⟩ := hs; exact apiClear_log ctx st h
  · simp only [hem, Bool.false_eq_true, if_false] at hs
    split at hs
    · simp only [Except.ok.injEq, Prod.mk.injEq] at hs; obtain ⟨rfl, _, _, _⟩ := hs; exact h
    · split at hs
      · simp only [Except.ok.injEq, Prod.mk.injEq] at hs; obtain ⟨rfl, _, _, _⟩ := hs; exact h
      · cases har : saveData s.data with
        | error e => rw [har] at hs; cases hs
        | ok ar =>
          rw [har] at hs
          simp only at hs
          cases hap : apiSave ctx st next ar (sessionAgeOf ctx s) (newSession s) s.onServer with
          | error e => rw [hap] at hs; cases hs
          | ok r =>
            obtain ⟨st2, n2, cs2, temp⟩ := r
            rw [hap] at hs
            simp only [Except.ok.injEq, Prod.mk.injEq] at hs
            obtain ⟨rfl, _, _, _⟩ := hs
            exact apiSave_log ctx st next ar _ _ _ _ _ _ _ hap he h

theorem request_log (ctx : Ctx) (st : Store) (next : Nat) (ops : List Op) (he : EnvOK ctx.env) (h : LogOK st.log) :
    LogOK (request ctx st next ops).store.log := by
  have hst1 : (siLoad ctx st).2.1 = (apiLoad ctx st).2.1 := by
    simp only [siLoad]; rcases apiLoad ctx st with ⟨r, st1, cs⟩; cases r <;> rfl
  have h1 := apiLoad_log ctx st h
  rcases hL : siLoad ctx st with ⟨r, st1, cs⟩
  rw [hL] at hst1
  simp only at hst1
  rw [← hst1] at h1
  cases r with
  | error e => simp only [request, hL]; exact h1
  | ok s0 =>
    obtain ⟨_, hq2, hq3⟩ := request_of_load_ok ctx st next ops s0 st1 cs hL
    cases hS : siSave ctx (applyOps ctx.cfg ctx.env s0 ops) st1 next with
    | error e => rw [(hq2 e hS).2.1]; exact h1
    | ok res =>
      obtain ⟨st2, n2, cs2, k⟩ := res
      rw [(hq3 st2 n2 cs2 k hS).2.1]
      exact siSave_log ctx _ st1 next st2 n2 cs2 k hS he h1


theorem run_log (cfg : Cfg) (env : Env) (st : Store) (next : Nat) (steps : List Step) (he : EnvOK env) (h : LogOK st.log) :
    LogOK (run cfg env st next steps).1.log := by
  induction steps generalizing st next with
  | nil => exact h
  | cons s rest ih => exact ih _ _ (request_log (stepCtx cfg env s) st next s.ops he h)

end Cppcms.C06
