import Cppcms.Common
/-!
# C06 specification side (independent of `Gen.lean` and `Model.lean`)

The abstract state is a partial map from *tokens* (whatever a browser holds as its session cookie) to
sessions: `Tok → Option {data, exposed flags, deadline}`; age / expiration mode / on-server flag are the
entries `_t` / `_h` / `_s` of the data, which is how the interface persists them.  There are no cookies
formats, no identifiers syntax, no storages, no `packed` records and no `data_copy_` here — only

* what a request presenting a token reads (`alive`: the token's session while `now ≤ deadline`, else nothing),
* how the mutators act on the working copy (`applyOp`),
* what `save` decides (`decideSave`: cleared / untouched / saved with which deadline / refused),
* how the token map changes (`apply`): a *revocable* (server-side) token that is replaced or cleared
  denotes nothing afterwards; other tokens are untouched.

`specLoad`/`decideSave` are executable: the driver's `J` lines run them on the implementation's outputs.
-/
namespace Cppcms.C06.Spec
open Cppcms

/-- `lookup` is first-match; `put` keeps at most one binding per key -/
abbrev SData := List (Bytes × Bytes × Bool)

def lookup (k : Bytes) : SData → Option (Bytes × Bool)
  | [] => none
  | (k', v) :: rest => if k' = k then some v else lookup k rest

def del (k : Bytes) (d : SData) : SData := d.filter (fun p => p.1 != k)
def put (k : Bytes) (v : Bytes × Bool) (d : SData) : SData := (k, v) :: del k d

/-- equality as maps -/
def sameMap (a b : SData) : Bool :=
  (a.all fun p => lookup p.1 a == lookup p.1 b) && (b.all fun p => lookup p.1 a == lookup p.1 b)

structure SSess where
  data : SData
  deadline : Int

/-- decimal `int` conversions of the classic locale, as far as the interface's own writers produce them -/
structure Num where
  showInt : Int → Bytes
  readInt : Bytes → Option Int

/-- the three expiration modes -/
def fixed : Int := 0
def renew : Int := 1
def browser : Int := 2

def keyT : Bytes := [95, 116]   -- "_t"
def keyH : Bytes := [95, 104]   -- "_h"
def keyS : Bytes := [95, 115]   -- "_s"

structure Defaults where
  age : Int
  how : Int
  clientOnly : Bool     -- session.location = client: nothing can be kept on the server

inductive SErr where
  | badNumber        -- `_t`/`_h`/`_s` does not hold a number
  | tooLong          -- a key of 1024 bytes or more, or a value of 2 MiB or more
  | cannotKeepOnServer
deriving DecidableEq, Repr

/-- the working copy of a request -/
structure Work where
  data : SData
  age : Int
  how : Int
  srv : Bool
  reset : Bool

def alive (now : Int) : Option SSess → Option SSess
  | none => none
  | some s => if now ≤ s.deadline then some s else none

def numOr (n : Num) (d : SData) (k : Bytes) (dflt : Int) : Except SErr Int :=
  match lookup k d with
  | none => .ok dflt
  | some (v, _) =>
    match n.readInt v with
    | none => .error .badNumber
    | some x => .ok x

/-- what a request sees after loading: the token's session, or the empty session with the defaults -/
def specLoad (n : Num) (df : Defaults) (cur : Option SSess) : Except SErr Work :=
  match cur with
  | none => .ok ⟨[], df.age, df.how, false, false⟩
  | some s =>
    match numOr n s.data keyT df.age, numOr n s.data keyH df.how, numOr n s.data keyS 0 with
    | .ok a, .ok h, .ok v => .ok ⟨s.data, a, h, v % 2 == 1, false⟩
    | .error e, _, _ => .error e
    | _, .error e, _ => .error e
    | _, _, .error e => .error e

inductive SOp where
  | set (k v : Bytes) | erase (k : Bytes) | clear | expose (k : Bytes) | hide (k : Bytes)
  | age (t : Int) | defaultAge | expiration (h : Int) | defaultExpiration | onServer (b : Bool) | resetSession

def setVal (k v : Bytes) (d : SData) : SData :=
  match lookup k d with
  | some (_, e) => put k (v, e) d
  | none => put k (v, false) d

def setExp (k : Bytes) (b : Bool) (d : SData) : SData :=
  match lookup k d with
  | some (v, _) => put k (v, b) d
  | none => put k ([], b) d

def applyOp (n : Num) (df : Defaults) (w : Work) : SOp → Work
  | .set k v => { w with data := setVal k v w.data }
  | .erase k => { w with data := del k w.data }
  | .clear => { w with data := [] }
  | .expose k => { w with data := setExp k true w.data }
  | .hide k => { w with data := setExp k false w.data }
  | .age t => { w with age := t, data := setVal keyT (n.showInt t) w.data }
  | .defaultAge => { w with age := df.age, data := del keyT w.data }
  | .expiration h => { w with how := h, data := setVal keyH (n.showInt h) w.data }
  | .defaultExpiration => { w with how := df.how, data := del keyH w.data }
  | .onServer b => { w with srv := b, data := setVal keyS (n.showInt (if b then 1 else 0)) w.data }
  | .resetSession => { w with reset := true }

inductive Outcome where
  | cleared                                  -- the session is gone
  | untouched                                -- nothing is written, the token keeps denoting what it did
  | saved (s : SSess) (fresh : Bool) (cookieAge : Int)   -- `fresh`: a new session; a server-side id must be new
  | refused (e : SErr)                       -- `save` throws; nothing changes

/-- some key has 1024 bytes or more, or its (visible) value has 2 MiB or more -/
def tooLong (d : SData) : Bool :=
  d.any fun p => match lookup p.1 d with
    | some (v, _) => decide (p.1.length ≥ 1024) || decide (v.length ≥ 2097152)
    | none => false

/-- the decision of `save`, in terms of the session the token denoted (`cur`) and the working copy -/
def decideSave (df : Defaults) (cur : Option SSess) (w : Work) (now : Int) : Outcome :=
  let old : SData := match cur with | some s => s.data | none => []
  let isNew := (old.isEmpty && !w.data.isEmpty) || w.reset
  if w.data.isEmpty then .cleared
  else
    let unchanged := sameMap w.data old && !isNew
    let oldDeadline : Int := match cur with | some s => s.deadline | none => 0
    if unchanged && w.how == fixed then .untouched
    else if unchanged && (w.how == renew || w.how == browser) && decide (10 * (now + w.age - oldDeadline) < w.age) then .untouched
    else if tooLong w.data then .refused .tooLong
    else if w.srv && df.clientOnly then .refused .cannotKeepOnServer
    else
      let restart := w.how == browser || w.how == renew || (w.how == fixed && isNew)
      let deadline := if restart then now + w.age else oldDeadline
      let cookieAge : Int := if w.how == browser then 0 else if w.how == renew || (w.how == fixed && isNew) then w.age else oldDeadline - now
      .saved ⟨w.data, deadline⟩ isNew cookieAge

/-- the exposed values a browser must hold: entries flagged exposed with a non-empty value -/
def exposedOf (d : SData) : List (Bytes × Bytes) :=
  (d.filter fun p => p.2.2 && !p.2.1.isEmpty).map fun p => (p.1, p.2.1)

/-! ## token maps (used by the theorems; the judge keeps the same map as an association list) -/

abbrev Tok := Bytes
abbrev SpecW := Tok → Option SSess

def upd (w : SpecW) (t : Tok) (v : Option SSess) : SpecW := fun x => if x = t then v else w x

/-- effect of one request that presented token `c` and left the browser with token `c'`.
`revocable c`: `c` is a server-side identifier. -/
def apply (w : SpecW) (revocable : Tok → Bool) (c c' : Tok) : Outcome → SpecW
  | .cleared => if revocable c then upd w c none else w
  | .untouched => w
  | .refused _ => w
  | .saved s _ _ =>
    let w1 := if revocable c && c != c' then upd w c none else w
    upd w1 c' (some s)

end Cppcms.C06.Spec

/-! ## decimal `int` text (the driver's stand-in for `operator<<` / `operator>>` of the classic locale) -/
namespace Cppcms.C06.Spec
open Cppcms

def showNat (n : Nat) : Bytes := (Nat.toDigits 10 n).map fun c => UInt8.ofNat c.toNat

def showDec (i : Int) : Bytes := if i < 0 then 45 :: showNat (-i).toNat else showNat i.toNat

def isSpace (c : UInt8) : Bool := (9 ≤ c && c ≤ 13) || c == 32

def digitsVal : Bytes → Nat → Option Nat
  | [], acc => some acc
  | c :: rest, acc => if 48 ≤ c && c ≤ 57 then digitsVal rest (acc * 10 + (c.toNat - 48)) else none

/-- `istringstream >> int` followed by the `eof` test of `session_interface::get<int>`:
leading white space, optional sign, at least one digit, nothing after, value representable in `int` -/
def readDec (s : Bytes) : Option Int :=
  let s := s.dropWhile isSpace
  let (neg, ds) := match s with
    | 45 :: r => (true, r)
    | 43 :: r => (false, r)
    | r => (false, r)
  if ds.isEmpty then none
  else match digitsVal ds 0 with
    | none => none
    | some n =>
      let v : Int := if neg then -(n : Int) else n
      if -2147483648 ≤ v && v ≤ 2147483647 then some v else none

def decimal : Num := ⟨showDec, readDec⟩

/-- an identifier of the issued form: 32 lower-case hexadecimal digits -/
def wellFormedId (id : Bytes) : Bool :=
  id.length == 32 && id.all fun c => (48 ≤ c && c ≤ 57) || (97 ≤ c && c ≤ 102)

end Cppcms.C06.Spec
