import Cppcms.C06.Refine6
/-!
# C06 refinement, layer 7: dead tokens stay dead; histories
-/
namespace Cppcms.C06
open Cppcms

theorem numOr_congr (n : Spec.Num) (a b : Spec.SData) (h : MapEq a b) (k : Bytes) (d : Int) : Spec.numOr n a k d = Spec.numOr n b k d := by
  simp only [Spec.numOr, h k]

theorem specLoad_congr (n : Spec.Num) (df : Spec.Defaults) (a b : Option Spec.SSess) (h : SEq a b) :
    match Spec.specLoad n df a, Spec.specLoad n df b with
    | .ok x, .ok y => MapEq x.data y.data ∧ x.age = y.age ∧ x.how = y.how ∧ x.srv = y.srv
    | .error _, .error _ => True
    | _, _ => False := by
  cases a with
  | none =>
    cases b with
    | none => simp only [Spec.specLoad]; exact ⟨MapEq.refl _, trivial, trivial, trivial⟩
    | some y => simp [SEq] at h
  | some x =>
    cases b with
    | none => simp [SEq] at h
    | some y =>
      obtain ⟨hm, _⟩ := h
      simp only [Spec.specLoad, numOr_congr n x.data y.data hm]
      cases Spec.numOr n y.data Spec.keyT df.age <;> cases Spec.numOr n y.data Spec.keyH df.how <;>
        cases Spec.numOr n y.data Spec.keyS 0 <;> simp only <;> first | trivial | exact ⟨hm, rfl, rfl, rfl⟩

theorem apply_saved_at (w : Spec.SpecW) (rev : Spec.Tok → Bool) (c tok : Bytes) (ss : Spec.SSess) (f : Bool) (ca : Int) (x : Bytes) :
    Spec.apply w rev c tok (.saved ss f ca) x =
      if x = tok then some ss else if (rev c && c != tok) = true ∧ x = c then none else w x := by
  simp only [Spec.apply, upd_apply]
  by_cases h1 : x = tok
  · simp [h1]
  · simp only [h1, if_false]
    cases hb : (rev c && c != tok) with
    | false => simp
    | true =>
      simp only [if_true, upd_apply, true_and]

theorem apply_cleared_at (w : Spec.SpecW) (rev : Spec.Tok → Bool) (c tok : Bytes) (x : Bytes) :
    Spec.apply w rev c tok .cleared x = if rev c = true ∧ x = c then none else w x := by
  simp only [Spec.apply]
  cases hb : rev c with
  | false => simp
  | true => simp only [if_true, upd_apply, true_and]

theorem tokKnown_mono {env : Env} {n1 n2 : Nat} {c : Bytes} (h : TokKnown env n1 c) (hle : n1 ≤ n2) : TokKnown env n2 c := by
  rcases h with h | ⟨m, hm, rfl⟩ | h
  · exact Or.inl h
  · exact Or.inr (Or.inl ⟨m, by omega, rfl⟩)
  · exact Or.inr (Or.inr h)

/-- a token that denotes nothing (any more) keeps denoting nothing after any request, whoever sends it and
whatever cookie it presents — in particular the very token itself -/
theorem dead_step (ctx : Ctx) (st : Store) (next : Nat) (ops : List Op) (c2 : Bytes)
    (he : EnvOK ctx.env) (bound : Nat) (hf : Fresh ctx.env bound) (hb : (request ctx st next ops).next ≤ bound)
    (hi : StoreInv ctx.env st next) (ha : Admissible ctx.env ctx.cookie)
    (hnC : firstIs c2 67 = false) (hk : TokKnown ctx.env next c2)
    (hdead : ∀ t, ctx.now ≤ t → Spec.alive t (absTok ctx.cfg ctx.env st.recs c2) = none) :
    ∀ t, ctx.now ≤ t → Spec.alive t (absTok ctx.cfg ctx.env (request ctx st next ops).store.recs c2) = none := by
  intro t ht
  by_cases hne : c2 = ctx.cookie
  · subst hne
    have hwf := presented_wf ctx.cfg ctx.env st next ctx.now ctx.cookie hi ha
    have href := request_refines ctx st next ops he hi.nodup hwf
    have hls := siLoad_spec ctx st hwf
    have hcur : Spec.alive ctx.now (absTok ctx.cfg ctx.env st.recs ctx.cookie) = none := hdead ctx.now (Int.le_refl _)
    rw [hcur] at href hls
    simp only [Spec.specLoad] at href hls
    obtain ⟨r, _, _, href⟩ := href
    obtain ⟨s0, hs0, _, _, _, hcopy⟩ := hls
    cases hout : Spec.decideSave (dfOf ctx.cfg) none
        ((ops.map specOp).foldl (Spec.applyOp (numOf ctx.env) (dfOf ctx.cfg)) ⟨[], (dfOf ctx.cfg).age, (dfOf ctx.cfg).how, false, false⟩) ctx.now with
    | refused e =>
      rw [hout] at href
      obtain ⟨_, _, _, h3⟩ := href
      have := h3 t ht ctx.cookie
      rw [hdead t ht] at this
      exact SEq_none this
    | cleared =>
      rw [hout] at href
      obtain ⟨k, _, _, h3⟩ := href
      have := h3 t ht ctx.cookie
      rw [apply_cleared_at] at this
      split at this
      · exact SEq_none this
      · rw [hdead t ht] at this; exact SEq_none this
    | untouched =>
      rw [hout] at href
      obtain ⟨k, _, _, h3⟩ := href
      have := h3 t ht ctx.cookie
      simp only [Spec.apply] at this
      rw [hdead t ht] at this; exact SEq_none this
    | saved ss f ca =>
      rw [hout] at href
      obtain ⟨k, hk1, hk2, h3⟩ := href
      cases k with
      | cleared => cases hk2
      | untouched => cases hk2
      | written tok =>
        have hnt : ctx.cookie ≠ tok := by
          rcases request_token_form ctx st next ops tok hk1 with ⟨to, d, rfl⟩ | ⟨rfl, hn⟩ | ⟨_, _, _, s0', st1, cs, hL, hns, hdne⟩
          · intro e; rw [e] at hnC; simp [firstIs] at hnC
          · rcases hk with h | ⟨m, hm, h⟩ | h
            · rw [h] at hnC; cases hnC
            · intro e; rw [h] at e
              have := hf m next (by omega) (by omega) (by simpa using e)
              omega
            · exact h next
          · -- an identifier is only kept by a session that was loaded; nothing was
            exfalso
            rw [hL] at hs0
            simp only [Except.ok.injEq] at hs0
            subst hs0
            have hc := (applyOps_copy ctx.cfg ctx.env ops s0').1
            simp only [newSession, hc, hcopy, hdne, List.isEmpty_nil, Bool.not_false, Bool.and_self, Bool.true_or] at hns
            cases hns
        have := h3 t ht ctx.cookie
        rw [apply_saved_at] at this
        simp only [tokenOf, hnt, if_false] at this
        split at this
        · exact SEq_none this
        · rw [hdead t ht] at this; exact SEq_none this
  · have := request_frame ctx st next ops c2 he bound hf hb hi ha hne hk t ht
    rw [hdead t ht] at this
    exact SEq_none this

/-! ## histories -/

/-- one request of a history: who-ever sends it presents `cookie` (anything) and `names` -/
structure Step where
  cookie : Bytes
  names : List Key
  now : Int
  ops : List Op

def stepCtx (cfg : Cfg) (env : Env) (s : Step) : Ctx := ⟨cfg, env, s.now, s.cookie, s.names⟩

def run (cfg : Cfg) (env : Env) : Store → Nat → List Step → Store × Nat
  | st, next, [] => (st, next)
  | st, next, s :: rest =>
    run cfg env (request (stepCtx cfg env s) st next s.ops).store (request (stepCtx cfg env s) st next s.ops).next rest

/-- the clock never goes back (from `now0` on) and every presented cookie is admissible -/
def HistOK (env : Env) : Int → List Step → Prop
  | _, [] => True
  | now0, s :: rest => now0 ≤ s.now ∧ Admissible env s.cookie ∧ HistOK env s.now rest

def lastNow : Int → List Step → Int
  | now0, [] => now0
  | _, s :: rest => lastNow s.now rest

theorem lastNow_ge (env : Env) (now0 : Int) (steps : List Step) (h : HistOK env now0 steps) : now0 ≤ lastNow now0 steps := by
  induction steps generalizing now0 with
  | nil => exact Int.le_refl _
  | cons s rest ih =>
    obtain ⟨h1, _, h3⟩ := h
    have := ih s.now h3
    simp only [lastNow]; omega

theorem run_inv (cfg : Cfg) (env : Env) (st : Store) (next : Nat) (now0 : Int) (steps : List Step)
    (hi : StoreInv env st next) (h : HistOK env now0 steps) :
    StoreInv env (run cfg env st next steps).1 (run cfg env st next steps).2 ∧ next ≤ (run cfg env st next steps).2 := by
  induction steps generalizing st next now0 with
  | nil => exact ⟨hi, Nat.le_refl _⟩
  | cons s rest ih =>
    obtain ⟨_, h2, h3⟩ := h
    obtain ⟨i1, i2⟩ := request_inv (stepCtx cfg env s) st next s.ops hi h2
    obtain ⟨j1, j2⟩ := ih _ _ s.now i1 h3
    exact ⟨j1, Nat.le_trans i2 j2⟩

/-- requests that do not present `c2` leave what `c2` denotes alone, however many and whoever sends them -/
theorem run_frame (cfg : Cfg) (env : Env) (st : Store) (next : Nat) (now0 : Int) (steps : List Step) (c2 : Bytes)
    (he : EnvOK env) (bound : Nat) (hf : Fresh env bound) (hb : (run cfg env st next steps).2 ≤ bound)
    (hi : StoreInv env st next) (h : HistOK env now0 steps)
    (hne : ∀ s ∈ steps, s.cookie ≠ c2) (hk : TokKnown env next c2) :
    ∀ t, lastNow now0 steps ≤ t →
      SEq (Spec.alive t (absTok cfg env (run cfg env st next steps).1.recs c2)) (Spec.alive t (absTok cfg env st.recs c2)) := by
  induction steps generalizing st next now0 with
  | nil => intro t _; exact SEq.rfl' _
  | cons s rest ih =>
    obtain ⟨_, h2, h3⟩ := h
    intro t ht
    obtain ⟨i1, i2⟩ := request_inv (stepCtx cfg env s) st next s.ops hi h2
    have hb1 : (request (stepCtx cfg env s) st next s.ops).next ≤ bound :=
      Nat.le_trans (run_inv cfg env _ _ s.now rest i1 h3).2 hb
    have hstep := request_frame (stepCtx cfg env s) st next s.ops c2 he bound hf hb1 hi h2
      (fun e => hne s (List.mem_cons_self ..) e.symm) hk t
      (by have := lastNow_ge env s.now rest h3; simp only [lastNow] at ht; simp only [stepCtx]; omega)
    have hrest := ih _ _ s.now hb i1 h3 (fun x hx => hne x (List.mem_cons_of_mem _ hx)) (tokKnown_mono hk i2) t ht
    exact SEq.trans' hrest hstep

/-- a token that denotes nothing keeps denoting nothing through any history -/
theorem run_dead (cfg : Cfg) (env : Env) (st : Store) (next : Nat) (now0 : Int) (steps : List Step) (c2 : Bytes)
    (he : EnvOK env) (bound : Nat) (hf : Fresh env bound) (hb : (run cfg env st next steps).2 ≤ bound)
    (hi : StoreInv env st next) (h : HistOK env now0 steps)
    (hnC : firstIs c2 67 = false) (hk : TokKnown env next c2)
    (hdead : ∀ t, now0 ≤ t → Spec.alive t (absTok cfg env st.recs c2) = none) :
    ∀ t, lastNow now0 steps ≤ t → Spec.alive t (absTok cfg env (run cfg env st next steps).1.recs c2) = none := by
  induction steps generalizing st next now0 with
  | nil => exact hdead
  | cons s rest ih =>
    obtain ⟨h1, h2, h3⟩ := h
    obtain ⟨i1, i2⟩ := request_inv (stepCtx cfg env s) st next s.ops hi h2
    have hb1 : (request (stepCtx cfg env s) st next s.ops).next ≤ bound :=
      Nat.le_trans (run_inv cfg env _ _ s.now rest i1 h3).2 hb
    have hstep := dead_step (stepCtx cfg env s) st next s.ops c2 he bound hf hb1 hi h2 hnC hk
      (fun t ht => hdead t (by simp only [stepCtx] at ht; omega))
    exact ih _ _ s.now hb i1 h3 (tokKnown_mono hk i2) hstep

theorem storeInv_empty (env : Env) : StoreInv env ⟨[], []⟩ 0 :=
  ⟨trivial, fun _ h => (by cases h), fun _ h => (by cases h)⟩

end Cppcms.C06
