import Cppcms.C06.Refine5
/-!
# C06 refinement, layer 6: issued tokens and the frame theorem
-/
namespace Cppcms.C06
open Cppcms

/-! ## which token a request issues -/

theorem apiSave_token (ctx : Ctx) (st : Store) (next : Nat) (data : Bytes) (timeout : Int) (isNew onServer : Bool)
    (st1 : Store) (n1 : Nat) (cs : List SetCookie) (temp : Bytes)
    (h : apiSave ctx st next data timeout isNew onServer = .ok (st1, n1, cs, temp)) :
    (temp = ofNats Gen.cookiesSavePrefix ++ ctx.env.enc timeout data ∧ n1 = next) ∨
    (temp = UInt8.ofNat Gen.sidPrefix :: ctx.env.sidOf next ∧ n1 = next + 1) ∨
    (temp = ctx.cookie ∧ (validSid ctx.cookie).isSome = true ∧ isNew = false ∧ n1 = next ∧ ctx.cfg.loc ≠ .client) := by
  have sidCase : ∀ st1 n1 temp, sidSave ctx st next data timeout isNew = (st1, n1, temp) → ctx.cfg.loc ≠ .client →
      (temp = UInt8.ofNat Gen.sidPrefix :: ctx.env.sidOf next ∧ n1 = next + 1) ∨
      (temp = ctx.cookie ∧ (validSid ctx.cookie).isSome = true ∧ isNew = false ∧ n1 = next ∧ ctx.cfg.loc ≠ .client) := by
    intro st1 n1 temp hs hloc
    simp only [sidSave] at hs
    cases hv : validSid ctx.cookie with
    | none => rw [hv] at hs; simp only [Prod.mk.injEq] at hs; obtain ⟨_, rfl, rfl⟩ := hs; exact Or.inl ⟨rfl, rfl⟩
    | some id =>
      rw [hv] at hs
      cases isNew with
      | true => simp only [if_true, Prod.mk.injEq] at hs; obtain ⟨_, rfl, rfl⟩ := hs; exact Or.inl ⟨rfl, rfl⟩
      | false =>
        simp only [Bool.false_eq_true, if_false, Prod.mk.injEq] at hs
        obtain ⟨_, rfl, rfl⟩ := hs
        exact Or.inr ⟨(validSid_eq_cons hv).symm ▸ rfl, rfl, rfl, rfl, hloc⟩
  rcases loc_cases ctx.cfg.loc with hl | hl | hl
  · simp only [apiSave, hl] at h
    rcases hs : sidSave ctx st next data timeout isNew with ⟨a, b, c⟩
    rw [hs] at h; simp only [Except.ok.injEq, Prod.mk.injEq] at h
    obtain ⟨_, rfl, _, rfl⟩ := h
    exact Or.inr (sidCase _ _ _ hs (by rw [hl]; simp))
  · simp only [apiSave, hl, cookiesSave] at h
    cases onServer with
    | true => simp at h
    | false =>
      simp at h
      obtain ⟨_, rfl, _, rfl⟩ := h
      exact Or.inl ⟨rfl, rfl⟩
  · simp only [apiSave, hl] at h
    by_cases hsrv : Gen.dualServerSide onServer data.length ctx.cfg.limit = true
    · simp only [hsrv, if_true] at h
      rcases hs : sidSave ctx st next data timeout isNew with ⟨a, b, c⟩
      rw [hs] at h; simp only [Except.ok.injEq, Prod.mk.injEq] at h
      obtain ⟨_, rfl, _, rfl⟩ := h
      exact Or.inr (sidCase _ _ _ hs (by rw [hl]; simp))
    · simp only [hsrv, cookiesSave] at h
      simp at h
      obtain ⟨_, rfl, _, rfl⟩ := h
      exact Or.inl ⟨rfl, rfl⟩

/-- the shape of the token a request leaves the browser with, when `save()` wrote -/
theorem request_token_form (ctx : Ctx) (st : Store) (next : Nat) (ops : List Op) (tok : Bytes)
    (h : (request ctx st next ops).saved = .ok (.written tok)) :
    (∃ to d, tok = 67 :: ctx.env.enc to d) ∨
    (tok = 73 :: ctx.env.sidOf next ∧ (request ctx st next ops).next = next + 1) ∨
    (tok = ctx.cookie ∧ (validSid ctx.cookie).isSome = true ∧ ctx.cfg.loc ≠ .client ∧
      ∃ s0 st1 cs, siLoad ctx st = (.ok s0, st1, cs) ∧ newSession (applyOps ctx.cfg ctx.env s0 ops) = false ∧
        (applyOps ctx.cfg ctx.env s0 ops).data.isEmpty = false) := by
  rcases hL : siLoad ctx st with ⟨r, st1, cs⟩
  cases r with
  | error e => simp [request, hL] at h
  | ok s0 =>
    obtain ⟨_, hq2, hq3⟩ := request_of_load_ok ctx st next ops s0 st1 cs hL
    cases hS : siSave ctx (applyOps ctx.cfg ctx.env s0 ops) st1 next with
    | error e => rw [(hq2 e hS).1] at h; cases h
    | ok res =>
      obtain ⟨st2, n2, cs2, k⟩ := res
      obtain ⟨e1, _, e3, _⟩ := hq3 st2 n2 cs2 k hS
      rw [e1] at h
      cases h
      -- unfold `save()` down to `storage_->save`
      simp only [siSave] at hS
      by_cases hem : (applyOps ctx.cfg ctx.env s0 ops).data.isEmpty = true
      · simp only [hem, if_true] at hS
        split at hS <;> simp at hS
      · simp only [hem, Bool.false_eq_true, if_false] at hS
        split at hS
        · simp at hS
        · split at hS
          · simp at hS
          · cases har : saveData (applyOps ctx.cfg ctx.env s0 ops).data with
            | error e => rw [har] at hS; cases hS
            | ok ar =>
              rw [har] at hS
              simp only at hS
              cases hap : apiSave ctx st1 next ar (sessionAgeOf ctx (applyOps ctx.cfg ctx.env s0 ops)) (newSession (applyOps ctx.cfg ctx.env s0 ops)) (applyOps ctx.cfg ctx.env s0 ops).onServer with
              | error e => rw [hap] at hS; cases hS
              | ok r =>
                obtain ⟨st3, n3, cs3, temp⟩ := r
                rw [hap] at hS
                simp only [Except.ok.injEq, Prod.mk.injEq, SaveKind.written.injEq] at hS
                obtain ⟨_, rfl, _, rfl⟩ := hS
                rcases apiSave_token ctx st1 next ar _ _ _ _ _ _ _ hap with ⟨h1, _⟩ | ⟨h1, h2⟩ | ⟨h1, h2, h3, _, h5⟩
                · exact Or.inl ⟨_, _, h1⟩
                · exact Or.inr (Or.inl ⟨h1, by rw [e3, h2]⟩)
                · exact Or.inr (Or.inr ⟨h1, h2, h5, s0, st1, cs, rfl, h3, by simpa using hem⟩)

/-! ## frame: tokens a request does not concern -/

/-- identifiers from the entropy source do not repeat among the first `bound` draws (there are only
`16^32` strings of the issued form, so this cannot be asked of all draws) -/
def Fresh (env : Env) (bound : Nat) : Prop := ∀ m n, m < bound → n < bound → env.sidOf m = env.sidOf n → m = n

/-- what is known about a token when we ask whether a request can disturb it: it is a client-side cookie,
or an identifier issued earlier, or a string the entropy source never produces (attacker-chosen) -/
def TokKnown (env : Env) (next : Nat) (c2 : Bytes) : Prop :=
  firstIs c2 67 = true ∨ (∃ m, m < next ∧ c2 = 73 :: env.sidOf m) ∨ (∀ n, c2 ≠ 73 :: env.sidOf n)

/-- client-side cookies denote the same session whatever the store -/
theorem absTok_C_indep (cfg : Cfg) (env : Env) (r1 r2 : List Rec) (c2 : Bytes) (h : firstIs c2 67 = true) :
    absTok cfg env r1 c2 = absTok cfg env r2 c2 := by
  have hv : validSid c2 = none := by
    cases hv : validSid c2 with
    | none => rfl
    | some id => rw [validSid_eq_cons hv] at h; simp [firstIs] at h
  simp only [absTok, tokPayload]
  rcases loc_cases cfg.loc with hl | hl | hl
  · rw [hl]; simp only [sidPayload, hv]
  · rw [hl]
  · rw [hl]
    have : firstIs c2 Gen.dualLoadClientChar = true := h
    simp only [this, if_true]

theorem apply_other (w : Spec.SpecW) (rev : Spec.Tok → Bool) (c tok c2 : Bytes) (out : Spec.Outcome)
    (h1 : c2 ≠ c) (h2 : ∀ ss f ca, out = .saved ss f ca → c2 ≠ tok) :
    Spec.apply w rev c tok out c2 = w c2 := by
  cases out with
  | cleared => simp only [Spec.apply]; split <;> simp [upd_apply, h1]
  | untouched => rfl
  | refused e => rfl
  | saved ss f ca =>
    have := h2 ss f ca rfl
    simp only [Spec.apply, upd_apply, this, if_false]
    split <;> simp [upd_apply, h1]

theorem SEq.trans' {a b c : Option Spec.SSess} (h1 : SEq a b) (h2 : SEq b c) : SEq a c := by
  cases a <;> cases b <;> cases c <;> simp only [SEq] at h1 h2 ⊢
  · exact ⟨h1.1.trans h2.1, h1.2.trans h2.2⟩

theorem SEq.symm' {a b : Option Spec.SSess} (h : SEq a b) : SEq b a := by
  cases a <;> cases b <;> simp only [SEq] at h ⊢
  · exact ⟨h.1.symm, h.2.symm⟩

theorem SEq_none {a : Option Spec.SSess} (h : SEq a none) : a = none := by
  cases a with
  | none => rfl
  | some x => simp [SEq] at h

/-- the store a request leaves when `load()` threw -/
theorem request_store_of_load_error (ctx : Ctx) (st : Store) (next : Nat) (ops : List Op) (e : Err)
    (h : (request ctx st next ops).reads = .error e) :
    (request ctx st next ops).store = (apiLoad ctx st).2.1 := by
  have hst1 : (siLoad ctx st).2.1 = (apiLoad ctx st).2.1 := by
    simp only [siLoad]; rcases apiLoad ctx st with ⟨r, st1, cs⟩; cases r <;> rfl
  rcases hL : siLoad ctx st with ⟨r, st1, cs⟩
  rw [hL] at hst1
  cases r with
  | error e' => simp only [request, hL]; exact hst1
  | ok s0 => rw [(request_of_load_ok ctx st next ops s0 st1 cs hL).1] at h; cases h

/-- **Frame.**  A request does not change what any *other* token denotes — neither another browser's
session nor anything an attacker holds — from the request's instant on. -/
theorem request_frame (ctx : Ctx) (st : Store) (next : Nat) (ops : List Op) (c2 : Bytes)
    (he : EnvOK ctx.env) (bound : Nat) (hf : Fresh ctx.env bound) (hb : (request ctx st next ops).next ≤ bound)
    (hi : StoreInv ctx.env st next) (ha : Admissible ctx.env ctx.cookie)
    (hne : c2 ≠ ctx.cookie) (hk : TokKnown ctx.env next c2) (t : Int) (ht : ctx.now ≤ t) :
    SEq (Spec.alive t (absTok ctx.cfg ctx.env (request ctx st next ops).store.recs c2))
        (Spec.alive t (absTok ctx.cfg ctx.env st.recs c2)) := by
  by_cases hC : firstIs c2 67 = true
  · rw [absTok_C_indep ctx.cfg ctx.env _ st.recs c2 hC]; exact SEq.rfl' _
  · have hnotC : firstIs c2 67 = true → False := hC
    have hk : (∃ m, m < next ∧ c2 = 73 :: ctx.env.sidOf m) ∨ (∀ n, c2 ≠ 73 :: ctx.env.sidOf n) := by
      rcases hk with h | h
      · exact absurd h hC
      · exact h
    have hwf := presented_wf ctx.cfg ctx.env st next ctx.now ctx.cookie hi ha
    have href := request_refines ctx st next ops he hi.nodup hwf
    cases hsl : Spec.specLoad (numOf ctx.env) (dfOf ctx.cfg) (Spec.alive ctx.now (absTok ctx.cfg ctx.env st.recs ctx.cookie)) with
    | error e =>
      rw [hsl] at href
      simp only at href
      rw [request_store_of_load_error ctx st next ops _ href, alive_absTok, alive_absTok, store_frame_of_load ctx st hi.nodup t ht c2]
      exact SEq.rfl' _
    | ok w0 =>
      rw [hsl] at href
      simp only at href
      obtain ⟨r, _, _, href⟩ := href
      cases hout : Spec.decideSave (dfOf ctx.cfg) (Spec.alive ctx.now (absTok ctx.cfg ctx.env st.recs ctx.cookie))
          ((ops.map specOp).foldl (Spec.applyOp (numOf ctx.env) (dfOf ctx.cfg)) w0) ctx.now with
      | refused e =>
        rw [hout] at href
        obtain ⟨_, _, _, h3⟩ := href
        exact h3 t ht c2
      | cleared =>
        rw [hout] at href
        obtain ⟨k, _, _, h3⟩ := href
        have := h3 t ht c2
        rw [apply_other _ _ _ _ _ _ hne (by intro _ _ _ h; cases h)] at this
        exact this
      | untouched =>
        rw [hout] at href
        obtain ⟨k, _, _, h3⟩ := href
        have := h3 t ht c2
        rw [apply_other _ _ _ _ _ _ hne (by intro _ _ _ h; cases h)] at this
        exact this
      | saved ss f ca =>
        rw [hout] at href
        obtain ⟨k, hk1, hk2, h3⟩ := href
        cases k with
        | cleared => cases hk2
        | untouched => cases hk2
        | written tok =>
          have := h3 t ht c2
          rw [apply_other _ _ _ _ _ _ hne (by
            intro _ _ _ _
            simp only [tokenOf]
            rcases request_token_form ctx st next ops tok hk1 with ⟨to, d, rfl⟩ | ⟨rfl, hn⟩ | ⟨rfl, _⟩
            · intro e; apply hnotC; rw [e]; rfl
            · rcases hk with ⟨m, hm, rfl⟩ | hk
              · intro e
                have := hf m next (by omega) (by omega) (by simpa using e)
                omega
              · exact hk next
            · exact hne)] at this
          exact this
end Cppcms.C06
