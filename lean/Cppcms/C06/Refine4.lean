import Cppcms.C06.Refine3
/-!
# C06 refinement, layer 4: one request against the token-level specification
-/
namespace Cppcms.C06
open Cppcms

/-- equality of abstract sessions up to the representation of the data map -/
def SEq : Option Spec.SSess → Option Spec.SSess → Prop
  | none, none => True
  | some x, some y => MapEq x.data y.data ∧ x.deadline = y.deadline
  | _, _ => False

theorem SEq.rfl' (a : Option Spec.SSess) : SEq a a := by
  cases a with
  | none => trivial
  | some x => exact ⟨MapEq.refl _, rfl⟩

theorem SEq_of_eq {a b : Option Spec.SSess} (h : a = b) : SEq a b := h ▸ SEq.rfl' a

/-- the token the browser is left with, as far as the specification is concerned -/
def tokenOf (k : SaveKind) : Bytes := match k with | .written t => t | _ => []

theorem upd_apply (w : Spec.SpecW) (t : Spec.Tok) (v : Option Spec.SSess) (x : Spec.Tok) : Spec.upd w t v x = if x = t then v else w x := rfl

/-- lifting the payload-level description of a `save` to abstract sessions -/
theorem lift_saved (cfg : Cfg) (env : Env) (t : Int) (r0 r1 : List Rec) (c temp c2 : Bytes) (d : Data) (ar : Bytes)
    (ss : Spec.SSess) (fresh : Bool) (ca : Int)
    (hl : loadData ar = .ok d) (hm : MapEq (toS d) ss.data)
    (h : aliveTok cfg env t r1 c2 =
      if c2 = temp then aliveP t (some (ss.deadline, ar))
      else if (revocable cfg c && decide (c2 = c)) = true then none
      else aliveTok cfg env t r0 c2) :
    SEq (Spec.alive t (absTok cfg env r1 c2))
        (Spec.alive t (Spec.apply (absTok cfg env r0) (revocable cfg) c temp (.saved ss fresh ca) c2)) := by
  rw [alive_absTok, h]
  simp only [Spec.apply, upd_apply]
  by_cases h1 : c2 = temp
  · simp only [h1, if_true, aliveP, Spec.alive]
    by_cases hle : t ≤ ss.deadline
    · simp only [hle, if_true, Option.bind_some, sessOfPayload, hl]
      exact ⟨hm, rfl⟩
    · simp only [hle, if_false, Option.bind_none]
      trivial
  · simp only [h1, if_false]
    by_cases h2 : (revocable cfg c && decide (c2 = c)) = true
    · simp only [h2, if_true, Option.bind_none]
      simp only [Bool.and_eq_true, decide_eq_true_eq] at h2
      obtain ⟨hr, rfl⟩ := h2
      have : (revocable cfg c2 && c2 != temp) = true := by simp [hr, h1]
      simp only [this, if_true, upd_apply, Spec.alive]
      trivial
    · simp only [h2, Bool.false_eq_true, if_false, ← alive_absTok]
      by_cases h3 : (revocable cfg c && c != temp) = true
      · simp only [h3, if_true, upd_apply]
        have : c2 ≠ c := by
          intro e; apply h2; simp only [Bool.and_eq_true] at h3; simp [h3.1, e]
        simp only [this, if_false]
        exact SEq.rfl' _
      · simp only [h3, Bool.false_eq_true, if_false]
        exact SEq.rfl' _

theorem lift_cleared (cfg : Cfg) (env : Env) (t : Int) (r0 r1 : List Rec) (c c' c2 : Bytes)
    (h : aliveTok cfg env t r1 c2 =
      if (revocable cfg c && decide (c2 = c)) = true then none else aliveTok cfg env t r0 c2) :
    SEq (Spec.alive t (absTok cfg env r1 c2))
        (Spec.alive t (Spec.apply (absTok cfg env r0) (revocable cfg) c c' .cleared c2)) := by
  rw [alive_absTok, h]
  simp only [Spec.apply, upd_apply]
  by_cases h2 : (revocable cfg c && decide (c2 = c)) = true
  · simp only [h2, if_true, Option.bind_none]
    simp only [Bool.and_eq_true, decide_eq_true_eq] at h2
    obtain ⟨hr, rfl⟩ := h2
    simp only [hr, if_true, upd_apply, Spec.alive]
    trivial
  · simp only [h2, Bool.false_eq_true, if_false, ← alive_absTok]
    by_cases hr : revocable cfg c = true
    · simp only [hr, if_true, upd_apply]
      have : c2 ≠ c := by intro e; apply h2; simp [hr, e]
      simp only [this, if_false]
      exact SEq.rfl' _
    · simp only [hr, Bool.false_eq_true, if_false]
      exact SEq.rfl' _

/-- what the model's `Reads` must agree with -/
def ReadsRel (r : Reads) (w : Spec.Work) : Prop :=
  MapEq (toS r.data) w.data ∧ r.age = w.age ∧ r.how = w.how ∧ r.onServer = w.srv

def kindMatches : SaveKind → Spec.Outcome → Prop
  | .cleared, .cleared => True
  | .untouched, .untouched => True
  | .written _, .saved _ _ _ => True
  | _, _ => False

theorem store_frame_of_load (ctx : Ctx) (st : Store) (hd : NoDupSid st.recs) (t : Int) (ht : ctx.now ≤ t) (c2 : Bytes) :
    aliveTok ctx.cfg ctx.env t (apiLoad ctx st).2.1.recs c2 = aliveTok ctx.cfg ctx.env t st.recs c2 :=
  aliveTok_congr _ _ _ _ _ _ (fun id => apiLoad_alive ctx st t id hd ht)

theorem request_of_load_ok (ctx : Ctx) (st : Store) (next : Nat) (ops : List Op) (s0 : Sess) (st1 : Store) (cs : List SetCookie)
    (hL : siLoad ctx st = (.ok s0, st1, cs)) :
    (request ctx st next ops).reads = .ok (readsOf s0) ∧
    (∀ e, siSave ctx (applyOps ctx.cfg ctx.env s0 ops) st1 next = .error e →
      (request ctx st next ops).saved = .error e ∧ (request ctx st next ops).store = st1 ∧ (request ctx st next ops).next = next ∧
      (request ctx st next ops).cookies = cs) ∧
    (∀ st2 n2 cs2 k, siSave ctx (applyOps ctx.cfg ctx.env s0 ops) st1 next = .ok (st2, n2, cs2, k) →
      (request ctx st next ops).saved = .ok k ∧ (request ctx st next ops).store = st2 ∧ (request ctx st next ops).next = n2 ∧
      (request ctx st next ops).cookies = cs ++ cs2) := by
  simp only [request, hL]
  cases hS : siSave ctx (applyOps ctx.cfg ctx.env s0 ops) st1 next with
  | error e => simp
  | ok r =>
    obtain ⟨st2, n2, cs2, k⟩ := r
    simp
    intro a b c d e1 e2 e3 e4
    exact ⟨e4, e1, e2, e3⟩

/-- **One request refines the token-level specification.**  For every configuration, store, presented
cookie, clock value and operation list: what the request reads is what `Spec.specLoad` yields for the
session the presented token denotes (if still alive); the decision of `save()` is `Spec.decideSave`'s; and
for every token and every later instant, what the token denotes in the new store is what `Spec.apply`
prescribes. -/
theorem request_refines (ctx : Ctx) (st : Store) (next : Nat) (ops : List Op)
    (he : EnvOK ctx.env) (hd : NoDupSid st.recs)
    (hwf : ∀ p, aliveTok ctx.cfg ctx.env ctx.now st.recs ctx.cookie = some p → WFpayload p.2) :
    match Spec.specLoad (numOf ctx.env) (dfOf ctx.cfg) (Spec.alive ctx.now (absTok ctx.cfg ctx.env st.recs ctx.cookie)) with
    | .error _ => (request ctx st next ops).reads = .error .badCast
    | .ok w0 => ∃ r, (request ctx st next ops).reads = .ok r ∧ ReadsRel r w0 ∧
      match Spec.decideSave (dfOf ctx.cfg) (Spec.alive ctx.now (absTok ctx.cfg ctx.env st.recs ctx.cookie))
          ((ops.map specOp).foldl (Spec.applyOp (numOf ctx.env) (dfOf ctx.cfg)) w0) ctx.now with
      | .refused e => ∃ e', (request ctx st next ops).saved = .error e' ∧ errMatches e e' ∧
          ∀ t, ctx.now ≤ t → ∀ c2, SEq (Spec.alive t (absTok ctx.cfg ctx.env (request ctx st next ops).store.recs c2))
            (Spec.alive t (absTok ctx.cfg ctx.env st.recs c2))
      | out => ∃ k, (request ctx st next ops).saved = .ok k ∧ kindMatches k out ∧
          ∀ t, ctx.now ≤ t → ∀ c2, SEq (Spec.alive t (absTok ctx.cfg ctx.env (request ctx st next ops).store.recs c2))
            (Spec.alive t (Spec.apply (absTok ctx.cfg ctx.env st.recs) (revocable ctx.cfg) ctx.cookie (tokenOf k) out c2)) := by
  have hload := siLoad_spec ctx st hwf
  have hfr := store_frame_of_load ctx st hd
  have hnd := apiLoad_noDup ctx st hd
  have hst1 : (siLoad ctx st).2.1 = (apiLoad ctx st).2.1 := by
    simp only [siLoad]; rcases apiLoad ctx st with ⟨r, st1, cs⟩; cases r <;> rfl
  cases hsl : Spec.specLoad (numOf ctx.env) (dfOf ctx.cfg) (Spec.alive ctx.now (absTok ctx.cfg ctx.env st.recs ctx.cookie)) with
  | error e =>
    rw [hsl] at hload
    simp only at hload ⊢
    simp only [request]
    rcases hL : siLoad ctx st with ⟨r, st1, cs⟩
    rw [hL] at hload
    simp only at hload
    subst hload
    rfl
  | ok w0 =>
    rw [hsl] at hload
    simp only at hload ⊢
    obtain ⟨s0, hs0, hrel0, hsorted0, hcopy0, hcur0⟩ := hload
    rcases hL : siLoad ctx st with ⟨r, st1, cs⟩
    rw [hL] at hs0 hst1
    simp only at hs0 hst1
    subst hs0
    -- the working copy after the mutators
    have hrel := applyOps_rel ctx.cfg ctx.env ops s0 w0 hrel0
    have hsd := applyOps_sorted ctx.cfg ctx.env ops s0 hsorted0
    obtain ⟨hc1, hc2⟩ := applyOps_copy ctx.cfg ctx.env ops s0
    have hyp : SaveHyp (applyOps ctx.cfg ctx.env s0 ops) ((ops.map specOp).foldl (Spec.applyOp (numOf ctx.env) (dfOf ctx.cfg)) w0)
        (Spec.alive ctx.now (absTok ctx.cfg ctx.env st.recs ctx.cookie)) := by
      refine ⟨hrel, hsd, by rw [hc1, hcopy0]; exact hsorted0, ?_, ?_⟩
      · rw [hc1]
        cases hcur : Spec.alive ctx.now (absTok ctx.cfg ctx.env st.recs ctx.cookie) with
        | none => rw [hcur] at hcur0; simp only at hcur0; rw [hcur0]; exact MapEq.refl _
        | some cs' => rw [hcur] at hcur0; simp only at hcur0; simp only [oldData]; rw [hcur0.1]; exact MapEq.refl _
      · rw [hc2]
        cases hcur : Spec.alive ctx.now (absTok ctx.cfg ctx.env st.recs ctx.cookie) with
        | none =>
          -- empty session: timeout_in_ is the model's initial 0
          simp only [oldDeadline]
          have : (siLoad ctx st).1 = .ok (emptySess ctx.cfg) := by
            have h1 := apiLoad_fst ctx st
            rw [alive_absTok] at hcur
            simp only [siLoad]
            rcases hA : apiLoad ctx st with ⟨ra, sta, csa⟩
            rw [hA] at h1; simp only at h1
            cases ra with
            | none => rfl
            | some p =>
              exfalso
              rw [← h1] at hcur
              obtain ⟨d, hld, _⟩ := loadData_of_wf (hwf p h1.symm)
              simp [sessOfPayload, hld] at hcur
          rw [hL] at this
          simp only at this
          cases this
          rfl
        | some cs' => rw [hcur] at hcur0; simp only at hcur0; exact hcur0.2
    have hsave := siSave_spec ctx (applyOps ctx.cfg ctx.env s0 ops) _ st1 next _ hyp he (by rw [hst1]; exact hnd)
    obtain ⟨hq1, hq2, hq3⟩ := request_of_load_ok ctx st next ops s0 st1 cs hL
    refine ⟨readsOf s0, hq1, ⟨hrel0.data, hrel0.age, hrel0.how, hrel0.srv⟩, ?_⟩
    -- frame of the load phase, in terms of abstract sessions
    have hframe : ∀ t, ctx.now ≤ t → ∀ c2, aliveTok ctx.cfg ctx.env t st1.recs c2 = aliveTok ctx.cfg ctx.env t st.recs c2 := by
      intro t ht c2; rw [hst1]; exact hfr t ht c2
    cases hout : Spec.decideSave (dfOf ctx.cfg) (Spec.alive ctx.now (absTok ctx.cfg ctx.env st.recs ctx.cookie))
        ((ops.map specOp).foldl (Spec.applyOp (numOf ctx.env) (dfOf ctx.cfg)) w0) ctx.now with
    | refused e =>
      rw [hout] at hsave
      obtain ⟨e', h1, h2⟩ := hsave
      refine ⟨e', (hq2 e' h1).1, h2, ?_⟩
      intro t ht c2
      have : (request ctx st next ops).store = st1 := (hq2 e' h1).2.1
      rw [this, alive_absTok, alive_absTok, hframe t ht c2]
      exact SEq.rfl' _
    | cleared =>
      rw [hout] at hsave
      obtain ⟨st2, cs2, h1, h2⟩ := hsave
      refine ⟨.cleared, (hq3 _ _ _ _ h1).1, trivial, ?_⟩
      intro t ht c2
      have : (request ctx st next ops).store = st2 := (hq3 _ _ _ _ h1).2.1
      rw [this]
      apply lift_cleared
      rw [h2 t ht c2, hframe t ht c2]
    | untouched =>
      rw [hout] at hsave
      refine ⟨.untouched, (hq3 _ _ _ _ hsave).1, trivial, ?_⟩
      intro t ht c2
      have : (request ctx st next ops).store = st1 := (hq3 _ _ _ _ hsave).2.1
      rw [this, alive_absTok, hframe t ht c2, ← alive_absTok]
      exact SEq.rfl' _
    | saved ss fresh ca =>
      rw [hout] at hsave
      obtain ⟨st2, n2, cs2, temp, ar, h1, h2, h3, _, _, h6⟩ := hsave
      refine ⟨.written temp, (hq3 _ _ _ _ h1).1, trivial, ?_⟩
      intro t ht c2
      have : (request ctx st next ops).store = st2 := (hq3 _ _ _ _ h1).2.1
      rw [this]
      have hlim : ∀ q ∈ (applyOps ctx.cfg ctx.env s0 ops).data, withinLimits q := fun q hq =>
        Classical.byContradiction fun hn => by
          obtain ⟨e, he'⟩ := (saveData_throws_iff _).mpr ⟨q, hq, hn⟩
          rw [h2] at he'; cases he'
      obtain ⟨bs, hb1, hb2⟩ := loadData_saveData _ hsd hlim
      rw [h2] at hb1; cases hb1
      apply lift_saved ctx.cfg ctx.env t st.recs st2.recs ctx.cookie temp c2 _ ar ss fresh ca hb2 h3
      rw [h6 t ht c2, hframe t ht c2]

end Cppcms.C06
