import Cppcms.C06.Refine9
/-!
# C06 refinement, layer 10: exposed cookies after `update_exposed`
-/
namespace Cppcms.C06
open Cppcms

/-! ## exposed cookies: the jar after `update_exposed` -/

def jfind (k : Key) : List (Key × Bytes) → Option Bytes
  | [] => none
  | (k', v) :: r => if k' = k then some v else jfind k r

theorem jfind_jinsert (k k' : Key) (v : Bytes) (J : List (Key × Bytes)) :
    jfind k (jinsert k' v J) = if k' = k then some v else jfind k J := by
  induction J with
  | nil => simp [jinsert, jfind]
  | cons p rest ih =>
    obtain ⟨k0, v0⟩ := p
    simp only [jinsert]
    split
    · simp [jfind]
    · split
      · rename_i h; subst h
        simp only [jfind]
        split <;> rfl
      · rename_i hne
        simp only [jfind, ih]
        by_cases h0 : k0 = k
        · subst h0; simp
          intro e; exact absurd e.symm hne
        · simp [h0]

theorem jfind_jerase (k k' : Key) (J : List (Key × Bytes)) : jfind k (jerase k' J) = if k' = k then none else jfind k J := by
  induction J with
  | nil => simp [jerase, jfind]
  | cons p rest ih =>
    obtain ⟨k0, v0⟩ := p
    simp only [jerase]
    split
    · rename_i h; subst h
      rw [ih]; simp only [jfind]
      split <;> rfl
    · rename_i hne
      simp only [jfind, ih]
      by_cases h0 : k0 = k
      · subst h0; simp; intro e; exact absurd e.symm hne
      · simp [h0]

theorem jfind_apply (J : Jar) (c : SetCookie) (k : Key) (hk : k ≠ []) :
    jfind k (J.apply c).exposed = if c.key = k then (if c.age < 0 then none else some c.value) else jfind k J.exposed := by
  simp only [Jar.apply]
  cases hck : c.key with
  | nil =>
    simp only
    have : ¬ ([] : Key) = k := fun e => hk e.symm
    rw [if_neg this]
    split <;> rfl
  | cons x xs =>
    simp only
    by_cases hage : c.age < 0
    · simp only [hage, if_true, jfind_jerase]
    · simp only [hage, if_false, jfind_jinsert]

/-- the last cookie of a list that concerns key `k` -/
def lastFor (k : Key) : List SetCookie → Option SetCookie
  | [] => none
  | c :: rest =>
    match lastFor k rest with
    | some x => some x
    | none => if c.key = k then some c else none

def effectOf (c : SetCookie) : Option Bytes := if c.age < 0 then none else some c.value

theorem jfind_applyAll (cs : List SetCookie) (J : Jar) (k : Key) (hk : k ≠ []) :
    jfind k (J.applyAll cs).exposed = match lastFor k cs with | none => jfind k J.exposed | some c => effectOf c := by
  induction cs generalizing J with
  | nil => rfl
  | cons c rest ih =>
    have : J.applyAll (c :: rest) = (J.apply c).applyAll rest := rfl
    rw [this, ih (J.apply c)]
    simp only [lastFor]
    cases lastFor k rest with
    | some x => rfl
    | none =>
      simp only [jfind_apply J c k hk]
      split <;> rfl

theorem lastFor_append (k : Key) (a b : List SetCookie) :
    lastFor k (a ++ b) = match lastFor k b with | some x => some x | none => lastFor k a := by
  induction a with
  | nil => simp [lastFor]; cases lastFor k b <;> rfl
  | cons c rest ih =>
    simp only [List.cons_append, lastFor, ih]
    cases lastFor k b with
    | some x => rfl
    | none => rfl

theorem lastFor_none_of_keys (k : Key) (cs : List SetCookie) (h : ∀ c ∈ cs, c.key ≠ k) : lastFor k cs = none := by
  induction cs with
  | nil => rfl
  | cons c rest ih =>
    simp only [lastFor, ih (fun x hx => h x (List.mem_cons_of_mem _ hx))]
    rw [if_neg (h c (List.mem_cons_self ..))]

theorem lastFor_dels (k : Key) (removed : List Key) :
    lastFor k (removed.map fun x => mkCookie (-1) [] x) = if k ∈ removed then some ⟨k, [], -1⟩ else none := by
  induction removed with
  | nil => rfl
  | cons x rest ih =>
    simp only [List.map_cons, lastFor, ih]
    by_cases hr : k ∈ rest
    · simp [hr]
    · simp only [hr, if_false]
      by_cases hx : x = k
      · subst hx; simp [mkCookie]
      · have : (mkCookie (-1) [] x).key ≠ k := hx
        rw [if_neg this]
        simp [hr, Ne.symm hx]

theorem mem_kinsert (x k : Key) (l : List Key) : x ∈ kinsert k l ↔ x = k ∨ x ∈ l := by
  induction l with
  | nil => simp [kinsert]
  | cons y ys ih =>
    simp only [kinsert]
    split
    · simp
    · split
      · rename_i h; subst h; simp
      · simp only [List.mem_cons, ih]
        constructor
        · rintro (h | h | h)
          · exact Or.inr (Or.inl h)
          · exact Or.inl h
          · exact Or.inr (Or.inr h)
        · rintro (h | h | h)
          · exact Or.inr (Or.inl h)
          · exact Or.inl h
          · exact Or.inr (Or.inr h)

theorem mem_foldl_kinsert (x : Key) (l acc : List Key) : x ∈ l.foldl (fun acc k => kinsert k acc) acc ↔ x ∈ l ∨ x ∈ acc := by
  induction l generalizing acc with
  | nil => simp
  | cons y ys ih =>
    simp only [List.foldl_cons, ih, mem_kinsert, List.mem_cons]
    constructor
    · rintro (h | h | h)
      · exact Or.inl (Or.inr h)
      · exact Or.inl (Or.inl h)
      · exact Or.inr h
    · rintro ((h | h) | h)
      · exact Or.inr (Or.inl h)
      · exact Or.inl h
      · exact Or.inr (Or.inr h)


/-! ### the three passes of `update_exposed` -/

/-- condition of the first `if` of pass 1 -/
def setCond (force : Bool) (copy : Data) (k : Key) (e : Entry) : Bool :=
  e.exposed && (force || (dfind k copy).isNone || !((dfind k copy).map (·.exposed)).getD false || ((dfind k copy).map (·.value)) != some e.value)

/-- condition of the `else if` of pass 1 -/
def rmCond (force : Bool) (copy : Data) (k : Key) (e : Entry) : Bool :=
  !e.exposed && (((dfind k copy).map (·.exposed)).getD false || force)

/-- the regenerated conditions are the ones the proofs below reason about (a changed operator in the source breaks these) -/
theorem gen_setCond (force : Bool) (copy : Data) (k : Key) (e : Entry) :
    Gen.exposedSetCond e.exposed force (dfind k copy).isNone (((dfind k copy).map (·.exposed)).getD false)
      (((dfind k copy).map (·.value)) != some e.value) = setCond force copy k e := by
  simp only [Gen.exposedSetCond, setCond]

theorem gen_rmCond (force : Bool) (copy : Data) (k : Key) (e : Entry) :
    Gen.exposedRmCond e.exposed force (dfind k copy).isNone (((dfind k copy).map (·.exposed)).getD false) = rmCond force copy k e := by
  simp only [Gen.exposedRmCond, rmCond]
  cases hf : dfind k copy <;> simp

theorem gen_goneCond (data : Data) (k : Key) (e : Entry) :
    Gen.exposedGoneCond e.exposed (dfind k data).isNone = (e.exposed && (dfind k data).isNone) := rfl

theorem gen_unknownCond (data : Data) (k : Key) :
    Gen.exposedUnknownCond (((dfind k data).map (·.exposed)).getD false) (dfind k data).isNone =
      !((dfind k data).map (·.exposed)).getD false := by
  simp only [Gen.exposedUnknownCond]
  cases hf : dfind k data <;> simp

theorem pass1_cons (age : Int) (force : Bool) (copy : Data) (k : Key) (e : Entry) (rest : Data) :
    (exposedPass1 age force copy ((k, e) :: rest)).1 =
      (if setCond force copy k e then mkCookie age e.value k :: (exposedPass1 age force copy rest).1 else (exposedPass1 age force copy rest).1) ∧
    (exposedPass1 age force copy ((k, e) :: rest)).2 =
      (if setCond force copy k e then (exposedPass1 age force copy rest).2
       else if rmCond force copy k e then k :: (exposedPass1 age force copy rest).2 else (exposedPass1 age force copy rest).2) := by
  rcases h : exposedPass1 age force copy rest with ⟨cs, rm⟩
  have e1 : exposedPass1 age force copy ((k, e) :: rest) =
      if setCond force copy k e then (mkCookie age e.value k :: cs, rm)
      else if rmCond force copy k e then (cs, k :: rm) else (cs, rm) := by
    simp only [exposedPass1, h, gen_setCond, gen_rmCond]
  rw [e1]
  by_cases c1 : setCond force copy k e = true
  · simp only [c1, if_true, and_self]
  · by_cases c2 : rmCond force copy k e = true
    · simp only [c1, c2, if_true, Bool.false_eq_true, if_false, and_self]
    · simp only [c1, c2, Bool.false_eq_true, if_false, and_self]

theorem pass1_keys (age : Int) (force : Bool) (copy : Data) (data : Data) :
    ∀ c ∈ (exposedPass1 age force copy data).1, ∃ p ∈ data, c.key = p.1 := by
  induction data with
  | nil => intro c hc; simp [exposedPass1] at hc
  | cons p rest ih =>
    obtain ⟨k, e⟩ := p
    intro c hc
    rw [(pass1_cons age force copy k e rest).1] at hc
    split at hc
    · rcases List.mem_cons.mp hc with rfl | hc
      · exact ⟨(k, e), List.mem_cons_self .., rfl⟩
      · obtain ⟨q, hq, hk⟩ := ih c hc
        exact ⟨q, List.mem_cons_of_mem _ hq, hk⟩
    · obtain ⟨q, hq, hk⟩ := ih c hc
      exact ⟨q, List.mem_cons_of_mem _ hq, hk⟩

theorem pass1_last (age : Int) (force : Bool) (copy : Data) (data : Data) (hs : Sorted data) (k : Key) :
    lastFor k (exposedPass1 age force copy data).1 =
      match dfind k data with
      | some e => if setCond force copy k e then some (mkCookie age e.value k) else none
      | none => none := by
  induction data with
  | nil => rfl
  | cons p rest ih =>
    obtain ⟨k0, e0⟩ := p
    obtain ⟨h1, h2⟩ := hs
    rw [(pass1_cons age force copy k0 e0 rest).1]
    by_cases hk : k0 = k
    · subst hk
      have hnone : dfind k0 rest = none := dfind_none_of_lt k0 rest h1
      have hl : lastFor k0 (exposedPass1 age force copy rest).1 = none := by rw [ih h2, hnone]
      simp only [dfind, if_true]
      split
      · simp only [lastFor, hl]; simp [mkCookie]
      · exact hl
    · simp only [dfind, hk, if_false]
      split
      · simp only [lastFor, ih h2]
        have hkey : ¬ (mkCookie age e0.value k0).key = k := hk
        cases hf : dfind k rest with
        | none => simp only; rw [if_neg hkey]
        | some e =>
          simp only
          by_cases c : setCond force copy k e = true
          · simp only [c, if_true]
          · simp only [c, Bool.false_eq_true, if_false]; rw [if_neg hkey]
      · exact ih h2

theorem pass1_rm (age : Int) (force : Bool) (copy : Data) (data : Data) (hs : Sorted data) (k : Key) :
    k ∈ (exposedPass1 age force copy data).2 ↔ ∃ e, dfind k data = some e ∧ setCond force copy k e = false ∧ rmCond force copy k e = true := by
  induction data with
  | nil => simp [exposedPass1, dfind]
  | cons p rest ih =>
    obtain ⟨k0, e0⟩ := p
    obtain ⟨h1, h2⟩ := hs
    rw [(pass1_cons age force copy k0 e0 rest).2]
    by_cases hk : k0 = k
    · subst hk
      have hnone : dfind k0 rest = none := dfind_none_of_lt k0 rest h1
      have hnot : k0 ∉ (exposedPass1 age force copy rest).2 := by rw [ih h2, hnone]; simp
      simp only [dfind, if_true, Option.some.injEq, exists_eq_left']
      by_cases c1 : setCond force copy k0 e0 = true
      · simp [c1, hnot]
      · by_cases c2 : rmCond force copy k0 e0 = true
        · simp [c1, c2]
        · simp [c1, c2, hnot]
    · simp only [dfind, hk, if_false]
      have : (k ∈ (if setCond force copy k0 e0 = true then (exposedPass1 age force copy rest).2
          else if rmCond force copy k0 e0 = true then k0 :: (exposedPass1 age force copy rest).2 else (exposedPass1 age force copy rest).2)) ↔
          k ∈ (exposedPass1 age force copy rest).2 := by
        split
        · rfl
        · split
          · simp [Ne.symm hk]
          · rfl
      rw [this, ih h2]

theorem pass2_mem (data copy : Data) (hs : Sorted copy) (k : Key) :
    k ∈ exposedPass2 data copy ↔ ∃ e, dfind k copy = some e ∧ e.exposed = true ∧ dfind k data = none := by
  induction copy with
  | nil => simp [exposedPass2, dfind]
  | cons p rest ih =>
    obtain ⟨k0, e0⟩ := p
    obtain ⟨h1, h2⟩ := hs
    simp only [exposedPass2, gen_goneCond]
    by_cases hk : k0 = k
    · subst hk
      have hnone : dfind k0 rest = none := dfind_none_of_lt k0 rest h1
      have hnot : k0 ∉ exposedPass2 data rest := by rw [ih h2, hnone]; simp
      simp only [dfind, if_true, Option.some.injEq, exists_eq_left']
      by_cases c : (e0.exposed && (dfind k0 data).isNone) = true
      · simp only [c, if_true, List.mem_cons, true_or, true_iff]
        simp only [Bool.and_eq_true, Option.isNone_iff_eq_none] at c
        exact c
      · simp only [c, Bool.false_eq_true, if_false, hnot, false_iff]
        intro ⟨a, b⟩
        apply c; simp [a, b]
    · simp only [dfind, hk, if_false]
      by_cases c : (e0.exposed && (dfind k0 data).isNone) = true
      · simp only [c, if_true, List.mem_cons, Ne.symm hk, false_or]; exact ih h2
      · simp only [c, Bool.false_eq_true, if_false]; exact ih h2

def exposedIn (data : Data) (k : Key) : Bool := ((dfind k data).map (·.exposed)).getD false

theorem pass3_mem (data : Data) (names : List Key) (k : Key) :
    k ∈ exposedPass3 data names ↔ k ∈ names ∧ exposedIn data k = false := by
  induction names with
  | nil => simp [exposedPass3]
  | cons x rest ih =>
    simp only [exposedPass3, exposedIn, gen_unknownCond] at ih ⊢
    by_cases hx : x = k
    · subst hx
      by_cases c : ((dfind x data).map (·.exposed)).getD false = true
      · simp [c, ih]
      · simp [c]
    · split
      · simp only [List.mem_cons, Ne.symm hx, false_or, ih]
      · simp only [List.mem_cons, Ne.symm hx, false_or, ih]


/-- the exposed cookie a browser must hold for key `k`: the value, if the entry is exposed and non-empty -/
def exposedLookup (d : Data) (k : Key) : Option Bytes :=
  match dfind k d with
  | some e => if e.exposed && !e.value.isEmpty then some e.value else none
  | none => none

theorem effect_mkCookie (age : Int) (v : Bytes) (k : Key) (hage : 0 ≤ age) :
    effectOf (mkCookie age v k) = if v.isEmpty then none else some v := by
  simp only [effectOf, mkCookie]
  by_cases hv : v.isEmpty = true
  · simp [hv]
  · simp only [hv, Bool.false_eq_true, if_false]
    rw [if_neg (by omega)]

theorem updateExposed_lookup (ctx : Ctx) (s : Sess) (force : Bool) (J : Jar) (k : Key) (hk : k ≠ [])
    (hsd : Sorted s.data) (hsc : Sorted s.copy) (hage : 0 ≤ cookieAgeOf ctx s)
    (hnames : ∀ v, jfind k J.exposed = some v → k ∈ ctx.names)
    (hstep : force = false → ∀ e, dfind k s.copy = some e → e.exposed = true →
      jfind k J.exposed = if e.value.isEmpty then none else some e.value) :
    jfind k (J.applyAll (updateExposed ctx s force)).exposed = exposedLookup s.data k := by
  have hP1 := pass1_last (cookieAgeOf ctx s) force s.copy s.data hsd k
  have hR1 := pass1_rm (cookieAgeOf ctx s) force s.copy s.data hsd k
  have hR2 := pass2_mem s.data s.copy hsc k
  have hR3 := pass3_mem s.data ctx.names k
  rcases h1 : exposedPass1 (cookieAgeOf ctx s) force s.copy s.data with ⟨cs, rm1⟩
  rw [h1] at hP1 hR1
  simp only at hP1 hR1
  have hupd : updateExposed ctx s force =
      cs ++ ((rm1 ++ exposedPass2 s.data s.copy ++ exposedPass3 s.data ctx.names).foldl (fun acc k => kinsert k acc) []).map (fun k => mkCookie (-1) [] k) := by
    simp only [updateExposed, h1]
  rw [hupd, jfind_applyAll _ _ _ hk, lastFor_append, lastFor_dels]
  have hmem : k ∈ (rm1 ++ exposedPass2 s.data s.copy ++ exposedPass3 s.data ctx.names).foldl (fun acc k => kinsert k acc) [] ↔
      (k ∈ rm1 ∨ k ∈ exposedPass2 s.data s.copy) ∨ k ∈ exposedPass3 s.data ctx.names := by
    rw [mem_foldl_kinsert]; simp [List.mem_append, or_assoc]
  have hnoJ : k ∉ ctx.names → jfind k J.exposed = none := by
    intro hn
    cases hj : jfind k J.exposed with
    | none => rfl
    | some v => exact absurd (hnames v hj) hn
  have hdel : effectOf ⟨k, [], -1⟩ = none := by simp [effectOf]
  by_cases hrem : k ∈ (rm1 ++ exposedPass2 s.data s.copy ++ exposedPass3 s.data ctx.names).foldl (fun acc k => kinsert k acc) []
  · -- deleted: then the entry is not an exposed one
    simp only [hrem, if_true, hdel]
    rcases hmem.mp hrem with (h | h) | h
    · obtain ⟨e, he, _, hrm⟩ := hR1.mp h
      simp only [exposedLookup, he]
      simp only [rmCond, Bool.and_eq_true, Bool.not_eq_true'] at hrm
      simp [hrm.1]
    · obtain ⟨e, _, _, hd⟩ := hR2.mp h
      simp [exposedLookup, hd]
    · obtain ⟨_, hx⟩ := hR3.mp h
      simp only [exposedLookup]
      cases hd : dfind k s.data with
      | none => rfl
      | some e =>
        simp only [exposedIn, hd, Option.map_some, Option.getD_some] at hx
        simp [hx]
  · simp only [hrem, if_false]
    have hn1 : k ∉ rm1 := fun h => hrem (hmem.mpr (Or.inl (Or.inl h)))
    have hn2 : k ∉ exposedPass2 s.data s.copy := fun h => hrem (hmem.mpr (Or.inl (Or.inr h)))
    have hn3 : k ∉ exposedPass3 s.data ctx.names := fun h => hrem (hmem.mpr (Or.inr h))
    rw [hP1]
    cases hd : dfind k s.data with
    | none =>
      simp only [exposedLookup, hd]
      -- not in the data: unless the jar has no such cookie it would have been removed
      apply hnoJ
      intro hn
      exact hn3 (hR3.mpr ⟨hn, by simp [exposedIn, hd]⟩)
    | some e =>
      simp only [exposedLookup, hd]
      by_cases c : setCond force s.copy k e = true
      · simp only [c, if_true, effect_mkCookie _ _ _ hage]
        have hex : e.exposed = true := by simp only [setCond, Bool.and_eq_true] at c; exact c.1
        simp [hex]
      · simp only [c, Bool.false_eq_true, if_false]
        by_cases hex : e.exposed = true
        · -- exposed and unchanged: the jar already holds it
          have hc : setCond force s.copy k e = false := by simpa using c
          simp only [setCond, hex, Bool.true_and, Bool.or_eq_false_iff, Bool.not_eq_false', bne_eq_false_iff_eq] at hc
          obtain ⟨⟨⟨hforce, hnone⟩, hexp⟩, hval⟩ := hc
          cases hcp : dfind k s.copy with
          | none => rw [hcp] at hnone; simp at hnone
          | some e' =>
            rw [hcp] at hexp hval
            simp only [Option.map_some, Option.getD_some, Option.some.injEq] at hexp hval
            rw [hstep hforce e' hcp hexp, hval]
            simp [hex]
        · have hex' : e.exposed = false := by simpa using hex
          simp only [hex', Bool.false_and, Bool.false_eq_true, if_false]
          by_cases hrm : rmCond force s.copy k e = true
          · exact absurd (hR1.mpr ⟨e, hd, by simpa using c, hrm⟩) hn1
          · apply hnoJ
            intro hn
            exact hn3 (hR3.mpr ⟨hn, by simp [exposedIn, hd, hex']⟩)


/-! ### cookies of the session cookie itself do not touch the exposed ones -/

theorem applyAll_append (J : Jar) (a b : List SetCookie) : J.applyAll (a ++ b) = (J.applyAll a).applyAll b := by
  simp [Jar.applyAll, List.foldl_append]

theorem jfind_applyAll_nilkeys (cs : List SetCookie) (J : Jar) (k : Key) (hk : k ≠ []) (h : ∀ c ∈ cs, c.key = []) :
    jfind k (J.applyAll cs).exposed = jfind k J.exposed := by
  rw [jfind_applyAll _ _ _ hk, lastFor_none_of_keys k cs (fun c hc => by rw [h c hc]; exact fun e => hk e.symm)]

theorem clearSessionCookie_keys (ctx : Ctx) : ∀ c ∈ clearSessionCookie ctx, c.key = [] := by
  intro c hc
  simp only [clearSessionCookie] at hc
  split at hc
  · cases hc
  · simp at hc; subst hc; rfl

theorem sidClear_keys (ctx : Ctx) (st : Store) : ∀ c ∈ (sidClear ctx st).2, c.key = [] := by
  simp only [sidClear]
  cases validSid ctx.cookie <;> exact clearSessionCookie_keys ctx

theorem apiClear_keys (ctx : Ctx) (st : Store) : ∀ c ∈ (apiClear ctx st).2, c.key = [] := by
  simp only [apiClear]
  cases ctx.cfg.loc with
  | server => exact sidClear_keys ctx st
  | client => exact clearSessionCookie_keys ctx
  | both =>
    simp only
    split
    · exact clearSessionCookie_keys ctx
    · exact sidClear_keys ctx st

theorem apiSave_keys (ctx : Ctx) (st : Store) (next : Nat) (data : Bytes) (timeout : Int) (isNew onServer : Bool)
    (st1 : Store) (n1 : Nat) (cs : List SetCookie) (temp : Bytes)
    (h : apiSave ctx st next data timeout isNew onServer = .ok (st1, n1, cs, temp)) : ∀ c ∈ cs, c.key = [] := by
  rcases loc_cases ctx.cfg.loc with hl | hl | hl
  · simp only [apiSave, hl] at h
    simp only [Except.ok.injEq, Prod.mk.injEq] at h
    obtain ⟨_, _, rfl, _⟩ := h
    intro c hc; cases hc
  · simp only [apiSave, hl] at h
    cases hc : cookiesSave ctx data timeout onServer with
    | error e => rw [hc] at h; cases h
    | ok c =>
      rw [hc] at h; simp only [Except.ok.injEq, Prod.mk.injEq] at h
      obtain ⟨_, _, rfl, _⟩ := h
      intro c hc; cases hc
  · simp only [apiSave, hl] at h
    by_cases hsrv : Gen.dualServerSide onServer data.length ctx.cfg.limit = true
    · simp only [hsrv, if_true, Except.ok.injEq, Prod.mk.injEq] at h
      obtain ⟨_, _, rfl, _⟩ := h
      intro c hc; cases hc
    · simp only [hsrv] at h
      cases hc : cookiesSave ctx data timeout false with
      | error e => rw [hc] at h; simp at h
      | ok c =>
        rw [hc] at h
        simp only [Bool.false_eq_true, if_false, Except.ok.injEq, Prod.mk.injEq] at h
        obtain ⟨_, _, rfl, _⟩ := h
        split
        · exact sidClear_keys ctx st
        · intro c hc; cases hc

/-- **Exposed cookies are in step with the session after `save()`** (whenever `save()` does anything): for
every key, the browser's `<prefix>_<key>` cookie afterwards is exactly the entry's value if the entry is exposed
and non-empty, and absent otherwise.  Hypotheses: the jar reported its cookie names (`remove_unknown_cookies`), it
was in step with the session that was loaded (nothing to ask if none was), and the cookie age is not negative
(with a negative age the session is dead on arrival and its cookies are deleted instead). -/
theorem siSave_exposed_in_step (ctx : Ctx) (s : Sess) (st : Store) (next : Nat) (st1 : Store) (n1 : Nat) (cs : List SetCookie) (kind : SaveKind)
    (h : siSave ctx s st next = .ok (st1, n1, cs, kind)) (hkind : kind ≠ .untouched)
    (J : Jar) (k : Key) (hk : k ≠ [])
    (hsd : Sorted s.data) (hsc : Sorted s.copy) (hage : 0 ≤ cookieAgeOf ctx s)
    (hnames : ∀ v, jfind k J.exposed = some v → k ∈ ctx.names)
    (hstep : ∀ e, dfind k s.copy = some e → e.exposed = true →
      jfind k J.exposed = if e.value.isEmpty then none else some e.value) :
    jfind k (J.applyAll cs).exposed = exposedLookup s.data k := by
  simp only [siSave] at h
  by_cases hem : s.data.isEmpty = true
  · simp only [hem, if_true] at h
    by_cases hce : ctx.cookie.isEmpty = true
    · simp only [hce, if_true, Except.ok.injEq, Prod.mk.injEq, List.nil_append] at h
      obtain ⟨_, _, rfl, _⟩ := h
      exact updateExposed_lookup ctx s true J k hk hsd hsc hage hnames (fun hf => by cases hf)
    · simp only [hce, Bool.false_eq_true, if_false, Except.ok.injEq, Prod.mk.injEq] at h
      obtain ⟨_, _, rfl, _⟩ := h
      rw [applyAll_append]
      have hj := jfind_applyAll_nilkeys _ J k hk (apiClear_keys ctx st)
      exact updateExposed_lookup ctx s true _ k hk hsd hsc hage (by rw [hj]; exact hnames) (fun hf => by cases hf)
  · simp only [hem, Bool.false_eq_true, if_false] at h
    split at h
    · simp only [Except.ok.injEq, Prod.mk.injEq] at h; obtain ⟨_, _, _, rfl⟩ := h; exact absurd rfl hkind
    · split at h
      · simp only [Except.ok.injEq, Prod.mk.injEq] at h; obtain ⟨_, _, _, rfl⟩ := h; exact absurd rfl hkind
      · cases har : saveData s.data with
        | error e => rw [har] at h; cases h
        | ok ar =>
          rw [har] at h
          simp only at h
          cases hap : apiSave ctx st next ar (sessionAgeOf ctx s) (newSession s) s.onServer with
          | error e => rw [hap] at h; cases h
          | ok r =>
            obtain ⟨st2, n2, cs2, temp⟩ := r
            rw [hap] at h
            simp only [Except.ok.injEq, Prod.mk.injEq] at h
            obtain ⟨_, _, rfl, _⟩ := h
            rw [applyAll_append]
            have hkeys : ∀ c ∈ cs2 ++ [mkCookie (cookieAgeOf ctx s) temp []], c.key = [] := by
              intro c hc
              rcases List.mem_append.mp hc with hc | hc
              · exact apiSave_keys ctx st next ar _ _ _ _ _ _ _ hap c hc
              · simp at hc; subst hc; rfl
            have hj := jfind_applyAll_nilkeys _ J k hk hkeys
            exact updateExposed_lookup ctx s _ _ k hk hsd hsc hage (by rw [hj]; exact hnames) (fun _ => by rw [hj]; exact hstep)

end Cppcms.C06
