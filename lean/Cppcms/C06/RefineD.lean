import Cppcms.C06.RefineC
/-!
# C06 refinement, layer 13: the jar of an honest browser stays in step with its session along whole histories
-/
namespace Cppcms.C06
open Cppcms

/-! ## exposed lookup on the specification's representation -/

def specExposed (d : Spec.SData) (k : Bytes) : Option Bytes :=
  match Spec.lookup k d with
  | some (v, true) => if v.isEmpty then none else some v
  | _ => none

theorem specExposed_toS (d : Data) (k : Key) : specExposed (toS d) k = exposedLookup d k := by
  simp only [specExposed, exposedLookup, lookup_toS]
  cases dfind k d with
  | none => rfl
  | some e =>
    obtain ⟨v, x⟩ := e
    cases x <;> simp [entryPair]

theorem specExposed_congr {a b : Spec.SData} (h : MapEq a b) (k : Bytes) : specExposed a k = specExposed b k := by
  simp only [specExposed, h k]

/-! ## keys -/

theorem mem_jinsert {q : Key × Bytes} {k : Key} {v : Bytes} {J : List (Key × Bytes)} (h : q ∈ jinsert k v J) : q = (k, v) ∨ q ∈ J := by
  induction J with
  | nil => simp [jinsert] at h; exact Or.inl h
  | cons p rest ih =>
    obtain ⟨k0, v0⟩ := p
    simp only [jinsert] at h
    split at h
    · rcases List.mem_cons.mp h with h | h
      · exact Or.inl h
      · exact Or.inr h
    · split at h
      · rcases List.mem_cons.mp h with h | h
        · exact Or.inl h
        · exact Or.inr (List.mem_cons_of_mem _ h)
      · rcases List.mem_cons.mp h with h | h
        · exact Or.inr (h ▸ List.mem_cons_self ..)
        · rcases ih h with h | h
          · exact Or.inl h
          · exact Or.inr (List.mem_cons_of_mem _ h)

theorem mem_jerase {q : Key × Bytes} {k : Key} {J : List (Key × Bytes)} (h : q ∈ jerase k J) : q ∈ J := by
  induction J with
  | nil => simp [jerase] at h
  | cons p rest ih =>
    obtain ⟨k0, v0⟩ := p
    simp only [jerase] at h
    split at h
    · exact List.mem_cons_of_mem _ (ih h)
    · rcases List.mem_cons.mp h with h | h
      · exact h ▸ List.mem_cons_self ..
      · exact List.mem_cons_of_mem _ (ih h)

def KeysNE (J : List (Key × Bytes)) : Prop := ∀ p ∈ J, p.1 ≠ []

theorem keysNE_apply (J : Jar) (c : SetCookie) (h : KeysNE J.exposed) : KeysNE (J.apply c).exposed := by
  simp only [Jar.apply]
  cases hk : c.key with
  | nil => simp only; split <;> exact h
  | cons x xs =>
    simp only
    split
    · intro p hp; exact h p (mem_jerase hp)
    · intro p hp
      rcases mem_jinsert hp with rfl | hp
      · simp
      · exact h p hp

theorem keysNE_applyAll (cs : List SetCookie) (J : Jar) (h : KeysNE J.exposed) : KeysNE (J.applyAll cs).exposed := by
  induction cs generalizing J with
  | nil => exact h
  | cons c rest ih => exact ih (J.apply c) (keysNE_apply J c h)

/-- cookies whose key is not empty leave the session cookie alone -/
theorem cookie_applyAll_ne (cs : List SetCookie) (J : Jar) (h : ∀ c ∈ cs, c.key ≠ []) : (J.applyAll cs).cookie = J.cookie := by
  induction cs generalizing J with
  | nil => rfl
  | cons c rest ih =>
    have : J.applyAll (c :: rest) = (J.apply c).applyAll rest := rfl
    rw [this, ih (J.apply c) (fun x hx => h x (List.mem_cons_of_mem _ hx))]
    have hc := h c (List.mem_cons_self ..)
    simp only [Jar.apply]
    cases hk : c.key with
    | nil => exact absurd hk hc
    | cons x xs => simp only; split <;> rfl

theorem jfind_some_mem {k : Key} {v : Bytes} {J : List (Key × Bytes)} (h : jfind k J = some v) : k ∈ J.map (·.1) := by
  induction J with
  | nil => simp [jfind] at h
  | cons p rest ih =>
    obtain ⟨k0, v0⟩ := p
    simp only [jfind] at h
    split at h
    · rename_i hk; subst hk; simp
    · simp only [List.map_cons, List.mem_cons]; exact Or.inr (ih h)

/-- every cookie `update_exposed` sends is named after a key of the data, of the loaded copy, or of a request cookie -/
theorem updateExposed_keys (ctx : Ctx) (s : Sess) (force : Bool) :
    ∀ c ∈ updateExposed ctx s force, (∃ p ∈ s.data, c.key = p.1) ∨ (∃ p ∈ s.copy, c.key = p.1) ∨ c.key ∈ ctx.names := by
  intro c hc
  rcases h1 : exposedPass1 (cookieAgeOf ctx s) force s.copy s.data with ⟨cs, rm1⟩
  have hk1 := pass1_keys (cookieAgeOf ctx s) force s.copy s.data
  rw [h1] at hk1
  simp only [updateExposed, h1, List.mem_append, List.mem_map] at hc
  rcases hc with hc | ⟨k, hk, rfl⟩
  · exact Or.inl (hk1 c hc)
  · rw [mem_foldl_kinsert] at hk
    simp only [List.mem_append, List.not_mem_nil, or_false] at hk
    have hkey : (mkCookie (-1) [] k).key = k := rfl
    rw [hkey]
    rcases hk with (hk | hk) | hk
    · -- scheduled by the first loop: a key of the data
      have : ∀ (d : Data), k ∈ (exposedPass1 (cookieAgeOf ctx s) force s.copy d).2 → ∃ p ∈ d, k = p.1 := by
        intro d
        induction d with
        | nil => intro h; simp [exposedPass1] at h
        | cons p rest ih =>
          obtain ⟨k0, e0⟩ := p
          intro h
          rw [(pass1_cons _ force s.copy k0 e0 rest).2] at h
          split at h
          · obtain ⟨q, hq, e⟩ := ih h; exact ⟨q, List.mem_cons_of_mem _ hq, e⟩
          · split at h
            · rcases List.mem_cons.mp h with rfl | h
              · exact ⟨(k, e0), List.mem_cons_self .., rfl⟩
              · obtain ⟨q, hq, e⟩ := ih h; exact ⟨q, List.mem_cons_of_mem _ hq, e⟩
            · obtain ⟨q, hq, e⟩ := ih h; exact ⟨q, List.mem_cons_of_mem _ hq, e⟩
      have h2 := this s.data (by rw [h1]; exact hk)
      exact Or.inl h2
    · have : ∀ (c : Data), k ∈ exposedPass2 s.data c → ∃ p ∈ c, k = p.1 := by
        intro c
        induction c with
        | nil => intro h; simp [exposedPass2] at h
        | cons p rest ih =>
          obtain ⟨k0, e0⟩ := p
          intro h
          simp only [exposedPass2] at h
          split at h
          · rcases List.mem_cons.mp h with rfl | h
            · exact ⟨(k, e0), List.mem_cons_self .., rfl⟩
            · obtain ⟨q, hq, e⟩ := ih h; exact ⟨q, List.mem_cons_of_mem _ hq, e⟩
          · obtain ⟨q, hq, e⟩ := ih h; exact ⟨q, List.mem_cons_of_mem _ hq, e⟩
      exact Or.inr (Or.inl (this s.copy hk))
    · exact Or.inr (Or.inr ((pass3_mem s.data ctx.names k).mp hk).1)


/-! ## the mutators keep keys non-empty -/

def DataKeysNE (d : Data) : Prop := ∀ p ∈ d, p.1 ≠ []

def opKeyNE : Op → Prop
  | .set k _ => k ≠ []
  | .erase _ => True
  | .expose k => k ≠ []
  | .hide k => k ≠ []
  | _ => True

theorem keysNE_dinsert (k : Key) (e : Entry) (d : Data) (hk : k ≠ []) (h : DataKeysNE d) : DataKeysNE (dinsert k e d) := by
  intro p hp
  rcases mem_dinsert hp with rfl | hp
  · exact hk
  · exact h p hp

theorem keysNE_derase (k : Key) (d : Data) (h : DataKeysNE d) : DataKeysNE (derase k d) := fun p hp => h p (mem_derase hp)

theorem keysNE_setValue (k : Key) (v : Bytes) (d : Data) (hk : k ≠ []) (h : DataKeysNE d) : DataKeysNE (setValue k v d) := by
  simp only [setValue]; split <;> exact keysNE_dinsert _ _ _ hk h

theorem keysNE_setExposed (k : Key) (b : Bool) (d : Data) (hk : k ≠ []) (h : DataKeysNE d) : DataKeysNE (setExposed k b d) := by
  simp only [setExposed]; split <;> exact keysNE_dinsert _ _ _ hk h

theorem internal_keys_ne : keyT ≠ [] ∧ keyH ≠ [] ∧ keyS ≠ [] := by decide

theorem applyOp_keysNE (cfg : Cfg) (env : Env) (s : Sess) (op : Op) (ho : opKeyNE op) (h : DataKeysNE s.data) :
    DataKeysNE (applyOp cfg env s op).data := by
  obtain ⟨ht, hh, hs⟩ := internal_keys_ne
  cases op with
  | set k v => exact keysNE_setValue _ _ _ ho h
  | erase k => exact keysNE_derase _ _ h
  | clear => intro p hp; cases hp
  | expose k => exact keysNE_setExposed _ _ _ ho h
  | hide k => exact keysNE_setExposed _ _ _ ho h
  | age t => exact keysNE_setValue _ _ _ ht h
  | defaultAge => exact keysNE_derase _ _ h
  | expiration x => exact keysNE_setValue _ _ _ hh h
  | defaultExpiration => exact keysNE_derase _ _ h
  | onServer b => exact keysNE_setValue _ _ _ hs h
  | resetSession => exact h

theorem applyOps_keysNE (cfg : Cfg) (env : Env) (ops : List Op) (s : Sess) (ho : ∀ op ∈ ops, opKeyNE op) (h : DataKeysNE s.data) :
    DataKeysNE (applyOps cfg env s ops).data := by
  induction ops generalizing s with
  | nil => exact h
  | cons op rest ih =>
    exact ih _ (fun o ho' => ho o (List.mem_cons_of_mem _ ho')) (applyOp_keysNE cfg env s op (ho op (List.mem_cons_self ..)) h)

/-! ## inversion of `load()` / `save()` -/

/-- the cookies `load()` sends: nothing, or one deletion of the session cookie (only for a non-empty presented cookie) -/
theorem siLoad_cookies (ctx : Ctx) (st : Store) :
    (siLoad ctx st).2.2 = [] ∨ ((siLoad ctx st).2.2 = [mkCookie (-1) [] []] ∧ ctx.cookie ≠ []) := by
  have hclear : clearSessionCookie ctx = [] ∨ (clearSessionCookie ctx = [mkCookie (-1) [] []] ∧ ctx.cookie ≠ []) := by
    simp only [clearSessionCookie]
    split
    · exact Or.inl rfl
    · rename_i h; exact Or.inr ⟨rfl, by intro e; rw [e] at h; simp at h⟩
  have hck : (cookiesLoad ctx).2 = [] ∨ ((cookiesLoad ctx).2 = [mkCookie (-1) [] []] ∧ ctx.cookie ≠ []) := by
    simp only [cookiesLoad]
    cases hc : ctx.cookie with
    | nil => exact Or.inl rfl
    | cons c0 body =>
      simp only
      split
      · rw [← hc]; exact hclear
      · cases ctx.env.dec body with
        | none => rw [← hc]; exact hclear
        | some p =>
          obtain ⟨to, d⟩ := p
          simp only
          split
          · rw [← hc]; exact hclear
          · exact Or.inl rfl
  have hapi : (apiLoad ctx st).2.2 = [] ∨ ((apiLoad ctx st).2.2 = [mkCookie (-1) [] []] ∧ ctx.cookie ≠ []) := by
    simp only [apiLoad]
    cases ctx.cfg.loc with
    | server => exact Or.inl rfl
    | client => exact hck
    | both =>
      simp only
      split
      · exact hck
      · exact Or.inl rfl
  simp only [siLoad]
  rcases hA : apiLoad ctx st with ⟨r, st1, cs⟩
  rw [hA] at hapi
  cases r <;> exact hapi

theorem siSave_untouched_inv (ctx : Ctx) (s : Sess) (st : Store) (next : Nat) (st1 : Store) (n1 : Nat) (cs : List SetCookie)
    (h : siSave ctx s st next = .ok (st1, n1, cs, .untouched)) : st1 = st ∧ n1 = next ∧ cs = [] := by
  simp only [siSave] at h
  by_cases hem : s.data.isEmpty = true
  · simp only [hem, if_true] at h
    split at h <;> simp at h
  · simp only [hem, Bool.false_eq_true, if_false] at h
    split at h
    · simp at h; exact ⟨h.1.symm, h.2.1.symm, h.2.2⟩
    · split at h
      · simp at h; exact ⟨h.1.symm, h.2.1.symm, h.2.2⟩
      · cases har : saveData s.data with
        | error e => rw [har] at h; cases h
        | ok ar =>
          rw [har] at h
          simp only at h
          cases hap : apiSave ctx st next ar (sessionAgeOf ctx s) (newSession s) s.onServer with
          | error e => rw [hap] at h; cases h
          | ok r => obtain ⟨a, b, c, d⟩ := r; rw [hap] at h; simp at h

theorem siSave_cleared_inv (ctx : Ctx) (s : Sess) (st : Store) (next : Nat) (st1 : Store) (n1 : Nat) (cs : List SetCookie)
    (h : siSave ctx s st next = .ok (st1, n1, cs, .cleared)) :
    s.data.isEmpty = true ∧ n1 = next ∧
    ((ctx.cookie = [] ∧ st1 = st ∧ cs = updateExposed ctx s true) ∨
     (ctx.cookie ≠ [] ∧ st1 = (apiClear ctx st).1 ∧ cs = (apiClear ctx st).2 ++ updateExposed ctx s true)) := by
  simp only [siSave] at h
  by_cases hem : s.data.isEmpty = true
  · simp only [hem, if_true] at h
    by_cases hce : ctx.cookie.isEmpty = true
    · simp only [hce, if_true, Except.ok.injEq, Prod.mk.injEq, List.nil_append, and_true] at h
      exact ⟨hem, h.2.1.symm, Or.inl ⟨by simpa using hce, h.1.symm, h.2.2.symm⟩⟩
    · simp only [hce, Bool.false_eq_true, if_false, Except.ok.injEq, Prod.mk.injEq, and_true] at h
      exact ⟨hem, h.2.1.symm, Or.inr ⟨by intro e; rw [e] at hce; simp at hce, h.1.symm, h.2.2.symm⟩⟩
  · simp only [hem, Bool.false_eq_true, if_false] at h
    split at h
    · simp at h
    · split at h
      · simp at h
      · cases har : saveData s.data with
        | error e => rw [har] at h; cases h
        | ok ar =>
          rw [har] at h
          simp only at h
          cases hap : apiSave ctx st next ar (sessionAgeOf ctx s) (newSession s) s.onServer with
          | error e => rw [hap] at h; cases h
          | ok r => obtain ⟨a, b, c, d⟩ := r; rw [hap] at h; simp at h

theorem siSave_written_inv (ctx : Ctx) (s : Sess) (st : Store) (next : Nat) (st1 : Store) (n1 : Nat) (cs : List SetCookie) (tok : Bytes)
    (h : siSave ctx s st next = .ok (st1, n1, cs, .written tok)) :
    ∃ ar cs1, saveData s.data = .ok ar ∧ s.data.isEmpty = false ∧
      apiSave ctx st next ar (sessionAgeOf ctx s) (newSession s) s.onServer = .ok (st1, n1, cs1, tok) ∧
      cs = cs1 ++ [mkCookie (cookieAgeOf ctx s) tok []] ++ updateExposed ctx s (decide (s.data = s.copy) && !newSession s) := by
  simp only [siSave] at h
  by_cases hem : s.data.isEmpty = true
  · simp only [hem, if_true] at h
    split at h <;> simp at h
  · simp only [hem, Bool.false_eq_true, if_false] at h
    split at h
    · simp at h
    · split at h
      · simp at h
      · cases har : saveData s.data with
        | error e => rw [har] at h; cases h
        | ok ar =>
          rw [har] at h
          simp only at h
          cases hap : apiSave ctx st next ar (sessionAgeOf ctx s) (newSession s) s.onServer with
          | error e => rw [hap] at h; cases h
          | ok r =>
            obtain ⟨a, b, c, d⟩ := r
            rw [hap] at h
            simp only [Except.ok.injEq, Prod.mk.injEq, SaveKind.written.injEq] at h
            obtain ⟨rfl, rfl, rfl, rfl⟩ := h
            exact ⟨ar, c, rfl, by simpa using hem, hap, rfl⟩

end Cppcms.C06
