import Cppcms.C06.Refine7
/-!
# C06 refinement, layer 8: helper lemmas for the history-level theorems in `Props.lean`
-/
namespace Cppcms.C06
open Cppcms

/-- if the specification says `saved`, the model wrote, and the other way round the token is unique -/
theorem saved_token_unique {ctx : Ctx} {st : Store} {next : Nat} {ops : List Op} {k : SaveKind} {tok : Bytes}
    (h1 : (request ctx st next ops).saved = .ok k) (h2 : (request ctx st next ops).saved = .ok (.written tok)) : k = .written tok := by
  rw [h1] at h2; cases h2; rfl

theorem inplace_issued (ctx : Ctx) (st : Store) (next : Nat) (ops : List Op) (s0 : Sess) (st1 : Store) (cs : List SetCookie)
    (hi : StoreInv ctx.env st next) (hv : (validSid ctx.cookie).isSome = true)
    (hL : siLoad ctx st = (.ok s0, st1, cs)) (hns : newSession (applyOps ctx.cfg ctx.env s0 ops) = false)
    (hdne : (applyOps ctx.cfg ctx.env s0 ops).data.isEmpty = false)
    (hsaved : ∃ tok, (request ctx st next ops).saved = .ok (.written tok)) :
    ctx.cfg.loc ≠ .client → ∃ m, m < next ∧ ctx.cookie = 73 :: ctx.env.sidOf m := by
  intro hloc
  have hne : s0.copy.isEmpty = false := by
    have hc := (applyOps_copy ctx.cfg ctx.env ops s0).1
    simp only [newSession, Bool.or_eq_false_iff, Bool.and_eq_false_iff] at hns
    rw [hc] at hns
    rcases hns.1 with h | h
    · exact h
    · simp [hdne] at h
  obtain ⟨p, hp⟩ := loaded_of_copy ctx st s0 st1 cs hL hne
  cases hvv : validSid ctx.cookie with
  | none => rw [hvv] at hv; cases hv
  | some id =>
    obtain ⟨r, hr1, hr2⟩ := sid_in_store ctx.cfg ctx.env ctx.now st.recs ctx.cookie id p hvv hloc hp
    obtain ⟨m, hm1, hm2⟩ := hi.issued r hr1
    exact ⟨m, hm1, by rw [validSid_eq_cons hvv, ← hr2, hm2]⟩


/-- the token a writing request issues is known: a client-side cookie, or the next fresh identifier, or the
identifier (issued earlier) the session was loaded from -/
theorem issued_token_known (ctx : Ctx) (st : Store) (next : Nat) (ops : List Op) (tok : Bytes)
    (hi : StoreInv ctx.env st next) (ha : Admissible ctx.env ctx.cookie)
    (hsaved : (request ctx st next ops).saved = .ok (.written tok)) :
    TokKnown ctx.env (request ctx st next ops).next tok := by
  have hle := (request_inv ctx st next ops hi ha).2
  rcases request_token_form ctx st next ops tok hsaved with ⟨to, d, rfl⟩ | ⟨rfl, hn⟩ | ⟨rfl, hv, hloc, s0, st1, cs, hL, hns, hdne⟩
  · exact Or.inl rfl
  · exact Or.inr (Or.inl ⟨next, by omega, rfl⟩)
  · obtain ⟨m, hm, he⟩ := inplace_issued ctx st next ops s0 st1 cs hi hv hL hns hdne ⟨_, hsaved⟩ hloc
    exact Or.inr (Or.inl ⟨m, by omega, he⟩)

theorem request_saved_of_load_error (ctx : Ctx) (st : Store) (next : Nat) (ops : List Op) (e : Err)
    (h : (request ctx st next ops).reads = .error e) : (request ctx st next ops).saved = .error e := by
  rcases hL : siLoad ctx st with ⟨r, st1, cs⟩
  cases r with
  | error e' => simp only [request, hL] at h ⊢; cases h; rfl
  | ok s0 => rw [(request_of_load_ok ctx st next ops s0 st1 cs hL).1] at h; cases h

theorem reads_empty_of_rel (cfg : Cfg) (r : Reads) (h : ReadsRel r ⟨[], (dfOf cfg).age, (dfOf cfg).how, false, false⟩) :
    r = ⟨[], cfg.timeoutDef, cfg.howDef, false⟩ := by
  obtain ⟨h1, h2, h3, h4⟩ := h
  have : r.data = [] := by
    have := mapEq_isEmpty h1
    rw [toS_isEmpty] at this
    simpa using this
  cases r
  simp only [dfOf] at h2 h3 h4 this ⊢
  subst this h2 h3 h4
  rfl

theorem applyOp_reset_mono (cfg : Cfg) (env : Env) (s : Sess) (op : Op) (h : s.reset = true) : (applyOp cfg env s op).reset = true := by
  cases op <;> simp [applyOp, h]

theorem applyOps_reset_mono (cfg : Cfg) (env : Env) (ops : List Op) (s : Sess) (h : s.reset = true) : (applyOps cfg env s ops).reset = true := by
  induction ops generalizing s with
  | nil => exact h
  | cons op rest ih => exact ih _ (applyOp_reset_mono cfg env s op h)

theorem applyOps_reset (cfg : Cfg) (env : Env) (ops : List Op) (s : Sess) (h : Op.resetSession ∈ ops) : (applyOps cfg env s ops).reset = true := by
  induction ops generalizing s with
  | nil => cases h
  | cons op rest ih =>
    rcases List.mem_cons.mp h with h | h
    · subst h
      exact applyOps_reset_mono cfg env rest _ rfl
    · exact ih _ h

end Cppcms.C06
