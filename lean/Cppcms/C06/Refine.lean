import Cppcms.C06.Lemmas
/-!
# C06 refinement lemmas

Layer 1: server storages as partial maps (`aliveLookup`), frame lemmas for `save` / `load` / `remove` / `gc`.
Layer 2: tokens (cookie values) → payloads, for the three locations.
Layer 3: session logic (`applyOp`, `siSave`) against `Spec.applyOp`, `Spec.decideSave`.
-/
namespace Cppcms.C06
open Cppcms

/-! ## Layer 1: storages -/

def lookupRec (recs : List Rec) (id : Bytes) : Option (Int × Bytes) := (findRec id recs).map fun r => (r.timeout, r.data)

/-- a payload is visible at time `t` while `t ≤ deadline` (every backend tests `deadline < now`) -/
def aliveP (t : Int) : Option (Int × Bytes) → Option (Int × Bytes)
  | some p => if t ≤ p.1 then some p else none
  | none => none

def aliveLookup (t : Int) (recs : List Rec) (id : Bytes) : Option (Int × Bytes) := aliveP t (lookupRec recs id)

/-- no two records under the same key -/
def NoDupSid : List Rec → Prop
  | [] => True
  | r :: rest => (∀ x ∈ rest, x.sid ≠ r.sid) ∧ NoDupSid rest

theorem expired_iff (to now : Int) :
    Gen.memExpired to now = decide (¬ now ≤ to) ∧ Gen.fileExpired to now = decide (¬ now ≤ to) ∧
    Gen.memGcExpired to now = decide (¬ now ≤ to) ∧ Gen.fileGcExpired to now = decide (¬ now ≤ to) ∧
    Gen.sidExpired now to = decide (¬ now ≤ to) ∧ Gen.cookieExpired to now = decide (¬ now ≤ to) := by
  simp only [Gen.memExpired, Gen.fileExpired, Gen.memGcExpired, Gen.fileGcExpired, Gen.sidExpired, Gen.cookieExpired]
  refine ⟨?_, ?_, ?_, ?_, ?_, ?_⟩ <;> (apply decide_eq_decide.mpr; omega)

theorem findRec_mem {id : Bytes} {l : List Rec} {r : Rec} (h : findRec id l = some r) : r ∈ l ∧ r.sid = id := by
  induction l with
  | nil => simp [findRec] at h
  | cons x xs ih =>
    simp only [findRec] at h
    split at h
    · cases h; exact ⟨List.mem_cons_self .., by assumption⟩
    · obtain ⟨h1, h2⟩ := ih h; exact ⟨List.mem_cons_of_mem _ h1, h2⟩

theorem findRec_none_iff (id : Bytes) (l : List Rec) : findRec id l = none ↔ ∀ x ∈ l, x.sid ≠ id := by
  induction l with
  | nil => simp [findRec]
  | cons x xs ih =>
    simp only [findRec]
    split
    · rename_i h; simp [h]
    · rename_i h; rw [ih]; simp [h]

theorem mem_eraseSid {s : Bytes} {l : List Rec} {x : Rec} : x ∈ eraseSid s l ↔ x ∈ l ∧ x.sid ≠ s := by
  induction l with
  | nil => simp [eraseSid]
  | cons y ys ih =>
    simp only [eraseSid]
    split
    · rename_i h
      rw [ih]
      constructor
      · rintro ⟨h1, h2⟩; exact ⟨List.mem_cons_of_mem _ h1, h2⟩
      · rintro ⟨h1, h2⟩
        rcases List.mem_cons.mp h1 with rfl | h1
        · exact absurd h h2
        · exact ⟨h1, h2⟩
    · rename_i h
      simp only [List.mem_cons, ih]
      constructor
      · rintro (rfl | ⟨h1, h2⟩)
        · exact ⟨Or.inl rfl, h⟩
        · exact ⟨Or.inr h1, h2⟩
      · rintro ⟨rfl | h1, h2⟩
        · exact Or.inl rfl
        · exact Or.inr ⟨h1, h2⟩

theorem findRec_eraseSid (id s : Bytes) (l : List Rec) :
    findRec id (eraseSid s l) = if s = id then none else findRec id l := by
  induction l with
  | nil => simp [eraseSid, findRec]
  | cons x xs ih =>
    simp only [eraseSid]
    split
    · rename_i h
      rw [ih]
      simp only [findRec]
      split
      · rfl
      · rename_i hne; rw [if_neg (by rw [h]; exact hne)]
    · rename_i h
      simp only [findRec, ih]
      split
      · rename_i hx; rw [if_neg (by rw [← hx]; exact fun e => h e.symm)]
      · rfl

theorem noDup_eraseSid (s : Bytes) (l : List Rec) (h : NoDupSid l) : NoDupSid (eraseSid s l) := by
  induction l with
  | nil => trivial
  | cons x xs ih =>
    obtain ⟨h1, h2⟩ := h
    simp only [eraseSid]
    split
    · exact ih h2
    · exact ⟨fun y hy => h1 y (mem_eraseSid.mp hy).1, ih h2⟩

theorem mem_insByTimeout {r x : Rec} {l : List Rec} : x ∈ insByTimeout r l ↔ x = r ∨ x ∈ l := by
  induction l with
  | nil => simp [insByTimeout]
  | cons y ys ih =>
    simp only [insByTimeout]
    split
    · simp only [List.mem_cons, ih]
      constructor
      · rintro (h | h | h)
        · exact Or.inr (Or.inl h)
        · exact Or.inl h
        · exact Or.inr (Or.inr h)
      · rintro (h | h | h)
        · exact Or.inr (Or.inl h)
        · exact Or.inl h
        · exact Or.inr (Or.inr h)
    · simp [List.mem_cons]

theorem findRec_insByTimeout (id : Bytes) (r : Rec) (l : List Rec) (h : ∀ x ∈ l, x.sid ≠ r.sid) :
    findRec id (insByTimeout r l) = if r.sid = id then some r else findRec id l := by
  induction l with
  | nil => simp [insByTimeout, findRec]
  | cons y ys ih =>
    have hy := h y (List.mem_cons_self ..)
    simp only [insByTimeout]
    split
    · simp only [findRec, ih (fun x hx => h x (List.mem_cons_of_mem _ hx))]
      split
      · rename_i he; rw [if_neg (by rw [← he]; exact fun e => hy e.symm)]
      · rfl
    · simp only [findRec]

theorem noDup_insByTimeout (r : Rec) (l : List Rec) (h : NoDupSid l) (hr : ∀ x ∈ l, x.sid ≠ r.sid) :
    NoDupSid (insByTimeout r l) := by
  induction l with
  | nil => exact ⟨fun _ h => (by cases h), trivial⟩
  | cons y ys ih =>
    obtain ⟨h1, h2⟩ := h
    simp only [insByTimeout]
    split
    · refine ⟨?_, ih h2 (fun x hx => hr x (List.mem_cons_of_mem _ hx))⟩
      intro x hx
      rcases mem_insByTimeout.mp hx with rfl | hx
      · exact fun e => hr y (List.mem_cons_self ..) e.symm
      · exact h1 x hx
    · exact ⟨fun x hx => hr x hx, h1, h2⟩

theorem findRec_append (id : Bytes) (a b : List Rec) :
    findRec id (a ++ b) = match findRec id a with | some r => some r | none => findRec id b := by
  induction a with
  | nil => simp [findRec]
  | cons x xs ih =>
    simp only [List.cons_append, findRec]
    split
    · rfl
    · exact ih

theorem noDup_append_single (l : List Rec) (r : Rec) (h : NoDupSid l) (hr : ∀ x ∈ l, x.sid ≠ r.sid) : NoDupSid (l ++ [r]) := by
  induction l with
  | nil => exact ⟨fun _ h => (by cases h), trivial⟩
  | cons y ys ih =>
    obtain ⟨h1, h2⟩ := h
    refine ⟨?_, ih h2 (fun x hx => hr x (List.mem_cons_of_mem _ hx))⟩
    intro x hx
    rcases List.mem_append.mp hx with hx | hx
    · exact h1 x hx
    · simp at hx; subst hx; exact fun e => hr y (List.mem_cons_self ..) e.symm

/-! ### `short_gc` only ever drops records that are no longer visible -/

theorem mem_shortGcN {n : Nat} {now : Int} {l : List Rec} {x : Rec} (h : x ∈ shortGcN n now l) : x ∈ l := by
  induction n generalizing l with
  | zero => simpa [shortGcN] using h
  | succ n ih =>
    cases l with
    | nil => simp [shortGcN] at h
    | cons y ys =>
      simp only [shortGcN] at h
      split at h
      · exact List.mem_cons_of_mem _ (ih h)
      · exact h

theorem noDup_shortGcN (n : Nat) (now : Int) (l : List Rec) (h : NoDupSid l) : NoDupSid (shortGcN n now l) := by
  induction n generalizing l with
  | zero => simpa [shortGcN] using h
  | succ n ih =>
    cases l with
    | nil => simp [shortGcN, NoDupSid]
    | cons y ys =>
      simp only [shortGcN]
      split
      · exact ih ys h.2
      · exact h

theorem aliveLookup_shortGcN (n : Nat) (now t : Int) (l : List Rec) (id : Bytes) (hd : NoDupSid l) (ht : now ≤ t) :
    aliveLookup t (shortGcN n now l) id = aliveLookup t l id := by
  induction n generalizing l with
  | zero => simp [shortGcN]
  | succ n ih =>
    cases l with
    | nil => simp [shortGcN]
    | cons y ys =>
      simp only [shortGcN]
      split
      · rename_i hexp
        rw [ih ys hd.2]
        simp only [aliveLookup, lookupRec, findRec]
        split
        · rename_i hy
          -- `y` itself is expired, and no other record has its key
          have hnone : findRec id ys = none := (findRec_none_iff id ys).mpr (fun x hx => by rw [← hy]; exact hd.1 x hx)
          rw [hnone]
          simp only [Option.map_some, Option.map_none, aliveP]
          rw [(expired_iff y.timeout now).2.2.1] at hexp
          simp only [decide_eq_true_eq] at hexp
          rw [if_neg (by omega)]
        · rfl
      · rfl


theorem aliveLookup_shortGc (now t : Int) (l : List Rec) (id : Bytes) (hd : NoDupSid l) (ht : now ≤ t) :
    aliveLookup t (shortGc now l) id = aliveLookup t l id := aliveLookup_shortGcN _ now t l id hd ht

theorem aliveLookup_eraseSid (t : Int) (l : List Rec) (s id : Bytes) :
    aliveLookup t (eraseSid s l) id = if s = id then none else aliveLookup t l id := by
  simp only [aliveLookup, lookupRec, findRec_eraseSid]
  split <;> rfl

/-! ### the `session_storage` operations as updates of a partial map -/

theorem Store.save_alive (k : Kind) (now t : Int) (sid id : Bytes) (to : Int) (d : Bytes) (st : Store)
    (hd : NoDupSid st.recs) (ht : now ≤ t) :
    aliveLookup t (st.save k now sid to d).recs id = if sid = id then aliveP t (some (to, d)) else aliveLookup t st.recs id := by
  have hne : ∀ x ∈ eraseSid sid st.recs, x.sid ≠ (⟨sid, to, d⟩ : Rec).sid := fun x hx => (mem_eraseSid.mp hx).2
  cases k with
  | memory =>
    simp only [Store.save]
    rw [aliveLookup_shortGc now t _ id (noDup_insByTimeout _ _ (noDup_eraseSid sid _ hd) hne) ht]
    simp only [aliveLookup, lookupRec, findRec_insByTimeout id _ _ hne, findRec_eraseSid]
    split
    · rfl
    · rfl
  | files =>
    simp only [Store.save, aliveLookup, lookupRec, findRec_append, findRec_eraseSid, findRec]
    by_cases h : sid = id
    · simp [h]
    · simp only [h, if_false]
      cases findRec id st.recs <;> rfl

theorem Store.save_noDup (k : Kind) (now : Int) (sid : Bytes) (to : Int) (d : Bytes) (st : Store) (hd : NoDupSid st.recs) :
    NoDupSid (st.save k now sid to d).recs := by
  have hne : ∀ x ∈ eraseSid sid st.recs, x.sid ≠ (⟨sid, to, d⟩ : Rec).sid := fun x hx => (mem_eraseSid.mp hx).2
  cases k with
  | memory => exact noDup_shortGcN _ _ _ (noDup_insByTimeout _ _ (noDup_eraseSid sid _ hd) hne)
  | files => exact noDup_append_single _ _ (noDup_eraseSid sid _ hd) hne

theorem Store.save_mem (k : Kind) (now : Int) (sid : Bytes) (to : Int) (d : Bytes) (st : Store) (x : Rec)
    (h : x ∈ (st.save k now sid to d).recs) : x = ⟨sid, to, d⟩ ∨ x ∈ st.recs := by
  cases k with
  | memory =>
    rcases mem_insByTimeout.mp (mem_shortGcN h) with h | h
    · exact Or.inl h
    · exact Or.inr (mem_eraseSid.mp h).1
  | files =>
    rcases List.mem_append.mp h with h | h
    · exact Or.inr (mem_eraseSid.mp h).1
    · simp at h; exact Or.inl h

theorem Store.load_fst (k : Kind) (now : Int) (sid : Bytes) (st : Store) :
    (st.load k now sid).1 = aliveLookup now st.recs sid := by
  simp only [Store.load, aliveLookup, lookupRec]
  cases h : findRec sid st.recs with
  | none => rfl
  | some r =>
    obtain ⟨e1, e2, _⟩ := expired_iff r.timeout now
    cases k with
    | memory =>
      simp only [Option.map_some, aliveP, e1]
      by_cases hh : now ≤ r.timeout <;> simp [hh]
    | files =>
      simp only [Option.map_some, aliveP, e2]
      by_cases hh : now ≤ r.timeout <;> simp [hh]

theorem Store.load_alive (k : Kind) (now t : Int) (sid id : Bytes) (st : Store) (ht : now ≤ t) :
    aliveLookup t (st.load k now sid).2.recs id = aliveLookup t st.recs id := by
  simp only [Store.load]
  cases h : findRec sid st.recs with
  | none => rfl
  | some r =>
    cases k with
    | memory => simp only; split <;> rfl
    | files =>
      simp only
      split
      · rename_i hexp
        simp only [aliveLookup_eraseSid]
        split
        · rename_i he; subst he
          rw [(expired_iff r.timeout now).2.1] at hexp
          simp only [decide_eq_true_eq] at hexp
          simp only [aliveLookup, lookupRec, h, Option.map_some, aliveP]
          rw [if_neg (by omega)]
        · rfl
      · rfl

theorem Store.load_mem (k : Kind) (now : Int) (sid : Bytes) (st : Store) (x : Rec) (h : x ∈ (st.load k now sid).2.recs) : x ∈ st.recs := by
  simp only [Store.load] at h
  cases hf : findRec sid st.recs with
  | none => simpa [hf] using h
  | some r =>
    cases k with
    | memory => simp only [hf] at h; split at h <;> exact h
    | files =>
      simp only [hf] at h
      split at h
      · exact (mem_eraseSid.mp h).1
      · exact h

theorem Store.load_noDup (k : Kind) (now : Int) (sid : Bytes) (st : Store) (hd : NoDupSid st.recs) : NoDupSid (st.load k now sid).2.recs := by
  simp only [Store.load]
  cases hf : findRec sid st.recs with
  | none => exact hd
  | some r =>
    cases k with
    | memory => simp only; split <;> exact hd
    | files =>
      simp only
      split
      · exact noDup_eraseSid _ _ hd
      · exact hd

theorem Store.remove_alive (k : Kind) (now t : Int) (sid id : Bytes) (st : Store) (hd : NoDupSid st.recs) (ht : now ≤ t) :
    aliveLookup t (st.remove k now sid).recs id = if sid = id then none else aliveLookup t st.recs id := by
  cases k with
  | memory =>
    simp only [Store.remove]
    cases hf : findRec sid st.recs with
    | none =>
      simp only
      split
      · rename_i he; subst he; simp [aliveLookup, lookupRec, hf, aliveP]
      · rfl
    | some r =>
      simp only
      rw [aliveLookup_shortGc now t _ id (noDup_eraseSid sid _ hd) ht, aliveLookup_eraseSid]
  | files => simp only [Store.remove, aliveLookup_eraseSid]

theorem Store.remove_mem (k : Kind) (now : Int) (sid : Bytes) (st : Store) (x : Rec) (h : x ∈ (st.remove k now sid).recs) :
    x ∈ st.recs ∧ x.sid ≠ sid := by
  cases k with
  | memory =>
    simp only [Store.remove] at h
    cases hf : findRec sid st.recs with
    | none =>
      simp only [hf] at h
      exact ⟨h, (findRec_none_iff sid st.recs).mp hf x h⟩
    | some r =>
      simp only [hf] at h
      exact mem_eraseSid.mp (mem_shortGcN h)
  | files => exact mem_eraseSid.mp h

theorem Store.remove_noDup (k : Kind) (now : Int) (sid : Bytes) (st : Store) (hd : NoDupSid st.recs) : NoDupSid (st.remove k now sid).recs := by
  cases k with
  | memory =>
    simp only [Store.remove]
    cases hf : findRec sid st.recs with
    | none => exact hd
    | some r => exact noDup_shortGcN _ _ _ (noDup_eraseSid _ _ hd)
  | files => exact noDup_eraseSid _ _ hd


/-! ## Layer 2: tokens (cookie values) and their payloads -/

/-- hypotheses on the externals (never axioms): identifiers have the issued form, decryption inverts
encryption.  (The model and the specification use the same `showInt`/`readInt`, so no law about them is
needed for the refinement.) -/
structure EnvOK (env : Env) : Prop where
  sid_form : ∀ n, Spec.wellFormedId (env.sidOf n) = true
  dec_enc : ∀ t d, env.dec (env.enc t d) = some (t, d)

def sidPayload (recs : List Rec) (c : Bytes) : Option (Int × Bytes) :=
  match validSid c with
  | none => none
  | some id => lookupRec recs id

def cookiePayload (env : Env) (c : Bytes) : Option (Int × Bytes) :=
  match c with
  | [] => none
  | c0 :: body => if c0.toNat != Gen.cookiesPrefix then none else env.dec body

/-- what a cookie value denotes under the configured location -/
def tokPayload (cfg : Cfg) (env : Env) (recs : List Rec) (c : Bytes) : Option (Int × Bytes) :=
  match cfg.loc with
  | .server => sidPayload recs c
  | .client => cookiePayload env c
  | .both => if firstIs c Gen.dualLoadClientChar then cookiePayload env c else sidPayload recs c

def aliveTok (cfg : Cfg) (env : Env) (t : Int) (recs : List Rec) (c : Bytes) : Option (Int × Bytes) :=
  aliveP t (tokPayload cfg env recs c)

/-- server-side identifiers: the tokens that can be revoked -/
def revocable (cfg : Cfg) (c : Bytes) : Bool := cfg.loc != .client && (validSid c).isSome

theorem validSid_eq_cons {c id : Bytes} (h : validSid c = some id) : c = 73 :: id := ((validSid_iff c id).mp h).1

theorem validSid_of_wf {id : Bytes} (h : Spec.wellFormedId id = true) : validSid (UInt8.ofNat Gen.sidPrefix :: id) = some id :=
  (validSid_iff _ id).mpr ⟨rfl, h⟩

theorem firstIs_sid {c id : Bytes} (h : validSid c = some id) : firstIs c Gen.dualLoadClientChar = false ∧ firstIs c Gen.dualSaveSidChar = true := by
  rw [validSid_eq_cons h]; exact ⟨rfl, rfl⟩

theorem aliveP_idem (t : Int) (p : Option (Int × Bytes)) : aliveP t (aliveP t p) = aliveP t p := by
  cases p with
  | none => rfl
  | some p => by_cases h : t ≤ p.1 <;> simp [aliveP, h]

theorem aliveP_mono {now t : Int} (ht : now ≤ t) (p : Option (Int × Bytes)) : aliveP t (aliveP now p) = aliveP t p := by
  cases p with
  | none => rfl
  | some p =>
    simp only [aliveP]
    by_cases h1 : now ≤ p.1
    · simp [h1, aliveP]
    · have : ¬ t ≤ p.1 := by omega
      simp [h1, this, aliveP]

/-! ### `session_sid` -/

theorem sidLoad_fst (ctx : Ctx) (st : Store) : (sidLoad ctx st).1 = aliveP ctx.now (sidPayload st.recs ctx.cookie) := by
  simp only [sidLoad, sidPayload]
  cases hv : validSid ctx.cookie with
  | none => rfl
  | some id =>
    simp only
    have h1 := Store.load_fst ctx.cfg.kind ctx.now id st
    cases hl : st.load ctx.cfg.kind ctx.now id with
    | mk r st1 =>
      rw [hl] at h1
      simp only at h1
      cases r with
      | none => exact h1
      | some p =>
        obtain ⟨to, d⟩ := p
        simp only
        -- alive at `now`, so the second expiry test of session_sid::load cannot fire
        have hal : aliveLookup ctx.now st.recs id = some (to, d) := h1.symm
        have hle : ctx.now ≤ to := by
          simp only [aliveLookup] at hal
          cases hh : lookupRec st.recs id with
          | none => rw [hh] at hal; simp [aliveP] at hal
          | some q =>
            rw [hh] at hal
            simp only [aliveP] at hal
            split at hal
            · cases hal; assumption
            · cases hal
        rw [(expired_iff to ctx.now).2.2.2.2.1]
        simp only [hle, not_true_eq_false, decide_false]
        exact hal.symm

theorem sidLoad_alive (ctx : Ctx) (st : Store) (t : Int) (id : Bytes) (hd : NoDupSid st.recs) (ht : ctx.now ≤ t) :
    aliveLookup t (sidLoad ctx st).2.recs id = aliveLookup t st.recs id := by
  simp only [sidLoad]
  cases hv : validSid ctx.cookie with
  | none => rfl
  | some sid =>
    simp only
    have h2 := Store.load_alive ctx.cfg.kind ctx.now t sid id st ht
    cases hl : st.load ctx.cfg.kind ctx.now sid with
    | mk r st1 =>
      rw [hl] at h2
      simp only at h2
      cases r with
      | none => exact h2
      | some p =>
        obtain ⟨to, d⟩ := p
        simp only
        split
        · rename_i hexp
          -- unreachable in fact; still: removing an expired record changes nothing visible
          have hnd : NoDupSid st1.recs := by have := Store.load_noDup ctx.cfg.kind ctx.now sid st hd; rw [hl] at this; exact this
          rw [Store.remove_alive _ _ _ _ _ _ hnd ht]
          split
          · rename_i he; subst he
            have h1 := Store.load_fst ctx.cfg.kind ctx.now sid st
            rw [hl] at h1
            simp only at h1
            rw [(expired_iff to ctx.now).2.2.2.2.1] at hexp
            simp only [decide_eq_true_eq] at hexp
            have : aliveLookup ctx.now st.recs sid = some (to, d) := h1.symm
            exfalso
            simp only [aliveLookup] at this
            cases hh : lookupRec st.recs sid with
            | none => rw [hh] at this; simp [aliveP] at this
            | some q =>
              rw [hh] at this
              simp only [aliveP] at this
              split at this
              · cases this; omega
              · cases this
          · exact h2
        · exact h2

theorem sidLoad_mem (ctx : Ctx) (st : Store) (x : Rec) (h : x ∈ (sidLoad ctx st).2.recs) : x ∈ st.recs := by
  simp only [sidLoad] at h
  cases hv : validSid ctx.cookie with
  | none => simpa [hv] using h
  | some sid =>
    simp only [hv] at h
    have hm := Store.load_mem ctx.cfg.kind ctx.now sid st x
    cases hl : st.load ctx.cfg.kind ctx.now sid with
    | mk r st1 =>
      rw [hl] at h hm
      cases r with
      | none => exact hm h
      | some p =>
        obtain ⟨to, d⟩ := p
        simp only at h
        split at h
        · exact hm (Store.remove_mem _ _ _ _ _ h).1
        · exact hm h

theorem sidLoad_noDup (ctx : Ctx) (st : Store) (hd : NoDupSid st.recs) : NoDupSid (sidLoad ctx st).2.recs := by
  simp only [sidLoad]
  cases hv : validSid ctx.cookie with
  | none => exact hd
  | some sid =>
    simp only
    have hn := Store.load_noDup ctx.cfg.kind ctx.now sid st hd
    cases hl : st.load ctx.cfg.kind ctx.now sid with
    | mk r st1 =>
      rw [hl] at hn
      cases r with
      | none => exact hn
      | some p =>
        obtain ⟨to, d⟩ := p
        simp only
        split
        · exact Store.remove_noDup _ _ _ _ hn
        · exact hn

/-- the identifier under which `session_sid::save` stores -/
def sidSaveId (ctx : Ctx) (next : Nat) (newData : Bool) : Bytes :=
  match validSid ctx.cookie with
  | some id => if newData then ctx.env.sidOf next else id
  | none => ctx.env.sidOf next

theorem sidSave_token (ctx : Ctx) (st : Store) (next : Nat) (data : Bytes) (timeout : Int) (newData : Bool) :
    (sidSave ctx st next data timeout newData).2.2 = UInt8.ofNat Gen.sidPrefix :: sidSaveId ctx next newData := by
  simp only [sidSave, sidSaveId]
  cases validSid ctx.cookie with
  | none => rfl
  | some id => cases newData <;> rfl

theorem sidSaveId_wf (ctx : Ctx) (next : Nat) (newData : Bool) (he : EnvOK ctx.env) : Spec.wellFormedId (sidSaveId ctx next newData) = true := by
  simp only [sidSaveId]
  cases hv : validSid ctx.cookie with
  | none => exact he.sid_form next
  | some id =>
    cases newData
    · exact ((validSid_iff _ id).mp hv).2
    · exact he.sid_form next

theorem sidSave_alive (ctx : Ctx) (st : Store) (next : Nat) (data : Bytes) (timeout : Int) (newData : Bool) (t : Int) (id2 : Bytes)
    (hd : NoDupSid st.recs) (ht : ctx.now ≤ t) :
    aliveLookup t (sidSave ctx st next data timeout newData).1.recs id2 =
      if sidSaveId ctx next newData = id2 then aliveP t (some (timeout, data))
      else if validSid ctx.cookie = some id2 then none
      else aliveLookup t st.recs id2 := by
  cases hv : validSid ctx.cookie with
  | none =>
    have e1 : sidSave ctx st next data timeout newData = (st.save ctx.cfg.kind ctx.now (ctx.env.sidOf next) timeout data, next + 1, UInt8.ofNat Gen.sidPrefix :: ctx.env.sidOf next) := by
      simp only [sidSave, hv]
    have e2 : sidSaveId ctx next newData = ctx.env.sidOf next := by simp only [sidSaveId, hv]
    rw [e1, e2]
    simp only [Store.save_alive _ _ _ _ _ _ _ _ hd ht]
    simp
  | some id =>
    cases newData with
    | false =>
      have e1 : sidSave ctx st next data timeout false = (st.save ctx.cfg.kind ctx.now id timeout data, next, UInt8.ofNat Gen.sidPrefix :: id) := by
        simp [sidSave, hv]
      have e2 : sidSaveId ctx next false = id := by simp [sidSaveId, hv]
      rw [e1, e2]
      simp only [Store.save_alive _ _ _ _ _ _ _ _ hd ht]
      split
      · rfl
      · rename_i h; rw [if_neg (by intro e; cases e; exact h rfl)]
    | true =>
      have e1 : sidSave ctx st next data timeout true = ((st.remove ctx.cfg.kind ctx.now id).save ctx.cfg.kind ctx.now (ctx.env.sidOf next) timeout data, next + 1, UInt8.ofNat Gen.sidPrefix :: ctx.env.sidOf next) := by
        simp [sidSave, hv]
      have e2 : sidSaveId ctx next true = ctx.env.sidOf next := by simp [sidSaveId, hv]
      rw [e1, e2]
      simp only [Store.save_alive _ _ _ _ _ _ _ _ (Store.remove_noDup _ _ _ _ hd) ht, Store.remove_alive _ _ _ _ _ _ hd ht]
      split
      · rfl
      · split
        · rename_i h; rw [if_pos (by rw [h])]
        · rename_i h; rw [if_neg (by intro e; cases e; exact h rfl)]

theorem sidSave_noDup (ctx : Ctx) (st : Store) (next : Nat) (data : Bytes) (timeout : Int) (newData : Bool) (hd : NoDupSid st.recs) :
    NoDupSid (sidSave ctx st next data timeout newData).1.recs := by
  simp only [sidSave]
  cases validSid ctx.cookie with
  | none => exact Store.save_noDup _ _ _ _ _ _ hd
  | some id =>
    cases newData
    · exact Store.save_noDup _ _ _ _ _ _ hd
    · exact Store.save_noDup _ _ _ _ _ _ (Store.remove_noDup _ _ _ _ hd)

theorem sidSave_mem (ctx : Ctx) (st : Store) (next : Nat) (data : Bytes) (timeout : Int) (newData : Bool) (x : Rec)
    (h : x ∈ (sidSave ctx st next data timeout newData).1.recs) :
    x = ⟨sidSaveId ctx next newData, timeout, data⟩ ∨ x ∈ st.recs := by
  simp only [sidSave, sidSaveId] at h ⊢
  cases hv : validSid ctx.cookie with
  | none => rw [hv] at h; exact Store.save_mem _ _ _ _ _ _ _ h
  | some id =>
    rw [hv] at h
    cases newData with
    | false => exact Store.save_mem _ _ _ _ _ _ _ h
    | true =>
      rcases Store.save_mem _ _ _ _ _ _ _ h with h | h
      · exact Or.inl h
      · exact Or.inr (Store.remove_mem _ _ _ _ _ h).1

theorem sidSave_next (ctx : Ctx) (st : Store) (next : Nat) (data : Bytes) (timeout : Int) (newData : Bool) :
    (sidSave ctx st next data timeout newData).2.1 = next ∨
    ((sidSave ctx st next data timeout newData).2.1 = next + 1 ∧ sidSaveId ctx next newData = ctx.env.sidOf next) := by
  simp only [sidSave, sidSaveId]
  cases validSid ctx.cookie with
  | none => exact Or.inr ⟨rfl, rfl⟩
  | some id => cases newData <;> simp

theorem sidClear_alive (ctx : Ctx) (st : Store) (t : Int) (id2 : Bytes) (hd : NoDupSid st.recs) (ht : ctx.now ≤ t) :
    aliveLookup t (sidClear ctx st).1.recs id2 = if validSid ctx.cookie = some id2 then none else aliveLookup t st.recs id2 := by
  simp only [sidClear]
  cases hv : validSid ctx.cookie with
  | none => simp
  | some id =>
    simp only [Store.remove_alive _ _ _ _ _ _ hd ht]
    split
    · rename_i h; rw [if_pos (by rw [h])]
    · rename_i h; rw [if_neg (by intro e; cases e; exact h rfl)]

theorem sidClear_noDup (ctx : Ctx) (st : Store) (hd : NoDupSid st.recs) : NoDupSid (sidClear ctx st).1.recs := by
  simp only [sidClear]
  cases validSid ctx.cookie with
  | none => exact hd
  | some id => exact Store.remove_noDup _ _ _ _ hd

theorem sidClear_mem (ctx : Ctx) (st : Store) (x : Rec) (h : x ∈ (sidClear ctx st).1.recs) : x ∈ st.recs := by
  simp only [sidClear] at h
  cases hv : validSid ctx.cookie with
  | none => simpa [hv] using h
  | some id => rw [hv] at h; exact (Store.remove_mem _ _ _ _ _ h).1


/-! ### `session_cookies`, `session_dual`: the configured `session_api` on tokens -/

theorem aliveP_sidPayload (t : Int) (recs : List Rec) (c : Bytes) :
    aliveP t (sidPayload recs c) = match validSid c with | none => none | some id => aliveLookup t recs id := by
  simp only [sidPayload]
  cases validSid c <;> rfl

theorem sid_tok_eq {c c2 id : Bytes} (h1 : validSid c = some id) (h2 : validSid c2 = some id) : c2 = c := by
  rw [validSid_eq_cons h1, validSid_eq_cons h2]

theorem cookiesLoad_fst (ctx : Ctx) : (cookiesLoad ctx).1 = aliveP ctx.now (cookiePayload ctx.env ctx.cookie) := by
  simp only [cookiesLoad, cookiePayload]
  cases ctx.cookie with
  | nil => rfl
  | cons c0 body =>
    simp only
    split
    · rfl
    · cases hdec : ctx.env.dec body with
      | none => rfl
      | some p =>
        obtain ⟨to, d⟩ := p
        simp only [aliveP, (expired_iff to ctx.now).2.2.2.2.2]
        by_cases h : ctx.now ≤ to <;> simp [h]

theorem apiLoad_fst (ctx : Ctx) (st : Store) : (apiLoad ctx st).1 = aliveTok ctx.cfg ctx.env ctx.now st.recs ctx.cookie := by
  simp only [apiLoad, aliveTok, tokPayload]
  cases ctx.cfg.loc with
  | server => simp only; exact sidLoad_fst ctx st
  | client => simp only; exact cookiesLoad_fst ctx
  | both =>
    simp only
    split
    · exact cookiesLoad_fst ctx
    · exact sidLoad_fst ctx st

/-- the store after `load` differs from the store before only in records that are no longer visible -/
theorem apiLoad_alive (ctx : Ctx) (st : Store) (t : Int) (id : Bytes) (hd : NoDupSid st.recs) (ht : ctx.now ≤ t) :
    aliveLookup t (apiLoad ctx st).2.1.recs id = aliveLookup t st.recs id := by
  simp only [apiLoad]
  cases ctx.cfg.loc with
  | server => exact sidLoad_alive ctx st t id hd ht
  | client => rfl
  | both =>
    simp only
    split
    · rfl
    · exact sidLoad_alive ctx st t id hd ht

theorem apiLoad_noDup (ctx : Ctx) (st : Store) (hd : NoDupSid st.recs) : NoDupSid (apiLoad ctx st).2.1.recs := by
  simp only [apiLoad]
  cases ctx.cfg.loc with
  | server => exact sidLoad_noDup ctx st hd
  | client => exact hd
  | both =>
    simp only
    split
    · exact hd
    · exact sidLoad_noDup ctx st hd

theorem apiLoad_mem (ctx : Ctx) (st : Store) (x : Rec) (h : x ∈ (apiLoad ctx st).2.1.recs) : x ∈ st.recs := by
  simp only [apiLoad] at h
  cases hl : ctx.cfg.loc with
  | server => rw [hl] at h; exact sidLoad_mem ctx st x h
  | client => rw [hl] at h; exact h
  | both =>
    rw [hl] at h
    simp only at h
    split at h
    · exact h
    · exact sidLoad_mem ctx st x h

/-- a token's visible payload depends on the store only through `aliveLookup` -/
theorem aliveTok_congr (cfg : Cfg) (env : Env) (t : Int) (r1 r2 : List Rec) (c : Bytes)
    (h : ∀ id, aliveLookup t r1 id = aliveLookup t r2 id) : aliveTok cfg env t r1 c = aliveTok cfg env t r2 c := by
  simp only [aliveTok, tokPayload]
  cases cfg.loc with
  | server => simp only [aliveP_sidPayload]; cases validSid c <;> simp [h]
  | client => rfl
  | both =>
    simp only
    split
    · rfl
    · simp only [aliveP_sidPayload]; cases validSid c <;> simp [h]

/-- a general store update described on identifiers, lifted to tokens -/
theorem aliveTok_update (cfg : Cfg) (env : Env) (t : Int) (r1 r2 : List Rec) (c2 : Bytes)
    (newId : Option Bytes) (newP : Option (Int × Bytes)) (delId : Option Bytes)
    (h : ∀ id, aliveLookup t r1 id = if newId = some id then newP else if delId = some id then none else aliveLookup t r2 id)
    (hloc : cfg.loc ≠ .client) :
    aliveTok cfg env t r1 c2 =
      match validSid c2 with
      | some id => if newId = some id then newP else if delId = some id then none else aliveTok cfg env t r2 c2
      | none => aliveTok cfg env t r2 c2 := by
  simp only [aliveTok, tokPayload]
  cases hl : cfg.loc with
  | client => exact absurd hl hloc
  | server =>
    simp only [aliveP_sidPayload]
    cases hv : validSid c2 with
    | none => rfl
    | some id => simp only [h]
  | both =>
    simp only
    cases hv : validSid c2 with
    | none =>
      simp only
      split
      · rfl
      · simp only [aliveP_sidPayload, hv]
    | some id =>
      simp only [(firstIs_sid hv).1, Bool.false_eq_true, if_false, aliveP_sidPayload, hv, h]

theorem loc_cases (l : Loc) : l = .server ∨ l = .client ∨ l = .both := by cases l <;> simp

theorem apiClear_alive_sid (ctx : Ctx) (st : Store) (t : Int) (c2 : Bytes) (hd : NoDupSid st.recs) (ht : ctx.now ≤ t)
    (hloc : ctx.cfg.loc ≠ .client) :
    aliveTok ctx.cfg ctx.env t (sidClear ctx st).1.recs c2 =
      if ((validSid ctx.cookie).isSome && decide (c2 = ctx.cookie)) = true then none else aliveTok ctx.cfg ctx.env t st.recs c2 := by
  rw [aliveTok_update ctx.cfg ctx.env t _ st.recs c2 none none (validSid ctx.cookie)
    (fun id => by rw [sidClear_alive ctx st t id hd ht]; simp) hloc]
  cases hv : validSid c2 with
  | none =>
    simp only
    by_cases hc : c2 = ctx.cookie
    · subst hc; simp [hv]
    · simp [hc]
  | some id =>
    simp only [reduceCtorEq, if_false]
    by_cases hc : validSid ctx.cookie = some id
    · rw [if_pos hc]
      have : c2 = ctx.cookie := sid_tok_eq hc hv
      simp [hc, this]
    · rw [if_neg hc]
      by_cases hcc : c2 = ctx.cookie
      · subst hcc; exact absurd hv hc
      · simp [hcc]

theorem apiClear_alive (ctx : Ctx) (st : Store) (t : Int) (c2 : Bytes) (hd : NoDupSid st.recs) (ht : ctx.now ≤ t) :
    aliveTok ctx.cfg ctx.env t (apiClear ctx st).1.recs c2 =
      if (revocable ctx.cfg ctx.cookie && decide (c2 = ctx.cookie)) = true then none else aliveTok ctx.cfg ctx.env t st.recs c2 := by
  rcases loc_cases ctx.cfg.loc with hl | hl | hl
  · have e1 : apiClear ctx st = sidClear ctx st := by simp [apiClear, hl]
    have e2 : revocable ctx.cfg ctx.cookie = (validSid ctx.cookie).isSome := by simp [revocable, hl]
    rw [e1, e2]; exact apiClear_alive_sid ctx st t c2 hd ht (by rw [hl]; simp)
  · have e1 : apiClear ctx st = (st, clearSessionCookie ctx) := by simp [apiClear, hl]
    have e2 : revocable ctx.cfg ctx.cookie = false := by simp [revocable, hl]
    rw [e1, e2]; simp
  · have e2 : revocable ctx.cfg ctx.cookie = (validSid ctx.cookie).isSome := by simp [revocable, hl]
    by_cases hf : firstIs ctx.cookie Gen.dualClearClientChar = true
    · have e1 : apiClear ctx st = (st, clearSessionCookie ctx) := by simp [apiClear, hl, hf]
      have e3 : (validSid ctx.cookie).isSome = false := by
        cases hv : validSid ctx.cookie with
        | none => rfl
        | some id =>
          have := (firstIs_sid hv).1
          rw [show Gen.dualLoadClientChar = Gen.dualClearClientChar from rfl] at this
          rw [this] at hf; cases hf
      rw [e1, e2, e3]; simp
    · have e1 : apiClear ctx st = sidClear ctx st := by simp [apiClear, hl, hf]
      rw [e1, e2]; exact apiClear_alive_sid ctx st t c2 hd ht (by rw [hl]; simp)

theorem apiClear_noDup (ctx : Ctx) (st : Store) (hd : NoDupSid st.recs) : NoDupSid (apiClear ctx st).1.recs := by
  simp only [apiClear]
  cases ctx.cfg.loc with
  | client => exact hd
  | server => exact sidClear_noDup ctx st hd
  | both =>
    simp only
    split
    · exact hd
    · exact sidClear_noDup ctx st hd

theorem apiClear_mem (ctx : Ctx) (st : Store) (x : Rec) (h : x ∈ (apiClear ctx st).1.recs) : x ∈ st.recs := by
  simp only [apiClear] at h
  cases hl : ctx.cfg.loc with
  | client => rw [hl] at h; exact h
  | server => rw [hl] at h; exact sidClear_mem ctx st x h
  | both =>
    rw [hl] at h
    simp only at h
    split at h
    · exact h
    · exact sidClear_mem ctx st x h


/-! ### `save` on tokens -/

theorem sidSave_tok (ctx : Ctx) (st : Store) (next : Nat) (data : Bytes) (timeout : Int) (isNew : Bool) (t : Int) (c2 : Bytes)
    (he : EnvOK ctx.env) (hd : NoDupSid st.recs) (ht : ctx.now ≤ t) (hloc : ctx.cfg.loc ≠ .client) :
    aliveTok ctx.cfg ctx.env t (sidSave ctx st next data timeout isNew).1.recs c2 =
      if c2 = (sidSave ctx st next data timeout isNew).2.2 then aliveP t (some (timeout, data))
      else if ((validSid ctx.cookie).isSome && decide (c2 = ctx.cookie)) = true then none
      else aliveTok ctx.cfg ctx.env t st.recs c2 := by
  rw [aliveTok_update ctx.cfg ctx.env t _ st.recs c2 (some (sidSaveId ctx next isNew)) (aliveP t (some (timeout, data))) (validSid ctx.cookie)
    (fun id => by rw [sidSave_alive ctx st next data timeout isNew t id hd ht]; simp) hloc]
  rw [sidSave_token]
  have htemp : validSid (UInt8.ofNat Gen.sidPrefix :: sidSaveId ctx next isNew) = some (sidSaveId ctx next isNew) :=
    validSid_of_wf (sidSaveId_wf ctx next isNew he)
  cases hv : validSid c2 with
  | none =>
    simp only
    have h1 : c2 ≠ UInt8.ofNat Gen.sidPrefix :: sidSaveId ctx next isNew := by
      intro e; rw [e, htemp] at hv; cases hv
    rw [if_neg h1]
    by_cases hc : c2 = ctx.cookie
    · subst hc; simp [hv]
    · simp [hc]
  | some id =>
    simp only
    by_cases h1 : some (sidSaveId ctx next isNew) = some id
    · rw [if_pos h1]
      have : c2 = UInt8.ofNat Gen.sidPrefix :: sidSaveId ctx next isNew := by
        cases h1; exact (sid_tok_eq hv htemp).symm
      rw [if_pos this]
    · rw [if_neg h1]
      have : c2 ≠ UInt8.ofNat Gen.sidPrefix :: sidSaveId ctx next isNew := by
        intro e; rw [e, htemp] at hv; exact h1 hv
      rw [if_neg this]
      by_cases hc : validSid ctx.cookie = some id
      · rw [if_pos hc]
        have : c2 = ctx.cookie := sid_tok_eq hc hv
        simp [hc, this]
      · rw [if_neg hc]
        by_cases hcc : c2 = ctx.cookie
        · subst hcc; exact absurd hv hc
        · simp [hcc]

theorem cookie_tok (cfg : Cfg) (env : Env) (t : Int) (recs : List Rec) (to : Int) (d : Bytes) (he : EnvOK env) (hloc : cfg.loc ≠ .server) :
    aliveTok cfg env t recs (ofNats Gen.cookiesSavePrefix ++ env.enc to d) = aliveP t (some (to, d)) := by
  have e : ofNats Gen.cookiesSavePrefix ++ env.enc to d = 67 :: env.enc to d := rfl
  rw [e]
  simp only [aliveTok, tokPayload]
  rcases loc_cases cfg.loc with hl | hl | hl
  · exact absurd hl hloc
  · rw [hl]; simp [cookiePayload, Gen.cookiesPrefix, he.dec_enc]
  · rw [hl]; simp [firstIs, Gen.dualLoadClientChar, cookiePayload, Gen.cookiesPrefix, he.dec_enc]

/-- the main store lemma: what every token denotes after `storage_->save(...)` -/
theorem apiSave_alive (ctx : Ctx) (st : Store) (next : Nat) (data : Bytes) (timeout : Int) (isNew onServer : Bool)
    (st1 : Store) (n1 : Nat) (cs : List SetCookie) (temp : Bytes)
    (h : apiSave ctx st next data timeout isNew onServer = .ok (st1, n1, cs, temp))
    (he : EnvOK ctx.env) (hd : NoDupSid st.recs) (t : Int) (ht : ctx.now ≤ t) (c2 : Bytes) :
    aliveTok ctx.cfg ctx.env t st1.recs c2 =
      if c2 = temp then aliveP t (some (timeout, data))
      else if (revocable ctx.cfg ctx.cookie && decide (c2 = ctx.cookie)) = true then none
      else aliveTok ctx.cfg ctx.env t st.recs c2 := by
  rcases loc_cases ctx.cfg.loc with hl | hl | hl
  · -- server
    have e2 : revocable ctx.cfg ctx.cookie = (validSid ctx.cookie).isSome := by simp [revocable, hl]
    simp only [apiSave, hl] at h
    cases h
    rw [e2]
    exact sidSave_tok ctx st next data timeout isNew t c2 he hd ht (by rw [hl]; simp)
  · -- client
    have e2 : revocable ctx.cfg ctx.cookie = false := by simp [revocable, hl]
    simp only [apiSave, hl, cookiesSave] at h
    cases onServer with
    | true => simp at h
    | false =>
      simp at h
      obtain ⟨rfl, rfl, rfl, rfl⟩ := h
      rw [e2]
      by_cases hc : c2 = ofNats Gen.cookiesSavePrefix ++ ctx.env.enc timeout data
      · rw [if_pos hc, hc]; exact cookie_tok _ _ _ _ _ _ he (by rw [hl]; simp)
      · rw [if_neg hc]; simp
  · -- both
    have e2 : revocable ctx.cfg ctx.cookie = (validSid ctx.cookie).isSome := by simp [revocable, hl]
    simp only [apiSave, hl] at h
    by_cases hs : Gen.dualServerSide onServer data.length ctx.cfg.limit = true
    · simp only [hs, if_true] at h
      cases h
      rw [e2]
      exact sidSave_tok ctx st next data timeout isNew t c2 he hd ht (by rw [hl]; simp)
    · simp only [hs, cookiesSave] at h
      simp at h
      obtain ⟨rfl, rfl, rfl, rfl⟩ := h
      rw [e2]
      by_cases hc : c2 = ofNats Gen.cookiesSavePrefix ++ ctx.env.enc timeout data
      · rw [if_pos hc, hc]; exact cookie_tok _ _ _ _ _ _ he (by rw [hl]; simp)
      · rw [if_neg hc]
        by_cases hf : firstIs ctx.cookie Gen.dualSaveSidChar = true
        · simp only [hf, if_true]
          exact apiClear_alive_sid ctx st t c2 hd ht (by rw [hl]; simp)
        · simp only [hf]
          have e3 : (validSid ctx.cookie).isSome = false := by
            cases hv : validSid ctx.cookie with
            | none => rfl
            | some id => exact absurd (firstIs_sid hv).2 hf
          rw [e3]; simp

end Cppcms.C06
