import Cppcms.C06.RefineB
/-!
# C06 refinement, layer 12: the renewal test in binary64 agrees with the rational comparison
-/
namespace Cppcms.C06
open Cppcms

/-- what round-to-nearest-even guarantees, with `X = P * (N / P)`, `r = N % P` -/
theorem roundToMultiple_cases (N P : Nat) (hP : 0 < P) :
    ∃ X r, N = X + r ∧ r < P ∧
      ((2 * r < P ∧ roundToMultiple N P = X) ∨ (P < 2 * r ∧ roundToMultiple N P = X + P) ∨
       (2 * r = P ∧ (roundToMultiple N P = X ∨ roundToMultiple N P = X + P))) := by
  refine ⟨N / P * P, N % P, ?_, Nat.mod_lt _ hP, ?_⟩
  · have := Nat.div_add_mod N P; rw [Nat.mul_comm] at this; omega
  · simp only [roundToMultiple]
    by_cases h1 : 2 * (N % P) < P
    · left; simp [h1]
    · by_cases h2 : P < 2 * (N % P)
      · right; left; simp [h1, h2, Nat.add_mul]
      · right; right
        refine ⟨by omega, ?_⟩
        simp only [h1, h2, if_false]
        split
        · left; rfl
        · right; simp [Nat.add_mul]

theorem roundToMultiple_near (N P : Nat) (hP : 0 < P) :
    2 * roundToMultiple N P ≤ 2 * N + P ∧ 2 * N ≤ 2 * roundToMultiple N P + P := by
  obtain ⟨X, r, h1, h2, h3⟩ := roundToMultiple_cases N P hP
  rcases h3 with ⟨a, b⟩ | ⟨a, b⟩ | ⟨a, b | b⟩ <;> omega

theorem roundToMultiple_exact (a x P : Nat) (hx : 2 * x < P) : roundToMultiple (x + P * a) P = a * P := by
  have hP : 0 < P := by omega
  have hd : (x + P * a) / P = a := by rw [Nat.add_mul_div_left _ _ hP, Nat.div_eq_of_lt (by omega)]; omega
  have hm : (x + P * a) % P = x := by rw [Nat.add_mul_mod_self_left, Nat.mod_eq_of_lt (by omega)]
  simp only [roundToMultiple, hd, hm, hx, if_true]

theorem ulp53_facts (N : Nat) (hN : 0 < N) (hb : N < 2 ^ 84) :
    0 < ulp53 N ∧ N < 2 ^ 53 * ulp53 N ∧ ulp53 N ≤ 2 ^ 31 ∧ ∃ s, s ≤ 31 ∧ ulp53 N = 2 ^ s := by
  have hlog : Nat.log2 N < 84 := (Nat.log2_lt (by omega)).mpr hb
  have hlt : N < 2 ^ (Nat.log2 N + 1) := Nat.lt_log2_self
  refine ⟨Nat.two_pow_pos _, ?_, ?_, Nat.log2 N + 1 - 53, by omega, rfl⟩
  · simp only [ulp53, ← Nat.pow_add]
    exact Nat.lt_of_lt_of_le hlt (Nat.pow_le_pow_right (by omega) (by omega))
  · exact Nat.pow_le_pow_right (by omega) (by omega)

/-- the heart: for a positive `int` multiplicand `T`, comparing an integer `d` with `fl(T * 0.1)` is comparing `10 d` with `T` -/
theorem fl53_compare (T : Nat) (hT0 : 0 < T) (hT : T ≤ 2 ^ 31) (d : Int) :
    (10 * d < T → d * 2 ^ 55 < (fl53 (T * 3602879701896397) : Int)) ∧
    (10 * d = T → (fl53 (T * 3602879701896397) : Int) = d * 2 ^ 55) ∧
    ((T : Int) < 10 * d → (fl53 (T * 3602879701896397) : Int) < d * 2 ^ 55) := by
  have hN0 : 0 < T * 3602879701896397 := by omega
  have hNb : T * 3602879701896397 < 2 ^ 84 := by
    have e31 : (2:Nat) ^ 31 = 2147483648 := by simp
    have e84 : (2:Nat) ^ 84 = 19342813113834066795298816 := by simp
    rw [e84]; rw [e31] at hT; omega
  obtain ⟨hP0, hPN, hP31, s, hs, hPs⟩ := ulp53_facts _ hN0 hNb
  obtain ⟨hn1, hn2⟩ := roundToMultiple_near (T * 3602879701896397) (ulp53 (T * 3602879701896397)) hP0
  have h31 : (2:Nat) ^ 31 = 2147483648 := by simp
  have h53 : (2:Nat) ^ 53 = 9007199254740992 := by simp
  have h55 : (2:Int) ^ 55 = 36028797018963968 := by simp
  rw [h31] at hT hP31
  rw [h53] at hPN
  rw [h55]
  generalize hF : fl53 (T * 3602879701896397) = F at hn1 hn2 ⊢
  have hFdef : F = roundToMultiple (T * 3602879701896397) (ulp53 (T * 3602879701896397)) := by rw [← hF]; rfl
  generalize hP : ulp53 (T * 3602879701896397) = P at hP0 hPN hP31 hPs hn1 hn2 hFdef
  refine ⟨fun h => by omega, fun h => ?_, fun h => by omega⟩
  -- the tie: `T = 10 d`, the exact product is `d * 2^55 + 2 d`, strictly less than half an ulp above a representable number
  have hd0 : 0 < d := by omega
  obtain ⟨dn, rfl⟩ : ∃ dn : Nat, d = dn := ⟨d.toNat, by omega⟩
  have hTd : T = 10 * dn := by omega
  have hNform : T * 3602879701896397 = 2 * dn + P * (dn * 2 ^ (55 - s)) := by
    have e : P * 2 ^ (55 - s) = 2 ^ 55 := by rw [hPs, ← Nat.pow_add]; congr 1; omega
    have e55 : (2:Nat) ^ 55 = 36028797018963968 := by simp
    calc T * 3602879701896397 = 2 * dn + dn * 2 ^ 55 := by rw [hTd, e55]; omega
      _ = 2 * dn + dn * (P * 2 ^ (55 - s)) := by rw [e]
      _ = 2 * dn + P * (dn * 2 ^ (55 - s)) := by rw [Nat.mul_left_comm]
  have hsmall : 2 * (2 * dn) < P := by omega
  have hres : F = dn * 2 ^ (55 - s) * P := by rw [hFdef, hNform]; exact roundToMultiple_exact _ _ _ hsmall
  have e : dn * 2 ^ (55 - s) * P = dn * 36028797018963968 := by
    have e1 : 2 ^ (55 - s) * P = 2 ^ 55 := by rw [hPs, ← Nat.pow_add]; congr 1; omega
    have e55 : (2:Nat) ^ 55 = 36028797018963968 := by simp
    rw [Nat.mul_assoc, e1, e55]
  rw [hres, e]
  omega


theorem fl53_zero : fl53 0 = 0 := by decide

/-- **The renewal test computed in binary64 is the rational comparison.**  For every `int` `T`
(`-2^31 ≤ T < 2^31`, the range of `timeout_val_`) and every integer `delta`: `delta < T * 0.1`, evaluated with `T`
and `delta` converted exactly, the literal being the binary64 `Gen.renewMant * 2^-Gen.renewShift` and one correctly
rounded multiplication (round to nearest even), holds iff `delta * 10 < T * 1`. -/
theorem doubleLess_exact (delta T : Int) (hlo : -2 ^ 31 ≤ T) (hhi : T < 2 ^ 31) :
    doubleLess delta T = decide (delta * Gen.renewDen < T * Gen.renewNum) := by
  have e31 : (2:Int) ^ 31 = 2147483648 := by simp
  rw [e31] at hlo hhi
  simp only [doubleLess, mulLit, Gen.renewShift, Gen.renewMant, Gen.renewDen, Gen.renewNum]
  apply decide_eq_decide.mpr
  by_cases h0 : T = 0
  · subst h0; simp [fl53_zero]; omega
  · by_cases hpos : 0 ≤ T
    · simp only [hpos, if_true]
      have hT : T.toNat ≤ 2 ^ 31 := by
        have : (2:Nat) ^ 31 = 2147483648 := by simp
        omega
      obtain ⟨a, b, c⟩ := fl53_compare T.toNat (by omega) hT delta
      have hcast : ((T.toNat : Nat) : Int) = T := by omega
      rw [hcast] at a b c
      constructor
      · intro h
        by_cases h1 : 10 * delta < T
        · omega
        · by_cases h2 : 10 * delta = T
          · have := b h2; omega
          · have := c (by omega); omega
      · intro h; exact a (by omega)
    · simp only [hpos, if_false]
      have hT : (-T).toNat ≤ 2 ^ 31 := by
        have : (2:Nat) ^ 31 = 2147483648 := by simp
        omega
      obtain ⟨a, b, c⟩ := fl53_compare (-T).toNat (by omega) hT (-delta)
      have hcast : (((-T).toNat : Nat) : Int) = -T := by omega
      rw [hcast] at a b c
      constructor
      · intro h
        by_cases h1 : -T < 10 * -delta
        · omega
        · by_cases h2 : 10 * -delta = -T
          · have := b h2; omega
          · have := a (by omega); omega
      · intro h; have := c (by omega); omega

end Cppcms.C06
