import Cppcms.C06.RefineA
/-!
# C06 refinement, layer 11: reload on one object; network storage with several nodes
-/
namespace Cppcms.C06
open Cppcms

/-! ## `set_cookie_adapter_and_reload`: a load starts from an empty working copy -/

theorem siLoad_store (ctx : Ctx) (st : Store) : (siLoad ctx st).2.1 = (apiLoad ctx st).2.1 := by
  simp only [siLoad]; rcases apiLoad ctx st with ⟨r, st1, cs⟩; cases r <;> rfl

theorem siLoad_inv (ctx : Ctx) (st : Store) (next : Nat) (hi : StoreInv ctx.env st next) : StoreInv ctx.env (siLoad ctx st).2.1 next := by
  rw [siLoad_store]
  exact ⟨apiLoad_noDup ctx st hi.nodup, fun r hr => hi.wf r (apiLoad_mem ctx st r hr), fun r hr => hi.issued r (apiLoad_mem ctx st r hr)⟩

/-- what the object shows after a reload is what a *fresh* object would show for the second cookie over the
store the first load left: nothing of the first load's data, whatever was done to it in between -/
theorem request2_reads (ctx1 ctx2 : Ctx) (st : Store) (next : Nat) (ops1 ops2 : List Op) (s1 : Sess) (st1 : Store) (cs1 : List SetCookie)
    (h : siLoad ctx1 st = (.ok s1, st1, cs1)) :
    (request2 ctx1 ctx2 st next ops1 ops2).out.reads = (request ctx2 st1 next []).reads ∧
    (request2 ctx1 ctx2 st next ops1 ops2).reads1 = .ok (readsOf s1) := by
  simp only [request2, h]
  rcases hL : siLoad ctx2 st1 with ⟨r, st2, cs2⟩
  cases r with
  | error e => simp [request, hL]
  | ok s2 =>
    have hr := (request_of_load_ok ctx2 st1 next [] s2 st2 cs2 hL).1
    rw [hr]
    simp only
    cases siSave ctx2 (applyOps ctx2.cfg ctx2.env (reloadSess (applyOps ctx1.cfg ctx1.env s1 ops1) s2) ops2) st2 next with
    | error e => exact ⟨rfl, rfl⟩
    | ok res => obtain ⟨a, b, c, d⟩ := res; exact ⟨rfl, rfl⟩

/-! ## network storage over several nodes: routed by the sid, it is one store addressed by the sid -/

/-- the records of every node -/
abbrev Cluster := Nat → List Rec

/-- `tcp_connector::get(key)`: node `hash(key) % conns` -/
def nodeOf (hash : Bytes → Nat) (n : Nat) (key : Bytes) : Nat := hash key % n

/-- what the cluster answers for `id` when asked the way `tcp_storage::load` asks (node chosen by the sid) -/
def clusterLookup (t : Int) (c : Cluster) (hash : Bytes → Nat) (n : Nat) (id : Bytes) : Option (Int × Bytes) :=
  aliveLookup t (c (nodeOf hash n id)) id

def clusterSave (now : Int) (c : Cluster) (hash : Bytes → Nat) (n : Nat) (sid : Bytes) (to : Int) (d : Bytes) : Cluster :=
  fun i => if i = nodeOf hash n sid then ((⟨c i, []⟩ : Store).save .memory now sid to d).recs else c i

def clusterRemove (now : Int) (c : Cluster) (hash : Bytes → Nat) (n : Nat) (sid : Bytes) : Cluster :=
  fun i => if i = nodeOf hash n sid then ((⟨c i, []⟩ : Store).remove .memory now sid).recs else c i

theorem cluster_save_lookup (now t : Int) (c : Cluster) (hash : Bytes → Nat) (n : Nat) (sid id : Bytes) (to : Int) (d : Bytes)
    (hd : ∀ i, NoDupSid (c i)) (ht : now ≤ t) :
    clusterLookup t (clusterSave now c hash n sid to d) hash n id =
      if sid = id then aliveP t (some (to, d)) else clusterLookup t c hash n id := by
  simp only [clusterLookup, clusterSave]
  by_cases hn : nodeOf hash n id = nodeOf hash n sid
  · rw [if_pos hn, Store.save_alive .memory now t sid id to d ⟨c (nodeOf hash n id), []⟩ (hd _) ht]
  · rw [if_neg hn, if_neg (fun e => hn (by rw [e]))]

theorem cluster_remove_lookup (now t : Int) (c : Cluster) (hash : Bytes → Nat) (n : Nat) (sid id : Bytes)
    (hd : ∀ i, NoDupSid (c i)) (ht : now ≤ t) :
    clusterLookup t (clusterRemove now c hash n sid) hash n id =
      if sid = id then none else clusterLookup t c hash n id := by
  simp only [clusterLookup, clusterRemove]
  by_cases hn : nodeOf hash n id = nodeOf hash n sid
  · rw [if_pos hn, Store.remove_alive .memory now t sid id ⟨c (nodeOf hash n id), []⟩ (hd _) ht]
  · rw [if_neg hn, if_neg (fun e => hn (by rw [e]))]

theorem cluster_noDup_save (now : Int) (c : Cluster) (hash : Bytes → Nat) (n : Nat) (sid : Bytes) (to : Int) (d : Bytes)
    (hd : ∀ i, NoDupSid (c i)) : ∀ i, NoDupSid (clusterSave now c hash n sid to d i) := by
  intro i
  simp only [clusterSave]
  split
  · exact Store.save_noDup .memory now sid to d ⟨c i, []⟩ (hd i)
  · exact hd i

end Cppcms.C06
