import Cppcms.C09.Model
/-!
# C09 — the invariant of the interleaving model

`Inv s₀ c` holds in every configuration reachable from `Config.init s₀ progs` (`inv_init`,
`inv_step` in `Steps.lean`).  Its heart is `Phase`: where a thread stands in the generated
instruction list of its operation, which guards it holds there, and whether its operation has
already been entered in the hook log — together with what that entry promises about the result
the operation is going to return.
-/
namespace Cppcms.C09
open Cppcms Cppcms.C07

/-! ### the generated programs, as the proofs use them (these `rfl`s fail when the source's guard
structure changes) -/

/-- operations with a single segment: guard mode and the segment -/
def simpleOp : XOp → Option (Mode × Action)
  | .cache (.fetch _ _) => none
  | .cache .stats => some (.shared, .readStats)
  | _ => some (.exclusive, .body)

theorem prog_fetch (now : Time) (k : Key) :
    Gen.prog (methodOf (.cache (.fetch now k))) =
      [.acq .access .shared, .act .lookup, .acq .lru .exclusive, .act .splice, .rel .lru, .act .copyOut, .rel .access] := rfl

theorem prog_simple {op : XOp} {m : Mode} {a : Action} (h : simpleOp op = some (m, a)) :
    Gen.prog (methodOf op) = [.acq .access m, .act a, .rel .access] := by
  rcases op with (op | _ | _)
  · cases op <;> simp [simpleOp] at h <;> obtain ⟨rfl, rfl⟩ := h <;> rfl
  · simp [simpleOp] at h; obtain ⟨rfl, rfl⟩ := h; rfl
  · simp [simpleOp] at h; obtain ⟨rfl, rfl⟩ := h; rfl

theorem simpleOp_fetch_or (op : XOp) : (∃ now k, op = .cache (.fetch now k)) ∨ ∃ m a, simpleOp op = some (m, a) := by
  rcases op with (op | _ | _)
  · cases op <;> simp [simpleOp]
  · simp [simpleOp]
  · simp [simpleOp]

/-! ### sequential cache facts -/

theorem step_fetch_none {s : XState} {now : Time} {k : Key} (h : alookup k s.cache.primary = none) :
    xstep s (.cache (.fetch now k)) = (s, .cache .miss) := by
  simp [xstep, C07.step, C07.fetch, h]

theorem step_fetch_expired {s : XState} {now : Time} {k : Key} {cont : Container}
    (h : alookup k s.cache.primary = some cont) (he : C07.Gen.fetchExpired cont.deadline now = true) :
    xstep s (.cache (.fetch now k)) = (s, .cache .miss) := by
  simp [xstep, C07.step, C07.fetch, h, he]

theorem step_fetch_live {s : XState} {now : Time} {k : Key} {cont : Container}
    (h : alookup k s.cache.primary = some cont) (he : C07.Gen.fetchExpired cont.deadline now = false) :
    xstep s (.cache (.fetch now k)) =
      ({ s with cache := { s.cache with lru := k :: s.cache.lru.erase k } },
       .cache (.hit cont.data cont.trigs cont.deadline cont.gen)) := by
  simp [xstep, C07.step, C07.fetch, h, he]

theorem run_snoc (s : XState) (ops : List XOp) (op : XOp) :
    xrun s (ops ++ [op]) = (xstep (xrun s ops) op).1 := by
  simp [xrun, List.foldl_append]

theorem seqOuts_snoc (s : XState) (ops : List XOp) (op : XOp) :
    seqOuts s (ops ++ [op]) = seqOuts s ops ++ [(xstep (xrun s ops) op).2] := by
  induction ops generalizing s with
  | nil => simp [seqOuts, xrun]
  | cons o os ih =>
    simp only [List.cons_append, seqOuts, ih]
    simp [xrun]

/-! ### steps in normal form -/

/-- a step that enters the running operation in the hook log and applies its sequential effect -/
def linStep (c : Config) (t : Nat) (th : Thread) (op : XOp) (th' : Thread) : Config :=
  { s := (xstep c.s op).1, threads := c.threads.set t th', clock := c.clock + 1, log := c.hook t th op }

theorem execAct_simple {op : XOp} {m : Mode} {a : Action} (h : simpleOp op = some (m, a))
    (c : Config) (t : Nat) (th : Thread) (rest : List Instr) :
    execAct c t th op a rest =
      linStep c t th op { th with code := rest, ret := some (.ok (xstep c.s op).2) } := by
  rcases op with (op | _ | _)
  · cases op <;> simp [simpleOp] at h <;> obtain ⟨rfl, rfl⟩ := h <;> rfl
  · simp [simpleOp] at h; obtain ⟨rfl, rfl⟩ := h; rfl
  · simp [simpleOp] at h; obtain ⟨rfl, rfl⟩ := h; rfl

/-! ### the invariant -/

/-- thread `t`'s `n`-th operation is not in the log -/
def NotLind (log : List Lin) (t n : Nat) : Prop := ∀ e ∈ log, ¬ (e.tid = t ∧ e.idx = n)

/-- thread `t`'s `n`-th operation `op`, invoked at `inv`, is in the log with claimed answer `out` -/
def Lind (log : List Lin) (t n : Nat) (op : XOp) (out : XOut) (inv : Nat) : Prop :=
  ∃ e ∈ log, e.tid = t ∧ e.idx = n ∧ e.op = op ∧ e.out = out ∧ inv < e.stamp

/-- `primary` holds an unexpired entry under `k`, and `out` is the hit a fetch of it returns -/
def Live (s : XState) (now : Time) (k : Key) (out : XOut) : Prop :=
  ∃ cont, alookup k s.cache.primary = some cont ∧ C07.Gen.fetchExpired cont.deadline now = false ∧
    out = .cache (.hit cont.data cont.trigs cont.deadline cont.gen)

inductive Phase (s : XState) (log : List Lin) (t : Nat) (th : Thread) : Prop
  | idle (hc : th.cur = none) (hcode : th.code = []) (hheld : th.held = [])
  | f0 (now : Time) (k : Key) (hc : th.cur = some (.cache (.fetch now k)))
      (hcode : th.code = [.acq .access .shared, .act .lookup, .acq .lru .exclusive, .act .splice, .rel .lru, .act .copyOut, .rel .access])
      (hheld : th.held = []) (hn : NotLind log t th.done.length)
  | f1 (now : Time) (k : Key) (hc : th.cur = some (.cache (.fetch now k)))
      (hcode : th.code = [.act .lookup, .acq .lru .exclusive, .act .splice, .rel .lru, .act .copyOut, .rel .access])
      (hheld : th.held = [(.access, .shared)]) (hn : NotLind log t th.done.length)
  | f2 (now : Time) (k : Key) (out : XOut) (hc : th.cur = some (.cache (.fetch now k)))
      (hcode : th.code = [.acq .lru .exclusive, .act .splice, .rel .lru, .act .copyOut, .rel .access])
      (hheld : th.held = [(.access, .shared)]) (hp : th.ptr = some k) (hl : Live s now k out)
      (hn : NotLind log t th.done.length)
  | f3 (now : Time) (k : Key) (out : XOut) (hc : th.cur = some (.cache (.fetch now k)))
      (hcode : th.code = [.act .splice, .rel .lru, .act .copyOut, .rel .access])
      (hheld : th.held = [(.lru, .exclusive), (.access, .shared)]) (hp : th.ptr = some k) (hl : Live s now k out)
      (hn : NotLind log t th.done.length)
  | f4 (now : Time) (k : Key) (out : XOut) (hc : th.cur = some (.cache (.fetch now k)))
      (hcode : th.code = [.rel .lru, .act .copyOut, .rel .access])
      (hheld : th.held = [(.lru, .exclusive), (.access, .shared)]) (hp : th.ptr = some k) (hl : Live s now k out)
      (hlin : Lind log t th.done.length (.cache (.fetch now k)) out th.inv)
  | f5 (now : Time) (k : Key) (out : XOut) (hc : th.cur = some (.cache (.fetch now k)))
      (hcode : th.code = [.act .copyOut, .rel .access])
      (hheld : th.held = [(.access, .shared)]) (hp : th.ptr = some k) (hl : Live s now k out)
      (hlin : Lind log t th.done.length (.cache (.fetch now k)) out th.inv)
  | s0 (op : XOp) (m : Mode) (a : Action) (hs : simpleOp op = some (m, a)) (hc : th.cur = some op)
      (hcode : th.code = [.acq .access m, .act a, .rel .access]) (hheld : th.held = [])
      (hn : NotLind log t th.done.length)
  | s1 (op : XOp) (m : Mode) (a : Action) (hs : simpleOp op = some (m, a)) (hc : th.cur = some op)
      (hcode : th.code = [.act a, .rel .access]) (hheld : th.held = [(.access, m)])
      (hn : NotLind log t th.done.length)
  | rel1 (op : XOp) (m : Mode) (out : XOut) (hc : th.cur = some op)
      (hcode : th.code = [.rel .access]) (hheld : th.held = [(.access, m)]) (hret : th.ret = some (.ok out))
      (hlin : Lind log t th.done.length op out th.inv)
  | fin (op : XOp) (out : XOut) (hc : th.cur = some op)
      (hcode : th.code = []) (hheld : th.held = []) (hret : th.ret = some (.ok out))
      (hlin : Lind log t th.done.length op out th.inv)

/-- a completed record is matched by a log entry, stamped between its invocation and response -/
structure DoneOk (clock : Nat) (log : List Lin) (t n : Nat) (r : Rec) : Prop where
  tid : r.tid = t
  idx : r.idx < n
  lin : ∃ e ∈ log, e.tid = t ∧ e.idx = r.idx ∧ e.op = r.op ∧
    ∃ tr, r.resp = some (tr, .ok e.out) ∧ r.inv < e.stamp ∧ e.stamp < tr ∧ tr < clock

structure TOk (c : Config) (t : Nat) (th : Thread) : Prop where
  phase : Phase c.s c.log t th
  inv_lt : th.cur ≠ none → th.inv < c.clock
  done_ok : ∀ r ∈ th.done, DoneOk c.clock c.log t th.done.length r
  done_idx : th.done.Pairwise (fun a b => b.idx < a.idx)

structure Inv (s₀ : XState) (c : Config) : Prop where
  state_eq : c.s = xrun s₀ (c.log.reverse.map (·.op))
  legal : seqOuts s₀ (c.log.reverse.map (·.op)) = c.log.reverse.map (·.out)
  stamps : ∀ e ∈ c.log, e.stamp < c.clock
  sorted : c.log.Pairwise (fun a b => b.stamp < a.stamp)
  nodup : (c.log.map fun e => (e.tid, e.idx)).Nodup
  thr : ∀ (t : Nat) (th : Thread), c.threads[t]? = some th → TOk c t th
  compat : ∀ (i j : Nat) (thi thj : Thread), i ≠ j → c.threads[i]? = some thi → c.threads[j]? = some thj →
    ∀ a ∈ thi.held, ∀ b ∈ thj.held, conflict a b = false
  sound : ∀ e ∈ c.log, ∃ th, c.threads[e.tid]? = some th ∧
    ((∃ r ∈ th.done, r.idx = e.idx ∧ r.op = e.op) ∨
     (e.idx = th.done.length ∧ th.cur = some e.op ∧ th.inv < e.stamp))

/-! ### frame lemmas -/

theorem NotLind.mono {log log' : List Lin} {t n : Nat} (h : NotLind log t n)
    (hnew : ∀ e ∈ log', e ∉ log → e.tid ≠ t) : NotLind log' t n := by
  intro e he hid
  by_cases hin : e ∈ log
  · exact h e hin hid
  · exact hnew e he hin hid.1

theorem Lind.mono {log log' : List Lin} {t n : Nat} {op : XOp} {out : XOut} {inv : Nat}
    (h : Lind log t n op out inv) (hsub : ∀ e ∈ log, e ∈ log') : Lind log' t n op out inv := by
  obtain ⟨e, he, h'⟩ := h
  exact ⟨e, hsub e he, h'⟩

theorem Live.of_primary_eq {s s' : XState} {now : Time} {k : Key} {out : XOut} (h : Live s now k out)
    (hp : s'.cache.primary = s.cache.primary) : Live s' now k out := by
  obtain ⟨cont, h1, h2, h3⟩ := h
  exact ⟨cont, by rw [hp]; exact h1, h2, h3⟩

/-- Another thread's phase survives a step that only appends log entries of other threads and
either leaves `primary` alone or is made while this thread holds no guard on `access_lock`. -/
theorem Phase.frame {s s' : XState} {log log' : List Lin} {t : Nat} {th : Thread}
    (h : Phase s log t th)
    (hs : s'.cache.primary = s.cache.primary ∨ ∀ g ∈ th.held, g.1 ≠ LockId.access)
    (hsub : ∀ e ∈ log, e ∈ log')
    (hnew : ∀ e ∈ log', e ∉ log → e.tid ≠ t) : Phase s' log' t th := by
  have live : ∀ {now k out}, Live s now k out → (LockId.access, Mode.shared) ∈ th.held → Live s' now k out := by
    intro now k out hl hm
    rcases hs with hs | hs
    · exact hl.of_primary_eq hs
    · exact absurd rfl (hs _ hm)
  cases h with
  | idle hc hcode hheld => exact .idle hc hcode hheld
  | f0 now k hc hcode hheld hn => exact .f0 now k hc hcode hheld (hn.mono hnew)
  | f1 now k hc hcode hheld hn => exact .f1 now k hc hcode hheld (hn.mono hnew)
  | f2 now k out hc hcode hheld hp hl hn =>
    exact .f2 now k out hc hcode hheld hp (live hl (by simp [hheld])) (hn.mono hnew)
  | f3 now k out hc hcode hheld hp hl hn =>
    exact .f3 now k out hc hcode hheld hp (live hl (by simp [hheld])) (hn.mono hnew)
  | f4 now k out hc hcode hheld hp hl hlin =>
    exact .f4 now k out hc hcode hheld hp (live hl (by simp [hheld])) (hlin.mono hsub)
  | f5 now k out hc hcode hheld hp hl hlin =>
    exact .f5 now k out hc hcode hheld hp (live hl (by simp [hheld])) (hlin.mono hsub)
  | s0 op m a hs' hc hcode hheld hn => exact .s0 op m a hs' hc hcode hheld (hn.mono hnew)
  | s1 op m a hs' hc hcode hheld hn => exact .s1 op m a hs' hc hcode hheld (hn.mono hnew)
  | rel1 op m out hc hcode hheld hret hlin => exact .rel1 op m out hc hcode hheld hret (hlin.mono hsub)
  | fin op out hc hcode hheld hret hlin => exact .fin op out hc hcode hheld hret (hlin.mono hsub)

theorem DoneOk.mono {clock clock' : Nat} {log log' : List Lin} {t n n' : Nat} {r : Rec}
    (h : DoneOk clock log t n r) (hc : clock ≤ clock') (hsub : ∀ e ∈ log, e ∈ log') (hn : n ≤ n') :
    DoneOk clock' log' t n' r := by
  obtain ⟨h1, h2, e, he, h3, h4, h5, tr, h6, h7, h8, h9⟩ := h
  exact ⟨h1, Nat.lt_of_lt_of_le h2 hn, e, hsub e he, h3, h4, h5, tr, h6, h7, h8, Nat.lt_of_lt_of_le h9 hc⟩

/-- an unchanged thread stays fine across such a step -/
theorem TOk.frame {c c' : Config} {t : Nat} {th : Thread} (h : TOk c t th)
    (hs : c'.s.cache.primary = c.s.cache.primary ∨ ∀ g ∈ th.held, g.1 ≠ LockId.access)
    (hsub : ∀ e ∈ c.log, e ∈ c'.log)
    (hnew : ∀ e ∈ c'.log, e ∉ c.log → e.tid ≠ t)
    (hclock : c.clock ≤ c'.clock) : TOk c' t th :=
  ⟨h.phase.frame hs hsub hnew, fun hc => Nat.lt_of_lt_of_le (h.inv_lt hc) hclock,
   fun r hr => (h.done_ok r hr).mono hclock hsub (Nat.le_refl _), h.done_idx⟩

end Cppcms.C09
