import Cppcms.C09.Linz
import Cppcms.C09.Progress
import Cppcms.C09.Judge
/-!
# C09 — property theorems

Concurrent use of `mem_cache` behaves like some sequential order (consistent with real time) of
the same operations; no deadlock; every operation completes.  All statements are about the
interleaving model of `Model.lean`, whose instruction lists are **generated** from the source
(`Gen.prog`).  The theorems about the generated lock/access/hook tables (`discipline_ok`,
`race_free`, `lock_order`, `no_nested_locking`, `hooks_at_linearization_points`,
`process_variant_same`; they justify the model's atomic segments) are in `TableProps.lean`, same
namespace, in a module of their own so that a change of the source's guard structure shows which
of them became false even when the proofs below no longer build.  The two corollaries that go through
C07's theorems (`fetch_hit_is_latest_store`, `no_value_after_trigger_rise`) are in `FetchProps.lean`.  See design.d/C09.md for what is and is not covered (data-race freedom of
the compiled accesses and the pthread primitives: TSan on explored schedules only — PARTIAL).
-/
namespace Cppcms.C09.Props
open Cppcms Cppcms.C07 Cppcms.C09

/-! ## linearizability -/

/-- **Linearizability.**  For every initial cache state, every family of thread programs and every
schedule: the hook log (in chronological order) is a linearization of the observable history —
it contains each completed operation exactly once (plus the pending ones that already took
effect), replaying it through the sequential cache gives exactly the answers the operations
returned, it respects real-time order — and the final shared state **equals** the state of that
sequential replay, LRU order included (the linearisation point of a fetch that hits is its
`lru_mutex` section). -/
theorem linearizable (s₀ : XState) (progs : List (List XOp)) (sched : List Nat) :
    LinearizedBy s₀ (run (Config.init s₀ progs) sched).history (run (Config.init s₀ progs) sched).order ∧
    (run (Config.init s₀ progs) sched).s =
      xrun s₀ ((run (Config.init s₀ progs) sched).order.map (·.op)) :=
  ⟨linearizedBy_of_inv (inv_reachable s₀ progs sched), (inv_reachable s₀ progs sched).state_eq⟩

/-- the observable history of every run is linearizable (Herlihy–Wing) w.r.t. the sequential cache -/
theorem history_linearizable (s₀ : XState) (progs : List (List XOp)) (sched : List Nat) :
    Linearizable s₀ (run (Config.init s₀ progs) sched).history :=
  ⟨_, (linearizable s₀ progs sched).1⟩

/-- operation ids of a run's history are unique (so `LinearizedBy` speaks about one record per id) -/
theorem history_well_formed (s₀ : XState) (progs : List (List XOp)) (sched : List Nat) :
    WellFormed (run (Config.init s₀ progs) sched).history :=
  wellFormed_of_inv (inv_reachable s₀ progs sched)

/-- the judge run by the check on histories recorded from the real code (`c09_model`, `end` lines)
evaluates exactly the predicate of `linearizable` -/
theorem judge_is_predicate (s₀ : XState) (recs : List Rec) (order : List Lin) :
    checkLin s₀ recs order = none ↔ LinearizedBy s₀ recs order := checkLin_iff s₀ recs order

/-- no operation ever returns the model's `undefined` (a read through an iterator whose element
is gone, or no result): every completed operation returned an answer of the sequential cache -/
theorem no_undefined_result (s₀ : XState) (progs : List (List XOp)) (sched : List Nat)
    (r : Rec) (hr : r ∈ (run (Config.init s₀ progs) sched).history) (t : Nat) (ret : Ret)
    (hresp : r.resp = some (t, ret)) : ∃ o, ret = .ok o := by
  have hc := (linearizable s₀ progs sched).1.complete r hr
  unfold CompleteIn at hc
  rw [hresp] at hc
  obtain ⟨e, _, _, _, _, h⟩ := hc
  exact ⟨e.out, h⟩

/-! ## what a fetch can return -/

theorem seqOuts_split (s : XState) (l₁ : List XOp) (op : XOp) (l₂ : List XOp) :
    seqOuts s (l₁ ++ op :: l₂) =
      seqOuts s l₁ ++ (xstep (xrun s l₁) op).2 :: seqOuts (xstep (xrun s l₁) op).1 l₂ := by
  induction l₁ generalizing s with
  | nil => simp [seqOuts, xrun]
  | cons o os ih =>
    simp only [List.cons_append, seqOuts, ih]
    simp [xrun]

theorem seqOuts_length (s : XState) (l : List XOp) : (seqOuts s l).length = l.length := by
  induction l generalizing s with
  | nil => rfl
  | cons o os ih => simp [seqOuts, ih]

/-- the claimed answer of an element of a legal order is the sequential object's answer after the
operations before it -/
theorem answer_at {s₀ : XState} {pre post : List Lin} {e : Lin}
    (legal : seqOuts s₀ ((pre ++ e :: post).map (·.op)) = (pre ++ e :: post).map (·.out)) :
    (xstep (xrun s₀ (pre.map (·.op))) e.op).2 = e.out := by
  rw [List.map_append, List.map_cons, List.map_append, List.map_cons, seqOuts_split] at legal
  have hl : (seqOuts s₀ (pre.map (·.op))).length = (pre.map (·.out)).length := by
    rw [seqOuts_length]; simp
  have := (List.append_inj legal hl).2
  exact (List.cons.inj this).1

/-! ## the reference count -/

def isAdd (e : Lin) : Bool := e.op == .addRef
def isDel (e : Lin) : Bool := e.op == .delRef

theorem xrun_refs (s : XState) (ops : List XOp) :
    (xrun s ops).refs = s.refs + (ops.filter (· == .addRef)).length - (ops.filter (· == .delRef)).length := by
  induction ops generalizing s with
  | nil => simp [xrun]
  | cons o os ih =>
    have h1 : xrun s (o :: os) = xrun (xstep s o).1 os := rfl
    rw [h1, ih]
    cases o with
    | cache op => simp [xstep]
    | addRef => simp [xstep]; omega
    | delRef => simp [xstep]; omega

/-- **The reference count counts the handles.**  In every reachable configuration `refs` is the
initial count plus the number of `add_ref`s minus the number of `del_ref`s that have taken effect. -/
theorem refs_counts_handles (s₀ : XState) (progs : List (List XOp)) (sched : List Nat) :
    (run (Config.init s₀ progs) sched).s.refs =
      s₀.refs + ((run (Config.init s₀ progs) sched).order.filter isAdd).length
              - ((run (Config.init s₀ progs) sched).order.filter isDel).length := by
  rw [(linearizable s₀ progs sched).2, xrun_refs]
  simp only [List.filter_map, List.length_map, Function.comp_def]
  rfl

/-- **The object is destroyed only by the last handle.**  A completed `del_ref()` that returned
`true` (the caller then deletes the cache): at its linearization point the number of handles taken
so far (initial count + `add_ref`s linearized before it) equals the number dropped, this one
included — no handle exists any more.  Conversely a `del_ref` that returned `false` left at least
one… (`refs ≠ 0`). -/
theorem del_ref_true_iff_last (s₀ : XState) (progs : List (List XOp)) (sched : List Nat)
    (r : Rec) (hr : r ∈ (run (Config.init s₀ progs) sched).history) (hop : r.op = .delRef)
    (tr : Nat) (last : Bool) (hresp : r.resp = some (tr, .ok (.dropped last))) :
    ∃ pre e post, (run (Config.init s₀ progs) sched).order = pre ++ e :: post ∧ e.tid = r.tid ∧ e.idx = r.idx ∧
      (last = true ↔ s₀.refs + (pre.filter isAdd).length = (pre.filter isDel).length + 1) := by
  have lin := (linearizable s₀ progs sched).1
  have hc := lin.complete r hr
  unfold CompleteIn at hc
  rw [hresp] at hc
  obtain ⟨e, he, h1, h2, h3, h4⟩ := hc
  obtain ⟨pre, post, hsplit⟩ := List.append_of_mem he
  have legal := lin.legal
  rw [hsplit] at legal
  have hans := answer_at legal
  rw [h3, hop] at hans
  have hout : e.out = .dropped last := by
    injection h4 with h4
    exact h4.symm
  rw [hout] at hans
  simp only [xstep, XOut.dropped.injEq] at hans
  refine ⟨pre, e, post, hsplit, h1, h2, ?_⟩
  rw [xrun_refs] at hans
  simp only [List.filter_map, List.length_map, Function.comp_def] at hans
  have ha : (pre.filter isAdd).length = (pre.filter fun x => x.op == XOp.addRef).length := rfl
  have hd : (pre.filter isDel).length = (pre.filter fun x => x.op == XOp.delRef).length := rfl
  rw [ha, hd, ← hans]
  simp only [decide_eq_true_eq]
  omega

/-! ## progress -/

/-- **Deadlock freedom.**  In every reachable configuration in which some operation is still to be
invoked or in flight, some thread can move. -/
theorem deadlock_free (s₀ : XState) (progs : List (List XOp)) (sched : List Nat)
    (hnd : (run (Config.init s₀ progs) sched).allDone = false) :
    ∃ t c', stepThread (run (Config.init s₀ progs) sched) t = some c' :=
  deadlock_free_of_inv (inv_reachable s₀ progs sched) hnd

/-- every effective step from a reachable configuration decreases `Config.measure`
(remaining instructions + remaining invocations/responses): no livelock, runs are finite -/
theorem step_decreases_measure (s₀ : XState) (progs : List (List XOp)) (sched : List Nat) (t : Nat) (c' : Config)
    (hs : stepThread (run (Config.init s₀ progs) sched) t = some c') :
    c'.measure < (run (Config.init s₀ progs) sched).measure :=
  measure_step (inv_reachable s₀ progs sched) hs

/-- **Every operation completes.**  From every reachable configuration (i) some continuation of
the schedule completes every operation of every thread program, and (ii) a run that cannot be
continued — no thread can move — has completed all of them.  With `step_decreases_measure`: any
scheduler that keeps picking a thread that can move reaches that point after at most
`Config.measure` steps. -/
theorem every_op_completes (s₀ : XState) (progs : List (List XOp)) (sched : List Nat) :
    (∃ more, (run (Config.init s₀ progs) (sched ++ more)).allDone = true) ∧
    ((∀ t, stepThread (run (Config.init s₀ progs) sched) t = none) →
      (run (Config.init s₀ progs) sched).allDone = true) := by
  constructor
  · obtain ⟨more, h⟩ := completes_of_inv _ _ (inv_reachable s₀ progs sched) (Nat.le_refl _)
    exact ⟨more, by rw [run, List.foldl_append]; exact h⟩
  · intro hstuck
    cases hd : (run (Config.init s₀ progs) sched).allDone with
    | true => rfl
    | false =>
      obtain ⟨t, c', hs⟩ := deadlock_free s₀ progs sched hd
      rw [hstuck t] at hs; cases hs

/-! ## non-vacuity: concrete runs -/

section Examples

private def kA : Key := [97]
private def tT : Key := [116]
private def s0 : XState := ⟨State.init 0, 0⟩
/-- thread 0: store k (trigger t), fetch k; thread 1: fetch k, rise t, fetch k -/
private def demoProgs : List (List XOp) :=
  [[.cache (.store 1000 kA [1, 2, 3] [tT] 2000), .cache (.fetch 1000 kA)],
   [.cache (.fetch 1000 kA), .cache (.rise tT), .cache (.fetch 1000 kA)]]

/-- an interleaving in which thread 1's first fetch overlaps thread 0's store (picking a blocked
thread is a no-op, so the tail just lets everybody finish) -/
private def demoSched : List Nat :=
  [0, 1, 0, 1, 0, 1, 0, 0, 0, 1, 0, 1, 0, 1, 0, 1, 0, 1, 0, 1] ++ (List.replicate 12 [0, 1]).flatten ++ List.replicate 12 1

private def demo : Config := run (Config.init s0 demoProgs) demoSched

/-- everything completed; five operations were linearized, the threads interleaved -/
example : demo.allDone = true ∧ demo.order.map (fun e => (e.tid, e.idx, e.stamp)) =
    [(0, 0, 3), (1, 0, 12), (0, 1, 16), (1, 1, 25), (1, 2, 30)] := by decide +kernel
/-- the executable judge accepts the model's own history (as `linearizable` says it must) -/
example : checkLin s0 demo.history demo.order = none := by decide +kernel
/-- hypotheses of `fetch_hit_is_latest_store` are met: thread 1's first fetch — invoked (stamp 1)
before thread 0's store responded (stamp 5) — hit with the stored value -/
example : (⟨1, 0, .cache (.fetch 1000 kA), 1, some (19, .ok (.cache (.hit [1, 2, 3] [kA, tT] 2000 0)))⟩ : Rec) ∈ demo.history ∧
    (⟨0, 0, .cache (.store 1000 kA [1, 2, 3] [tT] 2000), 0, some (5, .ok (.cache .done))⟩ : Rec) ∈ demo.history := by decide +kernel
/-- … and the fetch after the rise misses -/
example : (⟨1, 2, .cache (.fetch 1000 kA), 28, some (32, .ok (.cache .miss))⟩ : Rec) ∈ demo.history := by decide +kernel

/-- hypotheses of `no_value_after_trigger_rise` are met: rise of `t` responded (9) before the fetch
was invoked (15); the fetch hit with `t` among its triggers — the value of the store invoked at
10, after the rise -/
private def demo2 : Config :=
  run (Config.init s0 [[.cache (.store 1000 kA [1] [tT] 2000), .cache (.store 1000 kA [2] [tT] 2000)],
                       [.cache (.rise tT), .cache (.fetch 1000 kA)]])
    (List.replicate 5 0 ++ List.replicate 5 1 ++ List.replicate 5 0 ++ List.replicate 10 1)
example : (⟨1, 0, .cache (.rise tT), 5, some (9, .ok (.cache .done))⟩ : Rec) ∈ demo2.history ∧
    (⟨1, 1, .cache (.fetch 1000 kA), 15, some (23, .ok (.cache (.hit [2] [kA, tT] 2000 1)))⟩ : Rec) ∈ demo2.history ∧
    (⟨0, 1, .cache (.store 1000 kA [2] [tT] 2000), 10, some (14, .ok (.cache .done))⟩ : Rec) ∈ demo2.history := by decide +kernel

/-- a reachable configuration that is not finished (hypothesis of `deadlock_free`): thread 0 holds
`access_lock` exclusively, thread 1 is blocked on it, thread 0 can move -/
example : (run (Config.init s0 demoProgs) [0, 0, 1]).allDone = false ∧
    (stepThread (run (Config.init s0 demoProgs) [0, 0, 1]) 1).isNone = true ∧
    (stepThread (run (Config.init s0 demoProgs) [0, 0, 1]) 0).isSome = true := by decide +kernel

/-- handles: the owner holds one reference (`refs = 1`); two threads copy and drop a handle around
a fetch, interleaved: no `del_ref` returns `true`, the count is back to 1 (hypotheses of
`del_ref_true_iff_last` / an instance of `refs_counts_handles`) -/
private def demo3 : Config :=
  run (Config.init ⟨State.init 0, 1⟩ [[.addRef, .cache (.fetch 1000 kA), .delRef], [.addRef, .cache .stats, .delRef]])
    ((List.replicate 20 [0, 1]).flatten ++ List.replicate 20 0 ++ List.replicate 20 1)
example : demo3.allDone = true ∧ demo3.s.refs = 1 ∧
    (demo3.history.filter fun r => r.op == .delRef).map (fun r => r.resp.map (·.2)) =
      [some (.ok (.dropped false)), some (.ok (.dropped false))] := by decide +kernel

end Examples

end Cppcms.C09.Props
