import Cppcms.C09.Linz
import Cppcms.C09.Progress
import Cppcms.C09.Judge
import Cppcms.C07.Props
/-!
# C09 — property theorems

Concurrent use of `mem_cache` behaves like some sequential order (consistent with real time) of
the same operations; no deadlock; every operation completes.  All statements are about the
interleaving model of `Model.lean`, whose instruction lists are **generated** from the source
(`Gen.prog`).  The theorems about the generated lock/access/hook tables (`discipline_ok`,
`race_free`, `lock_order`, `no_nested_locking`, `hooks_at_linearization_points`,
`process_variant_same`; they justify the model's atomic segments) are in `TableProps.lean`, same
namespace, in a module of their own so that a change of the source's guard structure shows which
of them became false even when the proofs below no longer build.  See design.d/C09.md for what is and is not covered (data-race freedom of
the compiled accesses and the pthread primitives: TSan on explored schedules only — PARTIAL).
-/
namespace Cppcms.C09.Props
open Cppcms Cppcms.C07 Cppcms.C09

/-! ## linearizability -/

/-- **Linearizability.**  For every initial cache state, every family of thread programs and every
schedule: the hook log (in chronological order) is a linearization of the observable history —
it contains each completed operation exactly once (plus the pending ones that already took
effect), replaying it through the sequential cache gives exactly the answers the operations
returned, it respects real-time order — and the final shared state **equals** the state of that
sequential replay, LRU order included (the linearisation point of a fetch that hits is its
`lru_mutex` section). -/
theorem linearizable (s₀ : State) (progs : List (List Op)) (sched : List Nat) :
    LinearizedBy s₀ (run (Config.init s₀ progs) sched).history (run (Config.init s₀ progs) sched).order ∧
    (run (Config.init s₀ progs) sched).s =
      C07.run s₀ ((run (Config.init s₀ progs) sched).order.map (·.op)) :=
  ⟨linearizedBy_of_inv (inv_reachable s₀ progs sched), (inv_reachable s₀ progs sched).state_eq⟩

/-- the observable history of every run is linearizable (Herlihy–Wing) w.r.t. the sequential cache -/
theorem history_linearizable (s₀ : State) (progs : List (List Op)) (sched : List Nat) :
    Linearizable s₀ (run (Config.init s₀ progs) sched).history :=
  ⟨_, (linearizable s₀ progs sched).1⟩

/-- operation ids of a run's history are unique (so `LinearizedBy` speaks about one record per id) -/
theorem history_well_formed (s₀ : State) (progs : List (List Op)) (sched : List Nat) :
    WellFormed (run (Config.init s₀ progs) sched).history :=
  wellFormed_of_inv (inv_reachable s₀ progs sched)

/-- the judge run by the check on histories recorded from the real code (`c09_model`, `end` lines)
evaluates exactly the predicate of `linearizable` -/
theorem judge_is_predicate (s₀ : State) (recs : List Rec) (order : List Lin) :
    checkLin s₀ recs order = none ↔ LinearizedBy s₀ recs order := checkLin_iff s₀ recs order

/-- no operation ever returns the model's `undefined` (a read through an iterator whose element
is gone, or no result): every completed operation returned an answer of the sequential cache -/
theorem no_undefined_result (s₀ : State) (progs : List (List Op)) (sched : List Nat)
    (r : Rec) (hr : r ∈ (run (Config.init s₀ progs) sched).history) (t : Nat) (ret : Ret)
    (hresp : r.resp = some (t, ret)) : ∃ o, ret = .ok o := by
  have hc := (linearizable s₀ progs sched).1.complete r hr
  unfold CompleteIn at hc
  rw [hresp] at hc
  obtain ⟨e, _, _, _, _, h⟩ := hc
  exact ⟨e.out, h⟩

/-! ## what a fetch can return -/

theorem seqOuts_split (s : State) (l₁ : List Op) (op : Op) (l₂ : List Op) :
    seqOuts s (l₁ ++ op :: l₂) =
      seqOuts s l₁ ++ (C07.step (C07.run s l₁) op).2 :: seqOuts (C07.step (C07.run s l₁) op).1 l₂ := by
  induction l₁ generalizing s with
  | nil => simp [seqOuts, C07.run]
  | cons o os ih =>
    simp only [List.cons_append, seqOuts, ih]
    simp [C07.run]

theorem seqOuts_length (s : State) (l : List Op) : (seqOuts s l).length = l.length := by
  induction l generalizing s with
  | nil => rfl
  | cons o os ih => simp [seqOuts, ih]

/-- the claimed answer of an element of a legal order is the sequential cache's answer after the
operations before it -/
theorem answer_at {s₀ : State} {pre post : List Lin} {e : Lin}
    (legal : seqOuts s₀ ((pre ++ e :: post).map (·.op)) = (pre ++ e :: post).map (·.out)) :
    (C07.step (C07.run s₀ (pre.map (·.op))) e.op).2 = e.out := by
  rw [List.map_append, List.map_cons, List.map_append, List.map_cons, seqOuts_split] at legal
  have hl : (seqOuts s₀ (pre.map (·.op))).length = (pre.map (·.out)).length := by
    rw [seqOuts_length]; simp
  have := (List.append_inj legal hl).2
  exact (List.cons.inj this).1

/-- **No torn value, no value of another key, nothing stale.**  A completed `fetch now k` that
returned a hit `(v, trg, d, g)` on a cache started empty: the linearization splits at that fetch,
and among the operations linearized before it there is a `store` of *that key* with exactly that
value and deadline, with trigger set `trg` (the given triggers plus the key), stamped `g`, such
that no operation linearized between that store and the fetch stores or removes `k`, clears, or
raises a member of `trg`; and the deadline had not passed. -/
theorem fetch_hit_is_latest_store (limit : Nat) (progs : List (List Op)) (sched : List Nat)
    (r : Rec) (hr : r ∈ (run (Config.init (State.init limit) progs) sched).history)
    (now : Time) (k : Key) (hop : r.op = .fetch now k)
    (tr : Nat) (v : Val) (trg : List Key) (d : Time) (g : Gen)
    (hresp : r.resp = some (tr, .ok (.hit v trg d g))) :
    ∃ pre e post, (run (Config.init (State.init limit) progs) sched).order = pre ++ e :: post ∧
      e.tid = r.tid ∧ e.idx = r.idx ∧
      ∃ pre' post' now₀ trigs gen env,
        pre.map (·.op) = pre' ++ Op.store now₀ k v trigs d gen env :: post' ∧
        trg = ownTrigs k trigs ∧
        stamp (C07.run (State.init limit) pre') (Op.store now₀ k v trigs d gen env) = some g ∧
        (∀ op ∈ post', op.invalidates k trg = false) ∧ ¬ d < now := by
  have lin := (linearizable (State.init limit) progs sched).1
  have hc := lin.complete r hr
  unfold CompleteIn at hc
  rw [hresp] at hc
  obtain ⟨e, he, h1, h2, h3, h4⟩ := hc
  obtain ⟨pre, post, hsplit⟩ := List.append_of_mem he
  have legal := lin.legal
  rw [hsplit] at legal
  have hans := answer_at legal
  rw [h3, hop] at hans
  have hout : e.out = .hit v trg d g := by
    injection h4 with h4
    exact h4.symm
  rw [hout] at hans
  obtain ⟨pre', post', now₀, trigs, gen, env, e1, e2, e3, e4, e5⟩ :=
    C07.Props.fetch_returns_latest_store limit none (pre.map (·.op)) now k v trg d g hans
  exact ⟨pre, e, post, hsplit, h1, h2, pre', post', now₀, trigs, gen, env, e1, e2, e3, e4, e5⟩

/-- **No value whose trigger was raised before the fetch began.**  If a `rise t` responded before a
fetch was invoked, and the fetch hit with `t` among the returned triggers, then the value comes
from a `store` of that key (same value, deadline, trigger set) that had **not** responded before
that rise was invoked — i.e. the value was (re)stored concurrently with or after the rise; a
value stored before the rise began is never returned. -/
theorem no_value_after_trigger_rise (limit : Nat) (progs : List (List Op)) (sched : List Nat)
    (rf rr : Rec)
    (hrf : rf ∈ (run (Config.init (State.init limit) progs) sched).history)
    (hrr : rr ∈ (run (Config.init (State.init limit) progs) sched).history)
    (now : Time) (k t : Key) (hopf : rf.op = .fetch now k) (hopr : rr.op = .rise t)
    (trf trr : Nat) (v : Val) (trg : List Key) (d : Time) (g : Gen) (retr : Ret)
    (hrespf : rf.resp = some (trf, .ok (.hit v trg d g)))
    (hrespr : rr.resp = some (trr, retr))
    (ht : t ∈ trg) (hbefore : trr < rf.inv) :
    ∃ rs ∈ (run (Config.init (State.init limit) progs) sched).history,
      (∃ now₀ trigs gen env, rs.op = Op.store now₀ k v trigs d gen env ∧ trg = ownTrigs k trigs) ∧
      ∀ ts ret, rs.resp = some (ts, ret) → ¬ ts < rr.inv := by
  have lin := (linearizable (State.init limit) progs sched).1
  obtain ⟨pre, ef, post, hsplit, hf1, hf2, pre', post', now₀, trigs, gen, env, e1, e2, _, e4, _⟩ :=
    fetch_hit_is_latest_store limit progs sched rf hrf now k hopf trf v trg d g hrespf
  -- the fetch's entry carries the fetch
  have hefop : ef.op = .fetch now k := by
    have hc := lin.complete rf hrf
    unfold CompleteIn at hc
    rw [hrespf] at hc
    obtain ⟨e', he', h1, h2, h3, _⟩ := hc
    have hnd := lin.nodup
    rw [hsplit] at he' hnd
    -- e' and ef have the same id in a duplicate-free list
    have : e' = ef := by
      rcases List.mem_append.mp he' with hin | hin
      · exfalso
        rw [List.map_append, List.map_cons] at hnd
        have := (List.nodup_append.mp hnd).2.2 (e'.tid, e'.idx) (List.mem_map.mpr ⟨e', hin, rfl⟩) (ef.tid, ef.idx)
          List.mem_cons_self
        exact this (by rw [h1, h2, hf1, hf2])
      · rcases List.mem_cons.mp hin with heq | hin'
        · exact heq
        · exfalso
          rw [List.map_append, List.map_cons] at hnd
          have := (List.nodup_cons.mp (List.nodup_append.mp hnd).2.1).1
          exact this (List.mem_map.mpr ⟨e', hin', by show (e'.tid, e'.idx) = (ef.tid, ef.idx); rw [h1, h2, hf1, hf2]⟩)
    rw [← this, h3, hopf]
  -- the rise's entry
  have hcr := lin.complete rr hrr
  unfold CompleteIn at hcr
  rw [hrespr] at hcr
  obtain ⟨er, her, hr1, hr2, hr3, _⟩ := hcr
  have hrt := lin.realtime
  rw [hsplit] at her hrt
  have her_pre : er ∈ pre := by
    rcases List.mem_append.mp her with hin | hin
    · exact hin
    · exfalso
      rcases List.mem_cons.mp hin with heq | hin'
      · rw [heq, hefop, hopr] at hr3; cases hr3
      · have hp := (List.pairwise_cons.mp (List.pairwise_append.mp hrt).2.1).1 er hin'
        have := hp rf hrf rr hrr hf1.symm hf2.symm hr1.symm hr2.symm
        rw [hrespr] at this
        exact this hbefore
  -- split `pre` at the store
  obtain ⟨P1, rest, hpre, hP1, hrest⟩ := List.map_eq_append_iff.mp e1
  obtain ⟨es, P2, hrest', hes, hP2⟩ := List.map_eq_cons_iff.mp hrest
  subst hpre hrest'
  have her_P1 : er ∈ P1 := by
    rcases List.mem_append.mp her_pre with hin | hin
    · exact hin
    · exfalso
      rcases List.mem_cons.mp hin with heq | hin'
      · rw [heq, hes, hopr] at hr3; cases hr3
      · have hmem : er.op ∈ post' := by rw [← hP2]; exact List.mem_map.mpr ⟨er, hin', rfl⟩
        have := e4 _ hmem
        rw [hr3, hopr] at this
        simp [Op.invalidates, ht] at this
  -- the store's record
  obtain ⟨rs, hrs, hs1, hs2, hs3⟩ := lin.sound es (by rw [hsplit]; simp)
  refine ⟨rs, hrs, ⟨now₀, trigs, gen, env, by rw [hs3, hes], e2⟩, ?_⟩
  intro ts ret hresps
  have hp := (List.pairwise_append.mp (List.pairwise_append.mp hrt).1).2.2 er her_P1 es List.mem_cons_self
  have := hp rr hrr rs hrs hr1.symm hr2.symm hs1 hs2
  rw [hresps] at this
  exact this

/-! ## progress -/

/-- **Deadlock freedom.**  In every reachable configuration in which some operation is still to be
invoked or in flight, some thread can move. -/
theorem deadlock_free (s₀ : State) (progs : List (List Op)) (sched : List Nat)
    (hnd : (run (Config.init s₀ progs) sched).allDone = false) :
    ∃ t c', stepThread (run (Config.init s₀ progs) sched) t = some c' :=
  deadlock_free_of_inv (inv_reachable s₀ progs sched) hnd

/-- every effective step from a reachable configuration decreases `Config.measure`
(remaining instructions + remaining invocations/responses): no livelock, runs are finite -/
theorem step_decreases_measure (s₀ : State) (progs : List (List Op)) (sched : List Nat) (t : Nat) (c' : Config)
    (hs : stepThread (run (Config.init s₀ progs) sched) t = some c') :
    c'.measure < (run (Config.init s₀ progs) sched).measure :=
  measure_step (inv_reachable s₀ progs sched) hs

/-- **Every operation completes.**  From every reachable configuration (i) some continuation of
the schedule completes every operation of every thread program, and (ii) a run that cannot be
continued — no thread can move — has completed all of them.  With `step_decreases_measure`: any
scheduler that keeps picking a thread that can move reaches that point after at most
`Config.measure` steps. -/
theorem every_op_completes (s₀ : State) (progs : List (List Op)) (sched : List Nat) :
    (∃ more, (run (Config.init s₀ progs) (sched ++ more)).allDone = true) ∧
    ((∀ t, stepThread (run (Config.init s₀ progs) sched) t = none) →
      (run (Config.init s₀ progs) sched).allDone = true) := by
  constructor
  · obtain ⟨more, h⟩ := completes_of_inv _ _ (inv_reachable s₀ progs sched) (Nat.le_refl _)
    exact ⟨more, by rw [run, List.foldl_append]; exact h⟩
  · intro hstuck
    cases hd : (run (Config.init s₀ progs) sched).allDone with
    | true => rfl
    | false =>
      obtain ⟨t, c', hs⟩ := deadlock_free s₀ progs sched hd
      rw [hstuck t] at hs; cases hs

/-! ## non-vacuity: concrete runs -/

section Examples

private def kA : Key := [97]
private def tT : Key := [116]
/-- thread 0: store k (trigger t), fetch k; thread 1: fetch k, rise t, fetch k -/
private def demoProgs : List (List Op) :=
  [[.store 1000 kA [1, 2, 3] [tT] 2000, .fetch 1000 kA], [.fetch 1000 kA, .rise tT, .fetch 1000 kA]]

/-- an interleaving in which thread 1's first fetch overlaps thread 0's store (picking a blocked
thread is a no-op, so the tail just lets everybody finish) -/
private def demoSched : List Nat :=
  [0, 1, 0, 1, 0, 1, 0, 0, 0, 1, 0, 1, 0, 1, 0, 1, 0, 1, 0, 1] ++ (List.replicate 12 [0, 1]).flatten ++ List.replicate 12 1

private def demo : Config := run (Config.init (State.init 0) demoProgs) demoSched

/-- everything completed; five operations were linearized, the threads interleaved -/
example : demo.allDone = true ∧ demo.order.map (fun e => (e.tid, e.idx, e.stamp)) =
    [(0, 0, 3), (1, 0, 12), (0, 1, 16), (1, 1, 25), (1, 2, 30)] := by decide +kernel
/-- the executable judge accepts the model's own history (as `linearizable` says it must) -/
example : checkLin (State.init 0) demo.history demo.order = none := by decide +kernel
/-- hypotheses of `fetch_hit_is_latest_store` are met: thread 1's first fetch — invoked (stamp 1)
before thread 0's store responded (stamp 5) — hit with the stored value -/
example : (⟨1, 0, .fetch 1000 kA, 1, some (19, .ok (.hit [1, 2, 3] [kA, tT] 2000 0))⟩ : Rec) ∈ demo.history ∧
    (⟨0, 0, .store 1000 kA [1, 2, 3] [tT] 2000, 0, some (5, .ok .done)⟩ : Rec) ∈ demo.history := by decide +kernel
/-- … and the fetch after the rise misses -/
example : (⟨1, 2, .fetch 1000 kA, 28, some (32, .ok .miss)⟩ : Rec) ∈ demo.history := by decide +kernel

/-- hypotheses of `no_value_after_trigger_rise` are met: rise of `t` responded (9) before the fetch
was invoked (15); the fetch hit with `t` among its triggers — the value of the store invoked at
10, after the rise -/
private def demo2 : Config :=
  run (Config.init (State.init 0) [[.store 1000 kA [1] [tT] 2000, .store 1000 kA [2] [tT] 2000], [.rise tT, .fetch 1000 kA]])
    (List.replicate 5 0 ++ List.replicate 5 1 ++ List.replicate 5 0 ++ List.replicate 10 1)
example : (⟨1, 0, .rise tT, 5, some (9, .ok .done)⟩ : Rec) ∈ demo2.history ∧
    (⟨1, 1, .fetch 1000 kA, 15, some (23, .ok (.hit [2] [kA, tT] 2000 1))⟩ : Rec) ∈ demo2.history ∧
    (⟨0, 1, .store 1000 kA [2] [tT] 2000, 10, some (14, .ok .done)⟩ : Rec) ∈ demo2.history := by decide +kernel

/-- a reachable configuration that is not finished (hypothesis of `deadlock_free`): thread 0 holds
`access_lock` exclusively, thread 1 is blocked on it, thread 0 can move -/
example : (run (Config.init (State.init 0) demoProgs) [0, 0, 1]).allDone = false ∧
    (stepThread (run (Config.init (State.init 0) demoProgs) [0, 0, 1]) 1).isNone = true ∧
    (stepThread (run (Config.init (State.init 0) demoProgs) [0, 0, 1]) 0).isSome = true := by decide +kernel

end Examples

end Cppcms.C09.Props
