import Cppcms.Common
import Cppcms.C07.Proto
import Cppcms.C09.Model
import Cppcms.C09.Spec
/-!
`c09_model`: line-protocol driver for C09.

Judge of recorded histories (the property predicate `Spec.LinearizedBy`, executable form
`Spec.checkLin`, evaluated on what the real code did):

    new thread <limit> [<initial refs>]
    R <tid> <idx> <inv> <res|-> <hook stamp|-> <result words> ; <op words as in C07's protocol | addref | delref>   (results also: added | dropped 0|1)
    …
    end            -> `1` or `0 <clause that fails> [detail]`
    endfast        -> same without the (cubic) real-time clause and for long histories
    endsearch <n>  -> ignores the hook stamps: depth-first search (at most n nodes) for ANY order that is
                      compatible with real time and reproduces the results; a found order is passed
                      through `checkLin`; `1`, `0 no-linearization-exists` or `? budget-exhausted`

`order` = the operations that carry a hook stamp, sorted by it; the claimed sequential answers are
those of `C07.step` along that order (so `legal` holds by construction and is still evaluated);
each recorded result must equal the claimed answer — trigger sets are compared as sets
(`std::set` iteration order vs. the container's list order: the recorded list is re-ordered to
the model's when it is a duplicate-free permutation of it).  Additionally every hook stamp must
lie strictly between the operation's invocation and response stamps.

Simulation of the interleaving model itself (used to cross-check recorded event orders):

    sim <limit> <nthreads>
    P <tid> <op words>            (append an operation to thread tid's program)
    go <tid> <tid> …              (run that schedule)  -> `clock=<n> log=<n> done=<n>`
    dump                          -> one `tid idx inv res lin? result` group per completed operation
-/
open Cppcms Cppcms.C07 Cppcms.C09

structure JRec where
  r : Rec
  lin : Option Nat

structure DState where
  s0 : XState := ⟨State.init 0, 0⟩
  recs : List JRec := []          -- newest first
  sim : Option Config := none
  progs : List (List XOp) := []

def parseRet (w : List String) : Option Ret :=
  match w with
  | ["miss"] => some (.ok (.cache .miss))
  | ["ok"] => some (.ok (.cache .done))
  | ["added"] => some (.ok .added)
  | ["dropped", b] => some (.ok (.dropped (b == "1")))
  | ["stats", k, t] => match k.toNat?, t.toNat? with
    | some k, some t => some (.ok (.cache (.stats k t)))
    | _, _ => none
  | ["hit", v, ts, d, g] =>
    match parseHex v, Proto.parseTrigs ts, d.toInt?, g.toNat? with
    | some v, some ts, some d, some g => some (.ok (.cache (.hit v ts d (UInt64.ofNat g))))
    | _, _, _, _ => none
  | ["undefined"] => some .undefined
  | _ => none

def retStr : Ret → String
  | .ok (.cache (.stats k t)) => s!"stats {k} {t}"
  | .ok (.cache o) => Proto.outStr o
  | .ok .added => "added"
  | .ok (.dropped b) => s!"dropped {if b then 1 else 0}"
  | .undefined => "undefined"

def parseXOp (w : List String) : Option XOp :=
  match w with
  | ["addref"] => some .addRef
  | ["delref"] => some .delRef
  | _ => (Proto.parseOp w).map fun p => .cache p.1

/-- compare trigger sets as sets: re-order the recorded list to the model's -/
def alignRet (impl : Ret) (model : XOut) : Ret :=
  match impl, model with
  | .ok (.cache (.hit v ts d g)), .cache (.hit _ ts' _ _) =>
    if Proto.sameSet ts ts' && Proto.nodupB ts then .ok (.cache (.hit v ts' d g)) else impl
  | _, _ => impl

def optNat (w : String) : Option (Option Nat) := if w == "-" then some none else w.toNat?.map some

def judge (st : DState) (fast : Bool) : String :=
  let recs := st.recs.reverse
  let withLin := recs.filterMap fun j => j.lin.map fun l => (l, j.r)
  let sorted := withLin.mergeSort fun a b => a.1 ≤ b.1
  let outs := seqOuts st.s0 (sorted.map (·.2.op))
  let order : List Lin := (sorted.zip outs).map fun ((l, r), o) => ⟨r.tid, r.idx, r.op, l, o⟩
  -- hook stamp strictly inside the call
  let badStamp := recs.find? fun j =>
    match j.lin, j.r.resp with
    | some l, some (t, _) => !(j.r.inv < l && l < t)
    | some l, none => !(j.r.inv < l)
    | none, some _ => true          -- completed without the hook firing
    | none, none => false
  match badStamp with
  | some j => s!"0 hook-stamp-not-inside-call tid={j.r.tid} idx={j.r.idx}"
  | none =>
    let aligned : List Rec := recs.map fun j =>
      match j.r.resp, order.find? (fun e => e.tid == j.r.tid && e.idx == j.r.idx) with
      | some (t, ret), some e => { j.r with resp := some (t, alignRet ret e.out) }
      | _, _ => j.r
    let verdict :=
      if fast then
        (if !nodupB (order.map fun e => (e.tid, e.idx)) then some "operation-linearized-twice"
         else if !aligned.all (completeInB order) then some "completed-operation-missing-or-wrong-answer"
         else if seqOuts st.s0 (order.map (·.op)) != order.map (·.out) then some "not-a-sequential-execution"
         else none)
      else checkLin st.s0 aligned order
    match verdict with
    | none => "1"
    | some why =>
      -- name the first completed operation whose answer differs
      let bad := aligned.find? fun r => !completeInB order r
      match bad with
      | some r =>
        let exp := (order.find? fun e => e.tid == r.tid && e.idx == r.idx).map fun e => retStr (.ok e.out)
        s!"0 {why} tid={r.tid} idx={r.idx} got={(r.resp.map fun p => retStr p.2).getD "-"} sequential={exp.getD "-"}"
      | none => s!"0 {why}"

/-! ### hook-independent search for *some* linearization (Wing–Gong style DFS) -/

/-- no other remaining operation responded before `j` was invoked -/
def minimalIn (rem : List JRec) (j : JRec) : Bool :=
  rem.all fun j' => match j'.r.resp with
    | some (t, _) => !(decide (t < j.r.inv))
    | none => true

/-- depth-first search over the orders compatible with real time, pruned by the recorded results;
`budget` bounds the number of visited nodes.  Candidates are tried in hook-stamp order (a
heuristic only: the verdict does not depend on the stamps). -/
def dfs : Nat → XState → List JRec → List Lin → Nat → Option (List Lin) × Nat
  | 0, _, _, _, b => (none, b)
  | fuel + 1, s, rem, acc, b =>
    if rem.isEmpty then (some acc.reverse, b)
    else
      let cands := (rem.filter (minimalIn rem)).mergeSort fun a b => a.lin.getD 0 ≤ b.lin.getD 0
      cands.foldl (fun (rb : Option (List Lin) × Nat) j =>
        if rb.1.isSome || rb.2 == 0 then rb
        else
          let so := xstep s j.r.op
          let ok : Bool := match j.r.resp with
            | some (_, ret) => alignRet ret so.2 == .ok so.2
            | none => true
          if ok then
            dfs fuel so.1 (rem.filter fun j' => !(j'.r.tid == j.r.tid && j'.r.idx == j.r.idx))
              (⟨j.r.tid, j.r.idx, j.r.op, acc.length, so.2⟩ :: acc) (rb.2 - 1)
          else (none, rb.2 - 1)) (none, b)

def searchJudge (st : DState) (budget : Nat) : String :=
  let recs := st.recs.reverse
  match dfs (recs.length + 1) st.s0 recs [] budget with
  | (some order, _) =>
    let aligned : List Rec := recs.map fun j =>
      match j.r.resp, order.find? (fun e => e.tid == j.r.tid && e.idx == j.r.idx) with
      | some (t, ret), some e => { j.r with resp := some (t, alignRet ret e.out) }
      | _, _ => j.r
    (match checkLin st.s0 aligned order with
     | none => "1"
     | some w => "0 search-result-rejected " ++ w)
  | (none, 0) => "? budget-exhausted"
  | (none, _) => "0 no-linearization-exists"

def simSummary (c : Config) : String :=
  s!"clock={c.clock} log={c.log.length} done={(c.threads.map fun th => th.done.length).sum} alldone={boolStr c.allDone}"

def stepLine (st : DState) (line : String) : DState × String :=
  match words line with
  | ["new", "thread", limit] =>
    match limit.toNat? with
    | some l => ({ s0 := ⟨State.init l none, 0⟩ }, "ok")
    | none => (st, "bad-op")
  | ["new", "thread", limit, refs] =>
    match limit.toNat?, refs.toInt? with
    | some l, some r => ({ s0 := ⟨State.init l none, r⟩ }, "ok")
    | _, _ => (st, "bad-op")
  | "R" :: tid :: idx :: inv :: res :: lin :: rest =>
    let (resw, opw) := Proto.splitAt ";" rest
    match tid.toNat?, idx.toNat?, inv.toNat?, optNat res, optNat lin, parseXOp opw with
    | some tid, some idx, some inv, some res, some lin, some op =>
      let resp : Option (Option (Nat × Ret)) :=
        match res with
        | none => some none
        | some t => (parseRet resw).map fun r => some (t, r)
      (match resp with
       | some resp => ({ st with recs := ⟨⟨tid, idx, op, inv, resp⟩, lin⟩ :: st.recs }, "ok")
       | none => (st, "bad-op"))
    | _, _, _, _, _, _ => (st, "bad-op")
  | ["end"] => ({ st with recs := [] }, judge st false)
  | ["endfast"] => ({ st with recs := [] }, judge st true)
  | ["endsearch", budget] => ({ st with recs := [] }, searchJudge st (budget.toNat?.getD 100000))
  | ["sim", limit, n] =>
    match limit.toNat?, n.toNat? with
    | some l, some n => ({ st with s0 := ⟨State.init l none, 0⟩, progs := List.replicate n [], sim := none }, "ok")
    | _, _ => (st, "bad-op")
  | "P" :: tid :: opw =>
    match tid.toNat?, parseXOp opw with
    | some t, some op =>
      if t < st.progs.length then ({ st with progs := st.progs.modify t (· ++ [op]) }, "ok") else (st, "bad-op")
    | _, _ => (st, "bad-op")
  | "go" :: sched =>
    match sched.mapM String.toNat? with
    | some sched =>
      let c0 := st.sim.getD (Config.init st.s0 st.progs)
      let c := run c0 sched
      ({ st with sim := some c }, simSummary c)
    | none => (st, "bad-op")
  | ["dump"] =>
    match st.sim with
    | none => (st, "bad-op")
    | some c =>
      let recs := c.history
      let one (r : Rec) : String :=
        let lin := (c.log.find? fun e => e.tid == r.tid && e.idx == r.idx).map fun e => toString e.stamp
        match r.resp with
        | some (t, ret) => s!"{r.tid} {r.idx} {r.inv} {t} {lin.getD "-"} {retStr ret}"
        | none => s!"{r.tid} {r.idx} {r.inv} - {lin.getD "-"} -"
      (st, " ; ".intercalate (recs.map one))
  | ["simjudge"] =>
    -- the model's own history judged by the same predicate (sanity of the model; always 1 by `Props.linearizable`)
    match st.sim with
    | none => (st, "bad-op")
    | some c => (st, match checkLin st.s0 c.history c.order with | none => "1" | some w => "0 " ++ w)
  | _ => (st, "bad-op")

def main : IO Unit := lineLoop ({} : DState) stepLine
