/-!
# C09 — vocabulary of the generated lock table (`Gen.lean`) and of the interleaving model

Hand-written; `Gen.lean` (generated from `src/cache_storage.cpp`) only uses these types.
-/
namespace Cppcms.C09

/-- the two locks of `mem_cache`: `access_lock` (a `shared_mutex`) and `lru_mutex` (a `mutex`) -/
inductive LockId | access | lru
deriving DecidableEq, Repr

/-- how a guard object holds its lock: `shared_lock` / `unique_lock` -/
inductive Mode | shared | exclusive
deriving DecidableEq, Repr

/-- shared state of `mem_cache`: its data members, the members of `mem_cache::container`
(reached through an iterator into `primary`), and `node` = any other element reached through an
iterator (a per-trigger list inside `triggers`, a node of `timeout`, a key string …) -/
inductive Field
  | primary | triggers | timeout | lru | limit | size | triggersCount | refs | generation
  | cData | cLru | cTriggers | cTimeout | cGeneration | node
deriving DecidableEq, Repr

/-- the virtual methods of `mem_cache` (entry points through `impl::base_cache`) -/
inductive Method | fetch | store | rise | remove | clear | stats | addRef | delRef
deriving DecidableEq, Repr

/-- atomic segments: maximal runs of statements touching shared state between two lock operations -/
inductive Action
  | lookup     -- fetch: `primary.find(key)` + expiry test (+ early `return false`)
  | splice     -- fetch: `lru.erase; lru.push_front; p->second.lru = lru.begin()`
  | copyOut    -- fetch: copy value, trigger names, deadline, generation through the iterator
  | body       -- a mutator's whole critical section
  | readStats  -- stats: `keys=size; triggers=triggers_count`
  | none       -- (hook table only: a hook that sits next to no action)
deriving DecidableEq, Repr

inductive Instr
  | acq (l : LockId) (m : Mode)
  | rel (l : LockId)
  | act (a : Action)
deriving DecidableEq, Repr

abbrev Held := List (LockId × Mode)

structure Access where
  field : Field
  write : Bool
  held : Held
deriving DecidableEq, Repr

structure Hook where
  method : Method
  point : Nat
  action : Action
  held : Held
deriving DecidableEq, Repr

end Cppcms.C09
