import Cppcms.C09.Model
/-!
# C09 — property theorems about the generated lock table

Everything here is closed by `decide` over `Gen.lean`, which `translate/c09.py` regenerates from
`src/cache_storage.cpp` on every run: removing or downgrading a guard in the source changes the
table and makes the corresponding statement false.  (`orderOk` is the static lock-order rule.)
-/
namespace Cppcms.C09.Props
open Cppcms Cppcms.C07 Cppcms.C09

/-- Lock discipline of the source as it is now (`Gen.accesses` is regenerated on every run):
every write to shared state happens under the exclusive lock, except `lru`/`container.lru`, which
are written — and read — only under the exclusive lock or under the shared lock **and**
`lru_mutex`; every read happens under at least the shared lock. -/
theorem discipline_ok : ∀ m ∈ allMethods, ∀ a ∈ Gen.accesses m, a.ok = true := by decide

/-- Consequence, stated directly on the table: two accesses (of any two virtual methods, helpers
inlined) to the same field, one of them a write, are made under guard sets that cannot be held by
two threads at once — no two atomic segments of the model that conflict can overlap in time. -/
theorem race_free : ∀ m₁ ∈ allMethods, ∀ m₂ ∈ allMethods, ∀ a₁ ∈ Gen.accesses m₁, ∀ a₂ ∈ Gen.accesses m₂,
    a₁.field = a₂.field → (a₁.write || a₂.write) = true → mutuallyExcluded a₁.held a₂.held = true := by
  decide +kernel

/-- **The reference count.**  `refs` is written (`refs++`, `refs--`) and read only by `add_ref` and
`del_ref`, always under the **exclusive** lock — two handle copies/drops can never overlap — and no
cache operation touches it (so the cache operations and the handle operations of a recorded history
can be judged separately). -/
theorem refs_exclusive :
    (∀ m ∈ allMethods, ∀ a ∈ Gen.accesses m, a.field = .refs → exclusiveOk a.held = true) ∧
    (∀ m ∈ [Method.fetch, .store, .rise, .remove, .clear, .stats], ∀ a ∈ Gen.accesses m, a.field ≠ .refs) ∧
    (⟨.refs, true, [(.access, .exclusive)]⟩ ∈ Gen.accesses .addRef) ∧
    (⟨.refs, true, [(.access, .exclusive)]⟩ ∈ Gen.accesses .delRef) := by decide

/-- no virtual method calls another virtual (locking) method while it holds a guard
(`booster::shared_mutex`/`mutex` are not recursive) -/
theorem no_nested_locking : ∀ x ∈ Gen.nested, x.2.2 = [] := by decide

/-- the hook calls sit exactly at the model's linearisation points, under the guards of that segment -/
theorem hooks_at_linearization_points : Gen.hooks = linPoints := by decide

/-- `mem_cache<process_settings>` has the same lock table -/
theorem process_variant_same : Gen.processVariantSame = true := by decide

/-- `private/hash_map.h`: the lookups `mem_cache` performs on its hash maps (`find`, `end`) write nothing
but local variables — decided by the translator from the *bodies* of `hash_map::find`,
`basic_map::find`, `find_in_range`, `get` (and whatever they call), not from their names.  The access
table (`Gen.accesses`, hence `discipline_ok`/`race_free`) classifies every `hash_map` call the same
way: a lookup that re-links its bucket chain would appear there as a write to `primary` under the
shared lock. -/
theorem hash_map_lookup_read_only :
    ("find", false) ∈ Gen.hashMapCalls ∧
    ∀ x ∈ Gen.hashMapCalls, (x.1 = "find" ∨ x.1 = "end" ∨ x.1 = "begin" ∨ x.1 = "size") → x.2 = false := by decide

/-- static lock order of a guard skeleton: `access_lock` is only ever requested with nothing held,
`lru_mutex` only while holding `access_lock` (and nothing else), and nothing is held at the end -/
def orderOk : Held → List Instr → Bool
  | held, [] => held.isEmpty
  | held, .acq l m :: r =>
    (match l with
     | .access => held.isEmpty
     | .lru => held == [(.access, .shared)] || held == [(.access, .exclusive)]) && orderOk ((l, m) :: held) r
  | held, .rel l :: r => orderOk (release l held) r
  | held, .act _ :: r => orderOk held r

/-- lock order `access_lock → lru_mutex` only, and no guard survives the end of a method -/
theorem lock_order : ∀ m ∈ allMethods, orderOk [] (Gen.prog m) = true := by decide

end Cppcms.C09.Props
