import Cppcms.C07.Model
import Cppcms.C09.Types
/-!
# C09 — specification side: recorded concurrent histories and linearizability

Independent of the interleaving model (`Model.lean`) and of the generated lock table (`Gen.lean`).
The *sequential specification* is the cache of C07 (`Cppcms.C07.step`, which property C07 relates
to the abstract key→entry map).

A history is what a multi-threaded client can observe: for every operation the thread that issued
it, its position in that thread's program, a stamp taken before the call, and — once it returned —
a stamp taken after the call and the result.  Stamps come from one global counter, so "A responded
before B was invoked" is `A.res < B.inv`.

`LinearizedBy s₀ recs order` says that `order` — a list of (operation, claimed sequential answer)
— is a *linearization* of the history `recs` (Herlihy & Wing): it contains every completed
operation (and possibly some pending ones), each once; executing it sequentially from `s₀` gives
exactly the claimed answers; every completed operation returned exactly its claimed answer; and
the order respects real time.  This very predicate is evaluated by the driver's judge on the
histories recorded from the real code, with `order` = the order of the hook's stamps.
-/
namespace Cppcms.C09
open Cppcms Cppcms.C07

/-! ### the sequential object: C07's cache plus the intrusive reference count

`mem_cache` is handed around as `booster::intrusive_ptr<base_cache>`: copying a handle calls
`add_ref()`, dropping one calls `del_ref()` and deletes the object when that returns `true`.
`refs` is shared state like the indexes; the two functions are operations like the others. -/

inductive XOp
  | cache (op : Op)
  | addRef
  | delRef
deriving DecidableEq, Repr

inductive XOut
  | cache (o : Out)
  | added
  /-- `del_ref()` returned `last`: `true` = the caller must delete the object -/
  | dropped (last : Bool)
deriving DecidableEq, Repr

structure XState where
  cache : State
  /-- `int refs` -/
  refs : Int := 0
deriving Repr

def xstep (s : XState) : XOp → XState × XOut
  | .cache op => ({ s with cache := (step s.cache op).1 }, .cache (step s.cache op).2)
  | .addRef => ({ s with refs := s.refs + 1 }, .added)
  | .delRef => ({ s with refs := s.refs - 1 }, .dropped (decide (s.refs - 1 = 0)))

def xrun (s : XState) (ops : List XOp) : XState := ops.foldl (fun s op => (xstep s op).1) s

/-- what a call returned: an answer of the sequential vocabulary, or `undefined` — the model's
marker for "read through an iterator whose element is gone" / "no result was produced" (the real
code would exhibit undefined behaviour there) -/
inductive Ret
  | ok (o : XOut)
  | undefined
deriving DecidableEq, Repr

/-- one operation of a recorded history; `resp = none` while it has not returned -/
structure Rec where
  tid : Nat
  idx : Nat
  op : XOp
  inv : Nat
  resp : Option (Nat × Ret) := none
deriving DecidableEq, Repr

/-- one element of a claimed linearization: which operation, at which stamp it took effect, and
the answer the sequential specification gives at that point -/
structure Lin where
  tid : Nat
  idx : Nat
  op : XOp
  stamp : Nat
  out : XOut
deriving DecidableEq, Repr

/-- answers of the sequential execution of `ops` from `s` -/
def seqOuts (s : XState) : List XOp → List XOut
  | [] => []
  | op :: ops => (xstep s op).2 :: seqOuts (xstep s op).1 ops

/-- every completed record appears in `order` with the answer it returned -/
def CompleteIn (order : List Lin) (r : Rec) : Prop :=
  match r.resp with
  | none => True
  | some (_, ret) => ∃ e ∈ order, e.tid = r.tid ∧ e.idx = r.idx ∧ e.op = r.op ∧ ret = .ok e.out

/-- `b` (later in the order) did not respond before `a` (earlier in the order) was invoked -/
def RealTimeOk (recs : List Rec) (a b : Lin) : Prop :=
  ∀ ra ∈ recs, ∀ rb ∈ recs, ra.tid = a.tid → ra.idx = a.idx → rb.tid = b.tid → rb.idx = b.idx →
    match rb.resp with
    | none => True
    | some (t, _) => ¬ t < ra.inv

structure LinearizedBy (s₀ : XState) (recs : List Rec) (order : List Lin) : Prop where
  /-- every operation occurs at most once -/
  nodup : (order.map fun e => (e.tid, e.idx)).Nodup
  /-- every completed operation is in the order, and returned the claimed answer -/
  complete : ∀ r ∈ recs, CompleteIn order r
  /-- only operations of the history (completed or pending) are in the order -/
  sound : ∀ e ∈ order, ∃ r ∈ recs, r.tid = e.tid ∧ r.idx = e.idx ∧ r.op = e.op
  /-- the claimed answers are those of the sequential cache -/
  legal : seqOuts s₀ (order.map (·.op)) = order.map (·.out)
  /-- real-time order is respected -/
  realtime : order.Pairwise (RealTimeOk recs)

/-- the history is linearizable w.r.t. the sequential cache started in `s₀` -/
def Linearizable (s₀ : XState) (recs : List Rec) : Prop := ∃ order, LinearizedBy s₀ recs order

/-- histories are well formed: an operation id names one record -/
def WellFormed (recs : List Rec) : Prop := (recs.map fun r => (r.tid, r.idx)).Nodup

/-! ### executable version (used by the driver's judge on histories recorded from the real code);
`Lemmas.checkLin_iff : checkLin s₀ recs order = none ↔ LinearizedBy s₀ recs order` -/

def completeInB (order : List Lin) (r : Rec) : Bool :=
  match r.resp with
  | none => true
  | some (_, ret) => order.any fun e => e.tid == r.tid && e.idx == r.idx && e.op == r.op && ret == .ok e.out

def realTimeOkB (recs : List Rec) (a b : Lin) : Bool :=
  (recs.filter fun ra => ra.tid == a.tid && ra.idx == a.idx).all fun ra =>
    (recs.filter fun rb => rb.tid == b.tid && rb.idx == b.idx).all fun rb =>
      match rb.resp with
      | none => true
      | some (t, _) => !(decide (t < ra.inv))

def pairwiseB {α : Type} (r : α → α → Bool) : List α → Bool
  | [] => true
  | a :: l => l.all (r a) && pairwiseB r l

def nodupB {α : Type} [BEq α] : List α → Bool
  | [] => true
  | a :: l => !l.contains a && nodupB l

/-- which clause of `LinearizedBy` fails first (`none` = all hold) -/
def checkLin (s₀ : XState) (recs : List Rec) (order : List Lin) : Option String :=
  if !nodupB (order.map fun e => (e.tid, e.idx)) then some "operation-linearized-twice"
  else if !recs.all (completeInB order) then some "completed-operation-missing-or-wrong-answer"
  else if !order.all (fun e => recs.any fun r => r.tid == e.tid && r.idx == e.idx && r.op == e.op) then some "unknown-operation-in-order"
  else if seqOuts s₀ (order.map (·.op)) != order.map (·.out) then some "not-a-sequential-execution"
  else if !pairwiseB (realTimeOkB recs) order then some "real-time-order-violated"
  else none

/-! ### the lock discipline (rule that the generated access table must satisfy) -/

def holds (h : Held) (l : LockId) (m : Mode) : Bool := h.contains (l, m)

/-- the exclusive lock on `access_lock` is held -/
def exclusiveOk (h : Held) : Bool := holds h .access .exclusive
/-- at least the shared lock on `access_lock` is held -/
def sharedOk (h : Held) : Bool := holds h .access .shared || holds h .access .exclusive
/-- exclusive lock, or shared lock together with `lru_mutex` -/
def lruOk (h : Held) : Bool := exclusiveOk h || (holds h .access .shared && holds h .lru .exclusive)

/-- the LRU list and the containers' iterators into it: the only state written by readers -/
def Field.isLru : Field → Bool
  | .lru | .cLru => true
  | _ => false

/-- The rule.  Writes need the exclusive lock, reads at least the shared lock — except `lru` and
`container.lru`, which may be written (and then must also be *read*) under the shared lock
together with `lru_mutex`. -/
def Access.ok (a : Access) : Bool :=
  if a.field.isLru then lruOk a.held
  else if a.write then exclusiveOk a.held
  else sharedOk a.held

/-- two guards that cannot be alive on two different threads at the same time -/
def guardsConflict (a b : LockId × Mode) : Bool :=
  a.1 == b.1 && (a.2 == .exclusive || b.2 == .exclusive)

/-- two segments holding these guard sets can never overlap in time -/
def mutuallyExcluded (h₁ h₂ : Held) : Bool := h₁.any fun a => h₂.any fun b => guardsConflict a b

def allMethods : List Method := [.fetch, .store, .rise, .remove, .clear, .stats, .addRef, .delRef]

end Cppcms.C09
