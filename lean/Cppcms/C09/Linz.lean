import Cppcms.C09.Reach
/-!
# C09 — from the invariant to `Spec.LinearizedBy` on the observable history
-/
namespace Cppcms.C09
open Cppcms Cppcms.C07

theorem mem_recsFrom {r : Rec} {n : Nat} {ths : List Thread} :
    r ∈ recsFrom n ths ↔ ∃ i th, ths[i]? = some th ∧ r ∈ threadRecs (n + i) th := by
  induction ths generalizing n with
  | nil => simp [recsFrom]
  | cons th ths ih =>
    simp only [recsFrom, List.mem_append, ih]
    constructor
    · rintro (h | ⟨i, th', hget, hr⟩)
      · exact ⟨0, th, rfl, h⟩
      · exact ⟨i + 1, th', by simpa using hget, by rw [show n + (i + 1) = n + 1 + i by omega]; exact hr⟩
    · rintro ⟨i, th', hget, hr⟩
      cases i with
      | zero =>
        simp only [List.getElem?_cons_zero, Option.some.injEq] at hget
        subst hget
        exact Or.inl hr
      | succ i =>
        refine Or.inr ⟨i, th', by simpa using hget, ?_⟩
        rw [show n + 1 + i = n + (i + 1) by omega]; exact hr

theorem mem_history {c : Config} {r : Rec} :
    r ∈ c.history ↔ ∃ t th, c.threads[t]? = some th ∧ r ∈ threadRecs t th := by
  unfold Config.history
  rw [mem_recsFrom]
  simp

theorem mem_threadRecs {t : Nat} {th : Thread} {r : Rec} :
    r ∈ threadRecs t th ↔ (∃ op, th.cur = some op ∧ r = ⟨t, th.done.length, op, th.inv, none⟩) ∨ r ∈ th.done := by
  unfold threadRecs pendingRec
  cases th.cur <;> simp

/-- two log entries of one operation are the same entry -/
theorem log_entry_unique {s₀ : XState} {c : Config} (h : Inv s₀ c) {e e' : Lin} (he : e ∈ c.log) (he' : e' ∈ c.log)
    (h1 : e.tid = e'.tid) (h2 : e.idx = e'.idx) : e = e' := by
  have key : ∀ (l : List Lin), (l.map fun e => (e.tid, e.idx)).Nodup → e ∈ l → e' ∈ l → e = e' := by
    intro l
    induction l with
    | nil => intro _ he; cases he
    | cons x xs ih =>
      intro hnd hx hx'
      rw [List.map_cons, List.nodup_cons] at hnd
      rcases List.mem_cons.mp hx with heq | hin
      · rcases List.mem_cons.mp hx' with heq' | hin'
        · rw [heq, heq']
        · have hm : (e'.tid, e'.idx) ∈ xs.map (fun e => (e.tid, e.idx)) := List.mem_map.mpr ⟨e', hin', rfl⟩
          rw [← h1, ← h2, heq] at hm
          exact absurd hm hnd.1
      · rcases List.mem_cons.mp hx' with heq' | hin'
        · have hm : (e.tid, e.idx) ∈ xs.map (fun e => (e.tid, e.idx)) := List.mem_map.mpr ⟨e, hin, rfl⟩
          rw [h1, h2, heq'] at hm
          exact absurd hm hnd.1
        · exact ih hnd.2 hin hin'
  exact key c.log h.nodup he he'

/-- a record and the log entry of the same operation: invoked before, responded after -/
theorem stamp_bounds {s₀ : XState} {c : Config} (h : Inv s₀ c) {e : Lin} (he : e ∈ c.log) {r : Rec}
    (hr : r ∈ c.history) (h1 : r.tid = e.tid) (h2 : r.idx = e.idx) :
    r.inv < e.stamp ∧ ∀ tr ret, r.resp = some (tr, ret) → e.stamp < tr := by
  obtain ⟨t, th, hget, hrt⟩ := mem_history.mp hr
  have tok := h.thr t th hget
  obtain ⟨the, hgete, hor⟩ := h.sound e he
  rcases mem_threadRecs.mp hrt with ⟨op, hcur, rfl⟩ | hdone
  · -- pending
    simp only at h1 h2
    rw [← h1, hget] at hgete
    cases hgete
    rcases hor with ⟨r', hr', hidx, _⟩ | ⟨_, _, hlt⟩
    · have := (tok.done_ok r' hr').idx
      omega
    · exact ⟨hlt, fun _ _ hresp => by cases hresp⟩
  · obtain ⟨htid, _, e', he', h3, h4, _, tr, hresp, hb1, hb2, _⟩ := tok.done_ok r hdone
    have : e' = e := log_entry_unique h he' he (by rw [h3, ← htid, h1]) (by rw [h4, h2])
    subst this
    refine ⟨hb1, fun tr' ret hresp' => ?_⟩
    rw [hresp] at hresp'
    cases hresp'
    exact hb2

theorem history_ids_of_inv {s₀ : XState} {c : Config} (h : Inv s₀ c) {r : Rec} (hr : r ∈ c.history) :
    ∃ th, c.threads[r.tid]? = some th ∧ r ∈ threadRecs r.tid th := by
  obtain ⟨t, th, hget, hrt⟩ := mem_history.mp hr
  have : r.tid = t := by
    rcases mem_threadRecs.mp hrt with ⟨op, _, rfl⟩ | hdone
    · rfl
    · exact ((h.thr t th hget).done_ok r hdone).tid
  rw [this]
  exact ⟨th, hget, hrt⟩

theorem linearizedBy_of_inv {s₀ : XState} {c : Config} (h : Inv s₀ c) :
    LinearizedBy s₀ c.history c.order := by
  unfold Config.order
  refine ⟨?_, ?_, ?_, h.legal, ?_⟩
  · rw [List.map_reverse, List.Nodup, List.pairwise_reverse]
    exact h.nodup.imp fun hne => Ne.symm hne
  · intro r hr
    obtain ⟨t, th, hget, hrt⟩ := mem_history.mp hr
    rcases mem_threadRecs.mp hrt with ⟨op, _, rfl⟩ | hdone
    · simp [CompleteIn]
    · obtain ⟨htid, _, e, he, h3, h4, h5, tr, hresp, _⟩ := (h.thr t th hget).done_ok r hdone
      unfold CompleteIn
      rw [hresp]
      exact ⟨e, List.mem_reverse.mpr he, by rw [h3, htid], h4, h5, rfl⟩
  · intro e he
    have he' := List.mem_reverse.mp he
    obtain ⟨th, hget, hor⟩ := h.sound e he'
    rcases hor with ⟨r, hr, h1, h2⟩ | ⟨h1, hcur, _⟩
    · refine ⟨r, mem_history.mpr ⟨e.tid, th, hget, mem_threadRecs.mpr (Or.inr hr)⟩, ?_, h1, h2⟩
      exact ((h.thr e.tid th hget).done_ok r hr).tid
    · exact ⟨⟨e.tid, th.done.length, e.op, th.inv, none⟩,
        mem_history.mpr ⟨e.tid, th, hget, mem_threadRecs.mpr (Or.inl ⟨e.op, hcur, rfl⟩)⟩, rfl, h1.symm, rfl⟩
  · rw [List.pairwise_reverse]
    refine List.Pairwise.imp_of_mem ?_ h.sorted
    intro a b ha hb hlt ra hra rb hrb e1 e2 e3 e4
    -- `b` is the earlier entry, `a` the later one
    have hb' := stamp_bounds h hb hra e1 e2
    have ha' := stamp_bounds h ha hrb e3 e4
    cases hresp : rb.resp with
    | none => trivial
    | some p =>
      obtain ⟨tr, ret⟩ := p
      have := ha'.2 tr ret hresp
      show ¬ tr < ra.inv
      omega

/-! ### histories are well formed -/

theorem le_tid_of_mem_recsFrom {n : Nat} {ths : List Thread}
    (hok : ∀ i th, ths[i]? = some th → ∀ r ∈ th.done, r.tid = n + i) {r : Rec} (hr : r ∈ recsFrom n ths) : n ≤ r.tid := by
  obtain ⟨i, th, hget, hrt⟩ := mem_recsFrom.mp hr
  rcases mem_threadRecs.mp hrt with ⟨op, _, rfl⟩ | hdone
  · exact Nat.le_add_right _ _
  · rw [hok i th hget r hdone]; exact Nat.le_add_right _ _

theorem threadRecs_ids {t : Nat} {th : Thread}
    (h1 : ∀ r ∈ th.done, r.tid = t ∧ r.idx < th.done.length) (h2 : th.done.Pairwise (fun a b => b.idx < a.idx)) :
    (threadRecs t th).Pairwise (fun a b => (a.tid, a.idx) ≠ (b.tid, b.idx)) := by
  unfold threadRecs pendingRec
  have hd : th.done.Pairwise (fun a b => (a.tid, a.idx) ≠ (b.tid, b.idx)) :=
    h2.imp (fun {a b} hlt heq => by
      have : a.idx = b.idx := congrArg Prod.snd heq
      omega)
  cases th.cur with
  | none => simpa using hd
  | some op =>
    simp only [List.singleton_append, List.pairwise_cons]
    refine ⟨fun r hr heq => ?_, hd⟩
    have : th.done.length = r.idx := congrArg Prod.snd heq
    have := (h1 r hr).2
    omega

theorem recsFrom_ids {n : Nat} {ths : List Thread}
    (hok : ∀ i th, ths[i]? = some th → (∀ r ∈ th.done, r.tid = n + i ∧ r.idx < th.done.length) ∧
      th.done.Pairwise (fun a b => b.idx < a.idx)) :
    (recsFrom n ths).Pairwise (fun a b => (a.tid, a.idx) ≠ (b.tid, b.idx)) := by
  induction ths generalizing n with
  | nil => exact List.Pairwise.nil
  | cons th ths ih =>
    have h0 := hok 0 th rfl
    have hrest : ∀ i th', ths[i]? = some th' → (∀ r ∈ th'.done, r.tid = n + 1 + i ∧ r.idx < th'.done.length) ∧
        th'.done.Pairwise (fun a b => b.idx < a.idx) := by
      intro i th' hget
      have := hok (i + 1) th' (by simpa using hget)
      rw [show n + (i + 1) = n + 1 + i by omega] at this
      exact this
    simp only [recsFrom]
    refine List.pairwise_append.mpr ⟨threadRecs_ids (by simpa using h0.1) h0.2, ih hrest, ?_⟩
    intro a ha b hb heq
    have hbt : n + 1 ≤ b.tid := le_tid_of_mem_recsFrom (fun i th' hget r hr => ((hrest i th' hget).1 r hr).1) hb
    have hat : a.tid = n := by
      rcases mem_threadRecs.mp ha with ⟨op, _, rfl⟩ | hdone
      · rfl
      · simpa using (h0.1 a hdone).1
    have : a.tid = b.tid := congrArg Prod.fst heq
    omega

theorem wellFormed_of_inv {s₀ : XState} {c : Config} (h : Inv s₀ c) : WellFormed c.history := by
  unfold WellFormed Config.history
  rw [List.Nodup, List.pairwise_map]
  refine recsFrom_ids fun i th hget => ?_
  have tok := h.thr i th hget
  exact ⟨fun r hr => ⟨by simpa using (tok.done_ok r hr).tid, (tok.done_ok r hr).idx⟩, tok.done_idx⟩

end Cppcms.C09
