import Cppcms.C09.Steps
/-!
# C09 — `Inv` holds in every reachable configuration
-/
namespace Cppcms.C09
open Cppcms Cppcms.C07

theorem inv_step {s₀ : XState} {c c' : Config} {t : Nat} (h : Inv s₀ c) (hs : stepThread c t = some c') :
    Inv s₀ c' := by
  unfold stepThread at hs
  cases hth : c.threads[t]? with
  | none => simp [hth] at hs
  | some th =>
    have tok := h.thr t th hth
    have others : ∀ (j : Nat) (thj : Thread), j ≠ t → c.threads[j]? = some thj →
        ∀ a ∈ th.held, ∀ b ∈ thj.held, conflict a b = false :=
      fun j thj hj hget a ha b hb => h.compat t j th thj (Ne.symm hj) hth hget a ha b hb
    cases tok.phase with
    | idle hc hcode hheld =>
      simp only [hth, hc] at hs
      cases htodo : th.todo with
      | nil => simp [htodo] at hs
      | cons op more =>
        simp only [htodo, Option.some.injEq] at hs
        subst hs
        exact inv_invoke h hth hc
    | f0 now k hc hcode hheld hn =>
      simp only [hth, hc, hcode] at hs
      by_cases hacq : canAcq c .access .shared = true
      · simp only [hacq, if_true, Option.some.injEq] at hs
        subst hs
        refine inv_internal h hth hc.symm rfl rfl (.f1 now k rfl rfl (by simp [hheld]) hn) ?_
        intro j thj hj hget a ha b hb
        simp only [hheld, List.mem_singleton] at ha
        subst ha
        exact canAcq_spec hacq hget b hb
      · simp [hacq] at hs
    | f1 now k hc hcode hheld hn =>
      simp only [hth, hc, hcode, Option.some.injEq] at hs
      subst hs
      have hinvlt : th.inv < c.clock := tok.inv_lt (by rw [hc]; simp)
      cases hlk : alookup k c.s.cache.primary with
      | none =>
        rw [execAct_lookup_none hlk]
        refine inv_lin h hth hc rfl rfl rfl hn ?_ (fun a ha => ha) (fun j thj _ _ => Or.inl (by rw [step_fetch_none hlk]))
        refine .rel1 _ .shared (.cache .miss) hc (by simp [hheld]) hheld rfl ?_
        have := Lind_hook (c := c) (t := t) (op := .cache (.fetch now k)) hinvlt
        rw [step_fetch_none hlk] at this
        exact this
      | some cont =>
        cases hex : C07.Gen.fetchExpired cont.deadline now with
        | true =>
          rw [execAct_lookup_expired hlk hex]
          refine inv_lin h hth hc rfl rfl rfl hn ?_ (fun a ha => ha) (fun j thj _ _ => Or.inl (by rw [step_fetch_expired hlk hex]))
          refine .rel1 _ .shared (.cache .miss) hc (by simp [hheld]) hheld rfl ?_
          have := Lind_hook (c := c) (t := t) (op := .cache (.fetch now k)) hinvlt
          rw [step_fetch_expired hlk hex] at this
          exact this
        | false =>
          rw [execAct_lookup_live hlk hex]
          exact inv_internal h hth rfl rfl rfl (.f2 now k _ hc rfl hheld rfl ⟨cont, hlk, hex, rfl⟩ hn) others
    | f2 now k out hc hcode hheld hp hl hn =>
      simp only [hth, hc, hcode] at hs
      by_cases hacq : canAcq c .lru .exclusive = true
      · simp only [hacq, if_true, Option.some.injEq] at hs
        subst hs
        refine inv_internal h hth hc.symm rfl rfl (.f3 now k out rfl rfl (by simp [hheld]) hp hl hn) ?_
        intro j thj hj hget a ha b hb
        simp only [List.mem_cons] at ha
        rcases ha with rfl | ha
        · exact canAcq_spec hacq hget b hb
        · exact others j thj hj hget a ha b hb
      · simp [hacq] at hs
    | f3 now k out hc hcode hheld hp hl hn =>
      simp only [hth, hc, hcode, Option.some.injEq] at hs
      subst hs
      obtain ⟨cont, hlk, hex, rfl⟩ := hl
      have hinvlt : th.inv < c.clock := tok.inv_lt (by rw [hc]; simp)
      rw [execAct_splice hp hlk hex]
      refine inv_lin h hth hc rfl rfl rfl hn ?_ (fun a ha => ha) (fun j thj _ _ => Or.inl (by rw [step_fetch_live hlk hex]))
      refine .f4 now k _ hc rfl hheld hp ⟨cont, by rw [step_fetch_live hlk hex]; exact hlk, hex, rfl⟩ ?_
      have := Lind_hook (c := c) (t := t) (op := .cache (.fetch now k)) hinvlt
      rw [step_fetch_live hlk hex] at this
      exact this
    | f4 now k out hc hcode hheld hp hl hlin =>
      simp only [hth, hc, hcode, Option.some.injEq] at hs
      subst hs
      refine inv_internal h hth hc.symm rfl rfl (.f5 now k out rfl rfl (by simp [hheld, release]) hp hl hlin) ?_
      intro j thj hj hget a ha b hb
      exact others j thj hj hget a (List.mem_of_mem_eraseP ha) b hb
    | f5 now k out hc hcode hheld hp hl hlin =>
      simp only [hth, hc, hcode, Option.some.injEq] at hs
      subst hs
      obtain ⟨cont, hlk, hex, rfl⟩ := hl
      rw [execAct_copyOut hp hlk]
      exact inv_internal h hth rfl rfl rfl (.rel1 _ .shared _ hc rfl hheld rfl hlin) others
    | s0 op m a hsimple hc hcode hheld hn =>
      simp only [hth, hc, hcode] at hs
      by_cases hacq : canAcq c .access m = true
      · simp only [hacq, if_true, Option.some.injEq] at hs
        subst hs
        refine inv_internal h hth hc.symm rfl rfl (.s1 op m a hsimple rfl rfl (by simp [hheld]) hn) ?_
        intro j thj hj hget a ha b hb
        simp only [hheld, List.mem_singleton] at ha
        subst ha
        exact canAcq_spec hacq hget b hb
      · simp [hacq] at hs
    | s1 op m a hsimple hc hcode hheld hn =>
      simp only [hth, hc, hcode, Option.some.injEq] at hs
      subst hs
      have hinvlt : th.inv < c.clock := tok.inv_lt (by rw [hc]; simp)
      rw [execAct_simple hsimple]
      refine inv_lin h hth hc rfl rfl rfl hn (.rel1 op m _ hc rfl hheld rfl (Lind_hook hinvlt)) (fun a ha => ha) ?_
      intro j thj hj hget
      cases m with
      | shared => exact Or.inl (by rw [simpleOp_shared_state hsimple])
      | exclusive =>
        refine Or.inr fun g hg hga => ?_
        have := others j thj hj hget (.access, .exclusive) (by simp [hheld]) g hg
        obtain ⟨l, md⟩ := g
        simp only at hga
        subst hga
        simp [conflict] at this
    | rel1 op m out hc hcode hheld hret hlin =>
      simp only [hth, hc, hcode, Option.some.injEq] at hs
      subst hs
      refine inv_internal h hth hc.symm rfl rfl (.fin op out rfl rfl (by simp [hheld, release]) hret hlin) ?_
      intro j thj hj hget a ha b hb
      exact others j thj hj hget a (List.mem_of_mem_eraseP ha) b hb
    | fin op out hc hcode hheld hret hlin =>
      simp only [hth, hc, hcode, Option.some.injEq] at hs
      subst hs
      have hr := inv_respond h hth hc hcode
      simp only [hcode] at hr
      exact hr

end Cppcms.C09

namespace Cppcms.C09
open Cppcms Cppcms.C07

theorem inv_init (s₀ : XState) (progs : List (List XOp)) : Inv s₀ (Config.init s₀ progs) := by
  have hget : ∀ (t : Nat) (th : Thread), (Config.init s₀ progs).threads[t]? = some th →
      th.cur = none ∧ th.code = [] ∧ th.held = [] ∧ th.done = [] := by
    intro t th h
    simp only [Config.init, List.getElem?_map] at h
    cases hp : progs[t]? with
    | none => simp [hp] at h
    | some p =>
      simp only [hp, Option.map_some, Option.some.injEq] at h
      subst h
      exact ⟨rfl, rfl, rfl, rfl⟩
  refine ⟨rfl, rfl, ?_, List.Pairwise.nil, List.nodup_nil, ?_, ?_, ?_⟩
  · intro e he; cases he
  · intro t th h
    obtain ⟨h1, h2, h3, h4⟩ := hget t th h
    refine ⟨.idle h1 h2 h3, fun hc => absurd h1 hc, ?_, ?_⟩
    · intro r hr; rw [h4] at hr; cases hr
    · rw [h4]; exact List.Pairwise.nil
  · intro i j thi thj _ hi _ a ha
    rw [(hget i thi hi).2.2.1] at ha
    cases ha
  · intro e he; cases he

theorem inv_sched1 {s₀ : XState} {c : Config} (h : Inv s₀ c) (t : Nat) : Inv s₀ (sched1 c t) := by
  unfold sched1
  cases hs : stepThread c t with
  | none => exact h
  | some c' => exact inv_step h hs

theorem inv_run {s₀ : XState} {c : Config} (h : Inv s₀ c) (sched : List Nat) : Inv s₀ (run c sched) := by
  induction sched generalizing c with
  | nil => exact h
  | cons t ts ih => exact ih (inv_sched1 h t)

theorem inv_reachable (s₀ : XState) (progs : List (List XOp)) (sched : List Nat) :
    Inv s₀ (run (Config.init s₀ progs) sched) := inv_run (inv_init s₀ progs) sched

end Cppcms.C09
