import Cppcms.C09.Lemmas
/-!
# C09 — the invariant is preserved by every step

Four generic lemmas (an internal step of one thread, a step that enters the operation in the
log, invocation, response), then the case analysis over the phases.
-/
namespace Cppcms.C09
open Cppcms Cppcms.C07

theorem conflict_comm (a b : LockId × Mode) : conflict a b = conflict b a := by
  obtain ⟨l, m⟩ := a
  obtain ⟨l', m'⟩ := b
  cases l <;> cases l' <;> cases m <;> cases m' <;> rfl

theorem getElem?_set_some {α : Type} {l : List α} {i j : Nat} {a b : α} (h : (l.set i a)[j]? = some b) :
    (i = j ∧ b = a ∧ i < l.length) ∨ (i ≠ j ∧ l[j]? = some b) := by
  rw [List.getElem?_set] at h
  by_cases hij : i = j
  · rw [if_pos hij] at h
    by_cases hl : i < l.length
    · rw [if_pos hl] at h
      exact Or.inl ⟨hij, (Option.some.inj h).symm, hl⟩
    · rw [if_neg hl] at h; cases h
  · rw [if_neg hij] at h
    exact Or.inr ⟨hij, h⟩

theorem lt_length_of_getElem? {α : Type} {l : List α} {i : Nat} {a : α} (h : l[i]? = some a) : i < l.length := by
  rcases Nat.lt_or_ge i l.length with hl | hl
  · exact hl
  · rw [List.getElem?_eq_none hl] at h; cases h

/-- an internal step of thread `t`: its operation, stamps and records stay, state and log too -/
theorem inv_internal {s₀ : XState} {c : Config} {t : Nat} {th th' : Thread} (h : Inv s₀ c)
    (hth : c.threads[t]? = some th)
    (hcur : th'.cur = th.cur) (hinv : th'.inv = th.inv) (hdone : th'.done = th.done)
    (hphase : Phase c.s c.log t th')
    (hcompat : ∀ (j : Nat) (thj : Thread), j ≠ t → c.threads[j]? = some thj →
      ∀ a ∈ th'.held, ∀ b ∈ thj.held, conflict a b = false) :
    Inv s₀ (c.put t th') := by
  have htl := lt_length_of_getElem? hth
  have tok := h.thr t th hth
  refine ⟨h.state_eq, h.legal, fun e he => Nat.lt_succ_of_lt (h.stamps e he), h.sorted, h.nodup, ?_, ?_, ?_⟩
  · intro t' th'' hget
    rcases getElem?_set_some hget with ⟨rfl, rfl, _⟩ | ⟨hne, hget'⟩
    · refine ⟨hphase, ?_, ?_, ?_⟩
      · intro hc
        rw [hinv]
        exact Nat.lt_succ_of_lt (tok.inv_lt (by rw [← hcur]; exact hc))
      · intro r hr
        rw [hdone] at hr ⊢
        exact (tok.done_ok r hr).mono (Nat.le_succ _) (fun _ he => he) (Nat.le_refl _)
      · rw [hdone]; exact tok.done_idx
    · exact (h.thr t' th'' hget').frame (Or.inl rfl) (fun _ he => he) (fun e he hne' => absurd he hne') (Nat.le_succ _)
  · intro i j thi thj hij hi hj a ha b hb
    rcases getElem?_set_some hi with ⟨rfl, rfl, _⟩ | ⟨hnei, hi'⟩
    · rcases getElem?_set_some hj with ⟨rfl, _, _⟩ | ⟨_, hj'⟩
      · exact absurd rfl hij
      · exact hcompat j thj (Ne.symm hij) hj' a ha b hb
    · rcases getElem?_set_some hj with ⟨rfl, rfl, _⟩ | ⟨_, hj'⟩
      · rw [conflict_comm]
        exact hcompat i thi hij hi' b hb a ha
      · exact h.compat i j thi thj hij hi' hj' a ha b hb
  · intro e he
    obtain ⟨the, hget, hor⟩ := h.sound e he
    by_cases het : e.tid = t
    · rw [het] at hget
      rw [hth] at hget
      cases hget
      refine ⟨th', ?_, ?_⟩
      · show (c.threads.set t th')[e.tid]? = some th'
        rw [het]; exact List.getElem?_set_self htl
      · rw [hdone, hcur, hinv]; exact hor
    · refine ⟨the, ?_, hor⟩
      show (c.threads.set t th')[e.tid]? = some the
      rw [List.getElem?_set_ne (Ne.symm het)]; exact hget

/-- a step of thread `t` that enters its operation in the log and applies the sequential effect -/
theorem inv_lin {s₀ : XState} {c : Config} {t : Nat} {th th' : Thread} {op : XOp} (h : Inv s₀ c)
    (hth : c.threads[t]? = some th) (hop : th.cur = some op)
    (hcur : th'.cur = th.cur) (hinv : th'.inv = th.inv) (hdone : th'.done = th.done)
    (hn : NotLind c.log t th.done.length)
    (hphase : Phase (xstep c.s op).1 (c.hook t th op) t th')
    (hsub : ∀ a ∈ th'.held, a ∈ th.held)
    (hframe : ∀ (j : Nat) (thj : Thread), j ≠ t → c.threads[j]? = some thj →
      ((xstep c.s op).1.cache.primary = c.s.cache.primary ∨ ∀ g ∈ thj.held, g.1 ≠ LockId.access)) :
    Inv s₀ (linStep c t th op th') := by
  have htl := lt_length_of_getElem? hth
  have tok := h.thr t th hth
  have hinvlt : th.inv < c.clock := tok.inv_lt (by rw [hop]; simp)
  have hlog : (linStep c t th op th').log = ⟨t, th.done.length, op, c.clock, (xstep c.s op).2⟩ :: c.log := rfl
  have hsubl : ∀ e ∈ c.log, e ∈ (linStep c t th op th').log := fun e he => by rw [hlog]; exact List.mem_cons_of_mem _ he
  have hnewl : ∀ e ∈ (linStep c t th op th').log, e ∉ c.log → e.tid = t := by
    intro e he hne
    rw [hlog] at he
    rcases List.mem_cons.mp he with rfl | he'
    · rfl
    · exact absurd he' hne
  refine ⟨?_, ?_, ?_, ?_, ?_, ?_, ?_, ?_⟩
  · show (xstep c.s op).1 = _
    rw [hlog, List.reverse_cons, List.map_append, List.map_cons, List.map_nil, run_snoc, ← h.state_eq]
  · rw [hlog, List.reverse_cons, List.map_append, List.map_append, List.map_cons, List.map_nil, List.map_cons, List.map_nil,
      seqOuts_snoc, h.legal, ← h.state_eq]
  · intro e he
    rw [hlog] at he
    rcases List.mem_cons.mp he with rfl | he'
    · exact Nat.lt_succ_self _
    · exact Nat.lt_succ_of_lt (h.stamps e he')
  · rw [hlog]
    exact List.pairwise_cons.mpr ⟨fun e he => h.stamps e he, h.sorted⟩
  · rw [hlog, List.map_cons]
    refine List.nodup_cons.mpr ⟨?_, h.nodup⟩
    intro hmem
    obtain ⟨e, he, heq⟩ := List.mem_map.mp hmem
    have h1 : e.tid = t := congrArg Prod.fst heq
    have h2 : e.idx = th.done.length := congrArg Prod.snd heq
    exact hn e he ⟨h1, h2⟩
  · intro t' th'' hget
    rcases getElem?_set_some hget with ⟨rfl, rfl, _⟩ | ⟨hne, hget'⟩
    · refine ⟨hphase, ?_, ?_, ?_⟩
      · intro _
        rw [hinv]
        exact Nat.lt_succ_of_lt hinvlt
      · intro r hr
        rw [hdone] at hr ⊢
        exact (tok.done_ok r hr).mono (Nat.le_succ _) hsubl (Nat.le_refl _)
      · rw [hdone]; exact tok.done_idx
    · exact (h.thr t' th'' hget').frame (hframe t' th'' (Ne.symm hne) hget') hsubl
        (fun e he hne' heq => hne ((hnewl e he hne').symm.trans heq)) (Nat.le_succ _)
  · intro i j thi thj hij hi hj a ha b hb
    rcases getElem?_set_some hi with ⟨rfl, rfl, _⟩ | ⟨hnei, hi'⟩
    · rcases getElem?_set_some hj with ⟨rfl, _, _⟩ | ⟨_, hj'⟩
      · exact absurd rfl hij
      · exact h.compat t j th thj hij hth hj' a (hsub a ha) b hb
    · rcases getElem?_set_some hj with ⟨rfl, rfl, _⟩ | ⟨_, hj'⟩
      · exact h.compat i t thi th hij hi' hth a ha b (hsub b hb)
      · exact h.compat i j thi thj hij hi' hj' a ha b hb
  · intro e he
    rw [hlog] at he
    rcases List.mem_cons.mp he with rfl | he'
    · refine ⟨th', ?_, Or.inr ⟨?_, ?_, ?_⟩⟩
      · show (c.threads.set t th')[t]? = some th'
        exact List.getElem?_set_self htl
      · show th.done.length = th'.done.length
        rw [hdone]
      · show th'.cur = some op
        rw [hcur, hop]
      · show th'.inv < c.clock
        rw [hinv]; exact hinvlt
    · obtain ⟨the, hget, hor⟩ := h.sound e he'
      by_cases het : e.tid = t
      · rw [het, hth] at hget
        cases hget
        refine ⟨th', ?_, ?_⟩
        · show (c.threads.set t th')[e.tid]? = some th'
          rw [het]; exact List.getElem?_set_self htl
        · rw [hdone, hcur, hinv]; exact hor
      · refine ⟨the, ?_, hor⟩
        show (c.threads.set t th')[e.tid]? = some the
        rw [List.getElem?_set_ne (Ne.symm het)]; exact hget

/-- the operation of an idle thread: nothing of it is in the log yet -/
theorem notLind_of_idle {s₀ : XState} {c : Config} {t : Nat} {th : Thread} (h : Inv s₀ c)
    (hth : c.threads[t]? = some th) (hc : th.cur = none) : NotLind c.log t th.done.length := by
  intro e he ⟨h1, h2⟩
  obtain ⟨the, hget, hor⟩ := h.sound e he
  rw [h1, hth] at hget
  cases hget
  rcases hor with ⟨r, hr, hri, _⟩ | ⟨_, hcur, _⟩
  · have := ((h.thr t th hth).done_ok r hr).idx
    rw [hri, h2] at this
    exact Nat.lt_irrefl _ this
  · rw [hc] at hcur; cases hcur

theorem inv_invoke {s₀ : XState} {c : Config} {t : Nat} {th : Thread} {op : XOp} {more : List XOp} (h : Inv s₀ c)
    (hth : c.threads[t]? = some th) (hc : th.cur = none) :
    Inv s₀ (c.put t { th with todo := more, cur := some op, code := Gen.prog (methodOf op),
                              ptr := none, ret := none, inv := c.clock }) := by
  have htl := lt_length_of_getElem? hth
  have tok := h.thr t th hth
  have hn := notLind_of_idle h hth hc
  have hheld : th.held = [] := by
    cases tok.phase with
    | idle _ _ hheld => exact hheld
    | _ => simp_all
  refine ⟨h.state_eq, h.legal, fun e he => Nat.lt_succ_of_lt (h.stamps e he), h.sorted, h.nodup, ?_, ?_, ?_⟩
  · intro t' th'' hget
    rcases getElem?_set_some hget with ⟨rfl, rfl, _⟩ | ⟨hne, hget'⟩
    · refine ⟨?_, fun _ => Nat.lt_succ_self _, ?_, tok.done_idx⟩
      · rcases simpleOp_fetch_or op with ⟨now, k, rfl⟩ | ⟨m, a, hs⟩
        · exact .f0 now k rfl (prog_fetch now k) hheld hn
        · exact .s0 op m a hs rfl (prog_simple hs) hheld hn
      · intro r hr
        exact (tok.done_ok r hr).mono (Nat.le_succ _) (fun _ he => he) (Nat.le_refl _)
    · exact (h.thr t' th'' hget').frame (Or.inl rfl) (fun _ he => he) (fun e he hne' => absurd he hne') (Nat.le_succ _)
  · intro i j thi thj hij hi hj a ha b hb
    rcases getElem?_set_some hi with ⟨rfl, rfl, _⟩ | ⟨hnei, hi'⟩
    · rw [show ({ th with todo := more, cur := some op, code := Gen.prog (methodOf op), ptr := none, ret := none, inv := c.clock } : Thread).held = th.held from rfl, hheld] at ha
      cases ha
    · rcases getElem?_set_some hj with ⟨rfl, rfl, _⟩ | ⟨_, hj'⟩
      · rw [show ({ th with todo := more, cur := some op, code := Gen.prog (methodOf op), ptr := none, ret := none, inv := c.clock } : Thread).held = th.held from rfl, hheld] at hb
        cases hb
      · exact h.compat i j thi thj hij hi' hj' a ha b hb
  · intro e he
    obtain ⟨the, hget, hor⟩ := h.sound e he
    by_cases het : e.tid = t
    · rw [het, hth] at hget
      cases hget
      refine ⟨{ th with todo := more, cur := some op, code := Gen.prog (methodOf op), ptr := none, ret := none, inv := c.clock }, ?_, ?_⟩
      · show (c.threads.set t _)[e.tid]? = some _
        rw [het]; exact List.getElem?_set_self htl
      · rcases hor with hor | ⟨_, hcur, _⟩
        · exact Or.inl hor
        · rw [hc] at hcur; cases hcur
    · refine ⟨the, ?_, hor⟩
      show (c.threads.set t _)[e.tid]? = some the
      rw [List.getElem?_set_ne (Ne.symm het)]; exact hget

theorem inv_respond {s₀ : XState} {c : Config} {t : Nat} {th : Thread} {op : XOp} (h : Inv s₀ c)
    (hth : c.threads[t]? = some th) (hc : th.cur = some op) (hcode : th.code = []) :
    Inv s₀ (c.put t { th with
      cur := none
      done := ⟨t, th.done.length, op, th.inv, some (c.clock, th.ret.getD .undefined)⟩ :: th.done }) := by
  have htl := lt_length_of_getElem? hth
  have tok := h.thr t th hth
  obtain ⟨out, hheld, hret, hlin⟩ : ∃ out, th.held = [] ∧ th.ret = some (.ok out) ∧ Lind c.log t th.done.length op out th.inv := by
    cases tok.phase with
    | fin op' out hc' _ hheld hret hlin =>
      rw [hc] at hc'; cases hc'
      exact ⟨out, hheld, hret, hlin⟩
    | _ => simp_all
  refine ⟨h.state_eq, h.legal, fun e he => Nat.lt_succ_of_lt (h.stamps e he), h.sorted, h.nodup, ?_, ?_, ?_⟩
  · intro t' th'' hget
    rcases getElem?_set_some hget with ⟨rfl, rfl, _⟩ | ⟨hne, hget'⟩
    · refine ⟨.idle rfl hcode hheld, fun hcn => absurd rfl hcn, ?_, ?_⟩
      · intro r hr
        rcases List.mem_cons.mp hr with rfl | hr'
        · obtain ⟨e, he, h1, h2, h3, h4, h5⟩ := hlin
          refine ⟨rfl, Nat.lt_succ_self _, e, he, h1, h2, h3, c.clock, ?_, h5, h.stamps e he, Nat.lt_succ_self _⟩
          show some (c.clock, th.ret.getD .undefined) = some (c.clock, .ok e.out)
          rw [hret, h4]; rfl
        · exact (tok.done_ok r hr').mono (Nat.le_succ _) (fun _ he => he) (Nat.le_succ _)
      · exact List.pairwise_cons.mpr ⟨fun r hr => (tok.done_ok r hr).idx, tok.done_idx⟩
    · exact (h.thr t' th'' hget').frame (Or.inl rfl) (fun _ he => he) (fun e he hne' => absurd he hne') (Nat.le_succ _)
  · intro i j thi thj hij hi hj a ha b hb
    rcases getElem?_set_some hi with ⟨rfl, rfl, _⟩ | ⟨hnei, hi'⟩
    · rw [show ({ th with cur := none, done := ⟨t, th.done.length, op, th.inv, some (c.clock, th.ret.getD .undefined)⟩ :: th.done } : Thread).held = th.held from rfl, hheld] at ha
      cases ha
    · rcases getElem?_set_some hj with ⟨rfl, rfl, _⟩ | ⟨_, hj'⟩
      · rw [show ({ th with cur := none, done := ⟨t, th.done.length, op, th.inv, some (c.clock, th.ret.getD .undefined)⟩ :: th.done } : Thread).held = th.held from rfl, hheld] at hb
        cases hb
      · exact h.compat i j thi thj hij hi' hj' a ha b hb
  · intro e he
    obtain ⟨the, hget, hor⟩ := h.sound e he
    by_cases het : e.tid = t
    · rw [het, hth] at hget
      cases hget
      refine ⟨{ th with cur := none, done := ⟨t, th.done.length, op, th.inv, some (c.clock, th.ret.getD .undefined)⟩ :: th.done }, ?_, Or.inl ?_⟩
      · show (c.threads.set t _)[e.tid]? = some _
        rw [het]; exact List.getElem?_set_self htl
      · rcases hor with ⟨r, hr, h1, h2⟩ | ⟨h1, hcur, _⟩
        · exact ⟨r, List.mem_cons_of_mem _ hr, h1, h2⟩
        · rw [hc] at hcur
          cases hcur
          exact ⟨_, List.mem_cons_self, h1.symm, rfl⟩
    · refine ⟨the, ?_, hor⟩
      show (c.threads.set t _)[e.tid]? = some the
      rw [List.getElem?_set_ne (Ne.symm het)]; exact hget

end Cppcms.C09

namespace Cppcms.C09
open Cppcms Cppcms.C07

theorem canAcq_spec {c : Config} {l : LockId} {m : Mode} (h : canAcq c l m = true) {j : Nat} {thj : Thread}
    (hj : c.threads[j]? = some thj) : ∀ b ∈ thj.held, conflict (l, m) b = false := by
  intro b hb
  have hmem : thj ∈ c.threads := List.mem_of_getElem? hj
  have h1 := List.all_eq_true.mp h thj hmem
  have h2 := List.all_eq_true.mp h1 b hb
  simpa using h2

theorem execAct_lookup_none {c : Config} {t : Nat} {th : Thread} {now : Time} {k : Key} {rest : List Instr}
    (h : alookup k c.s.cache.primary = none) :
    execAct c t th (.cache (.fetch now k)) .lookup rest =
      linStep c t th (.cache (.fetch now k)) { th with code := th.held.map fun g => .rel g.1, ret := some (.ok (.cache .miss)) } := by
  simp only [execAct, h, linStep, Config.put, step_fetch_none h]

theorem execAct_lookup_expired {c : Config} {t : Nat} {th : Thread} {now : Time} {k : Key} {rest : List Instr}
    {cont : Container} (h : alookup k c.s.cache.primary = some cont) (he : C07.Gen.fetchExpired cont.deadline now = true) :
    execAct c t th (.cache (.fetch now k)) .lookup rest =
      linStep c t th (.cache (.fetch now k)) { th with code := th.held.map fun g => .rel g.1, ret := some (.ok (.cache .miss)) } := by
  simp only [execAct, h, he, linStep, Config.put, step_fetch_expired h he, if_true]

theorem execAct_lookup_live {c : Config} {t : Nat} {th : Thread} {now : Time} {k : Key} {rest : List Instr}
    {cont : Container} (h : alookup k c.s.cache.primary = some cont) (he : C07.Gen.fetchExpired cont.deadline now = false) :
    execAct c t th (.cache (.fetch now k)) .lookup rest = c.put t { th with code := rest, ptr := some k } := by
  simp [execAct, h, he]

theorem execAct_splice {c : Config} {t : Nat} {th : Thread} {now : Time} {k : Key} {rest : List Instr}
    {cont : Container} (hp : th.ptr = some k) (h : alookup k c.s.cache.primary = some cont)
    (he : C07.Gen.fetchExpired cont.deadline now = false) :
    execAct c t th (.cache (.fetch now k)) .splice rest = linStep c t th (.cache (.fetch now k)) { th with code := rest } := by
  simp only [execAct, hp, linStep, Config.put, step_fetch_live h he]

theorem execAct_copyOut {c : Config} {t : Nat} {th : Thread} {now : Time} {k : Key} {rest : List Instr}
    {cont : Container} (hp : th.ptr = some k) (h : alookup k c.s.cache.primary = some cont) :
    execAct c t th (.cache (.fetch now k)) .copyOut rest =
      c.put t { th with code := rest, ret := some (.ok (.cache (.hit cont.data cont.trigs cont.deadline cont.gen))) } := by
  simp [execAct, hp, h]

theorem simpleOp_shared_state {op : XOp} {a : Action} (h : simpleOp op = some (.shared, a)) (s : XState) :
    (xstep s op).1 = s := by
  rcases op with (op | _ | _)
  · cases op <;> simp [simpleOp] at h
    rfl
  · simp [simpleOp] at h
  · simp [simpleOp] at h

theorem Lind_hook {c : Config} {t : Nat} {th : Thread} {op : XOp} (hinv : th.inv < c.clock) :
    Lind (c.hook t th op) t th.done.length op (xstep c.s op).2 th.inv :=
  ⟨_, List.mem_cons_self, rfl, rfl, rfl, rfl, hinv⟩

end Cppcms.C09
