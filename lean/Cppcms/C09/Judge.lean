import Cppcms.C09.Spec
/-!
# C09 — the executable judge is the property predicate

`checkLin s₀ recs order = none ↔ LinearizedBy s₀ recs order`: what the driver evaluates on the
histories recorded from the real code is exactly the predicate the theorems are about.
-/
namespace Cppcms.C09
open Cppcms Cppcms.C07

theorem nodupB_iff {α : Type} [BEq α] [LawfulBEq α] (l : List α) : nodupB l = true ↔ l.Nodup := by
  induction l with
  | nil => simp [nodupB]
  | cons a l ih => simp [nodupB, ih, List.nodup_cons]

theorem pairwiseB_iff {α : Type} (r : α → α → Bool) (R : α → α → Prop) (h : ∀ a b, r a b = true ↔ R a b)
    (l : List α) : pairwiseB r l = true ↔ l.Pairwise R := by
  induction l with
  | nil => simp [pairwiseB]
  | cons a l ih => simp [pairwiseB, ih, List.pairwise_cons, h]

theorem completeInB_iff (order : List Lin) (r : Rec) : completeInB order r = true ↔ CompleteIn order r := by
  unfold completeInB CompleteIn
  cases r.resp with
  | none => simp
  | some p =>
    obtain ⟨t, ret⟩ := p
    simp only [List.any_eq_true, Bool.and_eq_true, beq_iff_eq]
    constructor
    · rintro ⟨e, he, ⟨⟨⟨h1, h2⟩, h3⟩, h4⟩⟩
      exact ⟨e, he, h1, h2, h3, h4⟩
    · rintro ⟨e, he, h1, h2, h3, h4⟩
      exact ⟨e, he, ⟨⟨⟨h1, h2⟩, h3⟩, h4⟩⟩

theorem realTimeOkB_iff (recs : List Rec) (a b : Lin) : realTimeOkB recs a b = true ↔ RealTimeOk recs a b := by
  unfold realTimeOkB RealTimeOk
  simp only [List.all_eq_true, List.mem_filter, Bool.and_eq_true, beq_iff_eq, and_imp]
  constructor
  · intro h ra hra rb hrb h1 h2 h3 h4
    have := h ra hra h1 h2 rb hrb h3 h4
    cases hresp : rb.resp with
    | none => trivial
    | some p =>
      obtain ⟨t, ret⟩ := p
      rw [hresp] at this
      simpa using this
  · intro h ra hra h1 h2 rb hrb h3 h4
    have := h ra hra rb hrb h1 h2 h3 h4
    cases hresp : rb.resp with
    | none => rfl
    | some p =>
      obtain ⟨t, ret⟩ := p
      rw [hresp] at this
      simpa using this

theorem checkLin_iff (s₀ : XState) (recs : List Rec) (order : List Lin) :
    checkLin s₀ recs order = none ↔ LinearizedBy s₀ recs order := by
  unfold checkLin
  constructor
  · intro h
    split at h
    · cases h
    · rename_i h1
      split at h
      · cases h
      · rename_i h2
        split at h
        · cases h
        · rename_i h3
          split at h
          · cases h
          · rename_i h4
            split at h
            · cases h
            · rename_i h5
              refine ⟨?_, ?_, ?_, ?_, ?_⟩
              · exact (nodupB_iff _).mp (by simpa using h1)
              · intro r hr
                have := List.all_eq_true.mp (by simpa using h2) r hr
                exact (completeInB_iff order r).mp this
              · intro e he
                have h3' : ∀ e ∈ order, ∃ r ∈ recs, r.tid = e.tid ∧ r.idx = e.idx ∧ r.op = e.op := by
                  simpa using h3
                exact h3' e he
              · simpa using h4
              · exact (pairwiseB_iff _ _ (realTimeOkB_iff recs) order).mp (by simpa using h5)
  · intro h
    have h1 : nodupB (order.map fun e => (e.tid, e.idx)) = true := (nodupB_iff _).mpr h.nodup
    have h2 : recs.all (completeInB order) = true :=
      List.all_eq_true.mpr fun r hr => (completeInB_iff order r).mpr (h.complete r hr)
    have h3 : order.all (fun e => recs.any fun r => r.tid == e.tid && r.idx == e.idx && r.op == e.op) = true := by
      refine List.all_eq_true.mpr fun e he => ?_
      obtain ⟨r, hr, a1, a2, a3⟩ := h.sound e he
      simp only [List.any_eq_true, Bool.and_eq_true, beq_iff_eq]
      exact ⟨r, hr, ⟨a1, a2⟩, a3⟩
    have h4 : (seqOuts s₀ (order.map (·.op)) != order.map (·.out)) = false := by simp [h.legal]
    have h5 : pairwiseB (realTimeOkB recs) order = true :=
      (pairwiseB_iff _ _ (realTimeOkB_iff recs) order).mpr h.realtime
    simp [h1, h2, h3, h4, h5]

end Cppcms.C09
