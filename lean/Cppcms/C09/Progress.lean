import Cppcms.C09.Reach
/-!
# C09 — progress: no deadlock, every step decreases a measure, every operation completes
-/
namespace Cppcms.C09
open Cppcms Cppcms.C07

/-- the thread can move whatever the others hold: it is about to invoke, respond, release or
run a segment -/
def Ready (th : Thread) : Prop :=
  (th.cur = none ∧ th.todo ≠ []) ∨ (th.cur ≠ none ∧ ∀ l m rest, th.code ≠ .acq l m :: rest)

theorem step_ready {c : Config} {t : Nat} {th : Thread} (hth : c.threads[t]? = some th) (hr : Ready th) :
    ∃ c', stepThread c t = some c' := by
  unfold stepThread
  rw [hth]
  rcases hr with ⟨hc, htodo⟩ | ⟨hc, hcode⟩
  · simp only [hc]
    cases h : th.todo with
    | nil => exact absurd h htodo
    | cons op more => exact ⟨_, rfl⟩
  · cases hcur : th.cur with
    | none => exact absurd hcur hc
    | some op =>
      cases hcd : th.code with
      | nil => simp only [hcur, hcd]; exact ⟨_, rfl⟩
      | cons i rest =>
        cases i with
        | acq l m => exact absurd hcd (hcode l m rest)
        | rel l => simp only [hcur, hcd]; exact ⟨_, rfl⟩
        | act a => simp only [hcur, hcd]; exact ⟨_, rfl⟩

theorem step_acq {c : Config} {t : Nat} {th : Thread} {op : XOp} {l : LockId} {m : Mode} {rest : List Instr}
    (hth : c.threads[t]? = some th) (hc : th.cur = some op) (hcode : th.code = .acq l m :: rest)
    (hacq : canAcq c l m = true) : ∃ c', stepThread c t = some c' := by
  unfold stepThread
  rw [hth]
  simp only [hc, hcode, hacq, if_true]
  exact ⟨_, rfl⟩

theorem canAcq_of {c : Config} {l : LockId} {m : Mode}
    (h : ∀ th ∈ c.threads, ∀ g ∈ th.held, conflict (l, m) g = false) : canAcq c l m = true := by
  unfold canAcq
  refine List.all_eq_true.mpr fun th hth => List.all_eq_true.mpr fun g hg => ?_
  simp [h th hth g hg]

/-- a thread that is not `Ready` is finished, or waits for `access_lock` holding nothing, or waits
for `lru_mutex` holding the shared lock -/
theorem Phase.classify {s : XState} {log : List Lin} {t : Nat} {th : Thread} (h : Phase s log t th) :
    Ready th ∨ (th.finished = true ∧ th.held = []) ∨
    (th.held = [] ∧ th.cur ≠ none ∧ ∃ m rest, th.code = .acq .access m :: rest) ∨
    (th.held = [(.access, .shared)] ∧ th.cur ≠ none ∧ ∃ rest, th.code = .acq .lru .exclusive :: rest) := by
  cases h with
  | idle hc hcode hheld =>
    by_cases ht : th.todo = []
    · exact Or.inr (Or.inl ⟨by simp [Thread.finished, hc, ht], hheld⟩)
    · exact Or.inl (Or.inl ⟨hc, ht⟩)
  | f0 now k hc hcode hheld hn => exact Or.inr (Or.inr (Or.inl ⟨hheld, by simp [hc], _, _, hcode⟩))
  | f1 now k hc hcode hheld hn => exact Or.inl (Or.inr ⟨by simp [hc], by simp [hcode]⟩)
  | f2 now k out hc hcode hheld hp hl hn => exact Or.inr (Or.inr (Or.inr ⟨hheld, by simp [hc], _, hcode⟩))
  | f3 now k out hc hcode hheld hp hl hn => exact Or.inl (Or.inr ⟨by simp [hc], by simp [hcode]⟩)
  | f4 now k out hc hcode hheld hp hl hlin => exact Or.inl (Or.inr ⟨by simp [hc], by simp [hcode]⟩)
  | f5 now k out hc hcode hheld hp hl hlin => exact Or.inl (Or.inr ⟨by simp [hc], by simp [hcode]⟩)
  | s0 op m a hs hc hcode hheld hn => exact Or.inr (Or.inr (Or.inl ⟨hheld, by simp [hc], _, _, hcode⟩))
  | s1 op m a hs hc hcode hheld hn => exact Or.inl (Or.inr ⟨by simp [hc], by simp [hcode]⟩)
  | rel1 op m out hc hcode hheld hret hlin => exact Or.inl (Or.inr ⟨by simp [hc], by simp [hcode]⟩)
  | fin op out hc hcode hheld hret hlin => exact Or.inl (Or.inr ⟨by simp [hc], by simp [hcode]⟩)

theorem deadlock_free_of_inv {s₀ : XState} {c : Config} (h : Inv s₀ c) (hnd : c.allDone = false) :
    ∃ t c', stepThread c t = some c' := by
  have cls : ∀ t th, c.threads[t]? = some th → _ := fun t th hget => (h.thr t th hget).phase.classify
  -- an unfinished thread
  obtain ⟨t₀, th₀, hget₀, hunf⟩ : ∃ (t : Nat) (th : Thread), c.threads[t]? = some th ∧ th.finished = false := by
    unfold Config.allDone at hnd
    have : ¬ ∀ th ∈ c.threads, th.finished = true := fun hall => by
      rw [List.all_eq_true.mpr hall] at hnd; cases hnd
    have : ∃ th ∈ c.threads, th.finished = false := by
      by_cases hex : ∃ th ∈ c.threads, th.finished = false
      · exact hex
      · exact absurd (fun th hth => by
          cases hf : th.finished with
          | true => rfl
          | false => exact absurd ⟨th, hth, hf⟩ hex) this
    obtain ⟨th, hth, hf⟩ := this
    obtain ⟨t, hget⟩ := List.getElem?_of_mem hth
    exact ⟨t, th, hget, hf⟩
  by_cases hready : ∃ (t : Nat) (th : Thread), c.threads[t]? = some th ∧ Ready th
  · obtain ⟨t, th, hget, hr⟩ := hready
    obtain ⟨c', hc'⟩ := step_ready hget hr
    exact ⟨t, c', hc'⟩
  · -- nobody is ready: nobody holds lru_mutex
    have nolru : ∀ th ∈ c.threads, ∀ g ∈ th.held, g = (LockId.access, Mode.shared) := by
      intro th hth g hg
      obtain ⟨t, hget⟩ := List.getElem?_of_mem hth
      rcases cls t th hget with hr | ⟨_, hh⟩ | ⟨hh, _⟩ | ⟨hh, _⟩
      · exact absurd ⟨t, th, hget, hr⟩ hready
      · rw [hh] at hg; cases hg
      · rw [hh] at hg; cases hg
      · rw [hh] at hg; simpa using hg
    by_cases hwl : ∃ (t : Nat) (th : Thread), c.threads[t]? = some th ∧ th.cur ≠ none ∧ ∃ rest, th.code = .acq .lru .exclusive :: rest
    · obtain ⟨t, th, hget, hc, rest, hcode⟩ := hwl
      obtain ⟨op, hop⟩ := Option.ne_none_iff_exists'.mp hc
      have hacq : canAcq c .lru .exclusive = true := canAcq_of fun th' hth' g hg => by
        rw [nolru th' hth' g hg]; rfl
      obtain ⟨c', hc'⟩ := step_acq hget hop hcode hacq
      exact ⟨t, c', hc'⟩
    · -- nobody holds anything
      have nothing : ∀ th ∈ c.threads, th.held = [] := by
        intro th hth
        obtain ⟨t, hget⟩ := List.getElem?_of_mem hth
        rcases cls t th hget with hr | ⟨_, hh⟩ | ⟨hh, _⟩ | ⟨_, hc, rest, hcode⟩
        · exact absurd ⟨t, th, hget, hr⟩ hready
        · exact hh
        · exact hh
        · exact absurd ⟨t, th, hget, hc, rest, hcode⟩ hwl
      rcases cls t₀ th₀ hget₀ with hr | ⟨hf, _⟩ | ⟨_, hc, m, rest, hcode⟩ | ⟨_, hc, rest, hcode⟩
      · exact absurd ⟨t₀, th₀, hget₀, hr⟩ hready
      · rw [hf] at hunf; cases hunf
      · obtain ⟨op, hop⟩ := Option.ne_none_iff_exists'.mp hc
        have hacq : canAcq c .access m = true := canAcq_of fun th' hth' g hg => by
          rw [nothing th' hth'] at hg; cases hg
        obtain ⟨c', hc'⟩ := step_acq hget₀ hop hcode hacq
        exact ⟨t₀, c', hc'⟩
      · exact absurd ⟨t₀, th₀, hget₀, hc, rest, hcode⟩ hwl

end Cppcms.C09

namespace Cppcms.C09
open Cppcms Cppcms.C07

/-! ### a measure that every effective step decreases -/

def opCost (op : XOp) : Nat := (Gen.prog (methodOf op)).length + 2

def Thread.measure (th : Thread) : Nat :=
  (th.todo.map opCost).sum + (if th.cur.isSome then th.code.length + 1 else 0)

def Config.measure (c : Config) : Nat := (c.threads.map Thread.measure).sum

theorem sum_set_lt {l : List Thread} {t : Nat} {th th' : Thread} (hget : l[t]? = some th)
    (hlt : th'.measure < th.measure) :
    ((l.set t th').map Thread.measure).sum < (l.map Thread.measure).sum := by
  induction l generalizing t with
  | nil => simp at hget
  | cons x xs ih =>
    cases t with
    | zero =>
      simp only [List.getElem?_cons_zero, Option.some.injEq] at hget
      subst hget
      simp only [List.set_cons_zero, List.map_cons, List.sum_cons]
      omega
    | succ t =>
      simp only [List.getElem?_cons_succ] at hget
      simp only [List.set_cons_succ, List.map_cons, List.sum_cons]
      have := ih hget
      omega

theorem measure_put {c : Config} {t : Nat} {th th' : Thread} (hget : c.threads[t]? = some th)
    (hlt : th'.measure < th.measure) : (c.put t th').measure < c.measure := sum_set_lt hget hlt

theorem measure_lin {c : Config} {t : Nat} {th th' : Thread} {op : XOp} (hget : c.threads[t]? = some th)
    (hlt : th'.measure < th.measure) : (linStep c t th op th').measure < c.measure := sum_set_lt hget hlt

theorem measure_step {s₀ : XState} {c c' : Config} {t : Nat} (h : Inv s₀ c) (hs : stepThread c t = some c') :
    c'.measure < c.measure := by
  unfold stepThread at hs
  cases hth : c.threads[t]? with
  | none => simp [hth] at hs
  | some th =>
    have tok := h.thr t th hth
    cases tok.phase with
    | idle hc hcode hheld =>
      simp only [hth, hc] at hs
      cases htodo : th.todo with
      | nil => simp [htodo] at hs
      | cons op more =>
        simp only [htodo, Option.some.injEq] at hs
        subst hs
        exact measure_put hth (by simp [Thread.measure, hc, htodo, opCost]; omega)
    | f0 now k hc hcode hheld hn =>
      simp only [hth, hc, hcode] at hs
      by_cases hacq : canAcq c .access .shared = true
      · simp only [hacq, if_true, Option.some.injEq] at hs
        subst hs
        exact measure_put hth (by simp [Thread.measure, hc, hcode])
      · simp [hacq] at hs
    | f1 now k hc hcode hheld hn =>
      simp only [hth, hc, hcode, Option.some.injEq] at hs
      subst hs
      cases hlk : alookup k c.s.cache.primary with
      | none =>
        rw [execAct_lookup_none hlk]
        exact measure_lin hth (by simp [Thread.measure, hc, hcode, hheld])
      | some cont =>
        cases hex : C07.Gen.fetchExpired cont.deadline now with
        | true =>
          rw [execAct_lookup_expired hlk hex]
          exact measure_lin hth (by simp [Thread.measure, hc, hcode, hheld])
        | false =>
          rw [execAct_lookup_live hlk hex]
          exact measure_put hth (by simp [Thread.measure, hc, hcode])
    | f2 now k out hc hcode hheld hp hl hn =>
      simp only [hth, hc, hcode] at hs
      by_cases hacq : canAcq c .lru .exclusive = true
      · simp only [hacq, if_true, Option.some.injEq] at hs
        subst hs
        exact measure_put hth (by simp [Thread.measure, hc, hcode])
      · simp [hacq] at hs
    | f3 now k out hc hcode hheld hp hl hn =>
      simp only [hth, hc, hcode, Option.some.injEq] at hs
      subst hs
      obtain ⟨cont, hlk, hex, rfl⟩ := hl
      rw [execAct_splice hp hlk hex]
      exact measure_lin hth (by simp [Thread.measure, hc, hcode])
    | f4 now k out hc hcode hheld hp hl hlin =>
      simp only [hth, hc, hcode, Option.some.injEq] at hs
      subst hs
      exact measure_put hth (by simp [Thread.measure, hc, hcode])
    | f5 now k out hc hcode hheld hp hl hlin =>
      simp only [hth, hc, hcode, Option.some.injEq] at hs
      subst hs
      obtain ⟨cont, hlk, hex, rfl⟩ := hl
      rw [execAct_copyOut hp hlk]
      exact measure_put hth (by simp [Thread.measure, hc, hcode])
    | s0 op m a hsimple hc hcode hheld hn =>
      simp only [hth, hc, hcode] at hs
      by_cases hacq : canAcq c .access m = true
      · simp only [hacq, if_true, Option.some.injEq] at hs
        subst hs
        exact measure_put hth (by simp [Thread.measure, hc, hcode])
      · simp [hacq] at hs
    | s1 op m a hsimple hc hcode hheld hn =>
      simp only [hth, hc, hcode, Option.some.injEq] at hs
      subst hs
      rw [execAct_simple hsimple]
      exact measure_lin hth (by simp [Thread.measure, hc, hcode])
    | rel1 op m out hc hcode hheld hret hlin =>
      simp only [hth, hc, hcode, Option.some.injEq] at hs
      subst hs
      exact measure_put hth (by simp [Thread.measure, hc, hcode])
    | fin op out hc hcode hheld hret hlin =>
      simp only [hth, hc, hcode, Option.some.injEq] at hs
      subst hs
      exact measure_put hth (by simp [Thread.measure, hc, hcode])

/-- from every configuration satisfying the invariant some schedule completes every operation -/
theorem completes_of_inv {s₀ : XState} (n : Nat) : ∀ c : Config, Inv s₀ c → c.measure ≤ n →
    ∃ sched, (run c sched).allDone = true := by
  induction n with
  | zero =>
    intro c h hm
    cases hd : c.allDone with
    | true => exact ⟨[], hd⟩
    | false =>
      obtain ⟨t, c', hs⟩ := deadlock_free_of_inv h hd
      have := measure_step h hs
      omega
  | succ n ih =>
    intro c h hm
    cases hd : c.allDone with
    | true => exact ⟨[], hd⟩
    | false =>
      obtain ⟨t, c', hs⟩ := deadlock_free_of_inv h hd
      have hlt := measure_step h hs
      obtain ⟨sched, hdone⟩ := ih c' (inv_step h hs) (by omega)
      refine ⟨t :: sched, ?_⟩
      show (run (sched1 c t) sched).allDone = true
      rw [show sched1 c t = c' by simp [sched1, hs]]
      exact hdone

end Cppcms.C09
