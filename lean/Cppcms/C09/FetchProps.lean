import Cppcms.C09.Props
import Cppcms.C07.Props
/-!
# C09 — what a fetch can return (corollaries of `linearizable` through C07's theorems)

In a module of their own because they are the only part of C09 that depends on `Cppcms.C07.Props`.
-/
namespace Cppcms.C09.Props
open Cppcms Cppcms.C07 Cppcms.C09

/-- the cache operations among a list of operations (`add_ref`/`del_ref` do not touch the cache) -/
def cacheOp : XOp → Option Op
  | .cache op => some op
  | _ => none

theorem xrun_cache (s : XState) (ops : List XOp) :
    (xrun s ops).cache = C07.run s.cache (ops.filterMap cacheOp) := by
  induction ops generalizing s with
  | nil => rfl
  | cons o os ih =>
    have h1 : xrun s (o :: os) = xrun (xstep s o).1 os := rfl
    rw [h1, ih]
    cases o with
    | cache op => simp [cacheOp, xstep, C07.run]
    | addRef => simp only [xstep]; rfl
    | delRef => simp only [xstep]; rfl

theorem filterMap_eq_append_cons {α β : Type} (f : α → Option β) :
    ∀ (l : List α) (a : List β) (x : β) (b : List β), l.filterMap f = a ++ x :: b →
      ∃ l₁ e l₂, l = l₁ ++ e :: l₂ ∧ f e = some x ∧ l₁.filterMap f = a ∧ l₂.filterMap f = b := by
  intro l
  induction l with
  | nil => intro a x b h; cases a <;> simp at h
  | cons y ys ih =>
    intro a x b h
    cases hy : f y with
    | none =>
      rw [List.filterMap_cons_none hy] at h
      obtain ⟨l₁, e, l₂, h1, h2, h3, h4⟩ := ih a x b h
      exact ⟨y :: l₁, e, l₂, by rw [h1]; rfl, h2, by rw [List.filterMap_cons_none hy, h3], h4⟩
    | some z =>
      rw [List.filterMap_cons_some hy] at h
      cases a with
      | nil =>
        simp only [List.nil_append, List.cons.injEq] at h
        exact ⟨[], y, ys, rfl, by rw [hy, h.1], rfl, h.2⟩
      | cons a₀ as =>
        simp only [List.cons_append, List.cons.injEq] at h
        obtain ⟨l₁, e, l₂, h1, h2, h3, h4⟩ := ih as x b h.2
        exact ⟨y :: l₁, e, l₂, by rw [h1]; rfl, h2, by rw [List.filterMap_cons_some hy, h3, h.1], h4⟩

/-- **No torn value, no value of another key, nothing stale.**  A completed `fetch now k` that
returned a hit `(v, trg, d, g)` on a cache started empty (any reference count): the linearization
is `P₁ ++ store :: P₂ ++ fetch :: post` where `store` is a store of *that key* with exactly that
value and deadline, with trigger set `trg` (the given triggers plus the key), stamped `g`, and no
cache operation in `P₂` stores or removes `k`, clears, or raises a member of `trg`; and the
deadline had not passed. -/
theorem fetch_hit_is_latest_store (limit : Nat) (refs₀ : Int) (progs : List (List XOp)) (sched : List Nat)
    (r : Rec) (hr : r ∈ (run (Config.init ⟨State.init limit, refs₀⟩ progs) sched).history)
    (now : Time) (k : Key) (hop : r.op = .cache (.fetch now k))
    (tr : Nat) (v : Val) (trg : List Key) (d : Time) (g : Gen)
    (hresp : r.resp = some (tr, .ok (.cache (.hit v trg d g)))) :
    ∃ P₁ es P₂ ef post,
      (run (Config.init ⟨State.init limit, refs₀⟩ progs) sched).order = P₁ ++ es :: (P₂ ++ ef :: post) ∧
      ef.tid = r.tid ∧ ef.idx = r.idx ∧
      ∃ now₀ trigs gen env,
        es.op = .cache (Op.store now₀ k v trigs d gen env) ∧
        trg = ownTrigs k trigs ∧
        stamp (xrun ⟨State.init limit, refs₀⟩ (P₁.map (·.op))).cache (Op.store now₀ k v trigs d gen env) = some g ∧
        (∀ e ∈ P₂, ∀ op, e.op = .cache op → op.invalidates k trg = false) ∧ ¬ d < now := by
  have lin := (linearizable ⟨State.init limit, refs₀⟩ progs sched).1
  have hc := lin.complete r hr
  unfold CompleteIn at hc
  rw [hresp] at hc
  obtain ⟨e, he, h1, h2, h3, h4⟩ := hc
  obtain ⟨pre, post, hsplit⟩ := List.append_of_mem he
  have legal := lin.legal
  rw [hsplit] at legal
  have hans := answer_at legal
  rw [h3, hop] at hans
  have hout : e.out = .cache (.hit v trg d g) := by
    injection h4 with h4
    exact h4.symm
  rw [hout] at hans
  have hans' : (C07.step (xrun ⟨State.init limit, refs₀⟩ (pre.map (·.op))).cache (.fetch now k)).2 = .hit v trg d g := by
    simp only [xstep] at hans
    injection hans
  rw [xrun_cache] at hans'
  obtain ⟨pre', post', now₀, trigs, gen, env, e1, e2, e3, e4, e5⟩ :=
    C07.Props.fetch_returns_latest_store limit none ((pre.map (·.op)).filterMap cacheOp) now k v trg d g hans'
  rw [List.filterMap_map] at e1
  obtain ⟨P₁, es, P₂, hpre, hes, hP1, hP2⟩ := filterMap_eq_append_cons _ pre pre' _ post' e1
  have hesop : es.op = .cache (Op.store now₀ k v trigs d gen env) := by
    simp only [Function.comp] at hes
    cases hop' : es.op with
    | cache op => rw [hop'] at hes; simp only [cacheOp, Option.some.injEq] at hes; rw [hes]
    | addRef => rw [hop'] at hes; simp [cacheOp] at hes
    | delRef => rw [hop'] at hes; simp [cacheOp] at hes
  refine ⟨P₁, es, P₂, e, post, by rw [hsplit, hpre]; simp, h1, h2, now₀, trigs, gen, env, hesop, e2, ?_, ?_, e5⟩
  · rw [xrun_cache, List.filterMap_map, hP1]
    exact e3
  · intro e' he' op hop'
    apply e4
    rw [← hP2]
    exact List.mem_filterMap.mpr ⟨e', he', by simp [Function.comp, hop', cacheOp]⟩

/-- **No value whose trigger was raised before the fetch began.**  If a `rise t` responded before a
fetch was invoked, and the fetch hit with `t` among the returned triggers, then the value comes
from a `store` of that key (same value, deadline, trigger set) that had **not** responded before
that rise was invoked — i.e. the value was (re)stored concurrently with or after the rise; a
value stored before the rise began is never returned. -/
theorem no_value_after_trigger_rise (limit : Nat) (refs₀ : Int) (progs : List (List XOp)) (sched : List Nat)
    (rf rr : Rec)
    (hrf : rf ∈ (run (Config.init ⟨State.init limit, refs₀⟩ progs) sched).history)
    (hrr : rr ∈ (run (Config.init ⟨State.init limit, refs₀⟩ progs) sched).history)
    (now : Time) (k t : Key) (hopf : rf.op = .cache (.fetch now k)) (hopr : rr.op = .cache (.rise t))
    (trf trr : Nat) (v : Val) (trg : List Key) (d : Time) (g : Gen) (retr : Ret)
    (hrespf : rf.resp = some (trf, .ok (.cache (.hit v trg d g))))
    (hrespr : rr.resp = some (trr, retr))
    (ht : t ∈ trg) (hbefore : trr < rf.inv) :
    ∃ rs ∈ (run (Config.init ⟨State.init limit, refs₀⟩ progs) sched).history,
      (∃ now₀ trigs gen env, rs.op = .cache (Op.store now₀ k v trigs d gen env) ∧ trg = ownTrigs k trigs) ∧
      ∀ ts ret, rs.resp = some (ts, ret) → ¬ ts < rr.inv := by
  have lin := (linearizable ⟨State.init limit, refs₀⟩ progs sched).1
  obtain ⟨P₁, es, P₂, ef, post, hsplit, hf1, hf2, now₀, trigs, gen, env, hes, e2, _, e4, _⟩ :=
    fetch_hit_is_latest_store limit refs₀ progs sched rf hrf now k hopf trf v trg d g hrespf
  have hnd := lin.nodup
  have hrt := lin.realtime
  rw [hsplit] at hnd hrt
  -- the fetch's own entry is `ef` (ids are unique in the order)
  have hefop : ef.op = .cache (.fetch now k) := by
    have hc := lin.complete rf hrf
    unfold CompleteIn at hc
    rw [hrespf] at hc
    obtain ⟨e', he', h1, h2, h3, _⟩ := hc
    rw [hsplit] at he'
    have hkey : ∀ (l : List Lin), (l.map fun e => (e.tid, e.idx)).Nodup → e' ∈ l → ef ∈ l → e' = ef := by
      intro l
      induction l with
      | nil => intro _ h; cases h
      | cons x xs ih =>
        intro hn hx hx'
        rw [List.map_cons, List.nodup_cons] at hn
        rcases List.mem_cons.mp hx with heq | hin
        · rcases List.mem_cons.mp hx' with heq' | hin'
          · rw [heq, heq']
          · have hm : (ef.tid, ef.idx) ∈ xs.map (fun e => (e.tid, e.idx)) := List.mem_map.mpr ⟨ef, hin', rfl⟩
            rw [hf1, hf2, ← h1, ← h2, heq] at hm
            exact absurd hm hn.1
        · rcases List.mem_cons.mp hx' with heq' | hin'
          · have hm : (e'.tid, e'.idx) ∈ xs.map (fun e => (e.tid, e.idx)) := List.mem_map.mpr ⟨e', hin, rfl⟩
            rw [h1, h2, ← hf1, ← hf2, heq'] at hm
            exact absurd hm hn.1
          · exact ih hn.2 hin hin'
    have : e' = ef := hkey _ hnd he' (by simp)
    rw [← this, h3, hopf]
  -- the rise's entry
  have hcr := lin.complete rr hrr
  unfold CompleteIn at hcr
  rw [hrespr] at hcr
  obtain ⟨er, her, hr1, hr2, hr3, _⟩ := hcr
  rw [hsplit] at her
  have hrt2 := (List.pairwise_cons.mp (List.pairwise_append.mp hrt).2.1).2      -- within P₂ ++ ef :: post
  have her_P1 : er ∈ P₁ := by
    rcases List.mem_append.mp her with hin | hin
    · exact hin
    · exfalso
      rcases List.mem_cons.mp hin with heq | hin
      · rw [heq, hes, hopr] at hr3; cases hr3
      · rcases List.mem_append.mp hin with hin | hin
        · have := e4 er hin (.rise t) (by rw [hr3, hopr])
          simp [Op.invalidates, ht] at this
        · rcases List.mem_cons.mp hin with heq | hin'
          · rw [heq, hefop, hopr] at hr3; cases hr3
          · have hp := (List.pairwise_cons.mp (List.pairwise_append.mp hrt2).2.1).1 er hin'
            have := hp rf hrf rr hrr hf1.symm hf2.symm hr1.symm hr2.symm
            rw [hrespr] at this
            exact this hbefore
  -- the store's record
  obtain ⟨rs, hrs, hs1, hs2, hs3⟩ := lin.sound es (by rw [hsplit]; simp)
  refine ⟨rs, hrs, ⟨now₀, trigs, gen, env, by rw [hs3, hes], e2⟩, ?_⟩
  intro ts ret hresps
  have hp := (List.pairwise_append.mp hrt).2.2 er her_P1 es List.mem_cons_self
  have := hp rr hrr rs hrs hr1.symm hr2.symm hs1 hs2
  rw [hresps] at this
  exact this

end Cppcms.C09.Props
