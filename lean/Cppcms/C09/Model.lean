import Cppcms.Common
import Cppcms.C07.Model
import Cppcms.C09.Gen
import Cppcms.C09.Spec
/-!
# C09 — interleaving model of `mem_cache` used from several threads

Small-step semantics over the *concrete* cache state of C07 (`Cppcms.C07.State`: the four indexes
and the counters).  Every thread runs a program (a list of `C07.Op`).  An operation is executed as
the instruction list `Gen.prog (methodOf op)` — the guard skeleton **generated from the source**:

* `acq l m` — construction of a guard object: enabled iff no thread holds `l` in a conflicting
  way (`shared_mutex`: readers exclude writers, writers exclude everybody; `mutex`: one holder);
  a disabled thread does not move (the scheduler's choice of it is a no-op);
* `rel l`   — end of the guard's scope;
* `act a`   — one *atomic segment*: the statements between two lock operations.  Atomicity of a
  segment is justified by `Props.discipline_ok` (no two segments that may overlap in time touch
  the same field unless both only read it); it is an assumption of this model, observed on the
  real code by ThreadSanitizer only (partial claim, see design.d/C09.md).

Segments of `fetch now k` (the order is the generated one):
`lookup` reads `primary` (and the deadline): on a miss / expired entry the result is `miss` and
the function returns — RAII releases the guards held, modelled by replacing the remaining code
with `rel`s; otherwise the iterator `p` (= the key, as in C07) is kept in `ptr`.
`splice` moves `p`'s LRU node to the front (under `lru_mutex`).
`copyOut` reads *through the iterator at that moment*: value, triggers, deadline, generation of
whatever `primary` holds under `p` now; `undefined` when the element is gone.
Mutators (`store`, `rise`, `remove`, `clear`) have one segment `body` = the C07 step; `stats` one
segment `readStats`.  `add_ref`/`del_ref` (copying / dropping an `intrusive_ptr` handle) are operations
too: one segment `body` = `refs++` / `refs--; return refs==0` (`Spec.xstep`).

Instrumentation (models the `CPPCMS_VERIF_HOOKS` callback and the harness): a global `clock`
ticks at every step; an operation records the clock at its invocation (`inv`) and response;
the hook — at `lookup` on a miss, at `splice`, at `body`, at `readStats` (placement generated:
`Gen.hooks`) — appends the operation to the global `log` with the clock value.  The `out` field of
a log entry is a *ghost*: the answer of the sequential cache at that moment; nothing reads it, and
`Spec.LinearizedBy.legal`/`.complete` check it against `C07.step` and the real results.
-/
namespace Cppcms.C09
open Cppcms Cppcms.C07

def methodOf : XOp → Method
  | .cache (.fetch _ _) => .fetch
  | .cache (.store _ _ _ _ _ _ _) => .store
  | .cache (.rise _) => .rise
  | .cache (.remove _) => .remove
  | .cache .clear => .clear
  | .cache .stats => .stats
  | .addRef => .addRef
  | .delRef => .delRef

structure Thread where
  /-- operations not yet invoked -/
  todo : List XOp := []
  /-- the operation in flight -/
  cur : Option XOp := none
  /-- its remaining instructions -/
  code : List Instr := []
  /-- guard objects alive on this thread's stack, innermost first -/
  held : Held := []
  /-- fetch: the iterator `p` after a successful lookup -/
  ptr : Option Key := none
  /-- result produced so far -/
  ret : Option Ret := none
  /-- stamp of the invocation -/
  inv : Nat := 0
  /-- completed operations, newest first -/
  done : List Rec := []
deriving Repr

structure Config where
  s : XState
  threads : List Thread
  clock : Nat := 0
  /-- hook log, newest first -/
  log : List Lin := []
deriving Repr

/-- all threads idle, no lock held, empty log -/
def Config.init (s : XState) (progs : List (List XOp)) : Config :=
  { s := s, threads := progs.map fun p => { todo := p } }

/-- two guards cannot coexist on different threads -/
def conflict (a b : LockId × Mode) : Bool :=
  a.1 == b.1 && (a.2 == .exclusive || b.2 == .exclusive)

/-- `pthread_rwlock_rdlock/wrlock`, `pthread_mutex_lock` would return now -/
def canAcq (c : Config) (l : LockId) (m : Mode) : Bool :=
  c.threads.all fun th => th.held.all fun h => !conflict (l, m) h

def release (l : LockId) (h : Held) : Held := h.eraseP fun g => g.1 == l

def Config.put (c : Config) (t : Nat) (th : Thread) : Config :=
  { c with threads := c.threads.set t th, clock := c.clock + 1 }

/-- the hook callback: append the running operation to the global log -/
def Config.hook (c : Config) (t : Nat) (th : Thread) (op : XOp) : List Lin :=
  ⟨t, th.done.length, op, c.clock, (xstep c.s op).2⟩ :: c.log

/-- one atomic segment of thread `t` (its state `th`, running `op`, remaining code `rest`) -/
def execAct (c : Config) (t : Nat) (th : Thread) (op : XOp) (a : Action) (rest : List Instr) : Config :=
  match a, op with
  | .lookup, .cache (.fetch now k) =>
    let missed : Config :=
      { (c.put t { th with code := th.held.map fun h => .rel h.1, ret := some (.ok (.cache .miss)) })
        with log := c.hook t th op }
    match alookup k c.s.cache.primary with
    | none => missed
    | some cont =>
      if C07.Gen.fetchExpired cont.deadline now then missed
      else c.put t { th with code := rest, ptr := some k }
  | .splice, .cache (.fetch _ _) =>
    match th.ptr with
    | some p =>
      { (c.put t { th with code := rest }) with
        s := { c.s with cache := { c.s.cache with lru := p :: c.s.cache.lru.erase p } }, log := c.hook t th op }
    | none => c.put t { th with code := rest, ret := some .undefined }
  | .copyOut, .cache (.fetch _ _) =>
    let r : Ret := match th.ptr.bind fun p => alookup p c.s.cache.primary with
      | some cont => .ok (.cache (.hit cont.data cont.trigs cont.deadline cont.gen))
      | none => .undefined
    c.put t { th with code := rest, ret := some r }
  | .readStats, .cache .stats =>
    { (c.put t { th with code := rest, ret := some (.ok (.cache (.stats c.s.cache.size c.s.cache.trigCount))) })
      with log := c.hook t th op }
  | .body, .cache (.fetch _ _) => c.put t { th with code := rest, ret := some .undefined }
  | .body, .cache .stats => c.put t { th with code := rest, ret := some .undefined }
  | .body, op =>
    { (c.put t { th with code := rest, ret := some (.ok (xstep c.s op).2) })
      with s := (xstep c.s op).1, log := c.hook t th op }
  | _, _ => c.put t { th with code := rest, ret := some .undefined }

/-- one step of thread `t`; `none` = the thread cannot move (finished, or blocked on a lock) -/
def stepThread (c : Config) (t : Nat) : Option Config :=
  match c.threads[t]? with
  | none => none
  | some th =>
    match th.cur with
    | none =>
      match th.todo with
      | [] => none
      | op :: more =>
        some (c.put t { th with todo := more, cur := some op, code := Gen.prog (methodOf op),
                                ptr := none, ret := none, inv := c.clock })
    | some op =>
      match th.code with
      | [] =>
        some (c.put t { th with cur := none,
                                done := ⟨t, th.done.length, op, th.inv, some (c.clock, th.ret.getD .undefined)⟩ :: th.done })
      | .acq l m :: rest =>
        if canAcq c l m then some (c.put t { th with code := rest, held := (l, m) :: th.held }) else none
      | .rel l :: rest => some (c.put t { th with code := rest, held := release l th.held })
      | .act a :: rest => some (execAct c t th op a rest)

/-- the scheduler picks thread `t`; picking a thread that cannot move changes nothing -/
def sched1 (c : Config) (t : Nat) : Config := (stepThread c t).getD c

/-- a schedule is a list of thread ids -/
def run (c : Config) (sched : List Nat) : Config := sched.foldl sched1 c

/-- the history observable at a configuration: completed operations and those in flight -/
def pendingRec (t : Nat) (th : Thread) : List Rec :=
  match th.cur with
  | some op => [⟨t, th.done.length, op, th.inv, none⟩]
  | none => []

def threadRecs (t : Nat) (th : Thread) : List Rec := pendingRec t th ++ th.done

def recsFrom : Nat → List Thread → List Rec
  | _, [] => []
  | t, th :: ths => threadRecs t th ++ recsFrom (t + 1) ths

def Config.history (c : Config) : List Rec := recsFrom 0 c.threads

/-- the claimed linearization: the hook log in chronological order -/
def Config.order (c : Config) : List Lin := c.log.reverse

/-- where the model appends to the hook log (compared with `Gen.hooks` by
`Props.hooks_at_linearization_points`) -/
def linPoints : List Hook := [
  ⟨.fetch, 1, .lookup, [(.access, .shared)]⟩,
  ⟨.fetch, 2, .splice, [(.access, .shared), (.lru, .exclusive)]⟩,
  ⟨.store, 7, .body, [(.access, .exclusive)]⟩,
  ⟨.rise, 3, .body, [(.access, .exclusive)]⟩,
  ⟨.remove, 6, .body, [(.access, .exclusive)]⟩,
  ⟨.clear, 4, .body, [(.access, .exclusive)]⟩,
  ⟨.stats, 5, .readStats, [(.access, .shared)]⟩]

def Thread.finished (th : Thread) : Bool := th.cur.isNone && th.todo.isEmpty

def Config.allDone (c : Config) : Bool := c.threads.all Thread.finished

end Cppcms.C09
