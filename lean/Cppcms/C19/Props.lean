import Cppcms.C19.Lemmas
import Cppcms.C19.JsonC11
import Cppcms.C11.Props
import Cppcms.C06.Lemmas
import Cppcms.C07.Props
/-!
# C19 — property theorems

"Serialized objects round-trip exactly and malformed archives are rejected safely."

The model (`Model.lean`) takes every condition, read offset and cursor update of `archive::eof`,
`next_chunk_size`, `read_chunk`, `read_chunk_as_string` from `Gen.lean`, which `translate/c19.py`
regenerates from `src/archive.cpp` on every run (`size_t` arithmetic mod 2^64).  Changing the bound in
`next_chunk_size` changes `Gen.sizeBad`, and `load_safe` / `sizeBad_exact` below are re-checked against it.

Hypothesis used throughout: `b.length < 2 ^ 64` — the archive is a `std::string` in a 64-bit address
space (without it the mod-2^64 arithmetic of the model would not be the arithmetic of the code).
-/
namespace Cppcms.C19.Props
open Cppcms Cppcms.C19 Cppcms.C19.Spec

/-! ## malformed archives: memory safety -/

/-- **Loading from arbitrary bytes never reads outside the archive.**  For every type of the universe and
every byte string, each interval the loader reads from `buffer_.c_str()` lies inside `[0, b.length)`, the
cursor never leaves the buffer, and the outcome is a value or one of the four `archive_error`s. -/
theorem load_safe [JsonCodec] (ty : Ty) (b : Bytes) (hb : b.length < 2 ^ 64) :
    ReadsWithin b.length (loadArchive ty b).st.reads ∧ (loadArchive ty b).st.ptr ≤ b.length ∧
    ((∃ v s, loadArchive ty b = .ok v s) ∨ (∃ e s, loadArchive ty b = .err e s)) := by
  have h := load_safe_gen b hb ty St.init ⟨Nat.zero_le _, by intro iv hiv; cases hiv⟩
  refine ⟨h.2, h.1, ?_⟩
  cases hl : loadArchive ty b with
  | ok v s => exact Or.inl ⟨v, s, rfl⟩
  | err e s => exact Or.inr ⟨e, s, rfl⟩

/-- The same from any state reached earlier (several objects loaded from one archive, `serialize`
methods calling `ar & a & b & …`): a safe state stays safe. -/
theorem load_safe_resume [JsonCodec] (ty : Ty) (b : Bytes) (hb : b.length < 2 ^ 64) (s : St)
    (hs : s.ptr ≤ b.length ∧ ReadsWithin b.length s.reads) :
    (load b ty s).st.ptr ≤ b.length ∧ ReadsWithin b.length (load b ty s).st.reads :=
  load_safe_gen b hb ty s hs

/-- The three reading primitives of `archive` themselves (user code may call them in any order). -/
theorem primitives_safe (b : Bytes) (hb : b.length < 2 ^ 64) (s : St)
    (hs : s.ptr ≤ b.length ∧ ReadsWithin b.length s.reads) (len : Nat) :
    (let s' := (nextChunkSize b s).st; s'.ptr ≤ b.length ∧ ReadsWithin b.length s'.reads) ∧
    (let s' := (readChunk b len s).st; s'.ptr ≤ b.length ∧ ReadsWithin b.length s'.reads) ∧
    (let s' := (readChunkAsString b s).st; s'.ptr ≤ b.length ∧ ReadsWithin b.length s'.reads) :=
  ⟨nextChunkSize_safe b hb s hs, readChunk_safe b hb len s hs, readChunkAsString_safe b hb s hs⟩

/-- **Whatever a successful load returns is a value the C++ type can hold**: arithmetic values have their
size, POD vectors a whole number of elements, arrays their length, `std::set`/`std::map` keys are strictly
increasing and `std::multiset`/`std::multimap` keys non-decreasing with respect to the model's `operator<`
(a strict weak order, `lt_asymm` / `lt_negTrans`), recursively -- for arbitrary, also malformed, archives. -/
theorem load_ok_wellformed [JsonCodec] (ty : Ty) (b : Bytes) (hb : b.length < 2 ^ 64) (v : Val ty) (s : St)
    (h : loadArchive ty b = .ok v s) : wf ty v = true := by
  have hg := load_good b hb ty St.init ⟨Nat.zero_le _, by intro iv hiv; cases hiv⟩
  unfold loadArchive at h
  rw [h] at hg
  exact hg.2

/-- The length test of `next_chunk_size`, as regenerated from the source, is *exactly* "header and
payload fit": it rejects every length that would leave the buffer and no length that fits.
(`ptr + 4 ≤ bufsize` is what the two earlier tests of the function establish; `size` is a `uint32_t`.) -/
theorem sizeBad_exact (ptr size bufsize : Nat) (hb : bufsize < 2 ^ 64) (hp : ptr + 4 ≤ bufsize) (hs : size < 2 ^ 32) :
    Gen.sizeBad ptr size bufsize = false ↔ ptr + 4 + size ≤ bufsize := by
  simp only [Gen.sizeBad, Bool.or_eq_false_iff, decide_eq_false_iff_not]
  omega

/-- Historical (defect D1, fixed in /repo): the bound as it was written before the fix,
`ptr_ + size < ptr_ || ptr_ + size >= buffer_.size()`, accepts the length 7 at `ptr_ = 0` in an 8-byte
archive (`07 00 00 00 41 42 43 44`) although header and payload would end at offset 11. -/
theorem prefix_bound_counterexample :
    let oldBad := fun (ptr size bufsize : Nat) =>
      decide ((ptr + size) % 2 ^ 64 < ptr) || decide ((ptr + size) % 2 ^ 64 ≥ bufsize)
    oldBad 0 7 8 = false ∧ ¬ (0 + 4 + 7 ≤ 8) := by
  decide

/-! ## round trip -/

/-- **Save then load gives the value back**, for every type of the universe and every well-formed value
whose chunk payloads fit the `uint32_t` length field; the loader ends exactly at the end of the archive. -/
theorem save_load_roundtrip [JsonCodec] (ty : Ty) (v : Val ty) (hw : wf ty v = true) (hf : sizesFit ty v = true)
    (hj : jsonRT ty v) (hlen : (save ty v).length < 2 ^ 64) :
    ∃ s, loadArchive ty (save ty v) = .ok v s ∧ s.ptr = (save ty v).length ∧ eof (save ty v) s = true := by
  obtain ⟨r', h⟩ := save_load_rt (save ty v) hlen ty v hw hf hj 0 [] (At_self _)
  refine ⟨_, h, by simp, ?_⟩
  simp [eof, Gen.eofCond]

/-- The same inside a larger archive: whatever was written before and after (`a << x << v << y`), loading
at the position where `save ty v` starts returns `v` and leaves the cursor right behind it. -/
theorem save_load_roundtrip_framed [JsonCodec] (ty : Ty) (v : Val ty) (hw : wf ty v = true) (hf : sizesFit ty v = true)
    (hj : jsonRT ty v)
    (pre post : Bytes) (reads : List (Nat × Nat)) (hlen : (pre ++ save ty v ++ post).length < 2 ^ 64) :
    ∃ reads', load (pre ++ save ty v ++ post) ty ⟨pre.length, reads⟩
      = .ok v ⟨pre.length + (save ty v).length, reads'⟩ := by
  apply save_load_rt _ hlen ty v hw hf hj
  refine ⟨by simp, ?_⟩
  simp [slice]

/-! ## facts the model states by hand, proved or pinned down

Byte order and `sizeof(size_t)` come from the compiler's macros (`Gen.littleEndian`, `Gen.sizeofSizeT`); every theorem
of this file holds for either byte order (only the examples with literal bytes are little-endian). -/

/-- **Object representation of unsigned integers** (`memcpy(&x, …)` of a `k`-byte integer, either byte order):
decoding an encoding gives the value modulo 256^k, the encoding has `k` bytes, and encoding a decoding gives the bytes
back — a bijection between `k`-byte strings and `[0, 256^k)`; this is what the length header (k = 4), the element
counts (k = `sizeof(size_t)`) and the numeric order of POD keys rest on. -/
theorem pod_codec_roundtrip :
    (∀ k n, numVal (numBytes k n) = n % 256 ^ k ∧ (numBytes k n).length = k) ∧ (∀ b : Bytes, numBytes b.length (numVal b) = b) :=
  ⟨fun k n => ⟨numVal_numBytes k n, numBytes_length k n⟩, numBytes_numVal⟩

/-- **`operator<` of the model is a strict weak order on every type, and a strict total order on the well-formed
values of key types**: asymmetric, negatively transitive (hence transitive), and two well-formed values neither of
which is smaller are equal — so `std::set` / `std::map` hold one entry per *value* and the "same key" classes of
`multiset` / `multimap` are classes of equal keys. -/
theorem operator_lt_order [JsonCodec] (ty : Ty) :
    (∀ a b : Val ty, lt ty a b = true → lt ty b a = false) ∧
    (∀ a b c : Val ty, lt ty a b = false → lt ty b c = false → lt ty a c = false) ∧
    (∀ a b c : Val ty, lt ty a b = true → lt ty b c = true → lt ty a c = true) ∧
    (keyable ty = true → ∀ a b : Val ty, wf ty a = true → wf ty b = true → lt ty a b = false → lt ty b a = false → a = b) :=
  ⟨lt_asymm ty, lt_negTrans ty, trans_of_asymm_negTrans (lt ty) (lt_asymm ty) (lt_negTrans ty), lt_tricho ty⟩

/-- a successful `counted` load is a count, that many element loads, and the container's insertion of the list -/
theorem counted_load_inv {α β : Type} (c : Res Nat) (f : Nat → St → Res (List α)) (post : List α → β) (v : β) (s' : St)
    (h : (c.bind fun n s1 => (f n s1).map post) = .ok v s') :
    ∃ n s1 l, c = .ok n s1 ∧ f n s1 = .ok l s' ∧ v = post l := by
  cases c with
  | err e s1 => cases h
  | ok n s1 =>
    rw [Res.bind_ok] at h
    cases hf : f n s1 with
    | err e s2 => rw [hf] at h; cases h
    | ok l s2 =>
      rw [hf, Res.map_ok] at h
      injection h with h1 h2
      subst h1 h2
      exact ⟨n, s1, l, rfl, hf, rfl⟩

/-- **Container elements load independently of each other.**  `details::archive_load_container` (vector / list / set /
multiset of non-arithmetic elements) declares `value_type tmp;` *inside* the element loop (pinned by the translator:
`Gen.containerTmpPerElement`; the `std::map`/`multimap` macro's `pair_type tmp;` and the pointers' `new V()` likewise), so every element
is loaded into a default-constructed object: the load of the container is the count followed by a chain of applications of
the one state-only function `load b t` (`Steps`), and for a user class with optional members that function is its `serialize`
run on the default object (`loadTaggedInto … (dflt …)`), never on what the previous element left behind. -/
theorem container_elements_load_independently [JsonCodec] (b : Bytes) (t : Ty) (s s' : St)
    (_pin : Gen.containerTmpPerElement = true) :
    (∀ v : List (Val t), load b (.seq t) s = .ok v s' ↔
      ∃ s1, loadCount b s = .ok v.length s1 ∧ Steps (load b t) s1 v s') ∧
    (∀ v : List (Val t), load b (.set t) s = .ok v s' →
      ∃ s1 l, loadCount b s = .ok l.length s1 ∧ Steps (load b t) s1 l s' ∧ v = setOfList (lt t) l) ∧
    (∀ v : List (Val t), load b (.mset t) s = .ok v s' →
      ∃ s1 l, loadCount b s = .ok l.length s1 ∧ Steps (load b t) s1 l s' ∧ v = msetOfList (lt t) l) ∧
    (∀ (ta tb : Ty) (st : St), load b (.tagged ta tb) st =
      loadTaggedInto (load b ta) (load b tb) (List.replicate 4 0, dflt ta, dflt tb) b st) := by
  refine ⟨?_, ?_, ?_, fun _ _ _ => rfl⟩
  · intro v
    simp only [load]
    constructor
    · intro h
      cases hc : loadCount b s with
      | err e s1 => rw [hc] at h; cases h
      | ok n s1 =>
        rw [hc] at h
        have h : loadN (load b t) n s1 = .ok v s' := h
        obtain ⟨hl, hs⟩ := (loadN_ok_iff (load b t) n s1 v s').mp h
        exact ⟨s1, by rw [hl], hs⟩
    · rintro ⟨s1, hc, hs⟩
      rw [hc]
      exact (loadN_ok_iff (load b t) v.length s1 v s').mpr ⟨rfl, hs⟩
  · intro v h
    simp only [load] at h
    obtain ⟨n, s1, l, h1, h2, h3⟩ := counted_load_inv _ _ _ v s' h
    obtain ⟨hl, hs⟩ := (loadN_ok_iff (load b t) n s1 l s').mp h2
    exact ⟨s1, l, by rw [hl]; exact h1, hs, h3⟩
  · intro v h
    simp only [load] at h
    obtain ⟨n, s1, l, h1, h2, h3⟩ := counted_load_inv _ _ _ v s' h
    obtain ⟨hl, hs⟩ := (loadN_ok_iff (load b t) n s1 l s').mp h2
    exact ⟨s1, l, by rw [hl]; exact h1, hs, h3⟩

/-- **`std::multimap` / `std::multiset`: equal keys keep their archive order.**  Whatever the archive holds (also
unsorted, also malformed elsewhere): if the load succeeds with `v`, then `v` is a permutation of the entries `l` in the
order they were read, and for every key `key` the entries of `v` equivalent to it are exactly those of `l`, in the
same order (with `load_ok_wellformed`: `v` is the stable sort of `l`). -/
theorem multi_containers_keep_load_order [JsonCodec] (b : Bytes) (s s' : St) :
    (∀ (k w : Ty) (v : List (Val k × Val w)), load b (.mmap k w) s = .ok v s' →
      ∃ n s1 l, loadCount b s = .ok n s1 ∧ loadN (loadPair (load b k) (load b w)) n s1 = .ok l s' ∧
        v.Perm l ∧ ∀ key, v.filter (fun e => eqv (lt k) key e.1) = l.filter (fun e => eqv (lt k) key e.1)) ∧
    (∀ (t : Ty) (v : List (Val t)), load b (.mset t) s = .ok v s' →
      ∃ n s1 l, loadCount b s = .ok n s1 ∧ loadN (load b t) n s1 = .ok l s' ∧
        v.Perm l ∧ ∀ key, v.filter (fun e => eqv (lt t) key e) = l.filter (fun e => eqv (lt t) key e)) := by
  constructor
  · intro k w v h
    simp only [load] at h
    obtain ⟨n, s1, l, h1, h2, h3⟩ := counted_load_inv _ _ _ v s' h
    subst h3
    exact ⟨n, s1, l, h1, h2, mmapOfList_perm (lt k) l, fun key => mmapOfList_stable (lt k) (lt_asymm k) (lt_negTrans k) key l⟩
  · intro t v h
    simp only [load] at h
    obtain ⟨n, s1, l, h1, h2, h3⟩ := counted_load_inv _ _ _ v s' h
    subst h3
    exact ⟨n, s1, l, h1, h2, msetOfList_perm (lt t) l, fun key => msetOfList_stable (lt t) (lt_asymm t) (lt_negTrans t) key l⟩

/-- **`std::map` / `std::set`: of several archive entries with the same key the first one wins** (`insert` does not
overwrite): the entries of the result equivalent to `key` are the first such entry read, if any. -/
theorem unique_containers_keep_first [JsonCodec] (b : Bytes) (s s' : St) :
    (∀ (k w : Ty) (v : List (Val k × Val w)), load b (.map k w) s = .ok v s' →
      ∃ n s1 l, loadCount b s = .ok n s1 ∧ loadN (loadPair (load b k) (load b w)) n s1 = .ok l s' ∧
        ∀ key, v.filter (fun e => eqv (lt k) key e.1) = (l.filter (fun e => eqv (lt k) key e.1)).take 1) ∧
    (∀ (t : Ty) (v : List (Val t)), load b (.set t) s = .ok v s' →
      ∃ n s1 l, loadCount b s = .ok n s1 ∧ loadN (load b t) n s1 = .ok l s' ∧
        ∀ key, v.filter (fun e => eqv (lt t) key e) = (l.filter (fun e => eqv (lt t) key e)).take 1) := by
  constructor
  · intro k w v h
    simp only [load] at h
    obtain ⟨n, s1, l, h1, h2, h3⟩ := counted_load_inv _ _ _ v s' h
    subst h3
    exact ⟨n, s1, l, h1, h2, fun key => mapOfList_first (lt k) (lt_asymm k) (lt_negTrans k) key l⟩
  · intro t v h
    simp only [load] at h
    obtain ⟨n, s1, l, h1, h2, h3⟩ := counted_load_inv _ _ _ v s' h
    subst h3
    exact ⟨n, s1, l, h1, h2, fun key => setOfList_first (lt t) (lt_asymm t) (lt_negTrans t) key l⟩

/-! ## `json::value` members: the law comes from property C11 -/

/-- The hypothesis `jsonRT` of the round-trip theorems, for the codec that C11 models (`c11Codec ops`: compact
`value::save`, `value::load(…, full = true)`), **is C11's `write_parse_roundtrip_partial`**: a tree without undefined
members, with valid UTF-8 strings and keys, objects in `std::map` order, at most 512 deep, whose numbers lie in a
set `fin` on which the external conversions satisfy `NumLaw ops fin rt` and are fixed by one trip through text
(`mapNum rt v = v`; C11 proves the text round trip only up to `rt`, the printed precision being IEEE arithmetic). -/
theorem json_law_from_C11 {N : Type} (ops : C11.NumOps N) (fin : N → Prop) (rt : N → N)
    (hlaw : C11.Spec.NumLaw ops fin rt) (v : C11.Value N)
    (hu : C11.Spec.NoUndefined v) (hs : C11.Spec.AllStringsUtf8 v) (hf : C11.Spec.NumsFinite fin v)
    (hk : C11.Spec.KeysSorted v) (hd : C11.Spec.depth v ≤ 512) (hfix : C11.Spec.mapNum rt v = v) :
    @jsonRT (c11Codec ops) .json v := by
  obtain ⟨text, h1, h2⟩ := C11.Props.write_parse_roundtrip_partial ops fin rt hlaw v hu hs hf hk hd false
  rw [hfix] at h2
  exact ⟨text, h1, h2⟩

/-- A `json::value` saved to an archive and loaded back is the same tree — under C11's hypotheses (above) and
the `uint32` guard on the length of its text. -/
theorem json_value_roundtrip {N : Type} (ops : C11.NumOps N) (fin : N → Prop) (rt : N → N)
    (hlaw : C11.Spec.NumLaw ops fin rt) (v : C11.Value N)
    (hu : C11.Spec.NoUndefined v) (hs : C11.Spec.AllStringsUtf8 v) (hf : C11.Spec.NumsFinite fin v)
    (hk : C11.Spec.KeysSorted v) (hd : C11.Spec.depth v ≤ 512) (hfix : C11.Spec.mapNum rt v = v)
    (hfit : @sizesFit (c11Codec ops) .json v = true)
    (hlen : (@save (c11Codec ops) .json v).length < 2 ^ 64) :
    ∃ s, @loadArchive (c11Codec ops) .json (@save (c11Codec ops) .json v) = .ok v s := by
  letI := c11Codec ops
  obtain ⟨s, h, _⟩ := save_load_roundtrip .json v rfl hfit
    (json_law_from_C11 ops fin rt hlaw v hu hs hf hk hd hfix) hlen
  exact ⟨s, h⟩

/-! ## the session and cache convenience calls

`session_interface::store_data(key,obj)` is `serialization_traits<T>::save(obj,buffer); set(key,buffer)` and
`fetch_data` is `buffer = get(key); serialization_traits<T>::load(buffer,obj)`; `cache_interface::store_data` /
`fetch_data` are the same around `store` / `fetch` (the translator checks that the four bodies still have exactly this
shape: `Gen.wrappersAreCompositions`).  `serialization_traits<T>::save` is `save ty` (an archive, `T::save`, `a.str()`),
`load` is `loadArchive ty`.  The store side is the model of C06 (session: `setValue`, `dfind`, `saveData`, `loadData`)
and of C07 (cache: `step`/`Op.store`/`Op.fetch`), with their own theorems supplying what was an abstract law before. -/

/-- C06's `dfind` finds an entry that is a member of the map -/
theorem dfind_mem' {k : C06.Key} {e : C06.Entry} {d : C06.Data} (h : C06.dfind k d = some e) : (k, e) ∈ d := by
  induction d with
  | nil => cases h
  | cons p rest ih =>
    obtain ⟨k0, e0⟩ := p
    simp only [C06.dfind] at h
    split at h
    · rename_i hk; subst hk; cases h; exact List.mem_cons_self
    · exact List.mem_cons_of_mem _ (ih h)

/-- `session_interface::set(key,value)` on the session's data map: the entry found under `key` afterwards holds
`value`, the map stays sorted, and it stays within `save_data`'s limits if it was and the new entry is. -/
theorem session_set_spec (d : C06.Data) (k : C06.Key) (val : Bytes) :
    (∃ e, C06.dfind k (C06.setValue k val d) = some e ∧ e.value = val) ∧
    (C06.Sorted d → C06.Sorted (C06.setValue k val d)) ∧
    ((∀ p ∈ d, C06.withinLimits p) → k.length < C06.Gen.keyLimit → val.length < C06.Gen.dataLimit →
      ∀ p ∈ C06.setValue k val d, C06.withinLimits p) := by
  unfold C06.setValue
  cases hf : C06.dfind k d with
  | none =>
    refine ⟨⟨⟨val, false⟩, by rw [C06.dfind_dinsert]; simp, rfl⟩, fun h => C06.sorted_dinsert _ _ _ h, ?_⟩
    intro hl hk hv p hp
    rcases C06.mem_dinsert hp with rfl | hp'
    · exact ⟨hk, hv⟩
    · exact hl p hp'
  | some e0 =>
    refine ⟨⟨{ e0 with value := val }, by rw [C06.dfind_dinsert]; simp, rfl⟩, fun h => C06.sorted_dinsert _ _ _ h, ?_⟩
    intro hl hk hv p hp
    rcases C06.mem_dinsert hp with rfl | hp'
    · exact ⟨hk, hv⟩
    · exact hl p hp'

/-- **Session: `store_data` then `fetch_data` returns the object** — in the same request (`get` reads the map `set`
wrote), and in a later request: `save()` serialises the map with `save_data`, the next `load()` parses it with
`load_data` (C06 `loadData_saveData`, its `load_save_data_roundtrip`), and `fetch_data` finds the same bytes.
Hypotheses: the session map is sorted (`std::map`) and within `save_data`'s limits, the key is shorter than 1024
bytes and **the serialised object shorter than 2 MiB** (`Gen.dataLimit`, the 21-bit field of the `packed` record);
plus the hypotheses of `save_load_roundtrip`.  (Which token/cookie carries `bs` to the next request, and that the
request reads exactly this map, is C06's `request_reads_spec` / `save_commutes`; not repeated here.) -/
theorem session_store_data_fetch_data_roundtrip [JsonCodec] (ty : Ty) (v : Val ty)
    (hw : wf ty v = true) (hf : sizesFit ty v = true) (hj : jsonRT ty v) (hlen : (save ty v).length < 2 ^ 64)
    (d : C06.Data) (hs : C06.Sorted d) (hl : ∀ p ∈ d, C06.withinLimits p)
    (k : C06.Key) (hk : k.length < C06.Gen.keyLimit) (hv : (save ty v).length < C06.Gen.dataLimit)
    (_shape : Gen.wrappersAreCompositions = true) :
    let d1 := C06.setValue k (save ty v) d          -- store_data(k, v)
    (∃ e s, C06.dfind k d1 = some e ∧ loadArchive ty e.value = .ok v s) ∧
    (∃ bs, C06.saveData d1 = .ok bs ∧ C06.loadData bs = .ok d1) := by
  intro d1
  obtain ⟨⟨e, he, hval⟩, hsorted, hlim⟩ := session_set_spec d k (save ty v)
  obtain ⟨s, hload, _⟩ := save_load_roundtrip ty v hw hf hj hlen
  refine ⟨⟨e, s, he, by rw [hval]; exact hload⟩, ?_⟩
  exact C06.loadData_saveData d1 (hsorted hs) (hlim hl hk hv)

/-- At and beyond the limit the session cannot carry the object: `save()` throws (`save_data`:
"value too long"), whatever else the map holds. -/
theorem session_store_data_over_limit_throws [JsonCodec] (ty : Ty) (v : Val ty) (d : C06.Data) (k : C06.Key)
    (hv : C06.Gen.dataLimit ≤ (save ty v).length) :
    ∃ err, C06.saveData (C06.setValue k (save ty v) d) = .error err := by
  obtain ⟨⟨e, he, hval⟩, _, _⟩ := session_set_spec d k (save ty v)
  rw [C06.saveData_throws_iff]
  refine ⟨(k, e), dfind_mem' he, ?_⟩
  intro h
  have := h.2
  rw [hval] at this
  omega

/-- **Cache: what `fetch_data` finds is the most recent `store_data` of that key** (C07
`fetch_returns_latest_store`): for every history of cache operations, every size limit and back-end, if the fetch
hits with bytes `bs` then the history contains a store of exactly `bs` under `k`, performed, not expired, and
followed by no store/remove of `k`, no clear and no rise of one of its triggers; and if those bytes were the
serialisation of an object `v`, `fetch_data` yields `v`. -/
theorem cache_fetch_data_returns_latest_store_data [JsonCodec] (limit : Nat) (sl : Option Nat) (ops : List C07.Op)
    (now : C07.Time) (k : C07.Key) (bs : Bytes) (tr : List C07.Key) (dl : C07.Time) (g : C07.Gen)
    (hit : (C07.step (C07.Props.reach limit sl ops) (.fetch now k)).2 = .hit bs tr dl g) :
    (∃ pre post now₀ trigs gen env, ops = pre ++ C07.Op.store now₀ k bs trigs dl gen env :: post ∧
      (∀ op ∈ post, op.invalidates k tr = false) ∧ ¬ dl < now) ∧
    ∀ (ty : Ty) (v : Val ty), wf ty v = true → sizesFit ty v = true → jsonRT ty v → (save ty v).length < 2 ^ 64 →
      bs = save ty v → ∃ s, loadArchive ty bs = .ok v s := by
  obtain ⟨pre, post, now₀, trigs, gen, env, h1, _, _, h4, h5⟩ :=
    C07.Props.fetch_returns_latest_store limit sl ops now k bs tr dl g hit
  refine ⟨⟨pre, post, now₀, trigs, gen, env, h1, h4, h5⟩, ?_⟩
  intro ty v hw hf hj hlen hbs
  obtain ⟨s, h, _⟩ := save_load_roundtrip ty v hw hf hj hlen
  exact ⟨s, by rw [hbs]; exact h⟩

/-- **Cache: `store_data` then `fetch_data` returns the object** when nothing evicts it (C07
`live_entry_always_found`: no size limit, no failing allocation): after `store_data(k, v, trigs, deadline)` and any
operations that do not invalidate `k`, a `fetch_data(k)` at or before the deadline hits and yields `v`. -/
theorem cache_store_data_fetch_data_roundtrip [JsonCodec] (ty : Ty) (v : Val ty)
    (hw : wf ty v = true) (hf : sizesFit ty v = true) (hj : jsonRT ty v) (hlen : (save ty v).length < 2 ^ 64)
    (pre post : List C07.Op) (now₀ now : C07.Time) (k : C07.Key) (trigs : List C07.Key) (dl : C07.Time)
    (gen : Option C07.Gen) (env : C07.StoreEnv)
    (hquiet : ∀ op ∈ pre ++ C07.Op.store now₀ k (save ty v) trigs dl gen env :: post, op.quiet)
    (hpost : ∀ op ∈ post, op.invalidates k (C07.ownTrigs k trigs) = false) (hlive : ¬ dl < now)
    (_shape : Gen.wrappersAreCompositions = true) :
    ∃ bs tr g s,
      (C07.step (C07.Props.reach 0 none (pre ++ C07.Op.store now₀ k (save ty v) trigs dl gen env :: post))
        (.fetch now k)).2 = .hit bs tr dl g ∧ loadArchive ty bs = .ok v s := by
  obtain ⟨s, h, _⟩ := save_load_roundtrip ty v hw hf hj hlen
  exact ⟨_, _, _, s, C07.Props.live_entry_always_found pre post now₀ now k (save ty v) trigs dl gen env hquiet hpost hlive, h⟩

/-- The abstract form (any store with `get k (set k d σ) = d`), kept for stores other than the two above. -/
theorem wrappers_roundtrip [JsonCodec] {Store Key : Type} (set : Key → Bytes → Store → Store) (get : Key → Store → Bytes)
    (hstore : ∀ k d σ, get k (set k d σ) = d)
    (ty : Ty) (v : Val ty) (hw : wf ty v = true) (hf : sizesFit ty v = true) (hj : jsonRT ty v)
    (hlen : (save ty v).length < 2 ^ 64) (k : Key) (σ : Store) (_shape : Gen.wrappersAreCompositions = true) :
    ∃ s, loadArchive ty (get k (set k (save ty v) σ)) = .ok v s := by
  rw [hstore]
  obtain ⟨s, h, _⟩ := save_load_roundtrip ty v hw hf hj hlen
  exact ⟨s, h⟩

/-- What `write_chunk` / `read_chunk_as_string` do for **any** payload, also beyond the `sizesFit` guard:
the length field holds `len mod 2^32`, so a string of 2^32 + k bytes is read back as its first k bytes. -/
theorem string_chunk_truncates (data : Bytes) (hlen : (chunk data).length < 2 ^ 64) :
    ∃ r, readChunkAsString (chunk data) St.init
      = .ok (data.take (data.length % 2 ^ 32)) ⟨4 + data.length % 2 ^ 32, r⟩ := by
  have hcl := chunk_length data
  have hat : At (chunk data) 0 (numBytes Gen.wrHdrLen (data.length % 2 ^ Gen.wrSizeBits) ++ data) := At_self _
  rw [At_append, numBytes_length] at hat
  obtain ⟨⟨_, hs1⟩, ⟨_, hs2'⟩⟩ := hat
  simp only [Gen.wrHdrLen, Gen.wrSizeBits, Nat.zero_add] at hs1 hs2'
  rw [numBytes_length] at hs1
  have hs2 : slice (chunk data) 4 (data.length % 2 ^ 32) = data.take (data.length % 2 ^ 32) := by
    have : slice (chunk data) 4 (data.length % 2 ^ 32) = (slice (chunk data) 4 data.length).take (data.length % 2 ^ 32) := by
      simp only [slice, List.take_take]
      rw [Nat.min_eq_left (Nat.mod_le _ _)]
    rw [this, hs2']
  have hm : data.length % 2 ^ 32 ≤ data.length := Nat.mod_le _ _
  have hsz : numVal (slice (chunk data) 0 4) % 2 ^ 32 = data.length % 2 ^ 32 := by
    rw [hs1, numVal_numBytes]
    have : (256 : Nat) ^ 4 = 2 ^ 32 := by decide
    rw [this, Nat.mod_mod, Nat.mod_mod]
  have c1 : Gen.eofCond 0 (chunk data).length = false := by
    simp only [Gen.eofCond, decide_eq_false_iff_not]; omega
  have c2 : Gen.hdrShort 0 (chunk data).length = false := by
    simp only [Gen.hdrShort, decide_eq_false_iff_not]; omega
  have c3 : Gen.sizeBad 0 (data.length % 2 ^ 32) (chunk data).length = false := by
    simp only [Gen.sizeBad, Bool.or_eq_false_iff, decide_eq_false_iff_not]; omega
  have hn : nextChunkSize (chunk data) St.init = .ok (data.length % 2 ^ 32) ⟨0, [(0, 4)]⟩ := by
    unfold nextChunkSize
    simp only [St.init, Gen.strPtr, c1, c2, Gen.hdrReadOff, Gen.hdrReadLen, Gen.rdSizeBits, Nat.zero_add, hsz, c3, St.read]
    rfl
  unfold readChunkAsString
  rw [hn, Res.bind_ok]
  have e1 : (4 + data.length % 2 ^ 32) % 18446744073709551616 % 18446744073709551616 = 4 + data.length % 2 ^ 32 := by
    omega
  simp only [Gen.rsReadOff, Gen.rsReadLen, Gen.rsAdvance, Nat.zero_add, hs2, St.read]
  rw [e1]
  exact ⟨_, rfl⟩

/-- Consequently the round trip of a `std::string` fails as soon as the guard fails. -/
theorem string_roundtrip_fails_beyond_guard [JsonCodec] (data : Bytes) (hbig : 2 ^ 32 ≤ data.length)
    (hlen : (chunk data).length < 2 ^ 64) :
    ∀ s, loadArchive .str (save .str data) ≠ .ok data s := by
  intro s h
  obtain ⟨r, h'⟩ := string_chunk_truncates data hlen
  have : loadArchive .str (save .str data) = readChunkAsString (chunk data) St.init := rfl
  rw [this, h'] at h
  injection h with hd _
  have hl := congrArg List.length hd
  rw [List.length_take] at hl
  have : data.length % 2 ^ 32 < 2 ^ 32 := Nat.mod_lt _ (by decide)
  omega

/-! ## non-vacuity: concrete instances of the hypotheses and of both outcomes -/

/-- for the examples: a codec whose values are their own text -/
local instance : JsonCodec := ⟨Bytes, some, some, [], List.isEmpty, by intro x h; simpa using h, rfl⟩


/-- `std::map<std::string, std::vector<uint16_t>>` with two entries, `shared_ptr`, a set: well-formed and within the guard -/
example : wf (.map .str (.vecPod 2)) [([97], [1, 0, 2, 0]), ([98, 0], [])] = true
    ∧ sizesFit (.map .str (.vecPod 2)) [([97], [1, 0, 2, 0]), ([98, 0], [])] = true := by decide

example : wf (.pair (.ptr (.set (.pod 4))) (.seq .str)) (some [[1, 0, 0, 0], [0, 1, 0, 0]], [[], [0, 0]]) = true
    ∧ sizesFit (.pair (.ptr (.set (.pod 4))) (.seq .str)) (some [[1, 0, 0, 0], [0, 1, 0, 0]], [[], [0, 0]]) = true := by
  decide

/-- `std::multimap<uint8_t, std::multiset<std::string>>` with a repeated key, and a `std::string[2]` member -/
example : wf (.pair (.mmap (.pod 1) (.mset .str)) (.arr .str 2)) ([([1], [[97], [97], [98]]), ([1], [])], [[], [0]]) = true
    ∧ sizesFit (.pair (.mmap (.pod 1) (.mset .str)) (.arr .str 2)) ([([1], [[97], [97], [98]]), ([1], [])], [[], [0]]) = true := by
  decide

/-- a store meeting `hstore`: a single cell -/
example : ∀ (k : Unit) (d : Bytes) (σ : Bytes), (fun (_ : Unit) (σ : Bytes) => σ) k ((fun (_ : Unit) (d : Bytes) (_ : Bytes) => d) k d σ) = d :=
  fun _ _ _ => rfl

/-- hypotheses of the session theorems: a sorted two-entry session map within `save_data`'s limits; the limits are
1024 and 2 MiB -/
example : C06.Sorted [([97], ⟨[1], false⟩), ([98], ⟨[], true⟩)] ∧
    (∀ p ∈ [(([97] : Bytes), (⟨[1], false⟩ : C06.Entry)), ([98], ⟨[], true⟩)], C06.withinLimits p) ∧
    C06.Gen.keyLimit = 1024 ∧ C06.Gen.dataLimit = 2 * 1024 * 1024 := by
  refine ⟨by simp [C06.Sorted]; decide, ?_, rfl, rfl⟩
  intro p hp
  simp only [List.mem_cons, List.not_mem_nil, or_false] at hp
  rcases hp with rfl | rfl <;> exact ⟨by decide, by decide⟩

/-- hypotheses of `cache_store_data_fetch_data_roundtrip`: a history around the store in which nothing fails and
nothing invalidates key `k` (another key stored, a fetch, a rise of an unrelated trigger) -/
example : (∀ op ∈ [C07.Op.store 0 [107, 50] [1] [] 10] ++ C07.Op.store 5 [107] [2, 3] [[116]] 100 none {} ::
      [C07.Op.fetch 6 [107], C07.Op.rise [120]], op.quiet) ∧
    (∀ op ∈ [C07.Op.fetch 6 [107], C07.Op.rise [120]], op.invalidates [107] (C07.ownTrigs [107] [[116]]) = false) ∧
    ¬ (100 : C07.Time) < 50 := by
  refine ⟨?_, by decide, by decide⟩
  intro op hop
  simp only [List.cons_append, List.nil_append, List.mem_cons, List.not_mem_nil, or_false] at hop
  rcases hop with rfl | rfl | rfl | rfl <;> simp [C07.Op.quiet]

/-- a multimap archive with keys 2,1,2,1 (values a,b,c,d): loads as 1→b, 1→d, 2→a, 2→c -/
example : ∃ s, loadArchive (.mmap (.pod 1) .str)
    [8,0,0,0, 4,0,0,0,0,0,0,0,  1,0,0,0,2, 1,0,0,0,97,  1,0,0,0,1, 1,0,0,0,98,  1,0,0,0,2, 1,0,0,0,99,  1,0,0,0,1, 1,0,0,0,100]
    = .ok [([1], [98]), ([1], [100]), ([2], [97]), ([2], [99])] s := ⟨_, rfl⟩

/-- the same bytes as a `std::map`: the first entry of each key wins -/
example : ∃ s, loadArchive (.map (.pod 1) .str)
    [8,0,0,0, 4,0,0,0,0,0,0,0,  1,0,0,0,2, 1,0,0,0,97,  1,0,0,0,1, 1,0,0,0,98,  1,0,0,0,2, 1,0,0,0,99,  1,0,0,0,1, 1,0,0,0,100]
    = .ok [([1], [98]), ([2], [97])] s := ⟨_, rfl⟩

/-- why the placement of `value_type tmp;` matters: the same bytes (`kind = 0`, nothing else) loaded into an object that still holds
the previous element's optional member keep that member, loaded into a default-constructed object they do not -/
example : (∃ s, loadTaggedInto (load [4,0,0,0, 0,0,0,0] .str) (load [4,0,0,0, 0,0,0,0] (.vecPod 4)) ([1,0,0,0], [104, 105], []) [4,0,0,0, 0,0,0,0] St.init
      = .ok ([0,0,0,0], [104, 105], []) s) ∧
    (∃ s, load [4,0,0,0, 0,0,0,0] (.tagged .str (.vecPod 4)) St.init = .ok ([0,0,0,0], [], []) s) := ⟨⟨_, rfl⟩, ⟨_, rfl⟩⟩

/-- a vector of three tagged records (kind 1 with note "hi", kind 0, kind 2 with one number): well-formed, and the unselected members are default -/
example : wf (.seq (.tagged .str (.vecPod 4))) [([1,0,0,0], [104, 105], []), ([0,0,0,0], [], []), ([2,0,0,0], [], [7,0,0,0])] = true
    ∧ wf (.seq (.tagged .str (.vecPod 4))) [([0,0,0,0], [104, 105], [])] = false := by decide

/-- a malformed set archive (elements 2, 1, 2 in that order) loads as the sorted, duplicate-free set {1, 2} -/
example : ∃ s, loadArchive (.set (.pod 1)) [8,0,0,0, 3,0,0,0,0,0,0,0, 1,0,0,0, 2, 1,0,0,0, 1, 1,0,0,0, 2] = .ok [[1], [2]] s :=
  ⟨_, rfl⟩

/-- the hypotheses of `json_law_from_C11` / `json_value_roundtrip` are met by `{"a":[1,"x",null]}` with the
executable binary64 conversions (`NumLaw` for the set `{1.0}`, `rt = id`: C11's `numLaw_one`) -/
example : @jsonRT (c11Codec C11.F64.ops) .json (.obj [([97], .arr [.num C11.Props.one, .str [120], .null])]) := by
  open C11 C11.Spec in
  refine json_law_from_C11 C11.F64.ops (fun x => x = C11.Props.one) id C11.Props.numLaw_one _
    (by simp [NoUndefined, Forall, ForallM, ForallL, DefinedNode])
    (by
      have u1 : Utf8 [97] := by simpa using Utf8.cons [97] [] (Utf8Char.u1 97 (by decide)) Utf8.nil
      have u2 : Utf8 [120] := by simpa using Utf8.cons [120] [] (Utf8Char.u1 120 (by decide)) Utf8.nil
      simp [AllStringsUtf8, Forall, ForallM, ForallL, StrNode, keys, u1, u2])
    (by simp [NumsFinite, Forall, ForallM, ForallL, FinNode])
    (by simp [KeysSorted, Forall, ForallM, ForallL, SortedNode, keys])
    (by decide +kernel)
    (by simp [mapNum, mapNumM, mapNumL])

/-- an unsorted "set" is not a value of the type -/
example : wf (.set (.pod 4)) [[0, 1, 0, 0], [1, 0, 0, 0]] = false := by decide

/-- the D1 witness `07 00 00 00 41 42 43 44` is rejected with "Invalid archive_format" after reading only the header -/
example : loadArchive .str [7, 0, 0, 0, 65, 66, 67, 68] = .err .size ⟨0, [(0, 4)]⟩ := by rfl

/-- a valid 8-byte archive of the string "ABCD" -/
example : loadArchive .str [4, 0, 0, 0, 65, 66, 67, 68] = .ok [65, 66, 67, 68] ⟨8, [(4, 4), (0, 4)]⟩ := by rfl

/-- a truncated archive -/
example : loadArchive (.seq .str) [8, 0, 0, 0, 2, 0, 0, 0, 0, 0, 0, 0, 1, 0, 0, 0, 65, 1, 0]
    = .err .hdr ⟨17, [(16, 1), (12, 4), (4, 8), (0, 4)]⟩ := by rfl

end Cppcms.C19.Props
