import Cppcms.Common
import Cppcms.C19.Gen
/-!
# C19 model: `cppcms::archive` and the `archive_traits` of `cppcms/archive_traits.h`

* `archive` in load mode = the immutable buffer `b : Bytes` plus a state `St` (`ptr_` and the list of
  index intervals `(offset, length)` that the code has read from `buffer_.c_str()`).  The conditions,
  offsets and `ptr_` updates of `eof`, `next_chunk_size`, `read_chunk`, `read_chunk_as_string` come from
  `Gen.lean` (regenerated from `src/archive.cpp` on every run, `size_t` arithmetic mod 2^64); the order
  of the statements is transcribed by hand and tied by the correspondence run.
* `write_chunk` = `chunk` (length truncated to `uint32_t`; byte order and `sizeof(size_t)` of the target come from the
  compiler's macros via `Gen`).
* A type universe `Ty` with values `Val ty`, and generic `save` / `load` following `archive_traits`:
  arithmetic types (`pod n`: `n` raw bytes), `std::string`, `std::vector<POD>` (`vecPod n`), sequence
  containers `std::vector<T>` / `std::list<T>` (`seq`), `std::set` (`set`), `std::map` (`map`), `std::pair`
  and two-member serializable classes (`pair`), smart pointers (`ptr`).
A read never "fails" in the model: `slice` returns what is inside the buffer.  Memory safety is the
*theorem* that every recorded interval lies inside `[0, b.length)` (`Props.load_safe`).
-/
namespace Cppcms.C19
open Cppcms

/-- `cppcms::json::value` and its text form, as far as the archive is concerned: external to this model
(property C11).  `write` = `value::save(std::ostream&, compact)` (`none`: it throws `bad_value_cast`, e.g. on an
undefined member), `read` = `value::load(std::istream&, full = true)` into a value (`none`: it returns false).
The driver instantiates it with C11's executable parser and writer; the theorems are stated for any codec. -/
class JsonCodec where
  J : Type
  write : J → Option Bytes
  read : Bytes → Option J
  /-- the default-constructed `json::value` (undefined), and its recogniser -/
  dflt : J
  isDflt : J → Bool
  isDflt_eq : ∀ x, isDflt x = true → x = dflt
  isDflt_dflt : isDflt dflt = true

variable [JsonCodec]

/-! ## bytes and little-endian numbers -/

/-- little-endian value of a byte string -/
def leNat : Bytes → Nat
  | [] => 0
  | c :: rest => c.toNat + 256 * leNat rest

/-- the `k` low bytes of `n`, little endian -/
def leBytes : Nat → Nat → Bytes
  | 0, _ => []
  | k + 1, n => UInt8.ofNat (n % 256) :: leBytes k (n / 256)

/-- `len` bytes of `b` starting at `off` (what a `memcpy` from `buffer_.c_str()+off` delivers, as far
as the buffer goes) -/
def slice (b : Bytes) (off len : Nat) : Bytes := (b.drop off).take len

/-- the object representation of an unsigned integer of `k` bytes (`memcpy(&x,…)`), byte order of the target -/
def numBytes (k n : Nat) : Bytes := if Gen.littleEndian then leBytes k n else (leBytes k n).reverse

/-- the unsigned integer whose object representation is `b` -/
def numVal (b : Bytes) : Nat := if Gen.littleEndian then leNat b else leNat b.reverse

/-- `sizeof(size_t)` on the target -/
def sizeofSizeT : Nat := Gen.sizeofSizeT

/-! ## writing -/

/-- `archive::write_chunk(begin,len)`: `uint32_t size = len` (truncating), 4 bytes of it, then the data -/
def chunk (data : Bytes) : Bytes :=
  numBytes Gen.wrHdrLen (data.length % 2 ^ Gen.wrSizeBits) ++ data

/-- `archive_traits<size_t>::save(n,a)` -/
def saveCount (n : Nat) : Bytes := chunk (numBytes sizeofSizeT n)

/-! ## the reader -/

inductive Err
  | eof      -- "At end of archive"
  | hdr      -- "Invalid archive format"   (fewer than 4 bytes left)
  | size     -- "Invalid archive_format"   (length rejected)
  | len      -- "Invalid block length"     (read_chunk: next != len)
  | json     -- "Invalid json"             (archive_traits<json::value>::load: value::load returned false)
  deriving DecidableEq, Repr

structure St where
  ptr : Nat
  reads : List (Nat × Nat)      -- (offset, length), newest first
  deriving Repr

inductive Res (α : Type)
  | ok (a : α) (s : St)
  | err (e : Err) (s : St)

def Res.st {α} : Res α → St
  | .ok _ s => s
  | .err _ s => s

/-- sequencing: an exception ends the load -/
def Res.bind {α β} (r : Res α) (f : α → St → Res β) : Res β :=
  match r with
  | .err e s => .err e s
  | .ok a s => f a s

def Res.map {α β} (f : α → β) (r : Res α) : Res β :=
  match r with
  | .err e s => .err e s
  | .ok a s => .ok (f a) s

def St.read (s : St) (off len : Nat) : St := { s with reads := (off, len) :: s.reads }

/-- `size_t archive::next_chunk_size()` -/
def nextChunkSize (b : Bytes) (s : St) : Res Nat :=
  if Gen.eofCond s.ptr b.length then .err .eof s
  else if Gen.hdrShort s.ptr b.length then .err .hdr s
  else
    let s1 := s.read (Gen.hdrReadOff s.ptr) Gen.hdrReadLen
    let size := numVal (slice b (Gen.hdrReadOff s.ptr) Gen.hdrReadLen) % 2 ^ Gen.rdSizeBits
    if Gen.sizeBad s.ptr size b.length then .err .size s1 else .ok size s1

/-- `void archive::read_chunk(void *begin,size_t len)`; result = the bytes copied to `begin` -/
def readChunk (b : Bytes) (len : Nat) (s : St) : Res Bytes :=
  (nextChunkSize b s).bind fun next s1 =>
    if Gen.rcMismatch next len then .err .len s1
    else
      let p := Gen.rcSkip s1.ptr
      let s2 := s1.read (Gen.rcReadOff p) (Gen.rcReadLen len)
      .ok (slice b (Gen.rcReadOff p) (Gen.rcReadLen len)) { s2 with ptr := Gen.rcAdvance p len }

/-- `std::string archive::read_chunk_as_string()` -/
def readChunkAsString (b : Bytes) (s : St) : Res Bytes :=
  (nextChunkSize b s).bind fun size s1 =>
    let s2 := s1.read (Gen.rsReadOff s1.ptr) (Gen.rsReadLen size)
    .ok (slice b (Gen.rsReadOff s1.ptr) (Gen.rsReadLen size)) { s2 with ptr := Gen.rsAdvance s1.ptr size }

/-- `bool archive::eof()` -/
def eof (b : Bytes) (s : St) : Bool := Gen.eofCond s.ptr b.length

/-! ## the type universe -/

inductive Ty
  | pod (n : Nat)          -- arithmetic type of `n` bytes: `write_chunk(&d,sizeof(d))`
  | str                    -- std::string
  | vecPod (n : Nat)       -- std::vector<arithmetic type of n bytes>: one chunk, count derived from its size
  | seq (t : Ty)           -- std::vector<T> (T not arithmetic), std::list<T>
  | set (t : Ty)           -- std::set<T>
  | map (k v : Ty)         -- std::map<K,V>
  | pair (a b : Ty)        -- std::pair<A,B>; serializable class with members a, b (`ar & a & b`)
  | ptr (t : Ty)           -- booster::shared_ptr / std::unique_ptr / booster::copy_ptr ...
  | mset (t : Ty)          -- std::multiset<T>
  | mmap (k v : Ty)        -- std::multimap<K,V>
  | arr (t : Ty) (n : Nat) -- T[n], T not arithmetic: n elements, no count (arithmetic T[n] is one chunk = `pod`)
  | json                   -- cppcms::json::value: one chunk holding its compact text
  | tagged (a b : Ty)      -- user class with optional members: `ar & kind; if(kind==1) ar & a; else if(kind==2) ar & b;`
  deriving DecidableEq, Repr

/-- values: PODs and POD vectors are their raw bytes; sets and maps are the in-order element lists -/
def Val : Ty → Type
  | .pod _ => Bytes
  | .str => Bytes
  | .vecPod _ => Bytes
  | .seq t => List (Val t)
  | .set t => List (Val t)
  | .map k v => List (Val k × Val v)
  | .pair a b => Val a × Val b
  | .ptr t => Option (Val t)
  | .mset t => List (Val t)
  | .mmap k v => List (Val k × Val v)
  | .arr t _ => List (Val t)
  | .json => JsonCodec.J
  | .tagged a b => Bytes × Val a × Val b          -- (the `int kind`, member a, member b): the object holds all three

/-- the default-constructed (value-initialised) object of each type: what `value_type tmp;` / `new V()` / `T()` is -/
def dflt : (ty : Ty) → Val ty
  | .pod n => List.replicate n 0
  | .str => []
  | .vecPod _ => []
  | .seq _ => []
  | .set _ => []
  | .map _ _ => []
  | .pair a b => (dflt a, dflt b)
  | .ptr _ => none
  | .mset _ => []
  | .mmap _ _ => []
  | .arr t n => List.replicate n (dflt t)
  | .json => JsonCodec.dflt
  | .tagged a b => (List.replicate 4 0, dflt a, dflt b)

/-! ## ordering of keys (`operator<` of the C++ types) -/

/-- `std::lexicographical_compare` -/
def ltLex {α : Type} (lt : α → α → Bool) : List α → List α → Bool
  | _, [] => false
  | [], _ :: _ => true
  | a :: as, b :: bs => lt a b || (!lt b a && ltLex lt as bs)

def ltByte (a b : UInt8) : Bool := decide (a.toNat < b.toNat)

/-- numeric order of unsigned integer objects -/
def ltNum (a b : Bytes) : Bool := decide (numVal a < numVal b)

/-- the elements of a POD vector: consecutive groups of `n` bytes (`fuel` ≥ length suffices) -/
def chunks (n : Nat) : Nat → Bytes → List Bytes
  | 0, _ => []
  | fuel + 1, b => if b.isEmpty then [] else b.take n :: chunks n fuel (b.drop n)

/-- `std::vector<unsigned T>` as a list of its elements -/
def podElems (n : Nat) (b : Bytes) : List Bytes := chunks n b.length b

/-- `operator<`: unsigned integers numerically (little endian), strings / containers lexicographically,
pairs lexicographically, POD vectors lexicographically over their (unsigned) elements; smart pointers compare
addresses in C++ and are not keys. -/
def lt : (ty : Ty) → Val ty → Val ty → Bool
  | .pod _, a, b => ltNum a b
  | .str, a, b => ltLex ltByte a b
  | .vecPod n, a, b => ltLex ltNum (podElems n a) (podElems n b)
  | .seq t, a, b => ltLex (lt t) a b
  | .set t, a, b => ltLex (lt t) a b
  | .map k v, a, b => ltLex (fun x y => lt k x.1 y.1 || (!lt k y.1 x.1 && lt v x.2 y.2)) a b
  | .pair ta tb, a, b => lt ta a.1 b.1 || (!lt ta b.1 a.1 && lt tb a.2 b.2)
  | .ptr t, a, b =>
    match a, b with
    | none, some _ => true
    | some x, some y => lt t x y
    | _, _ => false
  | .mset t, a, b => ltLex (lt t) a b
  | .mmap k v, a, b => ltLex (fun x y => lt k x.1 y.1 || (!lt k y.1 x.1 && lt v x.2 y.2)) a b
  | .arr t _, a, b => ltLex (lt t) a b
  | .json, _, _ => false          -- json::value has no operator<; never a key
  | .tagged _ _, _, _ => false    -- user classes: whatever operator< they define is theirs; never a key here

/-- `std::set<T>::insert(x)`: position by `<`, an equivalent element already present wins -/
def setInsert {α : Type} (lt : α → α → Bool) (x : α) : List α → List α
  | [] => [x]
  | y :: ys => if lt x y then x :: y :: ys else if lt y x then y :: setInsert lt x ys else y :: ys

/-- `std::map<K,V>::insert(pair)`: position by the key, an existing key wins -/
def mapInsert {α β : Type} (lt : α → α → Bool) (x : α × β) : List (α × β) → List (α × β)
  | [] => [x]
  | y :: ys => if lt x.1 y.1 then x :: y :: ys else if lt y.1 x.1 then y :: mapInsert lt x ys else y :: ys

/-- `std::multiset<T>::insert(x)`: behind the elements that are not greater (equal elements are
indistinguishable for the key types used) -/
def msetInsert {α : Type} (lt : α → α → Bool) (x : α) : List α → List α
  | [] => [x]
  | y :: ys => if lt x y then x :: y :: ys else y :: msetInsert lt x ys

/-- `std::multimap<K,V>::insert(pair)`: at the upper bound of the key (entries with equal keys keep their order) -/
def mmapInsert {α β : Type} (lt : α → α → Bool) (x : α × β) : List (α × β) → List (α × β)
  | [] => [x]
  | y :: ys => if lt x.1 y.1 then x :: y :: ys else y :: mmapInsert lt x ys

/-- which optional member the `kind` of a tagged user class selects -/
def tagSel (tag : Bytes) : Nat := if numVal tag == 1 then 1 else if numVal tag == 2 then 2 else 0

/-! ## save -/

/-- smart pointers: flag byte `empty` (1 = null), then the pointee -/
def savePtr {α : Type} (sv : α → Bytes) : Option α → Bytes
  | none => chunk [1]
  | some x => chunk [0] ++ sv x

def save : (ty : Ty) → Val ty → Bytes
  | .pod _, v => chunk v
  | .str, v => chunk v
  | .vecPod _, v => chunk v
  | .seq t, v => saveCount v.length ++ v.flatMap (save t)
  | .set t, v => saveCount v.length ++ v.flatMap (save t)
  | .map k w, v => saveCount v.length ++ v.flatMap (fun x => save k x.1 ++ save w x.2)
  | .pair a b, v => save a v.1 ++ save b v.2
  | .ptr t, v => savePtr (save t) v
  | .mset t, v => saveCount v.length ++ v.flatMap (save t)
  | .mmap k w, v => saveCount v.length ++ v.flatMap (fun x => save k x.1 ++ save w x.2)
  | .arr t _, v => v.flatMap (save t)
  | .json, v => chunk ((JsonCodec.write v).getD [])     -- meaningful only when `savable` (below): otherwise C++ throws
  | .tagged a b, v => chunk v.1 ++ (if tagSel v.1 == 1 then save a v.2.1 else if tagSel v.1 == 2 then save b v.2.2 else [])

/-- `archive_traits<T>::save` returns normally: no `json::value` inside throws while being written -/
def savable : (ty : Ty) → Val ty → Bool
  | .pod _, _ => true
  | .str, _ => true
  | .vecPod _, _ => true
  | .seq t, v => v.all (savable t)
  | .set t, v => v.all (savable t)
  | .map k w, v => v.all (fun x => savable k x.1 && savable w x.2)
  | .pair a b, v => savable a v.1 && savable b v.2
  | .ptr t, v =>
    match v with
    | none => true
    | some x => savable t x
  | .mset t, v => v.all (savable t)
  | .mmap k w, v => v.all (fun x => savable k x.1 && savable w x.2)
  | .arr t _, v => v.all (savable t)
  | .json, v => (JsonCodec.write v).isSome
  | .tagged a b, v => if tagSel v.1 == 1 then savable a v.2.1 else if tagSel v.1 == 2 then savable b v.2.2 else true

/-- what `archive_traits<T>::save` into a fresh archive produces; `none` = an exception (`json::bad_value_cast`)
leaves the function -/
def saveE (ty : Ty) (v : Val ty) : Option Bytes := if savable ty v then some (save ty v) else none

/-! ## load -/

/-- `for(i=0;i<n;i++) { load element }` : stops at the first exception -/
def loadN {α : Type} (ld : St → Res α) : Nat → St → Res (List α)
  | 0, s => .ok [] s
  | n + 1, s => (ld s).bind fun a s1 => (loadN ld n s1).map (a :: ·)

/-- `archive_traits<size_t>::load(n,a)` -/
def loadCount (b : Bytes) (s : St) : Res Nat := (readChunk b sizeofSizeT s).map numVal

/-- `archive_traits<std::pair<F,S>>::load`, `ar & a & b` of a serializable class -/
def loadPair {α β : Type} (la : St → Res α) (lb : St → Res β) (s : St) : Res (α × β) :=
  (la s).bind fun x s1 => (lb s1).map fun y => (x, y)

/-- what `std::insert_iterator` / `insert` leave in a set / map after the elements were loaded in order -/
def setOfList {α : Type} (lt : α → α → Bool) (l : List α) : List α :=
  l.foldl (fun acc x => setInsert lt x acc) []

def mapOfList {α β : Type} (lt : α → α → Bool) (l : List (α × β)) : List (α × β) :=
  l.foldl (fun acc x => mapInsert lt x acc) []

def msetOfList {α : Type} (lt : α → α → Bool) (l : List α) : List α :=
  l.foldl (fun acc x => msetInsert lt x acc) []

def mmapOfList {α β : Type} (lt : α → α → Bool) (l : List (α × β)) : List (α × β) :=
  l.foldl (fun acc x => mmapInsert lt x acc) []

/-- `archive_traits<json::value>::load`: the chunk as a string, `value::load(ss,true)`, "Invalid json" if it fails -/
def loadJson {α : Type} (rd : Bytes → Option α) (b : Bytes) (s : St) : Res α :=
  (readChunkAsString b s).bind fun text s1 =>
    match rd text with
    | some v => .ok v s1
    | none => .err .json s1

/-- `serialize()` of the tagged user class in load mode, **into an existing object `old`**: `ar & kind`, then only the
member the kind selects is loaded; the other members keep what the target held before.  (`tagLen` = `sizeof(int)`.) -/
def loadTaggedInto {α β : Type} (la : St → Res α) (lb : St → Res β) (old : Bytes × α × β) (b : Bytes) (s : St) :
    Res (Bytes × α × β) :=
  (readChunk b 4 s).bind fun tag s1 =>
    if tagSel tag == 1 then (la s1).map fun x => (tag, x, old.2.2)
    else if tagSel tag == 2 then (lb s1).map fun y => (tag, old.2.1, y)
    else .ok (tag, old.2.1, old.2.2) s1

def load (b : Bytes) : (ty : Ty) → St → Res (Val ty)
  | .pod n, s => readChunk b n s
  | .str, s => readChunkAsString b s
  | .vecPod n, s => (nextChunkSize b s).bind fun sz s1 => readChunk b (Gen.vpLen (Gen.vpCount sz n) n) s1
  | .seq t, s => (loadCount b s).bind fun n s1 => loadN (load b t) n s1
  | .set t, s => (loadCount b s).bind fun n s1 => (loadN (load b t) n s1).map (setOfList (lt t))
  | .map k v, s =>
    (loadCount b s).bind fun n s1 => (loadN (loadPair (load b k) (load b v)) n s1).map (mapOfList (lt k))
  | .pair ta tb, s => loadPair (load b ta) (load b tb) s
  | .ptr t, s =>
    (readChunk b Gen.ptrFlagLen s).bind fun flag s1 =>
      if numVal flag != 0 then .ok none s1 else (load b t s1).map some
  | .mset t, s => (loadCount b s).bind fun n s1 => (loadN (load b t) n s1).map (msetOfList (lt t))
  | .mmap k v, s =>
    (loadCount b s).bind fun n s1 => (loadN (loadPair (load b k) (load b v)) n s1).map (mmapOfList (lt k))
  | .arr t n, s => loadN (load b t) n s
  | .json, s => loadJson JsonCodec.read b s
  | .tagged ta tb, s => loadTaggedInto (load b ta) (load b tb) (List.replicate 4 0, dflt ta, dflt tb) b s

/-- state after `archive::str(bytes)` -/
def St.init : St := { ptr := Gen.strPtr, reads := [] }

/-- `archive a; a.str(bytes); archive_traits<T>::load(v,a)` -/
def loadArchive (ty : Ty) (b : Bytes) : Res (Val ty) := load b ty St.init

end Cppcms.C19
