import Cppcms.C19.Model
import Cppcms.C11.Model
/-!
# The JSON codec of the archive, instantiated with C11's model of `json::value`

`archive_traits<json::value>` writes `value::save(std::ostream&)` (compact) into one chunk and reads it back with
`value::load(std::istream&, full = true)`.  C11 models exactly these two functions (`C11.save ops readable`,
`C11.parseStream ops full`; the two flags are regenerated from `archive_traits.h`: compact, full) for any choice `ops` of the external numeric conversions; `F64.ops` is the executable one used by
the drivers.  No C11 lemma is imported here (the driver links this file).
-/
namespace Cppcms.C19
open Cppcms

/-- `json::value` ↔ text as C11 models it, for numeric conversions `ops` -/
@[reducible] def c11Codec {N : Type} (ops : C11.NumOps N) : JsonCodec where
  J := C11.Value N
  write := C11.save ops Gen.jsonSaveReadable
  read := fun text => (C11.parseStream ops Gen.jsonLoadFull text).map (·.1)
  dflt := .undef
  isDflt := fun v => match v with | .undef => true | _ => false
  isDflt_eq := by intro x h; cases x <;> first | rfl | cases h
  isDflt_dflt := rfl

end Cppcms.C19
