import Cppcms.Common
import Cppcms.C19.Model
/-!
# C19 specification vocabulary

Predicates the property theorems are stated with (and that the judge evaluates on outputs of the
real code).  They use the model only for its vocabulary (`Ty`, `Val`, `lt`, `St`, `save`).
-/
namespace Cppcms.C19.Spec
open Cppcms Cppcms.C19

variable [JsonCodec]

/-- every recorded read `(offset,length)` lies inside a buffer of `n` bytes -/
def ReadsWithin (n : Nat) (reads : List (Nat × Nat)) : Prop :=
  ∀ iv ∈ reads, iv.1 + iv.2 ≤ n

/-- `r x y` for every `x` before `y` -/
def pairwiseB {α : Type} (r : α → α → Bool) : List α → Bool
  | [] => true
  | x :: xs => xs.all (r x) && pairwiseB r xs

/-- well-formed values: PODs have their size, POD vectors a whole number of elements, sets and map
keys are strictly increasing, multisets and multimap keys non-decreasing (what the containers can hold),
arrays have their length -/
def wf : (ty : Ty) → Val ty → Bool
  | .pod n, v => v.length == n
  | .str, _ => true
  | .vecPod n, v => v.length % n == 0
  | .seq t, v => v.all (wf t)
  | .set t, v => v.all (wf t) && pairwiseB (lt t) v
  | .map k w, v => v.all (fun x => wf k x.1 && wf w x.2) && pairwiseB (fun x y => lt k x.1 y.1) v
  | .pair a b, v => wf a v.1 && wf b v.2
  | .ptr t, v =>
    match v with
    | none => true
    | some x => wf t x
  | .mset t, v => v.all (wf t) && pairwiseB (fun x y => !lt t y x) v
  | .mmap k w, v => v.all (fun x => wf k x.1 && wf w x.2) && pairwiseB (fun x y => !lt k y.1 x.1) v
  | .arr t n, v => v.length == n && v.all (wf t)
  | .json, _ => true

/-- the guard under which `write_chunk`'s `uint32_t size = len` and the `size_t` element counts do
not truncate: every chunk payload is shorter than 2^32 bytes, every count below 2^64 -/
def sizesFit : (ty : Ty) → Val ty → Bool
  | .pod _, v => decide (v.length < 2 ^ 32)
  | .str, v => decide (v.length < 2 ^ 32)
  | .vecPod _, v => decide (v.length < 2 ^ 32)
  | .seq t, v => decide (v.length < 2 ^ 64) && v.all (sizesFit t)
  | .set t, v => decide (v.length < 2 ^ 64) && v.all (sizesFit t)
  | .map k w, v => decide (v.length < 2 ^ 64) && v.all (fun x => sizesFit k x.1 && sizesFit w x.2)
  | .pair a b, v => sizesFit a v.1 && sizesFit b v.2
  | .ptr t, v =>
    match v with
    | none => true
    | some x => sizesFit t x
  | .mset t, v => decide (v.length < 2 ^ 64) && v.all (sizesFit t)
  | .mmap k w, v => decide (v.length < 2 ^ 64) && v.all (fun x => sizesFit k x.1 && sizesFit w x.2)
  | .arr t _, v => v.all (sizesFit t)
  | .json, v =>
    match JsonCodec.write v with
    | some text => decide (text.length < 2 ^ 32)
    | none => false

def allP {α : Type} (P : α → Prop) (l : List α) : Prop := ∀ x ∈ l, P x
def optP {α : Type} (P : α → Prop) (o : Option α) : Prop := ∀ x, o = some x → P x

/-- the law of the external JSON codec that the round trip of a value needs: every `json::value` inside it can
be written, and reading the written text gives the same value back (C11's write/parse round trip) -/
def jsonRT : (ty : Ty) → Val ty → Prop
  | .pod _, _ => True
  | .str, _ => True
  | .vecPod _, _ => True
  | .seq t, v => allP (jsonRT t) v
  | .set t, v => allP (jsonRT t) v
  | .map k w, v => allP (fun x => jsonRT k x.1 ∧ jsonRT w x.2) v
  | .pair a b, v => jsonRT a v.1 ∧ jsonRT b v.2
  | .ptr t, v => optP (jsonRT t) v
  | .mset t, v => allP (jsonRT t) v
  | .mmap k w, v => allP (fun x => jsonRT k x.1 ∧ jsonRT w x.2) v
  | .arr t _, v => allP (jsonRT t) v
  | .json, v => ∃ text, JsonCodec.write v = some text ∧ JsonCodec.read text = some v

/-- types with a value `operator<` in C++ (usable as keys of the ordered containers): everything except smart
pointers (they compare addresses) and `json::value` (no `operator<`) -/
def keyable : Ty → Bool
  | .pod _ => true
  | .str => true
  | .vecPod _ => true
  | .seq t => keyable t
  | .set t => keyable t
  | .map k w => keyable k && keyable w
  | .pair a b => keyable a && keyable b
  | .ptr _ => false
  | .mset t => keyable t
  | .mmap k w => keyable k && keyable w
  | .arr t _ => keyable t
  | .json => false

/-- types whose archives are canonical (no set/map re-ordering, no pointer flag): a successful load
must have consumed exactly `save` of the value it returned -/
def flat : Ty → Bool
  | .pod _ => true
  | .str => true
  | .vecPod _ => true
  | .seq t => flat t
  | .set _ => false
  | .map _ _ => false
  | .pair a b => flat a && flat b
  | .ptr _ => false
  | .mset _ => false
  | .mmap _ _ => false
  | .arr t _ => flat t
  | .json => false

/-- Judge for one successful load of the real code: archive `b`, returned value `v`, final `ptr_ = p`.
The cursor stayed inside the archive, the value is one the C++ type can hold, and for canonical
types the consumed prefix is exactly the serialization of the value. -/
def loadOutputOk (ty : Ty) (b : Bytes) (v : Val ty) (p : Nat) : Bool :=
  decide (p ≤ b.length) && wf ty v && (!flat ty || save ty v == b.take p)

end Cppcms.C19.Spec
