import Cppcms.Common
import Cppcms.C19.Model
/-!
# C19 specification vocabulary

Predicates the property theorems are stated with (and that the judge evaluates on outputs of the
real code).  They use the model only for its vocabulary (`Ty`, `Val`, `lt`, `St`, `save`).
-/
namespace Cppcms.C19.Spec
open Cppcms Cppcms.C19

variable [JsonCodec]

/-- every recorded read `(offset,length)` lies inside a buffer of `n` bytes -/
def ReadsWithin (n : Nat) (reads : List (Nat × Nat)) : Prop :=
  ∀ iv ∈ reads, iv.1 + iv.2 ≤ n

/-- `r x y` for every `x` before `y` -/
def pairwiseB {α : Type} (r : α → α → Bool) : List α → Bool
  | [] => true
  | x :: xs => xs.all (r x) && pairwiseB r xs

/-- `n` zero bytes -/
def bytesAreZero (n : Nat) (v : Bytes) : Bool := v == List.replicate n 0

/-- recogniser of the default-constructed object -/
def isDflt : (ty : Ty) → Val ty → Bool
  | .pod n, v => bytesAreZero n v
  | .str, v => v.isEmpty
  | .vecPod _, v => v.isEmpty
  | .seq _, v => v.isEmpty
  | .set _, v => v.isEmpty
  | .map _ _, v => v.isEmpty
  | .pair a b, v => isDflt a v.1 && isDflt b v.2
  | .ptr _, v => v.isNone
  | .mset _, v => v.isEmpty
  | .mmap _ _, v => v.isEmpty
  | .arr t n, v => v.length == n && v.all (isDflt t)
  | .json, v => JsonCodec.isDflt v
  | .tagged a b, v => bytesAreZero 4 v.1 && isDflt a v.2.1 && isDflt b v.2.2

/-- well-formed values: PODs have their size, POD vectors a whole number of elements, sets and map
keys are strictly increasing, multisets and multimap keys non-decreasing (what the containers can hold),
arrays have their length; a tagged user class holds default values in the members its kind does not select (those
members are not serialised, so anything else would be lost by the class's own `serialize`) -/
def wf : (ty : Ty) → Val ty → Bool
  | .pod n, v => v.length == n
  | .str, _ => true
  | .vecPod n, v => v.length % n == 0
  | .seq t, v => v.all (wf t)
  | .set t, v => v.all (wf t) && pairwiseB (lt t) v
  | .map k w, v => v.all (fun x => wf k x.1 && wf w x.2) && pairwiseB (fun x y => lt k x.1 y.1) v
  | .pair a b, v => wf a v.1 && wf b v.2
  | .ptr t, v =>
    match v with
    | none => true
    | some x => wf t x
  | .mset t, v => v.all (wf t) && pairwiseB (fun x y => !lt t y x) v
  | .mmap k w, v => v.all (fun x => wf k x.1 && wf w x.2) && pairwiseB (fun x y => !lt k y.1 x.1) v
  | .arr t n, v => v.length == n && v.all (wf t)
  | .json, _ => true
  | .tagged a b, v =>
    v.1.length == 4 &&
      (if tagSel v.1 == 1 then wf a v.2.1 && isDflt b v.2.2
       else if tagSel v.1 == 2 then isDflt a v.2.1 && wf b v.2.2
       else isDflt a v.2.1 && isDflt b v.2.2)

/-- the guard under which `write_chunk`'s `uint32_t size = len` and the `size_t` element counts do
not truncate: every chunk payload is shorter than 2^32 bytes, every count below 2^64 -/
def sizesFit : (ty : Ty) → Val ty → Bool
  | .pod _, v => decide (v.length < 2 ^ 32)
  | .str, v => decide (v.length < 2 ^ 32)
  | .vecPod _, v => decide (v.length < 2 ^ 32)
  | .seq t, v => decide (v.length < 2 ^ 64) && v.all (sizesFit t)
  | .set t, v => decide (v.length < 2 ^ 64) && v.all (sizesFit t)
  | .map k w, v => decide (v.length < 2 ^ 64) && v.all (fun x => sizesFit k x.1 && sizesFit w x.2)
  | .pair a b, v => sizesFit a v.1 && sizesFit b v.2
  | .ptr t, v =>
    match v with
    | none => true
    | some x => sizesFit t x
  | .mset t, v => decide (v.length < 2 ^ 64) && v.all (sizesFit t)
  | .mmap k w, v => decide (v.length < 2 ^ 64) && v.all (fun x => sizesFit k x.1 && sizesFit w x.2)
  | .arr t _, v => v.all (sizesFit t)
  | .json, v =>
    match JsonCodec.write v with
    | some text => decide (text.length < 2 ^ 32)
    | none => false
  | .tagged a b, v => if tagSel v.1 == 1 then sizesFit a v.2.1 else if tagSel v.1 == 2 then sizesFit b v.2.2 else true

def allP {α : Type} (P : α → Prop) (l : List α) : Prop := ∀ x ∈ l, P x
def optP {α : Type} (P : α → Prop) (o : Option α) : Prop := ∀ x, o = some x → P x

/-- the law of the external JSON codec that the round trip of a value needs: every `json::value` inside it can
be written, and reading the written text gives the same value back (C11's write/parse round trip) -/
def jsonRT : (ty : Ty) → Val ty → Prop
  | .pod _, _ => True
  | .str, _ => True
  | .vecPod _, _ => True
  | .seq t, v => allP (jsonRT t) v
  | .set t, v => allP (jsonRT t) v
  | .map k w, v => allP (fun x => jsonRT k x.1 ∧ jsonRT w x.2) v
  | .pair a b, v => jsonRT a v.1 ∧ jsonRT b v.2
  | .ptr t, v => optP (jsonRT t) v
  | .mset t, v => allP (jsonRT t) v
  | .mmap k w, v => allP (fun x => jsonRT k x.1 ∧ jsonRT w x.2) v
  | .arr t _, v => allP (jsonRT t) v
  | .json, v => ∃ text, JsonCodec.write v = some text ∧ JsonCodec.read text = some v
  | .tagged a b, v => (tagSel v.1 = 1 → jsonRT a v.2.1) ∧ (tagSel v.1 = 2 → jsonRT b v.2.2)

/-- types with a value `operator<` in C++ (usable as keys of the ordered containers): everything except smart
pointers (they compare addresses) and `json::value` (no `operator<`) -/
def keyable : Ty → Bool
  | .pod _ => true
  | .str => true
  | .vecPod _ => true
  | .seq t => keyable t
  | .set t => keyable t
  | .map k w => keyable k && keyable w
  | .pair a b => keyable a && keyable b
  | .ptr _ => false
  | .mset t => keyable t
  | .mmap k w => keyable k && keyable w
  | .arr t _ => keyable t
  | .json => false
  | .tagged _ _ => false

/-- `Steps ld s l s'`: starting in state `s`, the elements of `l` are produced one after the other by the *same*
state-only function `ld` (each from the state the previous one left), ending in `s'`: no element's result depends
on the value of another element. -/
inductive Steps {α : Type} (ld : St → Res α) : St → List α → St → Prop
  | nil (s : St) : Steps ld s [] s
  | cons (s s1 s2 : St) (a : α) (as : List α) : ld s = .ok a s1 → Steps ld s1 as s2 → Steps ld s (a :: as) s2

/-- types whose archives are canonical (no set/map re-ordering, no pointer flag): a successful load
must have consumed exactly `save` of the value it returned -/
def flat : Ty → Bool
  | .pod _ => true
  | .str => true
  | .vecPod _ => true
  | .seq t => flat t
  | .set _ => false
  | .map _ _ => false
  | .pair a b => flat a && flat b
  | .ptr _ => false
  | .mset _ => false
  | .mmap _ _ => false
  | .arr t _ => flat t
  | .json => false
  | .tagged a b => flat a && flat b

/-- Judge for one successful load of the real code: archive `b`, returned value `v`, final `ptr_ = p`.
The cursor stayed inside the archive, the value is one the C++ type can hold, and for canonical
types the consumed prefix is exactly the serialization of the value. -/
def loadOutputOk (ty : Ty) (b : Bytes) (v : Val ty) (p : Nat) : Bool :=
  decide (p ≤ b.length) && wf ty v && (!flat ty || save ty v == b.take p)

end Cppcms.C19.Spec
