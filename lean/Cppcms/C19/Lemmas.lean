import Cppcms.C19.Model
import Cppcms.C19.Spec
/-!
# C19 helper lemmas
-/
namespace Cppcms.C19
open Cppcms Cppcms.C19.Spec

/-! ## memory safety of the reader -/

/-- invariant of the load state: the cursor is inside the buffer and so is every read so far -/
def Safe (b : Bytes) (s : St) : Prop := s.ptr ≤ b.length ∧ ReadsWithin b.length s.reads

theorem readsWithin_cons {n off len : Nat} {l : List (Nat × Nat)} (h : off + len ≤ n) (hl : ReadsWithin n l) :
    ReadsWithin n ((off, len) :: l) := by
  intro iv hiv
  rcases List.mem_cons.mp hiv with h1 | h1
  · subst h1; exact h
  · exact hl iv h1

/-- `next_chunk_size` on a safe state: stays safe; on success `ptr_` is unchanged and the whole
chunk (header and payload) lies inside the buffer.  This is where the bound of the source is used. -/
theorem nextChunkSize_spec (b : Bytes) (hb : b.length < 2 ^ 64) (s : St) (hs : Safe b s) :
    match nextChunkSize b s with
    | .ok n s' => s'.ptr = s.ptr ∧ s.ptr + 4 + n ≤ b.length ∧ Safe b s'
    | .err _ s' => Safe b s' := by
  obtain ⟨hp, hr⟩ := hs
  unfold nextChunkSize
  by_cases h1 : Gen.eofCond s.ptr b.length = true
  · rw [if_pos h1]; exact ⟨hp, hr⟩
  rw [if_neg h1]
  by_cases h2 : Gen.hdrShort s.ptr b.length = true
  · rw [if_pos h2]; exact ⟨hp, hr⟩
  rw [if_neg h2]
  simp only [Gen.eofCond, Gen.hdrShort, decide_eq_true_eq] at h1 h2
  have hread : ReadsWithin b.length (s.read (Gen.hdrReadOff s.ptr) Gen.hdrReadLen).reads := by
    apply readsWithin_cons _ hr
    simp only [Gen.hdrReadOff, Gen.hdrReadLen]
    omega
  have hlt : numVal (slice b (Gen.hdrReadOff s.ptr) Gen.hdrReadLen) % 2 ^ Gen.rdSizeBits < 2 ^ 32 := by
    apply Nat.lt_of_lt_of_le (Nat.mod_lt _ (Nat.two_pow_pos _))
    simp [Gen.rdSizeBits]
  generalize numVal (slice b (Gen.hdrReadOff s.ptr) Gen.hdrReadLen) % 2 ^ Gen.rdSizeBits = sz at hlt ⊢
  by_cases h3 : Gen.sizeBad s.ptr sz b.length = true
  · rw [if_pos h3]; exact ⟨hp, hread⟩
  rw [if_neg h3]
  simp only [Gen.sizeBad, Bool.or_eq_true, decide_eq_true_eq, not_or] at h3
  refine ⟨rfl, ?_, hp, hread⟩
  omega

@[simp] theorem Res.bind_ok {α β} (a : α) (s : St) (f : α → St → Res β) : (Res.ok a s).bind f = f a s := rfl
@[simp] theorem Res.bind_err {α β} (e : Err) (s : St) (f : α → St → Res β) : (Res.err e s : Res α).bind f = .err e s := rfl
@[simp] theorem Res.map_ok {α β} (a : α) (s : St) (f : α → β) : (Res.ok a s).map f = .ok (f a) s := rfl
@[simp] theorem Res.map_err {α β} (e : Err) (s : St) (f : α → β) : (Res.err e s : Res α).map f = .err e s := rfl
@[simp] theorem Res.st_ok {α} (a : α) (s : St) : (Res.ok a s).st = s := rfl
@[simp] theorem Res.st_err {α} (e : Err) (s : St) : (Res.err e s : Res α).st = s := rfl
@[simp] theorem Res.st_map {α β} (r : Res α) (f : α → β) : (r.map f).st = r.st := by cases r <;> rfl

/-- `read_chunk(begin,len)` on a safe state -/
theorem readChunk_spec (b : Bytes) (hb : b.length < 2 ^ 64) (len : Nat) (s : St) (hs : Safe b s) :
    match readChunk b len s with
    | .ok d s' => s'.ptr = s.ptr + 4 + len ∧ Safe b s' ∧ d = slice b (s.ptr + 4) len
    | .err _ s' => Safe b s' := by
  have h := nextChunkSize_spec b hb s hs
  unfold readChunk
  cases hn : nextChunkSize b s with
  | err e s1 => rw [hn] at h; exact h
  | ok next s1 =>
    rw [hn] at h
    obtain ⟨hp, hle, hs1⟩ := h
    rw [Res.bind_ok]
    by_cases hm : Gen.rcMismatch next len = true
    · rw [if_pos hm]; exact hs1
    rw [if_neg hm]
    simp only [Gen.rcMismatch, bne_iff_ne, ne_eq, decide_eq_true_eq, Decidable.not_not] at hm
    subst hm
    simp only [St.read, Gen.rcSkip, Gen.rcReadOff, Gen.rcReadLen, Gen.rcAdvance, hp]
    have e1 : (s.ptr + 4) % 18446744073709551616 = s.ptr + 4 := by omega
    have e2 : (s.ptr + 4 + next) % 18446744073709551616 = s.ptr + 4 + next := by omega
    rw [e1, e2]
    refine ⟨rfl, ⟨?_, ?_⟩, by simp⟩
    · simp only; omega
    · exact readsWithin_cons (by omega) hs1.2

/-- `read_chunk_as_string()` on a safe state -/
theorem readChunkAsString_spec (b : Bytes) (hb : b.length < 2 ^ 64) (s : St) (hs : Safe b s) :
    match readChunkAsString b s with
    | .ok d s' => (∃ n, s'.ptr = s.ptr + 4 + n ∧ d = slice b (s.ptr + 4) n ∧ s.ptr + 4 + n ≤ b.length) ∧ Safe b s'
    | .err _ s' => Safe b s' := by
  have h := nextChunkSize_spec b hb s hs
  unfold readChunkAsString
  cases hn : nextChunkSize b s with
  | err e s1 => rw [hn] at h; exact h
  | ok size s1 =>
    rw [hn] at h
    obtain ⟨hp, hle, hs1⟩ := h
    simp only [Res.bind_ok, St.read, Gen.rsReadOff, Gen.rsReadLen, Gen.rsAdvance, hp]
    have e1 : (s.ptr + (4 + size) % 18446744073709551616) % 18446744073709551616 = s.ptr + 4 + size := by omega
    rw [e1]
    refine ⟨⟨size, rfl, by simp, hle⟩, ⟨?_, ?_⟩⟩
    · simp only; omega
    · exact readsWithin_cons (by omega) hs1.2

theorem nextChunkSize_safe (b : Bytes) (hb : b.length < 2 ^ 64) (s : St) (hs : Safe b s) :
    Safe b (nextChunkSize b s).st := by
  have h := nextChunkSize_spec b hb s hs
  cases hn : nextChunkSize b s with
  | err e s1 => rw [hn] at h; exact h
  | ok n s1 => rw [hn] at h; exact h.2.2

theorem readChunk_safe (b : Bytes) (hb : b.length < 2 ^ 64) (len : Nat) (s : St) (hs : Safe b s) :
    Safe b (readChunk b len s).st := by
  have h := readChunk_spec b hb len s hs
  cases hn : readChunk b len s with
  | err e s1 => rw [hn] at h; exact h
  | ok n s1 => rw [hn] at h; exact h.2.1

theorem readChunkAsString_safe (b : Bytes) (hb : b.length < 2 ^ 64) (s : St) (hs : Safe b s) :
    Safe b (readChunkAsString b s).st := by
  have h := readChunkAsString_spec b hb s hs
  cases hn : readChunkAsString b s with
  | err e s1 => rw [hn] at h; exact h
  | ok n s1 => rw [hn] at h; exact h.2

/-- sequential composition keeps safety -/
theorem bind_safe {α β : Type} (b : Bytes) (r : Res α) (f : α → St → Res β)
    (hr : Safe b r.st) (hf : ∀ a s, Safe b s → Safe b (f a s).st) : Safe b (r.bind f).st := by
  cases r with
  | err e s1 => exact hr
  | ok a s1 => exact hf a s1 hr

theorem map_safe {α β : Type} (b : Bytes) (r : Res α) (f : α → β) (hr : Safe b r.st) : Safe b (r.map f).st := by
  rw [Res.st_map]; exact hr

theorem loadCount_safe (b : Bytes) (hb : b.length < 2 ^ 64) (s : St) (hs : Safe b s) :
    Safe b (loadCount b s).st :=
  map_safe b _ _ (readChunk_safe b hb sizeofSizeT s hs)

theorem loadN_safe {α : Type} (b : Bytes) (ld : St → Res α) (hld : ∀ s, Safe b s → Safe b (ld s).st) :
    ∀ n s, Safe b s → Safe b (loadN ld n s).st := by
  intro n
  induction n with
  | zero => intro s hs; exact hs
  | succ n ih =>
    intro s hs
    unfold loadN
    exact bind_safe b _ _ (hld s hs) (fun a s1 h1 => map_safe b _ _ (ih s1 h1))

theorem loadPair_safe {α β : Type} (b : Bytes) (la : St → Res α) (lb : St → Res β)
    (ha : ∀ s, Safe b s → Safe b (la s).st) (hlb : ∀ s, Safe b s → Safe b (lb s).st) :
    ∀ s, Safe b s → Safe b (loadPair la lb s).st := by
  intro s hs
  unfold loadPair
  exact bind_safe b _ _ (ha s hs) (fun x s1 h1 => map_safe b _ _ (hlb s1 h1))

variable [JsonCodec] in
theorem load_safe_gen (b : Bytes) (hb : b.length < 2 ^ 64) :
    ∀ (ty : Ty) (s : St), Safe b s → Safe b (load b ty s).st := by
  intro ty
  induction ty with
  | pod n => intro s hs; exact readChunk_safe b hb n s hs
  | str => intro s hs; exact readChunkAsString_safe b hb s hs
  | vecPod n =>
    intro s hs
    unfold load
    exact bind_safe b _ _ (nextChunkSize_safe b hb s hs) (fun sz s1 h1 => readChunk_safe b hb _ s1 h1)
  | seq t ih =>
    intro s hs
    unfold load
    exact bind_safe b _ _ (loadCount_safe b hb s hs) (fun n s1 h1 => loadN_safe b _ ih n s1 h1)
  | set t ih =>
    intro s hs
    unfold load
    exact bind_safe b _ _ (loadCount_safe b hb s hs) (fun n s1 h1 => map_safe b _ _ (loadN_safe b _ ih n s1 h1))
  | map k v ihk ihv =>
    intro s hs
    unfold load
    exact bind_safe b _ _ (loadCount_safe b hb s hs)
      (fun n s1 h1 => map_safe b _ _ (loadN_safe b _ (loadPair_safe b _ _ ihk ihv) n s1 h1))
  | pair ta tb iha ihb =>
    intro s hs
    unfold load
    exact loadPair_safe b _ _ iha ihb s hs
  | ptr t ih =>
    intro s hs
    unfold load
    refine bind_safe b _ _ (readChunk_safe b hb _ s hs) (fun flag s1 h1 => ?_)
    split
    · exact h1
    · exact map_safe b _ _ (ih s1 h1)
  | mset t ih =>
    intro s hs
    unfold load
    exact bind_safe b _ _ (loadCount_safe b hb s hs) (fun n s1 h1 => map_safe b _ _ (loadN_safe b _ ih n s1 h1))
  | mmap k v ihk ihv =>
    intro s hs
    unfold load
    exact bind_safe b _ _ (loadCount_safe b hb s hs)
      (fun n s1 h1 => map_safe b _ _ (loadN_safe b _ (loadPair_safe b _ _ ihk ihv) n s1 h1))
  | arr t n ih =>
    intro s hs
    unfold load
    exact loadN_safe b _ ih n s hs
  | json =>
    intro s hs
    unfold load loadJson
    refine bind_safe b _ _ (readChunkAsString_safe b hb s hs) (fun text s1 h1 => ?_)
    split <;> exact h1
  | tagged ta tb iha ihb =>
    intro s hs
    unfold load loadTaggedInto
    refine bind_safe b _ _ (readChunk_safe b hb _ s hs) (fun tag s1 h1 => ?_)
    split
    · exact map_safe b _ _ (iha s1 h1)
    · split
      · exact map_safe b _ _ (ihb s1 h1)
      · exact h1

/-! ## little-endian numbers and slices -/

theorem leBytes_length (k n : Nat) : (leBytes k n).length = k := by
  induction k generalizing n with
  | zero => rfl
  | succ k ih => simp [leBytes, ih]

theorem leNat_leBytes (k n : Nat) : leNat (leBytes k n) = n % 256 ^ k := by
  induction k generalizing n with
  | zero => simp [leBytes, leNat, Nat.mod_one]
  | succ k ih =>
    simp only [leBytes, leNat, ih, UInt8.toNat_ofNat']
    have e : 256 ^ (k + 1) = 256 * 256 ^ k := by rw [Nat.pow_succ, Nat.mul_comm]
    rw [e, Nat.mod_mul]
    omega

theorem numBytes_length (k n : Nat) : (numBytes k n).length = k := by
  unfold numBytes; split <;> simp [leBytes_length]

/-- decoding what was encoded: the value modulo 256^k, in either byte order -/
theorem numVal_numBytes (k n : Nat) : numVal (numBytes k n) = n % 256 ^ k := by
  unfold numVal numBytes
  cases Gen.littleEndian <;> simp [leNat_leBytes]

theorem leBytes_leNat : ∀ (b : Bytes), leBytes b.length (leNat b) = b := by
  intro b
  induction b with
  | nil => rfl
  | cons c rest ih =>
    simp only [List.length_cons, leBytes, leNat]
    have h1 : (c.toNat + 256 * leNat rest) % 256 = c.toNat := by have := c.toNat_lt; omega
    have h2 : (c.toNat + 256 * leNat rest) / 256 = leNat rest := by have := c.toNat_lt; omega
    rw [h1, h2, ih]
    simp

/-- encoding what was decoded: a `k`-byte object representation is determined by its value -/
theorem numBytes_numVal (b : Bytes) : numBytes b.length (numVal b) = b := by
  unfold numVal numBytes
  cases Gen.littleEndian
  · simp only [Bool.false_eq_true, if_false]
    have := leBytes_leNat b.reverse
    rw [List.length_reverse] at this
    rw [this, List.reverse_reverse]
  · simp only [if_true]; exact leBytes_leNat b

theorem slice_length (b : Bytes) (off len : Nat) (h : off + len ≤ b.length) : (slice b off len).length = len := by
  simp [slice]; omega

theorem slice_add (b : Bytes) (off m n : Nat) :
    slice b off (m + n) = slice b off m ++ slice b (off + m) n := by
  simp only [slice, List.take_add, List.drop_drop]

/-- the bytes `x` sit in `b` at offset `off` -/
def At (b : Bytes) (off : Nat) (x : Bytes) : Prop := off + x.length ≤ b.length ∧ slice b off x.length = x

theorem At_append {b : Bytes} {off : Nat} {x y : Bytes} :
    At b off (x ++ y) ↔ At b off x ∧ At b (off + x.length) y := by
  unfold At
  rw [List.length_append, slice_add]
  constructor
  · rintro ⟨hl, hs⟩
    have h1 : (slice b off x.length).length = x.length := slice_length b off x.length (by omega)
    obtain ⟨hx, hy⟩ := List.append_inj hs h1
    exact ⟨⟨by omega, hx⟩, ⟨by omega, hy⟩⟩
  · rintro ⟨⟨_, hx⟩, ⟨hl, hy⟩⟩
    exact ⟨by omega, by rw [hx, hy]⟩

theorem At_self (x : Bytes) : At x 0 x := by
  simp [At, slice]

theorem chunk_length (data : Bytes) : (chunk data).length = 4 + data.length := by
  simp [chunk, numBytes_length, Gen.wrHdrLen]

/-! ## reading back what `write_chunk` wrote -/

theorem nextChunkSize_at (b : Bytes) (hb : b.length < 2 ^ 64) (off : Nat) (r : List (Nat × Nat)) (data : Bytes)
    (hd : data.length < 2 ^ 32) (hat : At b off (chunk data)) :
    nextChunkSize b ⟨off, r⟩ = .ok data.length ⟨off, (off, 4) :: r⟩ := by
  unfold chunk at hat
  rw [At_append] at hat
  obtain ⟨⟨hl1, hs1⟩, ⟨hl2, _⟩⟩ := hat
  rw [numBytes_length] at hl1 hs1 hl2
  simp only [Gen.wrHdrLen, Gen.wrSizeBits] at hl1 hs1 hl2
  have hsz : numVal (slice b off 4) % 2 ^ 32 = data.length := by
    rw [hs1, numVal_numBytes]
    have : (256 : Nat) ^ 4 = 2 ^ 32 := by decide
    rw [this, Nat.mod_mod, Nat.mod_mod, Nat.mod_eq_of_lt hd]
  unfold nextChunkSize
  have c1 : Gen.eofCond off b.length = false := by
    simp only [Gen.eofCond, decide_eq_false_iff_not]; omega
  have c2 : Gen.hdrShort off b.length = false := by
    simp only [Gen.hdrShort, decide_eq_false_iff_not]; omega
  have c3 : Gen.sizeBad off data.length b.length = false := by
    simp only [Gen.sizeBad, Bool.or_eq_false_iff, decide_eq_false_iff_not]; omega
  simp only [c1, c2, Gen.hdrReadOff, Gen.hdrReadLen, Gen.rdSizeBits, Nat.zero_add, hsz, c3, St.read]
  rfl

theorem readChunk_at (b : Bytes) (hb : b.length < 2 ^ 64) (off : Nat) (r : List (Nat × Nat)) (data : Bytes)
    (hd : data.length < 2 ^ 32) (hat : At b off (chunk data)) :
    ∃ r', readChunk b data.length ⟨off, r⟩ = .ok data ⟨off + (chunk data).length, r'⟩ := by
  have hn := nextChunkSize_at b hb off r data hd hat
  unfold chunk at hat
  rw [At_append, numBytes_length] at hat
  obtain ⟨⟨hl1, _⟩, ⟨hl2, hs2⟩⟩ := hat
  simp only [Gen.wrHdrLen] at hl1 hl2 hs2
  unfold readChunk
  rw [hn, Res.bind_ok]
  have c1 : Gen.rcMismatch data.length data.length = false := by simp [Gen.rcMismatch]
  have e1 : (off + 4) % 18446744073709551616 = off + 4 := by omega
  have e2 : (off + 4 + data.length) % 18446744073709551616 = off + 4 + data.length := by omega
  simp only [c1, Gen.rcSkip, Gen.rcReadOff, Gen.rcReadLen, Gen.rcAdvance, Nat.zero_add, e1, e2, hs2, St.read,
    chunk_length]
  exact ⟨(off + 4, data.length) :: (off, 4) :: r, by simp [Nat.add_assoc]⟩

theorem readChunkAsString_at (b : Bytes) (hb : b.length < 2 ^ 64) (off : Nat) (r : List (Nat × Nat)) (data : Bytes)
    (hd : data.length < 2 ^ 32) (hat : At b off (chunk data)) :
    ∃ r', readChunkAsString b ⟨off, r⟩ = .ok data ⟨off + (chunk data).length, r'⟩ := by
  have hn := nextChunkSize_at b hb off r data hd hat
  unfold chunk at hat
  rw [At_append, numBytes_length] at hat
  obtain ⟨⟨hl1, _⟩, ⟨hl2, hs2⟩⟩ := hat
  simp only [Gen.wrHdrLen] at hl1 hl2 hs2
  unfold readChunkAsString
  rw [hn, Res.bind_ok]
  have e1 : (off + (4 + data.length) % 18446744073709551616) % 18446744073709551616 = off + 4 + data.length := by omega
  simp only [Gen.rsReadOff, Gen.rsReadLen, Gen.rsAdvance, Nat.zero_add, e1, hs2, St.read, chunk_length]
  exact ⟨(off + 4, data.length) :: (off, 4) :: r, by simp [Nat.add_assoc]⟩

theorem loadCount_at (b : Bytes) (hb : b.length < 2 ^ 64) (off : Nat) (r : List (Nat × Nat)) (n : Nat)
    (hn : n < 2 ^ 64) (hat : At b off (saveCount n)) :
    ∃ r', loadCount b ⟨off, r⟩ = .ok n ⟨off + (saveCount n).length, r'⟩ := by
  unfold saveCount at hat ⊢
  have hl : (numBytes sizeofSizeT n).length = sizeofSizeT := numBytes_length _ _
  obtain ⟨r', h⟩ := readChunk_at b hb off r (numBytes sizeofSizeT n) (by rw [hl]; decide) hat
  rw [hl] at h
  unfold loadCount
  rw [h, Res.map_ok, numVal_numBytes]
  have : (256 : Nat) ^ sizeofSizeT = 2 ^ 64 := by decide
  rw [this, Nat.mod_eq_of_lt hn]
  exact ⟨r', rfl⟩

/-! ## ordering: `operator<` of the model is asymmetric, so inserting an increasing sequence appends -/

theorem ltLex_asymm {α : Type} (lt : α → α → Bool) (h : ∀ a b, lt a b = true → lt b a = false) :
    ∀ x y, ltLex lt x y = true → ltLex lt y x = false := by
  intro x
  induction x with
  | nil => intro y _; cases y <;> rfl
  | cons a as ih =>
    intro y hxy
    cases y with
    | nil => simp [ltLex] at hxy
    | cons c cs =>
      simp only [ltLex, Bool.or_eq_true, Bool.and_eq_true, Bool.not_eq_true'] at hxy
      simp only [ltLex, Bool.or_eq_false_iff, Bool.and_eq_false_iff, Bool.not_eq_false']
      rcases hxy with hac | ⟨hca, hrest⟩
      · exact ⟨h a c hac, Or.inl hac⟩
      · exact ⟨hca, Or.inr (ih cs hrest)⟩

theorem ltNum_asymm (a b : Bytes) (h : ltNum a b = true) : ltNum b a = false := by
  simp only [ltNum, decide_eq_true_eq] at h; simp only [ltNum, decide_eq_false_iff_not]; omega

variable [JsonCodec] in
theorem lt_asymm : ∀ (ty : Ty) (a b : Val ty), lt ty a b = true → lt ty b a = false := by
  intro ty
  induction ty with
  | pod n => intro a b h; exact ltNum_asymm a b h
  | str =>
    intro a b h
    exact ltLex_asymm ltByte (by intro x y hxy; simp only [ltByte, decide_eq_true_eq] at hxy
                                 simp only [ltByte, decide_eq_false_iff_not]; omega) a b h
  | vecPod n => intro a b h; exact ltLex_asymm ltNum ltNum_asymm _ _ h
  | seq t ih => intro a b h; exact ltLex_asymm (lt t) ih a b h
  | set t ih => intro a b h; exact ltLex_asymm (lt t) ih a b h
  | map k v ihk ihv =>
    intro a b h
    refine ltLex_asymm _ ?_ a b h
    intro x y hxy
    simp only [Bool.or_eq_true, Bool.and_eq_true, Bool.not_eq_true'] at hxy
    simp only [Bool.or_eq_false_iff, Bool.and_eq_false_iff, Bool.not_eq_false']
    rcases hxy with h1 | ⟨h1, h2⟩
    · exact ⟨ihk _ _ h1, Or.inl h1⟩
    · exact ⟨h1, Or.inr (ihv _ _ h2)⟩
  | pair ta tb iha ihb =>
    intro a b hxy
    simp only [lt, Bool.or_eq_true, Bool.and_eq_true, Bool.not_eq_true'] at hxy
    simp only [lt, Bool.or_eq_false_iff, Bool.and_eq_false_iff, Bool.not_eq_false']
    rcases hxy with h1 | ⟨h1, h2⟩
    · exact ⟨iha _ _ h1, Or.inl h1⟩
    · exact ⟨h1, Or.inr (ihb _ _ h2)⟩
  | ptr t ih =>
    intro a b h
    cases a with
    | none => cases b <;> simp_all [lt]
    | some x =>
      cases b with
      | none => simp [lt] at h
      | some y => simp only [lt] at h ⊢; exact ih x y h
  | mset t ih => intro a b h; exact ltLex_asymm (lt t) ih a b h
  | mmap k v ihk ihv =>
    intro a b h
    refine ltLex_asymm _ ?_ a b h
    intro x y hxy
    simp only [Bool.or_eq_true, Bool.and_eq_true, Bool.not_eq_true'] at hxy
    simp only [Bool.or_eq_false_iff, Bool.and_eq_false_iff, Bool.not_eq_false']
    rcases hxy with h1 | ⟨h1, h2⟩
    · exact ⟨ihk _ _ h1, Or.inl h1⟩
    · exact ⟨h1, Or.inr (ihv _ _ h2)⟩
  | arr t n ih => intro a b h; exact ltLex_asymm (lt t) ih a b h
  | json => intro a b h; simp [lt] at h
  | tagged ta tb _ _ => intro a b h; simp [lt] at h

theorem setInsert_append {α : Type} (lt : α → α → Bool) (hasym : ∀ a b, lt a b = true → lt b a = false)
    (x : α) : ∀ acc : List α, (∀ y ∈ acc, lt y x = true) → setInsert lt x acc = acc ++ [x] := by
  intro acc
  induction acc with
  | nil => intro _; rfl
  | cons y ys ih =>
    intro h
    have hy : lt y x = true := h y (List.mem_cons_self)
    have hxy : lt x y = false := hasym y x hy
    simp only [setInsert, hxy, hy, if_true, Bool.false_eq_true, if_false, List.cons_append]
    rw [ih (fun z hz => h z (List.mem_cons_of_mem _ hz))]

theorem foldl_setInsert {α : Type} (lt : α → α → Bool) (hasym : ∀ a b, lt a b = true → lt b a = false) :
    ∀ (l acc : List α), pairwiseB lt (acc ++ l) = true →
      l.foldl (fun acc x => setInsert lt x acc) acc = acc ++ l := by
  intro l
  induction l with
  | nil => intro acc _; simp
  | cons x xs ih =>
    intro acc h
    have hacc : ∀ y ∈ acc, lt y x = true := by
      clear ih
      induction acc with
      | nil => intro y hy; cases hy
      | cons a as iha =>
        intro y hy
        simp only [List.cons_append, pairwiseB, Bool.and_eq_true, List.all_eq_true] at h
        rcases List.mem_cons.mp hy with rfl | hy'
        · exact h.1 x (by simp)
        · exact iha h.2 y hy'
    simp only [List.foldl_cons]
    rw [setInsert_append lt hasym x acc hacc, ih (acc ++ [x]) (by simpa using h)]
    simp

theorem setOfList_sorted {α : Type} (lt : α → α → Bool) (hasym : ∀ a b, lt a b = true → lt b a = false)
    (l : List α) (h : pairwiseB lt l = true) : setOfList lt l = l := by
  have := foldl_setInsert lt hasym l [] (by simpa using h)
  simpa [setOfList] using this

theorem mapInsert_append {α β : Type} (lt : α → α → Bool) (hasym : ∀ a b, lt a b = true → lt b a = false)
    (x : α × β) : ∀ acc : List (α × β), (∀ y ∈ acc, lt y.1 x.1 = true) → mapInsert lt x acc = acc ++ [x] := by
  intro acc
  induction acc with
  | nil => intro _; rfl
  | cons y ys ih =>
    intro h
    have hy : lt y.1 x.1 = true := h y (List.mem_cons_self)
    have hxy : lt x.1 y.1 = false := hasym y.1 x.1 hy
    simp only [mapInsert, hxy, hy, if_true, Bool.false_eq_true, if_false, List.cons_append]
    rw [ih (fun z hz => h z (List.mem_cons_of_mem _ hz))]

theorem foldl_mapInsert {α β : Type} (lt : α → α → Bool) (hasym : ∀ a b, lt a b = true → lt b a = false) :
    ∀ (l acc : List (α × β)), pairwiseB (fun x y => lt x.1 y.1) (acc ++ l) = true →
      l.foldl (fun acc x => mapInsert lt x acc) acc = acc ++ l := by
  intro l
  induction l with
  | nil => intro acc _; simp
  | cons x xs ih =>
    intro acc h
    have hacc : ∀ y ∈ acc, lt y.1 x.1 = true := by
      clear ih
      induction acc with
      | nil => intro y hy; cases hy
      | cons a as iha =>
        intro y hy
        simp only [List.cons_append, pairwiseB, Bool.and_eq_true, List.all_eq_true] at h
        rcases List.mem_cons.mp hy with rfl | hy'
        · exact h.1 x (by simp)
        · exact iha h.2 y hy'
    simp only [List.foldl_cons]
    rw [mapInsert_append lt hasym x acc hacc, ih (acc ++ [x]) (by simpa using h)]
    simp

theorem mapOfList_sorted {α β : Type} (lt : α → α → Bool) (hasym : ∀ a b, lt a b = true → lt b a = false)
    (l : List (α × β)) (h : pairwiseB (fun x y => lt x.1 y.1) l = true) : mapOfList lt l = l := by
  have := foldl_mapInsert lt hasym l [] (by simpa using h)
  simpa [mapOfList] using this

/-- inserting a non-decreasing sequence into a multiset appends -/
theorem msetInsert_append {α : Type} (lt : α → α → Bool) (x : α) :
    ∀ acc : List α, (∀ y ∈ acc, lt x y = false) → msetInsert lt x acc = acc ++ [x] := by
  intro acc
  induction acc with
  | nil => intro _; rfl
  | cons y ys ih =>
    intro h
    have hxy : lt x y = false := h y (List.mem_cons_self)
    simp only [msetInsert, hxy, Bool.false_eq_true, if_false, List.cons_append]
    rw [ih (fun z hz => h z (List.mem_cons_of_mem _ hz))]

theorem foldl_msetInsert {α : Type} (lt : α → α → Bool) :
    ∀ (l acc : List α), pairwiseB (fun x y => !lt y x) (acc ++ l) = true →
      l.foldl (fun acc x => msetInsert lt x acc) acc = acc ++ l := by
  intro l
  induction l with
  | nil => intro acc _; simp
  | cons x xs ih =>
    intro acc h
    have hacc : ∀ y ∈ acc, lt x y = false := by
      clear ih
      induction acc with
      | nil => intro y hy; cases hy
      | cons a as iha =>
        intro y hy
        simp only [List.cons_append, pairwiseB, Bool.and_eq_true, List.all_eq_true] at h
        rcases List.mem_cons.mp hy with rfl | hy'
        · have := h.1 x (by simp); simpa using this
        · exact iha h.2 y hy'
    simp only [List.foldl_cons]
    rw [msetInsert_append lt x acc hacc, ih (acc ++ [x]) (by simpa using h)]
    simp

theorem msetOfList_sorted {α : Type} (lt : α → α → Bool) (l : List α)
    (h : pairwiseB (fun x y => !lt y x) l = true) : msetOfList lt l = l := by
  have := foldl_msetInsert lt l [] (by simpa using h)
  simpa [msetOfList] using this

theorem mmapInsert_append {α β : Type} (lt : α → α → Bool) (x : α × β) :
    ∀ acc : List (α × β), (∀ y ∈ acc, lt x.1 y.1 = false) → mmapInsert lt x acc = acc ++ [x] := by
  intro acc
  induction acc with
  | nil => intro _; rfl
  | cons y ys ih =>
    intro h
    have hxy : lt x.1 y.1 = false := h y (List.mem_cons_self)
    simp only [mmapInsert, hxy, Bool.false_eq_true, if_false, List.cons_append]
    rw [ih (fun z hz => h z (List.mem_cons_of_mem _ hz))]

theorem foldl_mmapInsert {α β : Type} (lt : α → α → Bool) :
    ∀ (l acc : List (α × β)), pairwiseB (fun x y => !lt y.1 x.1) (acc ++ l) = true →
      l.foldl (fun acc x => mmapInsert lt x acc) acc = acc ++ l := by
  intro l
  induction l with
  | nil => intro acc _; simp
  | cons x xs ih =>
    intro acc h
    have hacc : ∀ y ∈ acc, lt x.1 y.1 = false := by
      clear ih
      induction acc with
      | nil => intro y hy; cases hy
      | cons a as iha =>
        intro y hy
        simp only [List.cons_append, pairwiseB, Bool.and_eq_true, List.all_eq_true] at h
        rcases List.mem_cons.mp hy with rfl | hy'
        · have := h.1 x (by simp); simpa using this
        · exact iha h.2 y hy'
    simp only [List.foldl_cons]
    rw [mmapInsert_append lt x acc hacc, ih (acc ++ [x]) (by simpa using h)]
    simp

theorem mmapOfList_sorted {α β : Type} (lt : α → α → Bool) (l : List (α × β))
    (h : pairwiseB (fun x y => !lt y.1 x.1) l = true) : mmapOfList lt l = l := by
  have := foldl_mmapInsert lt l [] (by simpa using h)
  simpa [mmapOfList] using this

/-! ## round trip of the generic save / load -/

/-- `ld` reads back `x` from wherever `sv x` sits in `b` and leaves the cursor behind it -/
def RT {α : Type} (b : Bytes) (sv : α → Bytes) (ld : St → Res α) (x : α) : Prop :=
  ∀ off r, At b off (sv x) → ∃ r', ld ⟨off, r⟩ = .ok x ⟨off + (sv x).length, r'⟩

theorem loadN_rt {α : Type} (b : Bytes) (sv : α → Bytes) (ld : St → Res α) :
    ∀ (l : List α), (∀ x ∈ l, RT b sv ld x) → ∀ off r, At b off (l.flatMap sv) →
      ∃ r', loadN ld l.length ⟨off, r⟩ = .ok l ⟨off + (l.flatMap sv).length, r'⟩ := by
  intro l
  induction l with
  | nil => intro _ off r _; exact ⟨r, by simp [loadN]⟩
  | cons x xs ih =>
    intro h off r hat
    rw [List.flatMap_cons, At_append] at hat
    obtain ⟨r1, h1⟩ := h x (List.mem_cons_self) off r hat.1
    obtain ⟨r2, h2⟩ := ih (fun y hy => h y (List.mem_cons_of_mem _ hy)) _ r1 hat.2
    refine ⟨r2, ?_⟩
    simp only [List.length_cons, loadN, h1, Res.bind_ok, h2, Res.map_ok, List.flatMap_cons, List.length_append,
      Nat.add_assoc]

theorem loadPair_rt {α β : Type} (b : Bytes) (sva : α → Bytes) (svb : β → Bytes) (la : St → Res α) (lb : St → Res β)
    (x : α) (y : β) (hx : RT b sva la x) (hy : RT b svb lb y) :
    RT b (fun p => sva p.1 ++ svb p.2) (loadPair la lb) (x, y) := by
  intro off r hat
  simp only at hat
  rw [At_append] at hat
  obtain ⟨r1, h1⟩ := hx off r hat.1
  obtain ⟨r2, h2⟩ := hy _ r1 hat.2
  exact ⟨r2, by simp only [loadPair, h1, Res.bind_ok, h2, Res.map_ok, List.length_append, Nat.add_assoc]⟩

theorem rt_vecPod (b : Bytes) (hb : b.length < 2 ^ 64) (n : Nat) (v : Bytes) (hmod : v.length % n = 0)
    (hf : v.length < 2 ^ 32) :
    RT b chunk (fun s => (nextChunkSize b s).bind fun sz s1 => readChunk b (Gen.vpLen (Gen.vpCount sz n) n) s1) v := by
  intro off r hat
  have hn := nextChunkSize_at b hb off r v hf hat
  obtain ⟨r', hr⟩ := readChunk_at b hb off ((off, 4) :: r) v hf hat
  refine ⟨r', ?_⟩
  have hlen : Gen.vpLen (Gen.vpCount v.length n) n = v.length := by
    simp only [Gen.vpLen, Gen.vpCount]
    have h1 : v.length / n * n = v.length := Nat.div_mul_cancel (Nat.dvd_of_mod_eq_zero hmod)
    rw [h1]; omega
  simp only
  rw [hn, Res.bind_ok, hlen, hr]

theorem rt_seq {α : Type} (b : Bytes) (hb : b.length < 2 ^ 64) (sv : α → Bytes) (ld : St → Res α) (v : List α)
    (hlen : v.length < 2 ^ 64) (h : ∀ x ∈ v, RT b sv ld x) :
    RT b (fun v => saveCount v.length ++ v.flatMap sv) (fun s => (loadCount b s).bind fun n s1 => loadN ld n s1) v := by
  intro off r hat
  simp only at hat
  rw [At_append] at hat
  obtain ⟨r1, h1⟩ := loadCount_at b hb off r v.length hlen hat.1
  obtain ⟨r2, h2⟩ := loadN_rt b sv ld v h _ r1 hat.2
  refine ⟨r2, ?_⟩
  simp only
  rw [h1, Res.bind_ok, h2, List.length_append, Nat.add_assoc]

theorem rt_set {α : Type} (b : Bytes) (hb : b.length < 2 ^ 64) (sv : α → Bytes) (ld : St → Res α)
    (lt : α → α → Bool) (hasym : ∀ a b, lt a b = true → lt b a = false) (v : List α)
    (hlen : v.length < 2 ^ 64) (h : ∀ x ∈ v, RT b sv ld x) (hsorted : pairwiseB lt v = true) :
    RT b (fun v => saveCount v.length ++ v.flatMap sv)
      (fun s => (loadCount b s).bind fun n s1 => (loadN ld n s1).map (setOfList lt)) v := by
  intro off r hat
  simp only at hat
  rw [At_append] at hat
  obtain ⟨r1, h1⟩ := loadCount_at b hb off r v.length hlen hat.1
  obtain ⟨r2, h2⟩ := loadN_rt b sv ld v h _ r1 hat.2
  refine ⟨r2, ?_⟩
  simp only
  rw [h1, Res.bind_ok, h2, Res.map_ok, setOfList_sorted lt hasym v hsorted, List.length_append, Nat.add_assoc]

theorem rt_map {α β : Type} (b : Bytes) (hb : b.length < 2 ^ 64) (sv : α × β → Bytes) (ld : St → Res (α × β))
    (lt : α → α → Bool) (hasym : ∀ a b, lt a b = true → lt b a = false) (v : List (α × β))
    (hlen : v.length < 2 ^ 64) (h : ∀ x ∈ v, RT b sv ld x) (hsorted : pairwiseB (fun x y => lt x.1 y.1) v = true) :
    RT b (fun v => saveCount v.length ++ v.flatMap sv)
      (fun s => (loadCount b s).bind fun n s1 => (loadN ld n s1).map (mapOfList lt)) v := by
  intro off r hat
  simp only at hat
  rw [At_append] at hat
  obtain ⟨r1, h1⟩ := loadCount_at b hb off r v.length hlen hat.1
  obtain ⟨r2, h2⟩ := loadN_rt b sv ld v h _ r1 hat.2
  refine ⟨r2, ?_⟩
  simp only
  rw [h1, Res.bind_ok, h2, Res.map_ok, mapOfList_sorted lt hasym v hsorted, List.length_append, Nat.add_assoc]

/-- counted container whose insertion post-processing `post` leaves the saved list unchanged -/
theorem rt_counted {α : Type} (b : Bytes) (hb : b.length < 2 ^ 64) (sv : α → Bytes) (ld : St → Res α)
    (post : List α → List α) (v : List α) (hlen : v.length < 2 ^ 64) (h : ∀ x ∈ v, RT b sv ld x) (hpost : post v = v) :
    RT b (fun v => saveCount v.length ++ v.flatMap sv)
      (fun s => (loadCount b s).bind fun n s1 => (loadN ld n s1).map post) v := by
  intro off r hat
  simp only at hat
  rw [At_append] at hat
  obtain ⟨r1, h1⟩ := loadCount_at b hb off r v.length hlen hat.1
  obtain ⟨r2, h2⟩ := loadN_rt b sv ld v h _ r1 hat.2
  refine ⟨r2, ?_⟩
  simp only
  rw [h1, Res.bind_ok, h2, Res.map_ok, hpost, List.length_append, Nat.add_assoc]

theorem rt_ptr {α : Type} (b : Bytes) (hb : b.length < 2 ^ 64) (sv : α → Bytes) (ld : St → Res α) (v : Option α)
    (h : ∀ x, v = some x → RT b sv ld x) :
    RT b (savePtr sv)
      (fun s => (readChunk b Gen.ptrFlagLen s).bind fun flag s1 =>
        if numVal flag != 0 then .ok none s1 else (ld s1).map some) v := by
  intro off r hat
  cases v with
  | none =>
    simp only [savePtr] at hat ⊢
    obtain ⟨r1, h1⟩ := readChunk_at b hb off r [1] (by decide) hat
    refine ⟨r1, ?_⟩
    simp only [List.length_cons, List.length_nil, Nat.zero_add] at h1
    simp only [Gen.ptrFlagLen]
    rw [h1, Res.bind_ok]
    rfl
  | some x =>
    simp only [savePtr] at hat ⊢
    rw [At_append] at hat
    obtain ⟨r1, h1⟩ := readChunk_at b hb off r [0] (by decide) hat.1
    obtain ⟨r2, h2⟩ := h x rfl _ r1 hat.2
    refine ⟨r2, ?_⟩
    simp only [List.length_cons, List.length_nil, Nat.zero_add] at h1
    simp only [Gen.ptrFlagLen]
    rw [h1, Res.bind_ok]
    have : (numVal [0] != 0) = false := by decide
    rw [this, if_neg (by simp), h2, Res.map_ok, List.length_append, Nat.add_assoc]

theorem all_replicate {α : Type} (p : α → Bool) (n : Nat) (x : α) (h : p x = true) : (List.replicate n x).all p = true := by
  rw [List.all_eq_true]; intro y hy; rw [List.eq_of_mem_replicate hy]; exact h

theorem eq_replicate_of_all {α : Type} (l : List α) (d : α) (h : ∀ x ∈ l, x = d) : l = List.replicate l.length d := by
  induction l with
  | nil => rfl
  | cons x xs ih =>
    rw [List.length_cons, List.replicate_succ, h x List.mem_cons_self, ← ih (fun y hy => h y (List.mem_cons_of_mem _ hy))]

variable [JsonCodec] in
/-- the default-constructed object is recognised as such … -/
theorem isDflt_dflt : ∀ ty : Ty, isDflt ty (dflt ty) = true := by
  intro ty
  induction ty with
  | pod n => simp [isDflt, dflt, bytesAreZero]
  | str => rfl
  | vecPod n => rfl
  | seq t _ => rfl
  | set t _ => rfl
  | map k v _ _ => rfl
  | pair a b iha ihb => simp only [isDflt, dflt, iha, ihb]; rfl
  | ptr t _ => rfl
  | mset t _ => rfl
  | mmap k v _ _ => rfl
  | arr t n ih => simp only [isDflt, dflt, List.length_replicate, beq_self_eq_true, Bool.true_and]; exact all_replicate _ _ _ ih
  | json => exact JsonCodec.isDflt_dflt
  | tagged a b iha ihb => simp only [isDflt, dflt, iha, ihb, bytesAreZero]; simp

variable [JsonCodec] in
/-- … and nothing else is -/
theorem isDflt_eq : ∀ (ty : Ty) (v : Val ty), isDflt ty v = true → v = dflt ty := by
  intro ty
  induction ty with
  | pod n => intro (v : Bytes) h; have h' : v = List.replicate n 0 := by simpa [isDflt, bytesAreZero] using h
             exact h'
  | str => intro (v : Bytes) h; have h' : v = [] := by simpa [isDflt] using h
           exact h'
  | vecPod n => intro (v : Bytes) h; have h' : v = [] := by simpa [isDflt] using h
                exact h'
  | seq t _ => intro (v : List (Val t)) h; have h' : v = [] := by simpa [isDflt] using h
               exact h'
  | set t _ => intro (v : List (Val t)) h; have h' : v = [] := by simpa [isDflt] using h
               exact h'
  | map k w _ _ => intro (v : List (Val k × Val w)) h; have h' : v = [] := by simpa [isDflt] using h
                   exact h'
  | pair a b iha ihb =>
    intro (v : Val a × Val b) h
    simp only [isDflt, Bool.and_eq_true] at h
    exact Prod.ext (iha v.1 h.1) (ihb v.2 h.2)
  | ptr t _ => intro (v : Option (Val t)) h; have h' : v = none := by simpa [isDflt] using h
               exact h'
  | mset t _ => intro (v : List (Val t)) h; have h' : v = [] := by simpa [isDflt] using h
                exact h'
  | mmap k w _ _ => intro (v : List (Val k × Val w)) h; have h' : v = [] := by simpa [isDflt] using h
                    exact h'
  | arr t n ih =>
    intro (v : List (Val t)) h
    simp only [isDflt, Bool.and_eq_true, beq_iff_eq] at h
    have := eq_replicate_of_all v (dflt t) (fun x hx => ih x (List.all_eq_true.mp h.2 x hx))
    rw [h.1] at this
    exact this
  | json => intro v h; exact JsonCodec.isDflt_eq v h
  | tagged a b iha ihb =>
    intro (v : Bytes × Val a × Val b) h
    simp only [isDflt, Bool.and_eq_true, bytesAreZero, beq_iff_eq] at h
    exact Prod.ext h.1.1 (Prod.ext (iha v.2.1 h.1.2) (ihb v.2.2 h.2))

/-- tagged user class, generic in its two optional members: saved from an object whose unselected members are default,
loaded into a default-constructed object -/
theorem rt_tagged {α β : Type} (b : Bytes) (hb : b.length < 2 ^ 64) (sva : α → Bytes) (svb : β → Bytes)
    (la : St → Res α) (lb : St → Res β) (da : α) (db : β) (tag : Bytes) (x : α) (y : β) (htl : tag.length = 4)
    (h1 : tagSel tag = 1 → RT b sva la x ∧ y = db)
    (h2 : tagSel tag = 2 → x = da ∧ RT b svb lb y)
    (h0 : tagSel tag ≠ 1 → tagSel tag ≠ 2 → x = da ∧ y = db) :
    RT b (fun v : Bytes × α × β => chunk v.1 ++ (if tagSel v.1 == 1 then sva v.2.1 else if tagSel v.1 == 2 then svb v.2.2 else []))
      (loadTaggedInto la lb (List.replicate 4 0, da, db) b) (tag, x, y) := by
  intro off r hat
  simp only at hat ⊢
  rw [At_append] at hat
  obtain ⟨r1, hr⟩ := readChunk_at b hb off r tag (by rw [htl]; decide) hat.1
  rw [htl] at hr
  unfold loadTaggedInto
  rw [hr, Res.bind_ok]
  by_cases s1 : tagSel tag = 1
  · obtain ⟨hx, hy⟩ := h1 s1
    simp only [s1, beq_self_eq_true, if_true] at hat ⊢
    obtain ⟨r2, hl⟩ := hx _ r1 hat.2
    exact ⟨r2, by rw [hl, Res.map_ok, hy, List.length_append, Nat.add_assoc]⟩
  · have e1 : (tagSel tag == 1) = false := by simp [s1]
    by_cases s2 : tagSel tag = 2
    · obtain ⟨hx, hy⟩ := h2 s2
      have e2t : (tagSel tag == 2) = true := by simp [s2]
      simp only [e1, e2t, if_true, Bool.false_eq_true, if_false] at hat ⊢
      obtain ⟨r2, hl⟩ := hy _ r1 hat.2
      exact ⟨r2, by rw [hl, Res.map_ok, hx, List.length_append, Nat.add_assoc]⟩
    · have e2 : (tagSel tag == 2) = false := by simp [s2]
      obtain ⟨hx, hy⟩ := h0 s1 s2
      simp only [e1, e2, Bool.false_eq_true, if_false, List.append_nil]
      exact ⟨r1, by rw [hx, hy]⟩

variable [JsonCodec] in
theorem save_load_rt (b : Bytes) (hb : b.length < 2 ^ 64) :
    ∀ (ty : Ty) (v : Val ty), wf ty v = true → sizesFit ty v = true → jsonRT ty v → RT b (save ty) (load b ty) v := by
  intro ty
  induction ty with
  | pod n =>
    intro v hw hf _ off r hat
    simp only [wf, beq_iff_eq] at hw
    simp only [sizesFit, decide_eq_true_eq] at hf
    have := readChunk_at b hb off r v hf hat
    rw [hw] at this
    exact this
  | str =>
    intro v _ hf _ off r hat
    simp only [sizesFit, decide_eq_true_eq] at hf
    exact readChunkAsString_at b hb off r v hf hat
  | vecPod n =>
    intro v hw hf _
    simp only [wf, beq_iff_eq] at hw
    simp only [sizesFit, decide_eq_true_eq] at hf
    exact rt_vecPod b hb n v hw hf
  | seq t ih =>
    intro (v : List (Val t)) hw hf hj
    simp only [jsonRT, allP] at hj
    simp only [wf] at hw
    simp only [sizesFit, Bool.and_eq_true, decide_eq_true_eq] at hf
    have hw' := List.all_eq_true.mp hw
    have hf' := List.all_eq_true.mp hf.2
    exact rt_seq b hb (save t) (load b t) v hf.1 (fun x hx => ih x (hw' x hx) (hf' x hx) (hj x hx))
  | set t ih =>
    intro (v : List (Val t)) hw hf hj
    simp only [jsonRT, allP] at hj
    simp only [wf, Bool.and_eq_true] at hw
    simp only [sizesFit, Bool.and_eq_true, decide_eq_true_eq] at hf
    have hw' := List.all_eq_true.mp hw.1
    have hf' := List.all_eq_true.mp hf.2
    exact rt_set b hb (save t) (load b t) (lt t) (lt_asymm t) v hf.1 (fun x hx => ih x (hw' x hx) (hf' x hx) (hj x hx)) hw.2
  | map k w ihk ihw =>
    intro (v : List (Val k × Val w)) hw hf hj
    simp only [jsonRT, allP] at hj
    simp only [wf, Bool.and_eq_true] at hw
    simp only [sizesFit, Bool.and_eq_true, decide_eq_true_eq] at hf
    have hw' : ∀ x ∈ v, wf k x.1 = true ∧ wf w x.2 = true := by
      intro x hx; have := List.all_eq_true.mp hw.1 x hx; simpa using this
    have hf' : ∀ x ∈ v, sizesFit k x.1 = true ∧ sizesFit w x.2 = true := by
      intro x hx; have := List.all_eq_true.mp hf.2 x hx; simpa using this
    exact rt_map b hb (fun x => save k x.1 ++ save w x.2) (loadPair (load b k) (load b w)) (lt k) (lt_asymm k) v hf.1
      (fun x hx => loadPair_rt b (save k) (save w) (load b k) (load b w) x.1 x.2
        (ihk x.1 (hw' x hx).1 (hf' x hx).1 (hj x hx).1) (ihw x.2 (hw' x hx).2 (hf' x hx).2 (hj x hx).2)) hw.2
  | pair ta tb iha ihb =>
    intro (v : Val ta × Val tb) hw hf hj
    simp only [jsonRT] at hj
    simp only [wf, Bool.and_eq_true] at hw
    simp only [sizesFit, Bool.and_eq_true] at hf
    exact loadPair_rt b (save ta) (save tb) (load b ta) (load b tb) v.1 v.2 (iha v.1 hw.1 hf.1 hj.1) (ihb v.2 hw.2 hf.2 hj.2)
  | ptr t ih =>
    intro (v : Option (Val t)) hw hf hj
    simp only [jsonRT, optP] at hj
    refine rt_ptr b hb (save t) (load b t) v ?_
    intro x hx
    subst hx
    simp only [wf] at hw
    simp only [sizesFit] at hf
    exact ih x hw hf (hj x rfl)
  | mset t ih =>
    intro (v : List (Val t)) hw hf hj
    simp only [jsonRT, allP] at hj
    simp only [wf, Bool.and_eq_true] at hw
    simp only [sizesFit, Bool.and_eq_true, decide_eq_true_eq] at hf
    have hw' := List.all_eq_true.mp hw.1
    have hf' := List.all_eq_true.mp hf.2
    have key := rt_counted b hb (save t) (load b t) (msetOfList (lt t)) v hf.1 (fun x hx => ih x (hw' x hx) (hf' x hx) (hj x hx))
      (msetOfList_sorted (lt t) v hw.2)
    intro off r hat
    simp only [save] at hat ⊢
    simp only [load]
    exact key off r hat
  | mmap k w ihk ihw =>
    intro (v : List (Val k × Val w)) hw hf hj
    simp only [jsonRT, allP] at hj
    simp only [wf, Bool.and_eq_true] at hw
    simp only [sizesFit, Bool.and_eq_true, decide_eq_true_eq] at hf
    have hw' : ∀ x ∈ v, wf k x.1 = true ∧ wf w x.2 = true := by
      intro x hx; have := List.all_eq_true.mp hw.1 x hx; simpa using this
    have hf' : ∀ x ∈ v, sizesFit k x.1 = true ∧ sizesFit w x.2 = true := by
      intro x hx; have := List.all_eq_true.mp hf.2 x hx; simpa using this
    have key := rt_counted b hb (fun x => save k x.1 ++ save w x.2) (loadPair (load b k) (load b w)) (mmapOfList (lt k)) v hf.1
      (fun x hx => loadPair_rt b (save k) (save w) (load b k) (load b w) x.1 x.2
        (ihk x.1 (hw' x hx).1 (hf' x hx).1 (hj x hx).1) (ihw x.2 (hw' x hx).2 (hf' x hx).2 (hj x hx).2))
      (mmapOfList_sorted (lt k) v hw.2)
    intro off r hat
    simp only [save] at hat ⊢
    simp only [load]
    exact key off r hat
  | arr t n ih =>
    intro (v : List (Val t)) hw hf hj
    simp only [jsonRT, allP] at hj
    simp only [wf, Bool.and_eq_true, beq_iff_eq] at hw
    simp only [sizesFit] at hf
    have hw' := List.all_eq_true.mp hw.2
    have hf' := List.all_eq_true.mp hf
    have key := loadN_rt b (save t) (load b t) v (fun x hx => ih x (hw' x hx) (hf' x hx) (hj x hx))
    rw [hw.1] at key
    intro off r hat
    simp only [save] at hat ⊢
    simp only [load]
    exact key off r hat
  | json =>
    intro (v : JsonCodec.J) _ hf hj off r hat
    simp only [jsonRT] at hj
    obtain ⟨text, hwr, hrd⟩ := hj
    simp only [sizesFit, hwr, decide_eq_true_eq] at hf
    simp only [save, hwr, Option.getD_some] at hat ⊢
    obtain ⟨r', h⟩ := readChunkAsString_at b hb off r text hf hat
    refine ⟨r', ?_⟩
    simp only [load, loadJson]
    rw [h, Res.bind_ok, hrd]
  | tagged ta tb iha ihb =>
    intro (v : Bytes × Val ta × Val tb) hw hf hj
    obtain ⟨tag, x, y⟩ := v
    simp only [wf, Bool.and_eq_true, beq_iff_eq] at hw
    simp only [sizesFit] at hf
    simp only [jsonRT] at hj
    simp only [beq_iff_eq] at hf
    have hw2 := hw.2
    have key := rt_tagged b hb (save ta) (save tb) (load b ta) (load b tb) (dflt ta) (dflt tb) tag x y hw.1
      (fun h1 => by
        rw [if_pos h1] at hw2 hf
        simp only [Bool.and_eq_true] at hw2
        exact ⟨iha x hw2.1 hf (hj.1 h1), isDflt_eq tb y hw2.2⟩)
      (fun h2 => by
        have n1 : ¬ tagSel tag = 1 := by rw [h2]; decide
        rw [if_neg n1, if_pos h2] at hw2 hf
        simp only [Bool.and_eq_true] at hw2
        exact ⟨isDflt_eq ta x hw2.1, ihb y hw2.2 hf (hj.2 h2)⟩)
      (fun n1 n2 => by
        rw [if_neg n1, if_neg n2] at hw2
        simp only [Bool.and_eq_true] at hw2
        exact ⟨isDflt_eq ta x hw2.1, isDflt_eq tb y hw2.2⟩)
    intro off r hat
    simp only [save] at hat ⊢
    simp only [load]
    exact key off r hat


/-! ## `operator<` of the model is a strict weak order; containers stay sorted; loaded values are well-formed -/

/-- negative transitivity: `¬a<b → ¬b<c → ¬a<c` -/
def NegTrans {α : Type} (lt : α → α → Bool) : Prop :=
  ∀ a b c, lt a b = false → lt b c = false → lt a c = false

theorem ltLex_negTrans {α : Type} (lt : α → α → Bool) (h : NegTrans lt) : NegTrans (ltLex lt) := by
  intro x
  induction x with
  | nil =>
    intro y z hxy hyz
    cases y with
    | nil => exact hyz
    | cons b bs => simp [ltLex] at hxy
  | cons a as ih =>
    intro y z hxy hyz
    cases y with
    | nil =>
      cases z with
      | nil => rfl
      | cons c cs => simp [ltLex] at hyz
    | cons b bs =>
      cases z with
      | nil => rfl
      | cons c cs =>
        simp only [ltLex, Bool.or_eq_false_iff, Bool.and_eq_false_iff, Bool.not_eq_false'] at hxy hyz ⊢
        obtain ⟨hab, h1⟩ := hxy
        obtain ⟨hbc, h2⟩ := hyz
        refine ⟨h a b c hab hbc, ?_⟩
        rcases h1 with hba | hr1
        · left
          cases hca : lt c a with
          | true => rfl
          | false => have := h b c a hbc hca; rw [hba] at this; cases this
        · rcases h2 with hcb | hr2
          · left
            cases hca : lt c a with
            | true => rfl
            | false => have := h c a b hca hab; rw [hcb] at this; cases this
          · right; exact ih bs cs hr1 hr2

theorem pairLt_negTrans {α β : Type} (la : α → α → Bool) (lb : β → β → Bool) (ha : NegTrans la) (hb : NegTrans lb) :
    NegTrans (fun (x y : α × β) => la x.1 y.1 || (!la y.1 x.1 && lb x.2 y.2)) := by
  intro x y z hxy hyz
  simp only [Bool.or_eq_false_iff, Bool.and_eq_false_iff, Bool.not_eq_false'] at hxy hyz ⊢
  obtain ⟨hab, h1⟩ := hxy
  obtain ⟨hbc, h2⟩ := hyz
  refine ⟨ha _ _ _ hab hbc, ?_⟩
  rcases h1 with hba | hr1
  · left
    cases hca : la z.1 x.1 with
    | true => rfl
    | false => have := ha _ _ _ hbc hca; rw [hba] at this; cases this
  · rcases h2 with hcb | hr2
    · left
      cases hca : la z.1 x.1 with
      | true => rfl
      | false => have := ha _ _ _ hca hab; rw [hcb] at this; cases this
    · right; exact hb _ _ _ hr1 hr2

theorem ltByte_negTrans : NegTrans ltByte := by
  intro a b c h1 h2
  simp only [ltByte, decide_eq_false_iff_not] at h1 h2 ⊢
  omega

theorem ltNum_negTrans : NegTrans ltNum := by
  intro a b c h1 h2
  simp only [ltNum, decide_eq_false_iff_not] at h1 h2 ⊢
  omega

variable [JsonCodec] in
theorem lt_negTrans : ∀ (ty : Ty), NegTrans (lt ty) := by
  intro ty
  induction ty with
  | pod n => exact ltNum_negTrans
  | str => exact ltLex_negTrans ltByte ltByte_negTrans
  | vecPod n => intro a b c h1 h2; exact ltLex_negTrans ltNum ltNum_negTrans _ _ _ h1 h2
  | seq t ih => exact ltLex_negTrans (lt t) ih
  | set t ih => exact ltLex_negTrans (lt t) ih
  | map k v ihk ihv => exact ltLex_negTrans _ (pairLt_negTrans (lt k) (lt v) ihk ihv)
  | pair ta tb iha ihb =>
    intro a b c h1 h2
    exact pairLt_negTrans (lt ta) (lt tb) iha ihb a b c h1 h2
  | ptr t ih =>
    intro a b c h1 h2
    cases a with
    | none =>
      cases b with
      | none => exact h2
      | some y => simp [lt] at h1
    | some x =>
      cases c with
      | none => rfl
      | some z =>
        cases b with
        | none => simp [lt] at h2
        | some y => simp only [lt] at h1 h2 ⊢; exact ih x y z h1 h2
  | mset t ih => exact ltLex_negTrans (lt t) ih
  | mmap k v ihk ihv => exact ltLex_negTrans _ (pairLt_negTrans (lt k) (lt v) ihk ihv)
  | arr t n ih => exact ltLex_negTrans (lt t) ih
  | json => intro a b c _ _; rfl
  | tagged ta tb _ _ => intro a b c _ _; rfl

/-- transitivity from asymmetry and negative transitivity -/
theorem trans_of_asymm_negTrans {α : Type} (lt : α → α → Bool) (hasym : ∀ a b, lt a b = true → lt b a = false)
    (hnt : NegTrans lt) : ∀ a b c, lt a b = true → lt b c = true → lt a c = true := by
  intro a b c hab hbc
  cases hac : lt a c with
  | true => rfl
  | false =>
    have := hnt a c b hac (hasym b c hbc)
    rw [hab] at this; cases this

theorem pairwiseB_cons {α : Type} (r : α → α → Bool) (x : α) (l : List α) :
    pairwiseB r (x :: l) = true ↔ (∀ y ∈ l, r x y = true) ∧ pairwiseB r l = true := by
  simp [pairwiseB, List.all_eq_true]

theorem mem_setInsert {α : Type} (lt : α → α → Bool) (x : α) : ∀ (l : List α) (z : α), z ∈ setInsert lt x l → z = x ∨ z ∈ l := by
  intro l
  induction l with
  | nil => intro z hz; simp [setInsert] at hz; exact Or.inl hz
  | cons y ys ih =>
    intro z hz
    simp only [setInsert] at hz
    split at hz
    · rcases List.mem_cons.mp hz with h | h
      · exact Or.inl h
      · exact Or.inr h
    · split at hz
      · rcases List.mem_cons.mp hz with h | h
        · exact Or.inr (h ▸ List.mem_cons_self)
        · rcases ih z h with h' | h'
          · exact Or.inl h'
          · exact Or.inr (List.mem_cons_of_mem _ h')
      · exact Or.inr hz

/-- `std::set::insert` keeps the elements strictly increasing -/
theorem setInsert_sorted {α : Type} (lt : α → α → Bool)
    (htr : ∀ a b c, lt a b = true → lt b c = true → lt a c = true) (x : α) :
    ∀ l : List α, pairwiseB lt l = true → pairwiseB lt (setInsert lt x l) = true := by
  intro l
  induction l with
  | nil => intro _; simp [setInsert, pairwiseB]
  | cons y ys ih =>
    intro h
    rw [pairwiseB_cons] at h
    simp only [setInsert]
    split
    · rename_i hxy
      rw [pairwiseB_cons]
      refine ⟨?_, by rw [pairwiseB_cons]; exact h⟩
      intro z hz
      rcases List.mem_cons.mp hz with rfl | hz'
      · exact hxy
      · exact htr _ _ _ hxy (h.1 z hz')
    · split
      · rename_i _ hyx
        rw [pairwiseB_cons]
        refine ⟨?_, ih h.2⟩
        intro z hz
        rcases mem_setInsert lt x ys z hz with rfl | hz'
        · exact hyx
        · exact h.1 z hz'
      · rw [pairwiseB_cons]; exact h

theorem setOfList_sorted' {α : Type} (lt : α → α → Bool)
    (htr : ∀ a b c, lt a b = true → lt b c = true → lt a c = true) (l : List α) :
    pairwiseB lt (setOfList lt l) = true := by
  unfold setOfList
  have : ∀ (l acc : List α), pairwiseB lt acc = true → pairwiseB lt (l.foldl (fun acc x => setInsert lt x acc) acc) = true := by
    intro l
    induction l with
    | nil => intro acc h; exact h
    | cons x xs ih => intro acc h; exact ih _ (setInsert_sorted lt htr x acc h)
  exact this l [] rfl

theorem mem_setOfList {α : Type} (lt : α → α → Bool) (l : List α) : ∀ z, z ∈ setOfList lt l → z ∈ l := by
  unfold setOfList
  have : ∀ (l acc : List α) (z : α), z ∈ l.foldl (fun acc x => setInsert lt x acc) acc → z ∈ acc ∨ z ∈ l := by
    intro l
    induction l with
    | nil => intro acc z h; exact Or.inl h
    | cons x xs ih =>
      intro acc z h
      rcases ih _ z h with h1 | h1
      · rcases mem_setInsert lt x acc z h1 with rfl | h2
        · exact Or.inr List.mem_cons_self
        · exact Or.inl h2
      · exact Or.inr (List.mem_cons_of_mem _ h1)
  intro z hz
  rcases this l [] z hz with h | h
  · cases h
  · exact h

theorem mem_mapInsert {α β : Type} (lt : α → α → Bool) (x : α × β) :
    ∀ (l : List (α × β)) (z : α × β), z ∈ mapInsert lt x l → z = x ∨ z ∈ l := by
  intro l
  induction l with
  | nil => intro z hz; simp [mapInsert] at hz; exact Or.inl hz
  | cons y ys ih =>
    intro z hz
    simp only [mapInsert] at hz
    split at hz
    · rcases List.mem_cons.mp hz with h | h
      · exact Or.inl h
      · exact Or.inr h
    · split at hz
      · rcases List.mem_cons.mp hz with h | h
        · exact Or.inr (h ▸ List.mem_cons_self)
        · rcases ih z h with h' | h'
          · exact Or.inl h'
          · exact Or.inr (List.mem_cons_of_mem _ h')
      · exact Or.inr hz

theorem mapInsert_sorted {α β : Type} (lt : α → α → Bool)
    (htr : ∀ a b c, lt a b = true → lt b c = true → lt a c = true) (x : α × β) :
    ∀ l : List (α × β), pairwiseB (fun a b => lt a.1 b.1) l = true →
      pairwiseB (fun a b => lt a.1 b.1) (mapInsert lt x l) = true := by
  intro l
  induction l with
  | nil => intro _; simp [mapInsert, pairwiseB]
  | cons y ys ih =>
    intro h
    rw [pairwiseB_cons] at h
    simp only [mapInsert]
    split
    · rename_i hxy
      rw [pairwiseB_cons]
      refine ⟨?_, by rw [pairwiseB_cons]; exact h⟩
      intro z hz
      rcases List.mem_cons.mp hz with rfl | hz'
      · exact hxy
      · exact htr _ _ _ hxy (h.1 z hz')
    · split
      · rename_i _ hyx
        rw [pairwiseB_cons]
        refine ⟨?_, ih h.2⟩
        intro z hz
        rcases mem_mapInsert lt x ys z hz with rfl | hz'
        · exact hyx
        · exact h.1 z hz'
      · rw [pairwiseB_cons]; exact h

theorem mapOfList_sorted' {α β : Type} (lt : α → α → Bool)
    (htr : ∀ a b c, lt a b = true → lt b c = true → lt a c = true) (l : List (α × β)) :
    pairwiseB (fun a b => lt a.1 b.1) (mapOfList lt l) = true := by
  unfold mapOfList
  have : ∀ (l acc : List (α × β)), pairwiseB (fun a b => lt a.1 b.1) acc = true →
      pairwiseB (fun a b => lt a.1 b.1) (l.foldl (fun acc x => mapInsert lt x acc) acc) = true := by
    intro l
    induction l with
    | nil => intro acc h; exact h
    | cons x xs ih => intro acc h; exact ih _ (mapInsert_sorted lt htr x acc h)
  exact this l [] rfl

theorem mem_mapOfList {α β : Type} (lt : α → α → Bool) (l : List (α × β)) : ∀ z, z ∈ mapOfList lt l → z ∈ l := by
  unfold mapOfList
  have : ∀ (l acc : List (α × β)) (z : α × β), z ∈ l.foldl (fun acc x => mapInsert lt x acc) acc → z ∈ acc ∨ z ∈ l := by
    intro l
    induction l with
    | nil => intro acc z h; exact Or.inl h
    | cons x xs ih =>
      intro acc z h
      rcases ih _ z h with h1 | h1
      · rcases mem_mapInsert lt x acc z h1 with rfl | h2
        · exact Or.inr List.mem_cons_self
        · exact Or.inl h2
      · exact Or.inr (List.mem_cons_of_mem _ h1)
  intro z hz
  rcases this l [] z hz with h | h
  · cases h
  · exact h

theorem mem_msetInsert {α : Type} (lt : α → α → Bool) (x : α) : ∀ (l : List α) (z : α), z ∈ msetInsert lt x l → z = x ∨ z ∈ l := by
  intro l
  induction l with
  | nil => intro z hz; simp [msetInsert] at hz; exact Or.inl hz
  | cons y ys ih =>
    intro z hz
    simp only [msetInsert] at hz
    split at hz
    · rcases List.mem_cons.mp hz with h | h
      · exact Or.inl h
      · exact Or.inr h
    · rcases List.mem_cons.mp hz with h | h
      · exact Or.inr (h ▸ List.mem_cons_self)
      · rcases ih z h with h' | h'
        · exact Or.inl h'
        · exact Or.inr (List.mem_cons_of_mem _ h')

/-- `std::multiset::insert` keeps the elements non-decreasing -/
theorem msetInsert_sorted {α : Type} (lt : α → α → Bool) (hasym : ∀ a b, lt a b = true → lt b a = false)
    (hnt : NegTrans lt) (x : α) :
    ∀ l : List α, pairwiseB (fun a b => !lt b a) l = true → pairwiseB (fun a b => !lt b a) (msetInsert lt x l) = true := by
  intro l
  induction l with
  | nil => intro _; simp [msetInsert, pairwiseB]
  | cons y ys ih =>
    intro h
    rw [pairwiseB_cons] at h
    simp only [msetInsert]
    split
    · rename_i hxy
      rw [pairwiseB_cons]
      refine ⟨?_, by rw [pairwiseB_cons]; exact h⟩
      intro z hz
      rcases List.mem_cons.mp hz with rfl | hz'
      · simp [hasym _ _ hxy]
      · have h1 : lt z y = false := by simpa using h.1 z hz'
        have := hnt z y x h1 (hasym _ _ hxy)
        simp [this]
    · rename_i hxy
      rw [pairwiseB_cons]
      refine ⟨?_, ih h.2⟩
      intro z hz
      rcases mem_msetInsert lt x ys z hz with rfl | hz'
      · simpa using hxy
      · exact h.1 z hz'

theorem msetOfList_sorted' {α : Type} (lt : α → α → Bool) (hasym : ∀ a b, lt a b = true → lt b a = false)
    (hnt : NegTrans lt) (l : List α) : pairwiseB (fun a b => !lt b a) (msetOfList lt l) = true := by
  unfold msetOfList
  have : ∀ (l acc : List α), pairwiseB (fun a b => !lt b a) acc = true →
      pairwiseB (fun a b => !lt b a) (l.foldl (fun acc x => msetInsert lt x acc) acc) = true := by
    intro l
    induction l with
    | nil => intro acc h; exact h
    | cons x xs ih => intro acc h; exact ih _ (msetInsert_sorted lt hasym hnt x acc h)
  exact this l [] rfl

theorem mem_msetOfList {α : Type} (lt : α → α → Bool) (l : List α) : ∀ z, z ∈ msetOfList lt l → z ∈ l := by
  unfold msetOfList
  have : ∀ (l acc : List α) (z : α), z ∈ l.foldl (fun acc x => msetInsert lt x acc) acc → z ∈ acc ∨ z ∈ l := by
    intro l
    induction l with
    | nil => intro acc z h; exact Or.inl h
    | cons x xs ih =>
      intro acc z h
      rcases ih _ z h with h1 | h1
      · rcases mem_msetInsert lt x acc z h1 with rfl | h2
        · exact Or.inr List.mem_cons_self
        · exact Or.inl h2
      · exact Or.inr (List.mem_cons_of_mem _ h1)
  intro z hz
  rcases this l [] z hz with h | h
  · cases h
  · exact h

theorem mem_mmapInsert {α β : Type} (lt : α → α → Bool) (x : α × β) :
    ∀ (l : List (α × β)) (z : α × β), z ∈ mmapInsert lt x l → z = x ∨ z ∈ l := by
  intro l
  induction l with
  | nil => intro z hz; simp [mmapInsert] at hz; exact Or.inl hz
  | cons y ys ih =>
    intro z hz
    simp only [mmapInsert] at hz
    split at hz
    · rcases List.mem_cons.mp hz with h | h
      · exact Or.inl h
      · exact Or.inr h
    · rcases List.mem_cons.mp hz with h | h
      · exact Or.inr (h ▸ List.mem_cons_self)
      · rcases ih z h with h' | h'
        · exact Or.inl h'
        · exact Or.inr (List.mem_cons_of_mem _ h')

theorem mmapInsert_sorted {α β : Type} (lt : α → α → Bool) (hasym : ∀ a b, lt a b = true → lt b a = false)
    (hnt : NegTrans lt) (x : α × β) :
    ∀ l : List (α × β), pairwiseB (fun a b => !lt b.1 a.1) l = true →
      pairwiseB (fun a b => !lt b.1 a.1) (mmapInsert lt x l) = true := by
  intro l
  induction l with
  | nil => intro _; simp [mmapInsert, pairwiseB]
  | cons y ys ih =>
    intro h
    rw [pairwiseB_cons] at h
    simp only [mmapInsert]
    split
    · rename_i hxy
      rw [pairwiseB_cons]
      refine ⟨?_, by rw [pairwiseB_cons]; exact h⟩
      intro z hz
      rcases List.mem_cons.mp hz with rfl | hz'
      · simp [hasym _ _ hxy]
      · have h1 : lt z.1 y.1 = false := by simpa using h.1 z hz'
        have := hnt z.1 y.1 x.1 h1 (hasym _ _ hxy)
        simp [this]
    · rename_i hxy
      rw [pairwiseB_cons]
      refine ⟨?_, ih h.2⟩
      intro z hz
      rcases mem_mmapInsert lt x ys z hz with rfl | hz'
      · simpa using hxy
      · exact h.1 z hz'

theorem mmapOfList_sorted' {α β : Type} (lt : α → α → Bool) (hasym : ∀ a b, lt a b = true → lt b a = false)
    (hnt : NegTrans lt) (l : List (α × β)) : pairwiseB (fun a b => !lt b.1 a.1) (mmapOfList lt l) = true := by
  unfold mmapOfList
  have : ∀ (l acc : List (α × β)), pairwiseB (fun a b => !lt b.1 a.1) acc = true →
      pairwiseB (fun a b => !lt b.1 a.1) (l.foldl (fun acc x => mmapInsert lt x acc) acc) = true := by
    intro l
    induction l with
    | nil => intro acc h; exact h
    | cons x xs ih => intro acc h; exact ih _ (mmapInsert_sorted lt hasym hnt x acc h)
  exact this l [] rfl

theorem mem_mmapOfList {α β : Type} (lt : α → α → Bool) (l : List (α × β)) : ∀ z, z ∈ mmapOfList lt l → z ∈ l := by
  unfold mmapOfList
  have : ∀ (l acc : List (α × β)) (z : α × β), z ∈ l.foldl (fun acc x => mmapInsert lt x acc) acc → z ∈ acc ∨ z ∈ l := by
    intro l
    induction l with
    | nil => intro acc z h; exact Or.inl h
    | cons x xs ih =>
      intro acc z h
      rcases ih _ z h with h1 | h1
      · rcases mem_mmapInsert lt x acc z h1 with rfl | h2
        · exact Or.inr List.mem_cons_self
        · exact Or.inl h2
      · exact Or.inr (List.mem_cons_of_mem _ h1)
  intro z hz
  rcases this l [] z hz with h | h
  · cases h
  · exact h


/-! ## which entries survive insertion and in which order

`eqv lt a b`: neither is smaller (the containers' notion of "same key").  For `multimap`/`multiset` the entries of
each key class keep the order in which they were loaded (stability) and nothing is lost (permutation); for
`map`/`set` exactly the first loaded entry of each key class survives. -/

def eqv {κ : Type} (lt : κ → κ → Bool) (a b : κ) : Bool := !lt a b && !lt b a

section Order
variable {κ : Type} (lt : κ → κ → Bool) (hasym : ∀ a b, lt a b = true → lt b a = false) (hnt : NegTrans lt)
include hasym hnt

theorem lt_of_eqv_lt {k x z : κ} (he : eqv lt k x = true) (hxz : lt x z = true) : lt k z = true := by
  simp only [eqv, Bool.and_eq_true, Bool.not_eq_true'] at he
  cases hkz : lt k z with
  | true => rfl
  | false => have := hnt x k z he.2 hkz; rw [hxz] at this; cases this

theorem eqv_false_of_lt {k z : κ} (h : lt k z = true) : eqv lt k z = false := by
  simp [eqv, h]

theorem eqv_congr {k x y : κ} (hxy : eqv lt x y = true) : eqv lt k x = eqv lt k y := by
  simp only [eqv, Bool.and_eq_true, Bool.not_eq_true'] at hxy
  have fwd : ∀ a b : κ, lt a b = false → lt b a = false → eqv lt k a = true → eqv lt k b = true := by
    intro a b hab hba h
    simp only [eqv, Bool.and_eq_true, Bool.not_eq_true'] at h ⊢
    exact ⟨hnt k a b h.1 hab, hnt b a k hba h.2⟩
  cases h1 : eqv lt k x with
  | true => exact (fwd x y hxy.1 hxy.2 h1).symm
  | false =>
    cases h2 : eqv lt k y with
    | false => rfl
    | true => have := fwd y x hxy.2 hxy.1 h2; rw [h1] at this; cases this

end Order

section Multi
variable {α β : Type} (lt : α → α → Bool) (hasym : ∀ a b, lt a b = true → lt b a = false) (hnt : NegTrans lt)

/-- `multimap::insert` loses nothing -/
theorem mmapInsert_perm (x : α × β) : ∀ acc : List (α × β), (mmapInsert lt x acc).Perm (x :: acc) := by
  intro acc
  induction acc with
  | nil => exact List.Perm.refl _
  | cons y ys ih =>
    simp only [mmapInsert]
    split
    · exact List.Perm.refl _
    · exact (List.Perm.cons y ih).trans (List.Perm.swap x y ys)

theorem mmapOfList_perm (l : List (α × β)) : (mmapOfList lt l).Perm l := by
  unfold mmapOfList
  have : ∀ (l acc : List (α × β)), (l.foldl (fun acc x => mmapInsert lt x acc) acc).Perm (acc ++ l) := by
    intro l
    induction l with
    | nil => intro acc; simp
    | cons x xs ih =>
      intro acc
      simp only [List.foldl_cons]
      refine (ih _).trans ?_
      refine (List.Perm.append_right xs (mmapInsert_perm lt x acc)).trans ?_
      simpa using (List.perm_middle (a := x) (l₁ := acc) (l₂ := xs)).symm
  simpa using this l []

include hasym hnt in
/-- inserting into a non-decreasing multimap puts the entry behind the entries of its own key class -/
theorem mmapInsert_filter (k : α) (x : α × β) :
    ∀ acc : List (α × β), pairwiseB (fun a b => !lt b.1 a.1) acc = true →
      (mmapInsert lt x acc).filter (fun e => eqv lt k e.1) =
        acc.filter (fun e => eqv lt k e.1) ++ (if eqv lt k x.1 then [x] else []) := by
  intro acc
  induction acc with
  | nil => intro _; simp [mmapInsert, List.filter]; split <;> simp_all
  | cons y ys ih =>
    intro h
    rw [pairwiseB_cons] at h
    simp only [mmapInsert]
    split
    · rename_i hxy
      cases hpx : eqv lt k x.1 with
      | false => simp [List.filter, hpx]
      | true =>
        have hall : ∀ z ∈ y :: ys, eqv lt k z.1 = false := by
          intro z hz
          have hxz : lt x.1 z.1 = true := by
            rcases List.mem_cons.mp hz with rfl | hz'
            · exact hxy
            · have hzy : lt z.1 y.1 = false := by simpa using h.1 z hz'
              cases hxz : lt x.1 z.1 with
              | true => rfl
              | false => have := hnt x.1 z.1 y.1 hxz hzy; rw [hxy] at this; cases this
          exact eqv_false_of_lt lt hasym hnt (lt_of_eqv_lt lt hasym hnt hpx hxz)
        have hnil : (y :: ys).filter (fun e => eqv lt k e.1) = [] := by
          rw [List.filter_eq_nil_iff]; intro z hz; simp [hall z hz]
        rw [List.filter_cons, hpx, hnil]
        simp
    · rw [List.filter_cons, ih h.2, List.filter_cons]
      split <;> simp

include hasym hnt in
/-- **Entries of one key keep their load order in a `multimap`** (and nothing else of that key appears). -/
theorem mmapOfList_stable (k : α) (l : List (α × β)) :
    (mmapOfList lt l).filter (fun e => eqv lt k e.1) = l.filter (fun e => eqv lt k e.1) := by
  unfold mmapOfList
  have : ∀ (l acc : List (α × β)), pairwiseB (fun a b => !lt b.1 a.1) acc = true →
      (l.foldl (fun acc x => mmapInsert lt x acc) acc).filter (fun e => eqv lt k e.1) =
        acc.filter (fun e => eqv lt k e.1) ++ l.filter (fun e => eqv lt k e.1) := by
    intro l
    induction l with
    | nil => intro acc _; simp
    | cons x xs ih =>
      intro acc hacc
      simp only [List.foldl_cons]
      rw [ih _ (mmapInsert_sorted lt hasym hnt x acc hacc), mmapInsert_filter lt hasym hnt k x acc hacc, List.filter_cons]
      split <;> simp
  simpa using this l [] rfl

end Multi

section MultiSet
variable {α : Type} (lt : α → α → Bool) (hasym : ∀ a b, lt a b = true → lt b a = false) (hnt : NegTrans lt)

theorem msetInsert_perm (x : α) : ∀ acc : List α, (msetInsert lt x acc).Perm (x :: acc) := by
  intro acc
  induction acc with
  | nil => exact List.Perm.refl _
  | cons y ys ih =>
    simp only [msetInsert]
    split
    · exact List.Perm.refl _
    · exact (List.Perm.cons y ih).trans (List.Perm.swap x y ys)

theorem msetOfList_perm (l : List α) : (msetOfList lt l).Perm l := by
  unfold msetOfList
  have : ∀ (l acc : List α), (l.foldl (fun acc x => msetInsert lt x acc) acc).Perm (acc ++ l) := by
    intro l
    induction l with
    | nil => intro acc; simp
    | cons x xs ih =>
      intro acc
      simp only [List.foldl_cons]
      refine (ih _).trans ?_
      refine (List.Perm.append_right xs (msetInsert_perm lt x acc)).trans ?_
      simpa using (List.perm_middle (a := x) (l₁ := acc) (l₂ := xs)).symm
  simpa using this l []

include hasym hnt in
theorem msetInsert_filter (k : α) (x : α) :
    ∀ acc : List α, pairwiseB (fun a b => !lt b a) acc = true →
      (msetInsert lt x acc).filter (fun e => eqv lt k e) =
        acc.filter (fun e => eqv lt k e) ++ (if eqv lt k x then [x] else []) := by
  intro acc
  induction acc with
  | nil => intro _; simp [msetInsert, List.filter]; split <;> simp_all
  | cons y ys ih =>
    intro h
    rw [pairwiseB_cons] at h
    simp only [msetInsert]
    split
    · rename_i hxy
      cases hpx : eqv lt k x with
      | false => simp [List.filter, hpx]
      | true =>
        have hall : ∀ z ∈ y :: ys, eqv lt k z = false := by
          intro z hz
          have hxz : lt x z = true := by
            rcases List.mem_cons.mp hz with rfl | hz'
            · exact hxy
            · have hzy : lt z y = false := by simpa using h.1 z hz'
              cases hxz : lt x z with
              | true => rfl
              | false => have := hnt x z y hxz hzy; rw [hxy] at this; cases this
          exact eqv_false_of_lt lt hasym hnt (lt_of_eqv_lt lt hasym hnt hpx hxz)
        have hnil : (y :: ys).filter (fun e => eqv lt k e) = [] := by
          rw [List.filter_eq_nil_iff]; intro z hz; simp [hall z hz]
        rw [List.filter_cons, hpx, hnil]
        simp
    · rw [List.filter_cons, ih h.2, List.filter_cons]
      split <;> simp

include hasym hnt in
theorem msetOfList_stable (k : α) (l : List α) :
    (msetOfList lt l).filter (fun e => eqv lt k e) = l.filter (fun e => eqv lt k e) := by
  unfold msetOfList
  have : ∀ (l acc : List α), pairwiseB (fun a b => !lt b a) acc = true →
      (l.foldl (fun acc x => msetInsert lt x acc) acc).filter (fun e => eqv lt k e) =
        acc.filter (fun e => eqv lt k e) ++ l.filter (fun e => eqv lt k e) := by
    intro l
    induction l with
    | nil => intro acc _; simp
    | cons x xs ih =>
      intro acc hacc
      simp only [List.foldl_cons]
      rw [ih _ (msetInsert_sorted lt hasym hnt x acc hacc), msetInsert_filter lt hasym hnt k x acc hacc, List.filter_cons]
      split <;> simp
  simpa using this l [] rfl

end MultiSet

section Unique
variable {α β : Type} (lt : α → α → Bool) (hasym : ∀ a b, lt a b = true → lt b a = false) (hnt : NegTrans lt)

include hasym hnt in
/-- `map::insert` into a strictly increasing map: the key class of `k` changes only if it was empty -/
theorem mapInsert_filter (k : α) (x : α × β) :
    ∀ acc : List (α × β), pairwiseB (fun a b => lt a.1 b.1) acc = true →
      (mapInsert lt x acc).filter (fun e => eqv lt k e.1) =
        if acc.filter (fun e => eqv lt k e.1) = [] then (if eqv lt k x.1 then [x] else [])
        else acc.filter (fun e => eqv lt k e.1) := by
  have htr := trans_of_asymm_negTrans lt hasym hnt
  intro acc
  induction acc with
  | nil => intro _; simp [mapInsert, List.filter]; split <;> simp_all
  | cons y ys ih =>
    intro h
    rw [pairwiseB_cons] at h
    simp only [mapInsert]
    split
    · rename_i hxy
      cases hpx : eqv lt k x.1 with
      | false => simp [List.filter_cons, hpx]
      | true =>
        have hall : ∀ z ∈ y :: ys, eqv lt k z.1 = false := by
          intro z hz
          have hxz : lt x.1 z.1 = true := by
            rcases List.mem_cons.mp hz with rfl | hz'
            · exact hxy
            · exact htr _ _ _ hxy (h.1 z hz')
          exact eqv_false_of_lt lt hasym hnt (lt_of_eqv_lt lt hasym hnt hpx hxz)
        have hnil : (y :: ys).filter (fun e => eqv lt k e.1) = [] := by
          rw [List.filter_eq_nil_iff]; intro z hz; simp [hall z hz]
        rw [List.filter_cons, hpx, hnil]
        simp
    · split
      · rename_i hxy hyx
        rw [List.filter_cons, ih h.2, List.filter_cons]
        cases hpy : eqv lt k y.1 with
        | false => simp
        | true =>
          have hpx : eqv lt k x.1 = false := eqv_false_of_lt lt hasym hnt (lt_of_eqv_lt lt hasym hnt hpy hyx)
          simp [hpx]
      · rename_i hxy hyx
        have hxy' : lt x.1 y.1 = false := by simpa using hxy
        have hyx' : lt y.1 x.1 = false := by simpa using hyx
        have he : eqv lt x.1 y.1 = true := by simp [eqv, hxy', hyx']
        have hc := eqv_congr lt hasym hnt (k := k) he
        rw [List.filter_cons]
        cases hpy : eqv lt k y.1 with
        | true => simp
        | false =>
          rw [hpy] at hc
          simp [hc]

include hasym hnt in
/-- **Of the entries of one key, a `std::map` keeps exactly the first one loaded** (`insert` does not overwrite). -/
theorem mapOfList_first (k : α) (l : List (α × β)) :
    (mapOfList lt l).filter (fun e => eqv lt k e.1) = (l.filter (fun e => eqv lt k e.1)).take 1 := by
  have htr := trans_of_asymm_negTrans lt hasym hnt
  unfold mapOfList
  have : ∀ (l acc : List (α × β)), pairwiseB (fun a b => lt a.1 b.1) acc = true →
      (l.foldl (fun acc x => mapInsert lt x acc) acc).filter (fun e => eqv lt k e.1) =
        if acc.filter (fun e => eqv lt k e.1) = [] then (l.filter (fun e => eqv lt k e.1)).take 1
        else acc.filter (fun e => eqv lt k e.1) := by
    intro l
    induction l with
    | nil => intro acc _; simp
    | cons x xs ih =>
      intro acc hacc
      simp only [List.foldl_cons]
      rw [ih _ (mapInsert_sorted lt htr x acc hacc), mapInsert_filter lt hasym hnt k x acc hacc, List.filter_cons]
      by_cases h1 : acc.filter (fun e => eqv lt k e.1) = []
      · rw [if_pos h1, if_pos h1]
        cases hpx : eqv lt k x.1 with
        | true => simp
        | false => simp
      · rw [if_neg h1, if_neg h1, if_neg h1]
  simpa using this l [] rfl

end Unique

section UniqueSet
variable {α : Type} (lt : α → α → Bool) (hasym : ∀ a b, lt a b = true → lt b a = false) (hnt : NegTrans lt)

include hasym hnt in
/-- `set::insert` into a strictly increasing set: the key class of `k` changes only if it was empty -/
theorem setInsert_filter (k : α) (x : α) :
    ∀ acc : List α, pairwiseB (fun a b => lt a b) acc = true →
      (setInsert lt x acc).filter (fun e => eqv lt k e) =
        if acc.filter (fun e => eqv lt k e) = [] then (if eqv lt k x then [x] else [])
        else acc.filter (fun e => eqv lt k e) := by
  have htr := trans_of_asymm_negTrans lt hasym hnt
  intro acc
  induction acc with
  | nil => intro _; simp [setInsert, List.filter]; split <;> simp_all
  | cons y ys ih =>
    intro h
    rw [pairwiseB_cons] at h
    simp only [setInsert]
    split
    · rename_i hxy
      cases hpx : eqv lt k x with
      | false => simp [List.filter_cons, hpx]
      | true =>
        have hall : ∀ z ∈ y :: ys, eqv lt k z = false := by
          intro z hz
          have hxz : lt x z = true := by
            rcases List.mem_cons.mp hz with rfl | hz'
            · exact hxy
            · exact htr _ _ _ hxy (h.1 z hz')
          exact eqv_false_of_lt lt hasym hnt (lt_of_eqv_lt lt hasym hnt hpx hxz)
        have hnil : (y :: ys).filter (fun e => eqv lt k e) = [] := by
          rw [List.filter_eq_nil_iff]; intro z hz; simp [hall z hz]
        rw [List.filter_cons, hpx, hnil]
        simp
    · split
      · rename_i hxy hyx
        rw [List.filter_cons, ih h.2, List.filter_cons]
        cases hpy : eqv lt k y with
        | false => simp
        | true =>
          have hpx : eqv lt k x = false := eqv_false_of_lt lt hasym hnt (lt_of_eqv_lt lt hasym hnt hpy hyx)
          simp [hpx]
      · rename_i hxy hyx
        have hxy' : lt x y = false := by simpa using hxy
        have hyx' : lt y x = false := by simpa using hyx
        have he : eqv lt x y = true := by simp [eqv, hxy', hyx']
        have hc := eqv_congr lt hasym hnt (k := k) he
        rw [List.filter_cons]
        cases hpy : eqv lt k y with
        | true => simp
        | false =>
          rw [hpy] at hc
          simp [hc]

include hasym hnt in
/-- **Of the entries of one key, a `std::set` keeps exactly the first one loaded** (`insert` does not overwrite). -/
theorem setOfList_first (k : α) (l : List α) :
    (setOfList lt l).filter (fun e => eqv lt k e) = (l.filter (fun e => eqv lt k e)).take 1 := by
  have htr := trans_of_asymm_negTrans lt hasym hnt
  unfold setOfList
  have : ∀ (l acc : List α), pairwiseB (fun a b => lt a b) acc = true →
      (l.foldl (fun acc x => setInsert lt x acc) acc).filter (fun e => eqv lt k e) =
        if acc.filter (fun e => eqv lt k e) = [] then (l.filter (fun e => eqv lt k e)).take 1
        else acc.filter (fun e => eqv lt k e) := by
    intro l
    induction l with
    | nil => intro acc _; simp
    | cons x xs ih =>
      intro acc hacc
      simp only [List.foldl_cons]
      rw [ih _ (setInsert_sorted lt htr x acc hacc), setInsert_filter lt hasym hnt k x acc hacc, List.filter_cons]
      by_cases h1 : acc.filter (fun e => eqv lt k e) = []
      · rw [if_pos h1, if_pos h1]
        cases hpx : eqv lt k x with
        | true => simp
        | false => simp
      · rw [if_neg h1, if_neg h1, if_neg h1]
  simpa using this l [] rfl

end UniqueSet

/-! ## on well-formed values of key types `operator<` is total: incomparable values are equal -/

theorem ltLex_tricho {α : Type} (lt : α → α → Bool) (P : α → Prop)
    (helem : ∀ a b, P a → P b → lt a b = false → lt b a = false → a = b) :
    ∀ x y : List α, (∀ a ∈ x, P a) → (∀ b ∈ y, P b) → ltLex lt x y = false → ltLex lt y x = false → x = y := by
  intro x
  induction x with
  | nil =>
    intro y _ _ h1 _
    cases y with
    | nil => rfl
    | cons b bs => simp [ltLex] at h1
  | cons a as ih =>
    intro y hx hy h1 h2
    cases y with
    | nil => simp [ltLex] at h2
    | cons b bs =>
      simp only [ltLex, Bool.or_eq_false_iff, Bool.and_eq_false_iff, Bool.not_eq_false'] at h1 h2
      have hab : a = b := helem a b (hx a List.mem_cons_self) (hy b List.mem_cons_self) h1.1 h2.1
      subst hab
      have r1 : ltLex lt as bs = false := by
        rcases h1.2 with h | h
        · rw [h2.1] at h; cases h
        · exact h
      have r2 : ltLex lt bs as = false := by
        rcases h2.2 with h | h
        · rw [h1.1] at h; cases h
        · exact h
      rw [ih bs (fun z hz => hx z (List.mem_cons_of_mem _ hz)) (fun z hz => hy z (List.mem_cons_of_mem _ hz)) r1 r2]

theorem ltByte_tricho (a b : UInt8) (h1 : ltByte a b = false) (h2 : ltByte b a = false) : a = b := by
  simp only [ltByte, decide_eq_false_iff_not] at h1 h2
  exact UInt8.toNat_inj.mp (by omega)

theorem bytes_tricho (a b : Bytes) (h1 : ltLex ltByte a b = false) (h2 : ltLex ltByte b a = false) : a = b :=
  ltLex_tricho ltByte (fun _ => True) (fun a b _ _ => ltByte_tricho a b) a b (fun _ _ => trivial) (fun _ _ => trivial) h1 h2

theorem pairLt_tricho {α β : Type} (la : α → α → Bool) (lb : β → β → Bool) (x y : α × β)
    (ha : la x.1 y.1 = false → la y.1 x.1 = false → x.1 = y.1)
    (hb : lb x.2 y.2 = false → lb y.2 x.2 = false → x.2 = y.2)
    (h1 : (la x.1 y.1 || (!la y.1 x.1 && lb x.2 y.2)) = false)
    (h2 : (la y.1 x.1 || (!la x.1 y.1 && lb y.2 x.2)) = false) : x = y := by
  simp only [Bool.or_eq_false_iff, Bool.and_eq_false_iff, Bool.not_eq_false'] at h1 h2
  have e1 := ha h1.1 h2.1
  have r1 : lb x.2 y.2 = false := by
    rcases h1.2 with h | h
    · rw [h2.1] at h; cases h
    · exact h
  have r2 : lb y.2 x.2 = false := by
    rcases h2.2 with h | h
    · rw [h1.1] at h; cases h
    · exact h
  exact Prod.ext e1 (hb r1 r2)

theorem ltNum_tricho (a b : Bytes) (hl : a.length = b.length) (h1 : ltNum a b = false) (h2 : ltNum b a = false) : a = b := by
  simp only [ltNum, decide_eq_false_iff_not] at h1 h2
  have e : numVal a = numVal b := by omega
  have := numBytes_numVal a
  rw [e, hl, numBytes_numVal b] at this
  exact this.symm

/-- the groups of a POD vector whose length is a multiple of `n` have `n` bytes each … -/
theorem chunks_length (n : Nat) : ∀ (fuel : Nat) (b : Bytes), b.length ≤ fuel → b.length % n = 0 →
    ∀ c ∈ chunks n fuel b, c.length = n := by
  intro fuel
  induction fuel with
  | zero => intro b _ _ c hc; cases hc
  | succ f ih =>
    intro b hf hm c hc
    simp only [chunks] at hc
    split at hc
    · cases hc
    · rename_i hne
      have hpos : 0 < b.length := by
        cases b with
        | nil => simp at hne
        | cons x xs => simp
      have hn : n ≤ b.length := by
        cases n with
        | zero => rw [Nat.mod_zero] at hm; omega
        | succ m => exact Nat.le_of_dvd hpos (Nat.dvd_of_mod_eq_zero hm)
      have hn0 : 0 < n := by
        cases n with
        | zero => rw [Nat.mod_zero] at hm; omega
        | succ m => exact Nat.succ_pos _
      rcases List.mem_cons.mp hc with rfl | hc'
      · simp; omega
      · refine ih (b.drop n) (by simp only [List.length_drop]; omega) ?_ c hc'
        simp only [List.length_drop]
        have h1 : (b.length - n) + n = b.length := by omega
        have h2 : ((b.length - n) + n) % n = 0 := by rw [h1]; exact hm
        rwa [Nat.add_mod_right] at h2

/-- … and concatenated they are the vector -/
theorem chunks_flatten (n : Nat) : ∀ (fuel : Nat) (b : Bytes), b.length ≤ fuel → b.length % n = 0 →
    (chunks n fuel b).flatten = b := by
  intro fuel
  induction fuel with
  | zero => intro b hf _; cases b with
    | nil => rfl
    | cons x xs => simp at hf
  | succ f ih =>
    intro b hf hm
    simp only [chunks]
    split
    · rename_i he; cases b with
      | nil => rfl
      | cons x xs => simp at he
    · rename_i hne
      have hpos : 0 < b.length := by
        cases b with
        | nil => simp at hne
        | cons x xs => simp
      have hn : n ≤ b.length ∧ 0 < n := by
        cases n with
        | zero => rw [Nat.mod_zero] at hm; omega
        | succ m => exact ⟨Nat.le_of_dvd hpos (Nat.dvd_of_mod_eq_zero hm), Nat.succ_pos _⟩
      have hm' : (b.drop n).length % n = 0 := by
        simp only [List.length_drop]
        have h1 : (b.length - n) + n = b.length := by omega
        have h2 : ((b.length - n) + n) % n = 0 := by rw [h1]; exact hm
        rwa [Nat.add_mod_right] at h2
      rw [List.flatten_cons, ih (b.drop n) (by simp only [List.length_drop]; omega) hm', List.take_append_drop]

variable [JsonCodec] in
theorem lt_tricho : ∀ (ty : Ty), keyable ty = true → ∀ (a b : Val ty), wf ty a = true → wf ty b = true →
    lt ty a b = false → lt ty b a = false → a = b := by
  intro ty
  induction ty with
  | pod n =>
    intro _ (a : Bytes) (b : Bytes) ha hb h1 h2
    simp only [wf, beq_iff_eq] at ha hb
    exact ltNum_tricho a b (by rw [ha, hb]) h1 h2
  | str => intro _ a b _ _ h1 h2; exact bytes_tricho a b h1 h2
  | vecPod n =>
    intro _ (a : Bytes) (b : Bytes) ha hb h1 h2
    simp only [wf, beq_iff_eq] at ha hb
    have e : podElems n a = podElems n b :=
      ltLex_tricho ltNum (fun c => c.length = n)
        (fun x y hx hy e1 e2 => ltNum_tricho x y (by rw [hx, hy]) e1 e2) _ _
        (chunks_length n a.length a (Nat.le_refl _) ha) (chunks_length n b.length b (Nat.le_refl _) hb) h1 h2
    rw [← chunks_flatten n a.length a (Nat.le_refl _) ha, ← chunks_flatten n b.length b (Nat.le_refl _) hb]
    exact congrArg List.flatten e
  | seq t ih =>
    intro hk (a : List (Val t)) (b : List (Val t)) ha hb h1 h2
    simp only [keyable] at hk
    simp only [wf] at ha hb
    exact ltLex_tricho (lt t) (fun x => wf t x = true) (fun x y hx hy => ih hk x y hx hy) a b
      (List.all_eq_true.mp ha) (List.all_eq_true.mp hb) h1 h2
  | set t ih =>
    intro hk (a : List (Val t)) (b : List (Val t)) ha hb h1 h2
    simp only [keyable] at hk
    simp only [wf, Bool.and_eq_true] at ha hb
    exact ltLex_tricho (lt t) (fun x => wf t x = true) (fun x y hx hy => ih hk x y hx hy) a b
      (List.all_eq_true.mp ha.1) (List.all_eq_true.mp hb.1) h1 h2
  | map k w ihk ihw =>
    intro hk (a : List (Val k × Val w)) (b : List (Val k × Val w)) ha hb h1 h2
    simp only [keyable, Bool.and_eq_true] at hk
    simp only [wf, Bool.and_eq_true] at ha hb
    refine ltLex_tricho _ (fun x => wf k x.1 = true ∧ wf w x.2 = true)
      (fun x y hx hy e1 e2 => pairLt_tricho (lt k) (lt w) x y (ihk hk.1 x.1 y.1 hx.1 hy.1) (ihw hk.2 x.2 y.2 hx.2 hy.2) e1 e2)
      a b ?_ ?_ h1 h2
    · intro x hx; have := List.all_eq_true.mp ha.1 x hx; simpa using this
    · intro x hx; have := List.all_eq_true.mp hb.1 x hx; simpa using this
  | pair ta tb iha ihb =>
    intro hk (a : Val ta × Val tb) (b : Val ta × Val tb) ha hb h1 h2
    simp only [keyable, Bool.and_eq_true] at hk
    simp only [wf, Bool.and_eq_true] at ha hb
    simp only [lt] at h1 h2
    exact pairLt_tricho (lt ta) (lt tb) a b (iha hk.1 a.1 b.1 ha.1 hb.1) (ihb hk.2 a.2 b.2 ha.2 hb.2) h1 h2
  | ptr t ih => intro hk; simp [keyable] at hk
  | mset t ih =>
    intro hk (a : List (Val t)) (b : List (Val t)) ha hb h1 h2
    simp only [keyable] at hk
    simp only [wf, Bool.and_eq_true] at ha hb
    exact ltLex_tricho (lt t) (fun x => wf t x = true) (fun x y hx hy => ih hk x y hx hy) a b
      (List.all_eq_true.mp ha.1) (List.all_eq_true.mp hb.1) h1 h2
  | mmap k w ihk ihw =>
    intro hk (a : List (Val k × Val w)) (b : List (Val k × Val w)) ha hb h1 h2
    simp only [keyable, Bool.and_eq_true] at hk
    simp only [wf, Bool.and_eq_true] at ha hb
    refine ltLex_tricho _ (fun x => wf k x.1 = true ∧ wf w x.2 = true)
      (fun x y hx hy e1 e2 => pairLt_tricho (lt k) (lt w) x y (ihk hk.1 x.1 y.1 hx.1 hy.1) (ihw hk.2 x.2 y.2 hx.2 hy.2) e1 e2)
      a b ?_ ?_ h1 h2
    · intro x hx; have := List.all_eq_true.mp ha.1 x hx; simpa using this
    · intro x hx; have := List.all_eq_true.mp hb.1 x hx; simpa using this
  | arr t n ih =>
    intro hk (a : List (Val t)) (b : List (Val t)) ha hb h1 h2
    simp only [keyable] at hk
    simp only [wf, Bool.and_eq_true] at ha hb
    exact ltLex_tricho (lt t) (fun x => wf t x = true) (fun x y hx hy => ih hk x y hx hy) a b
      (List.all_eq_true.mp ha.2) (List.all_eq_true.mp hb.2) h1 h2
  | json => intro hk; simp [keyable] at hk
  | tagged ta tb _ _ => intro hk; simp [keyable] at hk

/-- a successful element loop is exactly a chain of element loads -/
theorem loadN_ok_iff {α : Type} (ld : St → Res α) : ∀ (n : Nat) (s : St) (l : List α) (s' : St),
    loadN ld n s = .ok l s' ↔ l.length = n ∧ Steps ld s l s' := by
  intro n
  induction n with
  | zero =>
    intro s l s'
    simp only [loadN]
    constructor
    · intro h; injection h with h1 h2; subst h1 h2; exact ⟨rfl, Steps.nil s⟩
    · rintro ⟨hl, hs⟩
      cases l with
      | nil => cases hs; rfl
      | cons a as => simp at hl
  | succ n ih =>
    intro s l s'
    simp only [loadN]
    constructor
    · intro h
      cases h1 : ld s with
      | err e s1 => rw [h1] at h; cases h
      | ok a s1 =>
        rw [h1, Res.bind_ok] at h
        cases h2 : loadN ld n s1 with
        | err e s2 => rw [h2] at h; cases h
        | ok as s2 =>
          rw [h2, Res.map_ok] at h
          injection h with e1 e2
          subst e1 e2
          obtain ⟨hl, hs⟩ := (ih s1 as s2).mp h2
          exact ⟨by simp [hl], Steps.cons s s1 s2 a as h1 hs⟩
    · rintro ⟨hl, hs⟩
      cases hs with
      | nil => simp at hl
      | cons _ s1 _ a as h1 hrest =>
        rw [h1, Res.bind_ok, (ih s1 as s').mpr ⟨by simpa using hl, hrest⟩, Res.map_ok]

/-! ## every successful load yields a well-formed value -/

/-- safety of the final state, and `P` of the value if there is one -/
def Good {α : Type} (b : Bytes) (P : α → Prop) (r : Res α) : Prop :=
  match r with
  | .ok v s' => Safe b s' ∧ P v
  | .err _ s' => Safe b s'

theorem good_bind {α β : Type} (b : Bytes) (P : α → Prop) (Q : β → Prop) (r : Res α) (f : α → St → Res β)
    (hr : Good b P r) (hf : ∀ a s, Safe b s → P a → Good b Q (f a s)) : Good b Q (r.bind f) := by
  cases r with
  | err e s1 => exact hr
  | ok a s1 => exact hf a s1 hr.1 hr.2

theorem good_map {α β : Type} (b : Bytes) (P : α → Prop) (Q : β → Prop) (r : Res α) (f : α → β)
    (hr : Good b P r) (hf : ∀ a, P a → Q (f a)) : Good b Q (r.map f) := by
  cases r with
  | err e s1 => exact hr
  | ok a s1 => exact ⟨hr.1, hf a hr.2⟩

theorem good_loadN {α : Type} (b : Bytes) (P : α → Prop) (ld : St → Res α) (hld : ∀ s, Safe b s → Good b P (ld s)) :
    ∀ n s, Safe b s → Good b (fun l => l.length = n ∧ ∀ x ∈ l, P x) (loadN ld n s) := by
  intro n
  induction n with
  | zero => intro s hs; exact ⟨hs, rfl, by intro x hx; cases hx⟩
  | succ n ih =>
    intro s hs
    unfold loadN
    refine good_bind b P _ _ _ (hld s hs) (fun a s1 h1 pa => ?_)
    refine good_map b _ _ _ _ (ih s1 h1) (fun l hl => ?_)
    refine ⟨by simp [hl.1], ?_⟩
    intro x hx
    rcases List.mem_cons.mp hx with rfl | hx'
    · exact pa
    · exact hl.2 x hx'

theorem good_loadPair {α β : Type} (b : Bytes) (P : α → Prop) (Q : β → Prop) (la : St → Res α) (lb : St → Res β)
    (ha : ∀ s, Safe b s → Good b P (la s)) (hlb : ∀ s, Safe b s → Good b Q (lb s)) :
    ∀ s, Safe b s → Good b (fun p => P p.1 ∧ Q p.2) (loadPair la lb s) := by
  intro s hs
  unfold loadPair
  refine good_bind b P _ _ _ (ha s hs) (fun x s1 h1 px => ?_)
  exact good_map b Q _ _ _ (hlb s1 h1) (fun y qy => ⟨px, qy⟩)

theorem good_readChunk (b : Bytes) (hb : b.length < 2 ^ 64) (len : Nat) (s : St) (hs : Safe b s) :
    Good b (fun d => d.length = len) (readChunk b len s) := by
  have h := readChunk_spec b hb len s hs
  cases hn : readChunk b len s with
  | err e s1 => rw [hn] at h; exact h
  | ok d s1 =>
    rw [hn] at h
    obtain ⟨hp, hs1, hd⟩ := h
    refine ⟨hs1, ?_⟩
    rw [hd]
    apply slice_length
    have := hs1.1
    omega

theorem good_loadCount (b : Bytes) (hb : b.length < 2 ^ 64) (s : St) (hs : Safe b s) :
    Good b (fun _ => True) (loadCount b s) := by
  unfold loadCount
  exact good_map b _ _ _ _ (good_readChunk b hb _ s hs) (fun _ _ => trivial)

theorem all_of_forall {α : Type} (p : α → Bool) (l : List α) (h : ∀ x ∈ l, p x = true) : l.all p = true :=
  List.all_eq_true.mpr h

variable [JsonCodec] in
theorem load_good (b : Bytes) (hb : b.length < 2 ^ 64) :
    ∀ (ty : Ty) (s : St), Safe b s → Good b (fun v => wf ty v = true) (load b ty s) := by
  intro ty
  induction ty with
  | pod n =>
    intro s hs
    have := good_readChunk b hb n s hs
    unfold load
    cases hr : readChunk b n s with
    | err e s1 => rw [hr] at this; exact this
    | ok d s1 => rw [hr] at this; exact ⟨this.1, by simp only [wf, beq_iff_eq]; exact this.2⟩
  | str =>
    intro s hs
    have := readChunkAsString_safe b hb s hs
    unfold load
    cases hr : readChunkAsString b s with
    | err e s1 => rw [hr] at this; exact this
    | ok d s1 => rw [hr] at this; exact ⟨this, rfl⟩
  | vecPod n =>
    intro s hs
    unfold load
    have h := nextChunkSize_spec b hb s hs
    cases hn : nextChunkSize b s with
    | err e s1 => rw [hn] at h; exact h
    | ok sz s1 =>
      rw [hn] at h
      obtain ⟨_, hle, hs1⟩ := h
      change Good b _ (readChunk b (Gen.vpLen (Gen.vpCount sz n) n) s1)
      have := good_readChunk b hb (Gen.vpLen (Gen.vpCount sz n) n) s1 hs1
      cases hr : readChunk b (Gen.vpLen (Gen.vpCount sz n) n) s1 with
      | err e s2 => rw [hr] at this; exact this
      | ok d s2 =>
        rw [hr] at this
        refine ⟨this.1, ?_⟩
        simp only [wf, beq_iff_eq]
        rw [this.2]
        simp only [Gen.vpLen, Gen.vpCount]
        have h1 : sz / n * n ≤ sz := Nat.div_mul_le_self sz n
        have h2 : sz / n * n % 18446744073709551616 = sz / n * n := Nat.mod_eq_of_lt (by omega)
        rw [h2]
        exact Nat.mul_mod_left _ _
  | seq t ih =>
    intro s hs
    unfold load
    refine good_bind b (fun _ => True) _ _ _ (good_loadCount b hb s hs) (fun n s1 h1 _ => ?_)
    have := good_loadN b _ (load b t) ih n s1 h1
    cases hr : loadN (load b t) n s1 with
    | err e s2 => rw [hr] at this; exact this
    | ok l s2 => rw [hr] at this; exact ⟨this.1, by simp only [wf]; exact all_of_forall _ _ this.2.2⟩
  | set t ih =>
    intro s hs
    unfold load
    refine good_bind b (fun _ => True) _ _ _ (good_loadCount b hb s hs) (fun n s1 h1 _ => ?_)
    refine good_map b _ _ _ _ (good_loadN b _ (load b t) ih n s1 h1) (fun l hl => ?_)
    simp only [wf, Bool.and_eq_true]
    refine ⟨all_of_forall _ _ (fun x hx => hl.2 x (mem_setOfList (lt t) l x hx)), ?_⟩
    exact setOfList_sorted' (lt t) (trans_of_asymm_negTrans (lt t) (lt_asymm t) (lt_negTrans t)) l
  | map k v ihk ihv =>
    intro s hs
    unfold load
    refine good_bind b (fun _ => True) _ _ _ (good_loadCount b hb s hs) (fun n s1 h1 _ => ?_)
    refine good_map b _ _ _ _ (good_loadN b _ _ (good_loadPair b _ _ _ _ ihk ihv) n s1 h1) (fun l hl => ?_)
    simp only [wf, Bool.and_eq_true]
    refine ⟨all_of_forall _ _ (fun x hx => ?_), ?_⟩
    · have := hl.2 x (mem_mapOfList (lt k) l x hx)
      simp only [Bool.and_eq_true]; exact this
    · exact mapOfList_sorted' (lt k) (trans_of_asymm_negTrans (lt k) (lt_asymm k) (lt_negTrans k)) l
  | pair ta tb iha ihb =>
    intro s hs
    unfold load
    have := good_loadPair b _ _ _ _ iha ihb s hs
    cases hr : loadPair (load b ta) (load b tb) s with
    | err e s2 => rw [hr] at this; exact this
    | ok p s2 => rw [hr] at this; exact ⟨this.1, by simp only [wf, Bool.and_eq_true]; exact this.2⟩
  | ptr t ih =>
    intro s hs
    unfold load
    refine good_bind b (fun d => d.length = Gen.ptrFlagLen) _ _ _ (good_readChunk b hb _ s hs) (fun flag s1 h1 _ => ?_)
    · split
      · exact ⟨h1, rfl⟩
      · exact good_map b _ _ _ _ (ih s1 h1) (fun x hx => by simp only [wf]; exact hx)
  | mset t ih =>
    intro s hs
    unfold load
    refine good_bind b (fun _ => True) _ _ _ (good_loadCount b hb s hs) (fun n s1 h1 _ => ?_)
    refine good_map b _ _ _ _ (good_loadN b _ (load b t) ih n s1 h1) (fun l hl => ?_)
    simp only [wf, Bool.and_eq_true]
    refine ⟨all_of_forall _ _ (fun x hx => hl.2 x (mem_msetOfList (lt t) l x hx)), ?_⟩
    exact msetOfList_sorted' (lt t) (lt_asymm t) (lt_negTrans t) l
  | mmap k v ihk ihv =>
    intro s hs
    unfold load
    refine good_bind b (fun _ => True) _ _ _ (good_loadCount b hb s hs) (fun n s1 h1 _ => ?_)
    refine good_map b _ _ _ _ (good_loadN b _ _ (good_loadPair b _ _ _ _ ihk ihv) n s1 h1) (fun l hl => ?_)
    simp only [wf, Bool.and_eq_true]
    refine ⟨all_of_forall _ _ (fun x hx => ?_), ?_⟩
    · have := hl.2 x (mem_mmapOfList (lt k) l x hx)
      simp only [Bool.and_eq_true]; exact this
    · exact mmapOfList_sorted' (lt k) (lt_asymm k) (lt_negTrans k) l
  | arr t n ih =>
    intro s hs
    unfold load
    have := good_loadN b _ (load b t) ih n s hs
    cases hr : loadN (load b t) n s with
    | err e s2 => rw [hr] at this; exact this
    | ok l s2 =>
      rw [hr] at this
      exact ⟨this.1, by simp only [wf, Bool.and_eq_true, beq_iff_eq]; exact ⟨this.2.1, all_of_forall _ _ this.2.2⟩⟩
  | json =>
    intro s hs
    unfold load loadJson
    have := readChunkAsString_safe b hb s hs
    cases hr : readChunkAsString b s with
    | err e s1 => rw [hr] at this; exact this
    | ok text s1 =>
      rw [hr] at this
      rw [Res.bind_ok]
      split
      · exact ⟨this, rfl⟩
      · exact this
  | tagged ta tb iha ihb =>
    intro s hs
    unfold load loadTaggedInto
    refine good_bind b (fun d => d.length = 4) _ _ _ (good_readChunk b hb 4 s hs) (fun tag s1 h1 hl => ?_)
    by_cases e1 : tagSel tag = 1
    · simp only [e1, beq_self_eq_true, if_true]
      refine good_map b _ _ _ _ (iha s1 h1) (fun x hx => ?_)
      simp only [wf, hl, beq_self_eq_true, Bool.true_and, e1, if_true, hx, isDflt_dflt]
    · have f1 : (tagSel tag == 1) = false := by simp [e1]
      by_cases e2 : tagSel tag = 2
      · have e2t : (tagSel tag == 2) = true := by simp [e2]
        simp only [f1, e2t, if_true, Bool.false_eq_true, if_false]
        refine good_map b _ _ _ _ (ihb s1 h1) (fun y hy => ?_)
        simp only [wf, hl, beq_self_eq_true, Bool.true_and, f1, e2t, if_true, Bool.false_eq_true, if_false, hy, isDflt_dflt]
      · have f2 : (tagSel tag == 2) = false := by simp [e2]
        simp only [f1, f2, Bool.false_eq_true, if_false]
        exact ⟨h1, by simp only [wf, hl, beq_self_eq_true, Bool.true_and, f1, f2, Bool.false_eq_true, if_false, isDflt_dflt]⟩

end Cppcms.C19
