import Cppcms.Common
import Cppcms.C19.Model
import Cppcms.C19.Spec
import Cppcms.C19.JsonC11
import Cppcms.C06.Model
/-! Line-protocol driver for C19 (same protocol as `harness/c19.cpp`); `J` lines evaluate the
property predicates of `Spec.lean` on outputs produced by the implementation. -/
open Cppcms Cppcms.C19

namespace Cppcms.C19.Driver

/-- `json::value` members are handled by C11's executable model (binary64 conversions `F64.ops`) -/
instance : JsonCodec := c11Codec C11.F64.ops

/-- type words in prefix notation (see harness/c19.cpp) -/
def parseTy : Nat → List String → Option (Ty × List String)
  | 0, _ => none
  | _, [] => none
  | fuel + 1, tok :: rest =>
    let un (f : Ty → Ty) := match parseTy fuel rest with
      | some (t, r) => some (f t, r)
      | none => none
    let bin (f : Ty → Ty → Ty) := match parseTy fuel rest with
      | some (a, r) => (match parseTy fuel r with
        | some (b, r') => some (f a b, r')
        | none => none)
      | none => none
    let num (pre : Char) : Option Nat := match tok.toList with
      | c :: ds => if c == pre && !ds.isEmpty then (String.ofList ds).toNat? else none
      | [] => none
    match tok with
    | "p1" => some (.pod 1, rest)
    | "p2" => some (.pod 2, rest)
    | "p4" => some (.pod 4, rest)
    | "i4" => some (.pod 4, rest)
    | "p8" => some (.pod 8, rest)
    | "d8" => some (.pod 8, rest)
    | "s" => some (.str, rest)
    | "v1" => some (.vecPod 1, rest)
    | "v2" => some (.vecPod 2, rest)
    | "v4" => some (.vecPod 4, rest)
    | "v8" => some (.vecPod 8, rest)
    | "L" => un .seq
    | "Q" => un .seq
    | "S" => un .set
    | "R" => un .ptr
    | "U" => un .ptr
    | "C" => un .ptr
    | "B" => un id
    | "M" => bin .map
    | "P" => bin .pair
    | "X" => bin .pair
    | "j" => some (.json, rest)
    | "H" => un .ptr
    | "K" => un .ptr
    | "I" => un .ptr
    | "W" => un .mset
    | "N" => bin .mmap
    | "T" => bin .tagged
    | _ =>
      match num 'p', num 'A' with
      | some n, _ => some (.pod n, rest)
      | none, some n => un (fun t => .arr t n)
      | none, none => none

def tyOf (w : String) : Option Ty :=
  let toks := w.splitOn "."
  match parseTy (toks.length + 1) toks with
  | some (t, []) => some t
  | _ => none

def tagged (tag : Char) (tok : String) : Option Bytes :=
  match tok.toList with
  | c :: rest => if c == tag then parseHexAux rest [] else none
  | [] => none

def parseN {α : Type} (p : List String → Option (α × List String)) : Nat → List String → Option (List α × List String)
  | 0, toks => some ([], toks)
  | n + 1, toks =>
    match p toks with
    | none => none
    | some (a, r) => match parseN p n r with
      | none => none
      | some (as, r') => some (a :: as, r')

def count (tok : String) : Option Nat :=
  match tok.toList with
  | 'n' :: rest => (String.ofList rest).toNat?
  | _ => none

/-- `norm`: insert set/map elements the way the containers do (case input); otherwise take the
lists as given (judging an implementation output) -/
def parseVal (norm : Bool) : (ty : Ty) → List String → Option (Val ty × List String)
  | .pod n, toks => match toks with
    | t :: r => (match tagged 'x' t with
      | some b => if b.length == n then some (b, r) else none
      | none => none)
    | [] => none
  | .str, toks => match toks with
    | t :: r => (match tagged 's' t with | some b => some (b, r) | none => none)
    | [] => none
  | .vecPod n, toks => match toks with
    | t :: r => (match tagged 'x' t with
      | some b => if b.length % n == 0 then some (b, r) else none
      | none => none)
    | [] => none
  | .seq t, toks => match toks with
    | c :: r => (match count c with | some n => parseN (parseVal norm t) n r | none => none)
    | [] => none
  | .set t, toks => match toks with
    | c :: r => (match count c with
      | some n => (match parseN (parseVal norm t) n r with
        | some (l, r') => some (if norm then setOfList (lt t) l else l, r')
        | none => none)
      | none => none)
    | [] => none
  | .map k v, toks => match toks with
    | c :: r => (match count c with
      | some n => (match parseN (fun ts => match parseVal norm k ts with
                              | some (x, r1) => (match parseVal norm v r1 with
                                | some (y, r2) => some ((x, y), r2)
                                | none => none)
                              | none => none) n r with
        | some (l, r') => some (if norm then mapOfList (lt k) l else l, r')
        | none => none)
      | none => none)
    | [] => none
  | .pair a b, toks => match parseVal norm a toks with
    | some (x, r1) => (match parseVal norm b r1 with
      | some (y, r2) => some ((x, y), r2)
      | none => none)
    | none => none
  | .ptr t, toks => match toks with
    | "0" :: r => some (none, r)
    | "1" :: r => (match parseVal norm t r with | some (x, r') => some (some x, r') | none => none)
    | _ => none
  | .mset t, toks => match toks with
    | c :: r => (match count c with
      | some n => (match parseN (parseVal norm t) n r with
        | some (l, r') => some (if norm then msetOfList (lt t) l else l, r')
        | none => none)
      | none => none)
    | [] => none
  | .mmap k v, toks => match toks with
    | c :: r => (match count c with
      | some n => (match parseN (fun ts => match parseVal norm k ts with
                              | some (x, r1) => (match parseVal norm v r1 with
                                | some (y, r2) => some ((x, y), r2)
                                | none => none)
                              | none => none) n r with
        | some (l, r') => some (if norm then mmapOfList (lt k) l else l, r')
        | none => none)
      | none => none)
    | [] => none
  | .arr t n, toks => parseN (parseVal norm t) n toks
  | .tagged a b, toks => match toks with
    | t :: r => (match tagged 'x' t with
      | some tag => if tag.length != 4 then none else
        (match parseVal norm a r with
        | some (x, r1) => (match parseVal norm b r1 with
          | some (y, r2) => some ((tag, x, y), r2)
          | none => none)
        | none => none)
      | none => none)
    | [] => none
  | .json, toks => match toks with
    | "ju" :: r => some ((C11.Value.undef : C11.Value Nat), r)
    | t :: r => (match tagged 'j' t with
      | some text => (match C11.parse C11.F64.ops text with | some v => some (v, r) | none => none)
      | none => none)
    | [] => none

def rawHex (bs : Bytes) : String :=
  String.ofList (bs.flatMap fun b => [hexChar (b.toNat / 16), hexChar (b.toNat % 16)])

def dumpVal : (ty : Ty) → Val ty → List String
  | .pod _, v => ["x" ++ rawHex v]
  | .str, v => ["s" ++ rawHex v]
  | .vecPod _, v => ["x" ++ rawHex v]
  | .seq t, v => s!"n{v.length}" :: v.flatMap (dumpVal t)
  | .set t, v => s!"n{v.length}" :: v.flatMap (dumpVal t)
  | .map k w, v => s!"n{v.length}" :: v.flatMap (fun x => dumpVal k x.1 ++ dumpVal w x.2)
  | .pair a b, v => dumpVal a v.1 ++ dumpVal b v.2
  | .ptr t, v => match v with
    | none => ["0"]
    | some x => "1" :: dumpVal t x
  | .mset t, v => s!"n{v.length}" :: v.flatMap (dumpVal t)
  | .mmap k w, v => s!"n{v.length}" :: v.flatMap (fun x => dumpVal k x.1 ++ dumpVal w x.2)
  | .arr t _, v => v.flatMap (dumpVal t)
  | .tagged a b, v => ("x" ++ rawHex v.1) :: (dumpVal a v.2.1 ++ dumpVal b v.2.2)
  | .json, v => match (v : C11.Value Nat) with
    | .undef => ["ju"]
    | w => ["j" ++ rawHex ((C11.save C11.F64.ops false w).getD [])]

def errStr : Err → String
  | .eof => "err eof"
  | .hdr => "err hdr"
  | .size => "err size"
  | .len => "err len"
  | .json => "err json"

def parseValAll (ty : Ty) (toks : List String) (norm : Bool := true) : Option (Val ty) :=
  match parseVal norm ty toks with
  | some (v, []) => some v
  | _ => none

def join (l : List String) : String := " ".intercalate l

/-- raw primitive script -/
def runOps (b : Bytes) : List String → St → List String → String
  | [], s, acc => join (acc.reverse ++ [s!"@{s.ptr}"])
  | o :: rest, s, acc =>
    let fail (e : Err) (s' : St) := join (acc.reverse ++ [errStr e, s!"@{s'.ptr}"])
    if o == "n" then
      match nextChunkSize b s with
      | .ok n s' => runOps b rest s' (s!"n={n}" :: acc)
      | .err e s' => fail e s'
    else if o == "e" then runOps b rest s (s!"e={boolStr (eof b s)}" :: acc)
    else if o == "z" then runOps b rest { s with ptr := Gen.resetPtr } ("z" :: acc)      -- archive::reset()
    else if o == "m" then runOps b rest { s with ptr := Gen.modePtr } ("m" :: acc)       -- archive::mode(load_from_archive)
    else if o == "s" then
      match readChunkAsString b s with
      | .ok d s' => runOps b rest s' (("s=" ++ rawHex d) :: acc)
      | .err e s' => fail e s'
    else match o.toList with
      | 'r' :: ds => (match (String.ofList ds).toNat? with
        | some len => (match readChunk b len s with
          | .ok d s' => runOps b rest s' (("r=" ++ rawHex d) :: acc)
          | .err e s' => fail e s')
        | none => "bad-op")
      | _ => "bad-op"

def step (_ : Unit) (line : String) : Unit × String :=
  let r : String :=
    match words line with
    | "ops" :: h :: ops => (match parseHex h with
      | some b => runOps b ops St.init []
      | none => "bad-op")
    | "wr" :: hs => (match hs.mapM parseHex with
      | some l => toHex (l.flatMap chunk)
      | none => "bad-op")
    | op0 :: tyw :: rest =>
      -- `load+`, `rt+` ...: the harness loads into a pre-populated object; the result must be the same
      -- `~`: the harness runs the line under a process-wide grouping locale; the archive format does not depend on it
      let op0 := if op0.endsWith "~" then (op0.dropEnd 1).toString else op0
      let op := if op0.endsWith "+" then (op0.dropEnd 1).toString else op0
      (match tyOf tyw with
      | none => "bad-type"
      | some ty =>
        if op == "save" || op == "ssave" then
          match parseValAll ty rest with
          | some v => (match saveE ty v with | some bs => toHex bs | none => "throw")
          | none => "bad-op"
        else if op == "cmp" then
          -- `operator<` of two values of a key type
          if !Spec.keyable ty then "bad-op" else
          match parseVal true ty rest with
          | some (a, r1) => (match parseVal true ty r1 with
            | some (b, []) => boolStr (lt ty a b)
            | _ => "bad-op")
          | none => "bad-op"
        else if op == "zow0" || op == "zow1" || op == "zow2" then
          -- session: store_data(k,A)+save, next request store_data(k,B)+save, next request fetch_data: the object stored last
          match parseVal true ty rest with
          | some (a, r1) => (match parseVal true ty r1 with
            | some (v, []) =>
              if !(savable ty a && savable ty v) then "throw"
              else (match loadArchive ty (save ty v) with
                | .ok w _ => join (["ok"] ++ dumpVal ty w)
                | .err e _ => errStr e)
            | _ => "bad-op")
          | none => "bad-op"
        else if op == "cpo" then
          -- an overwrite that cannot be allocated removes the key (C07 `miss_after_dropped_store`): the old object is gone
          match parseValAll ty rest with
          | some v => if savable ty v then "miss" else "throw"
          | none => "bad-op"
        else if op == "zsv" then
          -- session store_data, save(), next request load(), fetch_data: C06's `save_data` refuses values of
          -- `Gen.dataLimit` (2 MiB) bytes and more; otherwise the bytes come back (C06 `loadData_saveData`)
          match parseValAll ty rest with
          | some v =>
            if !savable ty v then "throw"
            else if (save ty v).length ≥ C06.Gen.dataLimit then "toolong"
            else (match loadArchive ty (save ty v) with
              | .ok w _ => join (["ok"] ++ dumpVal ty w)
              | .err e _ => errStr e)
          | none => "bad-op"
        else if op == "rt" || op == "srt" || op == "crt" || op == "zrt" then   -- crt/zrt: cache / session store_data + fetch_data
          match parseValAll ty rest with
          | some v =>
            if !savable ty v then "throw" else
            let b := save ty v
            (match loadArchive ty b with
            | .ok w s => join (["ok"] ++ dumpVal ty w ++ (if op == "rt" then [s!"eof={boolStr (eof b s)}"] else []))
            | .err e _ => errStr e)
          | none => "bad-op"
        else if op == "load2" then
          -- archive::str() restarts at `Gen.strPtr` whatever the first load did
          match rest with
          | [_, h] => (match parseHex h with
            | some b => (match load b ty St.init with
              | .ok w s => join (["ok"] ++ dumpVal ty w ++ [s!"@{s.ptr}"])
              | .err e _ => errStr e)
            | none => "bad-op")
          | _ => "bad-op"
        else if op == "load" || op == "sload" then
          match rest with
          | [h] => (match parseHex h with
            | some b => (match loadArchive ty b with
              | .ok w s => join (["ok"] ++ dumpVal ty w ++ (if op == "load" then [s!"@{s.ptr}"] else []))
              | .err e _ => errStr e)
            | none => "bad-op")
          | _ => "bad-op"
        else if op == "J" then
          -- J <ty> <archive hex> <final ptr> <value tokens of the implementation's result>
          match rest with
          | h :: p :: toks => (match parseHex h, p.toNat?, parseValAll ty toks false with
            | some b, some p, some v => boolStr (Spec.loadOutputOk ty b v p)
            | _, _, _ => "0")
          | _ => "bad-op"
        else "bad-op")
    | _ => "bad-op"
  ((), r)

end Cppcms.C19.Driver

def main : IO Unit := lineLoop () Cppcms.C19.Driver.step
