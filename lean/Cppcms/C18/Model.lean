import Cppcms.Common
import Cppcms.C18.Gen
/-!
# C18 model: file-backed session storage (`src/session_posix_file_storage.cpp`)

A session file is a byte string.  `save_to_file` rewrites it **in place from offset 0
without truncation** with two `write_all` calls (16-byte header `{int64 timeout,
uint32 crc, uint32 size}`, then the data); `read_from_file` checks the deadline, reads
exactly `size` bytes and compares the CRC; `load` unlinks on any failure; `gc` removes
files with 32-hex-digit names whose timestamp is unreadable or past.

The constants and comparisons come from `Gen.lean` (regenerated from the C++ source on
every run); control flow is transcribed by hand and tied by the correspondence run.

Crash model (`crashState`): a crash point of the `write()` sequence (header write atomic,
any byte prefix of the data write) gives the *logical* file; then any subset `T` of
`S`-byte sectors of it has reached the disk, the others still hold the earlier content
(zero-filled where the earlier file was shorter — hole semantics), the file length being
the larger of the old length and the end of the last sector that reached the disk.
-/
namespace Cppcms.C18
open Cppcms

/-! ## fixed-width integers -/

/-- `k` little-endian bytes of `n` (i.e. of `n mod 256^k`) -/
def leBytes : Nat → Nat → Bytes
  | 0, _ => []
  | k+1, n => UInt8.ofNat (n % 256) :: leBytes k (n / 256)

/-- value of a little-endian byte string -/
def leVal : Bytes → Nat
  | [] => 0
  | b :: r => b.toNat + 256 * leVal r

/-- two's-complement reading of a 64-bit pattern (`int64_t`, `time_t`) -/
def toI64 (n : Nat) : Int := if n < 2^63 then (n : Int) else (n : Int) - 2^64

/-- bit pattern of an `int64_t` -/
def ofI64 (t : Int) : Nat := (t % 2^64).toNat

/-- `t` is representable as `time_t` (`int64_t` in this build) -/
def InI64 (t : Int) : Prop := -(2^63) ≤ t ∧ t < 2^63

instance (t : Int) : Decidable (InI64 t) := by unfold InI64; infer_instance

/-! ## CRC-32 (zlib `crc32`: reflected, polynomial 0xEDB88320, init/final xor 0xFFFFFFFF) -/

def crcPoly : Nat := 0xEDB88320

def crcBit (x : Nat) : Nat := if x % 2 = 1 then (x / 2) ^^^ crcPoly else x / 2

def crcByte (x : Nat) : Nat := crcBit (crcBit (crcBit (crcBit (crcBit (crcBit (crcBit (crcBit x)))))))

def crcUpdate (c : Nat) (b : UInt8) : Nat := crcByte (c ^^^ b.toNat)

/-- register after feeding `d`, starting from `c` (no pre/post inversion) -/
def crcRaw (c : Nat) (d : Bytes) : Nat := d.foldl crcUpdate c

/-- `crc32_calc().process_bytes(d).checksum()`; the empty string gives `crcCalcInit = 0`
(process_bytes returns early), which is also what the formula yields. -/
def crc32 (d : Bytes) : Nat := crcRaw 0xFFFFFFFF d ^^^ 0xFFFFFFFF

/-! ### the table-driven fall-back of `private/crc32.h` (not used in a zlib build) -/

/-- one iteration of `Crc32_ComputeBuf`: `crc32 = (crc32 >> 8) ^ crcTable[(crc32 ^ byteBuf[i]) & 0xFF]` -/
def tableStep (c : Nat) (b : UInt8) : Nat := (c >>> 8) ^^^ Gen.crcTable.getD ((c ^^^ b.toNat) &&& 0xFF) 0

/-- `Crc32_ComputeBuf(inCrc32, buf, len)` -/
def tableCrc (inCrc : Nat) (d : Bytes) : Nat := d.foldl tableStep (inCrc ^^^ Gen.crcXorIn) ^^^ Gen.crcXorOut

/-! ## the on-disk record -/

structure Header where
  timeout : Int
  crc : Nat
  size : Nat
deriving DecidableEq, Repr

/-- the 16 bytes `save_to_file` writes first: `{ timeout, crc32(in), (uint32) in.size() }` -/
def encodeHeader (t : Int) (d : Bytes) : Bytes :=
  leBytes Gen.stampLen (ofI64 t) ++ leBytes 4 (crc32 d) ++ leBytes 4 (d.length % 2 ^ Gen.sizeFieldBits)

/-- The `write()` calls of one `save_to_file`, in order, all starting where the previous
one ended, the first at offset 0.  `write_all` performs no call for `n = 0`. -/
def saveWrites (t : Int) (d : Bytes) : List Bytes :=
  Gen.writeOrder.filterMap fun
    | "header" => some (encodeHeader t d)
    | "data" => if d.isEmpty then none else some d
    | _ => none

/-- file content after `img` was written from offset 0 over `old` (no truncation) -/
def written (old img : Bytes) : Bytes := img ++ old.drop img.length

/-- file content after a complete `save_to_file` over earlier content `old`
(`[]` = the file did not exist / was just created by `open(O_CREAT)`). -/
def saveComplete (old : Bytes) (t : Int) (d : Bytes) : Bytes := written old (saveWrites t d).flatten

/-- the `int64` at offset 0, if there are 8 bytes (`read_all(fd,&stamp,8)`); a file shorter
than that makes `read_all` fail (short read, then `read` returns 0). -/
def stamp? (f : Bytes) : Option Int :=
  if f.length < Gen.stampLen then none else some (toI64 (leVal (f.take Gen.stampLen)))

/-- `read_timestamp` (used by gc): true = keep -/
def readTimestamp (now : Int) (f : Bytes) : Bool :=
  match stamp? f with
  | none => false
  | some s => !Gen.stampExpired s now

def parseHeader (f : Bytes) : Option Header :=
  if f.length < 16 then none
  else some ⟨toI64 (leVal (f.take 8)), leVal ((f.drop 8).take 4), leVal ((f.drop 12).take 4)⟩

/-- the `n` bytes following the header -/
def dataArea (f : Bytes) (n : Nat) : Bytes := (f.drop 16).take n

/-- `read_from_file` at clock `now`: `none` = returns false; `some (timeout, data)`. Total. -/
def readFromFile (now : Int) (f : Bytes) : Option (Int × Bytes) :=
  match stamp? f with
  | none => none                                   -- first read_all fails
  | some t =>
    if Gen.expired t now then none                 -- deadline test comes before anything else
    else match parseHeader f with
      | none => none                               -- crc / size unreadable
      | some h =>
        if f.length < 16 + h.size then none        -- read_all(buffer,size) hits end of file
        else
          let d := dataArea f h.size
          if Gen.crcMismatch h.crc (crc32 d) then none else some (t, d)

/-! ## crash states of one save -/

/-- logical file content when the process stops after `k` complete `write()` calls and `j`
bytes of the next one -/
def logical (old : Bytes) (ws : List Bytes) (k j : Nat) : Bytes :=
  written old ((ws.take k).flatten ++ (ws.getD k []).take j)

/-- end of the last sector of an `n`-byte file that reached the disk -/
def pend (S : Nat) (T : Nat → Bool) : Nat → Nat
  | 0 => 0
  | n+1 => if T (n / S) then n+1 else pend S T n

/-- byte-wise: sector `p / S` persisted → new logical byte, else the earlier byte (0 in a hole) -/
def mixAux (S : Nat) (T : Nat → Bool) : Nat → Bytes → Bytes → Bytes
  | _, o, [] => o
  | p, [], l :: ls => (if T (p / S) then l else 0) :: mixAux S T (p+1) [] ls
  | p, o :: os, l :: ls => (if T (p / S) then l else o) :: mixAux S T (p+1) os ls

/-- disk content when exactly the sectors in `T` of the logical file `L` have reached the
disk on top of `old` -/
def sectorMix (S : Nat) (T : Nat → Bool) (old L : Bytes) : Bytes :=
  (mixAux S T 0 old L).take (max old.length (pend S T L.length))

def crashState (S : Nat) (old : Bytes) (t : Int) (d : Bytes) (k j : Nat) (T : Nat → Bool) : Bytes :=
  sectorMix S T old (logical old (saveWrites t d) k j)

/-- The crash states in the property's quantifier: every prefix of the write sequence
(`k` calls), every byte prefix of the data write (`j`; the header write, `k = 0`, is atomic),
every subset `T` of sectors having reached the disk. -/
def Crash (S : Nat) (old : Bytes) (t : Int) (d : Bytes) (c : Bytes) : Prop :=
  ∃ k j T, (k = 0 → j = 0) ∧ c = crashState S old t d k j T

/-! ## the directory -/

/-- directory = partial map name ↦ content -/
abbrev Dir := Bytes → Option Bytes

def Dir.empty : Dir := fun _ => none
def Dir.erase (dir : Dir) (n : Bytes) : Dir := fun m => if m = n then none else dir m
def Dir.put (dir : Dir) (n : Bytes) (f : Bytes) : Dir := fun m => if m = n then some f else dir m

/-- `load`: open without create (absent → false, nothing touched); on any read failure unlink -/
def load (now : Int) (sid : Bytes) (dir : Dir) : Option (Int × Bytes) × Dir :=
  match dir sid with
  | none => (none, dir)
  | some f =>
    match readFromFile now f with
    | none => (none, Dir.erase dir sid)
    | some r => (some r, dir)

/-- `save`: `open(O_CREAT|O_RDWR)` (an absent file starts empty), then `save_to_file` -/
def save (sid : Bytes) (t : Int) (d : Bytes) (dir : Dir) : Dir :=
  Dir.put dir sid (saveComplete ((dir sid).getD []) t d)

/-- a save that stops at crash point `(k, j)` with sectors `T` on disk -/
def crashSave (S : Nat) (sid : Bytes) (t : Int) (d : Bytes) (k j : Nat) (T : Nat → Bool) (dir : Dir) : Dir :=
  Dir.put dir sid (crashState S ((dir sid).getD []) t d k j T)

def remove (sid : Bytes) (dir : Dir) : Dir := Dir.erase dir sid

/-- libc `isxdigit` in the C locale (external; assumed) -/
def isXdigit (c : UInt8) : Bool :=
  (48 ≤ c.toNat && c.toNat ≤ 57) || (65 ≤ c.toNat && c.toNat ≤ 70) || (97 ≤ c.toNat && c.toNat ≤ 102)

/-- gc looks only at entries whose name is exactly `sidLen` hex digits -/
def sidName (n : Bytes) : Bool := n.length == Gen.sidLen && n.all isXdigit

/-- `gc`: every entry with a session name whose timestamp is unreadable or past is unlinked -/
def gc (now : Int) (dir : Dir) : Dir := fun n =>
  match dir n with
  | none => none
  | some f => if sidName n && !readTimestamp now f then none else some f

/-! ## histories -/

inductive Op where
  | setClock (now : Int)
  | save (sid : Bytes) (t : Int) (d : Bytes)
  /-- a save that stops at crash point `(k, j)`; sectors `T` (size `S`) reached the disk -/
  | crashSave (S : Nat) (sid : Bytes) (t : Int) (d : Bytes) (k j : Nat) (T : Nat → Bool)
  | load (sid : Bytes)
  | remove (sid : Bytes)
  | gc

structure World where
  now : Int
  dir : Dir

def step (w : World) : Op → World
  | .setClock n => { w with now := n }
  | .save sid t d => { w with dir := save sid t d w.dir }
  | .crashSave S sid t d k j T => { w with dir := crashSave S sid t d k j T w.dir }
  | .load sid => { w with dir := (load w.now sid w.dir).2 }
  | .remove sid => { w with dir := remove sid w.dir }
  | .gc => { w with dir := gc w.now w.dir }

def run (w : World) (ops : List Op) : World := ops.foldl step w

end Cppcms.C18
