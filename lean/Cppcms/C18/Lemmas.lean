import Cppcms.C18.Model
/-! Helper lemmas for C18 (no property statements here). -/
namespace Cppcms.C18
open Cppcms

/-! ### fixed-width integers -/

theorem leBytes_length (k n : Nat) : (leBytes k n).length = k := by
  induction k generalizing n with
  | zero => rfl
  | succ k ih => simp [leBytes, ih]

theorem leVal_leBytes (k n : Nat) : leVal (leBytes k n) = n % 256 ^ k := by
  induction k generalizing n with
  | zero => simp [leBytes, leVal, Nat.mod_one]
  | succ k ih =>
    simp only [leBytes, leVal, ih, UInt8.toNat_ofNat']
    have h1 : 256 ^ (k + 1) = 256 * 256 ^ k := Nat.pow_succ'
    have h2 : n % (256 * 256 ^ k) = n % 256 + 256 * (n / 256 % 256 ^ k) := Nat.mod_mul
    have h3 : n % 256 % 2 ^ 8 = n % 256 := Nat.mod_eq_of_lt (by omega)
    rw [h1, h2, h3]

theorem leVal_lt (b : Bytes) : leVal b < 256 ^ b.length := by
  induction b with
  | nil => simp [leVal]
  | cons x r ih =>
    simp only [leVal, List.length_cons, Nat.pow_succ]
    have := x.toNat_lt
    omega

theorem toI64_ofI64 (t : Int) (h : InI64 t) : toI64 (ofI64 t) = t := by
  unfold InI64 at h
  unfold toI64 ofI64
  have h2 : (2:Int)^64 = 18446744073709551616 := by decide
  have h3 : (2:Int)^63 = 9223372036854775808 := by decide
  have h4 : (2:Nat)^63 = 9223372036854775808 := by decide
  rw [h3] at h
  rw [h2, h4]
  split <;> omega

/-! ### CRC-32 stays a 32-bit value -/

theorem crcBit_lt {x : Nat} (h : x < 2^32) : crcBit x < 2^32 := by
  unfold crcBit
  split
  · exact Nat.xor_lt_two_pow (by omega) (by decide)
  · omega

theorem crcByte_lt {x : Nat} (h : x < 2^32) : crcByte x < 2^32 := by
  unfold crcByte
  exact crcBit_lt (crcBit_lt (crcBit_lt (crcBit_lt (crcBit_lt (crcBit_lt (crcBit_lt (crcBit_lt h)))))))

theorem crcUpdate_lt {c : Nat} (b : UInt8) (h : c < 2^32) : crcUpdate c b < 2^32 := by
  unfold crcUpdate
  exact crcByte_lt (Nat.xor_lt_two_pow h (by have := b.toNat_lt; omega))

theorem crcRaw_lt {c : Nat} (d : Bytes) (h : c < 2^32) : crcRaw c d < 2^32 := by
  induction d generalizing c with
  | nil => simpa [crcRaw] using h
  | cons b r ih => simpa [crcRaw] using ih (crcUpdate_lt b h)

theorem crc32_lt (d : Bytes) : crc32 d < 2^32 := by
  unfold crc32
  exact Nat.xor_lt_two_pow (crcRaw_lt d (by decide)) (by decide)

/-! ### header encode / parse -/

theorem encodeHeader_length (t : Int) (d : Bytes) : (encodeHeader t d).length = 16 := by
  simp [encodeHeader, leBytes_length]

theorem saveWrites_flatten (t : Int) (d : Bytes) : (saveWrites t d).flatten = encodeHeader t d ++ d := by
  cases d with
  | nil => simp [saveWrites, Gen.writeOrder]
  | cons b r => simp [saveWrites, Gen.writeOrder]

theorem ofI64_lt (t : Int) : ofI64 t < 2^64 := by
  unfold ofI64
  have h2 : (2:Int)^64 = 18446744073709551616 := by decide
  have : (2:Nat)^64 = 18446744073709551616 := by decide
  rw [h2, this]
  omega

theorem split3 (a b c rest : Bytes) (ha : a.length = 8) (hb : b.length = 4) (hc : c.length = 4) :
    (a ++ b ++ c ++ rest).take 8 = a ∧ ((a ++ b ++ c ++ rest).drop 8).take 4 = b ∧
    ((a ++ b ++ c ++ rest).drop 12).take 4 = c := by
  refine ⟨?_, ?_, ?_⟩
  · rw [List.append_assoc, List.append_assoc]; exact List.take_left' ha
  · rw [List.append_assoc, List.append_assoc, List.drop_left' ha]; exact List.take_left' hb
  · have : (a ++ b).length = 12 := by simp [ha, hb]
    rw [List.append_assoc (a ++ b), List.drop_left' this]; exact List.take_left' hc

theorem parseHeader_encode (t : Int) (d rest : Bytes) (ht : InI64 t) (hd : d.length < 2^32) :
    parseHeader (encodeHeader t d ++ rest) = some ⟨t, crc32 d, d.length⟩ := by
  have hl : ¬ (encodeHeader t d ++ rest).length < 16 := by simp [encodeHeader_length]
  unfold parseHeader
  rw [if_neg hl]
  have e8 : (leBytes 8 (ofI64 t)).length = 8 := leBytes_length _ _
  have e4 : (leBytes 4 (crc32 d)).length = 4 := leBytes_length _ _
  have e4' : (leBytes 4 (d.length % 2 ^ 32)).length = 4 := leBytes_length _ _
  obtain ⟨a1, a2, a3⟩ := split3 _ _ _ rest e8 e4 e4'
  change (encodeHeader t d ++ rest).take 8 = _ at a1
  change ((encodeHeader t d ++ rest).drop 8).take 4 = _ at a2
  change ((encodeHeader t d ++ rest).drop 12).take 4 = _ at a3
  rw [a1, a2, a3, leVal_leBytes, leVal_leBytes, leVal_leBytes]
  have b1 : ofI64 t % 256 ^ 8 = ofI64 t := Nat.mod_eq_of_lt (by have := ofI64_lt t; simpa using this)
  have b2 : crc32 d % 256 ^ 4 = crc32 d := Nat.mod_eq_of_lt (by have := crc32_lt d; simpa using this)
  have b3 : d.length % 2 ^ 32 % 256 ^ 4 = d.length := by
    have : (256:Nat)^4 = 2^32 := by decide
    rw [this, Nat.mod_mod, Nat.mod_eq_of_lt hd]
  rw [b1, b2, b3, toI64_ofI64 t ht]

theorem stamp?_encode (t : Int) (d rest : Bytes) (ht : InI64 t) :
    stamp? (encodeHeader t d ++ rest) = some t := by
  have hl : ¬ (encodeHeader t d ++ rest).length < 8 := by simp [encodeHeader_length]; omega
  have e8 : (leBytes 8 (ofI64 t)).length = 8 := leBytes_length _ _
  unfold stamp?
  rw [if_neg hl]
  have a1 : (encodeHeader t d ++ rest).take 8 = leBytes 8 (ofI64 t) := by
    unfold encodeHeader
    rw [List.append_assoc, List.append_assoc]; exact List.take_left' e8
  rw [a1, leVal_leBytes]
  have b1 : ofI64 t % 256 ^ 8 = ofI64 t := Nat.mod_eq_of_lt (by have := ofI64_lt t; simpa using this)
  rw [b1, toI64_ofI64 t ht]

theorem dataArea_encode (t : Int) (d rest : Bytes) :
    dataArea (encodeHeader t d ++ (d ++ rest)) d.length = d := by
  unfold dataArea
  rw [List.drop_left' (encodeHeader_length t d)]
  exact List.take_left' rfl

/-- reading a file that starts with a complete record -/
theorem readFromFile_record (now t : Int) (d rest : Bytes) (ht : InI64 t) (hd : d.length < 2^32) :
    readFromFile now (encodeHeader t d ++ (d ++ rest)) = if Gen.expired t now then none else some (t, d) := by
  unfold readFromFile
  rw [stamp?_encode t d _ ht]
  simp only
  split
  · rfl
  · rw [parseHeader_encode t d _ ht hd]
    simp only
    have hl : ¬ (encodeHeader t d ++ (d ++ rest)).length < 16 + d.length := by
      simp [encodeHeader_length]
    rw [if_neg hl, dataArea_encode]
    simp [Gen.crcMismatch]

theorem saveComplete_eq (old : Bytes) (t : Int) (d : Bytes) :
    saveComplete old t d = encodeHeader t d ++ (d ++ old.drop (16 + d.length)) := by
  unfold saveComplete written
  rw [saveWrites_flatten]
  simp [encodeHeader_length]

/-! ### crash points -/

/-- every crash point in the quantifier leaves the logical file `old` itself, or `old`
overwritten by the whole header followed by a prefix of the data -/
theorem logical_cases (old : Bytes) (t : Int) (d : Bytes) (k j : Nat) (hk : k = 0 → j = 0) :
    logical old (saveWrites t d) k j = old ∨
    ∃ n, logical old (saveWrites t d) k j = encodeHeader t d ++ (d.take n ++ old.drop (16 + (d.take n).length)) := by
  have hw : ∀ x : Bytes, written old (encodeHeader t d ++ x) = encodeHeader t d ++ (x ++ old.drop (16 + x.length)) := by
    intro x; simp [written, encodeHeader_length]
  match k, hk with
  | 0, hk =>
    left
    simp [logical, written, hk rfl]
  | 1, _ =>
    right
    cases d with
    | nil => exact ⟨0, by simpa [logical, saveWrites, Gen.writeOrder] using hw []⟩
    | cons b r =>
      refine ⟨j, ?_⟩
      have := hw ((b :: r).take j)
      simpa [logical, saveWrites, Gen.writeOrder] using this
  | k+2, _ =>
    right
    cases d with
    | nil => exact ⟨0, by simpa [logical, saveWrites, Gen.writeOrder] using hw []⟩
    | cons b r =>
      refine ⟨(b :: r).length, ?_⟩
      have := hw (b :: r)
      simpa [logical, saveWrites, Gen.writeOrder] using this

/-! ### sector mixing -/

theorem mixAux_length (S : Nat) (T : Nat → Bool) (p : Nat) (o l : Bytes) :
    (mixAux S T p o l).length = max o.length l.length := by
  induction l generalizing p o with
  | nil => simp [mixAux]
  | cons x xs ih =>
    cases o with
    | nil => simp [mixAux, ih]
    | cons y ys => simp [mixAux, ih]

theorem mixAux_self (S : Nat) (T : Nat → Bool) (p : Nat) (o : Bytes) : mixAux S T p o o = o := by
  induction o generalizing p with
  | nil => simp [mixAux]
  | cons y ys ih => simp [mixAux, ih]

theorem mixAux_take_new (S : Nat) (T : Nat → Bool) (n p : Nat) (o l : Bytes)
    (hT : ∀ i, i < n → T ((p + i) / S) = true) (hn : n ≤ l.length) :
    (mixAux S T p o l).take n = l.take n := by
  induction n generalizing p o l with
  | zero => simp
  | succ n ih =>
    cases l with
    | nil => simp at hn
    | cons x xs =>
      have h0 : T (p / S) = true := by simpa using hT 0 (by omega)
      have hT' : ∀ i, i < n → T ((p + 1 + i) / S) = true := by
        intro i hi; have := hT (i + 1) (by omega); rwa [show p + (i + 1) = p + 1 + i by omega] at this
      simp only [List.length_cons] at hn
      cases o with
      | nil => simp [mixAux, h0, ih (p+1) [] xs hT' (by omega)]
      | cons y ys => simp [mixAux, h0, ih (p+1) ys xs hT' (by omega)]

theorem mixAux_take_old (S : Nat) (T : Nat → Bool) (n p : Nat) (o l : Bytes)
    (hT : ∀ i, i < n → T ((p + i) / S) = false) (hn : n ≤ o.length) :
    (mixAux S T p o l).take n = o.take n := by
  induction n generalizing p o l with
  | zero => simp
  | succ n ih =>
    cases o with
    | nil => simp at hn
    | cons y ys =>
      have h0 : T (p / S) = false := by simpa using hT 0 (by omega)
      have hT' : ∀ i, i < n → T ((p + 1 + i) / S) = false := by
        intro i hi; have := hT (i + 1) (by omega); rwa [show p + (i + 1) = p + 1 + i by omega] at this
      simp only [List.length_cons] at hn
      cases l with
      | nil => simp [mixAux]
      | cons x xs => simp [mixAux, h0, ih (p+1) ys xs hT' (by omega)]

theorem mixAux_take_zero (S : Nat) (T : Nat → Bool) (n p : Nat) (l : Bytes)
    (hT : ∀ i, i < n → T ((p + i) / S) = false) (hn : n ≤ l.length) :
    (mixAux S T p [] l).take n = List.replicate n 0 := by
  induction n generalizing p l with
  | zero => simp
  | succ n ih =>
    cases l with
    | nil => simp at hn
    | cons x xs =>
      have h0 : T (p / S) = false := by simpa using hT 0 (by omega)
      have hT' : ∀ i, i < n → T ((p + 1 + i) / S) = false := by
        intro i hi; have := hT (i + 1) (by omega); rwa [show p + (i + 1) = p + 1 + i by omega] at this
      simp only [List.length_cons] at hn
      simp [mixAux, h0, ih (p+1) xs hT' (by omega), List.replicate_succ]

theorem pend_le (S : Nat) (T : Nat → Bool) (n : Nat) : pend S T n ≤ n := by
  induction n with
  | zero => simp [pend]
  | succ n ih => unfold pend; split <;> omega

theorem pend_ge (S : Nat) (T : Nat → Bool) (n i : Nat) (hi : i < n) (hT : T (i / S) = true) :
    i + 1 ≤ pend S T n := by
  induction n with
  | zero => omega
  | succ n ih =>
    unfold pend
    split
    · omega
    · rename_i hn
      have : i ≠ n := by intro e; subst e; exact hn hT
      exact ih (by omega)

theorem pend_zero_or (S : Nat) (T : Nat → Bool) (n : Nat) :
    pend S T n = 0 ∨ (0 < pend S T n ∧ T ((pend S T n - 1) / S) = true) := by
  induction n with
  | zero => simp [pend]
  | succ n ih =>
    unfold pend
    split
    · right; rename_i h; simpa using h
    · exact ih

theorem div_zero_of_lt16 {S i : Nat} (hS : 16 ≤ S) (hi : i < 16) : (0 + i) / S = 0 := by
  rw [Nat.zero_add]; exact Nat.div_eq_of_lt (by omega)

theorem sectorMix_self (S : Nat) (T : Nat → Bool) (old : Bytes) : sectorMix S T old old = old := by
  unfold sectorMix
  rw [mixAux_self]
  exact List.take_of_length_le (by omega)

/-- sector 0 reached the disk: the first 16 bytes are those of the logical file -/
theorem sectorMix_head_new (S : Nat) (T : Nat → Bool) (old L : Bytes) (hS : 16 ≤ S)
    (hT : T 0 = true) (hL : 16 ≤ L.length) :
    (sectorMix S T old L).take 16 = L.take 16 ∧ 16 ≤ (sectorMix S T old L).length := by
  have hp : 16 ≤ pend S T L.length := pend_ge S T L.length 15 (by omega) (by rw [Nat.div_eq_of_lt (by omega)]; exact hT)
  have hm := mixAux_length S T 0 old L
  unfold sectorMix
  constructor
  · rw [List.take_take, Nat.min_eq_left (by omega)]
    exact mixAux_take_new S T 16 0 old L (fun i hi => by rw [div_zero_of_lt16 hS hi]; exact hT) hL
  · rw [List.length_take, hm]; omega

/-- sector 0 did not reach the disk and the earlier file has a header: it is still there -/
theorem sectorMix_head_old (S : Nat) (T : Nat → Bool) (old L : Bytes) (hS : 16 ≤ S)
    (hT : T 0 = false) (hO : 16 ≤ old.length) :
    (sectorMix S T old L).take 16 = old.take 16 ∧ 16 ≤ (sectorMix S T old L).length := by
  have hm := mixAux_length S T 0 old L
  unfold sectorMix
  constructor
  · rw [List.take_take, Nat.min_eq_left (by omega)]
    exact mixAux_take_old S T 16 0 old L (fun i hi => by rw [div_zero_of_lt16 hS hi]; exact hT) hO
  · rw [List.length_take, hm]; omega

/-- sector 0 did not reach the disk and there was no earlier file: empty, or a hole of zeros -/
theorem sectorMix_head_hole (S : Nat) (T : Nat → Bool) (L : Bytes) (hS : 16 ≤ S) (hT : T 0 = false) :
    sectorMix S T [] L = [] ∨
    ((sectorMix S T [] L).take 16 = List.replicate 16 0 ∧ 16 ≤ (sectorMix S T [] L).length) := by
  have hm := mixAux_length S T 0 [] L
  have hle := pend_le S T L.length
  unfold sectorMix
  rcases pend_zero_or S T L.length with h0 | ⟨hpos, hTp⟩
  · left; simp [h0]
  · right
    have hbig : S ≤ pend S T L.length - 1 := by
      apply Nat.le_of_not_lt
      intro hlt
      rw [Nat.div_eq_of_lt hlt, hT] at hTp
      exact Bool.noConfusion hTp
    constructor
    · rw [List.take_take, Nat.min_eq_left (by simp; omega)]
      exact mixAux_take_zero S T 16 0 L (fun i hi => by rw [div_zero_of_lt16 hS hi]; exact hT) (by omega)
    · rw [List.length_take, hm]; simp; omega

/-! ### the header is a function of the first 16 bytes -/

theorem header_congr (f g : Bytes) (hf : 16 ≤ f.length) (hg : 16 ≤ g.length) (h : f.take 16 = g.take 16) :
    stamp? f = stamp? g ∧ parseHeader f = parseHeader g := by
  have a : ∀ x : Bytes, x.take 8 = (x.take 16).take 8 := by intro x; rw [List.take_take]; rfl
  have b : ∀ x : Bytes, (x.drop 8).take 4 = ((x.take 16).drop 8).take 4 := by
    intro x; rw [List.drop_take, List.take_take]; rfl
  have c : ∀ x : Bytes, (x.drop 12).take 4 = ((x.take 16).drop 12).take 4 := by
    intro x; rw [List.drop_take, List.take_take]; rfl
  unfold stamp? parseHeader
  rw [if_neg (by simp [Gen.stampLen]; omega), if_neg (by simp [Gen.stampLen]; omega), if_neg (by omega), if_neg (by omega)]
  show some (toI64 (leVal (f.take 8))) = some (toI64 (leVal (g.take 8))) ∧ _
  rw [a f, b f, c f, a g, b g, c g, h]
  exact ⟨rfl, rfl⟩

theorem stamp?_of_parseHeader {f : Bytes} {h : Header} (hp : parseHeader f = some h) :
    stamp? f = some h.timeout := by
  unfold parseHeader at hp
  split at hp
  · cases hp
  · rename_i hl
    unfold stamp?
    rw [if_neg (by simp [Gen.stampLen]; omega)]
    injection hp with hp
    rw [← hp]

/-- what a successful `read_from_file` establishes -/
theorem readFromFile_some {now : Int} {f : Bytes} {r : Int × Bytes} (hr : readFromFile now f = some r) :
    ∃ h, parseHeader f = some h ∧ Gen.expired h.timeout now = false ∧ 16 + h.size ≤ f.length ∧
      crc32 (dataArea f h.size) = h.crc ∧ r = (h.timeout, dataArea f h.size) := by
  unfold readFromFile at hr
  split at hr
  · cases hr
  · rename_i ts hts
    split at hr
    · cases hr
    · rename_i hexp
      split at hr
      · cases hr
      · rename_i h hp
        have := stamp?_of_parseHeader hp
        rw [hts] at this
        injection this with this
        subst this
        split at hr
        · cases hr
        · rename_i hlen
          simp only at hr
          split at hr
          · cases hr
          · rename_i hcrc
            injection hr with hr
            refine ⟨h, hp, by simpa using hexp, by omega, ?_, hr.symm⟩
            have := hcrc; simp [Gen.crcMismatch] at this; exact this.symm

/-- conversely -/
theorem readFromFile_of {now : Int} {f : Bytes} {h : Header} (hp : parseHeader f = some h)
    (hexp : Gen.expired h.timeout now = false) (hlen : 16 + h.size ≤ f.length)
    (hcrc : crc32 (dataArea f h.size) = h.crc) :
    readFromFile now f = some (h.timeout, dataArea f h.size) := by
  unfold readFromFile
  rw [stamp?_of_parseHeader hp]
  simp only [hexp, hp, Bool.false_eq_true, if_false]
  rw [if_neg (by omega)]
  simp [Gen.crcMismatch, hcrc]

theorem dataArea_length {f : Bytes} {n : Nat} (h : 16 + n ≤ f.length) : (dataArea f n).length = n := by
  unfold dataArea
  rw [List.length_take, List.length_drop]; omega

/-- **Header atomicity.** The first 16 bytes of every crash state are: nothing (empty file),
the complete new header, the complete earlier header, or a hole of zeros (only when there
was no earlier file). -/
theorem crash_header (S : Nat) (old : Bytes) (t : Int) (d c : Bytes) (hS : 16 ≤ S)
    (hwf : old = [] ∨ 16 ≤ old.length) (hc : Crash S old t d c) :
    c = [] ∨ (16 ≤ c.length ∧ c.take 16 = encodeHeader t d) ∨
    (16 ≤ c.length ∧ 16 ≤ old.length ∧ c.take 16 = old.take 16) ∨
    (16 ≤ c.length ∧ c.take 16 = List.replicate 16 0) := by
  obtain ⟨k, j, T, hk, rfl⟩ := hc
  unfold crashState
  rcases logical_cases old t d k j hk with hL | ⟨n, hL⟩
  · rw [hL, sectorMix_self]
    rcases hwf with rfl | h16
    · left; rfl
    · right; right; left; exact ⟨h16, h16, rfl⟩
  · rw [hL]
    have hlen : 16 ≤ (encodeHeader t d ++ (d.take n ++ old.drop (16 + (d.take n).length))).length := by
      simp [encodeHeader_length]
    have htake : (encodeHeader t d ++ (d.take n ++ old.drop (16 + (d.take n).length))).take 16 = encodeHeader t d :=
      List.take_left' (encodeHeader_length t d)
    cases hT : T 0 with
    | true =>
      right; left
      obtain ⟨h1, h2⟩ := sectorMix_head_new S T old _ hS hT hlen
      exact ⟨h2, by rw [h1, htake]⟩
    | false =>
      rcases hwf with rfl | h16
      · rcases sectorMix_head_hole S T _ hS hT with h | ⟨h1, h2⟩
        · left; exact h
        · right; right; right; exact ⟨h2, h1⟩
      · right; right; left
        obtain ⟨h1, h2⟩ := sectorMix_head_old S T old _ hS hT h16
        exact ⟨h2, h16, h1⟩

/-! ### CRC-32 is affine over GF(2) -/

theorem xor_cancel4 (a b p : Nat) : (a ^^^ p) ^^^ (b ^^^ p) = a ^^^ b := by
  rw [Nat.xor_assoc, ← Nat.xor_assoc p, Nat.xor_comm p b, Nat.xor_assoc b, Nat.xor_self, Nat.xor_zero]

theorem crcBit_xor (x y : Nat) : crcBit (x ^^^ y) = crcBit x ^^^ crcBit y := by
  unfold crcBit
  have hm := @Nat.xor_mod_two_eq_one x y
  rw [Nat.xor_div_two]
  by_cases hx : x % 2 = 1 <;> by_cases hy : y % 2 = 1
  · have : ¬ (x ^^^ y) % 2 = 1 := by rw [hm]; simp [hx, hy]
    rw [if_neg this, if_pos hx, if_pos hy, xor_cancel4]
  · have : (x ^^^ y) % 2 = 1 := by rw [hm]; simp [hx, hy]
    rw [if_pos this, if_pos hx, if_neg hy, Nat.xor_assoc, Nat.xor_comm (y / 2), ← Nat.xor_assoc]
  · have : (x ^^^ y) % 2 = 1 := by rw [hm]; simp [hx, hy]
    rw [if_pos this, if_neg hx, if_pos hy, Nat.xor_assoc]
  · have : ¬ (x ^^^ y) % 2 = 1 := by rw [hm]; simp [hx, hy]
    rw [if_neg this, if_neg hx, if_neg hy]

theorem crcByte_xor (x y : Nat) : crcByte (x ^^^ y) = crcByte x ^^^ crcByte y := by
  unfold crcByte
  simp only [crcBit_xor]

/-- byte-wise xor of two strings -/
def xorB (a b : Bytes) : Bytes := List.zipWith (· ^^^ ·) a b

theorem crcUpdate_xor (c1 c2 : Nat) (b1 b2 : UInt8) :
    crcUpdate (c1 ^^^ c2) (b1 ^^^ b2) = crcUpdate c1 b1 ^^^ crcUpdate c2 b2 := by
  unfold crcUpdate
  rw [← crcByte_xor, UInt8.toNat_xor]
  congr 1
  rw [Nat.xor_assoc, Nat.xor_assoc, ← Nat.xor_assoc c2, Nat.xor_comm c2, Nat.xor_assoc b1.toNat]

theorem crcRaw_xor (a b : Bytes) (c1 c2 : Nat) (h : a.length = b.length) :
    crcRaw (c1 ^^^ c2) (xorB a b) = crcRaw c1 a ^^^ crcRaw c2 b := by
  induction a generalizing b c1 c2 with
  | nil => cases b with
    | nil => simp [crcRaw, xorB]
    | cons _ _ => simp at h
  | cons x xs ih => cases b with
    | nil => simp at h
    | cons y ys =>
      simp only [List.length_cons, Nat.add_right_cancel_iff] at h
      have := ih ys (crcUpdate c1 x) (crcUpdate c2 y) h
      simp only [crcRaw, xorB, List.zipWith_cons_cons, List.foldl_cons] at this ⊢
      rw [crcUpdate_xor]
      exact this

theorem crcRaw_zeros (n : Nat) : crcRaw 0 (List.replicate n 0) = 0 := by
  induction n with
  | zero => rfl
  | succ n ih =>
    have : crcUpdate 0 0 = 0 := by decide
    simp only [crcRaw, List.replicate_succ, List.foldl_cons, this] at ih ⊢
    exact ih

theorem crcRaw_append (c : Nat) (a b : Bytes) : crcRaw c (a ++ b) = crcRaw (crcRaw c a) b := by
  simp [crcRaw, List.foldl_append]

/-- a multiple of the generator polynomial: `01` followed by `crcTable[1]` little-endian -/
def genMultiple : Bytes := [1, 0x96, 0x30, 0x07, 0x77]

theorem crcRaw_genMultiple : crcRaw 0 genMultiple = 0 := by decide

/-- the difference pattern "nothing for `j` bytes, then the generator multiple, then nothing" is
invisible to CRC-32 -/
theorem crcRaw_delta (j k : Nat) :
    crcRaw 0 (List.replicate j 0 ++ (genMultiple ++ List.replicate k 0)) = 0 := by
  rw [crcRaw_append, crcRaw_zeros, crcRaw_append, crcRaw_genMultiple, crcRaw_zeros]

theorem xorB_length (a b : Bytes) (h : a.length = b.length) : (xorB a b).length = a.length := by
  simp [xorB, h]

/-- equal CRC-32 for `d` and `d ⊕ δ` whenever `δ` is invisible -/
theorem crc32_xorB (d δ : Bytes) (h : d.length = δ.length) (hδ : crcRaw 0 δ = 0) :
    crc32 (xorB d δ) = crc32 d := by
  unfold crc32
  have := crcRaw_xor d δ 0xFFFFFFFF 0 h
  rw [Nat.xor_zero] at this
  rw [this, hδ, Nat.xor_zero]

theorem xorB_append (a b x y : Bytes) (h : a.length = x.length) :
    xorB (a ++ b) (x ++ y) = xorB a x ++ xorB b y := by
  unfold xorB
  exact List.zipWith_append h

theorem xorB_zeros (a : Bytes) : xorB a (List.replicate a.length 0) = a := by
  induction a with
  | nil => rfl
  | cons x xs ih =>
    simp only [xorB, List.length_cons, List.replicate_succ, List.zipWith_cons_cons] at ih ⊢
    rw [ih]; simp

theorem uint8_xor_one_ne : ∀ x : UInt8, x ^^^ 1 ≠ x := by
  apply forall_uint8
  decide +kernel


/-! ### the adversarial earlier value for an arbitrary payload and tear position -/

def tailDelta (n j : Nat) : Bytes := genMultiple ++ List.replicate (n - j - 5) 0
/-- `old ⊕ new`: a 1 in the first byte (before the tear), the generator multiple at the tear -/
def advDelta (n j : Nat) : Bytes := (1 :: List.replicate (j - 1) 0) ++ tailDelta n j
/-- `mixture ⊕ new` -/
def mixDelta (n j : Nat) : Bytes := List.replicate j 0 ++ tailDelta n j
/-- the adversarial earlier value for payload `d` torn after `j` bytes -/
def advOld (d : Bytes) (j : Nat) : Bytes := xorB d (advDelta d.length j)

theorem tailDelta_length (n j : Nat) (h : j + 5 ≤ n) : (tailDelta n j).length = n - j := by
  simp [tailDelta, genMultiple]; omega

theorem advOld_split (d : Bytes) (j : Nat) (hj : 1 ≤ j) (h : j + 5 ≤ d.length) :
    advOld d j = xorB (d.take j) (1 :: List.replicate (j - 1) 0) ++ xorB (d.drop j) (tailDelta d.length j) := by
  unfold advOld advDelta
  conv => lhs; rw [← List.take_append_drop j d]
  rw [xorB_append]
  · simp
  · simp; omega

theorem mix_split (d : Bytes) (j : Nat) (h : j + 5 ≤ d.length) :
    xorB d (mixDelta d.length j) = d.take j ++ xorB (d.drop j) (tailDelta d.length j) := by
  unfold mixDelta
  conv => lhs; rw [← List.take_append_drop j d]
  rw [xorB_append]
  · have : (d.take j).length = j := by simp; omega
    have e := xorB_zeros (d.take j)
    rw [this] at e
    simp only [List.take_append_drop]
    rw [e]
  · simp; omega

theorem advOld_length (d : Bytes) (j : Nat) (hj : 1 ≤ j) (h : j + 5 ≤ d.length) : (advOld d j).length = d.length := by
  unfold advOld
  apply xorB_length
  simp [advDelta, tailDelta, genMultiple]; omega

/-- the torn value: new bytes before the tear, adversarial old bytes after it -/
theorem mix_eq (d : Bytes) (j : Nat) (hj : 1 ≤ j) (h : j + 5 ≤ d.length) :
    d.take j ++ (advOld d j).drop j = xorB d (mixDelta d.length j) := by
  rw [mix_split d j h, advOld_split d j hj h]
  congr 1
  apply List.drop_left'
  rw [xorB_length] <;> simp <;> omega

theorem mix_crc (d : Bytes) (j : Nat) (h : j + 5 ≤ d.length) :
    crc32 (xorB d (mixDelta d.length j)) = crc32 d := by
  apply crc32_xorB
  · simp [mixDelta, tailDelta, genMultiple]; omega
  · exact crcRaw_delta j _

theorem mix_ne_new (d : Bytes) (j : Nat) (h : j + 5 ≤ d.length) : xorB d (mixDelta d.length j) ≠ d := by
  rw [mix_split d j h]
  intro e
  have e2 : d.take j ++ xorB (d.drop j) (tailDelta d.length j) = d.take j ++ d.drop j := by
    rw [List.take_append_drop]; exact e
  have e3 := List.append_cancel_left e2
  match hd : d.drop j with
  | [] => have := congrArg List.length hd; simp at this; omega
  | e0 :: es =>
    rw [hd] at e3
    simp only [tailDelta, genMultiple, xorB, List.cons_append, List.zipWith_cons_cons, List.cons.injEq] at e3
    exact uint8_xor_one_ne e0 e3.1

theorem mix_ne_old (d : Bytes) (j : Nat) (hj : 1 ≤ j) (h : j + 5 ≤ d.length) :
    xorB d (mixDelta d.length j) ≠ advOld d j := by
  rw [mix_split d j h, advOld_split d j hj h]
  intro e
  have e3 := List.append_cancel_right e
  obtain ⟨j', rfl⟩ : ∃ j', j = j' + 1 := ⟨j - 1, by omega⟩
  cases d with
  | nil => simp at h
  | cons d0 ds =>
    simp only [List.take_succ_cons, xorB, List.zipWith_cons_cons, List.cons.injEq] at e3
    exact uint8_xor_one_ne d0 e3.1.symm

theorem sectorMix_all (S : Nat) (old L : Bytes) (h : old.length ≤ L.length) :
    sectorMix S (fun _ => true) old L = L := by
  unfold sectorMix
  have hp : pend S (fun _ => true) L.length = L.length := by
    cases L.length <;> simp [pend]
  rw [hp, Nat.max_eq_right h]
  have hm := mixAux_take_new S (fun _ => true) L.length 0 old L (fun _ _ => rfl) (Nat.le_refl _)
  rw [hm, List.take_length]

theorem logical_one (old : Bytes) (t : Int) (d : Bytes) (j : Nat) (hd : d ≠ []) :
    logical old (saveWrites t d) 1 j =
      encodeHeader t d ++ (d.take j ++ old.drop (16 + (d.take j).length)) := by
  cases d with
  | nil => exact absurd rfl hd
  | cons b r =>
    have hw : written old (encodeHeader t (b :: r) ++ (b :: r).take j) =
        encodeHeader t (b :: r) ++ ((b :: r).take j ++ old.drop (16 + ((b :: r).take j).length)) := by
      simp [written, encodeHeader_length]
    simpa [logical, saveWrites, Gen.writeOrder] using hw

theorem encodeHeader_congr (t : Int) (a b : Bytes) (hl : a.length = b.length) (hc : crc32 a = crc32 b) :
    encodeHeader t a = encodeHeader t b := by
  unfold encodeHeader; rw [hl, hc]


/-! ### the table-driven loop of crc32.h computes the bitwise CRC -/

theorem crcBit_double (m : Nat) : crcBit (2 * m) = m := by
  unfold crcBit
  rw [if_neg (by omega)]
  omega

theorem crcByte_shift (hi : Nat) : crcByte (256 * hi) = hi := by
  have : 256 * hi = 2 * (2 * (2 * (2 * (2 * (2 * (2 * (2 * hi))))))) := by omega
  unfold crcByte
  rw [this]
  simp only [crcBit_double]

theorem split_low_byte (x : Nat) : x = (256 * (x / 256)) ^^^ (x % 256) := by
  apply Nat.eq_of_testBit_eq
  intro i
  rw [Nat.testBit_xor]
  have h256 : (256 : Nat) = 2 ^ 8 := by decide
  rw [h256, Nat.testBit_two_pow_mul, Nat.testBit_mod_two_pow, Nat.testBit_div_two_pow]
  by_cases h : i < 8
  · have : ¬ (8 ≤ i) := by omega
    simp [h, this]
  · have h8 : 8 ≤ i := by omega
    have : i - 8 + 8 = i := by omega
    simp [h, h8, this]

theorem table_get (i : Nat) (h : i < 256) : Gen.crcTable.getD i 0 = crcByte i := by
  have key : ∀ i : Fin 256, Gen.crcTable.getD i.val 0 = crcByte i.val := by decide +kernel
  exact key ⟨i, h⟩

theorem tableStep_eq (c : Nat) (b : UInt8) : tableStep c b = crcUpdate c b := by
  unfold tableStep crcUpdate
  have hb := b.toNat_lt
  have hx := split_low_byte (c ^^^ b.toNat)
  have hand : (c ^^^ b.toNat) &&& 0xFF = (c ^^^ b.toNat) % 256 := by
    have := @Nat.and_two_pow_sub_one_eq_mod (c ^^^ b.toNat) 8
    simpa using this
  have hdiv : (c ^^^ b.toNat) / 256 = c >>> 8 := by
    rw [Nat.shiftRight_eq_div_pow]
    have h1 : (c ^^^ b.toNat) >>> 8 = c >>> 8 ^^^ b.toNat >>> 8 := Nat.shiftRight_xor_distrib
    rw [Nat.shiftRight_eq_div_pow, Nat.shiftRight_eq_div_pow, Nat.shiftRight_eq_div_pow] at h1
    have h2 : b.toNat / 2 ^ 8 = 0 := Nat.div_eq_of_lt (by simpa using hb)
    rw [h2, Nat.xor_zero] at h1
    exact h1
  rw [hand, table_get _ (Nat.mod_lt _ (by decide))]
  conv => rhs; rw [hx, crcByte_xor, crcByte_shift, hdiv]


/-! ### crash states byte by byte -/

theorem mixAux_getElem? (S : Nat) (T : Nat → Bool) (p : Nat) (o l : Bytes) (q : Nat)
    (hq : q < (mixAux S T p o l).length) :
    (mixAux S T p o l)[q]? = l[q]? ∨ (mixAux S T p o l)[q]? = o[q]? ∨ (mixAux S T p o l)[q]? = some 0 := by
  induction l generalizing p o q with
  | nil => right; left; simp [mixAux]
  | cons x xs ih =>
    cases o with
    | nil =>
      cases q with
      | zero => simp only [mixAux]; by_cases h : T (p / S) <;> simp [h]
      | succ q =>
        simp only [mixAux, List.length_cons] at hq ⊢
        simpa using ih (p+1) [] q (by omega)
    | cons y ys =>
      cases q with
      | zero => simp only [mixAux]; by_cases h : T (p / S) <;> simp [h]
      | succ q =>
        simp only [mixAux, List.length_cons] at hq ⊢
        simpa using ih (p+1) ys q (by omega)

theorem logical_getElem? (old : Bytes) (t : Int) (d : Bytes) (k j : Nat) (hk : k = 0 → j = 0) (q : Nat) :
    (logical old (saveWrites t d) k j)[q]? = (saveComplete old t d)[q]? ∨
    (logical old (saveWrites t d) k j)[q]? = old[q]? := by
  rcases logical_cases old t d k j hk with h | ⟨n, h⟩
  · right; rw [h]
  · rw [h, saveComplete_eq]
    have h16 := encodeHeader_length t d
    have hlt : (d.take n).length ≤ d.length := by simp; omega
    have hltn : (d.take n).length ≤ n := List.length_take_le n d
    have e1 : ∀ X : Bytes, 16 ≤ q → (encodeHeader t d ++ X)[q]? = X[q - 16]? := by
      intro X hq; rw [List.getElem?_append_right (by omega), h16]
    by_cases hq : q < 16
    · left
      rw [List.getElem?_append_left (by omega), List.getElem?_append_left (by omega)]
    · by_cases hq2 : q - 16 < (d.take n).length
      · left
        rw [e1 _ (by omega), e1 _ (by omega), List.getElem?_append_left hq2,
          List.getElem?_append_left (show q - 16 < d.length by omega), List.getElem?_take_of_lt (by omega)]
      · right
        rw [e1 _ (by omega), List.getElem?_append_right (by omega), List.getElem?_drop]
        congr 1
        omega


end Cppcms.C18
