import Cppcms.Common
import Cppcms.C18.Model
import Cppcms.C18.Spec
import Cppcms.C18.Witness
/-! Line-protocol driver for C18.  One line = one script over a fresh directory (ops separated
by `;`, see `harness/c18.cpp`); `J …` lines evaluate the judge predicates of `Spec.lean` on
outputs of the implementation; `witness N` prints the script replaying witness N of
`Witness.lean` (the bytes of `Props.torn_counterexample*`). -/
open Cppcms Cppcms.C18

structure St where
  w : World := ⟨0, Dir.empty⟩
  names : List String := []       -- every name ever created, for `ls`
  out : List String := []

def nameBytes (s : String) : Bytes := s.toUTF8.toList

def goodName (s : String) : Bool := s.length > 0 && s.length ≤ 64 && s.all Char.isAlphanum

def showLoad : Option (Int × Bytes) → String
  | none => "none"
  | some (t, d) => s!"ok {t} {toHex d}"

/-- the `write()` calls a (possibly crashing) save performs: `LEN@OFF,…` -/
def writeLog (ws : List Bytes) (k j : Nat) : String :=
  let full := ws.take k
  let part := (ws.getD k []).take j
  let calls := full ++ (if part.isEmpty then [] else [part])
  let rec go (off : Nat) : List Bytes → List String
    | [] => []
    | w :: r => s!"{w.length}@{off}" :: go (off + w.length) r
  let l := go 0 calls
  if l.isEmpty then "-" else ",".intercalate l

def parseMask (s : String) : Option (Nat → Bool) :=
  if s == "all" then some (fun _ => true)
  else if s == "-" then some (fun _ => false)
  else
    let parts := s.splitOn ","
    match parts.mapM String.toNat? with
    | some l => some (fun i => l.contains i)
    | none => none

def insertSorted (s : String) : List String → List String
  | [] => [s]
  | x :: xs => if s == x then x :: xs else if s < x then s :: x :: xs else x :: insertSorted s xs

/-- every state change goes through `Cppcms.C18.step` (the function `history_load_partial` is about) -/
def runOp (st : St) (op : List String) : Option St :=
  let emit (st : St) (s : String) : St := { st with out := s :: st.out }
  match op with
  | ["flock", _] => some (emit st "ok")
  | ["now", n] => n.toInt?.map fun v => emit { st with w := step st.w (.setClock v) } "ok"
  | ["put", name, h] =>
    if !goodName name then none else
    (parseHex h).map fun d => emit { st with w := { st.w with dir := Dir.put st.w.dir (nameBytes name) d }, names := insertSorted name st.names } "ok"
  | ["save", sid, t, h] =>
    if !goodName sid || sid.length < 4 then none else
    match t.toInt?, parseHex h with
    | some t, some d =>
      let ws := saveWrites t d
      some (emit { st with w := step st.w (.save (nameBytes sid) t d), names := insertSorted sid st.names } ("w=" ++ writeLog ws ws.length 0))
    | _, _ => none
  | ["csave", sid, t, h, k, j, s, mask] =>
    if !goodName sid || sid.length < 4 then none else
    match t.toInt?, parseHex h, k.toNat?, j.toNat?, s.toNat?, parseMask mask with
    | some t, some d, some k, some j, some s, some T =>
      if s == 0 then none else
      some (emit { st with w := step st.w (.crashSave s (nameBytes sid) t d k j T), names := insertSorted sid st.names }
        ("w=" ++ writeLog (saveWrites t d) k j))
    | _, _, _, _, _, _ => none
  | ["ksave", sid, t, h, k, j, s, mask] =>
    if !goodName sid || sid.length < 4 then none else
    match t.toInt?, parseHex h, k.toNat?, j.toNat?, s.toNat?, parseMask mask with
    | some t, some d, some k, some j, some s, some T =>
      if s == 0 then none else
      some (emit { st with w := step st.w (.crashSave s (nameBytes sid) t d k j T), names := insertSorted sid st.names }
        "w=killed")
    | _, _, _, _, _, _ => none
  | ["load", sid] =>
    if !goodName sid || sid.length < 4 then none else
    let r := (load st.w.now (nameBytes sid) st.w.dir).1
    some (emit { st with w := step st.w (.load (nameBytes sid)) } (showLoad r))
  | ["probe", name] =>
    if !goodName name then none else
    match st.w.dir (nameBytes name) with
    | none => some (emit st "none")
    | some f => some (emit st (showLoad (readFromFile st.w.now f)))
  | ["remove", sid] =>
    if !goodName sid || sid.length < 4 then none else
    some (emit { st with w := step st.w (.remove (nameBytes sid)) } "ok")
  | ["crc", h] =>
    (parseHex h).map fun d => emit st (if tableCrc 0 d == crc32 d then toString (crc32 d) else "table-crc-differs")
  | ["gc"] => some (emit { st with w := step st.w .gc } "ok")
  | ["ls"] =>
    let ents := st.names.filterMap fun n => (st.w.dir (nameBytes n)).map fun f => s!"{n}:{toHex f}"
    some (emit st (if ents.isEmpty then "-" else ",".intercalate ents))
  | _ => none

def splitOps (ws : List String) : List (List String) :=
  let rec go (cur : List String) (acc : List (List String)) : List String → List (List String)
    | [] => (cur.reverse :: acc).reverse
    | ";" :: r => go [] (cur.reverse :: acc) r
    | x :: r => go (x :: cur) acc r
  (go [] [] ws).filter (· ≠ [])

def runScript (ws : List String) : String :=
  let rec go (st : St) : List (List String) → Option St
    | [] => some st
    | op :: r => match runOp st op with
      | none => none
      | some st' => go st' r
  match go {} (splitOps ws) with
  | none => "bad-op"
  | some st => if st.out.isEmpty then "-" else " | ".intercalate st.out.reverse

def parseRes : List String → Option (Option (Int × Bytes) × List String)
  | "none" :: r => some (none, r)
  | "ok" :: t :: h :: r => match t.toInt?, parseHex h with
    | some t, some d => some (some (t, d), r)
    | _, _ => none
  | _ => none

def witnessScript (n : String) : String :=
  let sid := "0123456789abcdef0123456789abcdef"
  if n == "1" then
    s!"now {Witness.now1} ; save {sid} {Witness.oldT1} {toHex Witness.old1} ; probe {sid} ; csave {sid} {Witness.newT1} {toHex Witness.new1} 1 {Witness.tear1} 512 all ; load {sid} ; ls"
  else if n == "2" then
    s!"now {Witness.now1} ; save {sid} {Witness.oldT1} {toHex Witness.old2} ; probe {sid} ; csave {sid} {Witness.newT1} {toHex Witness.new2} 2 0 512 0 ; load {sid} ; ls"
  else "bad-op"

def witnessExpect (n : String) : String :=
  if n == "1" then showLoad (some (Witness.newT1, Witness.mix1))
  else if n == "2" then showLoad (some (Witness.newT1, Witness.mix2))
  else "bad-op"

def step (_ : Unit) (line : String) : Unit × String :=
  let r : String :=
    match words line with
    -- judge: J crash <newT> <newHex> <oldLoad…> <res…>
    | "J" :: "crash" :: t :: h :: rest =>
      (match t.toInt?, parseHex h, parseRes rest with
       | some t, some d, some (oldLoad, rest') =>
         (match parseRes rest' with
          | some (res, []) => boolStr (Spec.allowedOutcome res (t, d) oldLoad)
          | _ => "bad-op")
       | _, _, _ => "bad-op")
    -- judge: J gc <now> <name> <contentHex> <live 0|1> <kept 0|1>
    | ["J", "gc", now, name, h, live, kept] =>
      (match now.toInt?, parseHex h with
       | some now, some f => boolStr (Spec.gcEntryOk now (nameBytes name) f (live == "1") (kept == "1"))
       | _, _ => "bad-op")
    -- judge: J sound <now> <fileHex> <T> <dataHex>   (conclusion of Props.load_sound on an answer of the implementation)
    | ["J", "sound", now, f, t, h] =>
      (match now.toInt?, parseHex f, t.toInt?, parseHex h with
       | some now, some f, some t, some d => boolStr (Spec.loadSoundOk now f (t, d))
       | _, _, _, _ => "bad-op")
    | ["crc32", h] => (match parseHex h with | some d => toString (crc32 d) | none => "bad-op")
    | ["witness", n] => witnessScript n
    | ["witness-expect", n] => witnessExpect n
    | ws => runScript ws
  ((), r)

def main : IO Unit := lineLoop () step
