import Cppcms.C18.Model
/-!
# C18 — definitions used in the property statements and by the judge

`Spec` does not restate the model; it names the *outcomes* the property allows and the
precise shape of the one it cannot exclude (a CRC-32 collision between equal-length strings).
-/
namespace Cppcms.C18.Spec
open Cppcms Cppcms.C18

/-- `v` is a *different* string of the *same length* with the *same CRC-32* as `a` -/
def Collision (a v : Bytes) : Prop := v.length = a.length ∧ crc32 v = crc32 a ∧ v ≠ a

/-- the crash state `c` carries the new header, the bytes behind it are not the new data,
and yet they pass the check: `load` returns the new deadline with a torn value `r.2` -/
def TornNew (t : Int) (d c : Bytes) (r : Int × Bytes) : Prop :=
  r.1 = t ∧ r.2 = dataArea c d.length ∧ Collision d r.2

/-- the crash state `c` still carries the header `h` of the earlier file, the `h.size` bytes
behind it pass the check against `h.crc`, but the earlier file would not have loaded as `r` -/
def TornOld (now : Int) (old c : Bytes) (r : Int × Bytes) : Prop :=
  ∃ h, parseHeader old = some h ∧ parseHeader c = some h ∧ r.1 = h.timeout ∧ Gen.expired h.timeout now = false ∧
    r.2 = dataArea c h.size ∧ r.2.length = h.size ∧ crc32 r.2 = h.crc ∧ readFromFile now old ≠ some r

/-- no crash state of this save over `old` is a torn value that passes the CRC test -/
def CollisionFree (S : Nat) (now : Int) (old : Bytes) (t : Int) (d : Bytes) : Prop :=
  ∀ c r, Crash S old t d c → ¬ TornNew t d c r ∧ ¬ TornOld now old c r

/-- the earlier file state is one a directory can hold after `open(O_CREAT)`/saves/crashes:
empty (just created) or at least a whole header -/
def WellFormedOld (old : Bytes) : Prop := old = [] ∨ 16 ≤ old.length

/-- the session id an operation is called with (gc and clock moves have none) -/
def opTarget : Op → Option Bytes
  | .save s _ _ => some s
  | .crashSave _ s _ _ _ _ _ => some s
  | .load s => some s
  | .remove s => some s
  | _ => none

/-- the values handed to a (complete or crashed) save of `sid` along a history -/
def savedValues (sid : Bytes) : List Op → List (Int × Bytes)
  | [] => []
  | .save s t d :: r => if s = sid then (t, d) :: savedValues sid r else savedValues sid r
  | .crashSave _ s t d _ _ _ :: r => if s = sid then (t, d) :: savedValues sid r else savedValues sid r
  | _ :: r => savedValues sid r

/-- side conditions of one step: clocks are positive, deadlines fit `time_t`, payloads fit `int`,
sectors hold the header, the header write is atomic, and — the idealising hypothesis — the crashed
save is `CollisionFree` over the file it hits -/
def OpOk (w : World) : Op → Prop
  | .setClock n => 0 < n
  | .save _ t d => InI64 t ∧ d.length < 2^31
  | .crashSave S sid t d k j _ =>
      16 ≤ S ∧ InI64 t ∧ d.length < 2^31 ∧ (k = 0 → j = 0) ∧
      ∀ now, CollisionFree S now ((w.dir sid).getD []) t d
  | _ => True

def Admissible (w : World) : List Op → Prop
  | [] => True
  | op :: r => OpOk w op ∧ Admissible (step w op) r

/-- Judge (executable): what a load after a crashed save may return, given what a load of
the earlier state returned at the same clock. -/
def allowedOutcome (res : Option (Int × Bytes)) (new : Int × Bytes) (oldLoad : Option (Int × Bytes)) : Bool :=
  match res with
  | none => true
  | some r => r == new || oldLoad == some r

/-- Judge (executable): the conclusion of `Props.load_sound` — a load at clock `now` of a file with
content `f` that answered `r` must have answered the header's deadline (not past), exactly `size`
bytes, namely the data area, whose CRC-32 is the header's. -/
def loadSoundOk (now : Int) (f : Bytes) (r : Int × Bytes) : Bool :=
  match parseHeader f with
  | none => false
  | some h => r.1 == h.timeout && decide (now ≤ r.1) && r.2.length == h.size && crc32 r.2 == h.crc &&
      r.2 == dataArea f h.size

/-- Judge (executable): gc outcome on one directory entry at clock `now`.  `live`: a load of the
entry succeeded just before gc (observed on the implementation); `kept`: present afterwards. -/
def gcEntryOk (now : Int) (name content : Bytes) (live kept : Bool) : Bool :=
  -- never removes a live session or a foreign name
  (if live || !sidName name then kept else true) &&
  -- what is left under a session name has a readable deadline that is not past
  (if sidName name && kept then (match stamp? content with | some s => decide (now ≤ s) | none => false) else true)

end Cppcms.C18.Spec
