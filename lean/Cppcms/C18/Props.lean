import Cppcms.C18.Lemmas
import Cppcms.C18.Spec
import Cppcms.C18.Witness
/-!
# C18 — property theorems

"A crash while saving a file-backed session never yields a corrupted session."

All statements are over the model of `Model.lean` (constants/comparisons regenerated from the
C++ source into `Gen.lean`).  `S` is the sector size (the property's 512; the theorems hold for
every `S ≥ 16`, i.e. whenever the 16-byte header lies inside the first sector), `now` the clock,
`old` the earlier file content (`[]` = absent / just created), `(t, d)` the value being saved.

The full-strength statement (`TornLoadFull`) is **false** of the code — and of any 32-bit
checksum; `torn_counterexample` proves the negation on a concrete pair (known finding
`crc32-torn-mixture`).  What is proved in general is `torn_load_partial` (the only way out of
{no session, new, old} is a genuine CRC-32 collision between equal-length strings under an
intact header) and `torn_load` under the explicit hypothesis `CollisionFree`.
-/
namespace Cppcms.C18.Props
open Cppcms Cppcms.C18 Cppcms.C18.Spec

/-! ## tie of the hand-written layout to the generated one -/

/-- The layout `encodeHeader`/`parseHeader` transcribe is the one the source declares, on the
write side and on the read side; files are opened without `O_TRUNC`/`O_APPEND`. -/
theorem layout_tie :
    Gen.writeLayout = [("timeout", 8, true), ("crc", 4, false), ("size", 4, false)] ∧
    Gen.readLayout = Gen.writeLayout ∧ Gen.stampLen = 8 ∧ Gen.stampSigned = true ∧
    Gen.sizeFieldBits = 32 ∧ Gen.writeOrder = ["header", "data"] ∧
    Gen.openCreateFlags = ["O_CREAT", "O_RDWR"] ∧ Gen.openFlags = ["O_RDWR"] := by decide

/-- The fall-back table of `private/crc32.h` (used when built without zlib) is the table of the
bitwise CRC-32 of the model, with the same pre/post inversion; `crc32_calc` starts at the
checksum of the empty string. -/
theorem crc_table_tie :
    (∀ i : Fin 256, Gen.crcTable.getD i.val 0 = crcByte i.val) ∧ Gen.crcTable.length = 256 ∧
    Gen.crcXorIn = 0xFFFFFFFF ∧ Gen.crcXorOut = 0xFFFFFFFF ∧ Gen.crcCalcInit = crc32 [] := by
  decide +kernel

/-- **The fall-back implementation of `private/crc32.h` (table-driven loop, used when cppcms is
built without zlib) computes exactly the model's CRC-32**, for every input, chained calls included. -/
theorem crc_fallback_eq (d : Bytes) : tableCrc 0 d = crc32 d := by
  unfold tableCrc crc32 crcRaw
  have hf : ∀ (l : Bytes) (c : Nat), l.foldl tableStep c = l.foldl crcUpdate c := by
    intro l
    induction l with
    | nil => intro c; rfl
    | cons x xs ih => intro c; simp only [List.foldl_cons, tableStep_eq, ih]
  rw [hf]
  simp [Gen.crcXorIn, Gen.crcXorOut]


/-! ## load -/

/-- `read_from_file` never returns a value of the wrong length or with a foreign deadline:
whatever it returns is exactly `size` bytes long, carries the header's deadline, which is not
past, and has the header's CRC.  (Totality — no crash on any file content — is by construction:
`readFromFile` is a total function that reads exactly `size` bytes or fails.) -/
theorem load_sound (now : Int) (f : Bytes) (r : Int × Bytes) (h : readFromFile now f = some r) :
    ∃ hd, parseHeader f = some hd ∧ r.1 = hd.timeout ∧ now ≤ r.1 ∧ r.2.length = hd.size ∧
      crc32 r.2 = hd.crc ∧ r.2 = dataArea f hd.size := by
  obtain ⟨hd, hp, hexp, hlen, hcrc, rfl⟩ := readFromFile_some h
  refine ⟨hd, hp, rfl, ?_, dataArea_length hlen, hcrc, rfl⟩
  simpa [Gen.expired] using hexp

/-- No crash: after a complete save over **any** earlier content (absent, shorter, equal,
longer, garbage) a load before the deadline returns exactly the saved value. -/
theorem no_crash_load_new (now : Int) (old : Bytes) (t : Int) (d : Bytes)
    (ht : InI64 t) (hd : d.length < 2^31) (hnow : now ≤ t) :
    readFromFile now (saveComplete old t d) = some (t, d) := by
  rw [saveComplete_eq, readFromFile_record now t d _ ht (by omega)]
  have : Gen.expired t now = false := by simp [Gen.expired]; omega
  simp [this]

/-- … and a load after the deadline reports "no session". -/
theorem no_crash_load_expired (now : Int) (old : Bytes) (t : Int) (d : Bytes)
    (ht : InI64 t) (hd : d.length < 2^31) (hnow : t < now) :
    readFromFile now (saveComplete old t d) = none := by
  rw [saveComplete_eq, readFromFile_record now t d _ ht (by omega)]
  have : Gen.expired t now = true := by simp [Gen.expired]; omega
  simp [this]

/-! ## crash states -/

/-- **Main theorem (partial: see `TornLoadFull`).**  For every crash state `c` of a save of
`(t, d)` over `old` — every prefix of the `write()` sequence, every byte prefix of the data
write, every subset of sectors on disk — if a later load returns a value `r` at all, then
* `r` is the new value, or
* `r` is what a load of the earlier file returned (same clock), or
* `c` carries the intact **new** header and `r.2` is a different string of the same length
  and the same CRC-32 as `d` (`TornNew`), or
* `c` carries the intact **earlier** header and `r.2` passes against its CRC and length
  although the earlier file would not have loaded as `r` (`TornOld`).
In every case the deadline is the new one or the earlier header's, and the length is the one
recorded in that header (`load_sound`). -/
theorem torn_load_partial (S : Nat) (now : Int) (old : Bytes) (t : Int) (d c : Bytes) (r : Int × Bytes)
    (hS : 16 ≤ S) (hnow : 0 < now) (hwf : WellFormedOld old) (ht : InI64 t) (hd : d.length < 2^31)
    (hc : Crash S old t d c) (hr : readFromFile now c = some r) :
    r = (t, d) ∨ readFromFile now old = some r ∨ TornNew t d c r ∨ TornOld now old c r := by
  obtain ⟨h, hp, hexp, hlen, hcrc, rfl⟩ := readFromFile_some hr
  rcases crash_header S old t d c hS hwf hc with rfl | ⟨h16, hnew⟩ | ⟨h16, ho16, hold⟩ | ⟨h16, hzero⟩
  · simp [parseHeader] at hp
  · -- new header
    have hg : 16 ≤ (encodeHeader t d ++ []).length := by simp [encodeHeader_length]
    have hcg := (header_congr c (encodeHeader t d ++ []) h16 hg
      (by rw [hnew]; exact (List.take_left' (encodeHeader_length t d)).symm)).2
    rw [parseHeader_encode t d [] ht (by omega)] at hcg
    rw [hcg] at hp
    injection hp with hp
    subst hp
    simp only at hlen hcrc ⊢
    by_cases heq : dataArea c d.length = d
    · left; rw [heq]
    · right; right; left
      exact ⟨rfl, rfl, dataArea_length hlen, hcrc, heq⟩
  · -- earlier header
    have hcg := (header_congr c old h16 ho16 hold).2
    by_cases hro : readFromFile now old = some (h.timeout, dataArea c h.size)
    · right; left; exact hro
    · right; right; right
      exact ⟨h, by rw [← hcg]; exact hp, hp, rfl, hexp, rfl, dataArea_length hlen, hcrc, hro⟩
  · -- a hole of zeros: deadline 0 is past
    have hg : 16 ≤ (List.replicate 16 (0 : UInt8)).length := by simp
    have hcg := (header_congr c (List.replicate 16 0) h16 hg (by rw [hzero]; rfl)).2
    rw [hcg] at hp
    have hz : parseHeader (List.replicate 16 (0 : UInt8)) = some ⟨0, 0, 0⟩ := by decide
    rw [hz] at hp
    injection hp with hp
    subst hp
    simp [Gen.expired] at hexp
    omega

/-- The full-strength reading of the property for one crashed save: a later load reports no
session, the new value, or exactly what the earlier file held. -/
def TornLoadFull : Prop :=
  ∀ (S : Nat) (now : Int) (old : Bytes) (t : Int) (d c : Bytes),
    16 ≤ S → 0 < now → WellFormedOld old → InI64 t → d.length < 2^31 → Crash S old t d c →
    readFromFile now c = none ∨ readFromFile now c = some (t, d) ∨ readFromFile now c = readFromFile now old

/-- Under the explicit hypothesis that no crash state of this save is a CRC-32 collision,
the full statement holds: never a mixture of old and new bytes. -/
theorem torn_load (S : Nat) (now : Int) (old : Bytes) (t : Int) (d c : Bytes)
    (hS : 16 ≤ S) (hnow : 0 < now) (hwf : WellFormedOld old) (ht : InI64 t) (hd : d.length < 2^31)
    (hfree : CollisionFree S now old t d) (hc : Crash S old t d c) :
    readFromFile now c = none ∨ readFromFile now c = some (t, d) ∨ readFromFile now c = readFromFile now old := by
  cases hr : readFromFile now c with
  | none => left; rfl
  | some r =>
    right
    rcases torn_load_partial S now old t d c r hS hnow hwf ht hd hc hr with h | h | h | h
    · left; rw [h]
    · right; rw [h]
    · exact absurd h (hfree c r hc).1
    · exact absurd h (hfree c r hc).2

/-- **Known finding `crc32-torn-mixture` (D8).**  The full statement is false of the code:
witness 1 (40-byte payloads, the process stops 20 bytes into the data `write()`, S = 512) loads
as a value that is neither the new nor the old one. -/
theorem torn_counterexample : ¬ TornLoadFull := by
  intro h
  have hc : Crash 512 Witness.oldFile1 Witness.newT1 Witness.new1 Witness.crash1 :=
    ⟨1, Witness.tear1, fun _ => true, by decide, rfl⟩
  have := h 512 Witness.now1 Witness.oldFile1 Witness.newT1 Witness.new1 Witness.crash1
    (by decide) (by decide) (Or.inr (by decide)) (by decide) (by decide) hc
  revert this
  decide +kernel

/-- what exactly the two witnesses load as (this is what the check replays on the real code) -/
theorem torn_counterexample_values :
    readFromFile Witness.now1 Witness.crash1 = some (Witness.newT1, Witness.mix1) ∧
    readFromFile Witness.now1 Witness.oldFile1 = some (Witness.oldT1, Witness.old1) ∧
    Witness.mix1 ≠ Witness.new1 ∧ Witness.mix1 ≠ Witness.old1 ∧
    TornNew Witness.newT1 Witness.new1 Witness.crash1 (Witness.newT1, Witness.mix1) := by
  refine ⟨by decide +kernel, by decide +kernel, by decide +kernel, by decide +kernel, ?_⟩
  exact ⟨rfl, by decide +kernel, by decide +kernel, by decide +kernel, by decide +kernel⟩

set_option maxRecDepth 1000000 in
/-- witness 2: a pure **sector** tear at the real sector size 512 (600-byte payloads, the save
completed, only sector 0 reached the disk) -/
theorem torn_counterexample_sector :
    Crash 512 Witness.oldFile2 Witness.newT1 Witness.new2 Witness.crash2 ∧
    readFromFile Witness.now1 Witness.crash2 = some (Witness.newT1, Witness.mix2) ∧
    readFromFile Witness.now1 Witness.oldFile2 = some (Witness.oldT1, Witness.old2) ∧
    Witness.mix2 ≠ Witness.new2 ∧ Witness.mix2 ≠ Witness.old2 := by
  refine ⟨⟨2, 0, fun i => i == 0, by decide, rfl⟩, by decide +kernel, by decide +kernel, by decide +kernel, by decide +kernel⟩

/-- **Scope of the finding.**  It is not a property of one unlucky pair: for *every* payload `d`
of at least 6 bytes and *every* tear position `1 ≤ j ≤ |d| − 5` there is an earlier value `o` of
the same length (`o = d ⊕ (01 00… ‖ 01 96 30 07 77 00…)`) such that, when the process stops `j`
bytes into the data `write()` of saving `d` over the saved `o` (every sector on disk), the file
loads — before the new deadline — as `d[0..j) ++ o[j..)`, which is neither `d` nor `o`.  Proof:
CRC-32 is affine over GF(2) (`Lemmas.crcRaw_xor`) and the difference is a multiple of the
generator polynomial behind leading zeros (`Lemmas.crcRaw_delta`). -/
theorem torn_mixture_for_every_payload (S : Nat) (now t0 t : Int) (d : Bytes) (j : Nat)
    (hj : 1 ≤ j) (hlen : j + 5 ≤ d.length) (hd : d.length < 2^31) (ht : InI64 t) (hnow : now ≤ t) :
    ∃ o : Bytes, o.length = d.length ∧
      Crash S (saveComplete [] t0 o) t d (crashState S (saveComplete [] t0 o) t d 1 j (fun _ => true)) ∧
      readFromFile now (crashState S (saveComplete [] t0 o) t d 1 j (fun _ => true)) = some (t, d.take j ++ o.drop j) ∧
      d.take j ++ o.drop j ≠ d ∧ d.take j ++ o.drop j ≠ o := by
  have hmix := mix_eq d j hj hlen
  have holen := advOld_length d j hj hlen
  refine ⟨advOld d j, holen, ⟨1, j, _, by simp, rfl⟩, ?_, ?_, ?_⟩
  · have hne : d ≠ [] := by intro e; rw [e] at hlen; simp at hlen
    have htl : (d.take j).length = j := by simp; omega
    have hL : logical (saveComplete [] t0 (advOld d j)) (saveWrites t d) 1 j =
        encodeHeader t d ++ ((d.take j ++ (advOld d j).drop j) ++ []) := by
      rw [logical_one _ t d j hne, saveComplete_eq, htl]
      have e16 : 16 + j = (encodeHeader t0 (advOld d j)).length + j := by rw [encodeHeader_length]
      rw [e16, List.drop_append]
      simp
    have hlenL : (saveComplete [] t0 (advOld d j)).length ≤
        (encodeHeader t d ++ ((d.take j ++ (advOld d j).drop j) ++ [])).length := by
      rw [saveComplete_eq]
      simp [encodeHeader_length, holen]
      omega
    unfold crashState
    rw [hL, sectorMix_all S _ _ hlenL, hmix]
    have hcrc := mix_crc d j hlen
    have hl : (xorB d (mixDelta d.length j)).length = d.length := by
      apply xorB_length; simp [mixDelta, tailDelta, genMultiple]; omega
    rw [encodeHeader_congr t d _ hl.symm hcrc.symm,
      readFromFile_record now t _ [] ht (by rw [hl]; omega)]
    have : Gen.expired t now = false := by simp [Gen.expired]; omega
    simp [this]
  · rw [hmix]; exact mix_ne_new d j hlen
  · rw [hmix]; exact mix_ne_old d j hj hlen

/-- the hypotheses of `torn_mixture_for_every_payload` are satisfiable (smallest case) -/
example : ∃ o : Bytes, o.length = 6 ∧ [104, 101].take 1 ++ o.drop 1 ≠ o :=
  let ⟨o, h1, _, _, _, h5⟩ := torn_mixture_for_every_payload 512 1000 2000 3000 [104, 101, 108, 108, 111, 33] 1
    (by decide) (by decide) (by decide) (by decide) (by decide)
  ⟨o, h1, by simpa using h5⟩

/-- **A crash state is a byte-wise mixture**: every byte of it is the byte the completed save
would have put there, the byte the earlier file had there, or a zero (hole).  So the torn values
of `TornNew`/`TornOld` are exactly "mixtures of old and new bytes". -/
theorem crash_bytewise (S : Nat) (old : Bytes) (t : Int) (d c : Bytes) (hc : Crash S old t d c)
    (q : Nat) (hq : q < c.length) :
    c[q]? = (saveComplete old t d)[q]? ∨ c[q]? = old[q]? ∨ c[q]? = some 0 := by
  obtain ⟨k, j, T, hk, rfl⟩ := hc
  unfold crashState sectorMix at hq ⊢
  rw [List.length_take] at hq
  rw [List.getElem?_take_of_lt (by omega)]
  rcases mixAux_getElem? S T 0 old (logical old (saveWrites t d) k j) q (by omega) with h | h | h
  · rw [h]
    rcases logical_getElem? old t d k j hk q with h2 | h2
    · left; exact h2
    · right; left; exact h2
  · right; left; exact h
  · right; right; exact h

/-- Crash states (and complete saves) are again files a later save can start from, so the
theorems above compose along histories of saves and crashes. -/
theorem crash_wellformed (S : Nat) (old : Bytes) (t : Int) (d c : Bytes) (hS : 16 ≤ S)
    (hwf : WellFormedOld old) (hc : Crash S old t d c) : WellFormedOld c := by
  rcases crash_header S old t d c hS hwf hc with h | ⟨h, _⟩ | ⟨h, _⟩ | ⟨h, _⟩
  · left; exact h
  all_goals right; exact h

theorem saveComplete_wellformed (old : Bytes) (t : Int) (d : Bytes) : WellFormedOld (saveComplete old t d) := by
  right; rw [saveComplete_eq]; simp [encodeHeader_length]

/-- a complete save is one of the crash states (all writes done, every sector on disk) -/
theorem saveComplete_is_crash (S : Nat) (old : Bytes) (t : Int) (d : Bytes) :
    Crash S old t d (saveComplete old t d) := by
  refine ⟨2, 0, fun _ => true, by simp, ?_⟩
  have hL : logical old (saveWrites t d) 2 0 = saveComplete old t d := by
    unfold logical saveComplete
    have : (saveWrites t d).take 2 = saveWrites t d := by
      apply List.take_of_length_le
      cases d <;> simp [saveWrites, Gen.writeOrder]
    simp [this]
  unfold crashState sectorMix
  rw [hL]
  have hlen : old.length ≤ (saveComplete old t d).length := by
    rw [saveComplete_eq]; simp [encodeHeader_length]; omega
  have hp : pend S (fun _ => true) (saveComplete old t d).length = (saveComplete old t d).length := by
    cases (saveComplete old t d).length <;> simp [pend]
  rw [hp, Nat.max_eq_right hlen]
  have hm := mixAux_take_new S (fun _ => true) (saveComplete old t d).length 0 old (saveComplete old t d)
    (fun _ _ => rfl) (Nat.le_refl _)
  rw [hm, List.take_length]

/-- the earlier file is one of the crash states (nothing written yet) -/
theorem old_is_crash (S : Nat) (old : Bytes) (t : Int) (d : Bytes) : Crash S old t d old := by
  refine ⟨0, 0, fun _ => true, by simp, ?_⟩
  unfold crashState
  have : logical old (saveWrites t d) 0 0 = old := by simp [logical, written]
  rw [this, sectorMix_self]

/-! ## directory level: load / gc -/

/-- `load` removes every file it cannot read (absent afterwards) … -/
theorem load_removes_bad_files (now : Int) (sid : Bytes) (dir : Dir)
    (h : (load now sid dir).1 = none) : (load now sid dir).2 sid = none := by
  unfold load at h ⊢
  cases hl : dir sid with
  | none => simp [hl]
  | some f =>
    simp only [hl] at h ⊢
    cases hr : readFromFile now f with
    | none => simp [Dir.erase]
    | some r => simp [hr] at h

/-- … changes nothing when it succeeds, and never touches another file. -/
theorem load_keeps_good_files (now : Int) (sid : Bytes) (dir : Dir) :
    ((load now sid dir).1 ≠ none → (load now sid dir).2 = dir) ∧
    (∀ n, n ≠ sid → (load now sid dir).2 n = dir n) := by
  cases hl : dir sid with
  | none => simp [load, hl]
  | some f =>
    cases hr : readFromFile now f with
    | none =>
      simp only [load, hl, hr, ne_eq, not_true_eq_false, false_implies, true_and]
      intro n hn; simp [Dir.erase, hn]
    | some r => simp [load, hl, hr]

/-- gc never removes a live session: a file that `load` would accept now is still there,
unchanged. -/
theorem gc_never_removes_live (now : Int) (dir : Dir) (n f : Bytes) (he : dir n = some f)
    (r : Int × Bytes) (hlive : readFromFile now f = some r) : gc now dir n = some f := by
  obtain ⟨h, hp, hexp, _, _, _⟩ := readFromFile_some hlive
  have hs := stamp?_of_parseHeader hp
  have : readTimestamp now f = true := by
    unfold readTimestamp
    rw [hs]
    simp [Gen.stampExpired, Gen.expired] at hexp ⊢
    exact hexp
  simp [gc, he, this]

/-- gc removes every session file whose timestamp is unreadable (shorter than 8 bytes) or past:
after gc every entry with a 32-hex-digit name has a readable deadline that is not past. -/
theorem gc_removes_unreadable_and_expired (now : Int) (dir : Dir) (n f : Bytes)
    (he : gc now dir n = some f) (hn : sidName n = true) :
    ∃ s, stamp? f = some s ∧ now ≤ s := by
  unfold gc at he
  cases hd : dir n with
  | none => simp [hd] at he
  | some g =>
    simp only [hd, hn, Bool.true_and] at he
    split at he
    · cases he
    · rename_i hts
      injection he with he
      subst he
      unfold readTimestamp at hts
      cases hs : stamp? g with
      | none => simp [hs] at hts
      | some s =>
        refine ⟨s, rfl, ?_⟩
        simp [hs, Gen.stampExpired] at hts
        exact hts

/-- gc touches only files whose name is exactly 32 hex digits, and never creates or alters a file. -/
theorem gc_touches_only_sid_names (now : Int) (dir : Dir) :
    (∀ n, sidName n = false → gc now dir n = dir n) ∧ (∀ n f, gc now dir n = some f → dir n = some f) := by
  constructor
  · intro n hn
    unfold gc
    cases dir n <;> simp [hn]
  · intro n f h
    unfold gc at h
    cases hd : dir n with
    | none => simp [hd] at h
    | some g =>
      simp only [hd] at h
      split at h
      · cases h
      · exact h

/-- gc at any point: a load after a gc (possibly at another clock) reports no session or exactly
what it would have returned without the gc. -/
theorem gc_then_load (now now' : Int) (sid : Bytes) (dir : Dir) :
    (load now' sid (gc now dir)).1 = none ∨ (load now' sid (gc now dir)).1 = (load now' sid dir).1 := by
  cases hg : gc now dir sid with
  | none => left; simp [load, hg]
  | some f =>
    right
    have := (gc_touches_only_sid_names now dir).2 sid f hg
    cases h : readFromFile now' f <;> simp [load, hg, this, h]

/-- a save followed by a load before the deadline returns the value; the directory is unchanged
by that load -/
theorem save_then_load (now : Int) (sid : Bytes) (t : Int) (d : Bytes) (dir : Dir)
    (ht : InI64 t) (hd : d.length < 2^31) (hnow : now ≤ t) :
    load now sid (save sid t d dir) = (some (t, d), save sid t d dir) := by
  unfold load
  have : save sid t d dir sid = some (saveComplete ((dir sid).getD []) t d) := by simp [save, Dir.put]
  rw [this]
  simp only [no_crash_load_new now _ t d ht hd hnow]

/-- An operation called with session id `s` touches no file but `s`'s; gc touches only files whose
name is exactly 32 hex digits.  (That a malformed sid never reaches the storage is C06's business.) -/
theorem only_sid_named_files_touched (w : World) (op : Op) (n : Bytes) :
    (∀ s, opTarget op = some s → n ≠ s → (step w op).dir n = w.dir n) ∧
    (opTarget op = none → sidName n = false → (step w op).dir n = w.dir n) := by
  cases op with
  | setClock _ => simp [step, opTarget]
  | gc =>
    simp only [opTarget, step, reduceCtorEq, false_implies, implies_true, true_and]
    intro _ hn
    exact (gc_touches_only_sid_names w.now w.dir).1 n hn
  | load s =>
    simp only [opTarget, step, Option.some.injEq, reduceCtorEq, false_implies, and_true]
    intro s' hs hn
    subst hs
    exact (load_keeps_good_files w.now s w.dir).2 n hn
  | remove s =>
    simp only [opTarget, step, Option.some.injEq, reduceCtorEq, false_implies, and_true]
    intro s' hs hn
    subst hs
    simp [remove, Dir.erase, hn]
  | save s t d =>
    simp only [opTarget, step, Option.some.injEq, reduceCtorEq, false_implies, and_true]
    intro s' hs hn
    subst hs
    simp [save, Dir.put, hn]
  | crashSave S s t d k j T =>
    simp only [opTarget, step, Option.some.injEq, reduceCtorEq, false_implies, and_true]
    intro s' hs hn
    subst hs
    simp [crashSave, Dir.put, hn]

/-! ## histories -/

/-- invariant of histories: every file is well-formed, and whatever it could load as (at any
positive clock) is a pair some save of that sid was called with -/
def HistInv (dir : Dir) (V : Bytes → List (Int × Bytes)) : Prop :=
  ∀ sid f, dir sid = some f → WellFormedOld f ∧ ∀ now r, 0 < now → readFromFile now f = some r → r ∈ V sid

theorem savedValues_cons (sid : Bytes) (op : Op) (r : List Op) :
    savedValues sid (op :: r) = savedValues sid [op] ++ savedValues sid r := by
  cases op <;> simp [savedValues] <;> split <;> simp

theorem readFromFile_nil (now : Int) : readFromFile now [] = none := by
  simp [readFromFile, stamp?]

theorem HistInv_sub {dir dir' : Dir} {V V' : Bytes → List (Int × Bytes)} (h : HistInv dir V)
    (hd : ∀ sid f, dir' sid = some f → dir sid = some f) (hv : ∀ sid r, r ∈ V sid → r ∈ V' sid) : HistInv dir' V' := by
  intro sid f hf
  obtain ⟨h1, h2⟩ := h sid f (hd sid f hf)
  exact ⟨h1, fun now r hn hr => hv sid r (h2 now r hn hr)⟩

theorem step_inv (w : World) (V : Bytes → List (Int × Bytes)) (op : Op)
    (hinv : HistInv w.dir V) (hok : OpOk w op) :
    HistInv (step w op).dir (fun sid => V sid ++ savedValues sid [op]) := by
  have hmono : ∀ sid r, r ∈ V sid → r ∈ V sid ++ savedValues sid [op] := fun _ _ h => List.mem_append_left _ h
  cases op with
  | setClock n => exact HistInv_sub hinv (fun _ _ h => h) hmono
  | load s =>
    refine HistInv_sub hinv ?_ hmono
    intro sid f hf
    simp only [step] at hf
    by_cases hs : sid = s
    · subst hs
      cases hl : (load w.now sid w.dir).1 with
      | none => rw [load_removes_bad_files w.now sid w.dir hl] at hf; cases hf
      | some r => rw [(load_keeps_good_files w.now sid w.dir).1 (by simp [hl])] at hf; exact hf
    · rw [(load_keeps_good_files w.now s w.dir).2 sid hs] at hf; exact hf
  | remove s =>
    refine HistInv_sub hinv ?_ hmono
    intro sid f hf
    simp only [step, remove, Dir.erase] at hf
    split at hf
    · cases hf
    · exact hf
  | gc =>
    refine HistInv_sub hinv ?_ hmono
    intro sid f hf
    exact (gc_touches_only_sid_names w.now w.dir).2 sid f hf
  | save s t d =>
    obtain ⟨ht, hd⟩ := hok
    intro sid f hf
    simp only [step, save, Dir.put] at hf
    by_cases hs : sid = s
    · subst hs
      simp only [if_true] at hf
      injection hf with hf
      subst hf
      refine ⟨saveComplete_wellformed _ t d, ?_⟩
      intro now r _ hr
      rw [saveComplete_eq, readFromFile_record now t d _ ht (by omega)] at hr
      split at hr
      · cases hr
      · injection hr with hr
        subst hr
        simp [savedValues]
    · simp only [hs, if_false] at hf
      obtain ⟨h1, h2⟩ := hinv sid f hf
      exact ⟨h1, fun now r hn hr => hmono sid r (h2 now r hn hr)⟩
  | crashSave S s t d k j T =>
    obtain ⟨hS, ht, hd, hk, hfree⟩ := hok
    intro sid f hf
    simp only [step, crashSave, Dir.put] at hf
    by_cases hs : sid = s
    · subst hs
      simp only [if_true] at hf
      injection hf with hf
      have hwf : WellFormedOld ((w.dir sid).getD []) := by
        cases hd' : w.dir sid with
        | none => left; rfl
        | some g => exact (hinv sid g hd').1
      have hc : Crash S ((w.dir sid).getD []) t d f := ⟨k, j, T, hk, hf.symm⟩
      refine ⟨crash_wellformed S _ t d f hS hwf hc, ?_⟩
      intro now r hn hr
      rcases torn_load S now _ t d f hS hn hwf ht hd (hfree now) hc with h | h | h
      · rw [h] at hr; cases hr
      · rw [h] at hr
        injection hr with hr
        subst hr
        simp [savedValues]
      · rw [h] at hr
        cases hd' : w.dir sid with
        | none => rw [hd'] at hr; simp [readFromFile_nil] at hr
        | some g =>
          rw [hd'] at hr
          exact hmono sid r ((hinv sid g hd').2 now r hn hr)
    · simp only [hs, if_false] at hf
      obtain ⟨h1, h2⟩ := hinv sid f hf
      exact ⟨h1, fun now r hn hr => hmono sid r (h2 now r hn hr)⟩

theorem run_inv (ops : List Op) (w : World) (V : Bytes → List (Int × Bytes))
    (hinv : HistInv w.dir V) (hadm : Admissible w ops) :
    HistInv (run w ops).dir (fun sid => V sid ++ savedValues sid ops) := by
  induction ops generalizing w V with
  | nil => simpa [run, savedValues] using hinv
  | cons op r ih =>
    obtain ⟨hok, hrest⟩ := hadm
    have := ih (step w op) _ (step_inv w V op hinv hok) hrest
    have e : (fun sid => (V sid ++ savedValues sid [op]) ++ savedValues sid r) =
        (fun sid => V sid ++ savedValues sid (op :: r)) := by
      funext sid; rw [savedValues_cons sid op r, List.append_assoc]
    rw [e] at this
    exact this

theorem run_now_pos (ops : List Op) (w : World) (h0 : 0 < w.now) (hadm : Admissible w ops) :
    0 < (run w ops).now := by
  induction ops generalizing w with
  | nil => exact h0
  | cons op r ih =>
    obtain ⟨hok, hrest⟩ := hadm
    apply ih (step w op) _ hrest
    cases op <;> simp [step] <;> first | exact h0 | exact hok

/-- **Histories (partial: `Admissible` contains `CollisionFree` for every crashed save).**
Start from an empty directory at a positive clock and run any sequence of complete saves,
crashed saves (any crash point, any sector subset), loads, removes, garbage collections and
clock moves.  Whatever a load then returns for `sid` is a pair `(deadline, data)` that some save
of `sid` in the history was called with — deadline and data of the *same* save, never a mixture,
never a wrong length — and its deadline is not past. -/
theorem history_load_partial (now0 : Int) (ops : List Op) (h0 : 0 < now0)
    (hadm : Admissible ⟨now0, Dir.empty⟩ ops) (sid : Bytes) (r : Int × Bytes)
    (hl : (load (run ⟨now0, Dir.empty⟩ ops).now sid (run ⟨now0, Dir.empty⟩ ops).dir).1 = some r) :
    r ∈ savedValues sid ops ∧ (run ⟨now0, Dir.empty⟩ ops).now ≤ r.1 := by
  have hinv0 : HistInv (World.mk now0 Dir.empty).dir (fun _ => []) := by
    intro sid f hf; simp [Dir.empty] at hf
  have hinv := run_inv ops ⟨now0, Dir.empty⟩ (fun _ => []) hinv0 hadm
  have hpos := run_now_pos ops ⟨now0, Dir.empty⟩ h0 hadm
  generalize run ⟨now0, Dir.empty⟩ ops = w at *
  unfold load at hl
  cases hd : w.dir sid with
  | none => simp [hd] at hl
  | some f =>
    simp only [hd] at hl
    cases hr : readFromFile w.now f with
    | none => simp [hr] at hl
    | some r' =>
      simp only [hr] at hl
      injection hl with hl
      subst hl
      have := (hinv sid f hd).2 w.now r' hpos hr
      simp only [List.nil_append] at this
      obtain ⟨hd', _, hr1, hle, _⟩ := load_sound w.now f r' hr
      exact ⟨this, hle⟩

/-! ## non-vacuity -/

/-- the hypotheses of `torn_load_partial` are met by a real crash state that loads -/
example : ∃ c r, Crash 512 Witness.oldFile1 3000 [65, 66, 67] c ∧ WellFormedOld Witness.oldFile1 ∧
    readFromFile 1000 c = some r :=
  ⟨_, (3000, [65, 66, 67]), saveComplete_is_crash 512 _ 3000 [65, 66, 67], Or.inr (by decide), by decide +kernel⟩

/-- CRC-32 separates single bytes from `A` … -/
theorem crc32_single_65 : ∀ x : UInt8, crc32 [x] = crc32 [65] → x = 65 := by
  apply forall_uint8
  decide +kernel

/-- … so `CollisionFree` (hypothesis of `torn_load`) holds, for every sector size, clock and
deadline, for a one-byte value saved where no file existed: it is not vacuous. -/
theorem collisionFree_single_fresh (S : Nat) (now t : Int) : CollisionFree S now [] t [65] := by
  intro c r _
  constructor
  · rintro ⟨_, _, hlen, hcrc, hne⟩
    match h : r.2, hlen with
    | [x], _ =>
      rw [h] at hcrc hne
      exact hne (by rw [crc32_single_65 x hcrc])
  · rintro ⟨h, hp, _⟩
    simp [parseHeader] at hp

theorem crc32_single_66 : ∀ x : UInt8, crc32 [x] = crc32 [66] → x = 66 := by
  apply forall_uint8
  decide +kernel

/-- … and for a one-byte value saved over an earlier one-byte value (any sector size, clock). -/
theorem collisionFree_single_over (S : Nat) (now : Int) : CollisionFree S now (saveComplete [] 2000 [66]) 3000 [65] := by
  intro c r _
  constructor
  · rintro ⟨_, _, hlen, hcrc, hne⟩
    match h : r.2, hlen with
    | [x], _ =>
      rw [h] at hcrc hne
      exact hne (by rw [crc32_single_65 x hcrc])
  · rintro ⟨h, hp, _, ht, hexp, _, hlen, hcrc, hno⟩
    have hh : parseHeader (saveComplete [] 2000 [66]) = some ⟨2000, crc32 [66], 1⟩ := by decide +kernel
    rw [hh] at hp
    injection hp with hp
    subst hp
    apply hno
    have hr2 : r.2 = [66] := by
      match h : r.2, hlen with
      | [x], _ => rw [h] at hcrc; rw [crc32_single_66 x hcrc]
    have : r = (2000, [66]) := by
      cases r; simp only at ht hr2; rw [ht, hr2]
    rw [this]
    have hok := Props.no_crash_load_new now [] 2000 [66] (by decide) (by decide) (by simpa [Gen.expired] using hexp)
    exact hok

example : readFromFile 1000 (saveComplete [1, 2, 3] 2000 [104, 105]) = some (2000, [104, 105]) := by decide +kernel
example : readFromFile 2001 (saveComplete [] 2000 [104, 105]) = none := by decide +kernel
example : gc 1000 (Dir.put Dir.empty (List.replicate 32 48) [0, 0, 0]) (List.replicate 32 48) = none := by decide +kernel

/-- `Admissible` (hypothesis of `history_load_partial`) is met by a history with a real crashed save -/
example : Admissible ⟨1000, Dir.empty⟩
    [.save [48, 49, 50, 51] 2000 [66], .crashSave 512 [48, 49, 50, 51] 3000 [65] 1 0 (fun _ => true), .gc,
     .setClock 1500, .load [48, 49, 50, 51]] := by
  refine ⟨⟨by decide, by decide⟩, ⟨by decide, by decide, by decide, by decide, ?_⟩, trivial, (by show (0:Int) < 1500; decide), trivial, trivial⟩
  intro now
  have : ((step ⟨1000, Dir.empty⟩ (.save [48, 49, 50, 51] 2000 [66])).dir [48, 49, 50, 51]).getD [] = saveComplete [] 2000 [66] := by
    simp [step, save, Dir.put, Dir.empty]
  rw [this]
  exact collisionFree_single_over 512 now

end Cppcms.C18.Props
