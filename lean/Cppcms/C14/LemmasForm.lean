import Cppcms.C14.LemmasU2U
/-! Helper lemmas for C14: the text widget state machine (`src/form.cpp: base_text::load/validate`). -/
set_option linter.unusedSimpArgs false
namespace Cppcms.C14
open Cppcms Spec

namespace Form

/-- number of characters the widget should hold after a request, as a function of the request and
the widget's configuration only: `none` = the text is not valid in the locale's encoding
(`validate` must then fail whatever the limits are) -/
def loadedCount (named vc : Bool) (rq : Req) : Option Nat :=
  if !named then some 0
  else match rq.field with
    | none => some 0
    | some v =>
      if vc then
        match valid rq.enc v with
        | .ok true n => some n
        | .ok false _ => none
        | .external => none
      else some v.length

/-- verdict of `validate()` right after a load, from configuration and request only -/
def verdictOf (low high : Int) (named vc : Bool) (rq : Req) : Bool :=
  match loadedCount named vc rq with
  | none => false
  | some n => !Gen.Form.validateOutOfLimits (n : Int) low high

/-- the request does not need the iconv/ICU fallback -/
def Resolves (named vc : Bool) (rq : Req) : Prop :=
  named = true → vc = true → ∀ v, rq.field = some v → valid rq.enc v ≠ .external

theorem load_config (st : St) (rq : Req) :
    (load st rq).low = st.low ∧ (load st rq).high = st.high ∧
    (load st rq).validateCharset = st.validateCharset ∧ (load st rq).named = st.named := by
  unfold load
  simp only
  split
  · exact ⟨rfl, rfl, rfl, rfl⟩
  · split
    · exact ⟨rfl, rfl, rfl, rfl⟩
    · split
      · split <;> exact ⟨rfl, rfl, rfl, rfl⟩
      · exact ⟨rfl, rfl, rfl, rfl⟩

theorem earlyOk_set (low high : Int) : Gen.Form.validateEarlyOk true low high = false := by
  unfold Gen.Form.validateEarlyOk; simp

/-- the heart of it: after a load, `validate` sees nothing of what earlier requests left behind -/
theorem validate_load (st : St) (rq : Req) (hr : Resolves st.named st.validateCharset rq) :
    (validate (load st rq)).1 = verdictOf st.low st.high st.named st.validateCharset rq := by
  have e1 : Gen.Form.loadResetCount = some 0 := rfl
  have e2 : Gen.Form.loadMarksSet = some true := rfl
  have e3 : Gen.Form.loadMarksValid = some true := rfl
  have e4 : Gen.Form.loadCountBeforeValid = some 0 := rfl
  unfold verdictOf loadedCount load
  simp only [e1, e2, e3, e4, Option.getD_some]
  cases hn : st.named with
  | false =>
    simp only [Bool.not_false, if_true, validate, Bool.not_true, Bool.false_eq_true, if_false, earlyOk_set]
    split <;> simp_all
  | true =>
    simp only [Bool.not_true, Bool.false_eq_true, if_false]
    cases hf : rq.field with
    | none =>
      simp only [validate, Bool.not_true, Bool.false_eq_true, if_false, earlyOk_set]
      split <;> simp_all
    | some v =>
      simp only
      cases hv : st.validateCharset with
      | false =>
        simp only [Bool.false_eq_true, if_false, validate, Bool.not_true, earlyOk_set]
        split <;> simp_all
      | true =>
        simp only [if_true]
        have hne := hr hn hv v hf
        cases hvv : valid rq.enc v with
        | external => exact absurd hvv hne
        | ok ok n =>
          cases ok with
          | true =>
            simp only [validate, Bool.and_true, Bool.not_true, Bool.false_eq_true, if_false, earlyOk_set, Nat.zero_add]
            split <;> simp_all
          | false =>
            simp only [validate, Bool.and_false, Bool.not_false, if_true]

theorem run_append_load (st : St) (ops : List Op) (rq : Req) :
    run st (ops ++ [.load rq]) = load (run st ops) rq := by
  simp [run, List.foldl_append, apply]

/-- the C++ comparison against `size_t(low_)`, `size_t(high_)` is the documented meaning of the
limits for sane arguments -/
theorem outOfLimits_eq (n : Nat) (low high : Int) (hl : 0 ≤ low) (hl2 : low < 2147483648)
    (hh : high < 2147483648) :
    Gen.Form.validateOutOfLimits (n : Int) low high = !withinLimits low high n := by
  unfold Gen.Form.validateOutOfLimits Gen.Form.toSizeT withinLimits
  have h1 : low % 18446744073709551616 = low := Int.emod_eq_of_lt hl (by omega)
  rw [h1]
  by_cases hp : 0 ≤ high
  · have h2 : high % 18446744073709551616 = high := Int.emod_eq_of_lt hp (by omega)
    rw [h2, Bool.eq_iff_iff]
    simp
    try omega
  · rw [Bool.eq_iff_iff]
    simp
    try omega

end Form
end Cppcms.C14
