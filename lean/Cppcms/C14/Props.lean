import Cppcms.C14.LemmasForm
/-!
# C14 — property theorems

"Text validators accept exactly the well-formed strings of their encoding."

Everything is stated over the model of `Model.lean`, whose conditions, constants and bit
expressions are regenerated from the C++ source on every run (`Gen.lean`), against the
independently written RFC 3629 tables of `Spec.lean`.  All statements are for **every** byte
string (no length bound).  `Out.cp v` = the decoder returned code point `v`; the second
component is the iterator position afterwards.
-/
set_option linter.unusedSimpArgs false
namespace Cppcms.C14.Props
open Cppcms Cppcms.C14 Cppcms.C14.Spec

/-! ## one character: both decoders against RFC 3629 -/

/-- `cppcms::utf8::next` returns code point `v` and leaves `rest` **iff** the input is an RFC 3629
encoding of `v` followed by `rest` (and, in HTML mode, `v` is not a forbidden control character). -/
theorem next_iff_rfc3629 (html : Bool) (bs rest : Bytes) (v : Nat) :
    Cms.next html bs = (.cp v, rest) ↔
      ∃ enc, bs = enc ++ rest ∧ Rfc3629 v enc ∧ modeOk html v = true :=
  next_cp_iff html bs rest v

/-- every other outcome of `utf8::next` is `illegal` (it has no `incomplete`) -/
theorem next_illegal_otherwise (html : Bool) (bs : Bytes) :
    (∃ v, (Cms.next html bs).1 = .cp v) ∨ (Cms.next html bs).1 = .illegal := by
  rw [show Cms.next html bs = ((Cms.next html bs).1, (Cms.next html bs).2) from rfl]
  cases h : (Cms.next html bs).1 with
  | cp v => exact Or.inl ⟨v, rfl⟩
  | illegal => exact Or.inr rfl
  | incomplete =>
    exfalso
    match bs, h with
    | [], h => cases h
    | a :: p, h =>
      rcases lead_cases a.toNat with h0 | hb | h2 | h3 | h4
      · rw [Cms.next_ascii html a p h0] at h; dsimp only at h; split at h <;> cases h
      · rw [Cms.next_badLead html a p hb] at h; cases h
      · rw [Cms.next_lead2 html a p h2] at h
        match p, h with
        | [], h => cases h
        | b :: p1, h => dsimp only at h; repeat' split at h
                        all_goals cases h
      · rw [Cms.next_lead3 html a p h3] at h
        match p, h with
        | [], h => cases h
        | [_], h => cases h
        | b :: c :: p2, h => dsimp only at h; repeat' split at h
                             all_goals cases h
      · rw [Cms.next_lead4 html a p h4] at h
        match p, h with
        | [], h => cases h
        | [_], h => cases h
        | [b, c], h => dsimp only at h; repeat' split at h
                       all_goals cases h
        | b :: c :: d :: p3, h => dsimp only at h; repeat' split at h
                                  all_goals cases h

/-- The two decoders compute the same function — value *and* iterator position, on every input,
also on rejected ones — except that booster says `incomplete` for a truncated sequence. -/
theorem decoders_agree (bs : Bytes) :
    Cms.next false bs = (collapse (Boost.decode bs).1, (Boost.decode bs).2) :=
  next_eq_collapse_decode bs

/-- `booster::locale::utf::utf_traits<char>::decode` against RFC 3629 -/
theorem decode_iff_rfc3629 (bs rest : Bytes) (v : Nat) :
    Boost.decode bs = (.cp v, rest) ↔ ∃ enc, bs = enc ++ rest ∧ Rfc3629 v enc :=
  decode_cp_iff bs rest v

/-- booster reports `incomplete` exactly for truncated input: nothing at all, or a lead byte
followed only by trail bytes, fewer than the lead announces.  (Everything else that is not a
code point is `illegal`.) -/
theorem decode_incomplete_iff (bs : Bytes) : (Boost.decode bs).1 = .incomplete ↔ Truncated bs :=
  decode_incomplete_iff' bs

/-! ## the specification itself is the usual notion of UTF-8 -/

/-- an RFC 3629 encoding carries a Unicode scalar value (≤ U+10FFFF, not a surrogate) and is
the shortest form for it -/
theorem rfc3629_scalar_shortest (v : Nat) (enc : Bytes) (h : Rfc3629 v enc) :
    Scalar v ∧ enc.length = shortestLen v :=
  rfc_scalar_shortest h

/-- conversely every scalar value has exactly one RFC 3629 encoding -/
theorem rfc3629_total_unique (v : Nat) (h : Scalar v) :
    ∃ enc, Rfc3629 v enc ∧ ∀ e, Rfc3629 v e → e = enc :=
  ⟨encode v, rfc_encode h, fun _ he => rfc_eq_encode he⟩

/-! ## whole strings -/

/-- `utf8::validate(p,e,count,html)` with `count = 0` on entry reports success with `count = n`
**iff** the string is a concatenation of exactly `n` RFC 3629 encodings of (mode-admissible) code
points. -/
theorem validate_iff_wellformed (html : Bool) (s : Bytes) (n : Nat) :
    validate html s 0 = (true, n) ↔ WellFormed html s n := by
  rw [validate_spec]
  constructor
  · rintro ⟨k, rfl, h⟩; simpa using h
  · intro h; exact ⟨n, by simp, h⟩

/-- acceptance alone -/
theorem validate_accepts_iff (html : Bool) (s : Bytes) :
    (validate html s 0).1 = true ↔ ∃ n, WellFormed html s n := by
  constructor
  · intro h
    refine ⟨(validate html s 0).2, (validate_iff_wellformed html s _).1 ?_⟩
    rw [← h]
  · rintro ⟨n, h⟩
    rw [(validate_iff_wellformed html s n).2 h]

/-- the count is added to the caller's value (form.cpp passes a member that starts at 0) -/
theorem validate_count_accumulates (html : Bool) (s : Bytes) (c n : Nat) :
    validate html s c = (true, c + n) ↔ WellFormed html s n := by
  rw [validate_spec]
  constructor
  · rintro ⟨k, hk, h⟩; have : k = n := by omega
    subst this; exact h
  · intro h; exact ⟨n, rfl, h⟩

/-- on rejection the count is the number of characters read before the first position at which
no character (of the mode) can be decoded -/
theorem validate_count_on_failure (html : Bool) (s : Bytes) (n : Nat) (h : validate html s 0 = (false, n)) :
    ∃ pre suf, s = pre ++ suf ∧ WellFormed html pre n ∧ Undecodable html suf := by
  obtain ⟨pre, suf, k, e, hk, hw, hu⟩ := validateFuel_false_spec html s.length s 0 n (Nat.le_refl _) h
  have : k = n := by omega
  subst this
  exact ⟨pre, suf, e, hw, hu⟩

/-- `encoding::valid_utf8` / `valid("utf-8",…)`: HTML-safe mode -/
theorem validUtf8_iff_wellformed_htmlsafe (s : Bytes) (n : Nat) :
    validUtf8 s 0 = (true, n) ↔ WellFormed true s n :=
  validate_iff_wellformed true s n

/-! ## the conversion layer on top of booster's decoder: `booster::locale::conv::utf_to_utf` -/

/-- `utf_to_utf<char>(…, stop)` throws `conversion_error` **iff** the text is not well-formed
UTF-8 (truncated final sequences included: the decoder's `incomplete` is an error too) -/
theorem utf_to_utf_stop_rejects_iff_invalid (s : Bytes) :
    Boost.utf8ToUtf8 Gen.methodStop s = none ↔ ¬ ∃ n, WellFormed false s n := by
  unfold Boost.utf8ToUtf8 Boost.utf8ToCps
  constructor
  · intro h ⟨n, hw⟩
    obtain ⟨chars, hs⟩ := wf_splits hw
    rw [u2uFuel_splits _ s.length s chars (Nat.le_refl _) hs] at h
    simp at h
  · intro h
    cases hc : Boost.u2uFuel Gen.methodStop s.length s with
    | none => rfl
    | some cs =>
      exfalso
      obtain ⟨chars, hs, _⟩ := u2uFuel_stop_splits s.length s cs (Nat.le_refl _) hc
      exact h ⟨_, splits_wf hs⟩

/-- well-formed text passes through `utf_to_utf<char>` unchanged, whatever the method -/
theorem utf_to_utf_id_on_valid (how : Nat) (s : Bytes) (n : Nat) (h : WellFormed false s n) :
    Boost.utf8ToUtf8 how s = some s := by
  obtain ⟨chars, hs⟩ := wf_splits h
  unfold Boost.utf8ToUtf8 Boost.utf8ToCps
  rw [u2uFuel_splits how s.length s chars (Nat.le_refl _) hs]
  simp only [Option.map_some]
  rw [encode_splits hs]

/-- whatever `stop` mode returns is the input itself -/
theorem utf_to_utf_stop_returns_input (s out : Bytes) (h : Boost.utf8ToUtf8 Gen.methodStop s = some out) :
    out = s := by
  by_cases hw : ∃ n, WellFormed false s n
  · obtain ⟨n, hw⟩ := hw
    rw [utf_to_utf_id_on_valid _ s n hw] at h
    cases h; rfl
  · rw [(utf_to_utf_stop_rejects_iff_invalid s).2 hw] at h
    cases h

/-- `utf_to_utf<char>(…, skip)` never throws and its result is well-formed UTF-8, for every input -/
theorem utf_to_utf_skip_yields_valid (s : Bytes) :
    ∃ out, Boost.utf8ToUtf8 Gen.methodSkip s = some out ∧ ∃ n, WellFormed false out n := by
  obtain ⟨cs, hcs, hsc⟩ := u2uFuel_skip_scalars s.length s (Nat.le_refl _)
  refine ⟨(cs.map Boost.encode).flatten, ?_, cs.length, encode_scalars_wf cs hsc⟩
  unfold Boost.utf8ToUtf8 Boost.utf8ToCps
  rw [hcs]; rfl

/-- the code points `utf_to_utf<wchar_t>(char const*,…, stop)` produces: `cps` comes out iff the
text is the concatenation of the RFC 3629 encodings of the scalar values `cps` -/
theorem utf_to_utf_code_points (s : Bytes) (cps : List Nat) :
    Boost.utf8ToCps Gen.methodStop s = some cps ↔
      (∀ c ∈ cps, Scalar c) ∧ s = (cps.map Spec.encode).flatten := by
  unfold Boost.utf8ToCps
  constructor
  · intro h
    obtain ⟨chars, hs, rfl⟩ := u2uFuel_stop_splits s.length s cps (Nat.le_refl _) h
    refine ⟨?_, ?_⟩
    · intro c hc
      obtain ⟨ch, hch, rfl⟩ := List.mem_map.1 hc
      exact (rfc_scalar_shortest (hs.2 ch hch)).1
    · rw [hs.1, List.map_map]
      congr 1
      apply List.map_congr_left
      intro ch hch
      exact rfc_eq_encode (hs.2 ch hch)
  · rintro ⟨hsc, rfl⟩
    have hs : Splits ((cps.map Spec.encode).flatten) (cps.map fun c => (c, Spec.encode c)) := by
      refine ⟨by simp [List.map_map, Function.comp_def], ?_⟩
      intro ch hch
      obtain ⟨c, hc, rfl⟩ := List.mem_map.1 hch
      exact rfc_encode (hsc c hc)
    rw [u2uFuel_splits _ _ _ _ (Nat.le_refl _) hs]
    simp [List.map_map, Function.comp_def]

/-- the other direction, `utf_to_utf<char>(wchar_t const*,…)` with 32-bit units: `stop` succeeds
iff every unit is a scalar value and then yields their RFC 3629 encodings; `skip` drops the other
units, so its result is always well formed -/
theorem utf32_to_utf8 (us : List Nat) :
    (∀ out, Boost.utf32ToUtf8 Gen.methodStop us = some out ↔
      (∀ u ∈ us, Scalar u) ∧ out = (us.map Spec.encode).flatten) ∧
    (∃ out, Boost.utf32ToUtf8 Gen.methodSkip us = some out ∧ ∃ n, WellFormed false out n) := by
  have hbad : ∀ c, Gen.utf32Bad c = true ↔ ¬ Scalar c := by
    intro c
    have := Boost.invalidCp_eq c
    unfold Gen.Boost.invalidCp at this
    unfold Gen.utf32Bad Scalar
    rw [this]; simp; omega
  induction us with
  | nil =>
    refine ⟨fun out => ?_, [], rfl, 0, (wf_nil false 0).2 rfl⟩
    simp [Boost.utf32ToUtf8]
  | cons u us ih =>
    obtain ⟨ih1, outk, ih2, nk, ih3⟩ := ih
    by_cases hu : Scalar u
    · have hb : Gen.utf32Bad u = false := by
        cases hx : Gen.utf32Bad u with
        | false => rfl
        | true => exact absurd hu ((hbad u).1 hx)
      have he := isError_cp hu.1
      have he' : Gen.u2uIsError u = false := he
      constructor
      · intro out
        simp only [Boost.utf32ToUtf8, Boost.decode32, hb, Bool.false_eq_true, if_false, he]
        cases hr : Boost.utf32ToUtf8 Gen.methodStop us with
        | none =>
          have := ih1
          simp only [Option.map_none, reduceCtorEq, false_iff]
          rintro ⟨hall, rfl⟩
          have := (ih1 _).2 ⟨fun x hx => hall x (by simp [hx]), rfl⟩
          rw [hr] at this; cases this
        | some o =>
          have ho := (ih1 o).1 hr
          simp only [Option.map_some, Option.some.injEq, Boost.code, boost_encode_eq_spec hu]
          constructor
          · rintro rfl
            exact ⟨fun x hx => by rcases List.mem_cons.1 hx with rfl | h; exact hu; exact ho.1 x h,
              by simp [ho.2]⟩
          · rintro ⟨_, rfl⟩
            simp [ho.2]
      · refine ⟨Spec.encode u ++ outk, ?_, nk + 1, wf_cons (rfc_encode hu) rfl ih3⟩
        simp only [Boost.utf32ToUtf8, Boost.decode32, hb, Bool.false_eq_true, if_false, he, he', ih2,
          Option.map_some, Boost.code, boost_encode_eq_spec hu]
    · have hb : Gen.utf32Bad u = true := (hbad u).2 hu
      constructor
      · intro out
        simp only [Boost.utf32ToUtf8, Boost.decode32, hb, if_true, isError_illegal, throws_stop,
          reduceCtorEq, false_iff]
        rintro ⟨hall, _⟩
        exact hu (hall u (by simp))
      · exact ⟨outk, by simp only [Boost.utf32ToUtf8, Boost.decode32, hb, if_true, isError_illegal, throws_skip,
          Bool.false_eq_true, if_false, ih2], nk, ih3⟩

/-! ## single-byte code pages -/

/-- every generated byte predicate accepts all printable ASCII and rejects C0 (except tab, LF,
CR) and DEL -/
theorem single_byte_demands : ∀ e ∈ Gen.sbPreds, ∀ c : UInt8,
    (printableAscii c.toNat = true → e.2 c.toNat = true) ∧
    (c0Forbidden c.toNat = true → e.2 c.toNat = false) ∧
    (c.toNat = 0x7F → e.2 c.toNat = false) := by
  intro e he c
  have h := sbDemandsAll_ok
  unfold sbDemandsAll at h
  rw [List.all_eq_true] at h
  have hc := range_all_byte (h e he) c
  unfold byteDemands at hc
  simp only [Bool.and_eq_true, Bool.or_eq_true, Bool.not_eq_true', Bool.false_and, Bool.not_false,
    Bool.true_or, Bool.and_true, bne_iff_ne, ne_eq] at hc
  obtain ⟨⟨h1, h2⟩, h3⟩ := hc
  refine ⟨fun hp => ?_, fun hp => ?_, fun hp => ?_⟩
  · rcases h1 with h1 | h1
    · rw [hp] at h1; cases h1
    · exact h1
  · rcases h2 with h2 | h2
    · rw [hp] at h2; cases h2
    · exact h2
  · rcases h3 with h3 | h3
    · exact absurd hp h3
    · exact h3

/-- every registered encoding name resolves to a validator; the names `is_utf8` recognises are
exactly those mapped to the UTF-8 validator; a name resolves to a predicate meeting
`Spec.nameDemands`: printable ASCII accepted, C0 (except tab/LF/CR) and DEL rejected, for the
ISO-8859 family (and `latin1`) additionally every C1 byte `0x80–0x9F` rejected, for `ascii` /
`us-ascii` every byte ≥ 0x80 rejected. -/
theorem registered_names : ∀ e ∈ Gen.nameTable,
    match getTester e.1 with
    | none => False
    | some .utf8 => isUtf8 e.1 = true
    | some (.single i) =>
      i < Gen.sbPreds.length ∧ isUtf8 e.1 = false ∧
      ∀ c : UInt8, nameDemands (normalize e.1) (sbPred i) c.toNat = true := by
  intro e he
  have h := nameTableOk_ok
  unfold nameTableOk at h
  rw [List.all_eq_true] at h
  have h1 := h e he
  cases hg : getTester e.1 with
  | none => rw [hg] at h1; cases h1
  | some t =>
    cases t with
    | utf8 => rw [hg] at h1; exact h1
    | single i =>
      rw [hg] at h1
      simp only [Bool.and_eq_true, decide_eq_true_eq, Bool.not_eq_true'] at h1
      exact ⟨h1.1.1, h1.1.2, fun c => range_all_byte h1.2 c⟩

/-- lookup of a validator, and the UTF-8 test, depend only on the significant part of the name:
ASCII letters and digits before the first NUL, case-insensitively (`Spec.normName`) -/
theorem name_lookup_normalises (n1 n2 : List Nat) (h : normName n1 = normName n2) :
    getTester n1 = getTester n2 ∧ isUtf8 n1 = isUtf8 n2 := by
  unfold getTester lookupIn isUtf8
  rw [normalize_eq_normName n1, normalize_eq_normName n2, h]
  exact ⟨rfl, rfl⟩

/-- a single-byte validator judges each byte on its own: the verdict is the conjunction of the
per-byte verdicts (so it is context free), on success `count` is the length, on failure the
1-based position of the first rejected byte -/
theorem single_byte_bytewise (pred : Nat → Bool) (s : Bytes) :
    (sbValidate pred s 0).1 = s.all (fun c => pred c.toNat) ∧
    ((sbValidate pred s 0).1 = true → (sbValidate pred s 0).2 = s.length) ∧
    ((sbValidate pred s 0).1 = false →
      (sbValidate pred s 0).2 = (s.takeWhile (fun c => pred c.toNat)).length + 1) := by
  refine ⟨sbValidate_fst pred s 0, fun h => ?_, fun h => ?_⟩
  · simpa using sbValidate_count_ok pred s 0 h
  · simpa using sbValidate_count_bad pred s 0 h

theorem single_byte_context_free (pred : Nat → Bool) (s t : Bytes) :
    (sbValidate pred (s ++ t) 0).1 = ((sbValidate pred s 0).1 && (sbValidate pred t 0).1) := by
  simp [sbValidate_fst, List.all_append]

/-! ## `validate_or_filter` -/

/-- UTF-8: the function reports "valid" (and leaves the output argument alone) iff the text is
HTML-safe well-formed UTF-8 -/
theorem filter_reports_valid_iff (s : Bytes) (repl : UInt8) :
    filterUtf8 s repl = (true, none) ↔ ∃ n, WellFormed true s n := by
  obtain ⟨h1, _⟩ := scanFuel_spec s.length s (Nat.le_refl _)
  unfold filterUtf8
  cases hs : scanFuel s.length s with
  | none => simp only [true_iff]; exact h1.1 hs
  | some prev =>
    simp only [Prod.mk.injEq, Bool.false_eq_true, false_and, false_iff]
    intro h; rw [h1.2 h] at hs; cases hs

/-- UTF-8: valid text is left unchanged — the call reports `true` without touching the output,
and the rewriting loop itself is the identity on valid text -/
theorem filter_id_on_valid (s : Bytes) (repl : UInt8) (n : Nat) (h : WellFormed true s n) :
    filterUtf8 s repl = (true, none) ∧ filterLoop repl s = s :=
  ⟨(filter_reports_valid_iff s repl).2 ⟨n, h⟩, filterFuel_id repl s.length s n (Nat.le_refl _) h⟩

/-- UTF-8: whatever the input, the text produced by filtering is HTML-safe well-formed UTF-8,
provided the replacement is 0 (delete) or itself a valid HTML-safe character -/
theorem filter_yields_valid (s out : Bytes) (repl : UInt8) (hr : ReplOk repl)
    (h : filterUtf8 s repl = (false, some out)) : ∃ n, WellFormed true out n := by
  obtain ⟨_, h2⟩ := scanFuel_spec s.length s (Nat.le_refl _)
  unfold filterUtf8 at h
  cases hs : scanFuel s.length s with
  | none => rw [hs] at h; cases h
  | some prev =>
    rw [hs] at h
    obtain ⟨pre, n, e, hw, hlen⟩ := h2 prev hs
    obtain ⟨m, hm⟩ := filterFuel_wf repl hr prev.length prev (Nat.le_refl _)
    simp only [Prod.mk.injEq, Option.some.injEq, true_and] at h
    subst h
    refine ⟨n + m, ?_⟩
    rw [e, consumed_append]
    exact wf_append hw hm

/-- with replacement 0 filtering only deletes bytes: the result is a subsequence of the input -/
theorem filter_only_deletes (s out : Bytes) (h : filterUtf8 s 0 = (false, some out)) : out.Sublist s := by
  obtain ⟨_, h2⟩ := scanFuel_spec s.length s (Nat.le_refl _)
  unfold filterUtf8 at h
  cases hs : scanFuel s.length s with
  | none => rw [hs] at h; cases h
  | some prev =>
    rw [hs] at h
    obtain ⟨pre, n, e, hw, hlen⟩ := h2 prev hs
    simp only [Prod.mk.injEq, Option.some.injEq, true_and] at h
    subst h
    rw [e, consumed_append]
    exact List.Sublist.append (List.Sublist.refl pre) (filterFuel_sublist prev.length prev (Nat.le_refl _))

/-- the hypothesis `ReplOk` cannot be dropped: with the replacement byte 0x80 the "filtered" text
is the lone byte 0x80, which is not valid (the caller chose an invalid replacement; replayed on
the real code by the correspondence corpus) -/
theorem filter_bad_replacement_counterexample :
    filterUtf8 [0xFF] 0x80 = (false, some [0x80]) ∧ (validate true [0x80] 0).1 = false := by
  decide

/-- single-byte: same three facts; the replacement has to be 0 or a byte the code page accepts -/
theorem filter_single_byte (pred : Nat → Bool) (s : Bytes) (repl : UInt8) :
    (filterSingle pred s repl = (true, none) ↔ (sbValidate pred s 0).1 = true) ∧
    (∀ out, filterSingle pred s repl = (false, some out) → (repl = 0 ∨ pred repl.toNat = true) →
      (sbValidate pred out 0).1 = true) := by
  unfold filterSingle
  by_cases hv : (sbValidate pred s 0).1 = true
  · simp [hv]
  · simp only [hv, if_false, Prod.mk.injEq, Bool.false_eq_true, false_and, false_iff, not_false_eq_true,
      true_and, Option.some.injEq]
    rintro out rfl hr
    rw [sbValidate_fst, List.all_eq_true]
    intro c hc
    rw [List.mem_flatMap] at hc
    obtain ⟨x, _, hx⟩ := hc
    rw [sbValidate_single] at hx
    by_cases hp : pred x.toNat = true
    · simp [hp] at hx; subst hx; exact hp
    · simp only [hp, if_false, Bool.false_eq_true] at hx
      unfold replOut at hx
      by_cases h0 : repl = 0
      · simp [h0] at hx
      · simp [h0] at hx
        subst hx
        rcases hr with hr | hr
        · exact absurd hr h0
        · exact hr

/-! ## dispatch through the public entry points -/

/-- `encoding::valid(name,…)` for a name that resolves to the UTF-8 validator -/
theorem valid_utf8_name (name : List Nat) (s : Bytes) (n : Nat) (h : getTester name = some .utf8) :
    valid name s = .ok true n ↔ WellFormed true s n := by
  unfold valid validWith
  rw [h]
  simp only [Verdict.ok.injEq]
  rw [← validUtf8_iff_wellformed_htmlsafe]
  constructor
  · rintro ⟨h1, h2⟩; exact Prod.ext h1 h2
  · intro h; rw [h]; exact ⟨rfl, rfl⟩

/-- `encoding::valid(name,…)` for a name that resolves to a single-byte code page -/
theorem valid_single_name (name : List Nat) (s : Bytes) (i : Nat) (h : getTester name = some (.single i)) :
    valid name s = .ok (s.all fun c => sbPred i c.toNat) (sbValidate (sbPred i) s 0).2 := by
  unfold valid validWith
  rw [h]
  simp only [sbValidate_fst]

/-- `encoding::validate_or_filter(name,…)`: a name `is_utf8` recognises goes to the UTF-8 filter, a
name resolving to a single-byte code page to the byte filter with that page's predicate — so the
filter theorems above apply to the public entry point -/
theorem validate_or_filter_dispatch (name : List Nat) (s : Bytes) (repl : UInt8) :
    (isUtf8 name = true → validateOrFilter name s repl = .done (filterUtf8 s repl).1 (filterUtf8 s repl).2) ∧
    (∀ i, isUtf8 name = false → getTester name = some (.single i) →
      validateOrFilter name s repl = .done (filterSingle (sbPred i) s repl).1 (filterSingle (sbPred i) s repl).2) := by
  constructor
  · intro h; simp [validateOrFilter, h]
  · intro i h hg; simp [validateOrFilter, h, hg]

/-! ## the text widget: `widgets::base_text::load` / `validate` (src/form.cpp) -/

/-- After **any** history, `validate()` right after a `load` depends only on that load and on the
widget's configuration: `Form.verdictOf` mentions neither the count, nor the value, nor the flags
earlier requests left in the object.  (`st` is an arbitrary state.) -/
theorem text_widget_validate_uses_count_of_loaded_value (st : Form.St) (rq : Form.Req)
    (hr : Form.Resolves st.named st.validateCharset rq) :
    (Form.validate (Form.load st rq)).1 =
      Form.verdictOf st.low st.high st.named st.validateCharset rq :=
  Form.validate_load st rq hr

/-- the same over operation sequences: whatever was done to the widget before (loads, validates,
limit changes, `value(v)`, `clear()`, renaming), from a fresh widget with any initial garbage in
`code_points_` -/
theorem text_widget_history_independent (cp0 : Nat) (ops : List Form.Op) (rq : Form.Req)
    (hr : Form.Resolves (Form.run (Form.init cp0) ops).named (Form.run (Form.init cp0) ops).validateCharset rq) :
    (Form.validate (Form.run (Form.init cp0) (ops ++ [.load rq]))).1 =
      Form.verdictOf (Form.run (Form.init cp0) ops).low (Form.run (Form.init cp0) ops).high
        (Form.run (Form.init cp0) ops).named (Form.run (Form.init cp0) ops).validateCharset rq := by
  rw [Form.run_append_load]
  exact Form.validate_load _ rq hr

/-- what that verdict is for a named widget in a UTF-8 locale with charset validation on and sane
limits: the field absent counts as 0 characters; a present field is accepted iff it is HTML-safe
well-formed UTF-8 whose number of code points is within the limits -/
theorem text_widget_utf8_verdict (st : Form.St) (enc : List Nat) (field : Option Bytes)
    (hn : st.named = true) (hv : st.validateCharset = true) (he : getTester enc = some .utf8)
    (hl : 0 ≤ st.low) (hl2 : st.low < 2147483648) (hh : st.high < 2147483648) :
    (Form.validate (Form.load st ⟨enc, field⟩)).1 = true ↔
      match field with
      | none => withinLimits st.low st.high 0 = true
      | some s => ∃ n, WellFormed true s n ∧ withinLimits st.low st.high n = true := by
  have hres : Form.Resolves st.named st.validateCharset ⟨enc, field⟩ := by
    intro _ _ v _ hx
    unfold valid validWith at hx
    rw [he] at hx
    cases hx
  rw [Form.validate_load st _ hres, hn, hv]
  unfold Form.verdictOf Form.loadedCount
  cases field with
  | none =>
    simp only [Bool.not_true, Bool.false_eq_true, if_false, Form.outOfLimits_eq 0 st.low st.high hl hl2 hh,
      Bool.not_not]
  | some s =>
    simp only [Bool.not_true, Bool.false_eq_true, if_false, if_true]
    cases hvv : valid enc s with
    | external => unfold valid validWith at hvv; rw [he] at hvv; cases hvv
    | ok ok n =>
      cases ok with
      | true =>
        have hw := (valid_utf8_name enc s n he).1 hvv
        simp only [Form.outOfLimits_eq n st.low st.high hl hl2 hh, Bool.not_not]
        constructor
        · intro h; exact ⟨n, hw, h⟩
        · rintro ⟨m, hm, hlim⟩
          have := (valid_utf8_name enc s m he).2 hm
          rw [hvv] at this
          cases this
          exact hlim
      | false =>
        simp only [Bool.false_eq_true, false_iff]
        rintro ⟨m, hm, _⟩
        have := (valid_utf8_name enc s m he).2 hm
        rw [hvv] at this
        cases this

/-! ## non-vacuity: instances meeting the hypotheses, and the classic malformed inputs -/

example : Cms.next true [0xC3, 0xA9, 0x41] = (.cp 0xE9, [0x41]) := by decide
example : Rfc3629 0xE9 [0xC3, 0xA9] := by decide
example : Rfc3629 0x20AC [0xE2, 0x82, 0xAC] := by decide
example : Rfc3629 0x10FFFF [0xF4, 0x8F, 0xBF, 0xBF] := by decide
example : ¬ Rfc3629 0x2F [0xC0, 0xAF] := by decide                       -- over-long
example : utf8Char [0xED, 0xA0, 0x80] = false := by decide               -- surrogate: no code point at all
example : (Cms.next false [0xC0, 0xAF]).1 = .illegal := by decide
example : (Cms.next false [0xED, 0xA0, 0x80]).1 = .illegal := by decide
example : (Cms.next false [0xF4, 0x90, 0x80, 0x80]).1 = .illegal := by decide
example : (Cms.next false [0xE2, 0x82]).1 = .illegal ∧ (Boost.decode [0xE2, 0x82]).1 = .incomplete := by decide
example : Cms.next false [0xC2, 0x85] = (.cp 0x85, []) ∧ (Cms.next true [0xC2, 0x85]).1 = .illegal := by decide
example : WellFormed true [0x41, 0xC3, 0xA9] 2 :=
  ⟨[(0x41, [0x41]), (0xE9, [0xC3, 0xA9])], by decide, by decide, by decide⟩
example : validate true [0x41, 0xC3, 0xA9] 0 = (true, 2) := by decide
example : Truncated [0xE2, 0x82] := Or.inr ⟨0xE2, [0x82], 3, rfl, by decide, by decide, by decide⟩
example : Scalar 0x1F600 := by unfold Scalar; omega
example : normName [73, 83, 79, 45, 56, 56, 53, 57, 45, 49] = normName [105, 115, 111, 56, 56, 53, 57, 49] := by decide
example : validate true [0x41, 0xC3, 0xA9, 0xC2, 0x80, 0x42] 0 = (false, 2) := by decide
example : Boost.utf8ToUtf8 Gen.methodStop [0x61, 0xE2, 0x82] = none := by decide         -- truncated at the end
example : Boost.utf8ToUtf8 Gen.methodSkip [0x61, 0xE2, 0x82] = some [0x61] := by decide
example : Boost.utf8ToUtf8 Gen.methodSkip [0xC3] = some [] := by decide
example : Boost.utf8ToUtf8 Gen.methodSkip [0xE2, 0x41, 0x42] = some [0x42] := by decide         -- the byte that ended the bad sequence goes with it
example : Boost.utf8ToCps Gen.methodStop [0x41, 0xE2, 0x82, 0xAC] = some [0x41, 0x20AC] := by decide
example : Boost.utf32ToUtf8 Gen.methodSkip [0x41, 0xD800, 0x20AC, 0x110000] = some [0x41, 0xE2, 0x82, 0xAC] := by decide
-- the scenario of the seeded change C14-9: 4 characters, then a request without the field; limits (2,5)
example : (Form.validate (Form.run (Form.init 7)
    [.name true, .limits 2 5, .load ⟨[117, 116, 102, 56], some [97, 98, 99, 100]⟩, .validate,
     .load ⟨[117, 116, 102, 56], none⟩])).1 = false := by decide
example : (Form.validate (Form.run (Form.init 7)
    [.name true, .limits 2 5, .load ⟨[117, 116, 102, 56], some [0xE2, 0x82, 0xAC, 0xF0, 0x9F, 0x98, 0x80, 0x78]⟩])).1 = true := by decide
example : Form.Resolves true true ⟨[117, 116, 102, 56], some [97]⟩ := by
  intro _ _ v hv; cases hv; decide
example : ReplOk 63 := Or.inr ⟨1, [(63, [63])], by decide, by decide, by decide⟩
example : ReplOk 0 := Or.inl rfl
example : filterUtf8 [0x41, 0xC3, 0xFF, 0x01, 0xC2, 0x80, 0x42] 63 = (false, some [0x41, 63, 63, 63, 63, 0x42]) := by decide
example : filterUtf8 [0x41, 0xC3, 0xFF, 0x01, 0xC2, 0x80, 0x42] 0 = (false, some [0x41, 0x42]) := by decide
example : getTester [73, 83, 79, 45, 56, 56, 53, 57, 45, 49] = some (.single 1) := by decide   -- "ISO-8859-1"
example : getTester [85, 84, 70, 45, 56] = some .utf8 ∧ isUtf8 [85, 84, 70, 45, 56] = true := by decide  -- "UTF-8"
example : getTester [119, 105, 110, 100, 111, 119, 115, 49, 50, 53, 52] = none := by decide  -- windows1254: not registered
example : valid [108, 97, 116, 105, 110, 49] [0x41, 0xE9] = .ok true 2 := by decide
example : validateOrFilter [108, 97, 116, 105, 110, 49] [0x41, 0x85, 0x42] 63 = .done false (some [0x41, 63, 0x42]) := by decide
example : validateOrFilter [85, 84, 70, 45, 56] [0x41, 0xFF] 0 = .done false (some [0x41]) := by decide
example : valid [108, 97, 116, 105, 110, 49] [0x41, 0x85, 0x42] = .ok false 2 := by decide

end Cppcms.C14.Props
