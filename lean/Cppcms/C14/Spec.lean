import Cppcms.Common
/-!
# C14 — independent specification

Written from RFC 3629 (§3 bit distribution table, §4 ABNF), *not* from the C++ code
and without importing `Gen`/`Model`.  Only `≤`, `=`, `+`, `*`, `-` on `Nat`.

```
UTF8-1      = %x00-7F
UTF8-2      = %xC2-DF UTF8-tail
UTF8-3      = %xE0 %xA0-BF UTF8-tail / %xE1-EC 2( UTF8-tail ) /
              %xED %x80-9F UTF8-tail / %xEE-EF 2( UTF8-tail )
UTF8-4      = %xF0 %x90-BF 2( UTF8-tail ) / %xF1-F3 3( UTF8-tail ) /
              %xF4 %x80-8F 2( UTF8-tail )
UTF8-tail   = %x80-BF
```
-/
namespace Cppcms.C14.Spec
open Cppcms

/-- `UTF8-tail = %x80-BF` -/
def tail (b : Nat) : Bool := 0x80 ≤ b && b ≤ 0xBF

/-- RFC 3629 §4: `enc` is exactly one `UTF8-char` (ABNF above). -/
def utf8Char : List Nat → Bool
  | [a] => a ≤ 0x7F
  | [a, b] => 0xC2 ≤ a && a ≤ 0xDF && tail b
  | [a, b, c] =>
    ((a == 0xE0 && 0xA0 ≤ b && b ≤ 0xBF) ||
     (0xE1 ≤ a && a ≤ 0xEC && tail b) ||
     (a == 0xED && 0x80 ≤ b && b ≤ 0x9F) ||
     (0xEE ≤ a && a ≤ 0xEF && tail b)) && tail c
  | [a, b, c, d] =>
    ((a == 0xF0 && 0x90 ≤ b && b ≤ 0xBF) ||
     (0xF1 ≤ a && a ≤ 0xF3 && tail b) ||
     (a == 0xF4 && 0x80 ≤ b && b ≤ 0x8F)) && tail c && tail d
  | _ => false

/-- RFC 3629 §3: the scalar value carried by a sequence of that shape
(`0xxxxxxx`, `110xxxxx 10xxxxxx`, `1110xxxx 10xxxxxx 10xxxxxx`, `11110xxx 10xxxxxx 10xxxxxx 10xxxxxx`),
by positional arithmetic. -/
def scalarOf : List Nat → Nat
  | [a] => a
  | [a, b] => (a - 0xC0) * 64 + (b - 0x80)
  | [a, b, c] => (a - 0xE0) * 4096 + (b - 0x80) * 64 + (c - 0x80)
  | [a, b, c, d] => (a - 0xF0) * 262144 + (b - 0x80) * 4096 + (c - 0x80) * 64 + (d - 0x80)
  | _ => 0

def nats (bs : Bytes) : List Nat := bs.map (·.toNat)

/-- `enc` is the RFC 3629 encoding of the code point `cp`. -/
def Rfc3629 (cp : Nat) (enc : Bytes) : Prop :=
  utf8Char (nats enc) = true ∧ cp = scalarOf (nats enc)

instance (cp : Nat) (enc : Bytes) : Decidable (Rfc3629 cp enc) := by
  unfold Rfc3629; infer_instance

/-- Unicode scalar value: at most U+10FFFF and not a surrogate. -/
def Scalar (cp : Nat) : Prop := cp ≤ 0x10FFFF ∧ ¬ (0xD800 ≤ cp ∧ cp ≤ 0xDFFF)

/-- number of bytes of the shortest UTF-8 form (RFC 3629 §3 table, left column) -/
def shortestLen (cp : Nat) : Nat :=
  if cp ≤ 0x7F then 1 else if cp ≤ 0x7FF then 2 else if cp ≤ 0xFFFF then 3 else 4

/-- RFC 3629 §3, encoding direction, by division (used only to show that the relation `Rfc3629`
is total on scalar values) -/
def encode (cp : Nat) : Bytes :=
  if cp ≤ 0x7F then [UInt8.ofNat cp]
  else if cp ≤ 0x7FF then [UInt8.ofNat (0xC0 + cp / 64), UInt8.ofNat (0x80 + cp % 64)]
  else if cp ≤ 0xFFFF then
    [UInt8.ofNat (0xE0 + cp / 4096), UInt8.ofNat (0x80 + cp / 64 % 64), UInt8.ofNat (0x80 + cp % 64)]
  else
    [UInt8.ofNat (0xF0 + cp / 262144), UInt8.ofNat (0x80 + cp / 4096 % 64),
     UInt8.ofNat (0x80 + cp / 64 % 64), UInt8.ofNat (0x80 + cp % 64)]

/-- total length announced by a first byte (RFC 3629 §4: which `UTF8-n` rule can start with it) -/
def seqLen (lead : Nat) : Option Nat :=
  if lead ≤ 0x7F then some 1
  else if 0xC2 ≤ lead ∧ lead ≤ 0xDF then some 2
  else if 0xE0 ≤ lead ∧ lead ≤ 0xEF then some 3
  else if 0xF0 ≤ lead ∧ lead ≤ 0xF4 then some 4
  else none

/-! ## encoding names: what "the same name" means (IANA-style loose matching) -/

def alnum (c : Nat) : Bool := (48 ≤ c && c ≤ 57) || (65 ≤ c && c ≤ 90) || (97 ≤ c && c ≤ 122)
def lower (c : Nat) : Nat := if 65 ≤ c ∧ c ≤ 90 then c + 32 else c

/-- the significant part of an encoding name: ASCII letters and digits up to the first NUL,
letters lower-cased -/
def normName (name : List Nat) : List Nat := ((name.takeWhile (· != 0)).filter alnum).map lower

/-- Control characters (Unicode general category Cc): C0 `U+0000–U+001F`, DEL `U+007F`,
C1 `U+0080–U+009F`. -/
def isControl (cp : Nat) : Bool := cp ≤ 0x1F || (0x7F ≤ cp && cp ≤ 0x9F)

/-- HTML-safe: no control character other than tab, line feed, carriage return. -/
def htmlSafe (cp : Nat) : Bool := !isControl cp || cp == 9 || cp == 10 || cp == 13

/-- mode predicate: in HTML mode the code point has to be HTML-safe -/
def modeOk (html : Bool) (cp : Nat) : Bool := !html || htmlSafe cp

/-- A whole string is well formed in mode `html` with `n` code points: it is the
concatenation of `n` RFC 3629 encodings of (mode-admissible) code points. -/
def WellFormed (html : Bool) (s : Bytes) (n : Nat) : Prop :=
  ∃ chars : List (Nat × Bytes),
    s = (chars.map (·.2)).flatten ∧ chars.length = n ∧
    ∀ ch ∈ chars, Rfc3629 ch.1 ch.2 ∧ modeOk html ch.1 = true

/-- the shape booster's decoder calls `incomplete`: nothing, or a lead byte followed by fewer
trail bytes than it announces (and nothing else) -/
def Truncated (bs : Bytes) : Prop :=
  bs = [] ∨ ∃ a ts n, bs = a :: ts ∧ seqLen a.toNat = some n ∧ ts.length + 1 < n ∧
    ∀ t ∈ ts, Spec.tail t.toNat = true

/-- no character of the mode can be read at the head of `suf` -/
def Undecodable (html : Bool) (suf : Bytes) : Prop :=
  suf ≠ [] ∧ ¬ ∃ v enc rest, suf = enc ++ rest ∧ Rfc3629 v enc ∧ modeOk html v = true

/-- admissible replacement for `validate_or_filter` (UTF-8): 0 (= delete) or a byte that is by
itself HTML-safe well-formed text -/
def ReplOk (repl : UInt8) : Prop := repl = 0 ∨ ∃ n, WellFormed true [repl] n

/-! ## executable decision procedure for the judge (greedy parse by the table above) -/

/-- first character of `bs` according to the ABNF: `(code point, its length)` -/
def firstChar (bs : List Nat) : Option (Nat × Nat) :=
  if utf8Char (bs.take 1) then some (scalarOf (bs.take 1), 1)
  else if utf8Char (bs.take 2) then some (scalarOf (bs.take 2), 2)
  else if utf8Char (bs.take 3) then some (scalarOf (bs.take 3), 3)
  else if utf8Char (bs.take 4) then some (scalarOf (bs.take 4), 4)
  else none

/-- `some n`: well formed with `n` code points; `none`: not well formed.  `skip` bytes belong to
the character already accepted. -/
def countFrom (html : Bool) : List Nat → Nat → Option Nat
  | [], 0 => some 0
  | [], _ + 1 => none
  | _ :: r, k + 1 => countFrom html r k
  | a :: r, 0 =>
    match firstChar (a :: r) with
    | none => none
    | some (cp, len) =>
      if modeOk html cp then (countFrom html r (len - 1)).map (· + 1) else none

def wellFormedCount (html : Bool) (s : Bytes) : Option Nat := countFrom html (nats s) 0

/-! ## single-byte code pages: what the property demands of every byte predicate -/

def printableAscii (c : Nat) : Bool := 0x20 ≤ c && c ≤ 0x7E
/-- C0 control other than tab / LF / CR -/
def c0Forbidden (c : Nat) : Bool := c ≤ 0x1F && c != 9 && c != 10 && c != 13
def c1 (c : Nat) : Bool := 0x80 ≤ c && c ≤ 0x9F

/-- the demands on a byte predicate `p`; `iso` = ISO-8859 family (C1 must be rejected too) -/
def byteDemands (iso : Bool) (p : Nat → Bool) (c : Nat) : Bool :=
  (!printableAscii c || p c) && (!c0Forbidden c || !p c) && (c != 0x7F || !p c) && (!(iso && c1 c) || !p c)

/-- the name (already normalised: lower-case alphanumerics) denotes an ISO-8859 code page -/
def isoFamily (name : List Nat) : Bool :=
  name.take 7 == [105, 115, 111, 56, 56, 53, 57] || name == [108, 97, 116, 105, 110, 49]

/-- the name (already normalised) denotes 7-bit ASCII: no byte ≥ 0x80 is text in it -/
def asciiFamily (name : List Nat) : Bool :=
  name == [97, 115, 99, 105, 105] || name == [117, 115, 97, 115, 99, 105, 105]

/-- the demands on the predicate a *name* resolves to: the general ones, C1 rejection for the
ISO-8859 family, and for ASCII rejection of every byte ≥ 0x80 -/
def nameDemands (name : List Nat) (p : Nat → Bool) (c : Nat) : Bool :=
  byteDemands (isoFamily name) p c && (!(asciiFamily name && 0x80 ≤ c) || !p c)

/-! ## text widget: length limits are about code points of the value just loaded -/

/-- the documented meaning of `limits(low,high)`: at least `low` characters, at most `high`
unless `high` is negative (no maximum) -/
def withinLimits (low high : Int) (n : Nat) : Bool := low ≤ (n : Int) && (high < 0 || (n : Int) ≤ high)

end Cppcms.C14.Spec
