import Cppcms.C14.Model
import Cppcms.C14.Spec
/-!
Helper lemmas for C14.

Part 1 reads the generated (`Gen`) bit-level pieces back as arithmetic: lead-byte dependent ones
by finite case analysis over the 256 byte values (`decide +kernel`), the rest symbolically.  A
changed constant or comparison in the C++ source changes `Gen.lean` and breaks these.
Part 2 gives `utf8::next` / `decode` on each lead-byte class as an arithmetic normal form.
-/
set_option linter.unusedSimpArgs false
namespace Cppcms.C14
open Cppcms

/-! ## Part 1: generated pieces in arithmetic -/

theorem and63 (t : Nat) : t &&& 63 = t % 64 := Nat.and_two_pow_sub_one_eq_mod t 6

theorem push_eq (c t : Nat) : (c <<< 6) ||| (t &&& 63) = c * 64 + t % 64 := by
  rw [and63, ← Nat.shiftLeft_add_eq_or_of_lt (by omega), Nat.shiftLeft_eq]

/-- the lead-byte classes of RFC 3629 (as `trail_length` must compute them) -/
def leadClass (n : Nat) : Option Nat :=
  if n < 128 then some 0 else if n < 194 then none else if n < 224 then some 1
  else if n < 240 then some 2 else if n ≤ 244 then some 3 else none

def isTr (t : UInt8) : Prop := 128 ≤ t.toNat ∧ t.toNat < 192
instance (t : UInt8) : Decidable (isTr t) := by unfold isTr; infer_instance

theorem leadClass_0 {n : Nat} (h : n < 128) : leadClass n = some 0 := by
  unfold leadClass; repeat' split
  all_goals first | rfl | omega
theorem leadClass_bad {n : Nat} (h : (128 ≤ n ∧ n < 194) ∨ 244 < n) : leadClass n = none := by
  unfold leadClass; repeat' split
  all_goals first | rfl | omega
theorem leadClass_1 {n : Nat} (h : 194 ≤ n ∧ n < 224) : leadClass n = some 1 := by
  unfold leadClass; repeat' split
  all_goals first | rfl | omega
theorem leadClass_2 {n : Nat} (h : 224 ≤ n ∧ n < 240) : leadClass n = some 2 := by
  unfold leadClass; repeat' split
  all_goals first | rfl | omega
theorem leadClass_3 {n : Nat} (h : 240 ≤ n ∧ n ≤ 244) : leadClass n = some 3 := by
  unfold leadClass; repeat' split
  all_goals first | rfl | omega

theorem cms_trailLength_fin : ∀ n : Fin 256, Gen.Cms.trailLength n.val = leadClass n.val := by
  decide +kernel
theorem cms_leadMask_fin : ∀ n : Fin 256,
    Gen.Cms.leadMask n.val 1 = n.val % 32 ∧ Gen.Cms.leadMask n.val 2 = n.val % 16 ∧
    Gen.Cms.leadMask n.val 3 = n.val % 8 := by
  decide +kernel
theorem cms_isTrail_fin : ∀ n : Fin 256, Gen.Cms.isTrail n.val = decide (128 ≤ n.val ∧ n.val < 192) := by
  decide +kernel
theorem cms_asciiOk_fin : ∀ (html : Bool) (n : Fin 128), Gen.Cms.asciiOk html n.val = Spec.modeOk html n.val := by
  decide +kernel

theorem boost_trailLength_fin : ∀ n : Fin 256, Gen.Boost.trailLength n.val = leadClass n.val := by
  decide +kernel
theorem boost_leadMask_fin : ∀ n : Fin 256,
    Gen.Boost.leadMask n.val 1 = n.val % 32 ∧ Gen.Boost.leadMask n.val 2 = n.val % 16 ∧
    Gen.Boost.leadMask n.val 3 = n.val % 8 := by
  decide +kernel
theorem boost_isTrail_fin : ∀ n : Fin 256, Gen.Boost.isTrail n.val = decide (128 ≤ n.val ∧ n.val < 192) := by
  decide +kernel

theorem u32_small (n : Nat) (h : n < 4294967296) : u32 n = n := by unfold u32; omega

/-! ### the specification's tables, unfolded (all by `rfl`) and read as arithmetic -/

theorem utf8Char1 (a : Nat) : Spec.utf8Char [a] = decide (a ≤ 0x7F) := rfl
theorem utf8Char2 (a b : Nat) : Spec.utf8Char [a, b] = (decide (0xC2 ≤ a) && decide (a ≤ 0xDF) && Spec.tail b) := rfl
theorem utf8Char3 (a b c : Nat) : Spec.utf8Char [a, b, c] =
    (((a == 0xE0 && decide (0xA0 ≤ b) && decide (b ≤ 0xBF)) ||
     (decide (0xE1 ≤ a) && decide (a ≤ 0xEC) && Spec.tail b) ||
     (a == 0xED && decide (0x80 ≤ b) && decide (b ≤ 0x9F)) ||
     (decide (0xEE ≤ a) && decide (a ≤ 0xEF) && Spec.tail b)) && Spec.tail c) := rfl
theorem utf8Char4 (a b c d : Nat) : Spec.utf8Char [a, b, c, d] =
    (((a == 0xF0 && decide (0x90 ≤ b) && decide (b ≤ 0xBF)) ||
     (decide (0xF1 ≤ a) && decide (a ≤ 0xF3) && Spec.tail b) ||
     (a == 0xF4 && decide (0x80 ≤ b) && decide (b ≤ 0x8F))) && Spec.tail c && Spec.tail d) := rfl
theorem utf8Char0 : Spec.utf8Char [] = false := rfl
theorem utf8Char5 (a b c d e : Nat) (r : List Nat) : Spec.utf8Char (a :: b :: c :: d :: e :: r) = false := rfl
theorem scalarOf1 (a : Nat) : Spec.scalarOf [a] = a := rfl
theorem scalarOf2 (a b : Nat) : Spec.scalarOf [a, b] = (a - 0xC0) * 64 + (b - 0x80) := rfl
theorem scalarOf3 (a b c : Nat) : Spec.scalarOf [a, b, c] = (a - 0xE0) * 4096 + (b - 0x80) * 64 + (c - 0x80) := rfl
theorem scalarOf4 (a b c d : Nat) : Spec.scalarOf [a, b, c, d] =
    (a - 0xF0) * 262144 + (b - 0x80) * 4096 + (c - 0x80) * 64 + (d - 0x80) := rfl

/-- arithmetic reading of the ABNF rows -/
theorem utf8Char2_iff (a b : Nat) : Spec.utf8Char [a, b] = true ↔ 194 ≤ a ∧ a ≤ 223 ∧ 128 ≤ b ∧ b ≤ 191 := by
  rw [utf8Char2]; simp [Spec.tail]; omega
theorem utf8Char3_iff (a b c : Nat) : Spec.utf8Char [a, b, c] = true ↔
    ((a = 224 ∧ 160 ≤ b ∧ b ≤ 191) ∨ (225 ≤ a ∧ a ≤ 236 ∧ 128 ≤ b ∧ b ≤ 191) ∨ (a = 237 ∧ 128 ≤ b ∧ b ≤ 159) ∨
     (238 ≤ a ∧ a ≤ 239 ∧ 128 ≤ b ∧ b ≤ 191)) ∧ 128 ≤ c ∧ c ≤ 191 := by
  rw [utf8Char3]; simp [Spec.tail]; omega
theorem utf8Char4_iff (a b c d : Nat) : Spec.utf8Char [a, b, c, d] = true ↔
    ((a = 240 ∧ 144 ≤ b ∧ b ≤ 191) ∨ (241 ≤ a ∧ a ≤ 243 ∧ 128 ≤ b ∧ b ≤ 191) ∨ (a = 244 ∧ 128 ≤ b ∧ b ≤ 143)) ∧
    128 ≤ c ∧ c ≤ 191 ∧ 128 ≤ d ∧ d ≤ 191 := by
  rw [utf8Char4]; simp [Spec.tail]; omega

theorem lead_cases (n : Nat) : n < 128 ∨ ((128 ≤ n ∧ n < 194) ∨ 244 < n) ∨ (194 ≤ n ∧ n < 224) ∨
    (224 ≤ n ∧ n < 240) ∨ (240 ≤ n ∧ n ≤ 244) := by omega

theorem shortestLen_cases (c : Nat) :
    (c ≤ 127 ∧ Spec.shortestLen c = 1) ∨ (128 ≤ c ∧ c ≤ 2047 ∧ Spec.shortestLen c = 2) ∨
    (2048 ≤ c ∧ c ≤ 65535 ∧ Spec.shortestLen c = 3) ∨ (65536 ≤ c ∧ Spec.shortestLen c = 4) := by
  unfold Spec.shortestLen
  repeat' split
  all_goals omega

/-- final acceptance test after the trail bytes, in arithmetic -/
def accept (html : Bool) (ts c : Nat) : Prop :=
  c ≤ 0x10FFFF ∧ ¬ (0xD800 ≤ c ∧ c ≤ 0xDFFF) ∧ Spec.shortestLen c = ts + 1 ∧ Spec.modeOk html c = true
instance (html : Bool) (ts c : Nat) : Decidable (accept html ts c) := by unfold accept; infer_instance

namespace Cms

theorem trailLength_eq (a : UInt8) : Gen.Cms.trailLength a.toNat = leadClass a.toNat :=
  cms_trailLength_fin ⟨a.toNat, a.toNat_lt⟩

theorem leadMask_eq (a : UInt8) :
    Gen.Cms.leadMask a.toNat 1 = a.toNat % 32 ∧ Gen.Cms.leadMask a.toNat 2 = a.toNat % 16 ∧
    Gen.Cms.leadMask a.toNat 3 = a.toNat % 8 :=
  cms_leadMask_fin ⟨a.toNat, a.toNat_lt⟩

/-- one `case k:` arm in arithmetic (each of the three generated arms is unfolded separately) -/
theorem arm_eq (k c : Nat) (t : UInt8) (hk : k = 1 ∨ k = 2 ∨ k = 3) (hc : c < 65536) :
    arm k c t.toNat = if isTr t then some (c * 64 + t.toNat % 64) else none := by
  have ht := cms_isTrail_fin ⟨t.toNat, t.toNat_lt⟩
  simp only at ht
  have hu : u32 (c * 64 + t.toNat % 64) = c * 64 + t.toNat % 64 := by unfold u32; omega
  rcases hk with rfl | rfl | rfl <;>
    simp only [arm, Gen.Cms.bad1, Gen.Cms.bad2, Gen.Cms.bad3, Gen.Cms.push1, Gen.Cms.push2, Gen.Cms.push3,
      push_eq, ht, hu, isTr] <;>
    by_cases h : (128 ≤ t.toNat ∧ t.toNat < 192) <;> simp [h]

theorem invalidCp_eq (c : Nat) :
    Gen.Cms.invalidCp c = decide (c > 0x10FFFF ∨ (0xD800 ≤ c ∧ c ≤ 0xDFFF)) := by
  unfold Gen.Cms.invalidCp Gen.Cms.validCp
  by_cases h1 : c > 1114111 <;> by_cases h2 : 55296 ≤ c <;> by_cases h3 : c ≤ 57343 <;>
    simp [h1, h2, h3] <;> omega

theorem width_eq (c : Nat) : Gen.Cms.width c = Spec.shortestLen c := by
  unfold Gen.Cms.width Spec.shortestLen
  simp

theorem htmlMulti_eq (html : Bool) (c : Nat) (h : 128 ≤ c) :
    Gen.Cms.htmlMulti html c = !Spec.modeOk html c := by
  unfold Gen.Cms.htmlMulti Spec.modeOk Spec.htmlSafe Spec.isControl
  cases html <;> simp
  rw [Bool.eq_iff_iff]
  simp
  omega

theorem finish_eq (html : Bool) (ts c : Nat) (hts : 1 ≤ ts) :
    finish html ts c = if accept html ts c then .cp c else .illegal := by
  unfold finish accept
  rw [invalidCp_eq]
  unfold Gen.Cms.notShortest
  rw [width_eq]
  by_cases h1 : c > 1114111 ∨ (55296 ≤ c ∧ c ≤ 57343)
  · simp [h1]; intro; omega
  · by_cases h2 : Spec.shortestLen c = ts + 1
    · have h : 128 ≤ c := by
        unfold Spec.shortestLen at h2
        split at h2 <;> omega
      rw [htmlMulti_eq html c h]
      by_cases hm : Spec.modeOk html c = true
      · simp [h1, h2, hm]; omega
      · simp [h1, h2, hm]
    · simp [h1, h2]

/-! ## Part 2: `next` on each lead-byte class -/

theorem next_nil (html : Bool) : next html [] = (.illegal, []) := rfl

theorem next_ascii (html : Bool) (a : UInt8) (p : Bytes) (h : a.toNat < 128) :
    next html (a :: p) = (if Spec.modeOk html a.toNat then .cp a.toNat else .illegal, p) := by
  have hl : Gen.Cms.trailLength a.toNat = some 0 := by rw [trailLength_eq, leadClass_0 h]
  have ha := cms_asciiOk_fin html ⟨a.toNat, h⟩
  simp only at ha
  simp only [next, hl, ha]

theorem next_badLead (html : Bool) (a : UInt8) (p : Bytes) (h : (128 ≤ a.toNat ∧ a.toNat < 194) ∨ 244 < a.toNat) :
    next html (a :: p) = (.illegal, p) := by
  have hl : Gen.Cms.trailLength a.toNat = none := by rw [trailLength_eq, leadClass_bad h]
  simp only [next, hl]

theorem next_lead2 (html : Bool) (a : UInt8) (p : Bytes) (h : 194 ≤ a.toNat ∧ a.toNat < 224) :
    next html (a :: p) =
      match p with
      | [] => (.illegal, [])
      | b :: p1 =>
        if isTr b then
          (if accept html 1 (a.toNat % 32 * 64 + b.toNat % 64) then .cp (a.toNat % 32 * 64 + b.toNat % 64) else .illegal, p1)
        else (.illegal, p1) := by
  have hl : Gen.Cms.trailLength a.toNat = some 1 := by rw [trailLength_eq, leadClass_1 h]
  have hm := (leadMask_eq a).1
  have hu : u32 (a.toNat % 32) = a.toNat % 32 := u32_small _ (by omega)
  cases p with
  | nil => simp only [next, hl, hm, hu, trails]
  | cons b p1 =>
    simp only [next, hl, hm, hu, trails]
    rw [arm_eq 1 _ b (by simp) (by omega)]
    by_cases hb : isTr b
    · simp only [hb, if_true]
      rw [finish_eq _ _ _ (by omega)]
    · simp only [hb, if_false]

theorem next_lead3 (html : Bool) (a : UInt8) (p : Bytes) (h : 224 ≤ a.toNat ∧ a.toNat < 240) :
    next html (a :: p) =
      match p with
      | [] => (.illegal, [])
      | [_] => (.illegal, [])
      | b :: c :: p2 =>
        if isTr b then
          if isTr c then
            (if accept html 2 ((a.toNat % 16 * 64 + b.toNat % 64) * 64 + c.toNat % 64)
              then .cp ((a.toNat % 16 * 64 + b.toNat % 64) * 64 + c.toNat % 64) else .illegal, p2)
          else (.illegal, p2)
        else (.illegal, c :: p2) := by
  have hl : Gen.Cms.trailLength a.toNat = some 2 := by rw [trailLength_eq, leadClass_2 h]
  have hm := (leadMask_eq a).2.1
  have hu : u32 (a.toNat % 16) = a.toNat % 16 := u32_small _ (by omega)
  match p with
  | [] => simp only [next, hl, trails]
  | [b] =>
    simp only [next, hl, hm, hu, trails]
    rw [arm_eq 2 _ b (by simp) (by omega)]
    by_cases hb : isTr b <;> simp only [hb, if_true, if_false, trails]
  | b :: c :: p2 =>
    simp only [next, hl, hm, hu, trails]
    rw [arm_eq 2 _ b (by simp) (by omega)]
    by_cases hb : isTr b
    · simp only [hb, if_true, trails]
      rw [arm_eq 1 _ c (by simp) (by omega)]
      by_cases hc : isTr c
      · simp only [hc, if_true, trails]
        rw [finish_eq _ _ _ (by omega)]
      · simp only [hc, if_false]
    · simp only [hb, if_false]

theorem next_lead4 (html : Bool) (a : UInt8) (p : Bytes) (h : 240 ≤ a.toNat ∧ a.toNat ≤ 244) :
    next html (a :: p) =
      match p with
      | [] => (.illegal, [])
      | [_] => (.illegal, [])
      | [b, c] => if isTr b then (.illegal, []) else (.illegal, [c])
      | b :: c :: d :: p3 =>
        if isTr b then
          if isTr c then
            if isTr d then
              (if accept html 3 (((a.toNat % 8 * 64 + b.toNat % 64) * 64 + c.toNat % 64) * 64 + d.toNat % 64)
                then .cp (((a.toNat % 8 * 64 + b.toNat % 64) * 64 + c.toNat % 64) * 64 + d.toNat % 64)
                else .illegal, p3)
            else (.illegal, p3)
          else (.illegal, d :: p3)
        else (.illegal, c :: d :: p3) := by
  have hl : Gen.Cms.trailLength a.toNat = some 3 := by rw [trailLength_eq, leadClass_3 h]
  have hm := (leadMask_eq a).2.2
  have hu : u32 (a.toNat % 8) = a.toNat % 8 := u32_small _ (by omega)
  match p with
  | [] => simp only [next, hl, trails]
  | [b] =>
    simp only [next, hl, hm, hu, trails]
    rw [arm_eq 3 _ b (by simp) (by omega)]
    by_cases hb : isTr b <;> simp only [hb, if_true, if_false, trails]
  | [b, c] =>
    simp only [next, hl, hm, hu, trails]
    rw [arm_eq 3 _ b (by simp) (by omega)]
    by_cases hb : isTr b
    · simp only [hb, if_true, trails]
      rw [arm_eq 2 _ c (by simp) (by omega)]
      by_cases hc : isTr c <;> simp only [hc, if_true, if_false, trails]
    · simp only [hb, if_false]
  | b :: c :: d :: p3 =>
    simp only [next, hl, hm, hu, trails]
    rw [arm_eq 3 _ b (by simp) (by omega)]
    by_cases hb : isTr b
    · simp only [hb, if_true, trails]
      rw [arm_eq 2 _ c (by simp) (by omega)]
      by_cases hc : isTr c
      · simp only [hc, if_true, trails]
        rw [arm_eq 1 _ d (by simp) (by omega)]
        by_cases hd : isTr d
        · simp only [hd, if_true, trails]
          rw [finish_eq _ _ _ (by omega)]
        · simp only [hd, if_false]
      · simp only [hc, if_false]
    · simp only [hb, if_false]

theorem next_cp_sound (html : Bool) (bs rest : Bytes) (v : Nat) (h : next html bs = (.cp v, rest)) :
    ∃ enc, bs = enc ++ rest ∧ Spec.Rfc3629 v enc ∧ Spec.modeOk html v = true := by
  match bs with
  | [] => cases h
  | a :: p =>
    have ha := a.toNat_lt
    rcases lead_cases a.toNat with h0 | hb | h2 | h3 | h4
    · rw [next_ascii html a p h0] at h
      by_cases hm : Spec.modeOk html a.toNat = true
      · rw [if_pos hm] at h
        cases h
        refine ⟨[a], rfl, ⟨?_, rfl⟩, hm⟩
        show Spec.utf8Char [a.toNat] = true
        rw [utf8Char1]; simp; omega
      · rw [if_neg hm] at h
        cases h
    · rw [next_badLead html a p hb] at h
      cases h
    · rw [next_lead2 html a p h2] at h
      match p with
      | [] => cases h
      | b :: p1 =>
        simp only at h
        by_cases hb : isTr b
        · rw [if_pos hb] at h
          by_cases hacc : accept html 1 (a.toNat % 32 * 64 + b.toNat % 64)
          · rw [if_pos hacc] at h
            cases h
            obtain ⟨h1, h2', h3, h4⟩ := hacc
            unfold isTr at hb
            refine ⟨[a, b], rfl, ⟨?_, ?_⟩, h4⟩
            · show Spec.utf8Char [a.toNat, b.toNat] = true
              rw [utf8Char2_iff]; omega
            · show _ = Spec.scalarOf [a.toNat, b.toNat]
              rw [scalarOf2]; omega
          · rw [if_neg hacc] at h
            cases h
        · rw [if_neg hb] at h
          cases h
    · rw [next_lead3 html a p h3] at h
      match p with
      | [] => cases h
      | [_] => cases h
      | b :: c :: p2 =>
        simp only at h
        by_cases hb : isTr b
        · rw [if_pos hb] at h
          by_cases hc : isTr c
          · rw [if_pos hc] at h
            by_cases hacc : accept html 2 ((a.toNat % 16 * 64 + b.toNat % 64) * 64 + c.toNat % 64)
            · rw [if_pos hacc] at h
              cases h
              obtain ⟨h1, h2', h3', h4⟩ := hacc
              unfold isTr at hb hc
              have hs := shortestLen_cases ((a.toNat % 16 * 64 + b.toNat % 64) * 64 + c.toNat % 64)
              refine ⟨[a, b, c], rfl, ⟨?_, ?_⟩, h4⟩
              · show Spec.utf8Char [a.toNat, b.toNat, c.toNat] = true
                rw [utf8Char3_iff]; omega
              · show _ = Spec.scalarOf [a.toNat, b.toNat, c.toNat]
                rw [scalarOf3]; omega
            · rw [if_neg hacc] at h
              cases h
          · rw [if_neg hc] at h
            cases h
        · rw [if_neg hb] at h
          cases h
    · rw [next_lead4 html a p h4] at h
      match p with
      | [] => cases h
      | [_] => cases h
      | [b, c] =>
        simp only at h
        by_cases hb : isTr b
        · rw [if_pos hb] at h; cases h
        · rw [if_neg hb] at h; cases h
      | b :: c :: d :: p3 =>
        simp only at h
        by_cases hb : isTr b
        · rw [if_pos hb] at h
          by_cases hc : isTr c
          · rw [if_pos hc] at h
            by_cases hd : isTr d
            · rw [if_pos hd] at h
              by_cases hacc : accept html 3 (((a.toNat % 8 * 64 + b.toNat % 64) * 64 + c.toNat % 64) * 64 + d.toNat % 64)
              · rw [if_pos hacc] at h
                cases h
                obtain ⟨h1, h2', h3', h4'⟩ := hacc
                unfold isTr at hb hc hd
                have hs := shortestLen_cases (((a.toNat % 8 * 64 + b.toNat % 64) * 64 + c.toNat % 64) * 64 + d.toNat % 64)
                refine ⟨[a, b, c, d], rfl, ⟨?_, ?_⟩, h4'⟩
                · show Spec.utf8Char [a.toNat, b.toNat, c.toNat, d.toNat] = true
                  rw [utf8Char4_iff]; omega
                · show _ = Spec.scalarOf [a.toNat, b.toNat, c.toNat, d.toNat]
                  rw [scalarOf4]; omega
              · rw [if_neg hacc] at h
                cases h
            · rw [if_neg hd] at h
              cases h
          · rw [if_neg hc] at h
            cases h
        · rw [if_neg hb] at h
          cases h

set_option maxRecDepth 4000 in
theorem next_cp_complete (html : Bool) (enc rest : Bytes) (v : Nat)
    (hr : Spec.Rfc3629 v enc) (hm : Spec.modeOk html v = true) :
    next html (enc ++ rest) = (.cp v, rest) := by
  obtain ⟨hu, hv⟩ := hr
  match enc with
  | [] => cases hu
  | [a] =>
    have hu' : Spec.utf8Char [a.toNat] = true := hu
    have hv' : v = Spec.scalarOf [a.toNat] := hv
    rw [utf8Char1] at hu'
    rw [scalarOf1] at hv'
    subst hv'
    have h0 : a.toNat < 128 := by simp at hu'; omega
    show next html (a :: rest) = _
    rw [next_ascii html a rest h0, if_pos hm]
  | [a, b] =>
    have hu' : Spec.utf8Char [a.toNat, b.toNat] = true := hu
    have hv' : v = Spec.scalarOf [a.toNat, b.toNat] := hv
    rw [utf8Char2_iff] at hu'
    rw [scalarOf2] at hv'
    show next html (a :: b :: rest) = _
    rw [next_lead2 html a _ (by omega)]
    have hb : isTr b := by unfold isTr; omega
    have he : a.toNat % 32 * 64 + b.toNat % 64 = v := by omega
    have hs := shortestLen_cases v
    have hacc : accept html 1 v := ⟨by omega, by omega, by omega, hm⟩
    simp only
    rw [if_pos hb, he, if_pos hacc]
  | [a, b, c] =>
    have hu' : Spec.utf8Char [a.toNat, b.toNat, c.toNat] = true := hu
    have hv' : v = Spec.scalarOf [a.toNat, b.toNat, c.toNat] := hv
    rw [utf8Char3_iff] at hu'
    rw [scalarOf3] at hv'
    show next html (a :: b :: c :: rest) = _
    rw [next_lead3 html a _ (by omega)]
    have hb : isTr b := by unfold isTr; omega
    have hc : isTr c := by unfold isTr; omega
    have he : (a.toNat % 16 * 64 + b.toNat % 64) * 64 + c.toNat % 64 = v := by omega
    have hs := shortestLen_cases v
    have hacc : accept html 2 v := ⟨by omega, by omega, by omega, hm⟩
    simp only
    rw [if_pos hb, if_pos hc, he, if_pos hacc]
  | [a, b, c, d] =>
    have hu' : Spec.utf8Char [a.toNat, b.toNat, c.toNat, d.toNat] = true := hu
    have hv' : v = Spec.scalarOf [a.toNat, b.toNat, c.toNat, d.toNat] := hv
    rw [utf8Char4_iff] at hu'
    rw [scalarOf4] at hv'
    show next html (a :: b :: c :: d :: rest) = _
    rw [next_lead4 html a _ (by omega)]
    have hb : isTr b := by unfold isTr; omega
    have hc : isTr c := by unfold isTr; omega
    have hd : isTr d := by unfold isTr; omega
    have he : ((a.toNat % 8 * 64 + b.toNat % 64) * 64 + c.toNat % 64) * 64 + d.toNat % 64 = v := by omega
    have hs := shortestLen_cases v
    have hacc : accept html 3 v := ⟨by omega, by omega, by omega, hm⟩
    simp only
    rw [if_pos hb, if_pos hc, if_pos hd, he, if_pos hacc]
  | _ :: _ :: _ :: _ :: _ :: _ => cases hu

end Cms

namespace Boost

theorem trailLength_eq (a : UInt8) : Gen.Boost.trailLength a.toNat = leadClass a.toNat :=
  boost_trailLength_fin ⟨a.toNat, a.toNat_lt⟩

theorem leadMask_eq (a : UInt8) :
    Gen.Boost.leadMask a.toNat 1 = a.toNat % 32 ∧ Gen.Boost.leadMask a.toNat 2 = a.toNat % 16 ∧
    Gen.Boost.leadMask a.toNat 3 = a.toNat % 8 :=
  boost_leadMask_fin ⟨a.toNat, a.toNat_lt⟩

theorem arm_eq (k c : Nat) (t : UInt8) (hk : k = 1 ∨ k = 2 ∨ k = 3) (hc : c < 65536) :
    arm k c t.toNat = if isTr t then some (c * 64 + t.toNat % 64) else none := by
  have ht := boost_isTrail_fin ⟨t.toNat, t.toNat_lt⟩
  simp only at ht
  have hu : u32 (c * 64 + t.toNat % 64) = c * 64 + t.toNat % 64 := by unfold u32; omega
  rcases hk with rfl | rfl | rfl <;>
    simp only [arm, Gen.Boost.bad1, Gen.Boost.bad2, Gen.Boost.bad3, Gen.Boost.push1, Gen.Boost.push2,
      Gen.Boost.push3, push_eq, ht, hu, isTr] <;>
    by_cases h : (128 ≤ t.toNat ∧ t.toNat < 192) <;> simp [h]

theorem invalidCp_eq (c : Nat) :
    Gen.Boost.invalidCp c = decide (c > 0x10FFFF ∨ (0xD800 ≤ c ∧ c ≤ 0xDFFF)) := by
  unfold Gen.Boost.invalidCp Gen.Boost.validCp
  by_cases h1 : c > 1114111 <;> by_cases h2 : 55296 ≤ c <;> by_cases h3 : c ≤ 57343 <;>
    simp [h1, h2, h3] <;> omega

theorem width_eq (c : Nat) : Gen.Boost.width c = Spec.shortestLen c := by
  unfold Gen.Boost.width Spec.shortestLen
  simp

theorem finish_eq (ts c : Nat) :
    finish ts c = if accept false ts c then .cp c else .illegal := by
  unfold finish accept
  rw [invalidCp_eq]
  unfold Gen.Boost.notShortest
  rw [width_eq]
  have hm : Spec.modeOk false c = true := rfl
  by_cases h1 : c > 1114111 ∨ (55296 ≤ c ∧ c ≤ 57343)
  · simp [h1]; intro; omega
  · by_cases h2 : Spec.shortestLen c = ts + 1
    · simp [h1, h2, hm]; omega
    · simp [h1, h2]

theorem decode_nil : decode [] = (.incomplete, []) := rfl

theorem decode_ascii (a : UInt8) (p : Bytes) (h : a.toNat < 128) :
    decode (a :: p) = (.cp a.toNat, p) := by
  have hl : Gen.Boost.trailLength a.toNat = some 0 := by rw [trailLength_eq, leadClass_0 h]
  simp only [decode, hl]

theorem decode_badLead (a : UInt8) (p : Bytes) (h : (128 ≤ a.toNat ∧ a.toNat < 194) ∨ 244 < a.toNat) :
    decode (a :: p) = (.illegal, p) := by
  have hl : Gen.Boost.trailLength a.toNat = none := by rw [trailLength_eq, leadClass_bad h]
  simp only [decode, hl]

theorem decode_lead2 (a : UInt8) (p : Bytes) (h : 194 ≤ a.toNat ∧ a.toNat < 224) :
    decode (a :: p) =
      match p with
      | [] => (.incomplete, [])
      | b :: p1 =>
        if isTr b then
          (if accept false 1 (a.toNat % 32 * 64 + b.toNat % 64) then .cp (a.toNat % 32 * 64 + b.toNat % 64) else .illegal, p1)
        else (.illegal, p1) := by
  have hl : Gen.Boost.trailLength a.toNat = some 1 := by rw [trailLength_eq, leadClass_1 h]
  have hm := (leadMask_eq a).1
  have hu : u32 (a.toNat % 32) = a.toNat % 32 := u32_small _ (by omega)
  cases p with
  | nil => simp only [decode, hl, hm, hu, trails]
  | cons b p1 =>
    simp only [decode, hl, hm, hu, trails]
    rw [arm_eq 1 _ b (by simp) (by omega)]
    by_cases hb : isTr b
    · simp only [hb, if_true, trails]
      rw [finish_eq]
    · simp only [hb, if_false]

theorem decode_lead3 (a : UInt8) (p : Bytes) (h : 224 ≤ a.toNat ∧ a.toNat < 240) :
    decode (a :: p) =
      match p with
      | [] => (.incomplete, [])
      | [b] => if isTr b then (.incomplete, []) else (.illegal, [])
      | b :: c :: p2 =>
        if isTr b then
          if isTr c then
            (if accept false 2 ((a.toNat % 16 * 64 + b.toNat % 64) * 64 + c.toNat % 64)
              then .cp ((a.toNat % 16 * 64 + b.toNat % 64) * 64 + c.toNat % 64) else .illegal, p2)
          else (.illegal, p2)
        else (.illegal, c :: p2) := by
  have hl : Gen.Boost.trailLength a.toNat = some 2 := by rw [trailLength_eq, leadClass_2 h]
  have hm := (leadMask_eq a).2.1
  have hu : u32 (a.toNat % 16) = a.toNat % 16 := u32_small _ (by omega)
  match p with
  | [] => simp only [decode, hl, trails]
  | [b] =>
    simp only [decode, hl, hm, hu, trails]
    rw [arm_eq 2 _ b (by simp) (by omega)]
    by_cases hb : isTr b <;> simp only [hb, if_true, if_false, trails]
  | b :: c :: p2 =>
    simp only [decode, hl, hm, hu, trails]
    rw [arm_eq 2 _ b (by simp) (by omega)]
    by_cases hb : isTr b
    · simp only [hb, if_true, trails]
      rw [arm_eq 1 _ c (by simp) (by omega)]
      by_cases hc : isTr c
      · simp only [hc, if_true, trails]
        rw [finish_eq]
      · simp only [hc, if_false]
    · simp only [hb, if_false]

theorem decode_lead4 (a : UInt8) (p : Bytes) (h : 240 ≤ a.toNat ∧ a.toNat ≤ 244) :
    decode (a :: p) =
      match p with
      | [] => (.incomplete, [])
      | [b] => if isTr b then (.incomplete, []) else (.illegal, [])
      | [b, c] => if isTr b then (if isTr c then (.incomplete, []) else (.illegal, [])) else (.illegal, [c])
      | b :: c :: d :: p3 =>
        if isTr b then
          if isTr c then
            if isTr d then
              (if accept false 3 (((a.toNat % 8 * 64 + b.toNat % 64) * 64 + c.toNat % 64) * 64 + d.toNat % 64)
                then .cp (((a.toNat % 8 * 64 + b.toNat % 64) * 64 + c.toNat % 64) * 64 + d.toNat % 64)
                else .illegal, p3)
            else (.illegal, p3)
          else (.illegal, d :: p3)
        else (.illegal, c :: d :: p3) := by
  have hl : Gen.Boost.trailLength a.toNat = some 3 := by rw [trailLength_eq, leadClass_3 h]
  have hm := (leadMask_eq a).2.2
  have hu : u32 (a.toNat % 8) = a.toNat % 8 := u32_small _ (by omega)
  match p with
  | [] => simp only [decode, hl, trails]
  | [b] =>
    simp only [decode, hl, hm, hu, trails]
    rw [arm_eq 3 _ b (by simp) (by omega)]
    by_cases hb : isTr b <;> simp only [hb, if_true, if_false, trails]
  | [b, c] =>
    simp only [decode, hl, hm, hu, trails]
    rw [arm_eq 3 _ b (by simp) (by omega)]
    by_cases hb : isTr b
    · simp only [hb, if_true, trails]
      rw [arm_eq 2 _ c (by simp) (by omega)]
      by_cases hc : isTr c <;> simp only [hc, if_true, if_false, trails]
    · simp only [hb, if_false]
  | b :: c :: d :: p3 =>
    simp only [decode, hl, hm, hu, trails]
    rw [arm_eq 3 _ b (by simp) (by omega)]
    by_cases hb : isTr b
    · simp only [hb, if_true, trails]
      rw [arm_eq 2 _ c (by simp) (by omega)]
      by_cases hc : isTr c
      · simp only [hc, if_true, trails]
        rw [arm_eq 1 _ d (by simp) (by omega)]
        by_cases hd : isTr d
        · simp only [hd, if_true, trails]
          rw [finish_eq]
        · simp only [hd, if_false]
      · simp only [hc, if_false]
    · simp only [hb, if_false]

end Boost

/-- booster's two failure codes seen through cppcms's single one -/
def collapse : Out → Out
  | .incomplete => .illegal
  | o => o

/-- the two decoders compute the same function (value and iterator position), except that
booster reports a truncated sequence as `incomplete` where cppcms says `illegal` -/
theorem next_eq_collapse_decode (bs : Bytes) :
    Cms.next false bs = (collapse (Boost.decode bs).1, (Boost.decode bs).2) := by
  match bs with
  | [] => rfl
  | a :: p =>
    rcases lead_cases a.toNat with h0 | hb | h2 | h3 | h4
    · rw [Cms.next_ascii false a p h0, Boost.decode_ascii a p h0]; rfl
    · rw [Cms.next_badLead false a p hb, Boost.decode_badLead a p hb]; rfl
    · rw [Cms.next_lead2 false a p h2, Boost.decode_lead2 a p h2]
      match p with
      | [] => rfl
      | b :: p1 =>
        simp only
        by_cases hb : isTr b
        · simp only [hb, if_true]
          by_cases hacc : accept false 1 (a.toNat % 32 * 64 + b.toNat % 64) <;> simp only [hacc, if_true, if_false] <;> rfl
        · simp only [hb, if_false]; rfl
    · rw [Cms.next_lead3 false a p h3, Boost.decode_lead3 a p h3]
      match p with
      | [] => rfl
      | [b] => simp only; by_cases hb : isTr b <;> simp only [hb, if_true, if_false] <;> rfl
      | b :: c :: p2 =>
        simp only
        by_cases hb : isTr b
        · simp only [hb, if_true]
          by_cases hc : isTr c
          · simp only [hc, if_true]
            by_cases hacc : accept false 2 ((a.toNat % 16 * 64 + b.toNat % 64) * 64 + c.toNat % 64) <;>
              simp only [hacc, if_true, if_false] <;> rfl
          · simp only [hc, if_false]; rfl
        · simp only [hb, if_false]; rfl
    · rw [Cms.next_lead4 false a p h4, Boost.decode_lead4 a p h4]
      match p with
      | [] => rfl
      | [b] => simp only; by_cases hb : isTr b <;> simp only [hb, if_true, if_false] <;> rfl
      | [b, c] =>
        simp only
        by_cases hb : isTr b
        · simp only [hb, if_true]
          by_cases hc : isTr c <;> simp only [hc, if_true, if_false] <;> rfl
        · simp only [hb, if_false]; rfl
      | b :: c :: d :: p3 =>
        simp only
        by_cases hb : isTr b
        · simp only [hb, if_true]
          by_cases hc : isTr c
          · simp only [hc, if_true]
            by_cases hd : isTr d
            · simp only [hd, if_true]
              by_cases hacc : accept false 3 (((a.toNat % 8 * 64 + b.toNat % 64) * 64 + c.toNat % 64) * 64 + d.toNat % 64) <;>
                simp only [hacc, if_true, if_false] <;> rfl
            · simp only [hd, if_false]; rfl
          · simp only [hc, if_false]; rfl
        · simp only [hb, if_false]; rfl

end Cppcms.C14
