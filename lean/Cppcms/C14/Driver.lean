import Cppcms.Common
import Cppcms.C14.Model
import Cppcms.C14.Spec
/-! Line-protocol driver for C14.  Plain lines evaluate the model; `J` lines evaluate the
property predicate (definitions of `Spec.lean` only) on an output produced by the implementation. -/
open Cppcms Cppcms.C14

def outStr : Out → String
  | .cp v => toString v
  | .illegal => "ill"
  | .incomplete => "inc"

def outCode : Out → UInt64
  | .cp v => v.toUInt64
  | .illegal => 0xFFFFFFFF
  | .incomplete => 0xFFFFFFFE

/-- which decoder / mode: `c0` cppcms next html=false, `c1` html=true, `b` booster decode -/
def runDec (which : String) (bs : Bytes) : Out × Bytes :=
  if which == "c0" then Cms.next false bs
  else if which == "c1" then Cms.next true bs
  else Boost.decode bs

def stepStr (which : String) (bs : Bytes) : String :=
  let r := runDec which bs
  s!"{outStr r.1} {bs.length - r.2.length}"

@[inline] def mix (h x : UInt64) : UInt64 := (h ^^^ x) * 1099511628211

/-- digests: `h1` over (value, consumed) of every result, `h2` over accepted results only
(value and length; every rejection counts the same) — the latter is what `Spec` can predict -/
structure Dig where
  h1 : UInt64
  h2 : UInt64

@[inline] def stepDig (f : Bytes → Out × Bytes) (bs : Bytes) (len : Nat) (d : Dig) : Dig :=
  let r := f bs
  let cons := (len - r.2.length).toUInt64
  let x1 := outCode r.1 * 8 + cons
  let x2 := match r.1 with | .cp _ => x1 | _ => 0xFFFFFFFF * 8
  ⟨mix d.h1 x1, mix d.h2 x2⟩

def decoderOf (which : String) : Bytes → Out × Bytes :=
  if which == "c0" then Cms.next false
  else if which == "c1" then Cms.next true
  else Boost.decode

/-- the specification as a decoder: first `UTF8-char` of the ABNF, its scalar value, mode test.
Rejections carry no position (the RFC does not define one). -/
def specDecoder (html : Bool) (bs : Bytes) : Out × Bytes :=
  match Spec.firstChar (Spec.nats bs) with
  | some (cp, len) => if Spec.modeOk html cp then (.cp cp, bs.drop len) else (.illegal, bs)
  | none => (.illegal, bs)

def loop1 (f : Bytes → Out × Bytes) (pre : Bytes → Bytes) (len : Nat) : Nat → UInt8 → Dig → Dig
  | 0, _, h => h
  | n + 1, b, h => loop1 f pre len n (b + 1) (stepDig f (pre [b]) len h)

def loop2 (f : Bytes → Out × Bytes) (pre : Bytes → Bytes) (len : Nat) : Nat → UInt8 → Dig → Dig
  | 0, _, h => h
  | n + 1, a, h => loop2 f pre len n (a + 1) (loop1 f (fun t => pre (a :: t)) len 256 0 h)

/-- digest over all `256^k` continuations of `pre` (k = 1 or 2), in lexicographic order -/
def digest (f : Bytes → Out × Bytes) (pre : Bytes) (k : Nat) : Dig :=
  let d0 : Dig := ⟨14695981039346656037, 14695981039346656037⟩
  if k == 1 then loop1 f (fun t => pre ++ t) (pre.length + 1) 256 0 d0
  else loop2 f (fun t => pre ++ t) (pre.length + 2) 256 0 d0

def fullBlock (which : String) (pre : Bytes) : String :=
  String.intercalate "," ((List.range 65536).map fun i =>
    stepStr which (pre ++ [UInt8.ofNat (i / 256), UInt8.ofNat (i % 256)]))

def verdictStr : Verdict → String
  | .ok v n => s!"{boolStr v} {n}"
  | .external => "ext"

def filtStr : FilterVerdict → String
  | .done v none => s!"{boolStr v} same"
  | .done v (some o) => s!"{boolStr v} {toHex o}"
  | .external => "ext"

def nm (b : Bytes) : List Nat := b.map (·.toNat)

def bits (l : List Bool) : String := String.ofList (l.map fun b => if b then '1' else '0')

/-- judge of one decoder step against RFC 3629 (Spec only) -/
def judgeStep (html booster : Bool) (bs : Bytes) (val : String) (cons : Nat) : Bool :=
  let ns := Spec.nats bs
  match val.toNat? with
  | some cp => decide (Spec.Rfc3629 cp (bs.take cons)) && Spec.modeOk html cp && cons ≤ bs.length
  | none =>
    match Spec.firstChar ns with
    | none =>
      -- booster: `inc` iff the input is a proper prefix of some well-formed character's shape is not
      -- demanded by the property; only that no value is returned
      val == "ill" || (booster && val == "inc")
    | some (cp, _) => val == "ill" && !Spec.modeOk html cp

def cpsStr (l : List Nat) : String := if l.isEmpty then "-" else String.intercalate "," (l.map toString)
def parseCps (s : String) : Option (List Nat) :=
  if s == "-" then some [] else (s.splitOn ",").mapM (·.toNat?)

/-- judge of `utf_to_utf<char>(char…)`: `out` = "throw" or hex.  Spec only. -/
def judgeU2U (how : String) (s : Bytes) (out : String) : Bool :=
  let wf := (Spec.wellFormedCount false s).isSome
  if out == "throw" then how == "1" && !wf
  else match parseHex out with
    | none => false
    | some o => (Spec.wellFormedCount false o).isSome && (!wf || o == s) && (how != "1" || wf)

def scalarB (c : Nat) : Bool := c ≤ 0x10FFFF && !(0xD800 ≤ c && c ≤ 0xDFFF)

/-! ### text widget scenarios: `form op op …` -/

def encOf (e : String) : List Nat :=
  if e == "u" then [117, 116, 102, 45, 56] else [105, 115, 111, 56, 56, 53, 57, 45, 49]   -- "utf-8" / "iso8859-1"

def parseInt (s : String) : Option Int :=
  if s.startsWith "-" then (s.drop 1).toNat?.map (fun n => -(n : Int)) else s.toNat?.map (fun n => (n : Int))

def parseFormOp (w : String) : Option Form.Op :=
  match w.splitOn ":" with
  | ["nm1"] => some (.name true)
  | ["nm0"] => some (.name false)
  | ["ne"] => some .nonEmpty
  | ["vc1"] => some (.validateCharset true)
  | ["vc0"] => some (.validateCharset false)
  | ["cl"] => some .clear
  | ["va"] => some .validate
  | ["lim", a, b] => match parseInt a, parseInt b with
    | some a, some b => some (.limits a b) | _, _ => none
  | ["sv", h] => (parseHex h).map .setValue
  | ["ld", e, h] => (parseHex h).map fun v => .load ⟨encOf e, some v⟩
  | ["la", e] => some (.load ⟨encOf e, none⟩)
  | _ => none

def runForm (ops : List String) : String :=
  let rec go (st : Form.St) (ops : List String) (acc : List String) : List String :=
    match ops with
    | [] => acc.reverse
    | w :: rest =>
      match parseFormOp w with
      | none => ["bad-op"]
      | some op =>
        match op with
        | .validate =>
          let r := Form.validate st
          go r.2 rest (s!"V{boolStr r.1}{boolStr r.2.isValid}" :: acc)
        | .load rq =>
          let st' := Form.load st rq
          if st'.external then ["ext"]
          else go st' rest (s!"L{boolStr st'.isValid}{boolStr st'.isSet}:{toHex st'.value}" :: acc)
        | _ => go (Form.apply st op) rest acc
  let toks := go (Form.init 0) ops []
  if toks.isEmpty then "-" else String.intercalate " " toks

/-- judge (Spec only): every `va` that directly follows a load (configuration changes in between
allowed) must report what the *just loaded* field implies: absent / unnamed = 0 characters,
charset validation on (UTF-8 locale) = number of code points of HTML-safe well-formed text,
off = number of bytes; compared with the limits in force. -/
structure JF where
  low : Int := 0
  high : Int := -1
  vc : Bool := true
  named : Bool := false
  expect : Option (Option Nat) := none     -- some (some n): loaded n characters; some none: invalid text; none: not judgeable now
def judgeForm (ops toks : List String) : Bool :=
  let rec go (j : JF) (ops toks : List String) : Bool :=
    match ops with
    | [] => true
    | w :: rest =>
      match w.splitOn ":" with
      | ["nm1"] => go { j with named := true, expect := none } rest toks
      | ["nm0"] => go { j with named := false, expect := none } rest toks
      | ["ne"] => go { j with low := 1, high := -1 } rest toks
      | ["vc1"] => go { j with vc := true, expect := none } rest toks
      | ["vc0"] => go { j with vc := false, expect := none } rest toks
      | ["cl"] => go { j with expect := none } rest toks
      | ["sv", _] => go { j with expect := none } rest toks
      | ["lim", a, b] => (match parseInt a, parseInt b with
        | some a, some b => go { j with low := a, high := b } rest toks
        | _, _ => false)
      | ["la", _] => go { j with expect := some (some 0) } rest (toks.drop 1)
      | ["ld", e, h] => (match parseHex h with
        | none => false
        | some v =>
          let ex : Option (Option Nat) :=
            if !j.named then some (some 0)
            else if !j.vc then some (some v.length)
            else if e == "u" then some (Spec.wellFormedCount true v)
            else none
          go { j with expect := ex } rest (toks.drop 1))
      | ["va"] => (match toks with
        | [] => false
        | t :: toks' =>
          let ok := match j.expect with
            | none => true
            | some cnt =>
              if j.low < 0 then true
              else
                let want := match cnt with | none => false | some n => Spec.withinLimits j.low j.high n
                (t.take 2).toString == (if want then "V1" else "V0")
          ok && go { j with expect := none } rest toks')
      | _ => false
  go {} ops toks

def step (_ : Unit) (line : String) : Unit × String :=
  let r : String :=
    match words line with
    | ["d", which, h] => match parseHex h with
      | some s => stepStr which s | none => "bad-op"
    | ["blk1", which, h] => match parseHex h with
      | some s => let d := digest (decoderOf which) s 1; s!"{d.h1} {d.h2}" | none => "bad-op"
    | ["blk2", which, h] => match parseHex h with
      | some s => let d := digest (decoderOf which) s 2; s!"{d.h1} {d.h2}" | none => "bad-op"
    -- the same digests predicted from `Spec` alone (only the second one is meaningful)
    | ["J", "blk1", which, h] => match parseHex h with
      | some s => toString (digest (specDecoder (which == "c1")) s 1).h2 | none => "bad-op"
    | ["J", "blk2", which, h] => match parseHex h with
      | some s => toString (digest (specDecoder (which == "c1")) s 2).h2 | none => "bad-op"
    | ["full2", which, h] => match parseHex h with
      | some s => fullBlock which s | none => "bad-op"
    | ["v", html, h] => match parseHex h with
      | some s => let r := validate (html == "1") s 0; s!"{boolStr r.1} {r.2}" | none => "bad-op"
    | ["vu", h] => match parseHex h with
      | some s => let r := validUtf8 s 0; s!"{boolStr r.1} {r.2}" | none => "bad-op"
    | ["valid", n, h] | ["vloc", n, h] => match parseHex n, parseHex h with
      | some n, some s => verdictStr (valid (nm n) s) | _, _ => "bad-op"
    | ["filt", n, rp, h] => match parseHex n, parseHex rp, parseHex h with
      | some n, some [rp], some s => filtStr (validateOrFilter (nm n) s rp) | _, _, _ => "bad-op"
    | ["sb256", n] => match parseHex n with
      | some n => let t := getTester (nm n)
                  bits ((List.range 256).map fun c => match validWith t [UInt8.ofNat c] with | .ok v _ => v | _ => false)
      | none => "bad-op"
    | ["sbpair", n, a] => match parseHex n, parseHex a with
      | some n, some [a] => let t := getTester (nm n)
                            String.intercalate "" ((List.range 256).map fun c =>
          match validWith t [a, UInt8.ofNat c] with | .ok v k => s!"{boolStr v}{k}" | _ => "x")
      | _, _ => "bad-op"
    | ["known", n] => match parseHex n with
      | some n => (match getTester (nm n) with | none => "0" | some _ => "1") ++ " " ++ boolStr (isUtf8 (nm n))
      | none => "bad-op"
    | ["u2u", how, h] => match how.toNat?, parseHex h with
      | some hw, some s => (match Boost.utf8ToUtf8 hw s with | none => "throw" | some o => toHex o)
      | _, _ => "bad-op"
    | ["u2w", how, h] => match how.toNat?, parseHex h with
      | some hw, some s => (match Boost.utf8ToCps hw s with | none => "throw" | some o => cpsStr o)
      | _, _ => "bad-op"
    | ["w2u", how, cs] => match how.toNat?, parseCps cs with
      | some hw, some us => (match Boost.utf32ToUtf8 hw us with | none => "throw" | some o => toHex o)
      | _, _ => "bad-op"
    | "form" :: ops => runForm ops
    | "J" :: "form" :: rest =>
      let ops := rest.takeWhile (· != "@")
      let toks := (rest.dropWhile (· != "@")).drop 1
      boolStr (judgeForm ops toks)
    -- judges (Spec only)
    | ["J", "u2u", how, h, out] => match parseHex h with
      | some s => boolStr (judgeU2U how s out) | none => "bad-op"
    | ["J", "u2w", how, h, out] => match parseHex h with
      | some s =>
        let wf := (Spec.wellFormedCount false s).isSome
        if out == "throw" then boolStr (how == "1" && !wf)
        else (match parseCps out with
          | some cps => boolStr (cps.all scalarB && (!wf || (cps.map Spec.encode).flatten == s) && (how != "1" || wf))
          | none => "0")
      | none => "bad-op"
    | ["J", "w2u", how, cs, out] => match parseCps cs with
      | some us =>
        let ok := us.all scalarB
        if out == "throw" then boolStr (how == "1" && !ok)
        else (match parseHex out with
          | some o => boolStr ((Spec.wellFormedCount false o).isSome && (!ok || o == (us.map Spec.encode).flatten) && (how != "1" || ok))
          | none => "0")
      | none => "bad-op"
    | ["J", "d", which, h, val, cons] => match parseHex h, cons.toNat? with
      | some s, some k => boolStr (judgeStep (which == "c1") (which == "b") s val k)
      | _, _ => "bad-op"
    | ["J", "v", html, h, ok, cnt] => match parseHex h, cnt.toNat? with
      | some s, some k =>
        (match Spec.wellFormedCount (html == "1") s with
         | some n => boolStr (ok == "1" && k == n)
         | none => boolStr (ok == "0"))
      | _, _ => "bad-op"
    | ["J", "filt8", rp, h, ok, out] => match parseHex rp, parseHex h with
      -- filtering: reported valid iff HTML-safe well formed; otherwise the new text is HTML-safe well formed
      | some [rp], some s =>
        let wf := (Spec.wellFormedCount true s).isSome
        if out == "same" then boolStr (ok == "1" && wf)
        else (match parseHex out with
          | some o => boolStr (ok == "0" && !wf &&
              ((Spec.wellFormedCount true o).isSome || !(rp == 0 || (Spec.wellFormedCount true [rp]).isSome)))
          | none => "bad-op")
      | _, _ => "bad-op"
    | ["J", "sb256", n, bitsS] => match parseHex n with
      | some n =>
        let l := bitsS.toList
        boolStr (bitsS.length == 256 &&
          (List.range 256).all fun c => Spec.nameDemands (Spec.normName (nm n)) (fun k => l.getD k '0' == '1') c)
      | none => "bad-op"
    | _ => "bad-op"
  ((), r)

def main : IO Unit := lineLoop () step
