import Cppcms.Common
import Cppcms.C14.Gen
/-!
# C14 model: the two UTF-8 decoders, the whole-string validators, the single-byte
code-page validators with their name dispatch, and `validate_or_filter`.

Every condition, constant and bit expression comes from `Gen.lean` (regenerated from the
C++ source on each run).  Transcribed by hand here, and tied to the code by the translator's
statement-sequence templates plus the correspondence run: the order of the statements of
`utf8::next` / `utf_traits<char,1>::decode` (end-of-input tests, the fall-through `switch`),
the `validate` loops, the per-byte loop of the single-byte validators (`count++` *before* the
test), `std::map` lookup with `encodings_comparator`, and the two filter loops.

An iterator position is the list of bytes not yet consumed.
-/
namespace Cppcms.C14
open Cppcms

/-- result of one decoding step (`utf::illegal = 0xFFFFFFFF`, booster's `incomplete = 0xFFFFFFFE`) -/
inductive Out where
  | cp (v : Nat)
  | illegal
  | incomplete
  deriving DecidableEq, Repr

/-- `uint32_t` / `code_point` accumulator -/
def u32 (n : Nat) : Nat := n % 4294967296

/-! ## `cppcms::utf8::next` (private/utf_iterator.h) -/
namespace Cms

/-- one `case k:` arm after the end test: `none` = `return illegal` -/
def arm (k c tmp : Nat) : Option Nat :=
  match k with
  | 3 => if Gen.Cms.bad3 tmp then none else some (u32 (Gen.Cms.push3 c tmp))
  | 2 => if Gen.Cms.bad2 tmp then none else some (u32 (Gen.Cms.push2 c tmp))
  | _ => if Gen.Cms.bad1 tmp then none else some (u32 (Gen.Cms.push1 c tmp))

/-- the fall-through `switch(trail_size)` entered at `case k`: `(some c | none = illegal, position)` -/
def trails : Nat → Nat → Bytes → Option Nat × Bytes
  | 0, c, p => (some c, p)
  | _ + 1, _, [] => (none, [])                      -- `if(p==e) return illegal;`
  | k + 1, c, t :: p =>                             -- `tmp = *p++;`
    match arm (k + 1) c t.toNat with
    | none => (none, p)
    | some c' => trails k c' p

/-- the three checks after the switch -/
def finish (html : Bool) (ts c : Nat) : Out :=
  if Gen.Cms.invalidCp c then .illegal
  else if Gen.Cms.notShortest c ts then .illegal
  else if Gen.Cms.htmlMulti html c then .illegal
  else .cp c

/-- `uint32_t next(Iterator &p, Iterator e, bool html)`: `(returned value, p afterwards)` -/
def next (html : Bool) : Bytes → Out × Bytes
  | [] => (.illegal, [])
  | lead :: p =>
    match Gen.Cms.trailLength lead.toNat with
    | none => (.illegal, p)
    | some 0 => (if Gen.Cms.asciiOk html lead.toNat then .cp lead.toNat else .illegal, p)
    | some ts =>
      match trails ts (u32 (Gen.Cms.leadMask lead.toNat ts)) p with
      | (none, p') => (.illegal, p')
      | (some c, p') => (finish html ts c, p')

end Cms

/-! ## `booster::locale::utf::utf_traits<char,1>::decode` (booster/booster/locale/utf.h) -/
namespace Boost

def arm (k c tmp : Nat) : Option Nat :=
  match k with
  | 3 => if Gen.Boost.bad3 tmp then none else some (u32 (Gen.Boost.push3 c tmp))
  | 2 => if Gen.Boost.bad2 tmp then none else some (u32 (Gen.Boost.push2 c tmp))
  | _ => if Gen.Boost.bad1 tmp then none else some (u32 (Gen.Boost.push1 c tmp))

/-- as `Cms.trails`, but running out of input is `incomplete`, a non-trail byte `illegal` -/
def trails : Nat → Nat → Bytes → Except Out Nat × Bytes
  | 0, c, p => (.ok c, p)
  | _ + 1, _, [] => (.error .incomplete, [])
  | k + 1, c, t :: p =>
    match arm (k + 1) c t.toNat with
    | none => (.error .illegal, p)
    | some c' => trails k c' p

def finish (ts c : Nat) : Out :=
  if Gen.Boost.invalidCp c then .illegal
  else if Gen.Boost.notShortest c ts then .illegal
  else .cp c

def decode : Bytes → Out × Bytes
  | [] => (.incomplete, [])
  | lead :: p =>
    match Gen.Boost.trailLength lead.toNat with
    | none => (.illegal, p)
    | some 0 => (.cp lead.toNat, p)
    | some ts =>
      match trails ts (u32 (Gen.Boost.leadMask lead.toNat ts)) p with
      | (.error o, p') => (o, p')
      | (.ok c, p') => (finish ts c, p')

end Boost

/-! ## `booster::locale::conv::utf_to_utf` (booster/booster/locale/encoding_utf.h) -/
namespace Boost

/-- `utf_traits<char>::encode(value,out)`: the bytes appended (`static_cast<char>` = low 8 bits).
Defined on every 32-bit value, as the C++ is: the caller is expected to pass code points only. -/
def encode (value : Nat) : Bytes :=
  if Gen.Boost.encC1 value then [UInt8.ofNat (Gen.Boost.encE11 value)]
  else if Gen.Boost.encC2 value then [UInt8.ofNat (Gen.Boost.encE21 value), UInt8.ofNat (Gen.Boost.encE22 value)]
  else if Gen.Boost.encC3 value then
    [UInt8.ofNat (Gen.Boost.encE31 value), UInt8.ofNat (Gen.Boost.encE32 value), UInt8.ofNat (Gen.Boost.encE33 value)]
  else
    [UInt8.ofNat (Gen.Boost.encE41 value), UInt8.ofNat (Gen.Boost.encE42 value),
     UInt8.ofNat (Gen.Boost.encE43 value), UInt8.ofNat (Gen.Boost.encE44 value)]

/-- the `code_point` a decoder call returns -/
def code : Out → Nat
  | .cp v => v
  | .illegal => Gen.boostIllegal
  | .incomplete => Gen.boostIncomplete

/-- the loop of `utf_to_utf<CharOut,char>`: `none` = `throw conversion_error()`, otherwise the
values handed to `utf_traits<CharOut>::encode`, in order.  After a rejected sequence the input
position is wherever `decode` left it (so a non-trail byte that ended a sequence is swallowed
with it).  Fuel = input length (`decode` consumes at least one byte of a non-empty input). -/
def u2uFuel (how : Nat) : Nat → Bytes → Option (List Nat)
  | _, [] => some []
  | 0, _ :: _ => some []                                  -- unreachable
  | fuel + 1, p@(_ :: _) =>
    let r := decode p
    let c := code r.1
    if Gen.u2uIsError c then
      if Gen.u2uThrows how then none else u2uFuel how fuel r.2
    else (u2uFuel how fuel r.2).map (c :: ·)

/-- code points produced from UTF-8 input (`utf_to_utf<wchar_t>(char const*,…)`: UTF-32 `encode`
stores the value itself) -/
def utf8ToCps (how : Nat) (s : Bytes) : Option (List Nat) := u2uFuel how s.length s

/-- `utf_to_utf<char>(char const *begin,char const *end,how)` -/
def utf8ToUtf8 (how : Nat) (s : Bytes) : Option Bytes :=
  (utf8ToCps how s).map fun cs => (cs.map encode).flatten

/-- `utf_traits<wchar_t>::decode` on one 32-bit unit -/
def decode32 (c : Nat) : Out := if Gen.utf32Bad c then .illegal else .cp c

/-- `utf_to_utf<char>(wchar_t const *begin,wchar_t const *end,how)` (32-bit `wchar_t`) -/
def utf32ToUtf8 (how : Nat) : List Nat → Option Bytes
  | [] => some []
  | u :: rest =>
    let c := code (decode32 u)
    if Gen.u2uIsError c then
      if Gen.u2uThrows how then none else utf32ToUtf8 how rest
    else (utf32ToUtf8 how rest).map (encode c ++ ·)

end Boost

/-! ## whole strings -/

/-- number of bytes one call of `next` consumes from a non-empty position is at least one;
the loops below recurse on the position `next` leaves, with fuel = input length. -/
def validateFuel (html : Bool) : Nat → Bytes → Nat → Bool × Nat
  | _, [], count => (true, count)
  | 0, _ :: _, count => (false, count)             -- unreachable: fuel = length suffices (lemma `validate_fuel`)
  | fuel + 1, p@(_ :: _), count =>
    match Cms.next html p with
    | (.cp _, p') => validateFuel html fuel p' (count + 1)
    | _ => (false, count)

/-- `bool utf8::validate(p,e,count,html)`: `(result, count afterwards)`, `count` = value on entry -/
def validate (html : Bool) (s : Bytes) (count : Nat) : Bool × Nat := validateFuel html s.length s count

/-- `encoding::valid_utf8` = `utf8_valid` = `validate(p,e,count,true)` -/
def validUtf8 (s : Bytes) (count : Nat) : Bool × Nat := validate Gen.utf8ValidHtml s count

/-! ## single-byte code pages -/

/-- the loop of every `*_valid` template: `count++` happens before the byte is judged -/
def sbValidate (pred : Nat → Bool) : Bytes → Nat → Bool × Nat
  | [], count => (true, count)
  | c :: p, count => if pred c.toNat then sbValidate pred p (count + 1) else (false, count + 1)

/-! ## encoding names -/

/-- `encodings_comparator::next` applied until the terminating NUL: the sequence of characters
the comparator sees (digits and letters, letters lower-cased; the `char const*` ends at the first NUL) -/
def normalize : List Nat → List Nat
  | [] => []
  | c :: r =>
    if c == 0 then []
    else if Gen.cmpDigit c then c :: normalize r
    else if Gen.cmpLower c then c :: normalize r
    else if Gen.cmpUpper c then Gen.cmpToLower c % 256 :: normalize r
    else normalize r

/-- what a tester pointer is -/
inductive Tester where
  | utf8
  | single (idx : Nat)
  deriving DecidableEq, Repr

/-- the map after the constructor ran: a later assignment to an equivalent key overwrites, so the
*last* matching entry wins (`std::map::operator[]` with `encodings_comparator`) -/
def lookupIn (tbl : List (List Nat × Option Nat)) (name : List Nat) : Option Tester :=
  match (tbl.reverse.find? fun e => normalize e.1 == normalize name) with
  | none => none
  | some (_, none) => some .utf8
  | some (_, some i) => some (.single i)

/-- `validators_set::get(name)`; `none` = null pointer -/
def getTester (name : List Nat) : Option Tester := lookupIn Gen.nameTable name

def sbPred (i : Nat) : Nat → Bool := (Gen.sbPreds.getD i ("", fun _ => false)).2

/-- `is_utf8(name)`: neither `cmp(name,"utf8")` nor `cmp("utf8",name)` -/
def isUtf8 (name : List Nat) : Bool := normalize name == normalize Gen.utf8Name

/-- result of the public entry points -/
inductive Verdict where
  | ok (valid : Bool) (count : Nat)
  | external           -- no built-in validator: iconv/ICU conversion (not modelled)
  deriving DecidableEq, Repr

/-- what `valid` does once the tester pointer is known -/
def validWith (t : Option Tester) (s : Bytes) : Verdict :=
  match t with
  | some .utf8 => let r := validUtf8 s 0; .ok r.1 r.2
  | some (.single i) => let r := sbValidate (sbPred i) s 0; .ok r.1 r.2
  | none => .external

/-- `encoding::valid(std::string const &encoding, begin, end, count)` with `count = 0` on entry -/
def valid (name : List Nat) (s : Bytes) : Verdict := validWith (getTester name) s

/-! ## `validate_or_filter` -/

/-- bytes consumed between two positions -/
def consumed (before after : Bytes) : Bytes := before.take (before.length - after.length)

def replOut (repl : UInt8) : Bytes := if repl != 0 then [repl] else []

/-- first loop of `validate_or_filter_utf8`: `none` = all valid, `some prev` = position of the
first character that does not decode -/
def scanFuel : Nat → Bytes → Option Bytes
  | _, [] => none
  | 0, p@(_ :: _) => some p                          -- unreachable (fuel = length)
  | fuel + 1, p@(_ :: _) =>
    match Cms.next Gen.filterScanHtml p with
    | (.cp _, p') => scanFuel fuel p'
    | _ => some p

/-- second loop of `validate_or_filter_utf8` from position `p` -/
def filterFuel (repl : UInt8) : Nat → Bytes → Bytes
  | _, [] => []
  | 0, _ :: _ => []                                  -- unreachable (fuel = length)
  | fuel + 1, p@(_ :: p1) =>
    match Cms.next Gen.filterKeepHtml p with
    | (.cp _, p') => consumed p p' ++ filterFuel repl fuel p'        -- `output.append(prev,ptr)`
    | _ =>
      match Cms.next Gen.filterRetryHtml p with
      | (.cp _, p') => replOut repl ++ filterFuel repl fuel p'       -- well formed but not HTML-safe: one replacement
      | _ => replOut repl ++ filterFuel repl fuel p1                 -- `ptr = prev + 1`

def filterLoop (repl : UInt8) (p : Bytes) : Bytes := filterFuel repl p.length p

/-- `validate_or_filter_utf8(begin,end,output,replace)`: `(return value, some new output | none = output untouched)` -/
def filterUtf8 (s : Bytes) (repl : UInt8) : Bool × Option Bytes :=
  match scanFuel s.length s with
  | none => (true, none)
  | some prev => (false, some (consumed s prev ++ filterLoop repl prev))

/-- `validate_or_filter_single_byte_charset` -/
def filterSingle (pred : Nat → Bool) (s : Bytes) (repl : UInt8) : Bool × Option Bytes :=
  if (sbValidate pred s 0).1 then (true, none)
  else (false, some (s.flatMap fun c => if (sbValidate pred [c] 0).1 then [c] else replOut repl))

inductive FilterVerdict where
  | done (valid : Bool) (output : Option Bytes)
  | external
  deriving DecidableEq, Repr

/-- `encoding::validate_or_filter(encoding, begin, end, output, replace)` -/
def validateOrFilter (name : List Nat) (s : Bytes) (repl : UInt8) : FilterVerdict :=
  if isUtf8 name then let r := filterUtf8 s repl; .done r.1 r.2
  else match getTester name with
    | some (.single i) => let r := filterSingle (sbPred i) s repl; .done r.1 r.2
    | some .utf8 => let r := filterSingle (fun _ => false) s repl; .done r.1 r.2  -- unreachable: utf8 keys satisfy `isUtf8`
    | none => .external


/-! ## `cppcms::widgets::base_text` (src/form.cpp): the text widget as a state machine over requests -/
namespace Form

/-- the members `load`/`validate` read and write -/
structure St where
  value : Bytes
  isSet : Bool
  isValid : Bool
  codePoints : Nat          -- `size_t code_points_`
  low : Int
  high : Int
  validateCharset : Bool
  named : Bool              -- `!name().empty()`
  external : Bool           -- the last load went through the iconv/ICU fallback of `encoding::valid` (not modelled)
  deriving Repr, DecidableEq

/-- a freshly constructed widget; `cp0` stands for the indeterminate value of an uninitialised
`code_points_` (used only when the constructor does not initialise it) -/
def init (cp0 : Nat) : St :=
  { value := [], isSet := false, isValid := true, codePoints := Gen.Form.ctorCount.getD cp0,
    low := Gen.Form.ctorLow, high := Gen.Form.ctorHigh, validateCharset := Gen.Form.ctorValidateCharset,
    named := false, external := false }

/-- what one request offers to the widget: the locale's encoding name and the field
(`none` = no such field in the request) -/
structure Req where
  enc : List Nat
  field : Option Bytes

/-- `void base_text::load(http::context &)` -/
def load (st : St) (rq : Req) : St :=
  let st1 : St := { st with
    value := if Gen.Form.loadClearsValue then [] else st.value,
    codePoints := Gen.Form.loadResetCount.getD st.codePoints,
    isSet := Gen.Form.loadMarksSet.getD st.isSet,
    isValid := Gen.Form.loadMarksValid.getD st.isValid,
    external := false }
  if !st1.named then st1
  else match rq.field with
    | none => st1
    | some v =>
      if st1.validateCharset then
        let start := Gen.Form.loadCountBeforeValid.getD st1.codePoints
        match valid rq.enc v with               -- `encoding::valid(locale, …, code_points_)` adds to the count
        | .ok ok n => { st1 with value := v, codePoints := start + n, isValid := st1.isValid && ok }
        | .external => { st1 with value := v, codePoints := start, external := true }
      else { st1 with value := v, codePoints := v.length }

/-- `bool base_text::validate()`: `(return value, state afterwards)` -/
def validate (st : St) : Bool × St :=
  if !st.isValid then (false, st)
  else if Gen.Form.validateEarlyOk st.isSet st.low st.high then (true, { st with isValid := true })
  else if Gen.Form.validateOutOfLimits (st.codePoints : Int) st.low st.high then (false, { st with isValid := false })
  else (true, st)

/-- everything an application can do to the widget between and around requests -/
inductive Op where
  | load (rq : Req)
  | validate
  | limits (min max : Int)
  | nonEmpty
  | validateCharset (v : Bool)
  | setValue (v : Bytes)       -- `value(std::string)`
  | clear
  | name (nonEmpty : Bool)

def apply (st : St) : Op → St
  | .load rq => load st rq
  | .validate => (validate st).2
  | .limits a b => { st with low := a, high := b }
  | .nonEmpty => { st with low := Gen.Form.nonEmptyLow, high := Gen.Form.nonEmptyHigh }
  | .validateCharset v => { st with validateCharset := v }
  | .setValue v => { st with isSet := true, value := v }
  | .clear => { st with isSet := false }
  | .name b => { st with named := b }

def run (st : St) (ops : List Op) : St := ops.foldl apply st

end Form

end Cppcms.C14
