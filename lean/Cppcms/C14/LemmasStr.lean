import Cppcms.C14.Lemmas
/-!
Helper lemmas for C14, whole strings: `validate`, the filter loops, single-byte validators.
-/
set_option linter.unusedSimpArgs false
namespace Cppcms.C14
open Cppcms Spec

/-! ### `WellFormed` plumbing -/

theorem rfc_nonempty {v : Nat} {enc : Bytes} (h : Rfc3629 v enc) : enc ≠ [] := by
  intro he; subst he; cases h.1

theorem rfc_length_pos {v : Nat} {enc : Bytes} (h : Rfc3629 v enc) : 0 < enc.length := by
  cases enc with
  | nil => exact absurd rfl (rfc_nonempty h)
  | cons _ _ => simp

theorem wf_nil (html : Bool) (n : Nat) : WellFormed html [] n ↔ n = 0 := by
  constructor
  · rintro ⟨chars, hs, hl, hc⟩
    match chars with
    | [] => simpa using hl.symm
    | (v, enc) :: cs =>
      exfalso
      have := rfc_nonempty (hc (v, enc) (by simp)).1
      simp at hs
      exact this hs.1
  · rintro rfl
    exact ⟨[], rfl, rfl, by simp⟩

theorem wf_cons {html : Bool} {v : Nat} {enc rest : Bytes} {n : Nat}
    (hr : Rfc3629 v enc) (hm : modeOk html v = true) (h : WellFormed html rest n) :
    WellFormed html (enc ++ rest) (n + 1) := by
  obtain ⟨chars, hs, hl, hc⟩ := h
  refine ⟨(v, enc) :: chars, by simp [hs], by simp [hl], ?_⟩
  intro ch hch
  rcases List.mem_cons.1 hch with rfl | h'
  · exact ⟨hr, hm⟩
  · exact hc ch h'

theorem wf_uncons {html : Bool} {a : UInt8} {p : Bytes} {n : Nat} (h : WellFormed html (a :: p) n) :
    ∃ v enc rest m, a :: p = enc ++ rest ∧ Rfc3629 v enc ∧ modeOk html v = true ∧
      WellFormed html rest m ∧ n = m + 1 := by
  obtain ⟨chars, hs, hl, hc⟩ := h
  match chars with
  | [] => simp at hs
  | (v, enc) :: cs =>
    refine ⟨v, enc, (cs.map (·.2)).flatten, cs.length, by simpa using hs, (hc (v, enc) (by simp)).1,
      (hc (v, enc) (by simp)).2, ⟨cs, rfl, rfl, fun ch h => hc ch (by simp [h])⟩, by simpa using hl.symm⟩

theorem wf_append {html : Bool} {s t : Bytes} {n m : Nat}
    (hs : WellFormed html s n) (ht : WellFormed html t m) : WellFormed html (s ++ t) (n + m) := by
  obtain ⟨c1, e1, l1, h1⟩ := hs
  obtain ⟨c2, e2, l2, h2⟩ := ht
  refine ⟨c1 ++ c2, by simp [e1, e2], by simp [l1, l2], ?_⟩
  intro ch hch
  rcases List.mem_append.1 hch with h | h
  · exact h1 ch h
  · exact h2 ch h

/-! ### one step: what `next` leaves -/

theorem next_cp_iff (html : Bool) (bs rest : Bytes) (v : Nat) :
    Cms.next html bs = (.cp v, rest) ↔
      ∃ enc, bs = enc ++ rest ∧ Rfc3629 v enc ∧ modeOk html v = true := by
  constructor
  · exact Cms.next_cp_sound html bs rest v
  · rintro ⟨enc, rfl, hr, hm⟩
    exact Cms.next_cp_complete html enc rest v hr hm

theorem next_cp_shorter {html : Bool} {bs rest : Bytes} {v : Nat} (h : Cms.next html bs = (.cp v, rest)) :
    rest.length < bs.length := by
  obtain ⟨enc, rfl, hr, _⟩ := (next_cp_iff html bs rest v).1 h
  have := rfc_length_pos hr
  simp; omega

/-! ### `validate` -/

theorem validateFuel_spec (html : Bool) : ∀ (fuel : Nat) (s : Bytes) (cnt m : Nat), s.length ≤ fuel →
    (validateFuel html fuel s cnt = (true, m) ↔ ∃ n, m = cnt + n ∧ WellFormed html s n) := by
  intro fuel
  induction fuel with
  | zero =>
    intro s cnt m hl
    have : s = [] := List.eq_nil_of_length_eq_zero (by omega)
    subst this
    simp [validateFuel, wf_nil]
    omega
  | succ f ih =>
    intro s cnt m hl
    match s with
    | [] =>
      simp [validateFuel, wf_nil]
      omega
    | a :: p =>
      cases hn : Cms.next html (a :: p) with
      | mk o p' =>
        cases o with
        | cp v =>
          have hsh := next_cp_shorter hn
          obtain ⟨enc, he, hr, hm⟩ := (next_cp_iff html _ _ _).1 hn
          simp only [validateFuel, hn]
          rw [ih p' (cnt + 1) m (by simp at hsh hl; omega)]
          constructor
          · rintro ⟨n, rfl, hw⟩
            exact ⟨n + 1, by omega, by rw [he]; exact wf_cons hr hm hw⟩
          · rintro ⟨n, rfl, hw⟩
            obtain ⟨v', enc', rest', k, he', hr', hm', hw', rfl⟩ := wf_uncons hw
            have hn' := Cms.next_cp_complete html enc' rest' v' hr' hm'
            rw [← he', hn] at hn'
            cases hn'
            exact ⟨k, by omega, hw'⟩
        | illegal =>
          simp only [validateFuel, hn]
          constructor
          · intro h; cases h
          · rintro ⟨n, _, hw⟩
            obtain ⟨v', enc', rest', k, he', hr', hm', hw', rfl⟩ := wf_uncons hw
            have hn' := Cms.next_cp_complete html enc' rest' v' hr' hm'
            rw [← he', hn] at hn'
            cases hn'
        | incomplete =>
          simp only [validateFuel, hn]
          constructor
          · intro h; cases h
          · rintro ⟨n, _, hw⟩
            obtain ⟨v', enc', rest', k, he', hr', hm', hw', rfl⟩ := wf_uncons hw
            have hn' := Cms.next_cp_complete html enc' rest' v' hr' hm'
            rw [← he', hn] at hn'
            cases hn'

theorem validate_spec (html : Bool) (s : Bytes) (cnt m : Nat) :
    validate html s cnt = (true, m) ↔ ∃ n, m = cnt + n ∧ WellFormed html s n :=
  validateFuel_spec html s.length s cnt m (Nat.le_refl _)

theorem validateFuel_fst_cnt (html : Bool) : ∀ (fuel : Nat) (s : Bytes) (c1 c2 : Nat),
    (validateFuel html fuel s c1).1 = (validateFuel html fuel s c2).1 := by
  intro fuel
  induction fuel with
  | zero => intro s c1 c2; cases s <;> simp [validateFuel]
  | succ f ih =>
    intro s c1 c2
    match s with
    | [] => simp [validateFuel]
    | a :: p =>
      cases hn : Cms.next html (a :: p) with
      | mk o p' => cases o <;> simp only [validateFuel, hn]; exact ih _ _ _

/-! ### the UTF-8 filter -/

/-- admissible replacement: 0 (= delete) or a byte that is by itself HTML-safe well-formed text -/
def ReplOk (repl : UInt8) : Prop := repl = 0 ∨ ∃ n, WellFormed true [repl] n

theorem consumed_append (enc rest : Bytes) : consumed (enc ++ rest) rest = enc := by
  simp [consumed]

theorem replOut_wf {repl : UInt8} (h : ReplOk repl) : ∃ n, WellFormed true (replOut repl) n := by
  unfold replOut
  by_cases h0 : repl = 0
  · subst h0; exact ⟨0, (wf_nil true 0).2 rfl⟩
  · rcases h with h | h
    · exact absurd h h0
    · simpa [h0] using h

theorem keepHtml : Gen.filterKeepHtml = true := rfl
theorem scanHtml : Gen.filterScanHtml = true := rfl

theorem filterFuel_wf (repl : UInt8) (hr : ReplOk repl) : ∀ (fuel : Nat) (p : Bytes), p.length ≤ fuel →
    ∃ n, WellFormed true (filterFuel repl fuel p) n := by
  intro fuel
  induction fuel with
  | zero =>
    intro p hl
    have : p = [] := List.eq_nil_of_length_eq_zero (by omega)
    subst this
    exact ⟨0, by simp [filterFuel, wf_nil]⟩
  | succ f ih =>
    intro p hl
    match p with
    | [] => exact ⟨0, by simp [filterFuel, wf_nil]⟩
    | a :: p1 =>
      obtain ⟨nr, hrw⟩ := replOut_wf hr
      cases hn : Cms.next Gen.filterKeepHtml (a :: p1) with
      | mk o p' =>
        have hskip : ∃ n, WellFormed true (replOut repl ++ filterFuel repl f p1) n := by
          obtain ⟨n, hw⟩ := ih p1 (by simp at hl; omega)
          exact ⟨_, wf_append hrw hw⟩
        have hretry : ∃ n, WellFormed true
            (match Cms.next Gen.filterRetryHtml (a :: p1) with
              | (.cp _, p'') => replOut repl ++ filterFuel repl f p''
              | _ => replOut repl ++ filterFuel repl f p1) n := by
          cases hn2 : Cms.next Gen.filterRetryHtml (a :: p1) with
          | mk o2 p'' =>
            cases o2 with
            | cp v2 =>
              have hsh := next_cp_shorter hn2
              obtain ⟨n, hw⟩ := ih p'' (by simp at hsh hl; omega)
              exact ⟨_, wf_append hrw hw⟩
            | illegal => exact hskip
            | incomplete => exact hskip
        cases o with
        | cp v =>
          have hsh := next_cp_shorter hn
          rw [keepHtml] at hn
          obtain ⟨enc, he, hr', hm⟩ := (next_cp_iff true _ _ _).1 hn
          obtain ⟨n, hw⟩ := ih p' (by simp at hsh hl; omega)
          refine ⟨n + 1, ?_⟩
          simp only [filterFuel, keepHtml, hn]
          rw [he, consumed_append]
          exact wf_cons hr' hm hw
        | illegal => simp only [filterFuel, hn]; exact hretry
        | incomplete => simp only [filterFuel, hn]; exact hretry

/-- the first loop: `none` iff everything decodes; otherwise the text splits at the first
character that does not decode -/
theorem scanFuel_spec : ∀ (fuel : Nat) (s : Bytes), s.length ≤ fuel →
    (scanFuel fuel s = none ↔ ∃ n, WellFormed true s n) ∧
    (∀ prev, scanFuel fuel s = some prev →
      ∃ pre n, s = pre ++ prev ∧ WellFormed true pre n ∧ prev.length ≤ s.length) := by
  intro fuel
  induction fuel with
  | zero =>
    intro s hl
    have : s = [] := List.eq_nil_of_length_eq_zero (by omega)
    subst this
    exact ⟨by simp [scanFuel]; exact ⟨0, (wf_nil true 0).2 rfl⟩, by simp [scanFuel]⟩
  | succ f ih =>
    intro s hl
    match s with
    | [] => exact ⟨by simp [scanFuel]; exact ⟨0, (wf_nil true 0).2 rfl⟩, by simp [scanFuel]⟩
    | a :: p =>
      have hbad : Cms.next true (a :: p) = (Out.illegal, (Cms.next true (a :: p)).2) ∨
          Cms.next true (a :: p) = (Out.incomplete, (Cms.next true (a :: p)).2) →
          ¬ ∃ n, WellFormed true (a :: p) n := by
        rintro hb ⟨n, hw⟩
        obtain ⟨v', enc', rest', k, he', hr', hm', hw', rfl⟩ := wf_uncons hw
        have hn' := Cms.next_cp_complete true enc' rest' v' hr' hm'
        rw [← he'] at hn'
        rw [hn'] at hb
        rcases hb with hb | hb <;> cases hb
      cases hn : Cms.next Gen.filterScanHtml (a :: p) with
      | mk o p' =>
        rw [scanHtml] at hn
        cases o with
        | cp v =>
          have hsh := next_cp_shorter hn
          obtain ⟨enc, he, hr, hm⟩ := (next_cp_iff true _ _ _).1 hn
          obtain ⟨ih1, ih2⟩ := ih p' (by simp at hsh hl; omega)
          simp only [scanFuel, scanHtml, hn]
          constructor
          · rw [ih1]
            constructor
            · rintro ⟨n, hw⟩; exact ⟨n + 1, by rw [he]; exact wf_cons hr hm hw⟩
            · rintro ⟨n, hw⟩
              obtain ⟨v', enc', rest', k, he', hr', hm', hw', rfl⟩ := wf_uncons hw
              have hn' := Cms.next_cp_complete true enc' rest' v' hr' hm'
              rw [← he', hn] at hn'
              cases hn'
              exact ⟨k, hw'⟩
          · intro prev hp
            obtain ⟨pre, n, e, hw, hlen⟩ := ih2 prev hp
            refine ⟨enc ++ pre, n + 1, by rw [he, e]; simp, wf_cons hr hm hw, ?_⟩
            simp at hsh ⊢; omega
        | illegal =>
          simp only [scanFuel, scanHtml, hn]
          refine ⟨⟨(fun h => by cases h), fun h => absurd h (hbad (Or.inl (by rw [hn])))⟩, ?_⟩
          intro prev hp
          cases hp
          exact ⟨[], 0, rfl, (wf_nil true 0).2 rfl, Nat.le_refl _⟩
        | incomplete =>
          simp only [scanFuel, scanHtml, hn]
          refine ⟨⟨(fun h => by cases h), fun h => absurd h (hbad (Or.inr (by rw [hn])))⟩, ?_⟩
          intro prev hp
          cases hp
          exact ⟨[], 0, rfl, (wf_nil true 0).2 rfl, Nat.le_refl _⟩

/-- the second loop is the identity on HTML-safe well-formed text -/
theorem filterFuel_id (repl : UInt8) : ∀ (fuel : Nat) (s : Bytes) (n : Nat), s.length ≤ fuel →
    WellFormed true s n → filterFuel repl fuel s = s := by
  intro fuel
  induction fuel with
  | zero =>
    intro s n hl _
    have : s = [] := List.eq_nil_of_length_eq_zero (by omega)
    subst this
    simp [filterFuel]
  | succ f ih =>
    intro s n hl hw
    match s with
    | [] => simp [filterFuel]
    | a :: p =>
      obtain ⟨v', enc', rest', k, he', hr', hm', hw', rfl⟩ := wf_uncons hw
      have hn' := Cms.next_cp_complete true enc' rest' v' hr' hm'
      rw [← he'] at hn'
      have hsh := next_cp_shorter hn'
      simp only [filterFuel, keepHtml, hn']
      rw [ih rest' k (by simp at hsh hl; omega) hw', he', consumed_append]

/-! ### single-byte code pages -/

theorem sbValidate_fst (pred : Nat → Bool) : ∀ (s : Bytes) (cnt : Nat),
    (sbValidate pred s cnt).1 = s.all (fun c => pred c.toNat) := by
  intro s
  induction s with
  | nil => intro cnt; rfl
  | cons c p ih =>
    intro cnt
    by_cases h : pred c.toNat = true
    · simp [sbValidate, h, ih]
    · simp [sbValidate, h]

theorem sbValidate_count_ok (pred : Nat → Bool) : ∀ (s : Bytes) (cnt : Nat),
    (sbValidate pred s cnt).1 = true → (sbValidate pred s cnt).2 = cnt + s.length := by
  intro s
  induction s with
  | nil => intro cnt _; rfl
  | cons c p ih =>
    intro cnt h
    by_cases hc : pred c.toNat = true
    · simp only [sbValidate, hc, if_true] at h ⊢
      rw [ih _ h]; simp; omega
    · simp [sbValidate, hc] at h

/-- on rejection `count` is the 1-based position of the first rejected byte -/
theorem sbValidate_count_bad (pred : Nat → Bool) : ∀ (s : Bytes) (cnt : Nat),
    (sbValidate pred s cnt).1 = false →
    (sbValidate pred s cnt).2 = cnt + (s.takeWhile (fun c => pred c.toNat)).length + 1 := by
  intro s
  induction s with
  | nil => intro cnt h; cases h
  | cons c p ih =>
    intro cnt h
    by_cases hc : pred c.toNat = true
    · simp only [sbValidate, hc, if_true] at h ⊢
      rw [ih _ h]; simp [List.takeWhile, hc]; omega
    · simp [sbValidate, hc, List.takeWhile]

theorem sbValidate_single (pred : Nat → Bool) (c : UInt8) : (sbValidate pred [c] 0).1 = pred c.toNat := by
  rw [sbValidate_fst]; simp

/-- the table of byte predicates, checked against the demands of the property: 17 x 256 cases -/
def sbDemandsAll : Bool :=
  Gen.sbPreds.all fun e => (List.range 256).all fun c => byteDemands false e.2 c

theorem sbDemandsAll_ok : sbDemandsAll = true := by decide +kernel

/-- every registered name resolves; UTF-8 names are exactly the ones `is_utf8` recognises; names of
the ISO-8859 family resolve to a predicate that also rejects C1 -/
def nameTableOk : Bool :=
  Gen.nameTable.all fun e =>
    match getTester e.1 with
    | none => false
    | some .utf8 => isUtf8 e.1
    | some (.single i) =>
      decide (i < Gen.sbPreds.length) && !isUtf8 e.1 &&
        (List.range 256).all fun c => byteDemands (isoFamily (normalize e.1)) (sbPred i) c

theorem nameTableOk_ok : nameTableOk = true := by decide +kernel

theorem range_all_byte {P : Nat → Bool} (h : (List.range 256).all P = true) (c : UInt8) : P c.toNat = true := by
  rw [List.all_eq_true] at h
  exact h _ (List.mem_range.2 c.toNat_lt)

end Cppcms.C14
