import Cppcms.C14.Lemmas
/-!
Helper lemmas for C14, whole strings: `validate`, the filter loops, single-byte validators.
-/
set_option linter.unusedSimpArgs false
namespace Cppcms.C14
open Cppcms Spec

/-! ### `WellFormed` plumbing -/

theorem rfc_nonempty {v : Nat} {enc : Bytes} (h : Rfc3629 v enc) : enc ≠ [] := by
  intro he; subst he; cases h.1

theorem rfc_length_pos {v : Nat} {enc : Bytes} (h : Rfc3629 v enc) : 0 < enc.length := by
  cases enc with
  | nil => exact absurd rfl (rfc_nonempty h)
  | cons _ _ => simp

theorem wf_nil (html : Bool) (n : Nat) : WellFormed html [] n ↔ n = 0 := by
  constructor
  · rintro ⟨chars, hs, hl, hc⟩
    match chars with
    | [] => simpa using hl.symm
    | (v, enc) :: cs =>
      exfalso
      have := rfc_nonempty (hc (v, enc) (by simp)).1
      simp at hs
      exact this hs.1
  · rintro rfl
    exact ⟨[], rfl, rfl, by simp⟩

theorem wf_cons {html : Bool} {v : Nat} {enc rest : Bytes} {n : Nat}
    (hr : Rfc3629 v enc) (hm : modeOk html v = true) (h : WellFormed html rest n) :
    WellFormed html (enc ++ rest) (n + 1) := by
  obtain ⟨chars, hs, hl, hc⟩ := h
  refine ⟨(v, enc) :: chars, by simp [hs], by simp [hl], ?_⟩
  intro ch hch
  rcases List.mem_cons.1 hch with rfl | h'
  · exact ⟨hr, hm⟩
  · exact hc ch h'

theorem wf_uncons {html : Bool} {a : UInt8} {p : Bytes} {n : Nat} (h : WellFormed html (a :: p) n) :
    ∃ v enc rest m, a :: p = enc ++ rest ∧ Rfc3629 v enc ∧ modeOk html v = true ∧
      WellFormed html rest m ∧ n = m + 1 := by
  obtain ⟨chars, hs, hl, hc⟩ := h
  match chars with
  | [] => simp at hs
  | (v, enc) :: cs =>
    refine ⟨v, enc, (cs.map (·.2)).flatten, cs.length, by simpa using hs, (hc (v, enc) (by simp)).1,
      (hc (v, enc) (by simp)).2, ⟨cs, rfl, rfl, fun ch h => hc ch (by simp [h])⟩, by simpa using hl.symm⟩

theorem wf_append {html : Bool} {s t : Bytes} {n m : Nat}
    (hs : WellFormed html s n) (ht : WellFormed html t m) : WellFormed html (s ++ t) (n + m) := by
  obtain ⟨c1, e1, l1, h1⟩ := hs
  obtain ⟨c2, e2, l2, h2⟩ := ht
  refine ⟨c1 ++ c2, by simp [e1, e2], by simp [l1, l2], ?_⟩
  intro ch hch
  rcases List.mem_append.1 hch with h | h
  · exact h1 ch h
  · exact h2 ch h

/-! ### one step: what `next` leaves -/

theorem next_cp_iff (html : Bool) (bs rest : Bytes) (v : Nat) :
    Cms.next html bs = (.cp v, rest) ↔
      ∃ enc, bs = enc ++ rest ∧ Rfc3629 v enc ∧ modeOk html v = true := by
  constructor
  · exact Cms.next_cp_sound html bs rest v
  · rintro ⟨enc, rfl, hr, hm⟩
    exact Cms.next_cp_complete html enc rest v hr hm

theorem next_cp_shorter {html : Bool} {bs rest : Bytes} {v : Nat} (h : Cms.next html bs = (.cp v, rest)) :
    rest.length < bs.length := by
  obtain ⟨enc, rfl, hr, _⟩ := (next_cp_iff html bs rest v).1 h
  have := rfc_length_pos hr
  simp; omega

/-! ### `validate` -/

theorem validateFuel_spec (html : Bool) : ∀ (fuel : Nat) (s : Bytes) (cnt m : Nat), s.length ≤ fuel →
    (validateFuel html fuel s cnt = (true, m) ↔ ∃ n, m = cnt + n ∧ WellFormed html s n) := by
  intro fuel
  induction fuel with
  | zero =>
    intro s cnt m hl
    have : s = [] := List.eq_nil_of_length_eq_zero (by omega)
    subst this
    simp [validateFuel, wf_nil]
    omega
  | succ f ih =>
    intro s cnt m hl
    match s with
    | [] =>
      simp [validateFuel, wf_nil]
      omega
    | a :: p =>
      cases hn : Cms.next html (a :: p) with
      | mk o p' =>
        cases o with
        | cp v =>
          have hsh := next_cp_shorter hn
          obtain ⟨enc, he, hr, hm⟩ := (next_cp_iff html _ _ _).1 hn
          simp only [validateFuel, hn]
          rw [ih p' (cnt + 1) m (by simp at hsh hl; omega)]
          constructor
          · rintro ⟨n, rfl, hw⟩
            exact ⟨n + 1, by omega, by rw [he]; exact wf_cons hr hm hw⟩
          · rintro ⟨n, rfl, hw⟩
            obtain ⟨v', enc', rest', k, he', hr', hm', hw', rfl⟩ := wf_uncons hw
            have hn' := Cms.next_cp_complete html enc' rest' v' hr' hm'
            rw [← he', hn] at hn'
            cases hn'
            exact ⟨k, by omega, hw'⟩
        | illegal =>
          simp only [validateFuel, hn]
          constructor
          · intro h; cases h
          · rintro ⟨n, _, hw⟩
            obtain ⟨v', enc', rest', k, he', hr', hm', hw', rfl⟩ := wf_uncons hw
            have hn' := Cms.next_cp_complete html enc' rest' v' hr' hm'
            rw [← he', hn] at hn'
            cases hn'
        | incomplete =>
          simp only [validateFuel, hn]
          constructor
          · intro h; cases h
          · rintro ⟨n, _, hw⟩
            obtain ⟨v', enc', rest', k, he', hr', hm', hw', rfl⟩ := wf_uncons hw
            have hn' := Cms.next_cp_complete html enc' rest' v' hr' hm'
            rw [← he', hn] at hn'
            cases hn'

theorem validate_spec (html : Bool) (s : Bytes) (cnt m : Nat) :
    validate html s cnt = (true, m) ↔ ∃ n, m = cnt + n ∧ WellFormed html s n :=
  validateFuel_spec html s.length s cnt m (Nat.le_refl _)

theorem validateFuel_fst_cnt (html : Bool) : ∀ (fuel : Nat) (s : Bytes) (c1 c2 : Nat),
    (validateFuel html fuel s c1).1 = (validateFuel html fuel s c2).1 := by
  intro fuel
  induction fuel with
  | zero => intro s c1 c2; cases s <;> simp [validateFuel]
  | succ f ih =>
    intro s c1 c2
    match s with
    | [] => simp [validateFuel]
    | a :: p =>
      cases hn : Cms.next html (a :: p) with
      | mk o p' => cases o <;> simp only [validateFuel, hn]; exact ih _ _ _

/-! ### the UTF-8 filter -/

theorem consumed_append (enc rest : Bytes) : consumed (enc ++ rest) rest = enc := by
  simp [consumed]

theorem replOut_wf {repl : UInt8} (h : ReplOk repl) : ∃ n, WellFormed true (replOut repl) n := by
  unfold replOut
  by_cases h0 : repl = 0
  · subst h0; exact ⟨0, (wf_nil true 0).2 rfl⟩
  · rcases h with h | h
    · exact absurd h h0
    · simpa [h0] using h

theorem keepHtml : Gen.filterKeepHtml = true := rfl
theorem scanHtml : Gen.filterScanHtml = true := rfl

theorem filterFuel_wf (repl : UInt8) (hr : ReplOk repl) : ∀ (fuel : Nat) (p : Bytes), p.length ≤ fuel →
    ∃ n, WellFormed true (filterFuel repl fuel p) n := by
  intro fuel
  induction fuel with
  | zero =>
    intro p hl
    have : p = [] := List.eq_nil_of_length_eq_zero (by omega)
    subst this
    exact ⟨0, by simp [filterFuel, wf_nil]⟩
  | succ f ih =>
    intro p hl
    match p with
    | [] => exact ⟨0, by simp [filterFuel, wf_nil]⟩
    | a :: p1 =>
      obtain ⟨nr, hrw⟩ := replOut_wf hr
      cases hn : Cms.next Gen.filterKeepHtml (a :: p1) with
      | mk o p' =>
        have hskip : ∃ n, WellFormed true (replOut repl ++ filterFuel repl f p1) n := by
          obtain ⟨n, hw⟩ := ih p1 (by simp at hl; omega)
          exact ⟨_, wf_append hrw hw⟩
        have hretry : ∃ n, WellFormed true
            (match Cms.next Gen.filterRetryHtml (a :: p1) with
              | (.cp _, p'') => replOut repl ++ filterFuel repl f p''
              | _ => replOut repl ++ filterFuel repl f p1) n := by
          cases hn2 : Cms.next Gen.filterRetryHtml (a :: p1) with
          | mk o2 p'' =>
            cases o2 with
            | cp v2 =>
              have hsh := next_cp_shorter hn2
              obtain ⟨n, hw⟩ := ih p'' (by simp at hsh hl; omega)
              exact ⟨_, wf_append hrw hw⟩
            | illegal => exact hskip
            | incomplete => exact hskip
        cases o with
        | cp v =>
          have hsh := next_cp_shorter hn
          rw [keepHtml] at hn
          obtain ⟨enc, he, hr', hm⟩ := (next_cp_iff true _ _ _).1 hn
          obtain ⟨n, hw⟩ := ih p' (by simp at hsh hl; omega)
          refine ⟨n + 1, ?_⟩
          simp only [filterFuel, keepHtml, hn]
          rw [he, consumed_append]
          exact wf_cons hr' hm hw
        | illegal => simp only [filterFuel, hn]; exact hretry
        | incomplete => simp only [filterFuel, hn]; exact hretry

/-- the first loop: `none` iff everything decodes; otherwise the text splits at the first
character that does not decode -/
theorem scanFuel_spec : ∀ (fuel : Nat) (s : Bytes), s.length ≤ fuel →
    (scanFuel fuel s = none ↔ ∃ n, WellFormed true s n) ∧
    (∀ prev, scanFuel fuel s = some prev →
      ∃ pre n, s = pre ++ prev ∧ WellFormed true pre n ∧ prev.length ≤ s.length) := by
  intro fuel
  induction fuel with
  | zero =>
    intro s hl
    have : s = [] := List.eq_nil_of_length_eq_zero (by omega)
    subst this
    exact ⟨by simp [scanFuel]; exact ⟨0, (wf_nil true 0).2 rfl⟩, by simp [scanFuel]⟩
  | succ f ih =>
    intro s hl
    match s with
    | [] => exact ⟨by simp [scanFuel]; exact ⟨0, (wf_nil true 0).2 rfl⟩, by simp [scanFuel]⟩
    | a :: p =>
      have hbad : Cms.next true (a :: p) = (Out.illegal, (Cms.next true (a :: p)).2) ∨
          Cms.next true (a :: p) = (Out.incomplete, (Cms.next true (a :: p)).2) →
          ¬ ∃ n, WellFormed true (a :: p) n := by
        rintro hb ⟨n, hw⟩
        obtain ⟨v', enc', rest', k, he', hr', hm', hw', rfl⟩ := wf_uncons hw
        have hn' := Cms.next_cp_complete true enc' rest' v' hr' hm'
        rw [← he'] at hn'
        rw [hn'] at hb
        rcases hb with hb | hb <;> cases hb
      cases hn : Cms.next Gen.filterScanHtml (a :: p) with
      | mk o p' =>
        rw [scanHtml] at hn
        cases o with
        | cp v =>
          have hsh := next_cp_shorter hn
          obtain ⟨enc, he, hr, hm⟩ := (next_cp_iff true _ _ _).1 hn
          obtain ⟨ih1, ih2⟩ := ih p' (by simp at hsh hl; omega)
          simp only [scanFuel, scanHtml, hn]
          constructor
          · rw [ih1]
            constructor
            · rintro ⟨n, hw⟩; exact ⟨n + 1, by rw [he]; exact wf_cons hr hm hw⟩
            · rintro ⟨n, hw⟩
              obtain ⟨v', enc', rest', k, he', hr', hm', hw', rfl⟩ := wf_uncons hw
              have hn' := Cms.next_cp_complete true enc' rest' v' hr' hm'
              rw [← he', hn] at hn'
              cases hn'
              exact ⟨k, hw'⟩
          · intro prev hp
            obtain ⟨pre, n, e, hw, hlen⟩ := ih2 prev hp
            refine ⟨enc ++ pre, n + 1, by rw [he, e]; simp, wf_cons hr hm hw, ?_⟩
            simp at hsh ⊢; omega
        | illegal =>
          simp only [scanFuel, scanHtml, hn]
          refine ⟨⟨(fun h => by cases h), fun h => absurd h (hbad (Or.inl (by rw [hn])))⟩, ?_⟩
          intro prev hp
          cases hp
          exact ⟨[], 0, rfl, (wf_nil true 0).2 rfl, Nat.le_refl _⟩
        | incomplete =>
          simp only [scanFuel, scanHtml, hn]
          refine ⟨⟨(fun h => by cases h), fun h => absurd h (hbad (Or.inr (by rw [hn])))⟩, ?_⟩
          intro prev hp
          cases hp
          exact ⟨[], 0, rfl, (wf_nil true 0).2 rfl, Nat.le_refl _⟩

/-- the second loop is the identity on HTML-safe well-formed text -/
theorem filterFuel_id (repl : UInt8) : ∀ (fuel : Nat) (s : Bytes) (n : Nat), s.length ≤ fuel →
    WellFormed true s n → filterFuel repl fuel s = s := by
  intro fuel
  induction fuel with
  | zero =>
    intro s n hl _
    have : s = [] := List.eq_nil_of_length_eq_zero (by omega)
    subst this
    simp [filterFuel]
  | succ f ih =>
    intro s n hl hw
    match s with
    | [] => simp [filterFuel]
    | a :: p =>
      obtain ⟨v', enc', rest', k, he', hr', hm', hw', rfl⟩ := wf_uncons hw
      have hn' := Cms.next_cp_complete true enc' rest' v' hr' hm'
      rw [← he'] at hn'
      have hsh := next_cp_shorter hn'
      simp only [filterFuel, keepHtml, hn']
      rw [ih rest' k (by simp at hsh hl; omega) hw', he', consumed_append]

/-! ### single-byte code pages -/

theorem sbValidate_fst (pred : Nat → Bool) : ∀ (s : Bytes) (cnt : Nat),
    (sbValidate pred s cnt).1 = s.all (fun c => pred c.toNat) := by
  intro s
  induction s with
  | nil => intro cnt; rfl
  | cons c p ih =>
    intro cnt
    by_cases h : pred c.toNat = true
    · simp [sbValidate, h, ih]
    · simp [sbValidate, h]

theorem sbValidate_count_ok (pred : Nat → Bool) : ∀ (s : Bytes) (cnt : Nat),
    (sbValidate pred s cnt).1 = true → (sbValidate pred s cnt).2 = cnt + s.length := by
  intro s
  induction s with
  | nil => intro cnt _; rfl
  | cons c p ih =>
    intro cnt h
    by_cases hc : pred c.toNat = true
    · simp only [sbValidate, hc, if_true] at h ⊢
      rw [ih _ h]; simp; omega
    · simp [sbValidate, hc] at h

/-- on rejection `count` is the 1-based position of the first rejected byte -/
theorem sbValidate_count_bad (pred : Nat → Bool) : ∀ (s : Bytes) (cnt : Nat),
    (sbValidate pred s cnt).1 = false →
    (sbValidate pred s cnt).2 = cnt + (s.takeWhile (fun c => pred c.toNat)).length + 1 := by
  intro s
  induction s with
  | nil => intro cnt h; cases h
  | cons c p ih =>
    intro cnt h
    by_cases hc : pred c.toNat = true
    · simp only [sbValidate, hc, if_true] at h ⊢
      rw [ih _ h]; simp [List.takeWhile, hc]; omega
    · simp [sbValidate, hc, List.takeWhile]

theorem sbValidate_single (pred : Nat → Bool) (c : UInt8) : (sbValidate pred [c] 0).1 = pred c.toNat := by
  rw [sbValidate_fst]; simp

/-- the table of byte predicates, checked against the demands of the property: 17 x 256 cases -/
def sbDemandsAll : Bool :=
  Gen.sbPreds.all fun e => (List.range 256).all fun c => byteDemands false e.2 c

theorem sbDemandsAll_ok : sbDemandsAll = true := by decide +kernel

/-- every registered name resolves; UTF-8 names are exactly the ones `is_utf8` recognises; names of
the ISO-8859 family resolve to a predicate that also rejects C1, the ASCII names to one that
rejects every byte ≥ 0x80 -/
def nameTableOk : Bool :=
  Gen.nameTable.all fun e =>
    match getTester e.1 with
    | none => false
    | some .utf8 => isUtf8 e.1
    | some (.single i) =>
      decide (i < Gen.sbPreds.length) && !isUtf8 e.1 &&
        (List.range 256).all fun c => nameDemands (normalize e.1) (sbPred i) c

theorem nameTableOk_ok : nameTableOk = true := by decide +kernel

theorem range_all_byte {P : Nat → Bool} (h : (List.range 256).all P = true) (c : UInt8) : P c.toNat = true := by
  rw [List.all_eq_true] at h
  exact h _ (List.mem_range.2 c.toNat_lt)

end Cppcms.C14

namespace Cppcms.C14
open Cppcms Spec

/-! ### sanity of the specification itself -/

set_option maxRecDepth 4000 in
theorem rfc_scalar_shortest {v : Nat} {enc : Bytes} (h : Rfc3629 v enc) :
    Scalar v ∧ enc.length = shortestLen v := by
  obtain ⟨hu, hv⟩ := h
  have hs := shortestLen_cases v
  unfold Scalar
  match enc with
  | [] => cases hu
  | [a] =>
    have hu' : utf8Char [a.toNat] = true := hu
    have hv' : v = scalarOf [a.toNat] := hv
    rw [utf8Char1] at hu'; rw [scalarOf1] at hv'
    simp at hu'
    refine ⟨⟨by omega, by omega⟩, ?_⟩
    simp; omega
  | [a, b] =>
    have hu' : utf8Char [a.toNat, b.toNat] = true := hu
    have hv' : v = scalarOf [a.toNat, b.toNat] := hv
    rw [utf8Char2_iff] at hu'; rw [scalarOf2] at hv'
    refine ⟨⟨by omega, by omega⟩, ?_⟩
    simp; omega
  | [a, b, c] =>
    have hu' : utf8Char [a.toNat, b.toNat, c.toNat] = true := hu
    have hv' : v = scalarOf [a.toNat, b.toNat, c.toNat] := hv
    rw [utf8Char3_iff] at hu'; rw [scalarOf3] at hv'
    refine ⟨⟨by omega, by omega⟩, ?_⟩
    simp; omega
  | [a, b, c, d] =>
    have hu' : utf8Char [a.toNat, b.toNat, c.toNat, d.toNat] = true := hu
    have hv' : v = scalarOf [a.toNat, b.toNat, c.toNat, d.toNat] := hv
    rw [utf8Char4_iff] at hu'; rw [scalarOf4] at hv'
    refine ⟨⟨by omega, by omega⟩, ?_⟩
    simp; omega
  | _ :: _ :: _ :: _ :: _ :: _ => cases hu

theorem toNat_ofNat_lt {n : Nat} (h : n < 256) : (UInt8.ofNat n).toNat = n := by
  rw [UInt8.toNat_ofNat']; omega

theorem rfc_encode {v : Nat} (h : Scalar v) : Rfc3629 v (encode v) := by
  obtain ⟨h1, h2⟩ := h
  unfold encode
  by_cases c1 : v ≤ 0x7F
  · rw [if_pos c1]
    refine ⟨?_, ?_⟩
    · show utf8Char [(UInt8.ofNat v).toNat] = true
      rw [toNat_ofNat_lt (by omega), utf8Char1]; simpa using c1
    · show v = scalarOf [(UInt8.ofNat v).toNat]
      rw [toNat_ofNat_lt (by omega), scalarOf1]
  · rw [if_neg c1]
    by_cases c2 : v ≤ 0x7FF
    · rw [if_pos c2]
      refine ⟨?_, ?_⟩
      · show utf8Char [(UInt8.ofNat _).toNat, (UInt8.ofNat _).toNat] = true
        rw [toNat_ofNat_lt (by omega), toNat_ofNat_lt (by omega), utf8Char2_iff]; omega
      · show v = scalarOf [(UInt8.ofNat _).toNat, (UInt8.ofNat _).toNat]
        rw [toNat_ofNat_lt (by omega), toNat_ofNat_lt (by omega), scalarOf2]; omega
    · rw [if_neg c2]
      by_cases c3 : v ≤ 0xFFFF
      · rw [if_pos c3]
        refine ⟨?_, ?_⟩
        · show utf8Char [(UInt8.ofNat _).toNat, (UInt8.ofNat _).toNat, (UInt8.ofNat _).toNat] = true
          rw [toNat_ofNat_lt (by omega), toNat_ofNat_lt (by omega), toNat_ofNat_lt (by omega), utf8Char3_iff]; omega
        · show v = scalarOf [(UInt8.ofNat _).toNat, (UInt8.ofNat _).toNat, (UInt8.ofNat _).toNat]
          rw [toNat_ofNat_lt (by omega), toNat_ofNat_lt (by omega), toNat_ofNat_lt (by omega), scalarOf3]; omega
      · rw [if_neg c3]
        refine ⟨?_, ?_⟩
        · show utf8Char [(UInt8.ofNat _).toNat, (UInt8.ofNat _).toNat, (UInt8.ofNat _).toNat, (UInt8.ofNat _).toNat] = true
          rw [toNat_ofNat_lt (by omega), toNat_ofNat_lt (by omega), toNat_ofNat_lt (by omega),
            toNat_ofNat_lt (by omega), utf8Char4_iff]; omega
        · show v = scalarOf [(UInt8.ofNat _).toNat, (UInt8.ofNat _).toNat, (UInt8.ofNat _).toNat, (UInt8.ofNat _).toNat]
          rw [toNat_ofNat_lt (by omega), toNat_ofNat_lt (by omega), toNat_ofNat_lt (by omega),
            toNat_ofNat_lt (by omega), scalarOf4]; omega

set_option maxRecDepth 4000 in
theorem rfc_eq_encode {v : Nat} {e : Bytes} (h : Rfc3629 v e) : e = encode v := by
  obtain ⟨hu, hv⟩ := h
  unfold encode
  match e with
  | [] => cases hu
  | [a] =>
    have u1 : utf8Char [a.toNat] = true := hu
    have x1 : v = scalarOf [a.toNat] := hv
    rw [utf8Char1] at u1; rw [scalarOf1] at x1
    simp at u1
    rw [if_pos (by omega)]
    have ea : a = UInt8.ofNat v := UInt8.toNat_inj.1 (by rw [toNat_ofNat_lt (by omega)]; omega)
    rw [ea]
  | [a, b] =>
    have u1 : utf8Char [a.toNat, b.toNat] = true := hu
    have x1 : v = scalarOf [a.toNat, b.toNat] := hv
    rw [utf8Char2_iff] at u1; rw [scalarOf2] at x1
    rw [if_neg (by omega), if_pos (by omega)]
    have ea : a = UInt8.ofNat (0xC0 + v / 64) := UInt8.toNat_inj.1 (by rw [toNat_ofNat_lt (by omega)]; omega)
    have eb : b = UInt8.ofNat (0x80 + v % 64) := UInt8.toNat_inj.1 (by rw [toNat_ofNat_lt (by omega)]; omega)
    rw [← ea, ← eb]
  | [a, b, c] =>
    have u1 : utf8Char [a.toNat, b.toNat, c.toNat] = true := hu
    have x1 : v = scalarOf [a.toNat, b.toNat, c.toNat] := hv
    rw [utf8Char3_iff] at u1; rw [scalarOf3] at x1
    rw [if_neg (by omega), if_neg (by omega), if_pos (by omega)]
    have ea : a = UInt8.ofNat (0xE0 + v / 4096) := UInt8.toNat_inj.1 (by rw [toNat_ofNat_lt (by omega)]; omega)
    have eb : b = UInt8.ofNat (0x80 + v / 64 % 64) := UInt8.toNat_inj.1 (by rw [toNat_ofNat_lt (by omega)]; omega)
    have ec : c = UInt8.ofNat (0x80 + v % 64) := UInt8.toNat_inj.1 (by rw [toNat_ofNat_lt (by omega)]; omega)
    rw [← ea, ← eb, ← ec]
  | [a, b, c, d] =>
    have u1 : utf8Char [a.toNat, b.toNat, c.toNat, d.toNat] = true := hu
    have x1 : v = scalarOf [a.toNat, b.toNat, c.toNat, d.toNat] := hv
    rw [utf8Char4_iff] at u1; rw [scalarOf4] at x1
    rw [if_neg (by omega), if_neg (by omega), if_neg (by omega)]
    have ea : a = UInt8.ofNat (0xF0 + v / 262144) := UInt8.toNat_inj.1 (by rw [toNat_ofNat_lt (by omega)]; omega)
    have eb : b = UInt8.ofNat (0x80 + v / 4096 % 64) := UInt8.toNat_inj.1 (by rw [toNat_ofNat_lt (by omega)]; omega)
    have ec : c = UInt8.ofNat (0x80 + v / 64 % 64) := UInt8.toNat_inj.1 (by rw [toNat_ofNat_lt (by omega)]; omega)
    have ed : d = UInt8.ofNat (0x80 + v % 64) := UInt8.toNat_inj.1 (by rw [toNat_ofNat_lt (by omega)]; omega)
    rw [← ea, ← eb, ← ec, ← ed]
  | _ :: _ :: _ :: _ :: _ :: _ => cases hu


/-! ### names -/
theorem cmpDigit_eq (c : Nat) : Gen.cmpDigit c = decide (48 ≤ c ∧ c ≤ 57) := by
  unfold Gen.cmpDigit; rw [Bool.eq_iff_iff]; simp
theorem cmpLower_eq (c : Nat) : Gen.cmpLower c = decide (97 ≤ c ∧ c ≤ 122) := by
  unfold Gen.cmpLower; rw [Bool.eq_iff_iff]; simp
theorem cmpUpper_eq (c : Nat) : Gen.cmpUpper c = decide (65 ≤ c ∧ c ≤ 90) := by
  unfold Gen.cmpUpper; rw [Bool.eq_iff_iff]; simp
theorem cmpToLower_eq (c : Nat) (h : 65 ≤ c ∧ c ≤ 90) : Gen.cmpToLower c % 256 = c + 32 := by
  unfold Gen.cmpToLower; omega

theorem normalize_eq_normName : ∀ name : List Nat, normalize name = normName name := by
  intro name
  induction name with
  | nil => rfl
  | cons c r ih =>
    unfold normalize
    rw [cmpDigit_eq, cmpLower_eq, cmpUpper_eq, ih]
    unfold normName
    by_cases h0 : c = 0
    · subst h0; simp [List.takeWhile]
    · have hne : (c != 0) = true := by simp [h0]
      have h0' : (c == 0) = false := by simp [h0]
      simp only [h0', List.takeWhile_cons, hne, if_true, Bool.false_eq_true, if_false]
      by_cases hd : 48 ≤ c ∧ c ≤ 57
      · have ha : alnum c = true := by unfold alnum; simp; omega
        have hl : lower c = c := by unfold lower; rw [if_neg (by omega)]
        simp [hd, List.filter_cons, ha, hl]
      · by_cases hl : 97 ≤ c ∧ c ≤ 122
        · have ha : alnum c = true := by unfold alnum; simp; omega
          have hl' : lower c = c := by unfold lower; rw [if_neg (by omega)]
          simp [hd, hl, List.filter_cons, ha, hl']
        · by_cases hu : 65 ≤ c ∧ c ≤ 90
          · have ha : alnum c = true := by unfold alnum; simp; omega
            have hl' : lower c = c + 32 := by unfold lower; rw [if_pos hu]
            simp [hd, hl, hu, List.filter_cons, ha, hl', cmpToLower_eq c hu]
          · have ha : alnum c = false := by unfold alnum; simp; omega
            simp [hd, hl, hu, List.filter_cons, ha]


theorem seqLen_eq (n : Nat) : seqLen n = (leadClass n).map (· + 1) := by
  unfold seqLen leadClass
  repeat' split
  all_goals first | rfl | omega

theorem isTr_iff_tail (t : UInt8) : isTr t ↔ Spec.tail t.toNat = true := by
  unfold isTr Spec.tail; simp; omega

theorem decode_incomplete_iff' (bs : Bytes) : (Boost.decode bs).1 = .incomplete ↔ Truncated bs := by
  unfold Truncated
  match bs with
  | [] => simp [Boost.decode_nil]
  | a :: p =>
    simp only [reduceCtorEq, false_or, List.cons.injEq]
    rcases lead_cases a.toNat with h0 | hb | h2 | h3 | h4
    · rw [Boost.decode_ascii a p h0]
      simp only [reduceCtorEq, false_iff]
      rintro ⟨a', ts, n, ⟨rfl, rfl⟩, hs, hl, _⟩
      rw [seqLen_eq, leadClass_0 h0] at hs
      simp at hs; omega
    · rw [Boost.decode_badLead a p hb]
      simp only [reduceCtorEq, false_iff]
      rintro ⟨a', ts, n, ⟨rfl, rfl⟩, hs, hl, _⟩
      rw [seqLen_eq, leadClass_bad hb] at hs
      simp at hs
    · rw [Boost.decode_lead2 a p h2]
      have hs2 : seqLen a.toNat = some 2 := by rw [seqLen_eq, leadClass_1 h2]; rfl
      match p with
      | [] =>
        simp only [true_iff]
        exact ⟨a, [], 2, ⟨rfl, rfl⟩, hs2, by simp, by simp⟩
      | b :: p1 =>
        have : ¬ ∃ a' ts n, (a = a' ∧ b :: p1 = ts) ∧ seqLen a'.toNat = some n ∧ ts.length + 1 < n ∧
            ∀ t ∈ ts, Spec.tail t.toNat = true := by
          rintro ⟨a', ts, n, ⟨rfl, rfl⟩, hs, hl, _⟩
          rw [hs2] at hs; simp at hs hl; omega
        simp only [this, iff_false]
        repeat' split
        all_goals simp
    · rw [Boost.decode_lead3 a p h3]
      have hs3 : seqLen a.toNat = some 3 := by rw [seqLen_eq, leadClass_2 h3]; rfl
      match p with
      | [] =>
        simp only [true_iff]
        exact ⟨a, [], 3, ⟨rfl, rfl⟩, hs3, by simp, by simp⟩
      | [b] =>
        simp only
        by_cases hb : isTr b
        · simp only [hb, if_true, true_iff]
          exact ⟨a, [b], 3, ⟨rfl, rfl⟩, hs3, by simp, by simpa using (isTr_iff_tail b).1 hb⟩
        · simp only [hb, if_false, reduceCtorEq, false_iff]
          rintro ⟨a', ts, n, ⟨rfl, rfl⟩, hs, hl, ht⟩
          exact hb ((isTr_iff_tail b).2 (ht b (by simp)))
      | b :: c :: p2 =>
        have : ¬ ∃ a' ts n, (a = a' ∧ b :: c :: p2 = ts) ∧ seqLen a'.toNat = some n ∧ ts.length + 1 < n ∧
            ∀ t ∈ ts, Spec.tail t.toNat = true := by
          rintro ⟨a', ts, n, ⟨rfl, rfl⟩, hs, hl, _⟩
          rw [hs3] at hs; simp at hs hl; omega
        simp only [this, iff_false]
        repeat' split
        all_goals simp
    · rw [Boost.decode_lead4 a p h4]
      have hs4 : seqLen a.toNat = some 4 := by rw [seqLen_eq, leadClass_3 h4]; rfl
      match p with
      | [] =>
        simp only [true_iff]
        exact ⟨a, [], 4, ⟨rfl, rfl⟩, hs4, by simp, by simp⟩
      | [b] =>
        simp only
        by_cases hb : isTr b
        · simp only [hb, if_true, true_iff]
          exact ⟨a, [b], 4, ⟨rfl, rfl⟩, hs4, by simp, by simpa using (isTr_iff_tail b).1 hb⟩
        · simp only [hb, if_false, reduceCtorEq, false_iff]
          rintro ⟨a', ts, n, ⟨rfl, rfl⟩, hs, hl, ht⟩
          exact hb ((isTr_iff_tail b).2 (ht b (by simp)))
      | [b, c] =>
        simp only
        by_cases hb : isTr b
        · by_cases hc : isTr c
          · simp only [hb, hc, if_true, true_iff]
            refine ⟨a, [b, c], 4, ⟨rfl, rfl⟩, hs4, by simp, ?_⟩
            intro t ht
            simp at ht
            rcases ht with rfl | rfl
            · exact (isTr_iff_tail _).1 hb
            · exact (isTr_iff_tail _).1 hc
          · simp only [hb, hc, if_true, if_false, reduceCtorEq, false_iff]
            rintro ⟨a', ts, n, ⟨rfl, rfl⟩, hs, hl, ht⟩
            exact hc ((isTr_iff_tail c).2 (ht c (by simp)))
        · simp only [hb, if_false, reduceCtorEq, false_iff]
          rintro ⟨a', ts, n, ⟨rfl, rfl⟩, hs, hl, ht⟩
          exact hb ((isTr_iff_tail b).2 (ht b (by simp)))
      | b :: c :: d :: p3 =>
        have : ¬ ∃ a' ts n, (a = a' ∧ b :: c :: d :: p3 = ts) ∧ seqLen a'.toNat = some n ∧ ts.length + 1 < n ∧
            ∀ t ∈ ts, Spec.tail t.toNat = true := by
          rintro ⟨a', ts, n, ⟨rfl, rfl⟩, hs, hl, _⟩
          rw [hs4] at hs; simp at hs hl; omega
        simp only [this, iff_false]
        repeat' split
        all_goals simp


theorem undecodable_of_next {html : Bool} {a : UInt8} {p : Bytes}
    (h : ∀ v rest, Cms.next html (a :: p) ≠ (.cp v, rest)) : Undecodable html (a :: p) := by
  refine ⟨by simp, ?_⟩
  rintro ⟨v, enc, rest, he, hr, hm⟩
  exact h v rest (by rw [he]; exact Cms.next_cp_complete html enc rest v hr hm)

theorem validateFuel_false_spec (html : Bool) : ∀ (fuel : Nat) (s : Bytes) (cnt m : Nat), s.length ≤ fuel →
    validateFuel html fuel s cnt = (false, m) →
    ∃ pre suf n, s = pre ++ suf ∧ m = cnt + n ∧ WellFormed html pre n ∧ Undecodable html suf := by
  intro fuel
  induction fuel with
  | zero =>
    intro s cnt m hl h
    have : s = [] := List.eq_nil_of_length_eq_zero (by omega)
    subst this
    simp [validateFuel] at h
  | succ f ih =>
    intro s cnt m hl h
    match s with
    | [] => simp [validateFuel] at h
    | a :: p =>
      cases hn : Cms.next html (a :: p) with
      | mk o p' =>
        cases o with
        | cp v =>
          have hsh := next_cp_shorter hn
          obtain ⟨enc, he, hr, hm⟩ := (next_cp_iff html _ _ _).1 hn
          simp only [validateFuel, hn] at h
          obtain ⟨pre, suf, n, e, hmn, hw, hu⟩ := ih p' (cnt + 1) m (by simp at hsh hl; omega) h
          exact ⟨enc ++ pre, suf, n + 1, by rw [he, e]; simp, by omega, wf_cons hr hm hw, hu⟩
        | illegal =>
          simp only [validateFuel, hn] at h
          cases h
          exact ⟨[], a :: p, 0, rfl, rfl, (wf_nil html 0).2 rfl,
            undecodable_of_next (fun v rest hc => by rw [hn] at hc; cases hc)⟩
        | incomplete =>
          simp only [validateFuel, hn] at h
          cases h
          exact ⟨[], a :: p, 0, rfl, rfl, (wf_nil html 0).2 rfl,
            undecodable_of_next (fun v rest hc => by rw [hn] at hc; cases hc)⟩

/-- next always leaves a suffix of its input when it returns a code point -/
theorem filterFuel_sublist : ∀ (fuel : Nat) (p : Bytes), p.length ≤ fuel →
    (filterFuel 0 fuel p).Sublist p := by
  intro fuel
  induction fuel with
  | zero =>
    intro p hl
    have : p = [] := List.eq_nil_of_length_eq_zero (by omega)
    subst this
    simp [filterFuel]
  | succ f ih =>
    intro p hl
    match p with
    | [] => simp [filterFuel]
    | a :: p1 =>
      have hskip : (replOut 0 ++ filterFuel 0 f p1).Sublist (a :: p1) := by
        have := ih p1 (by simp at hl; omega)
        simpa [replOut] using List.Sublist.cons a this
      have hretry : (match Cms.next Gen.filterRetryHtml (a :: p1) with
              | (.cp _, p'') => replOut 0 ++ filterFuel 0 f p''
              | _ => replOut 0 ++ filterFuel 0 f p1).Sublist (a :: p1) := by
        cases hn2 : Cms.next Gen.filterRetryHtml (a :: p1) with
        | mk o2 p'' =>
          cases o2 with
          | cp v2 =>
            have hsh := next_cp_shorter hn2
            obtain ⟨enc, he, _, _⟩ := (next_cp_iff _ _ _ _).1 hn2
            have := ih p'' (by simp at hsh hl; omega)
            simp only [replOut]
            rw [he]
            simpa using this.trans (List.sublist_append_right enc p'')
          | illegal => exact hskip
          | incomplete => exact hskip
      cases hn : Cms.next Gen.filterKeepHtml (a :: p1) with
      | mk o p' =>
        cases o with
        | cp v =>
          have hsh := next_cp_shorter hn
          obtain ⟨enc, he, _, _⟩ := (next_cp_iff _ _ _ _).1 hn
          have := ih p' (by simp at hsh hl; omega)
          simp only [filterFuel, hn]
          rw [he, consumed_append]
          exact List.Sublist.append (List.Sublist.refl enc) this
        | illegal => simp only [filterFuel, hn]; exact hretry
        | incomplete => simp only [filterFuel, hn]; exact hretry


end Cppcms.C14
